(* SharedFmla — xlsx shared formulas (property C15).  Definitions only: model, spec, known
   classes.  Proofs are in SharedFmla_proofs.v.

   Modelled Rust functions (current /repo tree):
     src/xlsx/mod.rs           replace_cell_names, offset_cell_name
                               (coordinate_to_name, column_number_to_name, get_row_column,
                                get_dimension are modelled in Col26.v, written by agent c14)
     src/xlsx/cells_reader.rs  next_formula: the shared-formula part (offset map from the `ref`
                               attribute, the `formulas` vector, the lookup for member cells)
     src/xlsx/mod.rs           worksheet_formula: the filter on empty strings (Range::from_sparse is
                               Range.v)
   A formula text (Rust `&str`) is a [list N] of Unicode scalar values; the output buffer of
   replace_cell_names (`Vec<u8>`) is a [list N] of bytes.  The harness is built with overflow
   checks, so u32 / i64 arithmetic that overflows is [Panic] (a release build wraps instead; see
   notes/C15.md). *)
From Calamine Require Import Prelude Col26.
Open Scope N_scope.
Set Implicit Arguments.

(* ------------------------------------------------------------------ characters *)
Definition ch_dquote : N := 34.     (* dquote *)
Definition ch_apos : N := 39.       (* ''' *)
Definition ch_bang : N := 33.       (* '!' *)
Definition ch_lparen : N := 40.     (* '(' *)
Definition ch_dot : N := 46.
Definition ch_E : N := 69.
Definition ch_plus : N := 43.
Definition ch_minus : N := 45.

(* char::is_ascii_alphabetic / is_ascii_digit *)
Definition is_alpha (c : N) : bool := is_upper c || is_lower c.
Definition is_alnum (c : N) : bool := is_alpha c || is_digit c.
(* `c as u8` on a char: truncation of the scalar value to its low 8 bits *)
Definition u8 (c : N) : N := c mod 256.

(* ------------------------------------------------------------------ String::from_utf8 validity *)
(* The validation of core::str::from_utf8: well-formed UTF-8 only (no overlong forms, no
   surrogates, nothing above U+10FFFF). *)
Definition inr (lo hi x : N) : bool := (lo <=? x) && (x <=? hi).
Definition cont (x : N) : bool := inr 128 191 x.
Fixpoint utf8_valid_fuel (fuel : nat) (l : list N) : bool :=
  match fuel with
  | O => match l with [] => true | _ => false end
  | S f =>
    match l with
    | [] => true
    | b0 :: t =>
      if b0 <? 128 then utf8_valid_fuel f t
      else if inr 194 223 b0 then
        match t with b1 :: t' => cont b1 && utf8_valid_fuel f t' | _ => false end
      else if inr 224 239 b0 then
        match t with
        | b1 :: b2 :: t' =>
            (if b0 =? 224 then inr 160 191 b1
             else if b0 =? 237 then inr 128 159 b1 else cont b1)
            && cont b2 && utf8_valid_fuel f t'
        | _ => false
        end
      else if inr 240 244 b0 then
        match t with
        | b1 :: b2 :: b3 :: t' =>
            (if b0 =? 240 then inr 144 191 b1
             else if b0 =? 244 then inr 128 143 b1 else cont b1)
            && cont b2 && cont b3 && utf8_valid_fuel f t'
        | _ => false
        end
      else false
    end
  end.
Definition utf8_valid (l : list N) : bool := utf8_valid_fuel (length l) l.

(* ------------------------------------------------------------------ MODEL: offset_cell_name *)
(*  let cell = get_row_column(name.iter().map(|c| *c as u8).collect())?;
    coordinate_to_name(((cell.0 as i64 + offset.0) as u32, (cell.1 as i64 + offset.1) as u32)) *)
Definition I64MIN : Z := (-9223372036854775808)%Z.
Definition I64MAX : Z := 9223372036854775807%Z.
Definition add_i64 (a b : Z) : outcome Z :=          (* i64 + with overflow checks *)
  let s := (a + b)%Z in
  if ((I64MIN <=? s) && (s <=? I64MAX))%Z then Ok s else Panic.
Definition as_u32 (z : Z) : N := Z.to_N (z mod 4294967296)%Z.   (* `as u32` of an i64 *)

Definition offset_cell_name (name : list N) (off : Z * Z) : outcome (list N) :=
  do cell <- get_row_column (map u8 name);
  (* the tuple is built left to right: row first *)
  do r <- add_i64 (Z.of_N (fst cell)) (fst off);
  do c <- add_i64 (Z.of_N (snd cell)) (snd off);
  coordinate_to_name (as_u32 r, as_u32 c).

(* `if let Ok(cell_name) = offset_cell_name(..) { res.extend(cell_name) } else
    { res.extend(cell.iter().map(|c| *c as u8)) }`: an Err is swallowed, a panic is not *)
Definition flush_cell (cell : list N) (off : Z * Z) : outcome (list N) :=
  match offset_cell_name cell off with
  | Ok nm => Ok nm
  | Err _ => Ok (map u8 cell)
  | Panic => Panic
  | OutOfFuel => OutOfFuel
  end.

(* ------------------------------------------------------------------ MODEL: replace_cell_names *)
Record rstate := mkR { rs_res : list N; rs_cell : list N; rs_icr : bool; rs_inq : bool }.
Definition rs_init : rstate := mkR [] [] false false.

(* one iteration of `for c in s.chars()` *)
Definition rcn_step (off : Z * Z) (st : rstate) (c : N) : outcome rstate :=
  let inq := if c =? ch_dquote then negb (rs_inq st) else rs_inq st in
  if inq then Ok (mkR (rs_res st ++ [u8 c]) (rs_cell st) (rs_icr st) inq)
  else if is_alpha c then
    if rs_icr st then Ok (mkR (rs_res st ++ map u8 (rs_cell st)) [c] false inq)
    else Ok (mkR (rs_res st) (rs_cell st ++ [c]) (rs_icr st) inq)
  else if is_digit c then Ok (mkR (rs_res st) (rs_cell st ++ [c]) true inq)
  else
    do f <- flush_cell (rs_cell st) off;
    Ok (mkR (rs_res st ++ f ++ [u8 c]) [] false inq).

Fixpoint rcn_loop (off : Z * Z) (s : list N) (st : rstate) : outcome rstate :=
  match s with
  | [] => Ok st
  | c :: t => do st' <- rcn_step off st c; rcn_loop off t st'
  end.

(* the bytes handed to String::from_utf8 *)
Definition rcn_bytes (s : list N) (off : Z * Z) : outcome (list N) :=
  do st <- rcn_loop off s rs_init;
  match rs_cell st with
  | [] => Ok (rs_res st)
  | _ => do f <- flush_cell (rs_cell st) off; Ok (rs_res st ++ f)
  end.

Definition E_UTF8 : N := 10.
(* result: the UTF-8 bytes of the returned String *)
Definition replace_cell_names (s : list N) (off : Z * Z) : outcome (list N) :=
  do b <- rcn_bytes s off;
  if utf8_valid b then Ok b else Err E_UTF8.

(* ------------------------------------------------------------------ SPEC: token grammar *)
(* A formula is a list of tokens.  An area is [TRef; TSym ':'; TRef]; a sheet-qualified
   reference is [TSheet ..; TRef ..]; a function call is [TFunc name; args…; TSym ')'] (the
   opening parenthesis belongs to TFunc); multi-character operators are sequences of TSym. *)
Inductive token :=
| TRef (cabs : bool) (col : N) (rabs : bool) (row : N)   (* 0-based column / row, $ flags *)
| TSheet (quoted : bool) (name : list N)                 (* Sheet1!   'My sheet'!  *)
| TFunc (name : list N)                                  (* SUM(  LOG10(  _xlfn.STDEV.S( *)
| TName (name : list N)                                  (* defined name, TRUE, FALSE *)
| TNum (ip : list N) (fp : option (list N)) (ex : option (bool * list N))
                                                         (* 12  1.5  1E+20  2.5E-3 *)
| TStr (s : list N)                                      (* text with  doubled *)
| TSym (c : N)                                           (* operator or punctuation character *)
| TErr (k : N).                                          (* #REF! … *)

Definition error_texts : list (list N) :=
  [ [35;78;85;76;76;33]            (* #NULL! *)
  ; [35;68;73;86;47;48;33]         (* #DIV/0! *)
  ; [35;86;65;76;85;69;33]         (* #VALUE! *)
  ; [35;82;69;70;33]               (* #REF! *)
  ; [35;78;65;77;69;63]            (* #NAME? *)
  ; [35;78;85;77;33]               (* #NUM! *)
  ; [35;78;47;65] ].               (* #N/A *)

(* doubling of a delimiter character inside a quoted item *)
Fixpoint double_ch (q : N) (s : list N) : list N :=
  match s with
  | [] => []
  | c :: t => if c =? q then q :: q :: double_ch q t else c :: double_ch q t
  end.

Definition render_ref (ca : bool) (c : N) (ra : bool) (r : N) : list N :=
  a1_ref r c (negb ra) (negb ca).      (* Col26: [$]letters[$]digits *)

Definition render (t : token) : list N :=
  match t with
  | TRef ca c ra r => render_ref ca c ra r
  | TSheet false n => n ++ [ch_bang]
  | TSheet true n => [ch_apos] ++ double_ch ch_apos n ++ [ch_apos; ch_bang]
  | TFunc n => n ++ [ch_lparen]
  | TName n => n
  | TNum ip fp ex =>
      ip ++ (match fp with Some f => ch_dot :: f | None => [] end)
         ++ (match ex with
             | Some (neg, e) => ch_E :: (if neg then ch_minus else ch_plus) :: e
             | None => []
             end)
  | TStr s => [ch_dquote] ++ double_ch ch_dquote s ++ [ch_dquote]
  | TSym c => [c]
  | TErr k => nth (N.to_nat k) error_texts []
  end.

Definition render_all (ts : list token) : list N := concat (map render ts).

(* translation by (drow, dcol): exactly the relative components of cell references move *)
Definition move (abs : bool) (x : N) (d : Z) : N :=
  if abs then x else Z.to_N (Z.of_N x + d).
Definition translate (off : Z * Z) (t : token) : token :=
  match t with
  | TRef ca c ra r => TRef ca (move ca c (snd off)) ra (move ra r (fst off))
  | _ => t
  end.

(* ------------------------------------------------------------------ SPEC: well-formedness *)
Definition sym_chars : list N :=
  [43;45;42;47;94;38;61;60;62;37;40;41;44;59;58;32;123;125].   (* + - * / ^ & = < > % ( ) , ; : space { } *)
Definition name_char (c : N) : bool :=
  is_alnum c || (c =? 95) || (c =? ch_dot) || (128 <=? c).       (* _ . and non-ASCII letters *)
Definition name_start (c : N) : bool := is_alpha c || (c =? 95) || (128 <=? c).
Definition sheet_forbidden : list N := [58;92;47;63;42;91;93].    (* : \ / ? * [ ] *)
Definition nonempty (l : list N) : bool := match l with [] => false | _ => true end.
Definition digits_ok (l : list N) : bool := nonempty l && forallb is_digit l.

Definition tok_valid (t : token) : bool :=
  match t with
  | TRef _ c _ r => (c <? MAX_COLUMNS) && (r <? MAX_ROWS)
  | TSheet false n => nonempty n && forallb name_char n
  | TSheet true n => nonempty n && forallb (fun c => negb (existsb (N.eqb c) sheet_forbidden)) n
  | TFunc n => match n with c :: _ => name_start c && forallb name_char n | [] => false end
  | TName n => match n with
               | c :: _ => (name_start c || (c =? 92)) &&
                           forallb (fun c => name_char c || (c =? 92) || (c =? 63)) n
               | [] => false
               end
  | TNum ip fp ex =>
      digits_ok ip && (match fp with Some f => digits_ok f | None => true end)
      && (match ex with Some (_, e) => digits_ok e | None => true end)
  | TStr _ => true
  | TSym c => existsb (N.eqb c) sym_chars
  | TErr k => k <? 7
  end.

(* adjacency: a token whose text ends with an ASCII letter or digit must be followed by a
   token whose text starts with something else than a letter, a digit or a double quote
   (in a real formula: an operator, a comma, a parenthesis, a colon, '!' …) *)
Definition ends_alnum (u : list N) : bool :=
  match rev u with c :: _ => is_alnum c | [] => false end.
Definition starts_sep (u : list N) : bool :=
  match u with c :: _ => negb (is_alnum c) && negb (c =? ch_dquote) | [] => false end.
Fixpoint adjacent_ok (ts : list token) : bool :=
  match ts with
  | a :: ((b :: _) as rest) =>
      (if ends_alnum (render a) then starts_sep (render b) else true) && adjacent_ok rest
  | _ => true
  end.
Definition wf_formula (ts : list token) : bool := forallb tok_valid ts && adjacent_ok ts.

(* every reference lies on the sheet before and after translation, and the offset is the
   difference of two positions of the sheet *)
Definition off_ok (off : Z * Z) : bool :=
  ((- Z.of_N MAX_ROWS <? fst off) && (fst off <? Z.of_N MAX_ROWS) &&
   (- Z.of_N MAX_COLUMNS <? snd off) && (snd off <? Z.of_N MAX_COLUMNS))%Z.
Definition comp_in_range (abs : bool) (x : N) (d : Z) (lim : N) : bool :=
  (x <? lim) && (abs || ((0 <=? Z.of_N x + d) && (Z.of_N x + d <? Z.of_N lim))%Z).
Definition tok_in_range (off : Z * Z) (t : token) : bool :=
  match t with
  | TRef ca c ra r => comp_in_range ca c (snd off) MAX_COLUMNS && comp_in_range ra r (fst off) MAX_ROWS
  | _ => true
  end.
Definition in_rangeb (ts : list token) (off : Z * Z) : bool :=
  off_ok off && forallb (tok_in_range off) ts.
Definition in_range (ts : list token) (off : Z * Z) : Prop := in_rangeb ts off = true.

(* ------------------------------------------------------------------ KNOWN classes (F22) *)
Definition CL_MIXED : N := 1.       (* $A1 / A$1 *)
Definition CL_LOOKALIKE : N := 2.   (* LOG10(  'My Q1'!  my_A1 : part of a non-reference is rewritten *)
Definition CL_NONASCII : N := 3.    (* `c as u8` truncation *)
Definition CL_QUOTE : N := 4.       (* a double quote inside a quoted sheet name flips the string mode *)
Definition CL_OVERFLOW : N := 5.    (* Revenue2024!  1000000000 : u32 overflow in get_row_column *)

(* The part of the scanner state that does not depend on the offset: pending cell candidate,
   is_cell_row, in_quote. *)
Definition pstate := (list N * bool * bool)%type.
Definition p_init : pstate := ([], false, false).
Definition padv (st : pstate) (c : N) : pstate :=
  let '(cell, icr, inq) := st in
  let inq' := if c =? ch_dquote then negb inq else inq in
  if inq' then (cell, icr, inq')
  else if is_alpha c then (if icr then ([c], false, inq') else (cell ++ [c], icr, inq'))
  else if is_digit c then (cell ++ [c], true, inq')
  else ([], false, inq').

(* a candidate handed to offset_cell_name: harmless when it is rejected for every offset of
   the sheet *)
Definition LOOKALIKE_LIMIT : N := 32767.   (* MAX_COLUMNS + (MAX_COLUMNS - 1): no offset brings it back *)
Definition cell_class (cell : list N) : option N :=
  match get_row_column cell with
  | Ok rc => if snd rc <? LOOKALIKE_LIMIT then Some CL_LOOKALIKE else None
  | Err _ => None
  | Panic => Some CL_OVERFLOW
  | OutOfFuel => Some CL_OVERFLOW
  end.

Definition char_class (st : pstate) (c : N) : option N :=
  if 128 <=? c then Some CL_NONASCII else
  let '(cell, icr, inq) := st in
  let inq' := if c =? ch_dquote then negb inq else inq in
  if inq' then (if (c =? ch_dquote) && nonempty cell then Some CL_QUOTE else None)
  else if is_alnum c then None
  else cell_class cell.

(* class of a text that must come out unchanged: first problem met, in text order *)
Fixpoint text_class_from (u : list N) (st : pstate) : option N :=
  match u with
  | [] => let '(cell, _, inq) := st in if inq then Some CL_QUOTE else cell_class cell
  | c :: t => match char_class st c with
              | Some k => Some k
              | None => text_class_from t (padv st c)
              end
  end.
Definition text_class (u : list N) : option N := text_class_from u p_init.

Definition known_token (t : token) : option N :=
  match t with
  | TRef false _ false _ => None
  | TRef ca _ ra _ => if xorb ca ra then Some CL_MIXED else text_class (render t)
  | _ => text_class (render t)
  end.
Fixpoint known_C15 (ts : list token) : option N :=
  match ts with
  | [] => None
  | t :: r => match known_token t with Some k => Some k | None => known_C15 r end
  end.

(* mixed references are translated correctly when the column offset is 0 (vertical groups):
   the sharper class used by the second theorem *)
Definition known_token_v (t : token) : option N :=
  match t with
  | TRef true _ false _ => None       (* $A1 : the whole name moves, by (dr, 0) *)
  | TRef false _ true _ => text_class (render t)   (* A$1 : nothing moves *)
  | _ => known_token t
  end.
Fixpoint known_C15_v (ts : list token) : option N :=
  match ts with
  | [] => None
  | t :: r => match known_token_v t with Some k => Some k | None => known_C15_v r end
  end.

(* ------------------------------------------------------------------ MODEL: next_formula (shared part) *)
Definition omap := list ((N * N) * (Z * Z)).       (* HashMap<(u32,u32),(i64,i64)> *)
Definition pos_eqb (a b : N * N) : bool := (fst a =? fst b) && (snd a =? snd b).
Fixpoint omap_get (m : omap) (p : N * N) : option (Z * Z) :=
  match m with
  | [] => None
  | (k, v) :: t => if pos_eqb k p then Some v else omap_get t p
  end.
Definition iota (n : N) : list N := map N.of_nat (seq 0 (N.to_nat n)).

(*  if reference.start.0 != reference.end.0 { for i in 0..=(end.0 - start.0) { insert((start.0 + i, start.1),
        (start.0 as i64 - pos.0 as i64 + i as i64, 0)) } }
    else if reference.start.1 != reference.end.1 { for i in 0..=(end.1 - start.1) { insert((start.0, start.1 + i),
        (0, start.1 as i64 - pos.1 as i64 + i as i64)) } }
   The keys of one loop are distinct, so insertion order does not matter for lookups. *)
Definition build_offset_map (d : (N * N) * (N * N)) (pos : N * N) : omap :=
  let '(s, e) := d in
  if negb (fst s =? fst e) then
    map (fun i => ((fst s + i, snd s), ((Z.of_N (fst s) - Z.of_N (fst pos) + Z.of_N i)%Z, 0%Z)))
        (iota (fst e - fst s + 1))
  else if negb (snd s =? snd e) then
    map (fun i => ((fst s, snd s + i), (0%Z, (Z.of_N (snd s) - Z.of_N (snd pos) + Z.of_N i)%Z)))
        (iota (snd e - snd s + 1))
  else [].

Definition group_entry := (list N * omap)%type.
(*  while self.formulas.len() < shared_index { push(None) }  push(Some((f, offset_map))) *)
Definition push_group (fs : list (option group_entry)) (si : N) (g : group_entry)
  : list (option group_entry) :=
  fs ++ repeat None (N.to_nat si - length fs) ++ [Some g].

(* what the <f> element of a cell looks like *)
Inductive fkind :=
| FNone                                            (* no <f> *)
| FPlain (f : list N)                              (* <f>text</f> *)
| FMaster (si : N) (ref : list N) (f : list N)     (* <f t=shared ref=.. si=..>text</f> *)
| FMember (si : N) (own : list N)                  (* <f t=shared si=..>own</f>, own usually empty *)
| FSharedBad.                                      (* t=shared without a numeric si *)

(* the String reported for a cell: text as scalar values, or the UTF-8 bytes produced by
   replace_cell_names *)
Inductive fval := VText (s : list N) | VBytes (b : list N).
Definition fval_is_empty (v : fval) : bool :=
  match v with VText [] => true | VBytes [] => true | _ => false end.

Definition E_SI : N := 11.
Definition cell_step (fs : list (option group_entry)) (pos : N * N) (k : fkind)
  : outcome (list (option group_entry) * fval) :=
  match k with
  | FNone => Ok (fs, VText [])
  | FPlain f => Ok (fs, VText f)
  | FSharedBad => Err E_SI
  | FMaster si ref f =>
      do d <- get_dimension ref;
      Ok (push_group fs si (f, build_offset_map d pos), VText f)
  | FMember si own =>
      match nth_error fs (N.to_nat si) with
      | Some (Some (f, m)) =>
          match omap_get m pos with
          | Some off => do v <- replace_cell_names f off; Ok (fs, VBytes v)
          | None => Ok (fs, VText own)
          end
      | _ => Ok (fs, VText own)
      end
  end.

Definition fcell := ((N * N) * fkind)%type.
Fixpoint run_cells (fs : list (option group_entry)) (cells : list fcell)
  : outcome (list ((N * N) * fval)) :=
  match cells with
  | [] => Ok []
  | (pos, k) :: t =>
      do r <- cell_step fs pos k;
      do rest <- run_cells (fst r) t;
      Ok ((pos, snd r) :: rest)
  end.

(* worksheet_formula: every cell in document order, then `if !cell.val.is_empty()` *)
Definition sheet_formulas (cells : list fcell) : outcome (list ((N * N) * fval)) :=
  do vs <- run_cells [] cells;
  Ok (filter (fun pv => negb (fval_is_empty (snd pv))) vs).

(* ------------------------------------------------------------------ SPEC: groups *)
(* a shared-formula group as the file declares it *)
Record group := mkGroup {
  g_si : N;
  g_master : N * N;                 (* position of the cell that carries the text *)
  g_start : N * N; g_end : N * N;   (* the declared ref, start <= end componentwise *)
  g_tokens : list token
}.
Definition in_box (s e p : N * N) : bool :=
  (fst s <=? fst p) && (fst p <=? fst e) && (snd s <=? snd p) && (snd p <=? snd e).
Definition member_offset (g : group) (p : N * N) : Z * Z :=
  ((Z.of_N (fst p) - Z.of_N (fst (g_master g)))%Z, (Z.of_N (snd p) - Z.of_N (snd (g_master g)))%Z).
(* the text the property demands for the cell at p of group g *)
Definition member_formula (g : group) (p : N * N) : list N :=
  render_all (map (translate (member_offset g p)) (g_tokens g)).
Definition ref_text (s e : N * N) : list N :=
  a1_name (fst s) (snd s) ++ [ch_colon] ++ a1_name (fst e) (snd e).

Definition CL_BLOCK : N := 6.       (* 2-D ref: only the first column receives offsets *)
Definition CL_SI_ORDER : N := 7.    (* shared indices not strictly increasing in document order *)
(* the member at p is one the offset map does not serve correctly although the declared ref
   contains it: the ref spans several rows and p (or the master) is not in its first column *)
Definition known_member (g : group) (p : N * N) : option N :=
  if negb (fst (g_start g) =? fst (g_end g)) &&
     (negb (snd p =? snd (g_start g)) || negb (snd (g_master g) =? snd (g_start g)))
  then Some CL_BLOCK else None.

(* a sheet as the property sees it: cells in document order *)
Inductive scell :=
| SNone (p : N * N)                              (* a cell without formula *)
| SPlain (p : N * N) (f : list N)                (* an ordinary formula *)
| SMaster (g : group)                            (* the cell that declares group g *)
| SMember (p : N * N) (si : N) (own : list N).   (* a cell that refers to shared index si *)

Definition encode_cell (c : scell) : fcell :=
  match c with
  | SNone p => (p, FNone)
  | SPlain p f => (p, FPlain f)
  | SMaster g => (g_master g,
                  FMaster (g_si g) (ref_text (g_start g) (g_end g)) (render_all (g_tokens g)))
  | SMember p si own => (p, FMember si own)
  end.

Definition find_group (seen : list group) (si : N) : option group :=
  find (fun g => g_si g =? si) seen.
Definition seen_after (seen : list group) (c : scell) : list group :=
  match c with SMaster g => g :: seen | _ => seen end.

(* SPEC: the formula the property demands for each cell.  A member inside the declared ref of
   the group with its shared index gets the master formula translated by its own offset;
   every other cell keeps its own text. *)
Definition spec_value (seen : list group) (c : scell) : fval :=
  match c with
  | SNone _ => VText []
  | SPlain _ f => VText f
  | SMaster g => VText (render_all (g_tokens g))
  | SMember p si own =>
      match find_group seen si with
      | Some g => if in_box (g_start g) (g_end g) p then VBytes (member_formula g p) else VText own
      | None => VText own
      end
  end.
Fixpoint spec_cells (seen : list group) (cs : list scell) : list ((N * N) * fval) :=
  match cs with
  | [] => []
  | c :: t => (fst (encode_cell c), spec_value seen c) :: spec_cells (seen_after seen c) t
  end.

(* which class list applies at an offset: mixed references are fine when the column offset is 0 *)
Definition known_at (ts : list token) (off : Z * Z) : option N :=
  if (snd off =? 0)%Z then known_C15_v ts else known_C15 ts.

Definition group_okb (g : group) : bool :=
  (fst (g_start g) <=? fst (g_end g)) && (snd (g_start g) <=? snd (g_end g)) &&
  (fst (g_end g) <? MAX_ROWS) && (snd (g_end g) <? MAX_COLUMNS) &&
  in_box (g_start g) (g_end g) (g_master g).
Definition member_okb (g : group) (p : N * N) : bool :=
  negb (pos_eqb p (g_master g)) &&
  (match known_member g p with None => true | Some _ => false end) &&
  wf_formula (g_tokens g) && in_rangeb (g_tokens g) (member_offset g p) &&
  (match known_at (g_tokens g) (member_offset g p) with None => true | Some _ => false end).

(* the sheets covered by the group theorem: shared indices strictly increasing in document
   order, well-formed groups, and every member inside a declared ref is outside the known
   classes (2-D position, token classes at its offset) *)
Fixpoint sheet_okb (seen : list group) (last : option N) (cs : list scell) : bool :=
  match cs with
  | [] => true
  | c :: t =>
      (match c with
       | SMaster g => group_okb g && (match last with Some l => l <? g_si g | None => true end)
       | SMember p si _ =>
           match find_group seen si with
           | Some g => if in_box (g_start g) (g_end g) p then member_okb g p else true
           | None => true
           end
       | _ => true
       end) &&
      sheet_okb (seen_after seen c)
                (match c with SMaster g => Some (g_si g) | _ => last end) t
  end.
