(* Property C03 — XLSB: every cell record reads back at its position with its value.
   Only the property theorems (closed by [exact]), [Check] pins of the full statements, one
   non-vacuity example per hypothesis-carrying theorem, and [Print Assumptions].
   Model: XlsbRec.v (RecordIter, XlsbCellsReader::{new, next_cell}, read_shared_strings,
   worksheet_range_ref / worksheet_range, the encoder and the spec); proofs: XlsbRec_proofs.v;
   reused: RK.v / RK_proofs.v (RK words, C02), Utf16.v / Utf16_proofs.v (wide_str),
   Range.v / Range_proofs.v (from_sparse, C05), HeaderRow.v (lazy_cells, C08).
   [fdiv100] (IEEE division by 100.0 on bit patterns) is universally quantified. *)
From Calamine Require Import Prelude Range Range_spec Range_proofs RK RK_proofs Utf16 Utf16_proofs
  HeaderRow XlsbRec XlsbRec_proofs.
Open Scope N_scope.

(* ---- (1) record framing: ids in their 1- or 2-byte form, lengths in their 1..4-byte forms ---- *)
Theorem C03_varint_roundtrip :
  (forall (wide : bool) (id : N) (rest : list N), id < 16384 -> (wide = true \/ id < 128) ->
     read_type (enc_id wide id ++ rest) = Ok (id, rest) /\
     length (enc_id wide id) = (if wide then 2 else 1)%nat) /\
  (forall (k : nat) (n : N) (rest : list N), (k <= 3)%nat -> n < 128 ^ N.of_nat (S k) ->
     read_len (enc_len k n ++ rest) = Ok (n, rest) /\ length (enc_len k n) = S k).
Proof. exact varint_roundtrip. Qed.

(* a whole framed record: id, payload, and exactly its bytes consumed *)
Theorem C03_record_frame : forall (fr : frm) (id : N) (body rest : list N),
  wf_frame fr id body = true ->
  next_record (frame fr id body ++ rest) = Ok (id, body, rest).
Proof. exact next_record_frame. Qed.

(* ---- (2) records the cell reader does not interpret are transparent ----
   [interpreted] = BrtRowHdr, the cell records 1..11, the short cell records 12..18,
   BrtEndSheetData: the ids the loop of next_cell acts on.  Any other record, between any two
   records (short cell records included) and in any reader state (row, next_col), changes
   nothing. *)
Theorem C03_ignorable_transparent :
  forall (fdiv100 : N -> N) (en : env) (pre : list rawrec) (fr : frm) (id : N)
         (body rest : list N) (row ncol : N),
  forallb wf_raw pre = true -> wf_frame fr id body = true -> interpreted id = false ->
  cells_from fdiv100 en (flat_map enc_raw pre ++ frame fr id body ++ rest) row ncol =
  cells_from fdiv100 en (flat_map enc_raw pre ++ rest) row ncol.
Proof. exact ignorable_transparent. Qed.

(* the same at the level of layouts: the logical sheet does not see the inserted item — in
   particular a short record after it still stands right of the cell before it — and the layout
   stays legal *)
Theorem C03_ignorable_item_transparent :
  forall (fdiv100 : N -> N) (en : env) (a b : list (frm * item)) (row : N) (prev : option N)
         (fr : frm) (id : N) (body : list N),
  denote fdiv100 en row prev (a ++ (fr, IOther id body) :: b) = denote fdiv100 en row prev (a ++ b) /\
  shorts_placed prev (a ++ (fr, IOther id body) :: b) = shorts_placed prev (a ++ b).
Proof. exact (fun fd en a b row prev fr id body =>
                conj (denote_insert fd en a b row prev fr id body)
                     (shorts_placed_insert a b prev fr id body)). Qed.

(* the records a layout may carry as IOther are defined from the format (everything the
   CELLTABLE grammar gives no meaning of its own), and each of them is one the reader ignores *)
Theorem C03_other_records_ignored : forall id : N,
  cell_table_id id = false -> interpreted id = false.
Proof. exact cell_table_id_interpreted. Qed.

(* ---- (3) the table of interpreted record kinds ---- *)
Theorem C03_cell_table :
  forall (fdiv100 : N -> N) (en : env) (col style fl : N) (tail : list N), style < 16777216 ->
  let fmt := nthN (e_formats en) style in
  let hd := cell_head col style fl in
  let step := record_step fdiv100 en in
  (forall body, step 1 body = Ok (if 4 <=? lenN body then CBlank (rd 4 0 body) else CSkip)) /\
  (forall f, legal_form f = true ->
     step 2 (hd ++ le_bytes 4 (rk_encode f) ++ tail) =
       Ok (CCell (RVal (rk_wrap (xrk_form_value fdiv100 f) fmt (e_1904 en))))) /\
  (forall e, step 3 (hd ++ [err_code e] ++ tail) = Ok (CCell (RVal (DError e))) /\
             step 11 (hd ++ [err_code e] ++ tail) = Ok (CCell (RVal (DError e)))) /\
  (forall b, step 4 (hd ++ [flag b] ++ tail) = Ok (CCell (RVal (DBool b))) /\
             step 10 (hd ++ [flag b] ++ tail) = Ok (CCell (RVal (DBool b)))) /\
  (forall bits, bits < 18446744073709551616 ->
     step 5 (hd ++ le_bytes 8 bits ++ tail) =
       Ok (CCell (RVal (format_excel_f64 bits fmt (e_1904 en)))) /\
     step 9 (hd ++ le_bytes 8 bits ++ tail) =
       Ok (CCell (RVal (format_excel_f64 bits fmt (e_1904 en))))) /\
  (forall s, forallb scalarb s = true -> utf16_len s <= 32767 ->
     step 6 (hd ++ enc_wide s ++ tail) = Ok (CCell (RVal (DString s))) /\
     step 8 (hd ++ enc_wide s ++ tail) = Ok (CCell (RVal (DString s)))) /\
  (forall i s, i < 4294967296 -> nthN (e_strings en) i = Some s ->
     step 7 (hd ++ le_bytes 4 i ++ tail) = Ok (CCell (RShared s))) /\
  (forall row rtail, row < 4294967296 -> step 0 (le_bytes 4 row ++ rtail) = Ok (CRow row)) /\
  (forall body, step 146 body = Ok CEnd).
Proof. exact cell_table_kinds. Qed.

(* the same against the specification's value function, with the column *)
Theorem C03_cell_table_values :
  forall (fdiv100 : N -> N) (en : env) (col style fl : N) (v : cval) (tail : list N),
  col < 4294967296 -> style < 16777216 -> wf_cval en v = true ->
  let buf := cell_head col style fl ++ cval_bytes v ++ tail in
  rd 4 0 buf = col /\
  record_step fdiv100 en (cval_id v) buf =
    match cval_data fdiv100 en style v with
    | Some d => Ok (CCell d)
    | None => Ok (CBlank col)
    end.
Proof. exact cell_table. Qed.

(* the short cell records BrtShortBlank 0x0C, BrtShortRk 0x0D, BrtShortError 0x0E, BrtShortBool
   0x0F, BrtShortReal 0x10, BrtShortSt 0x11, BrtShortIsst 0x12 (body: 24-bit iStyleRef, one byte
   of flags, the value — no column): read as the long record of the same kind standing at
   next_col, the column right of the previous cell record of the row *)
Theorem C03_short_cell_table :
  forall (fdiv100 : N -> N) (en : env) (ncol style fl : N) (v : cval) (tail : list N),
  ncol < 4294967296 -> style < 16777216 -> wf_cval en v = true -> shortable v = true ->
  let tb := unshort (cval_id v + 11) (short_head style fl ++ cval_bytes v ++ tail) ncol in
  12 <= cval_id v + 11 <= 18 /\ rd 4 0 (snd tb) = ncol /\
  record_step fdiv100 en (fst tb) (snd tb) =
    match cval_data fdiv100 en style v with
    | Some d => Ok (CCell d)
    | None => Ok (CBlank ncol)
    end.
Proof. exact short_cell_table. Qed.

Theorem C03_err_codes_one_to_one :
  (forall e, parse_cerr (err_code e) = Ok e) /\
  (forall b e, parse_cerr b = Ok e -> b = err_code e).
Proof. exact (conj parse_cerr_code parse_cerr_inv). Qed.

(* RK numbers: every legal form, every 32-bit pattern, and the relation to BIFF8 (C02) *)
Theorem C03_rk_roundtrip : forall (fdiv100 : N -> N) (f : rk_form),
  legal_form f = true -> xrk_decode fdiv100 (rk_encode f) = xrk_form_value fdiv100 f.
Proof. exact xrk_roundtrip. Qed.

Theorem C03_rk_all_words : forall (fdiv100 : N -> N) (w : N), w < 4294967296 ->
  xrk_decode fdiv100 w = xrk_form_value fdiv100 (rk_form_of_word w).
Proof. exact xrk_decode_form. Qed.

Theorem C03_rk_as_in_biff8 : forall (fdiv100 : N -> N) (w : N), w < 4294967296 ->
  xrk_decode fdiv100 w = rk_decode fdiv100 w \/
  (N.testbit w 1 = true /\ N.odd w = true /\ Z.rem (signed30 (w / 4)) 100 = 0%Z /\
   xrk_decode fdiv100 w = RFloat (fdiv100 (z2f (signed30 (w / 4)))) /\
   rk_decode fdiv100 w = RInt (Z.quot (signed30 (w / 4)) 100)).
Proof. exact xrk_vs_biff8. Qed.

(* ---- the cell list of every legal layout, in stream order ---- *)
Theorem C03_sheet_cells : forall (fdiv100 : N -> N) (en : env) (c : layout),
  wf_layout en c = true ->
  sheet_cells fdiv100 en (encode_sheet c) = Ok (logical fdiv100 en c).
Proof. exact sheet_cells_encode. Qed.

Theorem C03_reader_cells : forall (fdiv100 : N -> N) (en : env) (c : layout),
  wf_layout en c = true ->
  reader_cells fdiv100 en (encode_sheet c) = Ok (logical fdiv100 en c).
Proof.
  exact (fun fd en c H => reader_cells_of_sheet_cells fd en _ (sheet_cells_encode fd en c H)).
Qed.

(* the fuel of the model (length of the part + 1) always suffices *)
Theorem C03_fuel_suffices : forall (fdiv100 : N -> N) (en : env) (f : nat) (s : list N) (row ncol : N),
  (length s < f)%nat -> cells_loop fdiv100 en f s row ncol <> OutOfFuel.
Proof. exact cells_loop_no_fuel_out. Qed.

(* ---- (4) the main theorem ---- *)
Theorem C03_xlsb_sheet_main : forall (fdiv100 : N -> N) (en : env) (L : list cellr) (c : layout),
  legal fdiv100 en c L ->
  worksheet_range_ref fdiv100 en FirstNonEmptyRow (encode_sheet c) = Ok (range_of (RVal DEmpty) L).
Proof. exact xlsb_sheet_main. Qed.

(* since Range::from_sparse takes min / max row bounds (commit 3140dd1) the order of the rows is
   immaterial: the same without the sortedness clause of [legal] *)
Theorem C03_xlsb_sheet_main_any_order : forall (fdiv100 : N -> N) (en : env) (c : layout),
  wf_layout en c = true ->
  worksheet_range_ref fdiv100 en FirstNonEmptyRow (encode_sheet c) =
    Ok (range_of (RVal DEmpty) (logical fdiv100 en c)).
Proof. exact xlsb_sheet_main_any_order. Qed.

Theorem C03_xlsb_sheet_values : forall (fdiv100 : N -> N) (en : env) (L : list cellr) (c : layout),
  legal fdiv100 en c L ->
  exists r, worksheet_range_ref fdiv100 en FirstNonEmptyRow (encode_sheet c) = Ok r /\ Wf r /\
    rect r = tight_bbox (map fst L) /\
    forall q, get_value r q = if in_rect r q then Some (last_write (RVal DEmpty) L q) else None.
Proof. exact xlsb_sheet_values. Qed.

Theorem C03_xlsb_sheet_main_data : forall (fdiv100 : N -> N) (en : env) (L : list cellr) (c : layout),
  legal fdiv100 en c L ->
  worksheet_range fdiv100 en FirstNonEmptyRow (encode_sheet c) =
    Ok (range_of DEmpty (map (fun x => (fst x, to_data (snd x))) L)).
Proof. exact xlsb_sheet_main_data. Qed.

(* shared strings: the table reads back, and indices resolve through it *)
Theorem C03_sst_roundtrip :
  forall (total : N) (items : list (frm * list N * list N)) (trailer : list N),
  total < 4294967296 -> lenN items < 4294967296 -> forallb wf_sst_item items = true ->
  read_shared_strings (Some (encode_sst total items trailer)) = Ok (sst_strings items).
Proof. exact sst_roundtrip. Qed.

Theorem C03_xlsb_workbook_main :
  forall (fdiv100 : N -> N) (formats : list cellfmt) (is1904 : bool) (total : N)
         (items : list (frm * list N * list N)) (trailer : list N) (L : list cellr) (c : layout),
  total < 4294967296 -> lenN items < 4294967296 -> forallb wf_sst_item items = true ->
  legal fdiv100 (mkEnv formats is1904 (sst_strings items)) c L ->
  workbook_range_ref fdiv100 formats is1904 (Some (encode_sst total items trailer))
                     FirstNonEmptyRow (encode_sheet c) = Ok (range_of (RVal DEmpty) L).
Proof. exact xlsb_workbook_main. Qed.

(* ---- totality after the C06 hardening: no byte string makes the reader panic ---- *)
Theorem C03_no_panic_framing :
  (forall s : list N, read_type s <> Panic /\ read_type s <> OutOfFuel) /\
  (forall s buf : list N, fill_buffer s buf <> Panic /\ fill_buffer s buf <> OutOfFuel) /\
  (forall s : list N, next_record s <> Panic /\ next_record s <> OutOfFuel) /\
  (forall (f : nat) (e : N) (s buf : list N), (length s < f)%nat ->
     skip_until f e s buf <> Panic /\ skip_until f e s buf <> OutOfFuel) /\
  (forall (f : nat) (rt : N) (bounds : list (N * option N)) (s buf : list N), (length s < f)%nat ->
     next_skip_blocks f rt bounds s buf <> Panic /\ next_skip_blocks f rt bounds s buf <> OutOfFuel).
Proof. exact no_panic_framing. Qed.

(* all inputs, no well-formedness hypothesis; the fuel is the one the model fixes itself
   (length of the part + 1) *)
Theorem C03_no_panic_reader : forall (fdiv100 : N -> N) (en : env) (s : list N),
  (reader_cells fdiv100 en s <> Panic /\ reader_cells fdiv100 en s <> OutOfFuel) /\
  (sheet_cells fdiv100 en s <> Panic /\ sheet_cells fdiv100 en s <> OutOfFuel).
Proof. exact no_panic_reader. Qed.

Theorem C03_no_panic_cell_loop :
  forall (fdiv100 : N -> N) (en : env) (f : nat) (s : list N) (row ncol : N),
  (length s < f)%nat ->
  cells_loop fdiv100 en f s row ncol <> Panic /\ cells_loop fdiv100 en f s row ncol <> OutOfFuel.
Proof. exact cells_loop_clean. Qed.

Theorem C03_no_panic_range_ref :
  forall (fdiv100 : N -> N) (en : env) (h : header_row) (s : list N),
  (worksheet_range_ref fdiv100 en h s <> Panic /\ worksheet_range_ref fdiv100 en h s <> OutOfFuel) /\
  (worksheet_range fdiv100 en h s <> Panic /\ worksheet_range fdiv100 en h s <> OutOfFuel).
Proof. exact no_panic_range_ref. Qed.

Theorem C03_no_panic_workbook :
  forall (fdiv100 : N -> N) (formats : list cellfmt) (is1904 : bool) (sst : option (list N))
         (h : header_row) (sheet : list N),
  workbook_range_ref fdiv100 formats is1904 sst h sheet <> Panic /\
  workbook_range_ref fdiv100 formats is1904 sst h sheet <> OutOfFuel.
Proof. exact no_panic_workbook. Qed.

Theorem C03_no_panic_sst : forall part : option (list N),
  read_shared_strings part <> Panic /\ read_shared_strings part <> OutOfFuel.
Proof. exact no_panic_sst. Qed.

(* ---- no known class is left: the main theorems above cover layouts without BrtWsDim (the
   class wsdim_absent of rounds 1-2 was repaired in /repo); a BrtWsDim-less layout is legal ---- *)
Theorem C03_no_known_class : forall c : layout, known_C03 c = None.
Proof. exact (fun c => eq_refl). Qed.

Theorem C03_no_panic_header :
  forall (f : nat) (s buf : list N) (dims : option (pos * pos)), (length s < f)%nat ->
  scan_header f s buf dims <> Panic /\ scan_header f s buf dims <> OutOfFuel.
Proof. exact no_panic_header. Qed.

(* ---- non-vacuity ---- *)
(* the example layout carries short records of all seven kinds: a run after a cell, across a
   record outside the cell grammar, after a blank cell (which counts), at the last column *)
Example C03_main_nonvacuous : forall fdiv100 : N -> N,
  legal fdiv100 example_env example_layout (logical fdiv100 example_env example_layout) /\
  l_dim example_layout <> None /\
  map fst (logical fdiv100 example_env example_layout) =
    [(2, 3); (2, 4); (2, 5); (2, 7); (2, 8); (2, 9); (2, 10); (2, 21);
     (7, 1); (7, 2); (7, 3); (7, 9); (7, 10); (7, 11); (7, 12); (7, 13); (7, 16382); (7, 16383)].
Proof. exact example_legal. Qed.

Example C03_short_cells_nonvacuous : forall fdiv100 : N -> N,
  nth_error (logical fdiv100 example_env example_layout) 1 =
    Some ((2, 4), RVal (DDateTime 4607182418800017408 false false)) /\
  nth_error (logical fdiv100 example_env example_layout) 3 = Some ((2, 7), RShared [97; 98]) /\
  nth_error (logical fdiv100 example_env example_layout) 7 = Some ((2, 21), RVal (DBool false)).
Proof. exact example_short_cells. Qed.

(* what the domain excludes: a short record with no cell before it in its row, or whose column
   would be 16384 *)
Example C03_short_needs_cell_nonvacuous :
  shorts_placed None [(fr1, IRow 0 []); (fr1, IShort 0 0 (VBool true) [])] = false /\
  shorts_placed None [(fr1, IRow 0 []); (fr1, ICell 16383 0 0 (VBool true) []);
                      (fr1, IShort 0 0 (VBool true) [])] = false /\
  shorts_placed None [(fr1, IRow 0 []); (fr1, ICell 0 0 0 (VBool true) []); (fr1, IRow 1 []);
                      (fr1, IShort 0 0 (VBool true) [])] = false.
Proof. exact short_needs_cell. Qed.

Example C03_wsdim_absent_nonvacuous : forall fdiv100 : N -> N,
  legal fdiv100 empty_env nodim_layout [((0, 0), RVal (DBool true))] /\ l_dim nodim_layout = None.
Proof. exact nodim_legal. Qed.

Example C03_workbook_nonvacuous :
  forallb wf_sst_item [(fr1, [97; 98], []); (fr2, [99], [1; 2])] = true /\
  sst_strings [(fr1, [97; 98], []); (fr2, [99], [1; 2])] = e_strings example_env.
Proof. exact example_sst. Qed.

Example C03_varint_nonvacuous :
  16383 < 16384 /\ (3 <= 3)%nat /\ 268435455 < 128 ^ N.of_nat 4 /\
  enc_len 3 268435455 = [255; 255; 255; 127] /\ enc_len 3 5 = [133; 128; 128; 0] /\
  enc_id true 16383 = [255; 127] /\ enc_id true 5 = [133; 0].
Proof. repeat split; vm_compute; reflexivity. Qed.

Example C03_frame_nonvacuous :
  wf_frame (mkFrm true 2) 1025 [1; 2; 3] = true /\ interpreted 1025 = false /\
  cell_table_id 1025 = false /\ interpreted 62 = false /\ cell_table_id 62 = true /\
  interpreted 12 = true /\ interpreted 18 = true /\ interpreted 19 = false /\
  wf_raw (fr1, 0, [2; 0; 0; 0]) = true.
Proof. repeat split; vm_compute; reflexivity. Qed.

Example C03_cell_nonvacuous :
  legal_form (RkI (-536870912) true) = true /\ wf_cval example_env (VIsst 1) = true /\
  wf_cval example_env (VSt [104; 105; 128512]) = true /\ 1114111 < 4294967296 /\
  shortable (VIsst 1) = true /\ shortable (VFmlaNum 0) = false.
Proof. repeat split; vm_compute; reflexivity. Qed.

Check C03_xlsb_sheet_main : forall (fdiv100 : N -> N) (en : env) (L : list cellr) (c : layout),
  legal fdiv100 en c L ->
  worksheet_range_ref fdiv100 en FirstNonEmptyRow (encode_sheet c) = Ok (range_of (RVal DEmpty) L).
Check C03_ignorable_transparent :
  forall (fdiv100 : N -> N) (en : env) (pre : list rawrec) (fr : frm) (id : N)
         (body rest : list N) (row ncol : N),
  forallb wf_raw pre = true -> wf_frame fr id body = true -> interpreted id = false ->
  cells_from fdiv100 en (flat_map enc_raw pre ++ frame fr id body ++ rest) row ncol =
  cells_from fdiv100 en (flat_map enc_raw pre ++ rest) row ncol.
Check C03_xlsb_sheet_main_any_order : forall (fdiv100 : N -> N) (en : env) (c : layout),
  wf_layout en c = true ->
  worksheet_range_ref fdiv100 en FirstNonEmptyRow (encode_sheet c) =
    Ok (range_of (RVal DEmpty) (logical fdiv100 en c)).
Check C03_varint_roundtrip :
  (forall (wide : bool) (id : N) (rest : list N), id < 16384 -> (wide = true \/ id < 128) ->
     read_type (enc_id wide id ++ rest) = Ok (id, rest) /\
     length (enc_id wide id) = (if wide then 2 else 1)%nat) /\
  (forall (k : nat) (n : N) (rest : list N), (k <= 3)%nat -> n < 128 ^ N.of_nat (S k) ->
     read_len (enc_len k n ++ rest) = Ok (n, rest) /\ length (enc_len k n) = S k).

Print Assumptions C03_varint_roundtrip.
Print Assumptions C03_record_frame.
Print Assumptions C03_ignorable_transparent.
Print Assumptions C03_ignorable_item_transparent.
Print Assumptions C03_cell_table.
Print Assumptions C03_cell_table_values.
Print Assumptions C03_short_cell_table.
Print Assumptions C03_other_records_ignored.
Print Assumptions C03_err_codes_one_to_one.
Print Assumptions C03_rk_roundtrip.
Print Assumptions C03_rk_all_words.
Print Assumptions C03_rk_as_in_biff8.
Print Assumptions C03_sheet_cells.
Print Assumptions C03_reader_cells.
Print Assumptions C03_fuel_suffices.
Print Assumptions C03_xlsb_sheet_main.
Print Assumptions C03_xlsb_sheet_values.
Print Assumptions C03_xlsb_sheet_main_data.
Print Assumptions C03_sst_roundtrip.
Print Assumptions C03_xlsb_workbook_main.
Print Assumptions C03_no_panic_framing.
Print Assumptions C03_no_panic_reader.
Print Assumptions C03_no_panic_cell_loop.
Print Assumptions C03_no_panic_sst.
Print Assumptions C03_no_panic_range_ref.
Print Assumptions C03_no_panic_workbook.
Print Assumptions C03_xlsb_sheet_main_any_order.
Print Assumptions C03_no_known_class.
Print Assumptions C03_no_panic_header.
