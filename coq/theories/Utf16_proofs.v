(* Utf16_proofs: round trip of UTF-16 over all scalar-value strings, replacement of lone
   surrogates, the byte views, and xlsb wide_str / xls decode_to on encoder output. *)
From Calamine Require Import Prelude Utf16.
Open Scope N_scope.
Set Implicit Arguments.

(* ---------- a two-step induction principle (the decoder looks one unit ahead) ---------- *)
Lemma list_ind2 : forall (A : Type) (P : list A -> Prop),
  P [] -> (forall x, P [x]) ->
  (forall x y l, P l -> P (y :: l) -> P (x :: y :: l)) ->
  forall l, P l.
Proof.
  intros A P H0 H1 H2 l.
  assert (H : P l /\ forall x, P (x :: l)).
  { induction l as [|y l [IHa IHb]].
    - split; [exact H0 | exact H1].
    - split; [apply IHb|]. intro x. apply H2; [exact IHa | apply IHb]. }
  exact (proj1 H).
Qed.

(* ---------- classification of units ---------- *)
Lemma is_high_low_excl : forall u, is_high u = true -> is_low u = false.
Proof. unfold is_high, is_low. intros u H. lia. Qed.

Lemma not_surr_not_high : forall u, is_surr u = false -> is_high u = false.
Proof. unfold is_surr, is_high. intros u H. lia. Qed.
Lemma not_surr_not_low : forall u, is_surr u = false -> is_low u = false.
Proof. unfold is_surr, is_low. intros u H. lia. Qed.

Lemma scalar_not_surr : forall c, scalar c -> is_surr c = false.
Proof. unfold scalar, scalarb. intros c H. destruct (is_surr c); [|reflexivity]. cbn in H. lia. Qed.
Lemma scalar_bound : forall c, scalar c -> c <= 1114111.
Proof. unfold scalar, scalarb. intros c H. lia. Qed.

(* ---------- one-step equations of the decoder ---------- *)
Lemma decode_bmp : forall u r, is_surr u = false ->
  utf16_decode (u :: r) = u :: utf16_decode r.
Proof.
  intros u r H. cbn [utf16_decode].
  rewrite (not_surr_not_high _ H), (not_surr_not_low _ H). reflexivity.
Qed.

Lemma decode_pair : forall h l r, is_high h = true -> is_low l = true ->
  utf16_decode (h :: l :: r) = (65536 + (h - 55296) * 1024 + (l - 56320)) :: utf16_decode r.
Proof. intros h l r Hh Hl. cbn [utf16_decode]. rewrite Hh, Hl. reflexivity. Qed.

(* a low surrogate that is not preceded by a high one is replaced *)
Lemma decode_lone_low : forall u r, is_low u = true ->
  utf16_decode (u :: r) = REPL :: utf16_decode r.
Proof.
  intros u r H. cbn [utf16_decode]. rewrite H.
  destruct (is_high u) eqn:E; [|reflexivity].
  apply is_high_low_excl in E. congruence.
Qed.

Definition head_not_low (r : list N) : Prop :=
  match r with [] => True | l :: _ => is_low l = false end.

(* a high surrogate that is not followed by a low one is replaced, and the following unit is
   examined again *)
Lemma decode_lone_high : forall u r, is_high u = true -> head_not_low r ->
  utf16_decode (u :: r) = REPL :: utf16_decode r.
Proof.
  intros u r H Hr. cbn [utf16_decode]. rewrite H.
  destruct r as [|l r']; [reflexivity|]. cbn in Hr. rewrite Hr. reflexivity.
Qed.

(* ---------- the encoder produces well-formed pairs ---------- *)
Lemma enc_scalar_bmp : forall c, c < 65536 -> enc_scalar c = [c].
Proof. intros c H. unfold enc_scalar. destruct (c <? 65536) eqn:E; [reflexivity|lia]. Qed.

Lemma enc_scalar_astral : forall c, 65536 <= c -> c <= 1114111 ->
  exists h l, enc_scalar c = [h; l] /\ is_high h = true /\ is_low l = true /\
              65536 + (h - 55296) * 1024 + (l - 56320) = c.
Proof.
  intros c H1 H2. unfold enc_scalar. destruct (c <? 65536) eqn:E; [lia|].
  eexists. eexists. split; [reflexivity|].
  unfold is_high, is_low. repeat split; lia.
Qed.

Lemma decode_enc_scalar : forall c r, scalar c ->
  utf16_decode (enc_scalar c ++ r) = c :: utf16_decode r.
Proof.
  intros c r Hc. destruct (c <? 65536) eqn:E.
  - rewrite enc_scalar_bmp by lia. cbn [app]. apply decode_bmp. apply scalar_not_surr, Hc.
  - destruct (@enc_scalar_astral c) as (h & l & He & Hh & Hl & Hv);
      [lia | apply scalar_bound, Hc |].
    rewrite He. cbn [app]. rewrite decode_pair by assumption. rewrite Hv. reflexivity.
Qed.

(* decoding distributes over a well-formed prefix *)
Lemma decode_encode_app : forall s r, Forall scalar s ->
  utf16_decode (utf16_encode s ++ r) = s ++ utf16_decode r.
Proof.
  induction s as [|c s IH]; intros r Hs; [reflexivity|].
  inversion Hs as [|c' s' Hc Hs']; subst.
  unfold utf16_encode in *. cbn [flat_map]. rewrite <- app_assoc.
  rewrite decode_enc_scalar by assumption. rewrite IH by assumption. reflexivity.
Qed.

(* MAIN: every string of scalar values survives encode / decode *)
Theorem utf16_roundtrip : forall s, Forall scalar s ->
  utf16_decode (utf16_encode s) = s.
Proof.
  intros s Hs. rewrite <- (app_nil_r (utf16_encode s)).
  rewrite decode_encode_app by assumption. cbn [utf16_decode]. apply app_nil_r.
Qed.

(* a lone surrogate between well-formed text is replaced by exactly one U+FFFD and nothing
   around it is disturbed *)
Theorem lone_surrogate_replaced : forall a x rest,
  Forall scalar a -> is_surr x = true ->
  (is_high x = true -> head_not_low rest) ->
  utf16_decode (utf16_encode a ++ x :: rest) = a ++ REPL :: utf16_decode rest.
Proof.
  intros a x rest Ha Hx Hh. rewrite decode_encode_app by assumption. f_equal.
  destruct (is_high x) eqn:E.
  - apply decode_lone_high; auto.
  - apply decode_lone_low. unfold is_surr, is_high, is_low in *. lia.
Qed.

Corollary lone_surrogate_alone : forall x, is_surr x = true -> utf16_decode [x] = [REPL].
Proof.
  intros x Hx. change [x] with (utf16_encode [] ++ x :: []).
  rewrite lone_surrogate_replaced; auto. intros _. exact I.
Qed.

(* the decoder never yields anything but scalar values (for 16-bit units) *)
Lemma scalar_REPL : scalar REPL.
Proof. reflexivity. Qed.

Theorem utf16_decode_scalars : forall us, Forall (fun u => u < 65536) us ->
  Forall scalar (utf16_decode us).
Proof.
  intro us. induction us as [|x|x y l IHl IHyl] using list_ind2; intro H.
  - constructor.
  - inversion H as [|x' l' Hx _]; subst. cbn [utf16_decode].
    destruct (is_high x) eqn:Eh; [repeat constructor|].
    destruct (is_low x) eqn:El; [repeat constructor|].
    constructor; [|constructor]. unfold scalar, scalarb, is_surr, is_high, is_low in *. lia.
  - inversion H as [|x' l' Hx Hyl]; subst. inversion Hyl as [|y' l'' Hy Hl]; subst.
    destruct (is_high x) eqn:Eh.
    + destruct (is_low y) eqn:El.
      * rewrite decode_pair by assumption. constructor; [|apply IHl, Hl].
        unfold scalar, scalarb, is_surr, is_high, is_low in *. lia.
      * rewrite decode_lone_high by (auto; exact El).
        constructor; [apply scalar_REPL | apply IHyl, Hyl].
    + destruct (is_low x) eqn:El.
      * rewrite decode_lone_low by assumption.
        constructor; [apply scalar_REPL | apply IHyl, Hyl].
      * rewrite decode_bmp by (unfold is_surr, is_high, is_low in *; lia).
        constructor; [|apply IHyl, Hyl].
        unfold scalar, scalarb, is_surr, is_high, is_low in *. lia.
Qed.

(* encoder output: 16-bit units, well formed *)
Lemma enc_scalar_units : forall c, scalar c -> Forall (fun u => u < 65536) (enc_scalar c).
Proof.
  intros c Hc. pose proof (scalar_bound Hc). unfold enc_scalar.
  destruct (c <? 65536) eqn:E; repeat constructor; lia.
Qed.

Lemma encode_units : forall s, Forall scalar s -> Forall (fun u => u < 65536) (utf16_encode s).
Proof.
  induction s as [|c s IH]; intro H; [constructor|].
  inversion H; subst. unfold utf16_encode. cbn [flat_map]. apply Forall_app. split.
  - apply enc_scalar_units; assumption.
  - apply IH; assumption.
Qed.

Lemma wf_app_enc_scalar : forall c r, scalar c ->
  wf_utf16 (enc_scalar c ++ r) = wf_utf16 r.
Proof.
  intros c r Hc. destruct (c <? 65536) eqn:E.
  - rewrite enc_scalar_bmp by lia. cbn [app wf_utf16].
    pose proof (scalar_not_surr Hc) as Hs.
    rewrite (not_surr_not_high _ Hs), (not_surr_not_low _ Hs). cbn [negb andb].
    destruct (c <? 65536); [reflexivity|discriminate].
  - destruct (@enc_scalar_astral c) as (h & l & He & Hh & Hl & _);
      [lia | apply scalar_bound, Hc |].
    rewrite He. cbn [app wf_utf16]. rewrite Hh, Hl. reflexivity.
Qed.

Theorem encode_wf : forall s, Forall scalar s -> wf_utf16 (utf16_encode s) = true.
Proof.
  induction s as [|c s IH]; intro H; [reflexivity|].
  inversion H; subst. unfold utf16_encode. cbn [flat_map].
  rewrite wf_app_enc_scalar by assumption. apply IH; assumption.
Qed.

(* conversely every well-formed unit sequence is the encoding of its decoding: the theorem
   really covers "all well-formed UTF-16" *)
Theorem wf_decode_encode : forall us, wf_utf16 us = true ->
  utf16_encode (utf16_decode us) = us /\ Forall scalar (utf16_decode us).
Proof.
  intro us. induction us as [|x|x y l IHl IHyl] using list_ind2; intro H.
  - split; [reflexivity|constructor].
  - cbn [wf_utf16] in H. destruct (is_high x) eqn:Eh; [discriminate|].
    destruct (is_low x) eqn:El; [discriminate|]. cbn [negb andb] in H.
    cbn [utf16_decode]. rewrite Eh, El. split.
    + unfold utf16_encode. cbn [flat_map]. rewrite enc_scalar_bmp by lia. reflexivity.
    + constructor; [|constructor]. unfold scalar, scalarb, is_surr, is_high, is_low in *. lia.
  - cbn [wf_utf16] in H. destruct (is_high x) eqn:Eh.
    + destruct (is_low y) eqn:El; [|discriminate]. cbn [andb] in H.
      destruct (IHl H) as [IHe IHs]. rewrite decode_pair by assumption. split.
      * unfold utf16_encode in *. cbn [flat_map]. rewrite IHe.
        unfold enc_scalar, is_high, is_low in *.
        destruct (65536 + (x - 55296) * 1024 + (y - 56320) <? 65536) eqn:E; [lia|].
        cbn [app]. f_equal; [lia|]. f_equal. lia.
      * constructor; [|assumption].
        unfold scalar, scalarb, is_surr, is_high, is_low in *. lia.
    + destruct (is_low x) eqn:El; [discriminate|]. cbn [negb andb] in H.
      assert (Hx : x < 65536) by lia.
      assert (Hyl : wf_utf16 (y :: l) = true).
      { destruct (x <? 65536); [exact H | discriminate]. }
      destruct (IHyl Hyl) as [IHe IHs].
      assert (Hd : utf16_decode (x :: y :: l) = x :: utf16_decode (y :: l)).
      { apply decode_bmp. unfold is_surr, is_high, is_low in *. lia. }
      rewrite Hd. split.
      * unfold utf16_encode in *. cbn [flat_map]. rewrite IHe.
        rewrite enc_scalar_bmp by lia. reflexivity.
      * constructor; [|assumption].
        unfold scalar, scalarb, is_surr, is_high, is_low in *. lia.
Qed.

(* ---------- byte views ---------- *)
Lemma units_of_bytes_le_inv : forall us,
  units_of_bytes_le (bytes_le_of_units us) = (us, false).
Proof.
  induction us as [|u us IH]; [reflexivity|].
  unfold bytes_le_of_units in *. cbn [flat_map app units_of_bytes_le]. rewrite IH.
  f_equal. f_equal. lia.
Qed.

Lemma units_of_bytes_be_inv : forall us,
  units_of_bytes_be (bytes_be_of_units us) = (us, false).
Proof.
  induction us as [|u us IH]; [reflexivity|].
  unfold bytes_be_of_units in *. cbn [flat_map app units_of_bytes_be]. rewrite IH.
  f_equal. f_equal. lia.
Qed.

Lemma bytes_le_length : forall us, length (bytes_le_of_units us) = (2 * length us)%nat.
Proof.
  induction us as [|u us IH]; [reflexivity|].
  unfold bytes_le_of_units in *. cbn [flat_map app length]. rewrite IH. lia.
Qed.

Lemma bytes_le_are_bytes : forall us, Forall (fun b => b < 256) (bytes_le_of_units us) <->
  Forall (fun u => u < 65536) us.
Proof.
  induction us as [|u us IH]; [split; constructor|].
  unfold bytes_le_of_units in *. cbn [flat_map app]. split; intro H.
  - inversion H as [|? ? H0 H']; subst. inversion H' as [|? ? H1 H'']; subst.
    constructor; [lia | apply IH, H''].
  - inversion H as [|? ? Hu Hus]; subst.
    constructor; [lia|]. constructor; [lia|]. apply IH, Hus.
Qed.

Theorem utf16le_bytes_roundtrip : forall s, Forall scalar s ->
  utf16le_decode_bytes (bytes_le_of_units (utf16_encode s)) = s.
Proof.
  intros s Hs. unfold utf16le_decode_bytes. rewrite units_of_bytes_le_inv.
  rewrite utf16_roundtrip by assumption. apply app_nil_r.
Qed.

Theorem utf16be_bytes_roundtrip : forall s, Forall scalar s ->
  utf16be_decode_bytes (bytes_be_of_units (utf16_encode s)) = s.
Proof.
  intros s Hs. unfold utf16be_decode_bytes. rewrite units_of_bytes_be_inv.
  rewrite utf16_roundtrip by assumption. apply app_nil_r.
Qed.

(* ---------- xlsb wide_str on encoder output ---------- *)
Lemma read_u32_le_inv : forall n rest, n <= U32MAX -> read_u32_le (u32_le n ++ rest) = Ok n.
Proof.
  intros n rest H. unfold U32MAX in H. unfold u32_le, read_u32_le. cbn [app]. f_equal. lia.
Qed.

Lemma firstn_app_exact : forall (A : Type) (a b : list A) n, n = length a -> firstn n (a ++ b) = a.
Proof.
  intros A a b n ->. rewrite firstn_app, Nat.sub_diag, firstn_all. cbn [firstn]. apply app_nil_r.
Qed.

Theorem wide_str_roundtrip : forall s rest,
  Forall scalar s -> utf16_len s <= U32MAX ->
  wide_str (enc_wide s ++ rest) = Ok (s, 4 + utf16_len s * 2).
Proof.
  intros s rest Hs Hlen. unfold wide_str, enc_wide. rewrite <- app_assoc.
  set (bs := bytes_le_of_units (utf16_encode s)).
  assert (Hb : length bs = (2 * length (utf16_encode s))%nat) by apply bytes_le_length.
  assert (Hl : length (u32_le (utf16_len s) ++ bs ++ rest) = (4 + length bs + length rest)%nat).
  { rewrite !app_length. reflexivity. }
  rewrite Hl.
  destruct (N.of_nat (4 + length bs + length rest) <? 4) eqn:E4; [lia|].
  rewrite read_u32_le_inv by assumption. cbn [obind].
  destruct (N.of_nat (4 + length bs + length rest) <? 4 + utf16_len s * 2) eqn:E.
  { unfold utf16_len in E. lia. }
  f_equal. f_equal.
  change (u32_le (utf16_len s) ++ bs ++ rest) with
    ([utf16_len s mod 256; (utf16_len s / 256) mod 256; (utf16_len s / 65536) mod 256;
      (utf16_len s / 16777216) mod 256] ++ bs ++ rest).
  cbn [app skipn].
  rewrite firstn_app_exact.
  - apply utf16le_bytes_roundtrip. assumption.
  - unfold utf16_len. lia.
Qed.

(* ---------- xls decode_to (code page 1200) on one whole fragment ---------- *)
Lemma decode_all_bmp : forall s, Forall (fun c => is_surr c = false) s -> utf16_decode s = s.
Proof.
  induction s as [|c s IH]; intro H; [reflexivity|].
  inversion H; subst. rewrite decode_bmp by assumption. f_equal. apply IH. assumption.
Qed.

(* 8-bit ("compressed") storage: every character below 256 is its own byte *)
Theorem decode_to_8bit : forall s rest, Forall (fun c => c < 256) s ->
  decode_to_utf16 false (s ++ rest) (N.of_nat (length s)) =
  (s, N.of_nat (length s), N.of_nat (length s)).
Proof.
  intros s rest H. unfold decode_to_utf16.
  replace (N.min (N.of_nat (length (s ++ rest))) (N.of_nat (length s))) with (N.of_nat (length s))
    by (rewrite app_length; lia).
  rewrite Nat2N.id. rewrite firstn_app_exact by reflexivity.
  rewrite decode_all_bmp; [reflexivity|].
  eapply Forall_impl; [|exact H]. cbn beta. intros c Hc. unfold is_surr. lia.
Qed.

(* 16-bit storage: cch counts code units *)
Theorem decode_to_16bit : forall s rest, Forall scalar s ->
  decode_to_utf16 true (bytes_le_of_units (utf16_encode s) ++ rest) (utf16_len s) =
  (s, utf16_len s, 2 * utf16_len s).
Proof.
  intros s rest H. unfold decode_to_utf16.
  assert (Hb := bytes_le_length (utf16_encode s)).
  replace (N.min (N.of_nat (length (bytes_le_of_units (utf16_encode s) ++ rest)) / 2) (utf16_len s))
    with (utf16_len s).
  2:{ rewrite app_length, Hb. unfold utf16_len. lia. }
  rewrite firstn_app_exact.
  - rewrite utf16le_bytes_roundtrip by assumption. reflexivity.
  - rewrite Hb. unfold utf16_len. lia.
Qed.

(* ---------- non-vacuity / witnesses ---------- *)
(* "a", U+00E9, U+FEFF (a former BOM victim), U+1F600, U+10FFFF, U+FFFE *)
Example utf16_roundtrip_nonvacuous :
  let s := [97; 233; 65279; 128512; 1114111; 65534] in
  Forall scalar s /\ utf16_len s <= U32MAX /\ length (utf16_encode s) = 8%nat.
Proof.
  cbn zeta. split; [repeat constructor|]. split; [vm_compute; discriminate | reflexivity].
Qed.

Example lone_surrogates_witness :
  utf16_decode [97; 55357; 98; 56832; 55357; 56832; 55357] = [97; REPL; 98; REPL; 128512; REPL].
Proof. vm_compute. reflexivity. Qed.

Example wide_str_feff_witness :
  wide_str (enc_wide [65279; 97] ++ [1; 2]) = Ok ([65279; 97], 8).
Proof. vm_compute. reflexivity. Qed.

(* ---------- totality (C06): no byte string makes wide_str panic ---------- *)
Theorem wide_str_no_panic : forall buf, wide_str buf <> Panic.
Proof.
  intro buf. unfold wide_str.
  destruct buf as [|b0 [|b1 [|b2 [|b3 r]]]]; try (cbn; discriminate).
  destruct (N.of_nat (length (b0 :: b1 :: b2 :: b3 :: r)) <? 4); [discriminate|].
  cbn [read_u32_le obind].
  destruct (N.of_nat (length (b0 :: b1 :: b2 :: b3 :: r)) <? 4 + (b0 + 256 * b1 + 65536 * b2 + 16777216 * b3) * 2);
    discriminate.
Qed.
