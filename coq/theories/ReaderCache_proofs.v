(* ReaderCache_proofs.v — proofs for the cache part of property C07 over ReaderCache.v *)
From Calamine Require Import Prelude HeaderRow ReaderCache.
Set Implicit Arguments.

Section Proofs.
Variable Name Call MR TB Result : Type.
Variable file_merged : option MR.
Variable file_tables : option TB.
Variable sem : header_row -> Call -> Result.

Notation kstep := (@kstep Name Call MR TB Result file_merged file_tables sem).
Notation krun := (@krun Name Call MR TB Result file_merged file_tables sem).
Notation kspec := (@kspec Name Call MR TB Result file_merged file_tables sem).
Notation merged_after := (@merged_after Name Call MR file_merged).
Notation tables_after := (@tables_after Name Call TB file_tables).
Notation kop := (kop Name Call).

Lemma krun_app : forall (ops1 ops2 : list kop) s,
  krun s (ops1 ++ ops2) =
  let '(s1, r1) := krun s ops1 in
  let '(s2, r2) := krun s1 ops2 in (s2, r1 ++ r2).
Proof.
  induction ops1 as [|o ops1 IH]; intros ops2 s; cbn [ReaderCache.krun app].
  - destruct (krun s ops2); reflexivity.
  - destruct (kstep s o) as [s1 r]. rewrite IH.
    destruct (krun s1 ops1) as [s2 rs]. destruct (krun s2 ops2). reflexivity.
Qed.

(* cache content after a history started in an arbitrary state *)
Definition merged_from (c : option MR) (ops : list kop) : option MR :=
  match c with Some m => Some m | None => merged_after ops end.
Definition tables_from (c : option TB) (ops : list kop) : option TB :=
  match c with Some t => Some t | None => tables_after ops end.

Lemma merged_after_cons : forall o (ops : list kop),
  merged_after (o :: ops) = if is_load_merged o then file_merged else merged_after ops.
Proof. intros o ops. unfold ReaderCache.merged_after. cbn [existsb]. destruct (is_load_merged o); reflexivity. Qed.

Lemma tables_after_cons : forall o (ops : list kop),
  tables_after (o :: ops) = if is_load_tables o then file_tables else tables_after ops.
Proof. intros o ops. unfold ReaderCache.tables_after. cbn [existsb]. destruct (is_load_tables o); reflexivity. Qed.

Lemma krun_state : forall (ops : list kop) s,
  fst (krun s ops) =
  mkK (khdr (k_hdr s) ops) (merged_from (k_merged s) ops) (tables_from (k_tables s) ops).
Proof.
  induction ops as [|o ops IH]; intros [h cm ct].
  - cbn. destruct cm, ct; reflexivity.
  - cbn [ReaderCache.krun].
    destruct (kstep (mkK h cm ct) o) as [s1 a] eqn:Es.
    specialize (IH s1). destruct (krun s1 ops) as [s2 l]. cbn [fst] in *. rewrite IH. clear IH.
    destruct o; cbn [ReaderCache.kstep k_hdr k_merged k_tables] in Es;
      try (inversion Es; subst; cbn [k_hdr k_merged k_tables khdr]; unfold merged_from, tables_from;
           rewrite ?merged_after_cons, ?tables_after_cons; cbn [is_load_merged is_load_tables];
           reflexivity).
    + (* KLoadMerged *)
      destruct cm as [m|].
      * inversion Es; subst. cbn [k_hdr k_merged k_tables khdr]. reflexivity.
      * unfold merged_from, tables_from. rewrite merged_after_cons, tables_after_cons.
        cbn [is_load_merged is_load_tables khdr]. unfold ReaderCache.merged_after.
        revert Es. destruct file_merged as [m|]; intros Es; inversion Es; subst;
          cbn [k_hdr k_merged k_tables]; [reflexivity|].
        destruct (existsb _ ops); reflexivity.
    + (* KLoadTables *)
      destruct ct as [t|].
      * inversion Es; subst. cbn [k_hdr k_merged k_tables khdr]. reflexivity.
      * unfold merged_from, tables_from. rewrite merged_after_cons, tables_after_cons.
        cbn [is_load_merged is_load_tables khdr]. unfold ReaderCache.tables_after.
        revert Es. destruct file_tables as [t|]; intros Es; inversion Es; subst;
          cbn [k_hdr k_merged k_tables]; [reflexivity|].
        destruct (existsb _ ops); reflexivity.
Qed.

Lemma krun_state_init : forall ops : list kop,
  fst (krun (kinit MR TB) ops) =
  mkK (khdr FirstNonEmptyRow ops) (merged_after ops) (tables_after ops).
Proof. intros ops. rewrite krun_state. reflexivity. Qed.

Lemma merged_after_snoc_load : forall ops : list kop,
  merged_after (ops ++ [KLoadMerged]) = file_merged.
Proof.
  intros ops. unfold ReaderCache.merged_after. rewrite existsb_app. cbn.
  rewrite Bool.orb_true_r. reflexivity.
Qed.

Lemma tables_after_snoc_load : forall ops : list kop,
  tables_after (ops ++ [KLoadTables]) = file_tables.
Proof.
  intros ops. unfold ReaderCache.tables_after. rewrite existsb_app. cbn.
  rewrite Bool.orb_true_r. reflexivity.
Qed.

(* The answer of a call made after ANY history is the specified one: a cache-free call answers as
   the file does under the option in force; a cache-reading call answers with the FILE's table
   (never with anything an earlier call left behind) once a load call was made, and panics
   otherwise; a load call succeeds exactly when the file's part is readable. *)
Theorem cache_history_pure : forall (ops : list kop) (o : kop),
  snd (krun (kinit MR TB) (ops ++ [o])) = snd (krun (kinit MR TB) ops) ++ [kspec ops o].
Proof.
  intros ops o. rewrite krun_app.
  pose proof (krun_state_init ops) as Hs.
  destruct (krun (kinit MR TB) ops) as [s1 r1]. cbn [fst] in Hs. subst s1.
  cbn [ReaderCache.krun snd]. f_equal.
  destruct (kstep _ o) as [s2 a] eqn:Es. cbn [snd]. f_equal.
  destruct o; cbn [ReaderCache.kstep k_hdr k_merged k_tables] in Es; cbn [ReaderCache.kspec];
    try (inversion Es; subst; reflexivity).
  - (* KLoadMerged *)
    rewrite merged_after_snoc_load.
    destruct (merged_after ops) as [m|] eqn:Em.
    + inversion Es; subst. unfold ReaderCache.merged_after in Em.
      destruct (existsb _ ops); [rewrite Em; reflexivity|discriminate].
    + destruct file_merged; inversion Es; reflexivity.
  - (* KLoadTables *)
    rewrite tables_after_snoc_load.
    destruct (tables_after ops) as [t|] eqn:Et.
    + inversion Es; subst. unfold ReaderCache.tables_after in Et.
      destruct (existsb _ ops); [rewrite Et; reflexivity|discriminate].
    + destruct file_tables; inversion Es; reflexivity.
Qed.

(* The invariant behind it, stated on its own: whatever a history did, a cache is either empty
   or holds exactly the file's table. *)
Theorem cache_holds_file_table : forall ops : list kop,
  let s := fst (krun (kinit MR TB) ops) in
  (k_merged s = None \/ k_merged s = file_merged) /\
  (k_tables s = None \/ k_tables s = file_tables).
Proof.
  intros ops. cbv zeta. rewrite krun_state_init. cbn [k_merged k_tables].
  unfold ReaderCache.merged_after, ReaderCache.tables_after.
  split; [destruct (existsb (@is_load_merged Name Call) ops)|destruct (existsb (@is_load_tables Name Call) ops)]; auto.
Qed.

(* Calls that do not load never change a cache, and no call changes the other one's cache. *)
Theorem only_loads_fill : forall (ops : list kop) (o : kop),
  is_load_merged o = false ->
  k_merged (fst (krun (kinit MR TB) (ops ++ [o]))) = k_merged (fst (krun (kinit MR TB) ops)).
Proof.
  intros ops o H. rewrite !krun_state_init. cbn [k_merged].
  unfold ReaderCache.merged_after. rewrite existsb_app. cbn [existsb]. rewrite H.
  rewrite !Bool.orb_false_r. reflexivity.
Qed.

Theorem only_table_loads_fill : forall (ops : list kop) (o : kop),
  is_load_tables o = false ->
  k_tables (fst (krun (kinit MR TB) (ops ++ [o]))) = k_tables (fst (krun (kinit MR TB) ops)).
Proof.
  intros ops o H. rewrite !krun_state_init. cbn [k_tables].
  unfold ReaderCache.tables_after. rewrite existsb_app. cbn [existsb]. rewrite H.
  rewrite !Bool.orb_false_r. reflexivity.
Qed.

(* Loading twice is loading once. *)
Theorem load_idempotent : forall (ops mid : list kop),
  merged_after (ops ++ [KLoadMerged] ++ mid ++ [KLoadMerged]) = merged_after (ops ++ [KLoadMerged]) /\
  tables_after (ops ++ [KLoadTables] ++ mid ++ [KLoadTables]) = tables_after (ops ++ [KLoadTables]).
Proof.
  intros ops mid. unfold ReaderCache.merged_after, ReaderCache.tables_after.
  rewrite !existsb_app. cbn [existsb is_load_merged is_load_tables orb].
  split.
  - destruct (existsb (@is_load_merged Name Call) ops), (existsb (@is_load_merged Name Call) mid); reflexivity.
  - destruct (existsb (@is_load_tables Name Call) ops), (existsb (@is_load_tables Name Call) mid); reflexivity.
Qed.

End Proofs.
