from xlsx_base import *
p = build('xlsx_0_base.xlsx', sheet('<row r="1"><c r="A1"><v>1</v></c><c r="B1" t="e"><v>#N/A</v></c></row>'))
run(p)
