"""biffgen — minimal BIFF8 workbook-stream and compound-file writer for the C12 end-to-end cases.
The shared-string table itself is NOT written here: its SST/CONTINUE bodies come from the
extracted Coq writer (sst_encode); this module only frames them and surrounds them with the few
records calamine needs (BOF, CodePage, BoundSheet8, EOF, LABELSST/LABEL/FORMULA+STRING cells) and
packs the stream into a version-3 compound file (plain layout; physical CFB layouts are C13's)."""
import struct

def rec(t, body):
    assert len(body) <= 0xFFFF
    return struct.pack("<HH", t, len(body)) + body

def le16s(units):
    return b"".join(struct.pack("<H", u) for u in units)

def seg(hb, units):
    return le16s(units) if hb else bytes(units)

def xl_string(hb, units):
    return struct.pack("<HB", len(units), 1 if hb else 0) + seg(hb, units)

def short_xl_string(hb, units):
    return bytes([len(units), 1 if hb else 0]) + seg(hb, units)

BOF_GLOBALS = rec(0x0809, struct.pack("<HHHHII", 0x0600, 0x0005, 0x0DBB, 0x07CC, 0, 0x0306))
BOF_SHEET = rec(0x0809, struct.pack("<HHHHII", 0x0600, 0x0010, 0x0DBB, 0x07CC, 0, 0x0306))
CODEPAGE = rec(0x0042, struct.pack("<H", 1200))
# CodePage records real BIFF8 writers put behind the BOF ([MS-XLS] 2.4.52: any code page; BIFF8 text
# is Unicode whatever it says): 1200 Excel, 1252 JExcelApi (tests/sheet_name_parsing.xls of the
# repository), ANSI / DBCS pages of localised writers, UTF-8, Mac Roman, UTF-16BE, values the
# `codepage` crate does not know (437, 0, 54321, 65535), and no record at all (None)
CODEPAGES = [1200, 1200, 1252, 1252, 1251, 1250, 932, 936, 949, 950, 874, 65001, 10000, 1201, 437,
             0, 54321, 65535, None, None]

def codepage_rec(cp):
    return b"" if cp is None else rec(0x0042, struct.pack("<H", cp))
EOF = rec(0x000A, b"")
# FORMULA body tail: cached value = "string follows", options, chn, rgce = PtgInt 1
FORMULA_STRING_STUB = bytes([0, 0, 0, 0, 0, 0, 0xFF, 0xFF]) + struct.pack("<HI", 0, 0) + bytes([3, 0, 0x1E, 1, 0])

def cell_records(cell):
    """cell = ('sst', row, col, isst) | ('label', row, col, hb, units) | ('fstring', row, col, hb, units)
    | ('fstringc', row, col, STRING body, [CONTINUE body, ...])   a formula's string result whose STRING
      record is followed by CONTINUE records (bodies from the extracted Coq writer fstring_encode)"""
    k = cell[0]
    if k == "raw":                      # ('raw', bytes): records written as they are (DIMENSIONS ...)
        return cell[1]
    if k == "sst":
        return rec(0x00FD, struct.pack("<HHHI", cell[1], cell[2], 15, cell[3]))
    if k == "label":
        return rec(0x0204, struct.pack("<HHH", cell[1], cell[2], 15) + xl_string(cell[3], cell[4]))
    if k == "fstring":
        # [MS-XLS] 2.1.7.20.6: FORMULA [ARRAY / TABLE / SHRFMLA] [STRING] — every third string formula
        # is the first cell of a one-cell shared formula, so a SHRFMLA record stands before its STRING
        mid = b""
        if (cell[1] + cell[2]) % 3 == 1 and cell[1] < 65536 and cell[2] < 256:
            mid = rec(0x04BC, struct.pack("<HHBBBB", cell[1], cell[1], cell[2], cell[2], 0, 1) + bytes([3, 0, 0x1E, 1, 0]))
        return (rec(0x0006, struct.pack("<HHH", cell[1], cell[2], 15) + FORMULA_STRING_STUB) + mid
                + rec(0x0207, xl_string(cell[3], cell[4])))
    if k == "fstringc":
        return (rec(0x0006, struct.pack("<HHH", cell[1], cell[2], 15) + FORMULA_STRING_STUB)
                + rec(0x0207, cell[3]) + b"".join(rec(0x003C, c) for c in cell[4]))
    raise ValueError(k)

def sst_records(data, conts):
    return rec(0x00FC, data) + b"".join(rec(0x003C, c) for c in conts)

def workbook_stream(sst_data, sst_conts, sheets, extra_globals=b"", codepage=1200):
    """sheets = [(hb, name_units, [cell…])]; codepage = value of the CodePage record (None: no
    record); returns the Workbook stream"""
    CODEPAGE = codepage_rec(codepage)
    sst = sst_records(sst_data, sst_conts)
    def bsheet(pos, hb, units):
        return rec(0x0085, struct.pack("<IBB", pos, 0, 0) + short_xl_string(hb, units))
    subs = [BOF_SHEET + b"".join(cell_records(c) for c in cells) + EOF for (_, _, cells) in sheets]
    glob_len = (len(BOF_GLOBALS) + len(CODEPAGE) + sum(len(bsheet(0, hb, u)) for (hb, u, _) in sheets)
                + len(extra_globals) + len(sst) + len(EOF))
    out = BOF_GLOBALS + CODEPAGE
    pos = glob_len
    for (hb, u, _), sub in zip(sheets, subs):
        out += bsheet(pos, hb, u)
        pos += len(sub)
    out += extra_globals + sst + EOF
    assert len(out) == glob_len
    return out + b"".join(subs)

# ------------------------------------------------------------------------------ compound file
FREE, EOC, FATS = 0xFFFFFFFF, 0xFFFFFFFE, 0xFFFFFFFD

def cfb_write(streams):
    """version-3 compound file, sectors in order; streams below 4096 bytes go to the mini stream"""
    ss = 512
    big = [(n, b) for n, b in streams if len(b) >= 4096]
    small = [(n, b) for n, b in streams if len(b) < 4096]
    mini, minifat, mini_start = bytearray(), [], {}
    for n, b in small:
        cnt = (len(b) + 63) // 64
        first = len(minifat)
        mini_start[n] = first if cnt else EOC
        for i in range(cnt):
            minifat.append(first + i + 1 if i + 1 < cnt else EOC)
        mini += b.ljust(cnt * 64, b"\0")
    objs = [("s:" + n, bytes(b)) for n, b in big]
    if minifat:
        objs.append(("mini", bytes(mini)))
        mf = b"".join(struct.pack("<I", x) for x in minifat)
        objs.append(("minifat", mf.ljust(((len(mf) + ss - 1) // ss) * ss, b"\xff")))
    ndir = 1 + len(streams)
    dir_secs = (ndir * 128 + ss - 1) // ss
    objs.append(("dir", b"\0" * (dir_secs * ss)))
    nsec_data = sum((len(b) + ss - 1) // ss for _, b in objs)
    nfat = 1
    while nfat * (ss // 4) < nsec_data + nfat:
        nfat += 1
    assert nfat <= 109
    total = nsec_data + nfat
    fat = [FREE] * (nfat * (ss // 4))
    fat_ids = list(range(nfat))
    for f in fat_ids:
        fat[f] = FATS
    p, chains = nfat, {}
    for k, b in objs:
        cnt = (len(b) + ss - 1) // ss
        c = list(range(p, p + cnt)); p += cnt
        chains[k] = c
        for i, sid in enumerate(c):
            fat[sid] = c[i + 1] if i + 1 < len(c) else EOC
    sectors = [b"\0" * ss for _ in range(total)]
    for k, b in objs:
        if k == "dir":
            continue
        for i, sid in enumerate(chains[k]):
            sectors[sid] = b[i * ss:(i + 1) * ss].ljust(ss, b"\0")
    def dirent(name, typ, start, size):
        n = name.encode("utf-16le") + b"\0\0"
        return (n.ljust(64, b"\0") + struct.pack("<H", len(n)) + bytes([typ, 1])
                + struct.pack("<III", FREE, FREE, FREE) + b"\0" * 36
                + struct.pack("<I", start) + struct.pack("<Q", size))
    root = dirent("Root Entry", 5, chains["mini"][0] if minifat else EOC, len(mini))
    ents = []
    for n, b in streams:
        if len(b) >= 4096:
            ents.append(dirent(n, 2, chains["s:" + n][0], len(b)))
        else:
            ents.append(dirent(n, 2, mini_start[n], len(b)))
    d = (root + b"".join(ents)).ljust(dir_secs * ss, b"\0")
    for i, sid in enumerate(chains["dir"]):
        sectors[sid] = d[i * ss:(i + 1) * ss]
    fb = b"".join(struct.pack("<I", x) for x in fat)
    for i, sid in enumerate(fat_ids):
        sectors[sid] = fb[i * ss:(i + 1) * ss]
    hdr = bytes.fromhex("D0CF11E0A1B11AE1") + b"\0" * 16 + struct.pack("<HHHHH", 0x3E, 3, 0xFFFE, 9, 6) + b"\0" * 6
    hdr += struct.pack("<III", 0, nfat, chains["dir"][0]) + struct.pack("<II", 0, 4096)
    hdr += struct.pack("<II", chains["minifat"][0] if minifat else EOC, len(chains["minifat"]) if minifat else 0)
    hdr += struct.pack("<II", EOC, 0)
    hdr += b"".join(struct.pack("<I", x) for x in fat_ids) + struct.pack("<I", FREE) * (109 - nfat)
    assert len(hdr) == 512
    return hdr + b"".join(sectors)

def xls_file(workbook):
    return cfb_write([("Workbook", workbook)])
