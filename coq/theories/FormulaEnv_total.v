(* FormulaEnv_total — C14 / C06: the loops that build the decoders' environment (xlsb BrtName /
   BrtExternSheet, xls Lbl / ExternSheet) do not panic on any record list. *)
From Coq Require Import String.
From Calamine Require Import Prelude Range Col26 Col26_proofs FtabRef Ptg Ptg_proofs Ptg_total FormulaEnv.
Open Scope N_scope.

Lemma push_column_loop_no_panic : forall f col revd, push_column_loop f col revd <> Panic.
Proof.
  induction f as [|f IH]; intros col revd; [discriminate|].
  cbn [push_column_loop]. destruct (col <? 26); [discriminate|apply IH].
Qed.
Lemma safe_push_column : forall col buf, safe (push_column col buf) (fun _ => True).
Proof.
  intros col buf. unfold push_column. pose proof (push_column_loop_no_panic push_column_fuel col []) as H.
  destruct (push_column_loop push_column_fuel col []); cbn [obind safe]; auto.
Qed.

Ltac reads2 :=
  repeat first
   [ progress reads
   | match goal with |- safe (obind (push_column ?c ?b) _) _ =>
       eapply safe_bind; [apply safe_push_column|]; intros ? _ end ].

Lemma safe_parse_defined_names : forall rgce, safe (parse_defined_names rgce) (fun _ => True).
Proof.
  intros rgce. unfold parse_defined_names. destruct rgce as [|ptg t]; [exact I|].
  destruct (length (ptg :: t) <? defined_name_expected ptg)%nat eqn:E; [exact I|]. apply Nat.ltb_ge in E.
  unfold defined_name_expected in E.
  destruct ((ptg =? 0x3a) || (ptg =? 0x5a) || (ptg =? 0x7a)); [reads2; exact I|].
  destruct ((ptg =? 0x3b) || (ptg =? 0x5b) || (ptg =? 0x7b)); [reads2; exact I|].
  destruct ((ptg =? 0x3c) || (ptg =? 0x5c) || (ptg =? 0x7c) || (ptg =? 0x3d) || (ptg =? 0x5d) || (ptg =? 0x7d));
    [reads2; exact I|exact I].
Qed.

Lemma safe_xls_lbl : forall data, safe (xls_lbl data) (fun _ => True).
Proof.
  intros data. unfold xls_lbl. destruct (length data <? 14)%nat eqn:E; [exact I|]. apply Nat.ltb_ge in E.
  reads. destruct (length data <? 14 + N.to_nat v0)%nat eqn:E2; [exact I|]. reads.
  cbv zeta. match goal with |- safe (if ?c then _ else _) _ => destruct c; [exact I|] end.
  eapply safe_bind; [apply safe_parse_defined_names|]. intros f _. exact I.
Qed.

Lemma safe_xti_chunks : forall fuel cxti rest, safe (xti_chunks fuel cxti rest) (fun _ => True).
Proof.
  induction fuel as [|f IH]; intros cxti rest; [exact I|]. cbn [xti_chunks].
  destruct (cxti =? 0); [exact I|]. destruct (length rest <? 6)%nat eqn:E; [exact I|]. apply Nat.ltb_ge in E.
  assert (L : length (firstn 6 rest) = 6%nat) by (rewrite firstn_length; lia).
  cbv zeta. reads. eapply safe_bind; [apply IH|]. intros tl _. exact I.
Qed.

Lemma safe_xls_externsheet : forall data conts, safe (xls_externsheet data conts) (fun _ => True).
Proof.
  intros data conts. unfold xls_externsheet. destruct (length data <? 2)%nat eqn:E; [exact I|]. apply Nat.ltb_ge in E.
  reads. apply safe_xti_chunks.
Qed.

Lemma safe_xls_globals : forall recs names xtis, safe (xls_globals recs names xtis) (fun _ => True).
Proof.
  induction recs as [|[t data] rest IH]; intros names xtis; [exact I|]. cbn [xls_globals].
  destruct (t =? 0x000A); [exact I|].
  destruct (t =? 0x0018); [eapply safe_bind; [apply safe_xls_lbl|]; intros n _; apply IH|].
  destruct (t =? 0x0017); [eapply safe_bind; [apply safe_xls_externsheet|]; intros x _; apply IH|].
  apply IH.
Qed.

Lemma safe_map_o : forall (A B : Type) (f : A -> outcome B) l,
  (forall x, safe (f x) (fun _ => True)) -> safe (map_o f l) (fun _ => True).
Proof.
  intros A B f l Hf. induction l as [|x t IH]; [exact I|]. cbn [map_o].
  eapply safe_bind; [apply Hf|]. intros y _. eapply safe_bind; [exact IH|]. intros r _. exact I.
Qed.

Theorem no_panic_xls_read_names : forall show_f64 sheets recs, xls_read_names show_f64 sheets recs <> Panic.
Proof.
  intros show_f64 sheets recs. apply (@safe_not_panic _ _ (fun _ => True)). unfold xls_read_names.
  eapply safe_bind; [apply safe_xls_globals|]. intros g _.
  eapply safe_bind; [|intros l _; exact I].
  apply safe_map_o. intros n. unfold xls_final_name.
  pose proof (no_panic_parse_formula_xls show_f64
                {| xe_sheets := sheets; xe_names := map fst (fst g); xe_xtis := snd g; xe_base := None |}
                (frame_xls (snd (snd n)))) as Hp.
  destruct (xls_parse_formula show_f64 _ _); cbn [safe]; auto.
Qed.

(* ------------------------------------------------------------------ xlsb *)
Lemma safe_wide_str : forall buf, safe (wide_str buf) (fun ws => (snd ws <= length buf)%nat).
Proof.
  intros buf. unfold wide_str. destruct (length buf <? 4)%nat eqn:E; [exact I|]. apply Nat.ltb_ge in E.
  reads. destruct (N.of_nat (length buf) <? 4 + 2 * v) eqn:E2; [exact I|]. apply N.ltb_ge in E2.
  cbn [safe snd]. lia.
Qed.

Lemma safe_extern_chunks : forall sheets fuel cxti rest, safe (extern_chunks sheets fuel cxti rest) (fun _ => True).
Proof.
  intros sheets. induction fuel as [|f IH]; intros cxti rest; [exact I|]. cbn [extern_chunks].
  destruct (cxti =? 0); [exact I|]. destruct (length rest <? 12)%nat eqn:E; [exact I|]. apply Nat.ltb_ge in E.
  assert (L : length (firstn 12 rest) = 12%nat) by (rewrite firstn_length; lia).
  reads. eapply safe_bind; [apply IH|]. intros tl _. exact I.
Qed.

Section Xlsb.
Variable show_f64 : N -> list N.
Variable sheets : list (list N).

Lemma safe_brt_name : forall st payload, safe (brt_name st payload) (fun _ => True).
Proof.
  intros st payload. unfold brt_name. destruct (length payload <? 9)%nat eqn:E; [exact I|]. apply Nat.ltb_ge in E.
  eapply safe_bind; [apply safe_wide_str|]. intros [name sl] Hsl. cbn [snd] in Hsl.
  rewrite skipn_length in Hsl.
  destruct (length payload <? 13 + sl)%nat eqn:E2; [exact I|]. apply Nat.ltb_ge in E2.
  reads.
  destruct (N.of_nat (length payload) <? N.of_nat (13 + sl) + v) eqn:E3; [exact I|]. apply N.ltb_ge in E3.
  unfold sliceN. destruct (N.of_nat (13 + sl) + v <=? N.of_nat (length payload)) eqn:E4;
    [|apply N.leb_gt in E4; lia]. cbn [obind]. exact I.
Qed.

Lemma safe_decode_names : forall ext all l, safe (decode_names show_f64 ext all l) (fun _ => True).
Proof.
  intros ext all. induction l as [|[n rg] l IH]; [exact I|]. cbn [decode_names].
  pose proof (no_panic_parse_formula_xlsb show_f64 {| be_sheets := ext; be_names := all; be_base := None |} rg) as Hp.
  destruct (xlsb_parse_formula show_f64 _ rg); cbn [obind safe]; auto.
  eapply safe_bind; [exact IH|]. intros r _. exact I.
Qed.

Lemma safe_brt_extern : forall st payload, safe (brt_extern_sheet sheets st payload) (fun _ => True).
Proof.
  intros st payload. unfold brt_extern_sheet, xlsb_extern_sheets.
  destruct (length payload <? 4)%nat eqn:E; [exact I|]. apply Nat.ltb_ge in E.
  eapply safe_bind; [|intros ext _; exact I]. reads. apply safe_extern_chunks.
Qed.

Lemma safe_xlsb_names_loop : forall recs st, safe (xlsb_names_loop show_f64 sheets recs st) (fun _ => True).
Proof.
  induction recs as [|[t payload] rest IH]; intros st; [exact I|]. cbn [xlsb_names_loop].
  destruct (t =? 0x016A); [eapply safe_bind; [apply safe_brt_extern|]; intros st' _; apply IH|].
  destruct (t =? 0x0027); [eapply safe_bind; [apply safe_brt_name|]; intros st' _; apply IH|].
  destruct (is_end_rec t); [eapply safe_bind; [apply safe_decode_names|]; intros r _; exact I|apply IH].
Qed.

Theorem no_panic_xlsb_read_names : forall recs, xlsb_read_names show_f64 sheets recs <> Panic.
Proof.
  intros recs. apply (@safe_not_panic _ _ (fun _ => True)). unfold xlsb_read_names.
  apply safe_xlsb_names_loop.
Qed.
End Xlsb.
