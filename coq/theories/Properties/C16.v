(* Property C16 — workbook metadata is reported faithfully and in workbook order.
   Only the property theorems (closed by [exact]), [Check] pins, non-vacuity examples and
   [Print Assumptions].  Models, logical workbook, encoders: Meta.v; proofs: Meta_proofs.v.

   The logical workbook [workbook V] stores its sheets as the (name, visibility, kind) triples the
   readers must report, so "map sheet_meta (sheets wb)" is [wb_sheets wb] itself.
   Proved end to end (all workbooks, all legal encoding choices): xlsx and ods.
   xls: proved for workbooks without defined names (C16_sheets_in_order_xls_partial); xlsb: the
   model and encoder exist and are tied to the real code by the correspondence run, the
   parse-encode theorem is NOT proved (see notes/C16.md, "missing").  For both, the threading of the
   date flag into the cells and the xls refutation witness are proved. *)
From Calamine Require Import Prelude BiffSst Meta Meta_proofs MetaXls_proofs.
From Calamine Require Ptg NumFmt.
Open Scope N_scope.

(* ---------- (1) sheets in workbook order: same count, same order, exact names, visibility, kind *)
Theorem C16_sheets_in_order_xlsx : forall c wb rjunk,
  xlsx_legal c wb = true -> known_xlsx c wb = None -> forallb junk_ok_rels rjunk = true ->
  exists p, xlsx_open (rels_events [] rjunk (xc_rels c)) (xlsx_wb_events c wb) = Ok p /\
            p_sheets p = wb_sheets wb /\ p_paths p = xlsx_paths c wb.
Proof. exact sheets_in_order_xlsx. Qed.

Theorem C16_sheets_in_order_ods : forall c wb,
  ods_legal c wb = true -> known_ods c wb = None ->
  exists p, ods_parse_content (ods_events c wb) = Ok p /\ p_sheets p = wb_sheets wb.
Proof. exact sheets_in_order_ods. Qed.

(* xls, PARTIAL: workbooks without defined names and without an ExternSheet table — sheets in
   order with exact names (8- or 16-bit storage), visibility, kind, and the date flag; junk records
   anywhere among the globals.  The general statement (with Lbl / ExternSheet) is not proved. *)
Theorem C16_sheets_in_order_xls_partial : forall c wb,
  xls_legal c wb = true -> wb_names wb = [] -> lc_xtis c = [] ->
  xls_parse_workbook (xls_stream c wb) = Ok (mkParsed (wb_sheets wb) [] [] (wb_1904 wb)).
Proof. exact xls_parse_encode_partial. Qed.

(* the whole report at once *)
Theorem C16_report_xlsx : forall c wb rjunk,
  xlsx_legal c wb = true -> known_xlsx c wb = None -> forallb junk_ok_rels rjunk = true ->
  xlsx_open (rels_events [] rjunk (xc_rels c)) (xlsx_wb_events c wb) =
  Ok (mkParsed (wb_sheets wb) (xlsx_paths c wb) (wb_names wb) (wb_1904 wb)).
Proof. exact xlsx_open_encode. Qed.

Theorem C16_report_ods : forall c wb,
  ods_legal c wb = true -> known_ods c wb = None ->
  ods_parse_content (ods_events c wb) = Ok (mkParsed (wb_sheets wb) [] (wb_names wb) false).
Proof. exact ods_parse_encode. Qed.

(* the relationships part: any order, any junk, any prefix *)
Theorem C16_rels_roundtrip_xlsx : forall pfx junk l,
  no_colon pfx = true -> forallb junk_ok_rels junk = true ->
  xlsx_read_relationships (rels_events pfx junk l) [] = Ok (rels_map l).
Proof. exact xlsx_rels_roundtrip. Qed.

(* ---------- (2) defined names in workbook order, stored text unchanged (xlsx, ods) *)
Theorem C16_defined_names_in_order_xlsx : forall c wb rjunk,
  xlsx_legal c wb = true -> known_xlsx c wb = None -> forallb junk_ok_rels rjunk = true ->
  exists p, xlsx_open (rels_events [] rjunk (xc_rels c)) (xlsx_wb_events c wb) = Ok p /\
            p_names p = wb_names wb.
Proof. exact defined_names_in_order_xlsx. Qed.

Theorem C16_defined_names_in_order_ods : forall c wb,
  ods_legal c wb = true -> known_ods c wb = None ->
  exists p, ods_parse_content (ods_events c wb) = Ok p /\ p_names p = wb_names wb.
Proof. exact defined_names_in_order_ods. Qed.

(* ---------- (3) the date-system flag reaches every DateTime cell of every sheet *)
Theorem C16_date_flag_reaches_cells_xlsx : forall c wb rjunk,
  xlsx_legal c wb = true -> known_xlsx c wb = None -> forallb junk_ok_rels rjunk = true ->
  exists p, xlsx_open (rels_events [] rjunk (xc_rels c)) (xlsx_wb_events c wb) = Ok p /\
    forall formats cells b dur g,
      In (NumFmt.DDateTime b dur g) (xlsx_sheet_values p formats cells) -> g = wb_1904 wb.
Proof. exact date_flag_reaches_cells_xlsx. Qed.

(* for xls / xlsb: whatever flag the workbook part was parsed to is the flag of every DateTime
   cell (the equation p_1904 p = wb_1904 wb is part of the missing parse-encode theorems) *)
Theorem C16_date_flag_threaded_xls : forall p formats cells b dur g,
  In (NumFmt.DDateTime b dur g) (xls_sheet_values p formats cells) -> g = p_1904 p.
Proof. exact date_flag_cells_xls. Qed.
Theorem C16_date_flag_threaded_xlsb : forall p formats cells b dur g,
  In (NumFmt.DDateTime b dur g) (xlsb_sheet_values p formats cells) -> g = p_1904 p.
Proof. exact date_flag_cells_xlsb. Qed.

(* ---------- the visibility / kind tables are injective *)
Theorem C16_tables_injective :
  (forall a b, vis_text a = vis_text b -> a = b) /\
  (forall a b, kind_dir a = kind_dir b -> a = b) /\
  (forall a b, xls_vis_code a = xls_vis_code b -> a = b) /\
  (forall a b, xlsb_vis_code a = xlsb_vis_code b -> a = b) /\
  (forall a b, xls_kind_ok a = true -> xls_kind_ok b = true ->
               xls_kind_code a = xls_kind_code b -> a = b).
Proof. exact tables_injective. Qed.

(* ---------- known classes: the current code deviates on a legal input *)
Theorem C16_refuted_rid_prefix :
  let c := xlsx_witness_c [114; 101; 108] in
  xlsx_legal c xlsx_witness_wb = true /\ known_xlsx c xlsx_witness_wb = Some 1 /\
  xlsx_read_workbook (rels_map (xc_rels c)) (xlsx_wb_events c xlsx_witness_wb) = Err E_UNREC.
Proof. exact xlsx_refuted_rid_prefix. Qed.

Theorem C16_refuted_name_cdata :
  xlsx_legal xlsx_witness_cdata_c xlsx_witness_cdata_wb = true /\
  known_xlsx xlsx_witness_cdata_c xlsx_witness_cdata_wb = Some 2 /\
  xlsx_read_workbook [] (xlsx_wb_events xlsx_witness_cdata_c xlsx_witness_cdata_wb) =
  Ok (mkParsed [] [] [([110], [])] false).
Proof. exact xlsx_refuted_cdata. Qed.

Theorem C16_refuted_ods_names_whitespace :
  ods_legal ods_witness_c ods_witness_wb = true /\ known_ods ods_witness_c ods_witness_wb = Some 1 /\
  ods_parse_content (ods_events ods_witness_c ods_witness_wb) = Err E_MISMATCH.
Proof. exact ods_refuted_names_whitespace. Qed.

Theorem C16_refuted_xls_relative_name :
  xls_legal xls_witness_c xls_witness_wb = true /\
  known_xls xls_witness_c xls_witness_wb = Some 1 /\
  spec_names_xls xls_witness_c xls_witness_wb = [([110], [83; 33; 66; 36; 49])] /\
  xls_parse_workbook (xls_stream xls_witness_c xls_witness_wb) =
  Ok (mkParsed [mkMeta [83] Visible WorkSheet] []
               [([110], [83; 33; 36; 88; 70; 70; 36; 49])] false).
Proof. exact xls_refuted_relative_name. Qed.

(* ---------- non-vacuity *)
Example C16_xlsx_nonvacuous :
  xlsx_legal ex_xlsx_c ex_xlsx_wb = true /\ known_xlsx ex_xlsx_c ex_xlsx_wb = None /\
  xlsx_open (rels_events [] [] (xc_rels ex_xlsx_c)) (xlsx_wb_events ex_xlsx_c ex_xlsx_wb) =
  Ok (mkParsed (wb_sheets ex_xlsx_wb) (xlsx_paths ex_xlsx_c ex_xlsx_wb) (wb_names ex_xlsx_wb) true).
Proof. exact xlsx_nonvacuous. Qed.

Example C16_xls_nonvacuous :
  xls_legal ex_xls_c ex_xls_wb = true /\
  xls_parse_workbook (xls_stream ex_xls_c ex_xls_wb) =
  Ok (mkParsed (wb_sheets ex_xls_wb) [] [] true).
Proof. exact xls_nonvacuous. Qed.

Example C16_ods_nonvacuous :
  ods_legal ex_ods_c ex_ods_wb = true /\ known_ods ex_ods_c ex_ods_wb = None /\
  ods_parse_content (ods_events ex_ods_c ex_ods_wb) =
  Ok (mkParsed (wb_sheets ex_ods_wb) [] (wb_names ex_ods_wb) false).
Proof. exact ods_nonvacuous. Qed.

Check C16_report_xlsx : forall c wb rjunk,
  xlsx_legal c wb = true -> known_xlsx c wb = None -> forallb junk_ok_rels rjunk = true ->
  xlsx_open (rels_events [] rjunk (xc_rels c)) (xlsx_wb_events c wb) =
  Ok (mkParsed (wb_sheets wb) (xlsx_paths c wb) (wb_names wb) (wb_1904 wb)).
Check C16_report_ods : forall c wb,
  ods_legal c wb = true -> known_ods c wb = None ->
  ods_parse_content (ods_events c wb) = Ok (mkParsed (wb_sheets wb) [] (wb_names wb) false).
Check C16_date_flag_reaches_cells_xlsx : forall c wb rjunk,
  xlsx_legal c wb = true -> known_xlsx c wb = None -> forallb junk_ok_rels rjunk = true ->
  exists p, xlsx_open (rels_events [] rjunk (xc_rels c)) (xlsx_wb_events c wb) = Ok p /\
    forall formats cells b dur g,
      In (NumFmt.DDateTime b dur g) (xlsx_sheet_values p formats cells) -> g = wb_1904 wb.

Print Assumptions C16_sheets_in_order_xlsx.
Print Assumptions C16_sheets_in_order_ods.
Print Assumptions C16_sheets_in_order_xls_partial.
Print Assumptions C16_report_xlsx.
Print Assumptions C16_report_ods.
Print Assumptions C16_rels_roundtrip_xlsx.
Print Assumptions C16_defined_names_in_order_xlsx.
Print Assumptions C16_defined_names_in_order_ods.
Print Assumptions C16_date_flag_reaches_cells_xlsx.
Print Assumptions C16_date_flag_threaded_xls.
Print Assumptions C16_date_flag_threaded_xlsb.
Print Assumptions C16_tables_injective.
Print Assumptions C16_refuted_rid_prefix.
Print Assumptions C16_refuted_name_cdata.
Print Assumptions C16_refuted_ods_names_whitespace.
Print Assumptions C16_refuted_xls_relative_name.
