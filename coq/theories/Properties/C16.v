(* Property C16 — workbook metadata is reported faithfully and in workbook order.
   Only the property theorems (closed by [exact]), [Check] pins, non-vacuity examples and
   [Print Assumptions].  Models, logical workbook, encoders: Meta.v; proofs: Meta_proofs.v.

   The logical workbook [workbook V] stores its sheets as the (name, visibility, kind) triples the
   readers must report, so "map sheet_meta (sheets wb)" is [wb_sheets wb] itself.
   Proved end to end for all four formats (all workbooks, all legal encoding choices, no known
   class left): sheets in order, defined names in order, date flag, and the date flag composed
   with C10's style plumbing.  *)
From Calamine Require Import Prelude BiffSst Meta Meta_proofs MetaXls_proofs MetaXlsb_proofs MetaXlsNames_proofs.
From Calamine Require MetaXlsCodePage_proofs.
From Calamine Require Ptg NumFmt NumFmt_proofs.
Open Scope N_scope.

(* ---------- (1) sheets in workbook order: same count, same order, exact names, visibility, kind *)
Theorem C16_sheets_in_order_xlsx : forall c wb rjunk,
  xlsx_legal c wb = true -> forallb junk_ok_rels rjunk = true ->
  exists p, xlsx_open (rels_events [] rjunk (xc_rels c)) (xlsx_wb_events c wb) = Ok p /\
            p_sheets p = wb_sheets wb /\ p_paths p = xlsx_paths c wb.
Proof. exact sheets_in_order_xlsx. Qed.

Theorem C16_sheets_in_order_ods : forall c wb,
  ods_legal c wb = true ->
  exists p, ods_parse_content (ods_events c wb) = Ok p /\ p_sheets p = ow_metas wb.
Proof. exact sheets_in_order_ods. Qed.

(* xls: BoundSheet8 records in order (8- or 16-bit names, ANY value of the six unused upper bits of
   the hsState byte: [ls_hi ch < 64], MS-XLS 2.4.28), junk records in four places, Date1904 present
   or not *)
Theorem C16_sheets_in_order_xls : forall show_f64 c wb, xls_legal c wb = true ->
  exists p, xls_parse_workbook show_f64 (xls_stream c wb) = Ok p /\ p_sheets p = wb_sheets wb.
Proof. exact sheets_in_order_xls. Qed.

(* the whole xls report: Lbl records in order; the value of a name is ANY expression of C14's grammar
   (Ptg.expr: 3-D references and areas through the XTI table to the sheet — or span of sheets First:Last —
   they name, unions behind a PtgMemFunc / PtgMemArea as Excel writes Print_Titles and multi-area
   Print_Area, constants, names stored before or after, #REF! forms; until audit 2 the domain was one 3-D
   token), rendered by Ptg.render_xls; the rgce is found behind the name whatever extra data (rgcb)
   follows it (audit 2, XLS-4); the XTI table has any length up to 65535 and is cut anywhere into the
   ExternSheet record and its CONTINUE records (audit 2, XLS-5; until then: fewer than 1370); date flag *)
Theorem C16_report_xls : forall show_f64 c wb, xls_legal c wb = true ->
  xls_parse_workbook show_f64 (xls_stream c wb) =
  Ok (mkParsed (wb_sheets wb) [] (spec_names_xls show_f64 c wb) (wb_1904 wb)).
Proof. exact xls_parse_encode. Qed.

Theorem C16_defined_names_in_order_xls : forall show_f64 c wb, xls_legal c wb = true ->
  exists p, xls_parse_workbook show_f64 (xls_stream c wb) = Ok p /\ p_names p = spec_names_xls show_f64 c wb.
Proof. exact defined_names_in_order_xls. Qed.

(* xls: the CodePage record (0x0042, [MS-XLS] 2.4.52) decides nothing in a BIFF8 workbook.
   [xls_legal] admits one of ANY value wherever an ignorable record may stand (Meta.xjunk_ok), so
   the three theorems above quantify over it already; explicitly: a CodePage record of any 16-bit
   value put right behind the BOF of any legal globals stream (Excel: 1200, JExcelApi: 1252 — the
   repository's tests/sheet_name_parsing.xls —, 932, 65001, values unknown to every decoder
   table) leaves the stream legal and the whole report — sheet names in 8- or 16-bit storage,
   visibility, kind, defined names, date flag — unchanged.  Until the repair of audit-2 finding
   XLS-1 every string of such a workbook was decoded through the code page, the model answered
   "unmodelled" for every value but 1200, and no encoder could write the record. *)
Theorem C16_report_xls_any_codepage : forall show_f64 cp c wb, cp < 65536 ->
  xls_legal c wb = true ->
  xls_parse_workbook show_f64 (xls_stream (MetaXlsCodePage_proofs.with_codepage cp c) wb) =
  xls_parse_workbook show_f64 (xls_stream c wb) /\
  xls_parse_workbook show_f64 (xls_stream (MetaXlsCodePage_proofs.with_codepage cp c) wb) =
  Ok (mkParsed (wb_sheets wb) [] (spec_names_xls show_f64 c wb) (wb_1904 wb)).
Proof. exact MetaXlsCodePage_proofs.report_xls_any_codepage. Qed.

Theorem C16_codepage_record_skipped_xls : forall d c rest st, 2 <= len d ->
  xls_globals (Ok (66, d, c) :: rest) st = xls_globals rest st.
Proof. exact MetaXlsCodePage_proofs.xls_globals_codepage_any. Qed.

Example C16_xls_codepage_nonvacuous :
  Forall (fun cp =>
            xls_legal (MetaXlsCodePage_proofs.with_codepage cp ex_xlsn_c) ex_xlsn_wb = true /\
            xls_parse_workbook (fun _ => [])
              (xls_stream (MetaXlsCodePage_proofs.with_codepage cp ex_xlsn_c) ex_xlsn_wb) =
            Ok (mkParsed (wb_sheets ex_xlsn_wb) [] (spec_names_xls (fun _ => []) ex_xlsn_c ex_xlsn_wb) true))
         [1252; 1200; 932; 65001; 437; 54321; 0; 65535] /\
  firstn 10 (skipn 20 (xls_stream (MetaXlsCodePage_proofs.with_codepage 1252 ex_xlsn_c) ex_xlsn_wb)) =
    [66; 0; 2; 0; 228; 4; 225; 0; 2; 0] /\
  xls_legal MetaXlsCodePage_proofs.ex_xlsn_two ex_xlsn_wb = true /\
  xls_parse_workbook (fun _ => []) (xls_stream MetaXlsCodePage_proofs.ex_xlsn_two ex_xlsn_wb) =
  Ok (mkParsed (wb_sheets ex_xlsn_wb) [] (spec_names_xls (fun _ => []) ex_xlsn_c ex_xlsn_wb) true).
Proof. exact MetaXlsCodePage_proofs.xls_codepage_nonvacuous. Qed.

(* one BoundSheet8 record: hsState is the low 2 bits of its byte, the other six are free *)
Theorem C16_boundsheet_upper_bits_ignored : forall s ch, ls_legal s ch = true ->
  xls_sheet_metadata (boundsheet_body (ls_pos ch) (xls_vis_code (m_vis s) + 4 * ls_hi ch)
                                      (xls_kind_code (m_kind s)) (ls_wide ch) (units_of (m_name s)))
  = Ok (ls_pos ch, s).
Proof. exact sheet_metadata_enc. Qed.

(* xlsx / xlsb: the kind of a sheet is the one the Type of its workbook relationship names
   (transitional or strict worksheet / chartsheet / dialogsheet, xlMacrosheet / xlIntlMacrosheet),
   whatever the part is called; in [xlsx_legal] / [xlsb_legal] the part name [xs_part] / [bs_part]
   is ANY string (any folders, any file name) *)
Theorem C16_kind_from_relationship_type :
  (forall alt k, xlsx_kind_ok k = true -> kind_of_rel_type (kind_rel_type alt k) = Some k) /\
  (forall k path, sheet_kind (Some k) path = Some k).
Proof. split; [exact kind_of_rel_type_enc|reflexivity]. Qed.

(* xlsb: the BrtBundleSh list in order (names, visibility, kind through the relationship lookup:
   the relationship TYPE), junk records anywhere, 1- and 2-byte record types, 1-4-byte lengths *)
Theorem C16_sheets_in_order_xlsb : forall show_f64 c wb rjunk,
  xlsb_legal c wb = true -> forallb junk_ok_brels rjunk = true ->
  exists p, xlsb_open show_f64 (xlsb_rels_events rjunk (bc_rels c)) (xlsb_workbook_bin c wb) = Ok p /\
            p_sheets p = wb_sheets wb /\ p_paths p = xlsb_paths c wb.
Proof. exact sheets_in_order_xlsb. Qed.

(* the whole xlsb report: sheets, the (name, part path) table, every defined name rendered by the
   formula decoder under the XTI table and the names of ALL BrtName records — PtgName indexes the whole
   table and Excel stores the names sorted, so a name may use one stored after it (audit 2, XLSB-2,
   repaired; the spec used to say "the names before it", like the code) — any well-formed expression of
   C14's grammar, mem-prefixed unions and #REF! forms included, through C14_rpn_correct_xlsb; the EXTERNALS
   block holds any number of supporting links (BrtSupBookSrc / BrtSupSelf / BrtSupSame / BrtSupAddin) in
   any order and a legal XTI points, through a link to this workbook wherever it stands (Ptg.xti_local), at a
   sheet or a span of sheets First:Last of this workbook; date flag *)
Theorem C16_report_xlsb : forall show_f64 c wb rjunk,
  xlsb_legal c wb = true -> forallb junk_ok_brels rjunk = true ->
  xlsb_open show_f64 (xlsb_rels_events rjunk (bc_rels c)) (xlsb_workbook_bin c wb) =
  Ok (mkParsed (wb_sheets wb) (xlsb_paths c wb)
               (spec_names_xlsb show_f64 (spec_ext (map m_name (wb_sheets wb)) (bc_xtis c))
                                (wb_names wb))
               (wb_1904 wb)).
Proof. exact xlsb_open_encode. Qed.

Theorem C16_rels_roundtrip_xlsb : forall junk l, forallb junk_ok_brels junk = true ->
  xlsb_read_relationships (xlsb_rels_events junk l) [] = rels_map l.
Proof. exact xlsb_rels_roundtrip. Qed.

(* the whole report at once *)
Theorem C16_report_xlsx : forall c wb rjunk,
  xlsx_legal c wb = true -> forallb junk_ok_rels rjunk = true ->
  xlsx_open (rels_events [] rjunk (xc_rels c)) (xlsx_wb_events c wb) =
  Ok (mkParsed (wb_sheets wb) (xlsx_paths c wb) (wb_names wb) (wb_1904 wb)).
Proof. exact xlsx_open_encode. Qed.

(* ods: the workbook is the sheets in order, each with the names whose scope it is (stored in a
   table:named-expressions element inside its table:table, anywhere among its children), and
   the names whose scope is the document.  defined_names reports EVERY name, in document order:
   [ow_all_names] = the names of each sheet where its table stands, then the global ones. *)
Theorem C16_report_ods : forall c wb,
  ods_legal c wb = true ->
  ods_parse_content (ods_events c wb) = Ok (mkParsed (ow_metas wb) [] (ow_all_names wb) false).
Proof. exact ods_parse_encode. Qed.

(* the relationships part: any order, any junk, any prefix *)
Theorem C16_rels_roundtrip_xlsx : forall pfx junk l,
  no_colon pfx = true -> forallb junk_ok_rels junk = true ->
  xlsx_read_relationships (rels_events pfx junk l) [] = Ok (rels_map l).
Proof. exact xlsx_rels_roundtrip. Qed.

(* ---------- (2) defined names in workbook order, stored text unchanged (xlsx, ods) *)
Theorem C16_defined_names_in_order_xlsx : forall c wb rjunk,
  xlsx_legal c wb = true -> forallb junk_ok_rels rjunk = true ->
  exists p, xlsx_open (rels_events [] rjunk (xc_rels c)) (xlsx_wb_events c wb) = Ok p /\
            p_names p = wb_names wb.
Proof. exact defined_names_in_order_xlsx. Qed.

Theorem C16_defined_names_in_order_ods : forall c wb,
  ods_legal c wb = true ->
  exists p, ods_parse_content (ods_events c wb) = Ok p /\ p_names p = ow_all_names wb.
Proof. exact defined_names_in_order_ods. Qed.

(* ---------- (3) the date-system flag reaches every DateTime cell of every sheet *)
Theorem C16_date_flag_reaches_cells_xlsx : forall c wb rjunk,
  xlsx_legal c wb = true -> forallb junk_ok_rels rjunk = true ->
  exists p, xlsx_open (rels_events [] rjunk (xc_rels c)) (xlsx_wb_events c wb) = Ok p /\
    forall formats cells b dur g,
      In (NumFmt.DDateTime b dur g) (xlsx_sheet_values p formats cells) -> g = wb_1904 wb.
Proof. exact date_flag_reaches_cells_xlsx. Qed.

(* xlsb: the flag is the workbook's, and (C10's date_iff_style_xlsb) a numeric cell of any sheet
   under any style table is typed by its style and carries that flag *)
Theorem C16_date_flag_reaches_cells_xlsb : forall show_f64 c wb rjunk,
  xlsb_legal c wb = true -> forallb junk_ok_brels rjunk = true ->
  exists p, xlsb_open show_f64 (xlsb_rels_events rjunk (bc_rels c)) (xlsb_workbook_bin c wb) = Ok p /\
    (forall t style_ref v fmt,
       NumFmt_proofs.ids_below 65536 t -> NumFmt_proofs.xfs_present t ->
       NumFmt_proofs.customs_off_builtin_dates t ->
       nth_error (NumFmt.xfs t) (N.to_nat style_ref) = Some fmt ->
       NumFmt.xlsb_cell_number (NumFmt.xlsb_formats (NumFmt.enc_biff t)) (p_1904 p) style_ref v =
       NumFmt.spec_cell (NumFmt.resolve t fmt) (wb_1904 wb) v) /\
    (forall formats cells b dur g,
       In (NumFmt.DDateTime b dur g) (xlsb_sheet_values p formats cells) -> g = wb_1904 wb).
Proof. exact date_flag_reaches_cells_xlsb. Qed.

Theorem C16_date_flag_reaches_cells_xls : forall show_f64 c wb, xls_legal c wb = true ->
  exists p, xls_parse_workbook show_f64 (xls_stream c wb) = Ok p /\
    (forall t ixfe v fmt,
       NumFmt_proofs.ids_below 65536 t -> NumFmt_proofs.xfs_present t ->
       nth_error (NumFmt.xfs t) (N.to_nat ixfe) = Some fmt ->
       NumFmt.xls_cell_number (NumFmt.xls_formats (NumFmt.enc_biff t)) (p_1904 p) ixfe v =
       NumFmt.spec_cell (NumFmt.resolve t fmt) (wb_1904 wb) v) /\
    (forall t ixfe bits fmt,
       NumFmt_proofs.ids_below 65536 t -> NumFmt_proofs.xfs_present t ->
       nth_error (NumFmt.xfs t) (N.to_nat ixfe) = Some fmt ->
       NumFmt.xls_formula_number (NumFmt.xls_formats (NumFmt.enc_biff t)) (p_1904 p) ixfe bits =
       NumFmt.spec_cell (NumFmt.resolve t fmt) (wb_1904 wb) (NumFmt.NF bits)) /\
    (forall formats cells b dur g,
       In (NumFmt.DDateTime b dur g) (xls_sheet_values p formats cells) -> g = wb_1904 wb).
Proof. exact date_flag_reaches_cells_xls. Qed.

(* xlsx, composed with C10's date_iff_style_xlsx *)
Theorem C16_date_flag_style_xlsx : forall c wb rjunk,
  xlsx_legal c wb = true -> forallb junk_ok_rels rjunk = true ->
  exists p, xlsx_open (rels_events [] rjunk (xc_rels c)) (xlsx_wb_events c wb) = Ok p /\
    forall t s_attr bits fmt,
      NumFmt_proofs.ids_below (2 ^ 32) t -> NumFmt_proofs.codes_nonempty t ->
      nth_error (NumFmt.xfs t) (N.to_nat (match s_attr with Some i => i | None => 0 end)) = Some fmt ->
      NumFmt.xlsx_cell_number (NumFmt.xlsx_read_styles (NumFmt.enc_xlsx t)) (p_1904 p) s_attr bits =
      NumFmt.spec_cell (NumFmt.resolve t fmt) (wb_1904 wb) (NumFmt.NF bits).
Proof. exact date_flag_style_xlsx. Qed.

(* totality (for C06): the two event-level readers never panic and never run out of fuel, on any
   event list whatsoever *)
Theorem C16_no_panic_xlsx_open : forall rel_evs wb_evs,
  xlsx_open rel_evs wb_evs <> Panic /\ xlsx_open rel_evs wb_evs <> OutOfFuel.
Proof. exact no_panic_xlsx_open. Qed.
Theorem C16_no_panic_ods_parse_content : forall evs,
  ods_parse_content evs <> Panic /\ ods_parse_content evs <> OutOfFuel.
Proof. exact no_panic_ods_parse_content. Qed.

(* for xls / xlsb: whatever flag the workbook part was parsed to is the flag of every DateTime
   cell (the equation p_1904 p = wb_1904 wb is part of the missing parse-encode theorems) *)
Theorem C16_date_flag_threaded_xls : forall p formats cells b dur g,
  In (NumFmt.DDateTime b dur g) (xls_sheet_values p formats cells) -> g = p_1904 p.
Proof. exact date_flag_cells_xls. Qed.
Theorem C16_date_flag_threaded_xlsb : forall p formats cells b dur g,
  In (NumFmt.DDateTime b dur g) (xlsb_sheet_values p formats cells) -> g = p_1904 p.
Proof. exact date_flag_cells_xlsb. Qed.

(* ---------- the visibility / kind tables are injective *)
Theorem C16_tables_injective :
  (forall a b, vis_text a = vis_text b -> a = b) /\
  (forall a b, kind_dir a = kind_dir b -> a = b) /\
  (forall a b, xls_vis_code a = xls_vis_code b -> a = b) /\
  (forall a b, xlsb_vis_code a = xlsb_vis_code b -> a = b) /\
  (forall a b, xls_kind_ok a = true -> xls_kind_ok b = true ->
               xls_kind_code a = xls_kind_code b -> a = b).
Proof. exact tables_injective. Qed.

(* ---------- non-vacuity *)
Example C16_xlsx_nonvacuous :
  xlsx_legal ex_xlsx_c ex_xlsx_wb = true /\
  xlsx_open (rels_events [] [] (xc_rels ex_xlsx_c)) (xlsx_wb_events ex_xlsx_c ex_xlsx_wb) =
  Ok (mkParsed (wb_sheets ex_xlsx_wb) (xlsx_paths ex_xlsx_c ex_xlsx_wb) (wb_names ex_xlsx_wb) true).
Proof. exact xlsx_nonvacuous. Qed.

Example C16_xlsb_nonvacuous :
  xlsb_legal ex_xlsb_c ex_xlsb_wb = true /\
  map fst (spec_names_xlsb (fun _ => []) (spec_ext (map m_name (wb_sheets ex_xlsb_wb)) (bc_xtis ex_xlsb_c))
                           (wb_names ex_xlsb_wb)) = [[110]; [109]] /\
  nth_error (spec_names_xlsb (fun _ => []) (spec_ext (map m_name (wb_sheets ex_xlsb_wb)) (bc_xtis ex_xlsb_c))
                             (wb_names ex_xlsb_wb)) 0 = Some ([110], [109; 42; 50]).
Proof. exact xlsb_nonvacuous. Qed.

(* sheets; an XTI table of 3 entries cut into the ExternSheet record and two CONTINUE records (the second cut
   inside an XTI), one entry a span of sheets; names: a relative 3-D reference; _xlnm.Print_Titles as Excel
   writes it (PtgMemFunc in front of the union of two 3-D areas) through the span, stored as the built-in id
   7 with extra data behind the rgce; an area; a name defined through the name stored after it; a reference
   that no longer exists *)
Example C16_xls_nonvacuous :
  xls_legal ex_xlsn_c ex_xlsn_wb = true /\
  spec_names_xls (fun _ => []) ex_xlsn_c ex_xlsn_wb =
    [([110], [97; 233; 33; 66; 36; 49]);
     (s_xlnm ++ [80; 114; 105; 110; 116; 95; 84; 105; 116; 108; 101; 115],
      [97; 233; 58; 128512; 20013; 33; 36; 65; 36; 49; 58; 36; 66; 36; 54; 53; 53; 51; 54; 44; 97; 233; 58; 128512; 20013; 33; 36; 65; 36; 49; 58; 36; 73; 86; 36; 50]);
     ([20013], [128512; 20013; 33; 36; 65; 36; 49; 58; 36; 90; 49; 48]);
     ([97], [98; 42; 50]);
     ([98], [128512; 20013; 33; 35; 82; 69; 70; 33])] /\
  (* the built-in name _xlnm.Print_Titles is stored as its one-character id (fBuiltin) *)
  lbl_units (s_xlnm ++ [80; 114; 105; 110; 116; 95; 84; 105; 116; 108; 101; 115]) (mkLn true 33 65 1 []) = [7].
Proof. exact xlsn_nonvacuous. Qed.

(* sheet-scoped names on two of three sheets (first child of the table / last child), the same
   name [110] once with sheet scope and once global: five names in document order *)
Example C16_ods_nonvacuous :
  ods_legal ex_ods_c ex_ods_wb = true /\
  ods_parse_content (ods_events ex_ods_c ex_ods_wb) =
  Ok (mkParsed (ow_metas ex_ods_wb) [] (ow_all_names ex_ods_wb) false) /\
  ow_all_names ex_ods_wb = [([108; 49], [36; 66; 50]); ([110], [91; 46; 67; 51; 93]); ([108; 51], [36; 65; 49]);
                            ([110], [36; 65]); ([109], [91; 46; 65; 49; 93])].
Proof. exact ods_nonvacuous. Qed.

Check C16_report_xlsx : forall c wb rjunk,
  xlsx_legal c wb = true -> forallb junk_ok_rels rjunk = true ->
  xlsx_open (rels_events [] rjunk (xc_rels c)) (xlsx_wb_events c wb) =
  Ok (mkParsed (wb_sheets wb) (xlsx_paths c wb) (wb_names wb) (wb_1904 wb)).
Check C16_report_ods : forall c wb,
  ods_legal c wb = true ->
  ods_parse_content (ods_events c wb) = Ok (mkParsed (ow_metas wb) [] (ow_all_names wb) false).
Check C16_date_flag_reaches_cells_xlsx : forall c wb rjunk,
  xlsx_legal c wb = true -> forallb junk_ok_rels rjunk = true ->
  exists p, xlsx_open (rels_events [] rjunk (xc_rels c)) (xlsx_wb_events c wb) = Ok p /\
    forall formats cells b dur g,
      In (NumFmt.DDateTime b dur g) (xlsx_sheet_values p formats cells) -> g = wb_1904 wb.

Print Assumptions C16_sheets_in_order_xlsx.
Print Assumptions C16_sheets_in_order_ods.
Print Assumptions C16_sheets_in_order_xls.
Print Assumptions C16_report_xls.
Print Assumptions C16_defined_names_in_order_xls.
Print Assumptions C16_report_xls_any_codepage.
Print Assumptions C16_codepage_record_skipped_xls.
Print Assumptions C16_xls_codepage_nonvacuous.
Print Assumptions C16_date_flag_reaches_cells_xls.
Print Assumptions C16_date_flag_style_xlsx.
Print Assumptions C16_no_panic_xlsx_open.
Print Assumptions C16_no_panic_ods_parse_content.
Print Assumptions C16_sheets_in_order_xlsb.
Print Assumptions C16_report_xlsb.
Print Assumptions C16_rels_roundtrip_xlsb.
Print Assumptions C16_date_flag_reaches_cells_xlsb.
Print Assumptions C16_report_xlsx.
Print Assumptions C16_report_ods.
Print Assumptions C16_rels_roundtrip_xlsx.
Print Assumptions C16_defined_names_in_order_xlsx.
Print Assumptions C16_defined_names_in_order_ods.
Print Assumptions C16_date_flag_reaches_cells_xlsx.
Print Assumptions C16_date_flag_threaded_xls.
Print Assumptions C16_date_flag_threaded_xlsb.
Print Assumptions C16_tables_injective.
Print Assumptions C16_boundsheet_upper_bits_ignored.
Print Assumptions C16_kind_from_relationship_type.
