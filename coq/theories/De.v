(* De.v — faithful executable model of calamine's serde deserialisation of a Range<Data>
   (src/de.rs: RangeDeserializerBuilder/RangeDeserializer/RowDeserializer/DataDeserializer;
   src/datatype.rs: <Data as Deserialize>, Data::as_i64/as_f64/Display; src/lib.rs: Rows,
   deserialize_as_{i64,f64}_or_{none,string}), of the serde visitors that drive it for a fixed
   family of target shapes (tuples, Vec, derived structs, HashMap, primitives), and the
   specification of property C09 (records = map row_to_record (rows after the header)).
   Definitions only; proofs are in De_proofs.v.  The range is the Range model of Range.v. *)
From Calamine Require Import Prelude Range Range_spec DeNum.
Open Scope N_scope.
Set Implicit Arguments.

(* ---------- cell values (calamine::Data) ---------- *)
Inductive data : Type :=
| DInt (i : Z)                                   (* i64 *)
| DFloat (bits : N)                              (* f64, raw bits *)
| DString (s : str)
| DBool (b : bool)
| DDateTime (bits : N) (dur : bool) (is1904 : bool)   (* ExcelDateTime{value, type, is_1904} *)
| DDateTimeIso (s : str)
| DDurationIso (s : str)
| DError (e : N)                                 (* CellErrorType as a small code *)
| DEmpty.

Definition is_empty_cell (d : data) : bool := match d with DEmpty => true | _ => false end.

(* ---------- DeError ---------- *)
Inductive de_error : Type :=
| ECellError (e : N) (p : pos)
| EUnexpectedEndOfRow (p : pos)
| EHeaderNotFound (h : str)
| ECustom.                                       (* DeError::Custom(_): message text not modelled *)

(* Result<A, DeError> *)
Inductive dres (A : Type) : Type :=
| DOk (a : A)
| DErr (e : de_error).
Arguments DOk {A} a.
Arguments DErr {A} e.

Definition dres_map {A B} (f : A -> B) (r : dres A) : dres B :=
  match r with DOk a => DOk (f a) | DErr e => DErr e end.
Definition dbind {A B} (r : dres A) (f : A -> dres B) : dres B :=
  match r with DOk a => f a | DErr e => DErr e end.
(* collect::<Result<Vec<_>, _>>(): the first error in order *)
Fixpoint dsequence {A} (l : list (dres A)) : dres (list A) :=
  match l with
  | [] => DOk []
  | x :: t => dbind x (fun a => dres_map (cons a) (dsequence t))
  end.

(* ---------- what serde can ask of one cell ---------- *)
Inductive kind : Type :=
| KBool
| KInt (ik : ikind)                 (* i8..i64, u8..u64 through deserialize_num! *)
| KF32
| KF64
| KChar
| KString                           (* str / String *)
| KBytes                            (* bytes / byte_buf *)
| KOption (k : kind)
| KUnit
| KEnum (variants : list str)       (* derived enum with unit variants *)
| KAny                              (* calamine::Data (deserialize_any + DataVisitor) *)
| KIgnored                          (* serde::de::IgnoredAny *)
| KNewtype (k : kind)               (* newtype struct around k *)
| KI64OrNone                        (* calamine::deserialize_as_i64_or_none *)
| KI64OrString
| KF64OrNone
| KF64OrString.

Inductive value : Type :=
| VBool (b : bool)
| VInt (z : Z)                      (* any integer target: the width is that of the kind *)
| VF32 (bits : N)
| VF64 (bits : N)
| VChar (c : N)
| VStr (s : str)
| VBytes (b : list N)
| VNone
| VSome (v : value)
| VUnit
| VVariant (i : nat)                (* index of the unit variant *)
| VData (d : data)
| VIgnored
| VOkR (v : value)                  (* Ok(_) of the *_or_string helpers *)
| VErrR (s : str).                  (* Err(cell text) of the *_or_string helpers *)

(* the conversions calamine delegates to other crates / to core, kept abstract in the theorems *)
Record ext : Type := mkExt {
  x_parse_f64 : str -> option N;    (* <f64 as FromStr>::from_str *)
  x_parse_f32 : str -> option N;    (* <f32 as FromStr>::from_str *)
  x_fmt_f64 : N -> str;             (* <f64 as Display>::fmt *)
  x_atoi_i64 : str -> option Z;     (* atoi_simd::parse::<i64> *)
  x_fast_f64 : str -> option N      (* fast_float2::parse::<f64> *)
}.

Definition s_true : str := [116; 114; 117; 101].
Definition s_false : str := [102; 97; 108; 115; 101].
Definition bool_str (b : bool) : str := if b then s_true else s_false.
Definition bool_of_str (s : str) : option bool :=
  if str_eqb s [84; 82; 85; 69] || str_eqb s s_true || str_eqb s [84; 114; 117; 101] then Some true
  else if str_eqb s [70; 65; 76; 83; 69] || str_eqb s s_false || str_eqb s [70; 97; 108; 115; 101]
  then Some false else None.

Fixpoint index_of (s : str) (l : list str) : option nat :=
  match l with
  | [] => None
  | x :: t => if str_eqb x s then Some O
              else match index_of s t with Some i => Some (S i) | None => None end
  end.

Definition F64_ONE : N := 4607182418800017408.   (* 1.0f64 *)

Section Convert.
Variable X : ext.

(* <Data as Deserialize>::deserialize(DataDeserializer): deserialize_any + DataVisitor *)
Definition visit_any (p : pos) (d : data) : dres data :=
  match d with
  | DString s => DOk (DString s)
  | DFloat f => DOk (DFloat f)
  | DBool b => DOk (DBool b)
  | DInt i => DOk (DInt i)
  | DEmpty => DOk DEmpty
  | DDateTime f _ _ => DOk (DFloat f)
  | DDateTimeIso s => DOk (DString s)
  | DDurationIso s => DOk (DString s)
  | DError e => DErr (ECellError e p)
  end.

(* Data::as_i64 / as_f64 / to_string on the result of visit_any *)
Definition data_as_i64 (d : data) : option Z :=
  match d with
  | DInt v => Some v
  | DFloat f => Some (f64_to_int I64 f)
  | DBool b => Some (if b then 1 else 0)%Z
  | DString s => x_atoi_i64 X s
  | _ => None
  end.
Definition data_as_f64 (d : data) : option N :=
  match d with
  | DInt v => Some (int_to_float F64 v)
  | DFloat f => Some f
  | DBool b => Some (if b then F64_ONE else 0)
  | DString s => x_fast_f64 X s
  | _ => None
  end.
Definition data_to_string (d : data) : str :=
  match d with
  | DInt v => Z_to_str v
  | DFloat f => x_fmt_f64 X f
  | DString s => s
  | DBool b => bool_str b
  | DDateTime f _ _ => x_fmt_f64 X f
  | DDateTimeIso s => s
  | DDurationIso s => s
  | DError _ => []          (* unreachable after visit_any *)
  | DEmpty => []
  end.

(* DataDeserializer, one method per requested kind, followed by the standard visitor of the
   target type.  Total: no panic site is reachable (the expect in deserialize_char is guarded
   by len == 1). *)
Fixpoint convert (k : kind) (p : pos) (d : data) : dres value :=
  match k with
  | KBool =>
    match d with
    | DBool b => DOk (VBool b)
    | DString s => match bool_of_str s with Some b => DOk (VBool b) | None => DErr ECustom end
    | DEmpty => DOk (VBool false)
    | DFloat f => DOk (VBool (f64_nonzero f))
    | DInt i => DOk (VBool (negb (i =? 0)%Z))
    | DDateTime f _ _ => DOk (VBool (f64_nonzero f))
    | DDateTimeIso _ => DOk (VBool true)
    | DDurationIso _ => DOk (VBool true)
    | DError e => DErr (ECellError e p)
    end
  | KInt ik =>
    match d with
    | DFloat f => DOk (VInt (f64_to_int ik f))
    | DInt i => DOk (VInt (wrap_int ik i))
    | DString s => match parse_int ik s with Some z => DOk (VInt z) | None => DErr ECustom end
    | DError e => DErr (ECellError e p)
    | _ => DErr ECustom
    end
  | KF64 =>
    match d with
    | DFloat f => DOk (VF64 f)
    | DInt i => DOk (VF64 (int_to_float F64 i))
    | DString s => match x_parse_f64 X s with Some b => DOk (VF64 b) | None => DErr ECustom end
    | DError e => DErr (ECellError e p)
    | _ => DErr ECustom
    end
  | KF32 =>
    match d with
    | DFloat f => DOk (VF32 (f64_to_f32 f))
    | DInt i => DOk (VF32 (int_to_float F32 i))
    | DString s => match x_parse_f32 X s with Some b => DOk (VF32 b) | None => DErr ECustom end
    | DError e => DErr (ECellError e p)
    | _ => DErr ECustom
    end
  | KChar =>
    match d with
    | DString s => if utf8_len s =? 1
                   then match s with c :: _ => DOk (VChar c) | [] => DErr ECustom end
                   else DErr ECustom
    | DError e => DErr (ECellError e p)
    | _ => DErr ECustom
    end
  | KString =>
    match d with
    | DString s => DOk (VStr s)
    | DEmpty => DOk (VStr [])
    | DFloat f => DOk (VStr (x_fmt_f64 X f))
    | DInt i => DOk (VStr (Z_to_str i))
    | DBool b => DOk (VStr (bool_str b))
    | DDateTime f _ _ => DOk (VStr (x_fmt_f64 X f))
    | DDateTimeIso s => DOk (VStr s)
    | DDurationIso s => DOk (VStr s)
    | DError e => DErr (ECellError e p)
    end
  | KBytes =>
    match d with
    | DString s => DOk (VBytes (utf8_bytes s))
    | DEmpty => DOk (VBytes [])
    | DError e => DErr (ECellError e p)
    | _ => DErr ECustom
    end
  | KOption k' =>
    match d with
    | DEmpty => DOk VNone
    | _ => dres_map VSome (convert k' p d)
    end
  | KUnit =>
    match d with
    | DEmpty => DOk VUnit
    | DError e => DErr (ECellError e p)
    | _ => DErr ECustom
    end
  | KEnum vs =>
    match d with
    | DString s => match index_of s vs with Some i => DOk (VVariant i) | None => DErr ECustom end
    | DError e => DErr (ECellError e p)
    | _ => DErr ECustom
    end
  | KAny => dres_map VData (visit_any p d)
  | KIgnored => dres_map (fun _ => VIgnored) (visit_any p d)
  | KNewtype k' => convert k' p d
  | KI64OrNone =>
    dres_map (fun d' => match data_as_i64 d' with Some z => VSome (VInt z) | None => VNone end)
             (visit_any p d)
  | KI64OrString =>
    dres_map (fun d' => match data_as_i64 d' with
                        | Some z => VOkR (VInt z) | None => VErrR (data_to_string d') end)
             (visit_any p d)
  | KF64OrNone =>
    dres_map (fun d' => match data_as_f64 d' with Some b => VSome (VF64 b) | None => VNone end)
             (visit_any p d)
  | KF64OrString =>
    dres_map (fun d' => match data_as_f64 d' with
                        | Some b => VOkR (VF64 b) | None => VErrR (data_to_string d') end)
             (visit_any p d)
  end.

(* ---------- target record shapes ---------- *)
Record field : Type := mkField {
  f_name : str;          (* the serialised name (after #[serde(rename)]) *)
  f_kind : kind;
  f_default : bool       (* #[serde(default)] *)
}.

Inductive shape : Type :=
| STuple (ks : list kind)        (* (K1, .., Kn) *)
| SVec (k : kind)                (* Vec<K> *)
| SStruct (fs : list field)      (* #[derive(Deserialize)] struct with named fields *)
| SMap (k : kind)                (* HashMap<String, K> *)
| SBare.                         (* a primitive / String asked of a whole row *)

Inductive record : Type :=
| RSeq (vs : list value)
| RStruct (vs : list value)            (* field values in declaration order *)
| RMap (kvs : list (str * value)).     (* entries in insertion order; a later key overrides *)

(* Default::default() of the field types used with #[serde(default)] *)
Definition default_value (k : kind) : value :=
  match k with
  | KBool => VBool false
  | KInt _ => VInt 0
  | KF32 => VF32 0
  | KF64 => VF64 0
  | KString => VStr []
  | KBytes => VBytes []
  | KUnit => VUnit
  | KAny => VData DEmpty
  | _ => VNone
  end.

(* serde::__private::de::missing_field for a field absent from the map *)
Definition missing (f : field) : dres value :=
  if f_default f then DOk (default_value (f_kind f))
  else match f_kind f with KOption _ => DOk VNone | _ => DErr ECustom end.

Definition field_index (h : str) (fs : list field) : option nat := index_of h (map f_name fs).

(* ---------- RowDeserializer ---------- *)
Record rowde : Type := mkRowde {
  rd_cells : list data;
  rd_headers : option (list str);
  rd_iter : list nat;               (* slice::Iter over column_indexes: what is left *)
  rd_peek : option nat;
  rd_pos : pos
}.

Definition sat_add32 (a b : N) : N := N.min (a + b) U32MAX.
(* (self.pos.0, self.pos.1.saturating_add(i as u32)) *)
Definition cell_pos (p : pos) (i : nat) : pos :=
  (fst p, sat_add32 (snd p) (N.of_nat i mod 4294967296)).

(* SeqAccess::next_element_seed *)
Definition next_element (k : kind) (rd : rowde) : outcome (dres (option value) * rowde) :=
  match rd_iter rd with
  | [] => Ok (DOk None, rd)
  | i :: rest =>
    let rd' := mkRowde (rd_cells rd) (rd_headers rd) rest (rd_peek rd) (rd_pos rd) in
    match nth_error (rd_cells rd) i with
    | None => Panic                                        (* self.cells[*i] *)
    | Some c => Ok (dres_map Some (convert k (cell_pos (rd_pos rd) i) c), rd')
    end
  end.

(* MapAccess::next_key_seed: skip the empty cells *)
Fixpoint next_key_loop (cells : list data) (hs : list str) (iter : list nat)
  : outcome (option (nat * str) * list nat) :=
  match iter with
  | [] => Ok (None, [])
  | i :: rest =>
    match nth_error cells i with
    | None => Panic                                        (* self.cells[*i] *)
    | Some c =>
      if is_empty_cell c then next_key_loop cells hs rest
      else match nth_error hs i with
           | None => Panic                                 (* headers[*i] *)
           | Some h => Ok (Some (i, h), rest)
           end
    end
  end.
Definition next_key (rd : rowde) : outcome (option str * rowde) :=
  match rd_headers rd with
  | None => Panic                                          (* expect("Cannot map-deserialize …") *)
  | Some hs =>
    do r <- next_key_loop (rd_cells rd) hs (rd_iter rd);
    match fst r with
    | None => Ok (None, mkRowde (rd_cells rd) (rd_headers rd) (snd r) (rd_peek rd) (rd_pos rd))
    | Some (i, h) =>
      Ok (Some h, mkRowde (rd_cells rd) (rd_headers rd) (snd r) (Some i) (rd_pos rd))
    end
  end.

(* MapAccess::next_value_seed *)
Definition next_value (k : kind) (rd : rowde) : outcome (dres value * rowde) :=
  match rd_peek rd with
  | None => Ok (DErr (EUnexpectedEndOfRow (rd_pos rd)), rd)
  | Some i =>
    let rd' := mkRowde (rd_cells rd) (rd_headers rd) (rd_iter rd) None (rd_pos rd) in
    match nth_error (rd_cells rd) i with
    | None => Panic                                        (* self.cells[i] *)
    | Some c => Ok (convert k (cell_pos (rd_pos rd) i) c, rd')
    end
  end.

(* ---------- the serde visitors of the target shapes ---------- *)
(* tuple visitor: one next_element per component, invalid_length when the row is exhausted;
   cells beyond the arity are not looked at *)
Fixpoint seq_tuple (ks : list kind) (rd : rowde) : outcome (dres (list value)) :=
  match ks with
  | [] => Ok (DOk [])
  | k :: ks' =>
    do r <- next_element k rd;
    match fst r with
    | DErr e => Ok (DErr e)
    | DOk None => Ok (DErr ECustom)
    | DOk (Some v) => do rest <- seq_tuple ks' (snd r); Ok (dres_map (cons v) rest)
    end
  end.

(* Vec visitor: while let Some(v) = seq.next_element()? *)
Fixpoint seq_vec (fuel : nat) (k : kind) (rd : rowde) : outcome (dres (list value)) :=
  match fuel with
  | O => OutOfFuel
  | S f =>
    do r <- next_element k rd;
    match fst r with
    | DErr e => Ok (DErr e)
    | DOk None => Ok (DOk [])
    | DOk (Some v) => do rest <- seq_vec f k (snd r); Ok (dres_map (cons v) rest)
    end
  end.

(* derived struct, visit_seq: fields in declaration order *)
Fixpoint seq_struct (fs : list field) (rd : rowde) : outcome (dres (list value)) :=
  match fs with
  | [] => Ok (DOk [])
  | f :: fs' =>
    do r <- next_element (f_kind f) rd;
    match fst r with
    | DErr e => Ok (DErr e)
    | DOk None =>
      if f_default f
      then do rest <- seq_struct fs' (snd r); Ok (dres_map (cons (default_value (f_kind f))) rest)
      else Ok (DErr ECustom)
    | DOk (Some v) => do rest <- seq_struct fs' (snd r); Ok (dres_map (cons v) rest)
    end
  end.

(* derived struct, visit_map: one Option slot per field *)
Fixpoint map_struct_loop (fuel : nat) (fs : list field) (rd : rowde) (slots : list (option value))
  : outcome (dres (list (option value))) :=
  match fuel with
  | O => OutOfFuel
  | S f =>
    do r <- next_key rd;
    match fst r with
    | None => Ok (DOk slots)
    | Some h =>
      match field_index h fs with
      | Some j =>
        match nth_error slots j with
        | Some (Some _) => Ok (DErr ECustom)                      (* duplicate_field *)
        | _ =>
          let kj := match nth_error fs j with Some fj => f_kind fj | None => KIgnored end in
          do v <- next_value kj (snd r);
          match fst v with
          | DErr e => Ok (DErr e)
          | DOk x => map_struct_loop f fs (snd v) (list_set slots j (Some x))
          end
        end
      | None =>
        do v <- next_value KIgnored (snd r);                      (* __Field::__ignore *)
        match fst v with
        | DErr e => Ok (DErr e)
        | DOk _ => map_struct_loop f fs (snd v) slots
        end
      end
    end
  end.

Fixpoint finish_struct (fs : list field) (slots : list (option value)) : dres (list value) :=
  match fs, slots with
  | f :: fs', s :: slots' =>
    dbind (match s with Some v => DOk v | None => missing f end)
          (fun v => dres_map (cons v) (finish_struct fs' slots'))
  | _, _ => DOk []
  end.

Definition map_struct (fs : list field) (rd : rowde) : outcome (dres (list value)) :=
  do r <- map_struct_loop (S (length (rd_iter rd))) fs rd (repeat None (length fs));
  Ok (dbind r (finish_struct fs)).

(* HashMap visitor: while let Some((k, v)) = map.next_entry()? *)
Fixpoint map_map_loop (fuel : nat) (k : kind) (rd : rowde) : outcome (dres (list (str * value))) :=
  match fuel with
  | O => OutOfFuel
  | S f =>
    do r <- next_key rd;
    match fst r with
    | None => Ok (DOk [])
    | Some h =>
      do v <- next_value k (snd r);
      match fst v with
      | DErr e => Ok (DErr e)
      | DOk x => do rest <- map_map_loop f k (snd v); Ok (dres_map (cons (h, x)) rest)
      end
    end
  end.

(* <RowDeserializer as Deserializer>: deserialize_any / deserialize_map / deserialize_struct *)
Definition row_deserialize (sh : shape) (cols : list nat) (headers : option (list str))
           (cells : list data) (p : pos) : outcome (dres record) :=
  let rd := mkRowde cells headers cols None p in
  let has_headers := match headers with Some _ => true | None => false end in
  match sh with
  | STuple ks => omap (dres_map RSeq) (seq_tuple ks rd)
  | SVec k => omap (dres_map RSeq) (seq_vec (S (length cols)) k rd)
  | SStruct fs =>
    if has_headers then omap (dres_map RStruct) (map_struct fs rd)
    else omap (dres_map RStruct) (seq_struct fs rd)
  | SMap k =>
    if has_headers then omap (dres_map RMap) (map_map_loop (S (length cols)) k rd)
    else Ok (DErr ECustom)            (* visit_seq on a map visitor: invalid_type *)
  | SBare => Ok (DErr ECustom)        (* visit_seq on a primitive visitor: invalid_type *)
  end.

(* ---------- Rows (Option<slice::Chunks>) ---------- *)
Record rows_it : Type := mkRows { ri_some : bool; ri_v : list data; ri_w : nat }.

(* Range::rows *)
Definition rows_new (r : range data) : outcome rows_it :=
  if is_empty r then Ok (mkRows false [] 0)
  else let w := N.to_nat (width r) in
       if Nat.eqb w 0 then Panic       (* chunks(0) *)
       else Ok (mkRows true (r_inner r) w).

(* Chunks::next *)
Definition rows_next (it : rows_it) : option (list data) * rows_it :=
  if negb (ri_some it) then (None, it)
  else match ri_v it with
       | [] => (None, it)
       | _ => (Some (firstn (ri_w it) (ri_v it)),
               mkRows true (skipn (ri_w it) (ri_v it)) (ri_w it))
       end.

(* Chunks::size_hint *)
Definition rows_size_hint (it : rows_it) : N * option N :=
  if negb (ri_some it) then (0, Some 0)
  else match ri_v it with
       | [] => (0, Some 0)
       | _ =>
         let len := N.of_nat (length (ri_v it)) in
         let w := N.of_nat (ri_w it) in
         let n := len / w in
         let rem := len mod w in
         let n := if 0 <? rem then n + 1 else n in
         (n, Some n)
       end.

(* ---------- RangeDeserializer ---------- *)
Inductive hcfg : Type :=
| HNone                        (* has_headers(false) *)
| HAll                         (* new() / has_headers(true) / Range::deserialize *)
| HCustom (hs : list str).     (* with_headers / with_deserialize_headers *)

Record de_state : Type := mkDe {
  ds_cols : list nat;
  ds_headers : option (list str);
  ds_rows : rows_it;
  ds_pos : pos
}.

Definition record_strings (r : record) : list str :=
  match r with
  | RSeq vs => map (fun v => match v with VStr s => s | _ => [] end) vs
  | _ => []
  end.

Fixpoint position (h : str) (all : list str) : option nat :=
  match all with
  | [] => None
  | x :: t => if str_eqb (trim x) h then Some O
              else match position h t with Some i => Some (S i) | None => None end
  end.

(* RangeDeserializer::new *)
Definition de_new (cfg : hcfg) (r : range data) : outcome (dres de_state) :=
  do rows <- rows_new r;
  let cur := match start r with Some p => p | None => (0, 0) end in
  match cfg with
  | HNone => Ok (DOk (mkDe (seq 0 (N.to_nat (width r))) None rows cur))
  | HAll =>
    match rows_next rows with
    | (None, rows') => Ok (DOk (mkDe [] None rows' cur))
    | (Some row, rows') =>
      let all := seq 0 (length row) in
      let cur' := (sat_add32 (fst cur) 1, snd cur) in
      do hd <- row_deserialize (SVec KString) all None row cur;
      match hd with
      | DErr e => Ok (DErr e)
      | DOk rec => Ok (DOk (mkDe all (Some (record_strings rec)) rows' cur'))
      end
    end
  | HCustom sel =>
    match rows_next rows with
    | (None, rows') => Ok (DOk (mkDe [] None rows' cur))
    | (Some row, rows') =>
      let all := seq 0 (length row) in
      let cur' := (sat_add32 (fst cur) 1, snd cur) in
      do hd <- row_deserialize (SVec KString) all None row cur;
      match hd with
      | DErr e => Ok (DErr e)
      | DOk rec =>
        let all_headers := record_strings rec in
        match dsequence (map (fun h => match position (trim h) all_headers with
                                       | Some i => DOk i
                                       | None => DErr (EHeaderNotFound (trim h))
                                       end) sel) with
        | DErr e => Ok (DErr e)
        | DOk custom => Ok (DOk (mkDe custom (Some all_headers) rows' cur'))
        end
      end
    end
  end.

(* <RangeDeserializer as Iterator>::next *)
Definition de_next (sh : shape) (st : de_state) : outcome (option (dres record) * de_state) :=
  match rows_next (ds_rows st) with
  | (None, it') => Ok (None, mkDe (ds_cols st) (ds_headers st) it' (ds_pos st))
  | (Some row, it') =>
    let p := ds_pos st in
    let st' := mkDe (ds_cols st) (ds_headers st) it' (sat_add32 (fst p) 1, snd p) in
    do item <- row_deserialize sh (ds_cols st) (ds_headers st) row p;
    Ok (Some item, st')
  end.

(* <RangeDeserializer as Iterator>::size_hint *)
Definition de_size_hint (st : de_state) : N * option N := rows_size_hint (ds_rows st).

(* the observable run: size_hint before every next(), the item, and once more after the end *)
Definition hint := (N * option N)%type.
Fixpoint de_trace (fuel : nat) (sh : shape) (st : de_state)
  : outcome (list (hint * option (dres record))) :=
  match fuel with
  | O => OutOfFuel
  | S f =>
    let h := de_size_hint st in
    do r <- de_next sh st;
    match fst r with
    | None => Ok [(h, None); (de_size_hint (snd r), None)]
    | Some item => do rest <- de_trace f sh (snd r); Ok ((h, Some item) :: rest)
    end
  end.

(* k calls of next() *)
Fixpoint de_advance (k : nat) (sh : shape) (st : de_state) : outcome de_state :=
  match k with
  | O => Ok st
  | S k' => do r <- de_next sh st; de_advance k' sh (snd r)
  end.

(* the items still to come from a state (fuel = an upper bound of their number, plus one) *)
Fixpoint de_items (fuel : nat) (sh : shape) (st : de_state) : outcome (list (dres record)) :=
  match fuel with
  | O => OutOfFuel
  | S f =>
    do r <- de_next sh st;
    match fst r with
    | None => Ok []
    | Some item => do rest <- de_items f sh (snd r); Ok (item :: rest)
    end
  end.

(* the whole public entry: builder.from_range(range) then iterate *)
Definition de_run (cfg : hcfg) (sh : shape) (r : range data)
  : outcome (dres (list (hint * option (dres record)))) :=
  do st <- de_new cfg r;
  match st with
  | DErr e => Ok (DErr e)
  | DOk st => do t <- de_trace (S (length (rows r))) sh st; Ok (DOk t)
  end.

(* ================================================================================== *)
(* Specification                                                                      *)
(* ================================================================================== *)

(* absolute position of column index i in a row whose first cell is at p *)
Definition abs_pos (p : pos) (i : nat) : pos := (fst p, snd p + N.of_nat i).
Definition cell_at (row : list data) (i : nat) : data := nth i row DEmpty.
Definition spec_cell (k : kind) (p : pos) (row : list data) (i : nat) : dres value :=
  convert k (abs_pos p i) (cell_at row i).

(* positional records: the selected cells in order *)
Fixpoint spec_tuple (ks : list kind) (cols : list nat) (p : pos) (row : list data)
  : dres (list value) :=
  match ks with
  | [] => DOk []
  | k :: ks' =>
    match cols with
    | [] => DErr ECustom
    | i :: cols' =>
      dbind (spec_cell k p row i) (fun v => dres_map (cons v) (spec_tuple ks' cols' p row))
    end
  end.
Definition spec_vec (k : kind) (cols : list nat) (p : pos) (row : list data) : dres (list value) :=
  dsequence (map (spec_cell k p row) cols).
Fixpoint spec_struct_seq (fs : list field) (cols : list nat) (p : pos) (row : list data)
  : dres (list value) :=
  match fs with
  | [] => DOk []
  | f :: fs' =>
    match cols with
    | [] => if f_default f
            then dres_map (cons (default_value (f_kind f))) (spec_struct_seq fs' [] p row)
            else DErr ECustom
    | i :: cols' =>
      dbind (spec_cell (f_kind f) p row i)
            (fun v => dres_map (cons v) (spec_struct_seq fs' cols' p row))
    end
  end.

(* binding by header: the selected columns whose cell is not empty, with their header *)
Definition bcell := (nat * str * data)%type.
Definition bc_col (b : bcell) : nat := fst (fst b).
Definition bc_hdr (b : bcell) : str := snd (fst b).
Definition bc_data (b : bcell) : data := snd b.
Definition bound_cells (cols : list nat) (hs : list str) (row : list data) : list bcell :=
  filter (fun b => negb (is_empty_cell (bc_data b)))
         (map (fun i => (i, nth i hs [], cell_at row i)) cols).

Definition field_kind (fs : list field) (j : nat) : kind :=
  match nth_error fs j with Some f => f_kind f | None => KIgnored end.

(* the first error met when visiting the bound cells in column order: a second cell for an
   already bound field (duplicate_field), or the conversion error of the cell *)
Fixpoint struct_first_error (fs : list field) (p : pos) (seen : list nat) (bcs : list bcell)
  : option de_error :=
  match bcs with
  | [] => None
  | b :: rest =>
    match field_index (bc_hdr b) fs with
    | Some j =>
      if existsb (Nat.eqb j) seen then Some ECustom
      else match convert (field_kind fs j) (abs_pos p (bc_col b)) (bc_data b) with
           | DErr e => Some e
           | DOk _ => struct_first_error fs p (j :: seen) rest
           end
    | None =>
      match convert KIgnored (abs_pos p (bc_col b)) (bc_data b) with
      | DErr e => Some e
      | DOk _ => struct_first_error fs p seen rest
      end
    end
  end.

(* value of one field: the bound cell whose header is the field's name, else "missing" *)
Definition field_value (fs : list field) (p : pos) (bcs : list bcell) (j : nat) (f : field)
  : dres value :=
  match find (fun b => match field_index (bc_hdr b) fs with
                       | Some j' => Nat.eqb j' j | None => false end) bcs with
  | Some b => convert (f_kind f) (abs_pos p (bc_col b)) (bc_data b)
  | None => missing f
  end.

Fixpoint mapi_from {A B} (n : nat) (f : nat -> A -> B) (l : list A) : list B :=
  match l with [] => [] | x :: t => f n x :: mapi_from (S n) f t end.

Definition spec_struct_map (fs : list field) (p : pos) (bcs : list bcell) : dres (list value) :=
  match struct_first_error fs p [] bcs with
  | Some e => DErr e
  | None => dsequence (mapi_from 0 (field_value fs p bcs) fs)
  end.

Definition spec_hashmap (k : kind) (p : pos) (bcs : list bcell) : dres (list (str * value)) :=
  dsequence (map (fun b => dres_map (fun v => (bc_hdr b, v))
                                    (convert k (abs_pos p (bc_col b)) (bc_data b))) bcs).

(* the record of one row *)
Definition row_to_record (sh : shape) (cols : list nat) (headers : option (list str))
           (p : pos) (row : list data) : dres record :=
  match sh with
  | STuple ks => dres_map RSeq (spec_tuple ks cols p row)
  | SVec k => dres_map RSeq (spec_vec k cols p row)
  | SStruct fs =>
    match headers with
    | None => dres_map RStruct (spec_struct_seq fs cols p row)
    | Some hs => dres_map RStruct (spec_struct_map fs p (bound_cells cols hs row))
    end
  | SMap k =>
    match headers with
    | None => DErr ECustom
    | Some hs => dres_map RMap (spec_hashmap k p (bound_cells cols hs row))
    end
  | SBare => DErr ECustom
  end.

(* HashMap lookup on the entry list: the last binding of the key *)
Fixpoint hm_get (k : str) (kvs : list (str * value)) : option value :=
  match kvs with
  | [] => None
  | (k', v) :: t => match hm_get k t with
                    | Some v' => Some v'
                    | None => if str_eqb k' k then Some v else None
                    end
  end.

(* the header row read as strings (Vec<String>) *)
Definition header_strings (p : pos) (row : list data) : dres (list str) :=
  dsequence (map (fun i => dres_map (fun v => match v with VStr s => s | _ => [] end)
                                    (spec_cell KString p row i)) (seq 0 (length row))).

(* selecting headers: for each requested name (trimmed) the first column whose trimmed header is
   equal, or HeaderNotFound for the first name that has none *)
Definition select_columns (sel : list str) (all : list str) : dres (list nat) :=
  dsequence (map (fun h => match position (trim h) all with
                           | Some i => DOk i
                           | None => DErr (EHeaderNotFound (trim h))
                           end) sel).

Record plan : Type := mkPlan {
  pl_cols : list nat;
  pl_headers : option (list str);
  pl_pos : pos;                    (* position of the first cell of the first data row *)
  pl_rows : list (list data)       (* the data rows *)
}.

Definition spec_plan (cfg : hcfg) (r : range data) : dres plan :=
  let p0 := match start r with Some p => p | None => (0, 0) end in
  match cfg with
  | HNone => DOk (mkPlan (seq 0 (N.to_nat (width r))) None p0 (rows r))
  | HAll =>
    match rows r with
    | [] => DOk (mkPlan [] None p0 [])
    | h :: rs =>
      dbind (header_strings p0 h)
            (fun hs => DOk (mkPlan (seq 0 (length h)) (Some hs) (fst p0 + 1, snd p0) rs))
    end
  | HCustom sel =>
    match rows r with
    | [] => DOk (mkPlan [] None p0 [])
    | h :: rs =>
      dbind (header_strings p0 h)
            (fun hs => dbind (select_columns sel hs)
                             (fun cols => DOk (mkPlan cols (Some hs) (fst p0 + 1, snd p0) rs)))
    end
  end.

Definition plan_records (sh : shape) (pl : plan) : list (dres record) :=
  mapi_from 0 (fun k row => row_to_record sh (pl_cols pl) (pl_headers pl)
                                          (fst (pl_pos pl) + N.of_nat k, snd (pl_pos pl)) row)
            (pl_rows pl).

(* the records of a range: one per row after the header row, in order *)
Definition spec_records (cfg : hcfg) (sh : shape) (r : range data) : dres (list (dres record)) :=
  dres_map (plan_records sh) (spec_plan cfg r).

(* the size hints a faithful iterator reports: exactly the number of items still to come *)
Fixpoint spec_trace_from (items : list (dres record)) : list (hint * option (dres record)) :=
  match items with
  | [] => [((0, Some 0), None); ((0, Some 0), None)]
  | it :: rest => let n := N.of_nat (length items) in
                  ((n, Some n), Some it) :: spec_trace_from rest
  end.
Definition spec_run (cfg : hcfg) (sh : shape) (r : range data)
  : dres (list (hint * option (dres record))) :=
  dres_map spec_trace_from (spec_records cfg sh r).

End Convert.

(* the range invariant under which the theorems are stated: well formed (C05) with u32
   coordinates *)
Definition range_ok (r : range data) : Prop :=
  Wf r /\ fst (r_end r) <= U32MAX /\ snd (r_end r) <= U32MAX.

(* reference instantiation of the external conversions (DeNum.v), used by the extraction *)
Definition std_ext : ext :=
  mkExt (parse_float F64) (parse_float F32) fmt_f64 atoi_i64 (parse_float F64).

Definition run_std := de_run std_ext.
Definition spec_std := spec_run std_ext.
Definition convert_std := convert std_ext.
