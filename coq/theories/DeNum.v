(* DeNum.v — numeric and textual primitives used by the serde-deserialisation model (De.v):
   Rust's integer FromStr, the `as` casts between i64 / f64 / f32 / iN / uN on raw IEEE bits
   (plain Z arithmetic, no Flocq), str::trim, UTF-8 lengths, and executable reference versions of
   the two external conversions that De.v takes as Section variables (decimal string -> float,
   float -> shortest decimal string).  Definitions only; must stay executable. *)
From Calamine Require Import Prelude.
Open Scope N_scope.
Set Implicit Arguments.

Definition str := list N.      (* a Rust String as its Unicode scalar values *)

Fixpoint str_eqb (a b : str) : bool :=
  match a, b with
  | [], [] => true
  | x :: a', y :: b' => (x =? y) && str_eqb a' b'
  | _, _ => false
  end.

(* ---------- char::is_whitespace (White_Space) and str::trim ---------- *)
Definition is_ws (c : N) : bool :=
  ((9 <=? c) && (c <=? 13)) || (c =? 32) || (c =? 133) || (c =? 160) || (c =? 5760) ||
  ((8192 <=? c) && (c <=? 8202)) || (c =? 8232) || (c =? 8233) || (c =? 8239) || (c =? 8287) ||
  (c =? 12288).

Fixpoint trim_start (s : str) : str :=
  match s with
  | [] => []
  | c :: t => if is_ws c then trim_start t else s
  end.
Definition trim (s : str) : str := rev (trim_start (rev (trim_start s))).

(* ---------- UTF-8 ---------- *)
Definition utf8_len1 (c : N) : N :=
  if c <? 128 then 1 else if c <? 2048 then 2 else if c <? 65536 then 3 else 4.
Definition utf8_len (s : str) : N := fold_left (fun a c => a + utf8_len1 c) s 0.
Definition utf8_bytes1 (c : N) : list N :=
  if c <? 128 then [c]
  else if c <? 2048 then [192 + c / 64; 128 + c mod 64]
  else if c <? 65536 then [224 + c / 4096; 128 + (c / 64) mod 64; 128 + c mod 64]
  else [240 + c / 262144; 128 + (c / 4096) mod 64; 128 + (c / 64) mod 64; 128 + c mod 64].
Definition utf8_bytes (s : str) : list N := flat_map utf8_bytes1 s.

(* ---------- decimal text ---------- *)
Definition is_digit (c : N) : bool := (48 <=? c) && (c <=? 57).

(* decimal digits of n, most significant first (fuel = an upper bound of their number) *)
Fixpoint to_digits (fuel : nat) (n : N) (acc : str) : str :=
  match fuel with
  | O => acc
  | S f => let acc' := (48 + n mod 10) :: acc in
           if n <? 10 then acc' else to_digits f (n / 10) acc'
  end.
Definition N_to_str (n : N) : str := to_digits (S (N.to_nat (N.size n))) n [].
(* i64::to_string *)
Definition Z_to_str (z : Z) : str :=
  match z with
  | Zneg p => 45 :: N_to_str (Npos p)
  | _ => N_to_str (Z.to_N z)
  end.

Local Open Scope Z_scope.

(* value of an all-digit string (None when some character is not an ASCII digit) *)
Fixpoint digits_val (acc : Z) (s : str) : option Z :=
  match s with
  | [] => Some acc
  | c :: t => if is_digit c then digits_val (acc * 10 + Z.of_N (c - 48)%N) t else None
  end.

(* ---------- machine integer kinds ---------- *)
Inductive ikind : Type := I8 | I16 | I32 | I64 | U8 | U16 | U32 | U64.
Definition ik_signed (k : ikind) : bool :=
  match k with I8 | I16 | I32 | I64 => true | _ => false end.
Definition ik_bits (k : ikind) : Z :=
  match k with I8 | U8 => 8 | I16 | U16 => 16 | I32 | U32 => 32 | I64 | U64 => 64 end.
Definition ik_min (k : ikind) : Z := if ik_signed k then - 2 ^ (ik_bits k - 1) else 0.
Definition ik_max (k : ikind) : Z :=
  if ik_signed k then 2 ^ (ik_bits k - 1) - 1 else 2 ^ ik_bits k - 1.
Definition ik_in (k : ikind) (z : Z) : bool := (ik_min k <=? z) && (z <=? ik_max k).

(* <iN/uN as FromStr>::from_str: optional '+', optional '-' for signed types only, then one or
   more ASCII digits; out of range is an error *)
Definition parse_int (k : ikind) (s : str) : option Z :=
  match s with
  | [] => None
  | c :: t =>
    let '(neg, ds) :=
      if (c =? 43)%N then (false, t)
      else if (c =? 45)%N && ik_signed k then (true, t)
      else (false, s) in
    match ds with
    | [] => None
    | _ => match digits_val 0 ds with
           | None => None
           | Some v => let z := if neg then - v else v in
                       if ik_in k z then Some z else None
           end
    end
  end.

(* i64 as iN/uN: truncation to the low bits (two's complement) *)
Definition wrap_int (k : ikind) (z : Z) : Z :=
  let m := 2 ^ ik_bits k in
  let r := z mod m in
  if ik_signed k && (m / 2 <=? r) then r - m else r.

Definition clamp_int (k : ikind) (z : Z) : Z :=
  if z <? ik_min k then ik_min k else if ik_max k <? z then ik_max k else z.

(* ---------- IEEE binary formats on raw bits ---------- *)
Record ffmt : Type := { ff_prec : Z; ff_qmin : Z; ff_ebits : Z }.
Definition F64 : ffmt := {| ff_prec := 53; ff_qmin := -1074; ff_ebits := 11 |}.
Definition F32 : ffmt := {| ff_prec := 24; ff_qmin := -149; ff_ebits := 8 |}.
Definition ff_mbits (F : ffmt) : Z := ff_prec F - 1.
Definition ff_emax (F : ffmt) : Z := 2 ^ ff_ebits F - 1.            (* all-ones exponent field *)
Definition ff_sign (F : ffmt) : Z := 2 ^ (ff_mbits F + ff_ebits F).
Definition ff_inf (F : ffmt) : Z := ff_emax F * 2 ^ ff_mbits F.
Definition ff_nan (F : ffmt) : Z := ff_inf F + 2 ^ (ff_mbits F - 1).  (* the default quiet NaN *)

Inductive fval : Type :=
| FNaN
| FInf (neg : bool)
| FFin (neg : bool) (m : Z) (e : Z).      (* (-1)^neg * m * 2^e, m >= 0 *)

Definition fdecode (F : ffmt) (bits : N) : fval :=
  let b := Z.of_N bits in
  let neg := Z.odd (b / ff_sign F) in
  let ex := (b / 2 ^ ff_mbits F) mod 2 ^ ff_ebits F in
  let man := b mod 2 ^ ff_mbits F in
  if ex =? ff_emax F then (if man =? 0 then FInf neg else FNaN)
  else if ex =? 0 then FFin neg man (ff_qmin F)
  else FFin neg (man + 2 ^ ff_mbits F) (ex - 1 + ff_qmin F).

Definition f64_is_nan (bits : N) : bool :=
  match fdecode F64 bits with FNaN => true | _ => false end.
Definition f32_is_nan (bits : N) : bool :=
  match fdecode F32 bits with FNaN => true | _ => false end.

(* `v != 0.` on an f64: false exactly for +0 and -0 (NaN != 0 is true) *)
Definition f64_nonzero (bits : N) : bool := negb (Z.of_N bits mod 2 ^ 63 =? 0).

(* f64 as iN/uN: truncation toward zero, saturating, NaN -> 0 *)
Definition f64_to_int (k : ikind) (bits : N) : Z :=
  match fdecode F64 bits with
  | FNaN => 0
  | FInf neg => if neg then ik_min k else ik_max k
  | FFin neg m e =>
    let t := if 0 <=? e then m * 2 ^ e else m / 2 ^ (- e) in
    clamp_int k (if neg then - t else t)
  end.

(* num/den >= 2^l ? (num, den > 0) *)
Definition ge_pow2 (num den l : Z) : bool :=
  if 0 <=? l then den * 2 ^ l <=? num else den <=? num * 2 ^ (- l).

(* correctly rounded (nearest, ties to even) encoding of the positive rational num/den;
   the result is the bit pattern without the sign bit *)
Definition round_pos (F : ffmt) (num den : Z) : Z :=
  let l := Z.log2 num - Z.log2 den in
  let e := if ge_pow2 num den l then l else l - 1 in          (* 2^e <= num/den < 2^(e+1) *)
  let q := Z.max (e - (ff_prec F - 1)) (ff_qmin F) in          (* exponent of the last place *)
  let n' := if 0 <=? q then num else num * 2 ^ (- q) in
  let d' := if 0 <=? q then den * 2 ^ q else den in
  let m0 := n' / d' in
  let r := n' mod d' in
  let m := if 2 * r <? d' then m0 else if d' <? 2 * r then m0 + 1
           else if Z.even m0 then m0 else m0 + 1 in
  let '(m, q) := if m =? 2 ^ ff_prec F then (2 ^ (ff_prec F - 1), q + 1) else (m, q) in
  if m <? 2 ^ (ff_prec F - 1) then m                           (* subnormal (or zero) *)
  else
    let ef := q - ff_qmin F + 1 in
    if ff_emax F <=? ef then ff_inf F
    else ef * 2 ^ ff_mbits F + (m - 2 ^ (ff_prec F - 1)).

Definition with_sign (F : ffmt) (neg : bool) (mag : Z) : N :=
  Z.to_N (if neg then ff_sign F + mag else mag).

(* i64 as f64 / f32 *)
Definition int_to_float (F : ffmt) (z : Z) : N :=
  if z =? 0 then 0%N else with_sign F (z <? 0) (round_pos F (Z.abs z) 1).

(* f64 as f32 (every NaN is mapped to the default quiet NaN: payloads are not compared) *)
Definition f64_to_f32 (bits : N) : N :=
  match fdecode F64 bits with
  | FNaN => Z.to_N (ff_nan F32)
  | FInf neg => with_sign F32 neg (ff_inf F32)
  | FFin neg m e =>
    if m =? 0 then with_sign F32 neg 0
    else if 0 <=? e then with_sign F32 neg (round_pos F32 (m * 2 ^ e) 1)
    else with_sign F32 neg (round_pos F32 m (2 ^ (- e)))
  end.

(* ---------- <f64/f32 as FromStr>::from_str (core::num::dec2flt), reference version ---------- *)
Fixpoint take_digits (s : str) : str * str :=
  match s with
  | c :: t => if is_digit c then let '(d, r) := take_digits t in (c :: d, r) else ([], s)
  | [] => ([], [])
  end.

Definition to_lower (c : N) : N := if ((65 <=? c) && (c <=? 90))%N then (c + 32)%N else c.
Definition s_nan : str := [110; 97; 110]%N.
Definition s_inf : str := [105; 110; 102]%N.
Definition s_infinity : str := [105; 110; 102; 105; 110; 105; 116; 121]%N.

Fixpoint strip_zeros (s : str) : str :=
  match s with
  | c :: t => if (c =? 48)%N then strip_zeros t else s
  | [] => []
  end.

(* digits * 10^x, decomposed: (digit string, x); None when the text is not a number *)
Definition parse_decimal (s : str) : option (str * Z) :=
  let '(ip, r1) := take_digits s in
  let '(fp, r2) := match r1 with
                   | c :: t => if (c =? 46)%N then take_digits t else ([], r1)
                   | [] => ([], [])
                   end in
  match ip ++ fp with
  | [] => None
  | ds =>
    match r2 with
    | [] => Some (ds, - Z.of_nat (length fp))
    | c :: t =>
      if ((c =? 101) || (c =? 69))%N then
        let '(eneg, t') := match t with
                           | c' :: t'' => if (c' =? 45)%N then (true, t'')
                                          else if (c' =? 43)%N then (false, t'') else (false, t)
                           | [] => (false, [])
                           end in
        let '(ed, r3) := take_digits t' in
        match ed, r3 with
        | _ :: _, [] =>
          match digits_val 0 ed with
          | Some ev => Some (ds, (if eneg then - ev else ev) - Z.of_nat (length fp))
          | None => None
          end
        | _, _ => None
        end
      else None
    end
  end.

Definition parse_float (F : ffmt) (s : str) : option N :=
  match s with
  | [] => None
  | c :: t =>
    let '(neg, r) := if (c =? 45)%N then (true, t) else if (c =? 43)%N then (false, t)
                     else (false, s) in
    match r with
    | [] => None
    | _ =>
      match parse_decimal r with
      | Some (ds, x) =>
        let sig := strip_zeros ds in
        match sig with
        | [] => Some (with_sign F neg 0)
        | _ =>
          let mag10 := Z.of_nat (length sig) + x in     (* 10^(mag10-1) <= value < 10^mag10 *)
          if 400 <? mag10 then Some (with_sign F neg (ff_inf F))
          else if mag10 <? -400 then Some (with_sign F neg 0)
          else
            match digits_val 0 sig with
            | None => None
            | Some d =>
              Some (with_sign F neg
                      (if 0 <=? x then round_pos F (d * 10 ^ x) 1 else round_pos F d (10 ^ (- x))))
            end
        end
      | None =>
        let lr := map to_lower r in
        if str_eqb lr s_nan then Some (with_sign F neg (ff_nan F))
        else if str_eqb lr s_inf || str_eqb lr s_infinity then Some (with_sign F neg (ff_inf F))
        else None
      end
    end
  end.

(* ---------- <f64 as Display>::fmt without precision: shortest round-trip digits ---------- *)
(* v = V/D, rounding interval (L/D, H/D) (closed when the mantissa is even) *)
Fixpoint find_k (fuel : nat) (V D k : Z) : Z :=   (* 10^(k-1) <= V/D < 10^k *)
  match fuel with
  | O => k
  | S f =>
    let lt_hi := if 0 <=? k then V <? D * 10 ^ k else V * 10 ^ (- k) <? D in
    let ge_lo := if 0 <=? k - 1 then D * 10 ^ (k - 1) <=? V else D <=? V * 10 ^ (1 - k) in
    if negb lt_hi then find_k f V D (k + 1)
    else if negb ge_lo then find_k f V D (k - 1)
    else k
  end.

(* try n significant digits: Some (digits, k') when a candidate lies in the interval *)
Definition shortest_try (V L H D k : Z) (incl : bool) (n : Z) : option (Z * Z) :=
  (* unit s = 10^(k-n) = sn/sd *)
  let sn := if 0 <=? k - n then 10 ^ (k - n) else 1 in
  let sd := if 0 <=? k - n then 1 else 10 ^ (n - k) in
  (* d_lo = floor (V/D / (sn/sd)) = floor (V*sd / (D*sn)) *)
  let den := D * sn in
  let dlo := (V * sd) / den in
  let rem := (V * sd) mod den in            (* (v - dlo*s) scaled by den/…; unit s <-> den *)
  (* dlo*s > L/D  <=>  dlo*sn*D > L*sd ... all over D*sd *)
  let lo_ok := if incl then L * sd <=? dlo * den else L * sd <? dlo * den in
  let hi_ok := if incl then (dlo + 1) * den <=? H * sd else (dlo + 1) * den <? H * sd in
  let down := lo_ok && (0 <? dlo) in
  if hi_ok && (negb down || (den <=? 2 * rem)) then
    (if dlo + 1 =? 10 ^ n then Some (10 ^ (n - 1), k + 1) else Some (dlo + 1, k))
  else if down then Some (dlo, k)
  else None.

Fixpoint shortest_loop (fuel : nat) (V L H D k : Z) (incl : bool) (n : Z) : Z * Z * Z :=
  match fuel with
  | O => (0, k, n)
  | S f => match shortest_try V L H D k incl n with
           | Some (d, k') => (d, k', n)
           | None => shortest_loop f V L H D k incl (n + 1)
           end
  end.

Fixpoint strip_trailing_zeros_Z (fuel : nat) (d : Z) : Z :=
  match fuel with
  | O => d
  | S f => if (d mod 10 =? 0) && negb (d =? 0) then strip_trailing_zeros_Z f (d / 10) else d
  end.

Definition zeros (n : Z) : str := repeat 48%N (Z.to_nat n).

(* flt2dec::digits_to_dec_str with frac_digits = 0: value = 0.d1d2… * 10^k *)
Definition digits_to_dec (ds : str) (k : Z) : str :=
  let n := Z.of_nat (length ds) in
  if k <=? 0 then [48; 46]%N ++ zeros (- k) ++ ds
  else if k <? n then firstn (Z.to_nat k) ds ++ [46%N] ++ skipn (Z.to_nat k) ds
  else ds ++ zeros (k - n).

Definition s_NaN : str := [78; 97; 78]%N.
Definition fmt_f64 (bits : N) : str :=
  match fdecode F64 bits with
  | FNaN => s_NaN
  | FInf neg => (if neg then [45%N] else []) ++ s_inf
  | FFin neg m e =>
    (if neg then [45%N] else []) ++
    (if m =? 0 then [48%N]
     else
       let boundary := (m =? 2 ^ 52) && (-1074 <? e) in
       let V := if 0 <=? e then 4 * m * 2 ^ e else 4 * m in
       let U := if 0 <=? e then 2 ^ e else 1 in        (* a quarter of an ulp, scaled *)
       let D := if 0 <=? e then 4 else 4 * 2 ^ (- e) in
       let H := V + 2 * U in
       let L := V - (if boundary then U else 2 * U) in
       let k0 := ((Z.log2 V - Z.log2 D) * 30103) / 100000 in
       let k := find_k 8 V D k0 in
       let '(d, k', _) := shortest_loop 18 V L H D k (Z.even m) 1 in
       let d' := strip_trailing_zeros_Z 20 d in
       digits_to_dec (N_to_str (Z.to_N d')) k')
  end.

(* ---------- atoi_simd::parse::<i64> (used by Data::as_i64), reference version ----------
   optional '-' (no '+'), then 1 to 19 ASCII digits (a longer digit string is a Size error even
   when it only has leading zeros), value in the i64 range. *)
Definition atoi_i64 (s : str) : option Z :=
  match s with
  | [] => None
  | c :: t =>
    let '(neg, ds) := if (c =? 45)%N then (true, t) else (false, s) in
    match ds with
    | [] => None
    | _ => if (19 <? length ds)%nat then None else
           match digits_val 0 ds with
           | None => None
           | Some v => let z := if neg then - v else v in
                       if ik_in I64 z then Some z else None
           end
    end
  end.
