"""C19 — cell text survives every storage form and escaping layer unchanged.

Correspondence, end to end: strings from a generator biased to XML-special characters, white
space, astral characters and long lengths are stored in every storage form the Coq encoders know
(xlsx: shared / inline / formula string; plain / rich runs at arbitrary cuts / phonetic data;
ods: text:p per line, text:s with any c, spans, annotations, office:string-value), with the
characters of every text position (<t> plain / in runs / in phonetic runs, <v>, <f>, text:p,
text:span) spelt as text, as CDATA sections (alone, mixed with text, adjacent sections — the way
"]]>" is embedded — and empty ones) or both.  The formula text (<f>) is read back through
worksheet_formula as well.  The extracted
Coq encoder (vm `xmltext xlsx|ods`) produces the event lists, the model's answer (M), the
specification's answer (S) (no known class is left); tools/textgen.py serialises the events to XML
(entity / character-reference spelling drawn per character), zips them, and the real readers
open the file through the generic harness command `open`.  Binary storage: xlsb `wide_str` and
cfb `XlsEncoding::decode_to` through hooks, on UTF-16 with lone surrogates, truncations, BOMs.
Binary FILES: every generated text is also stored in .xls workbooks (tools/xlsgen.py) as a shared
string (SST entry, plain or with formatting runs / phonetic ExtRst, the table cut by CONTINUE
records between strings, inside characters, inside rgRun / ExtRst), as an inline LABEL and as a
formula's string result (STRING, and beyond 8221 one-byte / 4110 two-byte characters STRING +
CONTINUE records, 8-bit / 16-bit / mixed), lengths up to the 32767-character cell limit, and read
back through Xls::new + worksheet_range (harness c12_open); the model side is C12's reduced
parse_workbook (vm c12_open on the same Workbook stream), the specification is the text.  The same
texts go into .xlsb packages (tools/xlsbgen.py: BrtSSTItem plain / rich / phonetic + BrtCellIsst,
BrtCellSt, BrtFmlaString) read through Xlsb::new + worksheet_range (impl vs text; the record walk
is C03's model, wide_str is the hook above).
i vs m is the tie; i vs s on structured cases is the search.  xlsx strings carry ECMA-376 _xHHHH_
material (escapes, near-misses, fragments glued over chunk and run boundaries), ods text carries
text:tab / text:line-break in every position."""
import os, re, hashlib, struct
import vlib, xlsgen, xlsbgen
from textgen import (S, E, T, C, O, hx, unhx, wire, unwire, serialise, xlsx_bytes, ods_bytes,
                     xml_char_ok, qn, sheet_body_events)

ASSUMPTIONS = [
    "quick-xml maps the serialiser's output back to the intended events (tokenisation, entity and character-reference unescaping, empty-element expansion); zip returns the stored bytes",
    "the models start at the event list delivered by quick-xml; the ST_Xstring layer (_xHHHH_) is part of the specification S (xunescape) and of the model M (unescape_xstring), proved equal",
    "ods office:value (float) cells are outside the text model (ONonText)",
    "xls files: the model side is C12's reduced parse_workbook (BiffSst.wb_strings: SST + CONTINUE, LABELSST, LABEL, FORMULA + STRING + CONTINUE); C19_text_survives_xls composes C12's theorems with the UTF-16 round trip; xlsb files are compared with the stored text only (record walk = C03's model, wide_str = the hook model here)",
]

TMP = os.path.join(vlib.CACHE, "tmp", "c19-%d" % os.getpid())
KNOWN_IDS = ()                 # F12, F34, F35, F36, F37 were all repaired in /repo

# ------------------------------------------------------------------ strings
SPECIAL = ["&", "<", ">", '"', "'", "&amp;", "&#65;", "]]>", "<![CDATA[", "<!--", "-->", "<?", "&lt;"]
WS = [" ", "  ", "   ", "\t", "\n", "\r", "\r\n", " \n ", "\n\n", "\t\t"]
ASTRAL = ["\U0001F600", "\U00010000", "\U0010FFFF", "\U0001D11E", "\U00020000"]
BMP = ["\u00e9", "\u4e2d", "\ufeff", "\ufffd", "\ud7ff", "\ue000", "\u0085", "\u2028", "\u00a0",
       "\u3000", "\u30a2", "_x000D_", "_x005F_", "\u0301",
       # characters below U+0100 whose code points, read as bytes, spell well-formed UTF-8 (mojibake
       # is legal text: a decoder must not "repair" it), and C1 controls (Latin-1, not windows-1252)
       "\u00c3\u00a9", "\u00c2\u00a3100", "\u00e2\u0082\u00ac", "\u00c3\u00bc", "\u0080", "\u0099", "\u009f"]
# an ST_Xstring look-alike followed by characters of several bytes (a decoder that measures the
# seven characters of an escape in bytes must not cut inside one)
XWIDE = ["_x\u65e5\u672c\u8a9e", "_x\u8ef8\u65b9\u5411", "_xmin \u2264 x", "_x (mm) \u00b10,5", "_x00\u00e9\u00e9_", "_x\U0001F600\U0001F600"]
# ST_Xstring material: escapes (upper / lower-case digits), the escaped underscore, escapes naming
# surrogates, near-misses (too few / too many digits, no closing underscore, capital X, a non-hex
# digit), overlapping candidates, pieces that only become an escape when glued to a neighbour
XESC = ["_x000D_", "_x000d_", "_x000A_", "_x0009_", "_x005F_", "_x005f_", "_x005F_x000D_", "_x0041_", "_x00e9_",
        "_x4E2D_", "_xFFFF_", "_xfffe_", "_x0000_", "_x0001_", "_x001F_", "_xD83D_", "_xDE00_", "_xD83D__xDE00_",
        "_xd800_", "_xDFFF_", "_xD7FF_", "_xE000_", "_x12_", "_x123_", "_x12345_", "_x000D", "x000D_", "_X000D_",
        "_x000G_", "_x00 0D_", "__x0041_", "_x00_x0041_", "_x_x0041__", "_x005F", "_x", "_", "x", "_x0", "00D_",
        "_x005F__x005F_", "_x005F_x005F_"]
ASCII = "abcXYZ019 ,;:/=-_"

def gen_string(rng, xml=True, maxlen=None):
    r = rng.random()
    if r < 0.04:
        return ""
    if r < 0.10:
        return rng.choice(WS)                     # white space only
    n = rng.choice([1, 2, 3, 4, 6, 8, 12]) if r < 0.9 else rng.choice([40, 200, 1000])
    if maxlen is not None:
        n = min(n, maxlen)
    out = []
    for _ in range(n):
        k = rng.random()
        if k < 0.30:
            out.append(rng.choice(ASCII))
        elif k < 0.50:
            out.append(rng.choice(SPECIAL))
        elif k < 0.72:
            out.append(rng.choice(WS))
        elif k < 0.82:
            out.append(rng.choice(ASTRAL))
        elif k < 0.91:
            out.append(rng.choice(BMP))
        elif k < 0.96 and xml:
            out.append(rng.choice(XESC) if rng.random() < 0.85 else rng.choice(XWIDE))
        elif xml and k < 0.975:
            out.append("_x%04X_" % rng.randrange(0x10000) if rng.random() < 0.5 else "_x%04x_" % rng.randrange(0x10000))
        else:
            cp = rng.choice([rng.randrange(0x20, 0x7f), rng.randrange(0xa0, 0xd800),
                             rng.randrange(0xe000, 0xfffe), rng.randrange(0x10000, 0x110000)])
            out.append(chr(cp))
    s = "".join(out)
    if rng.random() < 0.3:
        s = rng.choice(WS) + s
    if rng.random() < 0.3:
        s = s + rng.choice(WS)
    if not xml and rng.random() < 0.3:
        # the binary formats also carry characters XML 1.0 cannot
        s = rng.choice(["\x00", "\x01", "\ufffe", "\uffff", "\ufeff", "\ubbef\u00bf", "\x1f"]) + s
    return s

def long_string(rng, n):
    base = gen_string(rng) or "x"
    s = (base * (n // len(base) + 1))[:n]
    # never cut an astral character: Python strings are code points, so slicing is safe
    return s

def cuts(rng, s, maxparts=5):
    """split s at arbitrary points into 1..maxparts parts (parts may be empty)"""
    k = rng.randrange(1, maxparts + 1)
    pts = sorted(rng.randrange(0, len(s) + 1) for _ in range(k - 1))
    parts, prev = [], 0
    for p in pts:
        parts.append(s[prev:p]); prev = p
    parts.append(s[prev:])
    return parts

# ------------------------------------------------------------------ xlsx forms (wire for vm)
def cdata_segments(p):
    """p as a list of (kind, text): CDATA sections wherever legal.  "]]>" is split between two
    adjacent sections ("…]]" + ">…"); a CR stays character data (a literal CR inside a CDATA
    section would be subject to line-end normalisation, which quick-xml does not do)"""
    out, cur, i = [], [], 0
    def flush():
        if cur:
            out.append(("c", "".join(cur))); cur.clear()
    while i < len(p):
        if p[i] == "\r":
            flush(); out.append(("t", "\r"))
        elif p.startswith("]]>", i):
            cur.append("]]"); flush(); cur.append(">"); i += 2
        else:
            cur.append(p[i])
        i += 1
    flush()
    return out

def tc_wire(rng, s, cdata=False):
    """character content holding s: text chunks separated by comments; with `cdata` also CDATA
    sections: the whole content, text + CDATA + text, several adjacent sections, empty sections"""
    if s == "" and rng.random() < 0.7:
        return "c" if cdata and rng.random() < 0.3 else ""          # <t/> or <t><![CDATA[]]></t>
    mode = rng.choice(["all", "all", "mid", "adjacent", "random"]) if cdata else "text"
    if mode == "all":
        parts = [s]
    elif mode == "mid":
        parts = cuts(rng, s, 3)
        while len(parts) < 3:
            parts.append("")
    elif mode == "adjacent":
        parts = cuts(rng, s, 4)
    else:
        parts = cuts(rng, s, 3) if rng.random() < 0.4 else [s]
    segs = []
    for i, p in enumerate(parts):
        as_cdata = (mode in ("all", "adjacent") or (mode == "mid" and i == 1)
                    or (mode == "random" and rng.random() < 0.6))
        if as_cdata:
            segs += cdata_segments(p) if p else ([("c", "")] if rng.random() < 0.3 else [])
        else:
            segs.append(("t", p))
    if len(s) > 2000 and len(segs) > 24:
        # long text: keep the chunk count moderate (the model appends chunk by chunk); CDATA
        # for the head only
        head = cdata_segments(s[:200])[:12]
        done = sum(len(p) for _, p in head)
        segs = head + [("t", s[done:])]
    out = []
    for k, p in segs:
        if k == "t" and out and out[-1].startswith("t"):
            out.append("o")                   # a comment keeps adjacent text chunks apart
        out.append(k + hx(p))
    if rng.random() < 0.1:
        out.insert(rng.randrange(0, len(out) + 1), "o")
        # a comment never lands between two text chunks that were one: it only adds a boundary
    return "+".join(out)

RPR = [("b", []), ("i", []), ("u", []), ("sz", [("val", "11")]), ("color", [("rgb", "FFFF0000")]),
       ("rFont", [("val", "Calibri & Co")]), ("family", [("val", "2")]), ("vertAlign", [("val", "superscript")]),
       ("scheme", [("val", "minor")]), ("strike", [])]

def rpr_wire(rng):
    if rng.random() < 0.5:
        return ""
    ch = [rng.choice(RPR) for _ in range(rng.randrange(1, 4))]
    return ",".join(hx(n) + "".join(":%s=%s" % (hx(k), hx(v)) for k, v in a) for n, a in ch)

def phon_wire(rng, cdata=False):
    if rng.random() < 0.3:
        return "Q"
    return "P;" + tc_wire(rng, gen_string(rng, maxlen=4), cdata)

def form_wire(rng, s, rich_ok=True, cdata=False):
    """a storage form of s as the children of <si>/<is>"""
    r = rng.random()
    if not rich_ok or r < 0.45:
        after = "!".join(phon_wire(rng, cdata) for _ in range(rng.choice([0, 0, 0, 1, 2, 3])))
        return "plain/%d/%s/%s" % (rng.random() < 0.5, tc_wire(rng, s, cdata), after)
    if s == "" and r < 0.55:
        return "rich/"                                      # <si/>
    pieces = []
    for p in cuts(rng, s, 5):
        while rng.random() < 0.2:
            pieces.append(phon_wire(rng, cdata))
        pieces.append("R;%d;%s;%s" % (rng.random() < 0.5, rpr_wire(rng), tc_wire(rng, p, cdata)))
    while rng.random() < 0.3:
        pieces.append(phon_wire(rng, cdata))
    return "rich/" + "!".join(pieces)

FORMULAS = ['"a"&"b"', "A1&B1", "1<2", "T(\"x\")", 'IF(A1<B1,"]]>","&amp;")', "A1 &  B1\n+1", ""]

def gen_xlsx_case(rng, big=False):
    pfx = rng.choice(["", "", "", "", "", "", "x", "x", "main"])
    cdata = rng.random() < 0.45
    rich_ok = True                                          # rich items under a prefix: legal since 7dba6c7
    n_items = rng.choice([0, 1, 2, 3, 5, 8, 12])
    strings = [gen_string(rng) for _ in range(n_items)]
    if big and n_items:
        strings[rng.randrange(n_items)] = long_string(rng, rng.choice([32767, 32766, 8191, 4096]))
    items = []
    for s in strings:
        ws = rng.choice(["", "", "", "\n", "\n  ", " "])
        items.append(hx(ws) + "~" + form_wire(rng, s, rich_ok, cdata))
    cells = []
    for _ in range(rng.randrange(1, 9)):
        k = rng.random()
        if k < 0.45 and n_items:
            i = rng.randrange(n_items)
            v = str(i) if rng.random() < 0.85 else rng.choice(["0" * rng.randrange(1, 4) + str(i), "%020d" % i])
            cells.append("s" + hx(v))
        elif k < 0.50:
            # index at or past the end of the table, or not a number: strings[idx] / unwrap_or(0)
            cells.append("s" + hx(rng.choice([str(n_items), str(n_items + 7), "18446744073709551615",
                                              "18446744073709551616", "", "x", "+1", "1 ", "-0", "1.0",
                                              "0" * 21])))
        elif k < 0.80:
            s = gen_string(rng) if not (big and rng.random() < 0.3) else long_string(rng, 32767)
            cells.append("i" + form_wire(rng, s, rich_ok, cdata))
        else:
            s = gen_string(rng)
            cells.append("f" + tc_wire(rng, rng.choice(FORMULAS), cdata) + "&" + tc_wire(rng, s, cdata))
    return pfx, items, cells

def xlsx_vm_line(cid, case):
    pfx, items, cells = case
    return "%s\txmltext\txlsx\t%s\t%s\t%s" % (cid, hx(pfx) if pfx else "-", "|".join(items) or "-", "|".join(cells))

# ------------------------------------------------------------------ ods forms
def digits(rng, n):
    r = rng.random()
    if r < 0.8:
        return str(n)
    if r < 0.9:
        return "0" * rng.randrange(1, 3) + str(n)
    return "+" + str(n)

def para_wire(rng, line, flags):
    """pieces of one paragraph holding `line` (no LF unless kept literal by the caller)"""
    out, i, n, depth = [], 0, len(line), 0
    lit = []
    # long lines get the same kinds of pieces but fewer of them (the model appends piece by piece)
    f = min(1.0, 150.0 / max(1, len(line)))
    pc = flags.get("cdata", 0.0)           # probability that a literal run is written as CDATA
    def flush():
        if lit:
            text = "".join(lit); lit.clear()
            if pc and rng.random() < pc:
                # CDATA only, text + CDATA + text, or adjacent sections
                parts = [text] if rng.random() < 0.5 else cuts(rng, text, 3)
                mid = len(parts) == 3 and rng.random() < 0.5
                segs = []
                for i, p in enumerate(parts):
                    segs += [("t", p)] if (mid and i != 1) else cdata_segments(p)
                if len(text) > 2000 and len(segs) > 24:
                    # long text: keep the piece count moderate, CDATA for the head only
                    head = cdata_segments(text[:200])[:12]
                    segs = head + [("t", text[sum(len(q) for _, q in head):])]
                for k, q in segs:
                    if k == "t":
                        if out and out[-1].startswith("l"):
                            out.append("O")
                        out.append("l" + hx(q))
                    else:
                        out.append("d" + hx(q))
                if rng.random() < 0.1:
                    out.append("d")                                # an empty section
            else:
                if out and out[-1].startswith("l"):
                    out.append("O")
                out.append("l" + hx(text))
    while i < n:
        ch = line[i]
        if ch == " ":
            j = i
            while j < n and line[j] == " ":
                j += 1
            run = j - i
            mode = rng.random() if rng.random() < f else 0.0
            if mode < 0.35:
                lit.append(" " * run)                             # literal spaces
            elif mode < 0.6:
                # LibreOffice: first space literal (unless leading), the rest in one text:s
                if i == 0 or run == 1:
                    flush(); out.append("s" + (hx(digits(rng, run)) if run > 1 or rng.random() < 0.3 else ""))
                else:
                    lit.append(" "); flush(); out.append("s" + (hx(digits(rng, run - 1)) if run > 2 or rng.random() < 0.3 else ""))
            else:
                flush()
                left = run
                while left > 0:
                    k = rng.randrange(0, left + 1) if rng.random() < 0.8 else 0   # c="0" is legal
                    out.append("s" + (hx(digits(rng, k)) if k != 1 or rng.random() < 0.5 else ""))
                    left -= k
            i = j
            continue
        if ch == "\t" and flags.get("tab") and rng.random() < 0.8 * f:
            flush(); out.append("T")
        elif ch == "\n" and flags.get("break") and rng.random() < max(0.85 * f, 0.02):
            flush(); out.append("B")
        else:
            lit.append(ch)
            if pc and rng.random() < 0.10 * f:
                flush()
        if rng.random() < 0.08 * f:
            flush(); out.append("o" + hx(rng.choice(["T1", "T2", "a&b"]))); depth += 1
        elif depth and rng.random() < 0.15:
            flush(); out.append("x"); depth -= 1
        elif rng.random() < 0.03 * f:
            flush(); out.append("O")
        i += 1
    flush()
    while depth:
        out.append("x"); depth -= 1
    if flags.get("ruby") and rng.random() < 0.35:
        out = ruby_wrap(rng, out)
    if flags.get("shapes") and rng.random() < 0.08:
        # a drawing object anchored as a character
        out.insert(rng.randrange(0, len(out) + 1), "h" + shape_wire(rng))
    return "+".join(out)

INDENT = ["\n", "\n  ", "\n    ", " ", "\n\t", "\r\n   ", "\n      ", "  \n  "]
RUBY_READINGS = ["\u304b\u3093\u3058", "kanji", "a&b", " ", "<rt>", "\u30d5\u30ea\u30ac\u30ca"]

def ruby_wrap(rng, out):
    """put a run of pieces that does not cut a span into a phonetic guide:
    <text:ruby><text:ruby-base>pieces</text:ruby-base><text:ruby-text>reading</text:ruby-text></text:ruby>"""
    depth, ok = 0, [0]
    for i, pc in enumerate(out):
        if pc.startswith("o"):
            depth += 1
        elif pc == "x":
            depth -= 1
        ok.append(depth)
    i = rng.randrange(0, len(out) + 1)
    cand = [j for j in range(i, len(out) + 1)
            if ok[j] == ok[i] and all(d >= ok[i] for d in ok[i:j + 1])]
    j = rng.choice(cand)
    reading = rng.choice(RUBY_READINGS)
    rt = [T(reading)] if rng.random() < 0.8 else [T(reading[:1]), C(reading[1:].replace("]]>", "")), O]
    if rng.random() < 0.1:
        rt = []
    rtp = "y" + (hx("Ru1") if rng.random() < 0.5 else "") + "~" + wire(rt)
    k = rng.random()
    if k < 0.8:
        mid = ["R" + hx("Ru1"), "A"] + out[i:j] + ["a", rtp, "r"]
    elif k < 0.9:
        mid = ["R" + hx("Ru1"), rtp, "A"] + out[i:j] + ["a", "r"]      # reading first
    else:
        mid = out[i:j] + [rtp]                                          # a bare text:ruby-text
    return out[:i] + mid + out[j:]

def shape_parts(rng, depth=0):
    """(name, attrs, body events) of a drawing object as LibreOffice / Excel write them into a
    cell: image, custom shape with text, text box, line, group (nested), 3-D scene, control"""
    def para(t=None):
        t = gen_string(rng, maxlen=4) if t is None else t
        return [S("text:p")] + ([T(t)] if t else []) + [E("text:p")]
    ws = (lambda: [T(rng.choice(INDENT))]) if rng.random() < 0.4 else (lambda: [])
    geo = [("svg:width", "3cm"), ("svg:height", "2cm"), ("svg:x", "0.1cm"), ("svg:y", "0cm")]
    anchor = [("table:end-cell-address", "S.C4"), ("table:end-x", "0.7cm"), ("draw:z-index", str(rng.randrange(9)))]
    attrs = rng.sample(anchor, rng.randrange(0, 3)) + [("draw:name", rng.choice(["Image 1", "Shape <2>", "Box&"]))] + geo
    k = rng.random()
    if k < 0.22:
        img = [S("draw:image", [("xlink:href", "Pictures/1.png"), ("xlink:type", "simple")])] + \
              (para("") if rng.random() < 0.7 else []) + [E("draw:image")]
        body = ws() + img + (ws() + [S("svg:title"), T("alt text"), E("svg:title")] if rng.random() < 0.3 else []) + ws()
        return "draw:frame", attrs, body
    if k < 0.45:
        body = ws()
        for _ in range(rng.randrange(0, 3)):
            body += para() + ws()
        body += [S("draw:enhanced-geometry", [("draw:type", "rectangle")]), E("draw:enhanced-geometry")] + ws()
        return "draw:custom-shape", attrs, body
    if k < 0.68:
        inner = ws()
        for _ in range(rng.randrange(1, 4)):
            inner += para() + ws()
        if rng.random() < 0.2:
            inner += [S("text:list"), S("text:list-item")] + para() + [E("text:list-item"), E("text:list")]
        body = ws() + [S("draw:text-box")] + inner + [E("draw:text-box")] + ws()
        return "draw:frame", attrs, body
    if k < 0.76:
        name = rng.choice(["draw:line", "draw:rect", "draw:ellipse", "draw:connector", "draw:control", "draw:caption"])
        return name, attrs, (para() if rng.random() < 0.5 else [])
    if k < 0.92 and depth < 3:
        body = ws()
        for _ in range(rng.randrange(1, 4)):
            n, a, b = shape_parts(rng, depth + 1)
            body += [S(n, a)] + b + [E(n)] + ws()
        return "draw:g", attrs[:2], body
    body = [S("dr3d:light", [("dr3d:direction", "(1 1 1)")]), E("dr3d:light"),
            S("dr3d:cube"), E("dr3d:cube")] + (para() if rng.random() < 0.3 else [])
    return "dr3d:scene", attrs, body

def shape_wire(rng):
    n, a, b = shape_parts(rng)
    return hx(n) + "~" + ",".join("%s=%s" % (hx(k), hx(v)) for k, v in a) + "~" + wire(b)

ANNOT = [
    [],
    [S("dc:date"), T("2020-01-01T00:00:00"), E("dc:date"), S("text:p"), T("note <&>"), E("text:p")],
    [S("text:p"), T("a"), S("text:s", [("text:c", "3")]), E("text:s"), T("b"), E("text:p"),
     S("text:p"), T("second"), E("text:p")],
    [S("table:table-cell"), E("table:table-cell"), T("x")],       # anything but its own end tag
]

def content_wire(rng, s, flags):
    if len(s) > 3000 and s.count("\n") > 60:
        lines = [s]                                   # long text: keep the piece count moderate
        flags = dict(flags, **{"break": False})
    elif flags.get("break"):
        # every LF is either a paragraph boundary or stays inside its paragraph, where para_wire
        # writes it as <text:line-break/> (mostly) or literally
        mode = rng.random()
        if mode < 0.35:
            lines = [s]
        else:
            lines, cur = [], []
            for ch in s:
                if ch == "\n" and rng.random() < 0.5:
                    lines.append("".join(cur)); cur = []
                else:
                    cur.append(ch)
            lines.append("".join(cur))
    elif rng.random() < 0.85:
        lines = s.split("\n")                         # one text:p per line
    else:
        lines = [s]                                   # LF kept literal inside one paragraph
    items = ["p" + para_wire(rng, l, flags) for l in lines]
    if s == "" and rng.random() < 0.5:
        items = []                                    # <table:table-cell office:value-type="string"/>
    if rng.random() < 0.2:
        # LibreOffice writes the annotation first; any position is read alike
        items.insert(0 if rng.random() < 0.6 else rng.randrange(0, len(items) + 1), "n" + wire(rng.choice(ANNOT)))
    if flags.get("shapes") and rng.random() < 0.45:
        # drawing objects anchored to the cell: after the paragraphs (LibreOffice), rarely elsewhere
        for _ in range(rng.choice([1, 1, 1, 2, 3])):
            pos = len(items) if rng.random() < 0.8 else rng.randrange(0, len(items) + 1)
            items.insert(pos, "h" + shape_wire(rng))
    if rng.random() < 0.1:
        items.insert(rng.randrange(0, len(items) + 1), "k")          # a comment between the children
    if flags.get("indent") and items:
        # an indented file: white space before, between and after the children of the cell
        ind = rng.choice(INDENT)
        out = []
        for it in items:
            if rng.random() < 0.93:
                out.append("w" + hx(ind if rng.random() < 0.8 else rng.choice(INDENT)))
            out.append(it)
        if rng.random() < 0.93:
            out.append("w" + hx(rng.choice(INDENT)))
        items = out
    return "!".join(items)

EXTRA = [("table:style-name", "ce1"), ("calcext:value-type", "string"), ("table:number-columns-spanned", "1"),
         ("table:content-validation-name", "v<1>")]

def gen_ods_case(rng, big=False):
    flags = {"tab": rng.random() < 0.6, "break": rng.random() < 0.5,
             "cdata": rng.choice([0.0, 0.0, 0.0, 0.3, 0.7, 1.0]),
             "indent": rng.random() < 0.4, "shapes": rng.random() < 0.5, "ruby": rng.random() < 0.3}
    cells = []
    for _ in range(rng.randrange(1, 9)):
        s = gen_string(rng) if not (big and rng.random() < 0.3) else long_string(rng, rng.choice([32767, 5000]))
        extra = ",".join("%s=%s" % (hx(k), hx(v)) for k, v in rng.sample(EXTRA, rng.randrange(0, 3)))
        cn = "c" if rng.random() < 0.08 else "a"
        if rng.random() < 0.15:
            disp = content_wire(rng, gen_string(rng, maxlen=4), flags)
            disp = "!".join(x for x in disp.split("!") if not x.startswith("n"))    # display copy: paragraphs only
            st = "a" + hx(s) + "/" + disp
        else:
            st = "c" + content_wire(rng, s, flags)
        cells.append("%s;%s;%s" % (cn, extra, st))
    return cells

# ------------------------------------------------------------------ running
def decode_s(cell):
    try:
        return bytes.fromhex(cell[1:]).decode("utf-8") if cell.startswith("S") else cell
    except Exception:
        return cell

def parse_range(ans):
    """R[0,0,n,1|a,b/c,d] -> list of first-column cells, or None"""
    m = re.match(r"^R\[(\d+),(\d+),(\d+),(\d+)\|(.*)\]$", ans or "", re.S)
    if not m:
        return None
    rows = m.group(5).split("/")
    if m.group(2) == "1":
        return ["E" for r in rows]            # column A empty in every row: the range starts at B
    return [r.split(",")[0] for r in rows]

def parse_ref(r):
    m = re.match(r"^([A-Z]+)(\d+)$", r)
    col = 0
    for ch in m.group(1):
        col = col * 26 + (ord(ch) - 64)
    return int(m.group(2)) - 1, col - 1

def parse_grid(ans):
    """R[r0,c0,r1,c1|a,b/c,d] -> {(row, col): cell}; None when the answer is not a range"""
    m = re.match(r"^R\[(\d+),(\d+),(\d+),(\d+)\|(.*)\]$", ans or "", re.S)
    if not m:
        return None
    r0, c0 = int(m.group(1)), int(m.group(2))
    g = {}
    for i, row in enumerate(m.group(5).split("/")):
        for j, c in enumerate(row.split(",")):
            g[(r0 + i, c0 + j)] = c
    return g

def expected_sheet(model):
    """what `open xlsx path range` prints when the code behaves like the sheet-level model
    (worksheet_range = Range::from_sparse of the non-empty cells)"""
    if model.startswith("open"):
        return "panic" if model == "openpanic" else "openerr:other"
    if model in ("err", "fuel"):
        return "err:other"
    if model == "panic":
        return "panic"
    g = {}
    for pair in model.split("/"):
        if not pair:
            continue
        r, v = pair.split("=")
        if v != "E":
            g[parse_ref(unhx(r))] = v
    if not g:
        return "R[-]"
    r0, r1 = min(p[0] for p in g), max(p[0] for p in g)
    c0, c1 = min(p[1] for p in g), max(p[1] for p in g)
    return "R[%d,%d,%d,%d|%s]" % (r0, c0, r1, c1, "/".join(
        ",".join(g.get((r, c), "E") for c in range(c0, c1 + 1)) for r in range(r0, r1 + 1)))

def expected_formulas(fmodel):
    """what `open xlsx path formula` prints when the code behaves like read_sheet_formulas
    (worksheet_formula = Range::from_sparse of the cells whose formula text is not empty);
    None when a shared formula is involved (outside this model)"""
    if fmodel in ("err", "fuel"):
        return "err:other"
    if fmodel == "panic":
        return "panic"
    g = {}
    for pair in fmodel.split("/"):
        if not pair:
            continue
        r, v = pair.split("=")
        if v == "X":
            return None
        if v.startswith("T") and len(v) > 1:
            g[parse_ref(unhx(r))] = v[1:]
    if not g:
        return "R[-]"
    r0, r1 = min(p[0] for p in g), max(p[0] for p in g)
    c0, c1 = min(p[1] for p in g), max(p[1] for p in g)
    return "R[%d,%d,%d,%d|%s]" % (r0, c0, r1, c1, "/".join(
        ",".join(g.get((r, c), "") for c in range(c0, c1 + 1)) for r in range(r0, r1 + 1)))

def split_calls(ans):
    """answer of `open … range S;formula S` -> (range answer, formula answer or None)"""
    if ans is None or ans.startswith("openerr") or ans in ("nofile",):
        return ans, None
    parts = ans.split(";;")
    return parts[0], (parts[1] if len(parts) > 1 else None)

def check_formulas(ctx, cid, caseline, fans, fmodel, fspec, legal, path):
    """i vs m and i vs s for the formula text; returns True when the file must be kept"""
    if fans is None:
        return False
    keep = False
    exp = expected_formulas(fmodel)
    if exp is not None and fans != exp:
        ctx.disagreements.append({"function": "xlsx-formula", "case": caseline, "impl": fans, "model": fmodel,
                                  "expected_from_model": exp, "file": path})
        keep = True
    if fspec is None:
        return keep
    g = {} if fans == "R[-]" else parse_grid(fans)
    if g is None:
        g = {}
        if exp == fans:
            return keep                      # the call failed as the model predicts (range part decides)
    legals = legal.split("/")
    for j, sp in enumerate(fspec.split("/")):
        if legals[j] != "1":
            continue
        want = sp[1:] if sp.startswith("T") else ""
        got = g.get((j, 0), "")
        ctx.count("xlsx:formula-text" if want else "xlsx:no-formula")
        if got != want:
            ctx.violations.append({"case": caseline, "expected": "T" + want, "actual": "T" + got, "model": fmodel,
                                   "what": "xlsx cell %d: formula text %r read back as %r" % (
                                       j, decode_s("S" + want), decode_s("S" + got)), "file": path})
            keep = True
    return keep

def expected_impl(model, fmt):
    """what `open <fmt> path range` prints when the code behaves like the model"""
    if model.startswith("open"):
        return "panic" if model == "openpanic" else "openerr:other"
    cells = model.split("/")
    for c in cells:
        if c in ("err", "fuel"):
            return "openerr:other" if fmt == "ods" else "err:other"
        if c == "panic":
            return "panic"
    if all(c == "E" for c in cells):
        # column A is empty everywhere: the used range is column B alone
        return "R[0,1,%d,1|%s]" % (len(cells) - 1, "/".join("S7c" for c in cells))
    return "R[0,0,%d,1|%s]" % (len(cells) - 1, "/".join(c + ",S7c" for c in cells))

def write_file(name, data):
    os.makedirs(TMP, exist_ok=True)
    p = os.path.join(TMP, name)
    with open(p, "wb") as f:
        f.write(data)
    return p

def classify(ctx, cid, fmt, caseline, impl, model, spec, known, legal, path, sheet_model=None):
    exp = expected_impl(model, fmt) if sheet_model is None else expected_sheet(sheet_model)
    keep = False
    if impl != exp:
        ctx.disagreements.append({"function": fmt, "case": caseline, "impl": impl, "model": model,
                                  "expected_from_model": exp, "file": path})
        keep = True
    if sheet_model is not None:
        g = parse_grid(impl)
        icells = None if g is None else [g.get((j, 0), "E") for j in range(len(spec.split("/")))]
    else:
        icells = parse_range(impl)
    specs, knowns, legals = spec.split("/"), known.split("/"), legal.split("/")
    if icells is None and impl == exp:
        # the whole call failed as the model predicts: the cell that makes it fail decides
        mcells = model.split("/")
        culprit = None
        if model.startswith("open") and fmt == "xlsx":
            culprit = next((k for k in knowns if k != "-"), None)
        else:
            for j, c in enumerate(mcells):
                if c in ("err", "panic", "fuel"):
                    culprit = knowns[j] if j < len(knowns) and knowns[j] != "-" else None
                    # a shared index outside the table is outside the encoder's domain (spec '?')
                    if culprit is None and j < len(specs) and specs[j] == "?":
                        culprit = "outside"
                    break
        if culprit == "outside":
            ctx.count("xlsx:index-outside-table")
            return keep
        if culprit is not None and ctx.known_finding(culprit) is not None:
            ctx.known_hits.setdefault(culprit, {"case": caseline, "expected": spec, "actual": impl})
            ctx.count("known:" + culprit)
            return keep
    for j, sp in enumerate(specs):
        if sp == "?" or legals[j] != "1":
            continue
        got = icells[j] if icells is not None and j < len(icells) else impl
        if got == sp:
            continue
        k = knowns[j]
        if k != "-" and ctx.known_finding(k) is not None:
            ctx.known_hits.setdefault(k, {"case": caseline, "cell": j, "expected": decode_s(sp), "actual": decode_s(got)})
        else:
            ctx.violations.append({"case": caseline, "expected": sp, "actual": got, "model": model,
                                   "what": "%s cell %d: stored text %r read back as %r (class %s)" % (
                                       fmt, j, decode_s(sp), decode_s(got), k), "file": path})
            keep = True
    for j, k in enumerate(knowns):
        ctx.count("known:" + k if k != "-" else "known:none")
    return keep

def run_xlsx_batch(ctx, cases, tag):
    ids = ["%s%d" % (tag, i) for i in range(len(cases))]
    vm_lines = [xlsx_vm_line(cid, c) for cid, c in zip(ids, cases)]
    enc = ctx.run_model(vm_lines)
    vh_lines, sheet_lines, meta = [], [], {}
    for cid, c, line in zip(ids, cases, vm_lines):
        a = enc.get(cid, "")
        f = a.split("#")
        if len(f) != 7:
            ctx.disagreements.append({"function": "xlsx-encoder", "case": line, "impl": None, "model": a})
            continue
        sstw, cellsw, model, spec, known, legal, fspec = f
        cells = []
        for cw in cellsw.split("|"):
            aw, ew = cw.split("@")
            attrs = [tuple(unhx(x) for x in kv.split("=")) for kv in aw.split(",")] if aw else []
            cells.append((attrs, unwire(ew)))
        body = sheet_body_events(c[0], cells)
        data = xlsx_bytes(c[0], unwire(sstw), cells, ctx.rng, body=body)
        path = write_file(cid + ".xlsx", data)
        vh_lines.append("%s\topen\txlsx\t%s\trange %s;formula %s" % (cid, path, hx("S"), hx("S")))
        sheet_lines.append("%s\txmltext\truns\t%s\t%s" % (cid, sstw, wire(body)))
        sheet_lines.append("%sf\txmltext\trunf\t%s" % (cid, wire(body)))
        meta[cid] = (line, model, spec, known, legal, path, fspec)
        ncd = sum(1 for e in unwire(sstw) + body if e[0] == "C")
        if ncd:
            ctx.count("xlsx:file-with-cdata")
            ctx.count("xlsx:cdata-sections", ncd)
        # escapes as the reader will see them: per element content (chunks glued together)
        glued = re.sub(r"\x00+", "\x00", "".join(e[1] if e[0] in ("T", "C") else ("" if e[0] == "O" else "\x00") for e in unwire(sstw) + body))
        nesc = len(re.findall(r"_x[0-9A-Fa-f]{4}_", glued))
        if nesc:
            ctx.count("xlsx:file-with-xstring-escape")
            ctx.count("xlsx:xstring-escapes", nesc)
    impl = ctx.run_impl(vh_lines)
    sheet = ctx.run_model(sheet_lines)          # M over exactly the events that were serialised
    for cid, (line, model, spec, known, legal, path, fspec) in meta.items():
        rans, fans = split_calls(impl.get(cid))
        keep = classify(ctx, cid, "xlsx", line, rans, model, spec, known, legal, path,
                        sheet_model=sheet.get(cid, "?"))
        keep = check_formulas(ctx, cid, line, fans, sheet.get(cid + "f", "?"), fspec, legal, path) or keep
        ctx.traces += 1
        ctx.nontrivial(line.split("\t", 2)[2])
        ctx.count("xlsx:file")
        for cw in line.split("\t")[5].split("|"):
            ctx.count("xlsx:store:" + {"s": "shared", "i": "inline", "f": "formula"}[cw[0]])
        ctx.count("xlsx:prefix" if line.split("\t")[3] != "-" else "xlsx:default-ns")
        if len(ctx.samples) < 3:
            ctx.sample({"case": line[:300], "impl": (impl.get(cid) or "")[:200], "impl_equals_model": rans == expected_sheet(sheet.get(cid, "?"))})
        if not keep:
            try:
                os.remove(path)
            except OSError:
                pass

def run_ods_batch(ctx, cases, tag):
    ids = ["%s%d" % (tag, i) for i in range(len(cases))]
    vm_lines = ["%s\txmltext\tods\t%s" % (cid, "|".join(c)) for cid, c in zip(ids, cases)]
    enc = ctx.run_model(vm_lines)
    vh_lines, meta = [], {}
    for cid, line in zip(ids, vm_lines):
        a = enc.get(cid, "")
        f = a.split("#")
        if len(f) != 5:
            ctx.disagreements.append({"function": "ods-encoder", "case": line, "impl": None, "model": a})
            continue
        cellsw, model, spec, known, legal = f
        cells = []
        for cw in cellsw.split("|"):
            cn, aw, ew = cw.split("@")
            attrs = [tuple(unhx(x) for x in kv.split("=")) for kv in aw.split(",")] if aw else []
            cells.append((unhx(cn), attrs, unwire(ew)))
        path = write_file(cid + ".ods", ods_bytes(cells, ctx.rng))
        vh_lines.append("%s\topen\tods\t%s\trange %s" % (cid, path, hx("S")))
        meta[cid] = (line, model, spec, known, legal, path)
        ncd = sum(1 for _, _, ev in cells for e in ev if e[0] == "C")
        if ncd:
            ctx.count("ods:file-with-cdata")
            ctx.count("ods:cdata-sections", ncd)
        ntab = sum(1 for _, _, ev in cells for e in ev if e[0] == "S" and e[1] == "text:tab")
        nbrk = sum(1 for _, _, ev in cells for e in ev if e[0] == "S" and e[1] == "text:line-break")
        nshape = sum(1 for _, _, ev in cells for e in ev if e[0] == "S" and e[1].startswith(("draw:", "dr3d:")))
        nruby = sum(1 for _, _, ev in cells for e in ev if e[0] == "S" and e[1] == "text:ruby-text")
        nind = sum(1 for cw in line.split("\t")[3].split("|") for it in cw.split(";")[2][1:].split("!") if it.startswith("w"))
        if nshape:
            ctx.count("ods:file-with-drawing-object"); ctx.count("ods:drawing-object-elements", nshape)
        if nruby:
            ctx.count("ods:file-with-ruby"); ctx.count("ods:ruby-text-elements", nruby)
        if nind:
            ctx.count("ods:file-with-indented-cell"); ctx.count("ods:indentation-text-nodes", nind)
        if ntab:
            ctx.count("ods:file-with-text-tab"); ctx.count("ods:text-tab-elements", ntab)
        if nbrk:
            ctx.count("ods:file-with-line-break"); ctx.count("ods:line-break-elements", nbrk)
    impl = ctx.run_impl(vh_lines)
    for cid, (line, model, spec, known, legal, path) in meta.items():
        keep = classify(ctx, cid, "ods", line, impl.get(cid), model, spec, known, legal, path)
        ctx.traces += 1
        ctx.nontrivial(line.split("\t", 2)[2])
        ctx.count("ods:file")
        for cw in line.split("\t")[3].split("|"):
            ctx.count("ods:store:" + ("attr" if cw.split(";")[2][0] == "a" else "content"))
        if len(ctx.samples) < 5:
            ctx.sample({"case": line[:300], "impl": (impl.get(cid) or "")[:200], "impl_equals_model": impl.get(cid) == expected_impl(model, "ods")})
        if not keep:
            try:
                os.remove(path)
            except OSError:
                pass

# ------------------------------------------------------------------ raw (irregular but well-formed) cases: i vs m only
def raw_xlsx_cases(rng, n):
    """items built directly as events: children in any order and nesting"""
    def t(s, name="t"):
        return [S(name), T(s), E(name)]
    def child(depth=0):
        k = rng.random()
        s = gen_string(rng, maxlen=3)
        if k < 0.25:
            return t(s)
        if k < 0.45:
            return [S("r")] + (child(depth + 1) if depth < 2 and rng.random() < 0.2 else t(s)) + [E("r")]
        if k < 0.55:
            return [S("rPh")] + t(s) + [E("rPh")]
        if k < 0.62:
            return [S("t"), T(s), S("b"), T("in"), E("b"), C("cd"), T(s), E("t")]       # markup inside <t>
        if k < 0.70:
            return [S("t")] + t(s) + [T("tail"), E("t")]                                  # <t> inside <t>
        if k < 0.78:
            return [S("extLst"), S("ext"), T(s), E("ext"), E("extLst")]
        if k < 0.84:
            return [S("rPr")] + t(s) + [E("rPr")]
        if k < 0.90:
            return [S("si")] + t(s) + [E("si")]                                           # nested same name
        if k < 0.95:
            return [T("  \n"), O]
        return [S("phoneticPr", [("fontId", "1")]), E("phoneticPr")]
    cases = []
    for _ in range(n):
        items = []
        for _ in range(rng.randrange(1, 4)):
            body = []
            for _ in range(rng.randrange(0, 4)):
                body += child()
            items.append(body)
        sst = [O, S("sst")]
        for b in items:
            sst += [S("si")] + b + [E("si")]
        sst += [E("sst")]
        cells = []
        for i in range(len(items)):
            cells.append(([("r", "A%d" % (len(cells) + 1)), ("t", "s")], [S("v"), T(str(i)), E("v"), E("c")]))
        body = []
        for _ in range(rng.randrange(0, 4)):
            body += child()
        cells.append(([("r", "A%d" % (len(cells) + 1)), ("t", "inlineStr")], [S("is")] + body + [E("is"), E("c")]))
        k = rng.random()
        r = "A%d" % (len(cells) + 1)
        if k < 0.2:
            cells.append(([("r", r), ("t", "str")], [S("v"), T("a"), C("b"), S("x"), T("c"), E("x"), E("v"), E("c")]))
        elif k < 0.35:
            cells.append(([("r", r), ("t", "str")], [S("f"), T("1"), S("f"), E("f"), E("f"), S("v"), T("q"), E("v"), E("c")]))
        elif k < 0.45:
            cells.append(([("r", r), ("t", "inlineStr")], [S("is")] + t("p") + [E("is"), S("v"), T("z"), E("v"), E("c")]))
        elif k < 0.55:
            cells.append(([("r", r), ("t", "str")], [S("bogus"), E("bogus"), E("c")]))
        elif k < 0.65:
            cells.append(([("r", r), ("t", "weird")], [S("v"), T("z"), E("v"), E("c")]))
        elif k < 0.75:
            cells.append(([("r", r), ("t", "str")], [E("c")]))
        cases.append((sst, cells))
    return cases

def run_raw_xlsx(ctx, cases, tag):
    vm_lines, vh_lines, f_lines, paths = [], [], [], {}
    for i, (sst, cells) in enumerate(cases):
        cid = "%s%d" % (tag, i)
        body = sheet_body_events("", cells)
        vm_lines.append("%s\txmltext\truns\t%s\t%s" % (cid, wire(sst), wire(body)))
        f_lines.append("%sf\txmltext\trunf\t%s" % (cid, wire(body)))
        path = write_file(cid + ".xlsx", xlsx_bytes("", sst, cells, ctx.rng, body=body))
        paths[cid] = path
        vh_lines.append("%s\topen\txlsx\t%s\trange %s;formula %s" % (cid, path, hx("S"), hx("S")))
    model = ctx.run_model(vm_lines + f_lines)
    impl = ctx.run_impl(vh_lines)
    for line in vm_lines:
        cid = line.split("\t", 1)[0]
        exp = expected_sheet(model.get(cid, "?"))
        rans, fans = split_calls(impl.get(cid))
        ctx.traces += 1
        ctx.count("xlsx:raw")
        ctx.nontrivial(line.split("\t", 2)[2])
        keep = False
        if rans != exp:
            ctx.disagreements.append({"function": "xlsx-raw", "case": line, "impl": rans,
                                      "model": model.get(cid), "expected_from_model": exp, "file": paths[cid]})
            keep = True
        keep = check_formulas(ctx, cid, line, fans, model.get(cid + "f", "?"), None, "", paths[cid]) or keep
        if not keep:
            os.remove(paths[cid])

def raw_ods_cases(rng, n):
    def para():
        ev = [S("text:p")]
        for _ in range(rng.randrange(0, 5)):
            k = rng.random()
            s = gen_string(rng, maxlen=3)
            if k < 0.3:
                ev.append(T(s))
            elif k < 0.45:
                c = rng.choice(["2", "0", "-3", "x", "", " 2", "2147483647000", "+1", "007", "1.5", "2147483648", "4294967296", "-2147483648", "-2147483649", "+", "-"])
                ev += [S("text:s", [("text:c", c)]), E("text:s")]
            elif k < 0.55:
                ev += [S("text:a", [("xlink:href", "http://x/?a=1&b=2")]), T(s), E("text:a")]
            elif k < 0.62:
                ev += [S("text:p"), T(s), E("text:p")]                      # nested paragraph
            elif k < 0.78:
                ev += [S("office:annotation"), S("text:p"), T("n"), E("text:p"), E("office:annotation")]
            elif k < 0.86:
                ev += [S("text:ruby"), S("text:ruby-base"), T(s), E("text:ruby-base"), S("text:ruby-text"),
                       T("rt"), E("text:ruby-text"), E("text:ruby")]
            elif k < 0.93:
                ev += [S("text:tab"), E("text:tab"), S("text:line-break"), E("text:line-break"),
                       S("text:soft-page-break"), E("text:soft-page-break")]
            else:
                ev.append(C(s.replace("]]>", "")))
        return ev + [E("text:p")]
    cases = []
    for _ in range(n):
        cells = []
        for _ in range(rng.randrange(1, 5)):
            name = "table:covered-table-cell" if rng.random() < 0.1 else "table:table-cell"
            attrs = []
            k = rng.random()
            if k < 0.6:
                attrs = [("office:value-type", "string")]
            elif k < 0.7:
                attrs = [("office:string-value", gen_string(rng, maxlen=3)), ("office:value-type", "string")]
            elif k < 0.78:
                attrs = [("office:value-type", "string"), ("office:date-value", "2020-01-01"),
                         ("office:string-value", "late")]
            elif k < 0.84:
                attrs = [("office:value-type", "boolean"), ("office:boolean-value", rng.choice(["true", "TRUE", "false", "1"]))]
            elif k < 0.90:
                attrs = [("office:value-type", "float")]                   # no value: Empty
            else:
                attrs = [("table:formula", "of:=1&2"), ("office:value-type", "string")]
            ev = []
            for _ in range(rng.randrange(0, 3)):
                ev += para()
                if rng.random() < 0.15:
                    ev.append(T(rng.choice([" ", "\n", "x"])))               # text between paragraphs
                k2 = rng.random()
                if k2 < 0.12:
                    # a drawing object between the paragraphs: same-name nesting, a start tag of
                    # its name without end tag (the rest of the cell is swallowed: Eof -> error)
                    n = rng.choice(["draw:g", "draw:frame", "dr3d:scene", "draw:", "drawx", "text:ruby-text"])
                    inner = [S(n)] + para() + [E(n)] if rng.random() < 0.5 else para()
                    if rng.random() < 0.85:
                        ev += [S(n)] + inner + [T("t"), E(n)]
                    else:
                        # never closed (the name occurs nowhere else in the file)
                        ev += [S("draw:unclosed")] + inner + [T("t")]
                elif k2 < 0.18:
                    # an end tag text:p that closes something else (quick-xml does not compare
                    # the names: check_end_names = false): no paragraph is open
                    ev += [S("text:span"), T("q"), E("text:p")]
                elif k2 < 0.24:
                    ev += [C("cd"), S("text:s"), E("text:s"), S("text:tab"), E("text:tab")]   # outside any paragraph
            ev.append(E(name))
            cells.append((name, attrs, ev))
        cases.append(cells)
    return cases

def run_raw_ods(ctx, cases, tag):
    vm_lines, vh_lines, paths = [], [], {}
    for i, cells in enumerate(cases):
        cid = "%s%d" % (tag, i)
        vm_lines.append("%s\txmltext\truno\t%s" % (cid, "|".join(
            hx(n) + "@" + ",".join("%s=%s" % (hx(k), hx(v)) for k, v in a) + "@" + wire(e) for n, a, e in cells)))
        path = write_file(cid + ".ods", ods_bytes(cells, ctx.rng))
        paths[cid] = path
        vh_lines.append("%s\topen\tods\t%s\trange %s" % (cid, path, hx("S")))
    model = ctx.run_model(vm_lines)
    impl = ctx.run_impl(vh_lines)
    for line in vm_lines:
        cid = line.split("\t", 1)[0]
        m = model.get(cid, "?")
        ctx.traces += 1
        ctx.count("ods:raw")
        ctx.nontrivial(line.split("\t", 2)[2])
        if "N" in m.split("/") and not any(c in ("err", "panic", "fuel") for c in m.split("/")):
            # a non-text value (boolean / date): only the fact that the file opens is compared
            if not (impl.get(cid) or "").startswith("R["):
                ctx.disagreements.append({"function": "ods-raw", "case": line, "impl": impl.get(cid), "model": m})
            else:
                os.remove(paths[cid])
            continue
        exp = expected_impl(m, "ods")
        if impl.get(cid) != exp:
            ctx.disagreements.append({"function": "ods-raw", "case": line, "impl": impl.get(cid),
                                      "model": m, "expected_from_model": exp, "file": paths[cid]})
        else:
            os.remove(paths[cid])

# ------------------------------------------------------------------ binary
def u16(s):
    return s.encode("utf-16-le", "surrogatepass")

def gen_units(rng):
    """UTF-16 with lone surrogates sprinkled in"""
    s = gen_string(rng, xml=False, maxlen=8)
    b = bytearray(u16(s))
    for _ in range(rng.choice([0, 0, 1, 1, 2, 3])):
        pos = 2 * rng.randrange(0, len(b) // 2 + 1)
        u = rng.choice([0xD800, 0xDBFF, 0xDC00, 0xDFFF, 0xD83D, 0xDE00])
        b[pos:pos] = bytes([u & 255, u >> 8])
    return bytes(b)

def run_binary(ctx, n, tag):
    lines, specs = [], {}
    for i in range(n):
        cid = "%sw%d" % (tag, i)
        k = ctx.rng.random()
        if k < 0.45:
            s = gen_string(ctx.rng, xml=False)
            body = u16(s)
            units = len(body) // 2
            rest = bytes(ctx.rng.randrange(256) for _ in range(ctx.rng.choice([0, 0, 1, 2, 5])))
            buf = units.to_bytes(4, "little") + body + rest
            specs[cid] = "ok:%s:%d" % (hx(s), 4 + 2 * units)
            ctx.count("wide:wellformed")
        elif k < 0.75:
            body = gen_units(ctx.rng)
            buf = (len(body) // 2).to_bytes(4, "little") + body
            ctx.count("wide:lone-surrogates")
        elif k < 0.9:
            body = gen_units(ctx.rng)
            declared = len(body) // 2 + ctx.rng.choice([-1, 1, 2, 1000, 0x7fffffff, 0xffffffff - len(body) // 2])
            buf = (declared & 0xffffffff).to_bytes(4, "little") + body
            ctx.count("wide:wrong-length")
        else:
            buf = bytes(ctx.rng.randrange(256) for _ in range(ctx.rng.randrange(0, 6)))
            ctx.count("wide:short")
        lines.append("%s\txmltext\twide\t%s" % (cid, buf.hex()))
    for i in range(n):
        cid = "%sd%d" % (tag, i)
        if ctx.rng.random() < 0.5:
            s = "".join(chr(ctx.rng.choice([ctx.rng.randrange(0, 256), 0xff, 0xfe, 0xef, 0xbb, 0xbf, 0x61]))
                        for _ in range(ctx.rng.randrange(0, 9)))
            stream = s.encode("latin-1") + bytes(ctx.rng.randrange(256) for _ in range(ctx.rng.choice([0, 2])))
            ln = len(s) if ctx.rng.random() < 0.7 else ctx.rng.randrange(0, 12)
            if ln == len(s):
                specs[cid] = "%s:%d:%d" % (hx(s), ln, ln)
            lines.append("%s\txmltext\tdecto\t0\t%s\t%d" % (cid, stream.hex(), ln))
            ctx.count("decode_to:8bit")
        else:
            if ctx.rng.random() < 0.6:
                s = gen_string(ctx.rng, xml=False, maxlen=8)
                body = u16(s)
                stream = body + bytes(ctx.rng.randrange(256) for _ in range(ctx.rng.choice([0, 1, 2, 4])))
                ln = len(body) // 2
                specs[cid] = "%s:%d:%d" % (hx(s), ln, 2 * ln)
            else:
                stream = gen_units(ctx.rng) + bytes(ctx.rng.randrange(256) for _ in range(ctx.rng.choice([0, 1])))
                ln = ctx.rng.randrange(0, len(stream) // 2 + 3)
            lines.append("%s\txmltext\tdecto\t1\t%s\t%d" % (cid, stream.hex(), ln))
            ctx.count("decode_to:16bit")
    impl, model = ctx.run_both(lines)
    for line in lines:
        cid = line.split("\t", 1)[0]
        ctx.traces += 1
        ctx.nontrivial(line.split("\t", 2)[2])
        i, m = impl.get(cid), model.get(cid)
        if cid in specs and i != specs[cid]:
            ctx.violations.append({"case": line, "expected": specs[cid], "actual": i, "model": m,
                                   "what": "UTF-16 text did not read back (binary storage)"})
        elif i != m:
            ctx.disagreements.append({"function": "utf16", "case": line, "impl": i, "model": m})

# ------------------------------------------------------------------ binary FILES: xls and xlsb
XLS_CHARS_MAX = 8224            # [MS-XLS] record body limit

def units_of(s):
    b = u16(s)
    return [b[i] | (b[i + 1] << 8) for i in range(0, len(b), 2)]

def xls_fragments(rng, units, mode):
    """a formula's string result as STRING + CONTINUE fragments [(units, wide)]: cuts where the
    record limit forces them (what Excel writes); for the mixed modes also at up to six places
    (changes between one-byte and two-byte characters preferred), every fragment in the narrowest
    packing it can have ('mixed16first': the STRING record 16-bit whatever it holds)"""
    n = len(units)
    if mode in ("8", "16") or n < 2:
        pos = []
    else:
        edges = [i for i in range(1, n) if (units[i] > 255) != (units[i - 1] > 255)]
        pos = rng.sample(edges, min(len(edges), rng.choice([0, 1, 2, 4])))
        pos += [rng.randrange(1, n) for _ in range(rng.choice([0, 1, 2]) if mode == "mixed-cut" or not pos else 0)]
        pos = sorted(set(pos))
    bounds = [0] + pos + [n]
    frs = []
    for k in range(len(bounds) - 1):
        a, b = bounds[k], bounds[k + 1]
        w = any(u > 255 for u in units[a:b]) or mode == "16" or (mode == "mixed16first" and k == 0)
        while True:
            cap = (XLS_CHARS_MAX - (3 if not frs else 1)) // (2 if w else 1)
            frs.append((units[a:min(b, a + cap)], w))
            a += cap
            if a >= b:
                break
    return frs

def xls_sst_entry(rng, units, cutty):
    """SST entry (xlsgen dict form): plain, rich (formatting runs), phonetic (ExtRst), any cuts"""
    n = len(units)
    e = {"units": units, "wide": True if rng.random() < 0.4 else None}
    if rng.random() < 0.4:
        e["runs"] = [(rng.randrange(0, min(n, 65535) + 1), rng.randrange(0, 9)) for _ in range(rng.choice([1, 2, 3, 7]))]
    if rng.random() < 0.35:
        e["ext"] = xlsgen.phonetic_ext(units_of(gen_string(rng, xml=False, maxlen=6)))
    if cutty:
        if n and rng.random() < 0.5:
            e["cuts"] = [(p, rng.choice([None, True])) for p in sorted(rng.randrange(0, n) for _ in range(rng.choice([1, 2, 3])))]
        tl = 4 * len(e.get("runs") or []) + len(e.get("ext") or b"")
        if tl and rng.random() < 0.7:
            e["tail_cuts"] = sorted(rng.randrange(0, tl) for _ in range(rng.choice([1, 2, 3])))
        e["cut_before"] = rng.random() < 0.2
    return e

def gen_binary_texts(rng, k, big):
    out = []
    for j in range(k):
        r = rng.random()
        if big and j == 0:
            out.append(long_string(rng, rng.choice([4111, 8222, 8300, 9000, 12000, 20000, 32767])))
        elif big and j == 1:
            # one-byte characters only: more than 8221 of them need a CONTINUE record even compressed
            out.append("".join(rng.choice("abc xyz<&>\t\u00e9\u00ff") for _ in range(rng.choice([8221, 8222, 8500, 16500]))))
        elif r < 0.15:
            out.append(long_string(rng, rng.choice([50, 300, 1200, 4000])))
        else:
            out.append(gen_string(rng, xml=False))
    return out

KEPT = []
def keep_file(path, limit=6):
    """a generated binary file named by a violation / disagreement is copied next to the replays
    (the temp directory belongs to the run); returns the path to put into the case"""
    import shutil
    if len(KEPT) >= limit or not os.path.exists(path):
        try:
            os.remove(path)
        except OSError:
            pass
        return path
    dst = os.path.join(vlib.OUTROOT, "replays", "C19-files")
    os.makedirs(dst, exist_ok=True)
    shutil.move(path, os.path.join(dst, os.path.basename(path)))
    KEPT.append(path)
    return os.path.join(dst, os.path.basename(path))

def cells_of(ans):
    """c12_open answer of a one-sheet workbook -> {(r, c): hex utf-8}, or None"""
    if not ans or not ans.startswith("ok:") or "=" not in ans or "|" in ans:
        return None
    d, body = {}, ans.split("=", 1)[1]
    if body:
        for t in body.split(","):
            r, c, v = t.split(":", 2)
            d[(int(r), int(c))] = v
    return d

def run_xls_files(ctx, n_files, tag):
    """each text as shared string (col 0), inline LABEL (col 1) and formula string result (col 2)"""
    rng = ctx.rng
    os.makedirs(TMP, exist_ok=True)
    il, ml, meta = [], [], {}
    for k in range(n_files):
        big = k % 6 == 0
        texts = gen_binary_texts(rng, rng.choice([3, 4, 6]), big)
        cutty = rng.random() < 0.85
        entries, cells, exp, descr = [], [], {}, []
        for i, t in enumerate(texts):
            u = units_of(t)
            entries.append(xls_sst_entry(rng, u, cutty))
            cells.append({"k": "labelsst", "r": i, "c": 0, "isst": i})
            if t != "":
                exp[(i, 0)] = hx(t) if t else ""
            forms = ["sst"]
            if len(u) <= 4000:
                w = True if any(x > 255 for x in u) else rng.random() < 0.5
                cells.append({"k": "label", "r": i, "c": 1, "units": u, "wide": w})
                exp[(i, 1)] = t.encode("utf-8").hex()
                forms.append("label:%d" % (16 if w else 8))
            mode = rng.choice(["8", "16", "mixed", "mixed-cut", "mixed16first"])
            frs = xls_fragments(rng, u, mode)
            cells.append({"k": "formula", "r": i, "c": 2, "cached": ("str", frs[0][0], frs[0][1]), "cont": frs[1:]})
            exp[(i, 2)] = t.encode("utf-8").hex()
            forms.append("fstring:%s:%d-records" % (mode, len(frs)))
            descr.append("text %d (%d units%s): %s" % (i, len(u), "" if len(u) > 40 else " " + hx(t), ",".join(forms)))
            ctx.count("xls:text:%s" % ("empty" if not u else "1-40" if len(u) <= 40 else "41-4110" if len(u) <= 4110 else "4111-8221" if len(u) <= 8221 else ">8221"))
            ctx.count("xls:fstring:%s:%s" % (mode, "continued" if len(frs) > 1 else "one-record"))
            if entries[-1].get("runs") is not None: ctx.count("xls:sst:rich")
            if entries[-1].get("ext") is not None: ctx.count("xls:sst:phonetic")
        # the CodePage record of the globals: any value or none (BIFF8 text is Unicode whatever it says;
        # audit-2 finding XLS-1), and a sheet name in 8- or 16-bit storage
        cp = rng.choice(xlsgen.CODEPAGES)
        ctx.count("xls:codepage:%s" % ("none" if cp is None else cp))
        wb = {"codepage": cp, "sst": entries, "sheets": [{"name": "S", "cells": cells, "dimensions": "none"}]}
        stats = {}
        # a small record limit on a long table means thousands of CONTINUE records (slow in the extracted
        # model, and nothing a writer produces): keep it for the short tables
        longest = max(len(e["units"]) for e in entries)
        lim = None if (not cutty or longest > 1000) else rng.choice([None, 500]) if longest > 200 else rng.choice([None, None, 64, 500])
        opts = {"sst_cut": lim, "sst_stats": stats}
        stream, _ = xlsgen.workbook_stream(wb, opts, rng)
        for kk, v in stats.items():
            ctx.count("xls:sst:cut-" + kk if kk != "records" else "xls:sst:records", v)
        cid = "%s%d" % (tag, k)
        path = write_file(cid + ".xls", xlsgen.cfb_wrap([("Workbook", stream)], rng=rng, version=rng.choice([3, 4])))
        il.append("%s\tc12_open\t%s" % (cid, path))
        ml.append("%s\tc12_open\t%s" % (cid, stream.hex()))
        meta[cid] = (path, exp, descr, texts)
    impl, model = ctx.run_impl(il), ctx.run_model(ml)
    for l in il:
        cid = l.split("\t", 1)[0]
        path, exp, descr, texts = meta[cid]
        i, m = impl.get(cid), model.get(cid)
        ctx.traces += 1
        ctx.nontrivial("xls" + cid + hashlib.sha1(repr(sorted(exp.items())).encode()).hexdigest())
        di = cells_of(i)
        bad = None
        if di is None:
            bad = ("the workbook did not read", "ok", i)
        else:
            for p in sorted(set(exp) | set(di)):
                if exp.get(p) != di.get(p):
                    form = {0: "shared string (LABELSST)", 1: "inline LABEL", 2: "formula string result (STRING [+ CONTINUE])"}[p[1]]
                    bad = ("xls %s of text %d: the text stored is not the text read (lengths %s / %s bytes of UTF-8)" % (
                        form, p[0], len(exp.get(p, "")) // 2, len(di.get(p, "") or "") // 2), exp.get(p), di.get(p))
                    break
        if bad:
            kept = keep_file(path)
            ctx.violations.append({"case": "%s\t# %s" % (l.replace(path, kept), "; ".join(descr))[:3000], "expected": (bad[1] or "")[:2000], "actual": (bad[2] or "")[:2000],
                                   "model": (m or "")[:300], "what": bad[0], "file": kept})
        elif i != m:
            kept = keep_file(path)
            ctx.disagreements.append({"function": "xls file (Xls::new+worksheet_range vs C12 wb_strings)", "case": l.replace(path, kept), "impl": (i or "")[:600],
                                      "model": (m or "")[:600], "file": kept})
        else:
            os.remove(path)

XLSB_FMLA_TAIL = struct.pack("<H", 0) + struct.pack("<I", 3) + bytes([0x1E, 1, 0]) + struct.pack("<I", 0)

def run_xlsb_files(ctx, n_files, tag):
    """each text as shared string (BrtSSTItem plain / rich / phonetic + BrtCellIsst), inline BrtCellSt and
    BrtFmlaString; impl vs the text"""
    rng = ctx.rng
    G = xlsbgen
    os.makedirs(TMP, exist_ok=True)
    il, meta = [], {}
    for k in range(n_files):
        texts = gen_binary_texts(rng, rng.choice([3, 4, 6]), k % 6 == 0)
        sst = G.frame((True, 0), 0x9F, struct.pack("<II", len(texts) + rng.randrange(3), len(texts)))
        items, exp = [], {}
        for i, t in enumerate(texts):
            fl = rng.choice([0, 0, 1, 2, 3])
            body = bytes([fl]) + G.wide(t)
            if fl & 1:                                   # rich: dwSizeStrRun, StrRun (ich, ifnt)
                runs = [(rng.randrange(0, len(t) + 1) & 0xFFFF, rng.randrange(9)) for _ in range(rng.choice([0, 1, 3]))]
                body += struct.pack("<I", len(runs)) + b"".join(struct.pack("<HH", *r) for r in runs)
            if fl & 2:                                   # phonetic: string, dwPhoneticRun, PhRun
                ph = gen_string(rng, xml=False, maxlen=5)
                body += G.wide(ph) + struct.pack("<I", 1) + struct.pack("<HHHH", 0, 0, len(t) & 0xFFFF, 0x37)
            sst += G.frame(G.min_fr(0x13, body), 0x13, body)
            items.append({"fr": (False, 0), "k": "row", "row": i, "tail": bytes(13)})
            for col, v in ((0, ("isst", i)), (1, ("st", t)), (2, ("fst", t))):
                it = {"k": "cell", "col": col, "style": 0, "fl": 0, "v": v, "tail": XLSB_FMLA_TAIL if v[0] == "fst" else b""}
                it["fr"] = G.min_fr(G.item_id(it), G.item_body(it))
                items.append(it)
                exp[(i, col)] = "S" + hx(t) if t else "S"
            ctx.count("xlsb:text:%s" % ("empty" if not t else "short" if len(t) <= 40 else "long" if len(t) <= 8221 else ">8221"))
            ctx.count("xlsb:sst-item:flags%d" % fl)
        sst += G.frame((True, 0), 0xA0, b"")
        L = {"pre1": [], "dim": {"fr": (True, 0), "d": (0, 0, len(texts) - 1, 2), "tail": b""}, "pre2": [],
             "begin": ((True, 0), b""), "items": items, "end": ((True, 0), b""), "trailer": b""}
        env = {"d1904": False, "xf_ids": [0], "customs": [], "fmts": [0], "strings": texts}
        cid = "%s%d" % (tag, k)
        path = os.path.join(TMP, cid + ".xlsb")
        G.write_package(path, [("S", G.enc_layout(L))], env, sst=sst, compress=rng.random() < 0.5)
        il.append("%s\topen\txlsb\t%s\trange %s" % (cid, path, hx("S")))
        meta[cid] = (path, exp, texts)
    impl = ctx.run_impl(il)
    for l in il:
        cid = l.split("\t", 1)[0]
        path, exp, texts = meta[cid]
        ctx.traces += 1
        ctx.nontrivial("xlsb" + cid + hashlib.sha1(repr(sorted(exp.items())).encode()).hexdigest())
        g = parse_grid(impl.get(cid))
        bad = None
        if g is None:
            bad = ("the xlsb workbook did not read", "R[...]", impl.get(cid))
        else:
            for p in sorted(exp):
                if g.get(p) != exp[p]:
                    form = {0: "shared string (BrtCellIsst)", 1: "inline BrtCellSt", 2: "BrtFmlaString"}[p[1]]
                    bad = ("xlsb %s of text %d: the text stored is not the text read" % (form, p[0]), exp[p], g.get(p))
                    break
        if bad:
            kept = keep_file(path)
            ctx.violations.append({"case": "%s\t# texts: %s" % (l.replace(path, kept), ",".join(hx(t)[:80] for t in texts)), "expected": (bad[1] or "")[:2000],
                                   "actual": (bad[2] or "")[:2000], "model": None, "what": bad[0], "file": kept})
        else:
            os.remove(path)

# ------------------------------------------------------------------ ST_Xstring: writers against S / M (model only)
def py_xunescape(s):
    """reference decoder written independently of the Coq one (regular expression at every position,
    left to right).  An escape that names a surrogate is no escape: its first underscore is text and
    the scan goes on behind that ONE character — so in `_xDE00_x000D_` the underscore that closes
    the surrogate look-alike opens `_x000D_`.  (A non-overlapping re.sub consumed the look-alike
    whole and disagreed with S, M and the code on exactly such strings: a false alarm of the
    thorough tier, repaired here.)"""
    out, i, pat = [], 0, re.compile(r"_x([0-9A-Fa-f]{4})_")
    while i < len(s):
        m = pat.match(s, i)
        if m:
            v = int(m.group(1), 16)
            if not 0xD800 <= v <= 0xDFFF:
                out.append(chr(v)); i = m.end()
                continue
        out.append(s[i]); i += 1
    return "".join(out)

def excel_write(rng, s):
    """s as Excel stores it: CR / C0 controls / U+FFFE / U+FFFF (and a few others) as _xHHHH_ in
    either case; an underscore is escaped only where the WRITTEN text that follows would otherwise
    complete an escape (or, sometimes, always)"""
    always = rng.random() < 0.3
    form = []
    for ch in s:
        cp = ord(ch)
        if ch != "_" and (cp < 32 and cp not in (9, 10) or cp in (0xFFFE, 0xFFFF)
                          or (cp < 0x10000 and not 0xD800 <= cp <= 0xDFFF and rng.random() < 0.05)):
            form.append(("_x%04X_" if rng.random() < 0.7 else "_x%04x_") % cp)
        else:
            form.append(ch)
    out = []
    for i, ch in enumerate(s):
        if ch == "_":
            tail = "".join(form[i + 1:i + 8])[:6]      # a later underscore starts with "_" either way
            if always or re.match(r"x[0-9A-Fa-f]{4}_", tail):
                out.append("_x005F_" if rng.random() < 0.7 else "_x005f_")
                continue
        out.append(form[i])
    return "".join(out)

def xstring_cases(ctx, n):
    """(a) a string written the Excel way must denote itself under S and M; (b) S and M agree with
    an independent decoder on raw material; (c) the Coq writer's output decodes to the string"""
    lines, want = [], {}
    for i in range(n):
        s = gen_string(ctx.rng, xml=(i % 2 == 0), maxlen=12)
        w = excel_write(ctx.rng, s)
        lines.append("xw%d\txmltext\txstr\t%s" % (i, hx(w))); want["xw%d" % i] = (s, None)
        lines.append("xr%d\txmltext\txstr\t%s" % (i, hx(s))); want["xr%d" % i] = (py_xunescape(s), s)
    model = ctx.run_model(lines)
    for line in lines:
        cid = line.split("\t", 1)[0]
        ctx.traces += 1
        ctx.count("xstring:model-only")
        ctx.nontrivial(line.split("\t", 2)[2])
        f = (model.get(cid) or "").split(":")
        dec, orig = want[cid]
        ok = len(f) == 3 and f[0] == hx(dec) and f[1] == hx(dec)
        if ok and orig is not None:
            ok = py_xunescape(unhx(f[2])) == orig            # the Coq writer, decoded independently
        if not ok:
            ctx.disagreements.append({"function": "xstring-spec", "case": line, "impl": hx(dec), "model": model.get(cid)})

# ------------------------------------------------------------------ corpus: witnesses and regressions, run first
def corpus(ctx):
    xstring_cases(ctx, 1500 if ctx.tier == "quick" else 20000)
    # xlsx: regression witnesses of the repaired classes F12 (CDATA: shared, inline, runs, phonetic
    # runs, <v>, <f>, text + CDATA + text, adjacent sections around "]]>", empty sections, under
    # a prefix) and F34 (prefixed rich / empty items: shared, inline, <x:si/>, <x:is/>), the
    # repaired F11 (<si/> keeps its index), special characters in every form, the repaired F37
    # (ST_Xstring escapes: both digit cases, _x005F_, surrogates, near-misses, an escape split over
    # a Text/CDATA boundary = an escape, split over two runs = none, in <v>, inline, phonetic, <f>)
    cases = [
        ("", [hx("") + "~plain/0/c" + hx("a<b") + "/"], ["s" + hx("0")]),                                  # was F12
        ("", [], ["f" + "t" + hx("1") + "&t" + hx("u") + "+c" + hx("v") + "+t" + hx("w")]),                  # was F12 formula
        ("x", [hx("") + "~rich/R;0;;t" + hx("a"), hx("") + "~plain/0/t" + hx("c") + "/"], ["s" + hx("1"), "s" + hx("0")]),   # was F34 shared
        ("x", [hx("") + "~plain/0/t" + hx("c") + "/"], ["irich/R;0;;t" + hx("a") + "!R;0;;t" + hx("b"), "s" + hx("0")]),   # was F34 inline
        ("x", [hx("") + "~rich/", hx("") + "~plain/0/t" + hx("c") + "/"], ["s" + hx("1"), "s" + hx("0")]),       # was F34 on <x:si/>
        ("", [hx("") + "~rich/", hx("") + "~plain/0/t" + hx("a") + "/", hx("") + "~rich/", hx("") + "~plain/1/t" + hx(" b ") + "/"],
         ["s" + hx("0"), "s" + hx("1"), "s" + hx("2"), "s" + hx("3")]),                                        # F11 repaired
        ("", [hx("") + "~rich/R;1;" + hx("b") + ";t" + hx("a&") + "!P;t" + hx("\u30a2") + "!R;0;;t" + hx("<b>\r\n") + "!Q"],
         ["s" + hx("0"), "iplain/1/t" + hx(" \t'\"]]>\U0001F600 ") + "/P;t" + hx("x") + "!Q", "irich/"]),
        ("x", [hx("\n ") + "~plain/1/t" + hx("a") + "+o+t" + hx("b") + "/P;t" + hx("ph")], ["s" + hx("0"), "iplain/0//"]),
        ("x", [hx("") + "~plain/0/t" + hx("c") + "/"], ["s" + hx("0"), "irich/", "s" + hx("0"), "irich/P;t" + hx("p")]),   # was F34: <x:is/> swallowed the next cell
        ("", [hx("") + "~plain/0/t" + hx("a_x000D_") + "/", hx("") + "~plain/0/t" + hx("_x005F_x0041_ _x12 _xZZZZ_ _xD83D_") + "/",
              hx("") + "~plain/0/t" + hx("a_x00") + "+c" + hx("0D_b") + "/"],
         ["s" + hx("0"), "s" + hx("1"), "ft" + hx("1") + "&t" + hx("_x000a_"), "s" + hx("2")]),                # was F37 (also across a Text/CDATA boundary)
        ("x", [hx("") + "~rich/R;0;;t" + hx("a_x00") + "!R;0;;t" + hx("0D_"),                               # split over two runs: literal
               hx("") + "~rich/R;1;;t" + hx("_x000d_") + "+c" + hx("_x005f_") + "!P;t" + hx("_x0041_") + "!R;0;;c" + hx("_xD83D__xDE00_") + "!R;0;;t" + hx("_x0041"),
               hx("") + "~plain/0/t" + hx("_x12_ _x123_ _x12345_ _x000D x000D_ _X000D_ _x000G_ __x0041_ _x00_x0041_ _x0000_ _xFFFF_") + "/"],
         ["s" + hx("0"), "s" + hx("1"), "s" + hx("2"), "iplain/0/t" + hx("_x0009_") + "+o+t" + hx("_x000A_") + "/P;c" + hx("_x0042_"),
          "irich/R;0;;c" + hx("_x0041"), "ft" + hx('"_x000D_"&A1') + "&c" + hx("_x00") + "+c" + hx("0D_") + "+t" + hx("_X000D_"),
          "ft" + hx("1") + "&t" + hx("_x005F_x000D_") + "+o+t" + hx("_x005F") + "+c" + hx("_")]),
        # CDATA everywhere: "a]]>b" as two adjacent sections, in a plain <t>, in runs, in a phonetic run
        # (ignored), in <v> and <f> of a formula string, empty sections, default namespace and prefix
        ("", [hx("") + "~plain/1/c" + hx("a]]") + "+c" + hx(">b") + "/P;c" + hx("ph"),
              hx("") + "~rich/R;0;;c" + hx(" <&> ") + "!P;c" + hx("x") + "!R;1;" + hx("b") + ";t" + hx("1") + "+c" + hx("2") + "+t" + hx("3") + "!R;0;;c",
              hx("") + "~plain/0/c/"],
         ["s" + hx("0"), "s" + hx("1"), "s" + hx("2"), "iplain/0/c" + hx("]]") + "+c" + hx(">") + "/",
          "irich/R;0;;c" + hx("in") + "+c" + hx("line"), "fc" + hx('IF(A1<B1,"]]') + "+c" + hx('>","&")') + "&c" + hx("v<") + "+c+c" + hx("w")]),
        ("main", [hx("\n") + "~rich/R;0;" + hx("i") + ";c" + hx("p&q") + "!R;0;;t" + hx("\r") + "+c" + hx("\n") + "!Q",
                  hx("") + "~plain/0/t" + hx("u") + "+c" + hx("<![CDATA[") + "+o+t" + hx("w") + "/"],
         ["s" + hx("0"), "s" + hx("1"), "irich/R;1;;c" + hx("  "), "ft" + hx("A1") + "+c" + hx("&B1") + "&t" + hx("x") + "+c" + hx("y")]),
    ]
    run_xlsx_batch(ctx, cases, "kx")
    ocases = [
        ["a;;cp" + "l" + hx("a") + "+T+l" + hx("b")],                                   # was F35
        ["a;;cp" + "l" + hx("a") + "+B+l" + hx("b")],                                   # was F36
        # tabs and line breaks: leading / trailing / adjacent, inside a span, next to text:s, in
        # several paragraphs, in the display copy of an office:string-value cell, inside an
        # annotation (ignored); ST_Xstring escapes are NOT an ods notion: they stay as written
        ["a;;cp" + "T+T+l" + hx("a") + "+o" + hx("T1") + "+T+B+l" + hx("b") + "+x+s" + hx("2") + "+T+B+B!pB!pT",
         "c;;a" + hx("v\tw") + "/pl" + hx("v") + "+T+l" + hx("w"),
         "a;;cn" + wire([S("text:p"), T("n"), S("text:tab"), E("text:tab"), S("text:line-break"), E("text:line-break"), E("text:p")]) + "!pl" + hx("t") + "+T",
         "a;;cp" + "l" + hx("a_x000D_ _x005F_ _x0041_") + "+d" + hx("_x000A_")],
        ["a;;cp" + "d" + hx("a") + "+l" + hx("b")],                                     # was F12 ods
        # CDATA only / text + CDATA + text / adjacent sections around "]]>" / inside a span / empty
        ["a;;cp" + "d" + hx(" <a&b> "), "a;;cp" + "l" + hx("u") + "+d" + hx("v") + "+l" + hx("w"),
         "a;;cp" + "d" + hx("x]]") + "+d" + hx(">y") + "!p" + "o" + hx("T1") + "+d" + hx("in span") + "+s+d" + hx("]]") + "+x+d",
         "c;;cp" + "s" + hx("2") + "+d" + hx("\t\n") + "+s"],
        ["a;;cp" + "s" + hx("3") + "+l" + hx("a ") + "+s+l" + hx("b") + "+s" + hx("0") + "!p!p" + "l" + hx("c"),
         "c;" + hx("table:style-name") + "=" + hx("ce1") + ";a" + hx(" a&<b>\n") + "/pl" + hx("shown"),
         "a;;c", "a;;cn" + wire(ANNOT[1]) + "!pl" + hx("t")],
        # was ODS-1 (notes/AUDIT2.md): an image, a custom shape with text, a text box with two
        # paragraphs, a group inside a group anchored to the cell, after its paragraph
        ["a;;cp" + "l" + hx("abc") + "!h" + hx("draw:frame") + "~" + hx("draw:name") + "=" + hx("Image 1") + "~" +
            wire([S("draw:image", [("xlink:href", "Pictures/1.jpg")]), S("text:p"), E("text:p"), E("draw:image")]),
         "a;;cp" + "l" + hx("abc") + "!h" + hx("draw:custom-shape") + "~~" +
            wire([S("text:p"), T("Shape text"), E("text:p"), S("draw:enhanced-geometry"), E("draw:enhanced-geometry")]),
         "a;;cp" + "l" + hx("abc") + "!h" + hx("draw:frame") + "~~" +
            wire([S("draw:text-box"), S("text:p"), T("Box line 1"), E("text:p"), S("text:p"), T("Box line 2"), E("text:p"), E("draw:text-box")]),
         "a;;cn" + wire(ANNOT[1]) + "!pl" + hx("abc") + "!h" + hx("draw:g") + "~~" +
            wire([S("draw:g"), S("draw:rect"), S("text:p"), T("r"), E("text:p"), E("draw:rect"), E("draw:g"), S("text:p"), T("g"), E("text:p")])
            + "!pl" + hx("second")],
        # was ODS-3: an indented cell (and a comment between its children); white space INSIDE a
        # paragraph or a span is content (the opposite mistake, seed C19-H)
        ["a;;cw" + hx("\n     ") + "!pl" + hx("abc") + "!w" + hx("\n    "),
         "a;;cw" + hx("\n  ") + "!pl" + hx("l1") + "!w" + hx("\n  ") + "!k!w" + hx("\n  ") + "!pl" + hx("l2") + "!w" + hx("\n"),
         "a;;cp" + "o" + hx("T1") + "+l" + hx("bold") + "+x+l" + hx(" ") + "+o" + hx("T2") + "+l" + hx("italic") + "+x",
         "a;;cp" + "l" + hx(" ") + "!pl" + hx("\n  ") + "!p" + "o" + hx("T1") + "+l" + hx("\t") + "+x+s+l" + hx(" ")],
        # was ODS-4: a phonetic guide; only the base is cell text
        ["a;;cp" + "R" + hx("Ru1") + "+A+l" + hx("\u6f22\u5b57") + "+a+y~" + wire([T("\u304b\u3093\u3058")]) + "+r",
         "a;;cp" + "l" + hx("x") + "+R" + hx("Ru1") + "+A+o" + hx("T1") + "+l" + hx("ba") + "+x+s+l" + hx("se") + "+a+y" + hx("Ru2") + "~" +
            wire([T("r"), C("t")]) + "+r+l" + hx("y")],
    ]
    run_ods_batch(ctx, ocases, "ko")
    # binary regressions: U+FEFF first (BOM sniffing, repaired by 98c2838), U+FFFE first, EF BB BF
    lines = []
    for i, s in enumerate(["\ufeffab", "\ufffeab", "\ubbef\u00bfab", "\ufeff", "a\ufeff", "\U0001F600"]):
        b = u16(s)
        lines.append(("kb%d" % i, "xmltext\twide\t" + (len(b) // 2).to_bytes(4, "little").hex() + b.hex(),
                      "ok:%s:%d" % (hx(s), 4 + len(b))))
        lines.append(("kc%d" % i, "xmltext\tdecto\t1\t%s\t%d" % (b.hex(), len(b) // 2),
                      "%s:%d:%d" % (hx(s), len(b) // 2, len(b))))
    impl, model = ctx.run_both(["%s\t%s" % (c, l) for c, l, _ in lines])
    for c, l, sp in lines:
        ctx.traces += 1
        ctx.nontrivial(l)
        if impl.get(c) != sp:
            ctx.violations.append({"case": "%s\t%s" % (c, l), "expected": sp, "actual": impl.get(c),
                                   "model": model.get(c), "what": "UTF-16 text starting with a BOM-like unit did not read back"})
        elif impl.get(c) != model.get(c):
            ctx.disagreements.append({"function": "utf16", "case": "%s\t%s" % (c, l), "impl": impl.get(c), "model": model.get(c)})

def sweep_units(ctx):
    """finite domain: every 16-bit code unit, alone between two letters and after a high surrogate"""
    lines = []
    for u in range(0x10000):
        body = b"a\x00" + bytes([u & 255, u >> 8]) + b"b\x00"
        lines.append("su%d\txmltext\twide\t%s" % (u, (3).to_bytes(4, "little").hex() + body.hex()))
    for u in range(0xD700, 0xE100):
        body = b"\x3d\xd8" + bytes([u & 255, u >> 8])
        lines.append("sp%d\txmltext\tdecto\t1\t%s\t2" % (u, body.hex()))
    impl, model = ctx.run_both(lines)
    for l in lines:
        cid = l.split("\t", 1)[0]
        ctx.traces += 1
        if impl.get(cid) != model.get(cid):
            ctx.disagreements.append({"function": "utf16-sweep", "case": l, "impl": impl.get(cid), "model": model.get(cid)})
    ctx.count("sweep:utf16-units", len(lines))
    ctx.nontrivial("sweep-units")

def sweep_scalars(ctx):
    """every Unicode scalar value once through wide_str (4096 per string)"""
    allc = [c for c in range(0x110000) if not 0xD800 <= c <= 0xDFFF]
    lines, specs = [], {}
    for k in range(0, len(allc), 4096):
        s = "".join(chr(c) for c in allc[k:k + 4096])
        b = u16(s)
        cid = "ss%d" % k
        lines.append("%s\txmltext\twide\t%s" % (cid, (len(b) // 2).to_bytes(4, "little").hex() + b.hex()))
        specs[cid] = "ok:%s:%d" % (hx(s), 4 + len(b))
    impl, model = ctx.run_both(lines)
    for l in lines:
        cid = l.split("\t", 1)[0]
        ctx.traces += 1
        if impl.get(cid) != specs[cid]:
            ctx.violations.append({"case": l[:200], "expected": specs[cid][:200], "actual": (impl.get(cid) or "")[:200],
                                   "model": (model.get(cid) or "")[:200], "what": "scalar sweep through wide_str"})
        elif impl.get(cid) != model.get(cid):
            ctx.disagreements.append({"function": "utf16-sweep", "case": l[:200], "impl": (impl.get(cid) or "")[:200], "model": (model.get(cid) or "")[:200]})
    ctx.count("sweep:all-scalars", len(allc))
    ctx.nontrivial("sweep-scalars")

def sweep_xml_chars(ctx):
    """every character XML 1.0 can carry, once, through xlsx (shared plain / shared rich / inline /
    formula string) and ods (content / office:string-value), 1500 characters per cell"""
    allc = [c for c in range(0x110000) if xml_char_ok(c)]
    chunks = ["".join(chr(c) for c in allc[k:k + 1500]) for k in range(0, len(allc), 1500)]
    xcases, ocases = [], []
    per = 40
    for k in range(0, len(chunks), per):
        grp = chunks[k:k + per]
        items, cells, ocells = [], [], []
        for j, s in enumerate(grp):
            m = (k + j) % 4
            # every second group of four spells the characters as CDATA sections
            sp = (lambda x: "+".join(kk + hx(q) for kk, q in cdata_segments(x))) if ((k + j) // 4) % 2 else (lambda x: "t" + hx(x))
            if m == 0:
                items.append(hx("") + "~plain/1/" + sp(s) + "/"); cells.append("s" + hx(str(len(items) - 1)))
            elif m == 1:
                a, b = s[:700], s[700:]
                items.append(hx("") + "~rich/R;1;;" + sp(a) + "!R;0;;" + sp(b)); cells.append("s" + hx(str(len(items) - 1)))
            elif m == 2:
                cells.append("iplain/0/" + sp(s) + "/")
            else:
                cells.append("f" + sp(s) + "&" + sp(s))
            if (k + j) % 2 == 0:
                osp = (lambda x: "+".join(("d" if kk == "c" else "l") + hx(q) for kk, q in cdata_segments(x))) if ((k + j) // 2) % 2 else (lambda x: "l" + hx(x))
                ocells.append("a;;c" + "!".join("p" + osp(line) if line else "p" for line in s.split("\n")))
            else:
                ocells.append("a;;a" + hx(s) + "/")
        xcases.append(("", items, cells))
        ocases.append(ocells)
    run_xlsx_batch(ctx, xcases, "swx")
    run_ods_batch(ctx, ocases, "swo")
    ctx.count("sweep:xml-chars", len(allc))

def run(ctx):
    corpus(ctx)
    sweep_scalars(ctx)
    if ctx.tier == "thorough":
        sweep_units(ctx)
        sweep_xml_chars(ctx)
    n = ctx.scale(8, 80)
    for r in range(n):
        run_xlsx_batch(ctx, [gen_xlsx_case(ctx.rng, big=(i % 40 == 0)) for i in range(500)], "x%d_" % r)
        run_ods_batch(ctx, [gen_ods_case(ctx.rng, big=(i % 40 == 0)) for i in range(500)], "o%d_" % r)
        run_raw_xlsx(ctx, raw_xlsx_cases(ctx.rng, 200), "rx%d_" % r)
        run_raw_ods(ctx, raw_ods_cases(ctx.rng, 200), "ro%d_" % r)
        run_binary(ctx, 1500, "b%d_" % r)
    run_xls_files(ctx, ctx.scale(60, 600), "bx")
    run_xlsb_files(ctx, ctx.scale(40, 400), "bb")

def search(ctx):
    for r in range(ctx.scale(3, 10)):
        run_xlsx_batch(ctx, [gen_xlsx_case(ctx.rng, big=(i % 25 == 0)) for i in range(500)], "sx%d_" % r)
        run_ods_batch(ctx, [gen_ods_case(ctx.rng, big=(i % 25 == 0)) for i in range(500)], "so%d_" % r)
        run_binary(ctx, 3000, "sb%d_" % r)
    run_xls_files(ctx, ctx.scale(120, 400), "sbx")
    run_xlsb_files(ctx, ctx.scale(60, 200), "sbb")

def replay(ctx, rep):
    case = rep.get("case") or ""
    print("replaying:", case[:400])
    f = case.split("\t")
    cid = f[0]
    if len(f) > 2 and f[2] == "xlsx":
        before = len(ctx.violations) + len(ctx.disagreements)
        run_xlsx_batch(ctx, [(unhx(f[3]) if f[3] != "-" else "", f[4].split("|") if f[4] != "-" else [], f[5].split("|"))], "rp")
    elif len(f) > 2 and f[2] == "ods":
        before = len(ctx.violations) + len(ctx.disagreements)
        run_ods_batch(ctx, [f[3].split("|")], "rp")
    elif len(f) > 2 and f[1] in ("c12_open", "open") and (f[2].endswith(".xls") or (len(f) > 3 and f[3].endswith(".xlsb"))):
        # binary file cases: the generated file is kept when it fails; the cell named in "what" must
        # read back with the stored length (the replay file holds a prefix of the text only)
        path = f[2] if f[1] == "c12_open" else f[3]
        if not os.path.exists(path):
            print("the generated file is gone; re-run ./check C19 with the same VERIF_SEED to regenerate it")
            return 2
        line = "\t".join(f[:3] if f[1] == "c12_open" else f[:5])
        ans = ctx.run_impl([line]).get(cid)
        print("impl :", (ans or "")[:400]); print("what :", rep.get("what")); print("expected:", (rep.get("expected") or "")[:200])
        m = re.search(r"of text (\d+).*lengths (\d+) /", rep.get("what") or "")
        if f[1] == "c12_open" and m:
            col = 0 if "shared string" in rep["what"] else 1 if "LABEL" in rep["what"] else 2
            d = cells_of(ans) or {}
            return 0 if len(d.get((int(m.group(1)), col), "")) // 2 == int(m.group(2)) else 1
        m = re.search(r"of text (\d+)", rep.get("what") or "")
        if f[1] == "open" and m:
            col = 0 if "shared string" in rep["what"] else 1 if "BrtCellSt" in rep["what"] else 2
            g = parse_grid(ans) or {}
            got, exp = g.get((int(m.group(1)), col)) or "", rep.get("expected") or ""
            return 0 if (got == exp if len(exp) < 2000 else got.startswith(exp)) else 1
        return 1 if ans is None or not ans.startswith(("ok:", "R[")) else 0
    else:
        impl, model = ctx.run_both([case])
        print("impl :", impl.get(cid)); print("model:", model.get(cid)); print("expected:", rep.get("expected"))
        return 0 if impl.get(cid) == rep.get("expected") else 1
    for v in ctx.violations:
        print("violation:", v.get("what"), "expected", v.get("expected"), "actual", v.get("actual"))
    for d in ctx.disagreements:
        print("disagreement:", d.get("impl"), "vs model", d.get("model"))
    return 1 if len(ctx.violations) + len(ctx.disagreements) > before else 0
