"""sharedfmlagen — generator for property C15: formulas over the token grammar of
coq/theories/SharedFmla.v (render / translate written independently here and cross-checked
against the Coq spec on every case), and a minimal .xlsx writer for sheets whose cells carry
plain formulas, shared-formula masters (<f t="shared" ref=".." si="..">) and members
(<f t="shared" si=".."/>)."""
import zipfile

MAX_ROWS, MAX_COLS = 1048576, 16384

# ----------------------------------------------------------------------------- A1 helpers
def letters(c):
    s = ""
    c += 1
    while c > 0:
        s = chr(65 + (c - 1) % 26) + s
        c = (c - 1) // 26
    return s

def a1(r, c):
    return letters(c) + str(r + 1)

def is_cell_name(n):
    """n, case-insensitively, is the A1 name of a cell of the sheet"""
    i = 0
    while i < len(n) and n[i].isascii() and n[i].isalpha():
        i += 1
    ls, ds = n[:i].upper(), n[i:]
    if not (1 <= len(ls) <= 3 and 1 <= len(ds) <= 7 and ds.isascii() and ds.isdigit() and ds[0] != "0"):
        return False
    col = 0
    for ch in ls:
        col = col * 26 + ord(ch) - 64
    return col <= MAX_COLS and int(ds) <= MAX_ROWS

# ----------------------------------------------------------------------------- tokens
# ("R", cabs, col, rabs, row)  ("C", a1, c1, a2, c2)  ("W", a1, r1, a2, r2)
# ("S", quoted, name)  ("T", n1, n2)  ("F", name)  ("N", name)
# ("M", ip, fp|None, ex|None) with ex = (sign, digits), sign = None | False (+) | True (-)
# ("Q", s)  ("B", s)  ("Y", ch)  ("E", k)
ERRS = ["#NULL!", "#DIV/0!", "#VALUE!", "#REF!", "#NAME?", "#NUM!", "#N/A"]

def dl(a):
    return "$" if a else ""

def render(t):
    k = t[0]
    if k == "R":
        _, ca, c, ra, r = t
        return dl(ca) + letters(c) + dl(ra) + str(r + 1)
    if k == "C":
        _, x1, c1, x2, c2 = t
        return dl(x1) + letters(c1) + ":" + dl(x2) + letters(c2)
    if k == "W":
        _, x1, r1, x2, r2 = t
        return dl(x1) + str(r1 + 1) + ":" + dl(x2) + str(r2 + 1)
    if k == "S":
        return ("'" + t[2].replace("'", "''") + "'!") if t[1] else (t[2] + "!")
    if k == "T":
        return t[1] + ":" + t[2] + "!"
    if k == "F":
        return t[1] + "("
    if k in ("N", "B"):
        return t[1]
    if k == "M":
        _, ip, fp, ex = t
        s = ip
        if fp is not None:
            s += "." + fp
        if ex is not None:
            s += "E" + ("" if ex[0] is None else "-" if ex[0] else "+") + ex[1]
        return s
    if k == "Q":
        return '"' + t[1].replace('"', '""') + '"'
    if k == "Y":
        return t[1]
    if k == "E":
        return ERRS[t[1]]
    raise ValueError(k)

def render_all(ts):
    return "".join(render(t) for t in ts)

def mv(ab, x, d):
    return x if ab else max(x + d, 0)

def translate_tok(t, dr, dc):
    k = t[0]
    if k == "R":
        _, ca, c, ra, r = t
        return ("R", ca, mv(ca, c, dc), ra, mv(ra, r, dr))
    if k == "C":
        _, x1, c1, x2, c2 = t
        return ("C", x1, mv(x1, c1, dc), x2, mv(x2, c2, dc))
    if k == "W":
        _, x1, r1, x2, r2 = t
        return ("W", x1, mv(x1, r1, dr), x2, mv(x2, r2, dr))
    return t

def translate(ts, dr, dc):
    return [translate_tok(t, dr, dc) for t in ts]

def comp_ok(ab, x, d, lim):
    return x < lim and (ab or 0 <= x + d < lim)

def tok_in_range(t, dr, dc):
    k = t[0]
    if k == "R":
        return comp_ok(t[1], t[2], dc, MAX_COLS) and comp_ok(t[3], t[4], dr, MAX_ROWS)
    if k == "C":
        return comp_ok(t[1], t[2], dc, MAX_COLS) and comp_ok(t[3], t[4], dc, MAX_COLS)
    if k == "W":
        return comp_ok(t[1], t[2], dr, MAX_ROWS) and comp_ok(t[3], t[4], dr, MAX_ROWS)
    return True

def translate_clip(ts, dr, dc):
    """what the code documents: a reference (cell, whole-column or whole-row range) that would
    leave the sheet stays unchanged as a whole; everything that is not a reference is copied"""
    return [translate_tok(t, dr, dc) if t[0] in "RCW" and tok_in_range(t, dr, dc) else t for t in ts]

def in_range(ts, dr, dc):
    if not (-MAX_ROWS < dr < MAX_ROWS and -MAX_COLS < dc < MAX_COLS):
        return False
    return all(tok_in_range(t, dr, dc) for t in ts)

def hx(s):
    return s.encode("utf-8").hex()

def wire_token(t):
    k = t[0]
    if k in ("R", "C", "W"):
        return "%s%d%d:%d:%d" % (k, t[1], t[3], t[2], t[4])
    if k == "S":
        return "S%d:%s" % (t[1], hx(t[2]))
    if k == "T":
        return "T:%s:%s" % (hx(t[1]), hx(t[2]))
    if k in ("F", "N", "Q", "B"):
        return "%s:%s" % (k, hx(t[1]))
    if k == "M":
        _, ip, fp, ex = t
        return "M:%s:%s:%s" % (hx(ip), "-" if fp is None else hx(fp),
                                "-" if ex is None else ("=" if ex[0] is None else "~" if ex[0] else "+") + hx(ex[1]))
    if k == "Y":
        return "Y:%d" % ord(t[1])
    if k == "E":
        return "E:%d" % t[1]
    raise ValueError(k)

def wire_tokens(ts):
    return ",".join(wire_token(t) for t in ts)

# ----------------------------------------------------------------------------- alphabets
# function names: many end in letters+digits (cell look-alikes); all are followed by '('
FUNCS = ["SUM", "IF", "MAX", "MIN", "AVERAGE", "VLOOKUP", "INDEX", "ROUND", "LOG", "ATAN", "DAYS360",
         "_xlfn.STDEV.S", "IFERROR", "COUNTIFS", "T.DIST.2T", "DEC2BIN", "IMLOG10", "SUMXMY2", "N",
         "LOG10", "ATAN2", "SUMX2MY2", "SUMX2PY2", "HEX2DEC", "BIN2HEX", "F.DIST", "_xlfn.XLOOKUP"]
# defined / table names the grammar accepts (none is a cell name of the sheet)
NAMES = ["rate", "TRUE", "FALSE", "Total", "my_rate", "Sales.Total", "_x", "tax_rate", "AAAAA1", "Data2024",
         "my_A1", "Sales.Q1", "x_B2", "AAAA1", "XFE1", "A1048577", "A01", "ZZZ9", "Q1_", "_Q1", "A1.B2",
         "\\name", "what?", "größe", "税率", "Año", "été1", "税A1", "ÉA1", "Ünï_1", "売上Q1", "Année2024",
         "売上_Q1", "Prévision2025"]
# names Excel refuses (they are cell names): outside the grammar, kept for the correspondence only
NAMES_ILLEGAL = ["tax1", "Tbl1", "a1", "xfd1048576", "Ab12"]
SHEETS = [(0, "Sheet1"), (0, "Data"), (1, "My Sheet"), (1, "Bob's"), (0, "Sheet10"), (1, "2024 data"),
          (0, "Data2024"), (1, "a \"b\" c"), (1, "Q1"), (0, "Q1"), (1, "Q 1"), (1, "My Q1"), (1, "FY24"),
          (0, "FY24"), (0, "P1x_Q2"), (1, "A1 B2"), (0, "Revenue2024"), (1, "Accounts2023 v2"),
          (0, "Quarterly1"), (1, 'a"b'), (1, 'x "y'), (1, '5" pipe'), (1, "Données"), (0, "Données"),
          (1, "シート1"), (0, "シート1"), (1, "Übersicht 1"), (1, "[1]Sheet1"), (1, "it''s"), (1, "€ 5 → 6"),
          (1, "😀"), (0, "Лист1"), (1, "A1"), (0, "A1")]
SHEET3D = [("Sheet1", "Sheet3"), ("Jan", "Dec"), ("Лист1", "Лист3"), ("Data_1", "Data_9")]
SHEET3D_CELL = [("Q1", "Q3"), ("FY24", "FY26"), ("a1", "a3"), ("Q1", "Sheet9")]
STRINGS = ["", "A1", "x", "B2:C3", 'say "hi"', "a,b", "$A$1+1", "LOG10(", "'Q1'!A1", "100%", "it's",
           "A1 \"\" B1", "é", "naïve", "日本", "€5", "Ł1", "ǃƂ", "😀", "[A1", "A1]", "\"", "\"\"", "'", "a b",
           "éA1", "Q1:Q3!A1"]
BRACKS = ["[1]", "[Col]", "[[#This Row],[Col A1]]", "[@[Unit Price]]", "[[#Headers],[A1]:[B2]]", "[#All]",
          "[@A1]", "[[A1]]", "[Größe A1]", "[[#Data],[Q1]]", "[2]"]
TABLES = ["Table1", "Sales_2024", "Tbl_1", "T1x"]
OPS = ["+", "-", "*", "/", "^", "&", "=", "<", ">", "<=", ">=", "<>"]

def nonascii_chars():
    s = set()
    for group in (NAMES, NAMES_ILLEGAL, [n for _, n in SHEETS], STRINGS, BRACKS, TABLES,
                  [x for p in SHEET3D + SHEET3D_CELL for x in p], RAW_EXTRA):
        for w in group:
            s.update(ch for ch in w if ord(ch) >= 128)
    return sorted(s)

RAW_EXTRA = ["é", "Ł", "日", "ǃ", "Ƃ", "😀", "€", "→", "́", " ", "٢", "Ⅷ", "²", "ª", " ", "Я"]

def sym_tokens(s):
    return [("Y", ch) for ch in s]

class FormulaGen:
    """formulas from the grammar; `stream` puts the weight on one feature (None = plain mix):
    "whole" = whole-column / whole-row ranges, "sheet3d" = unquoted 3-D prefix with a cell-like
    first name; outside the grammar (correspondence only): "illegal" = names that are cell
    names, "colon" = texts around a ':' that the grammar reads otherwise (A:B as two names,
    1:3 as two numbers, A1:Sheet3! as a reference before a sheet prefix)"""
    def __init__(self, rng, base=(0, 0), span=12, stream=None):
        self.rng, self.base, self.span, self.stream = rng, base, span, stream
        self.used_stream = False

    def ref(self):
        rng = self.rng
        r = min(max(self.base[0] + rng.randrange(-2, self.span), 0), MAX_ROWS - 1)
        c = min(max(self.base[1] + rng.randrange(-2, self.span), 0), MAX_COLS - 1)
        if rng.random() < 0.05:
            r = rng.choice([0, MAX_ROWS - 1, MAX_ROWS - 2, 99999, 999999, 9, 10])
        if rng.random() < 0.05:
            c = rng.choice([0, MAX_COLS - 1, MAX_COLS - 2, 25, 26, 701, 702])
        ca, ra = rng.choice([(0, 0), (0, 0), (0, 0), (1, 1), (0, 1), (1, 0)])
        return ("R", ca, c, ra, r)

    def whole(self):
        rng = self.rng
        flags = rng.choice([(0, 0), (0, 0), (1, 0), (0, 1), (1, 1)])
        if self.stream == "whole":
            self.used_stream = True
        if rng.random() < 0.5:
            c1 = min(max(self.base[1] + rng.randrange(-2, self.span), 0), MAX_COLS - 1)
            return ("C", flags[0], c1, flags[1], min(c1 + rng.randrange(0, 3), MAX_COLS - 1))
        r1 = min(max(self.base[0] + rng.randrange(-2, self.span), 0), MAX_ROWS - 1)
        return ("W", flags[0], r1, flags[1], min(r1 + rng.randrange(0, 3), MAX_ROWS - 1))

    def sheet_prefix(self):
        rng = self.rng
        if self.stream == "sheet3d" and (not self.used_stream or rng.random() < 0.3):
            self.used_stream = True
            return ("T",) + rng.choice(SHEET3D_CELL)
        if rng.random() < 0.08:
            return ("T",) + rng.choice(SHEET3D + SHEET3D_CELL)
        q, n = rng.choice(SHEETS)
        return ("S", q, n)

    def colon_text(self):
        """outside the grammar: the same characters as a range / prefix, tokenised otherwise"""
        rng = self.rng
        self.used_stream = True
        return rng.choice([
            [("N", "A"), ("Y", ":"), ("N", "B")], [("N", "xfd"), ("Y", ":"), ("N", "A")],
            [("M", "1", None, None), ("Y", ":"), ("M", "3", None, None)],
            [("M", "1", "5", (False, "3")), ("Y", ":"), ("M", "4", None, None)],
            [self.ref(), ("Y", ":"), ("S", 0, "Sheet3"), self.ref()],
            [("E", 6), ("Y", ":"), ("N", "B")], [("N", "A"), ("Y", ":"), ("F", "IF"), self.ref(), ("Y", ")")],
            [("N", "A"), ("Y", ":"), ("M", "3", None, None)], [("N", "ZZZZ"), ("Y", ":"), ("N", "A")],
            [("C", 0, 1, 0, 2), ("Y", ":"), ("N", "C")], [("N", "A"), ("Y", ":"), ("C", 0, 1, 0, 2)],
        ])

    def operand(self, depth):
        rng = self.rng
        x = rng.random()
        if self.stream == "colon" and (not self.used_stream or x < 0.1):
            return self.colon_text()
        if x < 0.36:
            ts = [self.ref()]
            y = rng.random()
            if y < 0.25:
                ts += [("Y", ":"), self.ref()]
            elif y < 0.32 and depth > 0:
                # the range operator with a function call as its right operand: A1:INDEX(B:B,3)
                call = [("F", rng.choice(["INDEX", "OFFSET", "INDIRECT", "IF", "LOG10"]))] + self.expr(depth - 1)
                if rng.random() < 0.6:
                    call += [("Y", ",")] + self.expr(depth - 1)
                ts += [("Y", ":")] + call + [("Y", ")")]
                return ts if rng.random() < 0.7 else [self.sheet_prefix()] + ts
            if rng.random() < 0.25:
                ts = [self.sheet_prefix()] + ts
                if rng.random() < 0.15:
                    ts = [("B", rng.choice(["[1]", "[2]"]))] + ts
            return ts
        if x < 0.40 or (self.stream == "whole" and not self.used_stream and x < 0.6):
            ts = [self.whole()]
            if rng.random() < 0.2:
                ts = [self.sheet_prefix()] + ts
            return ts
        if x < 0.51:
            return [self.number()]
        if x < 0.61:
            return [("Q", rng.choice(STRINGS))]
        if x < 0.69:
            return [self.name()]
        if x < 0.73:
            return [("E", rng.randrange(7))]
        if x < 0.78:
            ts = [("B", rng.choice(BRACKS[1:]))]
            if rng.random() < 0.7:
                ts = [("N", rng.choice(TABLES))] + ts
            return ts
        if x < 0.84 or depth <= 0:
            return [("Y", "(")] + self.expr(depth - 1) + [("Y", ")")]
        args = []
        for i in range(rng.randrange(1, 4)):
            if i:
                args += [("Y", ",")] + ([("Y", " ")] if rng.random() < 0.2 else [])
            args += self.expr(depth - 1)
        return [("F", rng.choice(FUNCS))] + args + [("Y", ")")]

    def name(self):
        if self.stream == "illegal" and (not self.used_stream or self.rng.random() < 0.3):
            self.used_stream = True
            return ("N", self.rng.choice(NAMES_ILLEGAL))
        return ("N", self.rng.choice(NAMES))

    def number(self):
        rng = self.rng
        ip = str(rng.choice([0, 1, 2, 10, 100, 365, 1024, 999999999, 1000000000, 12345678901, 4294967296,
                             rng.randrange(10 ** rng.randrange(1, 10))]))
        fp = str(rng.randrange(1000)) if rng.random() < 0.3 else None
        ex = (rng.choice([None, None, False, True]), str(rng.choice([5, 1, 10, 300, rng.randrange(1, 300)]))) \
            if rng.random() < 0.3 else None
        return ("M", ip, fp, ex)

    def expr(self, depth):
        rng = self.rng
        ts = []
        if rng.random() < 0.1:
            ts += [("Y", "-")]
        ts += self.operand(depth)
        for _ in range(rng.choice([0, 0, 1, 1, 2])):
            op = rng.choice(OPS)
            sp = rng.random() < 0.15
            ts += ([("Y", " ")] if sp else []) + sym_tokens(op) + ([("Y", " ")] if sp else [])
            ts += self.operand(depth)
        if rng.random() < 0.05:
            ts += [("Y", "%")]
        return ts

    def formula(self):
        for _ in range(20):
            self.used_stream = False
            ts = self.expr(2)
            if self.stream is None or self.used_stream:
                return ts
        extra = {"whole": lambda: [("F", "SUM"), self.whole(), ("Y", ")")],
                 "sheet3d": lambda: [self.sheet_prefix(), self.ref()],
                 "illegal": lambda: [self.name()], "colon": self.colon_text}[self.stream]
        self.used_stream = False
        return ts + [("Y", "+")] + extra()

# ----------------------------------------------------------------------------- xlsx writer
def esc_text(s):
    return s.replace("&", "&amp;").replace("<", "&lt;").replace(">", "&gt;")

def esc_attr(s):
    return esc_text(s).replace('"', "&quot;")

CT = ('<?xml version="1.0" encoding="UTF-8" standalone="yes"?>'
      '<Types xmlns="http://schemas.openxmlformats.org/package/2006/content-types">'
      '<Default Extension="rels" ContentType="application/vnd.openxmlformats-package.relationships+xml"/>'
      '<Default Extension="xml" ContentType="application/xml"/>'
      '<Override PartName="/xl/workbook.xml" ContentType="application/vnd.openxmlformats-officedocument.spreadsheetml.sheet.main+xml"/>'
      '<Override PartName="/xl/worksheets/sheet1.xml" ContentType="application/vnd.openxmlformats-officedocument.spreadsheetml.worksheet+xml"/>'
      '</Types>')
RELS = ('<?xml version="1.0" encoding="UTF-8" standalone="yes"?>'
        '<Relationships xmlns="http://schemas.openxmlformats.org/package/2006/relationships">'
        '<Relationship Id="rId1" Type="http://schemas.openxmlformats.org/officeDocument/2006/relationships/officeDocument" Target="xl/workbook.xml"/>'
        '</Relationships>')
WBRELS = ('<?xml version="1.0" encoding="UTF-8" standalone="yes"?>'
          '<Relationships xmlns="http://schemas.openxmlformats.org/package/2006/relationships">'
          '<Relationship Id="rId1" Type="http://schemas.openxmlformats.org/officeDocument/2006/relationships/worksheet" Target="worksheets/sheet1.xml"/>'
          '</Relationships>')

def workbook_xml(name):
    return ('<?xml version="1.0" encoding="UTF-8" standalone="yes"?>'
            '<workbook xmlns="http://schemas.openxmlformats.org/spreadsheetml/2006/main" '
            'xmlns:r="http://schemas.openxmlformats.org/officeDocument/2006/relationships">'
            '<sheets><sheet name="%s" sheetId="1" r:id="rId1"/></sheets></workbook>' % esc_attr(name))

def sheet_xml(cells, rng=None):
    """cells: list of (row, col, kind) in document order (sorted by row, then column);
    kind = ("none",) | ("plain", text) | ("master", si, ref_text, text) | ("member", si, own) |
    ("bad",)"""
    out = ['<?xml version="1.0" encoding="UTF-8" standalone="yes"?>'
           '<worksheet xmlns="http://schemas.openxmlformats.org/spreadsheetml/2006/main">']
    if cells:
        r0 = min(c[0] for c in cells); r1 = max(c[0] for c in cells)
        c0 = min(c[1] for c in cells); c1 = max(c[1] for c in cells)
        out.append('<dimension ref="%s:%s"/>' % (a1(r0, c0), a1(r1, c1)))
    out.append("<sheetData>")
    cur = None
    # a writer may leave out the r attribute of a row / cell that directly follows the previous one
    # (first cell of a row: column A): value cells then count for the position of the formula cells
    implicit = rng is not None and rng.random() < 0.3
    prev_c = -1
    for (r, c, kind) in cells:
        if r != cur:
            if cur is not None:
                out.append("</row>")
            out.append("<row>" if (implicit and cur is not None and r == cur + 1) else '<row r="%d">' % (r + 1))
            cur = r
            prev_c = -1
        f = ""
        k = kind[0]
        if k == "plain":
            f = "<f>%s</f>" % esc_text(kind[1])
        elif k == "master":
            f = '<f t="shared" ref="%s" si="%d">%s</f>' % (esc_attr(kind[2]), kind[1], esc_text(kind[3]))
        elif k == "member":
            if kind[2] == "" and (rng is None or rng.random() < 0.8):
                f = '<f t="shared" si="%d"/>' % kind[1]
            else:
                f = '<f t="shared" si="%d">%s</f>' % (kind[1], esc_text(kind[2]))
        elif k == "bad":
            f = '<f t="shared"/>'
        if implicit and c == prev_c + 1:
            out.append('<c>%s<v>0</v></c>' % f)
        else:
            out.append('<c r="%s">%s<v>0</v></c>' % (a1(r, c), f))
        prev_c = c
    if cur is not None:
        out.append("</row>")
    out.append("</sheetData></worksheet>")
    return "".join(out)

def write_xlsx(path, sheet_name, cells, rng=None):
    with zipfile.ZipFile(path, "w", zipfile.ZIP_STORED) as z:
        z.writestr("[Content_Types].xml", CT)
        z.writestr("_rels/.rels", RELS)
        z.writestr("xl/workbook.xml", workbook_xml(sheet_name))
        z.writestr("xl/_rels/workbook.xml.rels", WBRELS)
        z.writestr("xl/worksheets/sheet1.xml", sheet_xml(cells, rng))

def wire_cells(cells):
    out = []
    for (r, c, kind) in cells:
        k = kind[0]
        if k == "none":
            s = "-"
        elif k == "plain":
            s = "P." + hx(kind[1])
        elif k == "master":
            s = "M.%d.%s.%s" % (kind[1], hx(kind[2]), hx(kind[3]))
        elif k == "member":
            s = "m.%d.%s" % (kind[1], hx(kind[2]))
        else:
            s = "B"
        out.append("%d:%d:%s" % (r, c, s))
    return ";".join(out)

def range_text(vals):
    """canonical text of Range::from_sparse over {(r,c): hexstring} (non-empty values only),
    in the format of harness/src/cmds/open.rs range_string_str"""
    vals = {p: v for p, v in vals.items() if v != ""}
    if not vals:
        return "R[-]"
    r0 = min(p[0] for p in vals); r1 = max(p[0] for p in vals)
    c0 = min(p[1] for p in vals); c1 = max(p[1] for p in vals)
    rows = []
    for r in range(r0, r1 + 1):
        rows.append(",".join(vals.get((r, c), "") for c in range(c0, c1 + 1)))
    return "R[%d,%d,%d,%d|%s]" % (r0, c0, r1, c1, "/".join(rows))

def parse_range_text(s):
    """inverse of range_text: {(r,c): hex} or None when s is not a range"""
    if s == "R[-]":
        return {}
    if not (s and s.startswith("R[") and s.endswith("]") and "|" in s):
        return None
    head, body = s[2:-1].split("|", 1)
    r0, c0, r1, c1 = (int(x) for x in head.split(","))
    out = {}
    for i, row in enumerate(body.split("/")):
        for j, v in enumerate(row.split(",")):
            if v != "":
                out[(r0 + i, c0 + j)] = v
    return out
