#!/usr/bin/env python3
"""xls_3: an UNENCRYPTED workbook carrying every protection-related record except FilePass, in the
order Excel writes the globals ([MS-XLS] 2.1.7.20.3: BOF [WriteProtect] [FilePass] [Template] INTERFACE
WriteAccess [FileSharing] CodePage ... Protect Password Prot4Rev Prot4RevPass ...), plus sheet
protection.  C20 converse: must NOT be reported as password protected, and must read normally."""
import struct
from xls_helper import *
pre = [(0x0086, b''),                                   # WriteProtect
       (0x00E1, struct.pack('<H', 1200)),               # InterfaceHdr
       (0x00C1, b'\0\0'), (0x00E2, b''),                # Mms, InterfaceEnd
       (0x005C, (b'\x04\x00\x00user').ljust(112, b' ')),# WriteAccess
       (0x005B, struct.pack('<HH', 1, 0xCE4B) + xs('user')),   # FileSharing: fReadOnlyRec, write-reservation hash
       (0x0042, struct.pack('<H', 1200)),
       (0x0161, b'\0\0'), (0x013D, struct.pack('<H', 1)),
       (0x0012, b'\x01\0'), (0x0013, struct.pack('<H', 0xCE4B)),        # Protect, Password (structure)
       (0x0019, b'\0\0'), (0x01AF, b'\x01\0'), (0x01BC, struct.pack('<H', 0xCE4B)),  # WinProtect, Prot4Rev, Prot4RevPass
       (0x003D, struct.pack('<HHHHHHHHH', 0, 0, 0x4000, 0x2000, 0x38, 0, 0, 1, 0x258)),
       (0x0022, b'\0\0'), xf(0)]
sh = sheet([(0x0012, b'\x01\0'), (0x00DD, b'\x01\0'), (0x0063, b'\x01\0'), (0x0013, struct.pack('<H', 0xCE4B)),
            number(0, 0, 42.0)])
p = write(OUT + 'xls_3_writeprotect.xls', workbook(pre, [('Sheet1', 0, 0, sh)], []))
print(unhex(vh('xls', p, ['sheets', 'at 0'])))
