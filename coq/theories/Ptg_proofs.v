(* Ptg_proofs — the token decoders of xls / xlsb render every well-formed formula as the A1 text
   of its AST (stack-machine induction).  No known class is left. *)
From Coq Require Import String Ascii.
From Calamine Require Import Prelude Col26 Col26_proofs FtabRef FtabMatch Ptg.
From CalamineGen Require Tables.
Open Scope N_scope.
Set Implicit Arguments.

(* ------------------------------------------------------------------ little-endian fields *)
Fixpoint unle (l : list N) : N := match l with [] => 0 | b :: t => b + 256 * unle t end.

Lemma unle_le : forall k n, n < 256 ^ N.of_nat k -> unle (le k n) = n.
Proof.
  induction k as [|k IH]; intros n H.
  - change (256 ^ N.of_nat 0) with 1 in H. cbn [le unle]. lia.
  - rewrite Nat2N.inj_succ, N.pow_succ_r' in H. cbn [le unle].
    rewrite IH by (apply N.div_lt_upper_bound; lia).
    pose proof (N.div_mod' n 256) as E. lia.
Qed.

Lemma le2_eq : forall n, n < 65536 -> n mod 256 + 256 * (n / 256 mod 256) = n.
Proof.
  intros n H. rewrite <- (@unle_le 2 n) at 3 by exact H.
  cbn [le unle]. rewrite N.mul_0_r, N.add_0_r. reflexivity.
Qed.

Lemma le4_eq : forall n, n < 4294967296 ->
  n mod 256 + 256 * (n / 256 mod 256 + 256 * (n / 256 / 256 mod 256 + 256 * (n / 256 / 256 / 256 mod 256))) = n.
Proof.
  intros n H. rewrite <- (@unle_le 4 n) at 5 by exact H.
  cbn [le unle]. rewrite N.mul_0_r, N.add_0_r. reflexivity.
Qed.

Lemma le8_eq : forall n, n < 18446744073709551616 ->
  n mod 256 + 256 * (n / 256 mod 256 + 256 * (n / 256 / 256 mod 256 + 256 * (n / 256 / 256 / 256 mod 256
    + 256 * (n / 256 / 256 / 256 / 256 mod 256 + 256 * (n / 256 / 256 / 256 / 256 / 256 mod 256
    + 256 * (n / 256 / 256 / 256 / 256 / 256 / 256 mod 256
    + 256 * (n / 256 / 256 / 256 / 256 / 256 / 256 / 256 mod 256))))))) = n.
Proof.
  intros n H. rewrite <- (@unle_le 8 n) at 9 by exact H.
  cbn [le unle]. rewrite N.mul_0_r, N.add_0_r. reflexivity.
Qed.

Lemma le_length : forall k n, length (le k n) = k.
Proof. induction k as [|k IH]; intros n; cbn [le length]; [reflexivity|]. rewrite IH. reflexivity. Qed.

(* ------------------------------------------------------------------ slices *)
Lemma drop_app : forall (a k : list N), drop (length a) (a ++ k) = Ok k.
Proof. induction a as [|x a IH]; intros k; cbn [length drop app]; [reflexivity|apply IH]. Qed.

Lemma take_app : forall (a k : list N), take (length a) (a ++ k) = Ok a.
Proof.
  induction a as [|x a IH]; intros k; cbn [length take app]; [reflexivity|].
  rewrite IH. reflexivity.
Qed.

Lemma take_all : forall (a : list N), take (length a) a = Ok a.
Proof. intros a. rewrite <- (app_nil_r a) at 2. apply take_app. Qed.

Lemma drop_err_app : forall (a k : list N), drop_err (length a) (a ++ k) = Ok k.
Proof.
  intros a k. unfold drop_err. rewrite app_length.
  destruct (length a + length k <? length a)%nat eqn:E; [apply Nat.ltb_lt in E; lia|]. apply drop_app.
Qed.

Lemma drop_err_cons2 : forall x y (a k : list N), drop_err (2 + length a) (x :: y :: a ++ k) = Ok k.
Proof. intros x y a k. apply (drop_err_app (x :: y :: a) k). Qed.

Lemma firstn_app_len : forall (A : Type) (a b : list A), firstn (length a) (a ++ b) = a.
Proof. intros. rewrite firstn_app, Nat.sub_diag, firstn_all. cbn. apply app_nil_r. Qed.
Lemma skipn_app_len : forall (A : Type) (a b : list A), skipn (length a) (a ++ b) = b.
Proof. intros. rewrite skipn_app, Nat.sub_diag, skipn_all. reflexivity. Qed.

Lemma insert_at_app : forall b r ch, insert_at (length b) ch (b ++ r) = Ok (b ++ ch :: r).
Proof.
  intros b r ch. unfold insert_at. rewrite app_length.
  destruct (length b <=? length b + length r)%nat eqn:E; [|apply Nat.leb_gt in E; lia].
  rewrite firstn_app_len, skipn_app_len. reflexivity.
Qed.

Lemma split_off_app : forall b r, split_off (length b) (b ++ r) = Ok (b, r).
Proof.
  intros b r. unfold split_off. rewrite app_length.
  destruct (length b <=? length b + length r)%nat eqn:E; [|apply Nat.leb_gt in E; lia].
  rewrite firstn_app_len, skipn_app_len. reflexivity.
Qed.

(* ------------------------------------------------------------------ nthN *)
Lemma nthN_some : forall (A : Type) (l : list A) i, i < N.of_nat (length l) -> exists x, nthN l i = Some x.
Proof.
  induction l as [|x l IH]; intros i H; [cbn in H; lia|].
  cbn [nthN]. destruct (i =? 0) eqn:E; [eexists; reflexivity|].
  apply N.eqb_neq in E. apply IH. cbn [length] in H. lia.
Qed.

(* ------------------------------------------------------------------ argument re-joining *)
(* offsets at which successive renders start *)
Fixpoint offsets (base : nat) (rs : list (list N)) : list nat :=
  match rs with [] => [] | r :: t => base :: offsets (base + length r) t end.

Lemma offsets_length : forall rs base, length (offsets base rs) = length rs.
Proof. induction rs as [|r rs IH]; intros base; cbn [offsets length]; [reflexivity|]. rewrite IH. reflexivity. Qed.

Lemma offsets_ge : forall rs base o, In o (offsets base rs) -> (base <= o)%nat.
Proof.
  induction rs as [|r rs IH]; intros base o H; cbn [offsets] in H; [contradiction|].
  destruct H as [H|H]; [lia|]. apply IH in H. lia.
Qed.

Lemma join_trailing : forall rs, rs <> [] ->
  flat_map (fun r => r ++ [ch_comma]) rs = join_comma rs ++ [ch_comma].
Proof.
  induction rs as [|r rs IH]; intros Hne; [congruence|].
  destruct rs as [|r2 rs].
  - cbn [flat_map join_comma]. rewrite app_nil_r. reflexivity.
  - change (flat_map (fun r0 => r0 ++ [ch_comma]) (r :: r2 :: rs))
      with ((r ++ [ch_comma]) ++ flat_map (fun r0 => r0 ++ [ch_comma]) (r2 :: rs)).
    rewrite IH by congruence.
    change (join_comma (r :: r2 :: rs)) with (r ++ [ch_comma] ++ join_comma (r2 :: rs)).
    rewrite <- !app_assoc. reflexivity.
Qed.

Lemma windows_join_cons2 : forall fargs a b t acc,
  windows_join fargs (a :: b :: t) acc =
  if ((a <=? b) && (b <=? length fargs))%nat
  then windows_join fargs (b :: t) (acc ++ firstn (b - a) (skipn a fargs) ++ [ch_comma])
  else Panic.
Proof. reflexivity. Qed.

Lemma windows_join_correct : forall rs pre base acc, rs <> [] ->
  windows_join (pre ++ concat rs)
    (map (fun o => (o - base)%nat) (offsets (base + length pre) rs) ++ [length (pre ++ concat rs)]) acc
  = Ok (acc ++ flat_map (fun r => r ++ [ch_comma]) rs).
Proof.
  induction rs as [|r rs IH]; intros pre base acc Hne; [congruence|].
  destruct rs as [|r2 rs].
  - cbn [offsets map app concat flat_map windows_join]. rewrite !app_nil_r.
    replace (base + length pre - base)%nat with (length pre) by lia.
    assert (E : ((length pre <=? length (pre ++ r)) && (length (pre ++ r) <=? length (pre ++ r)))%nat = true).
    { rewrite app_length. apply andb_true_intro. split; apply Nat.leb_le; lia. }
    rewrite E. rewrite app_length.
    replace (length pre + length r - length pre)%nat with (length r) by lia.
    rewrite skipn_app_len, firstn_all. reflexivity.
  - cbn [offsets map app]. rewrite windows_join_cons2.
    replace (base + length pre - base)%nat with (length pre) by lia.
    replace (base + length pre + length r - base)%nat with (length pre + length r)%nat by lia.
    assert (E : ((length pre <=? length pre + length r) &&
                 (length pre + length r <=? length (pre ++ concat (r :: r2 :: rs))))%nat = true).
    { cbn [concat]. rewrite !app_length. apply andb_true_intro. split; apply Nat.leb_le; lia. }
    rewrite E.
    replace (length pre + length r - length pre)%nat with (length r) by lia.
    rewrite skipn_app_len. cbn [concat]. rewrite firstn_app_len.
    specialize (IH (pre ++ r) base (acc ++ r ++ [ch_comma])).
    rewrite app_length, Nat.add_assoc in IH. cbn [concat] in IH.
    rewrite <- !app_assoc in IH. cbn [offsets map app] in IH.
    replace (base + length pre + length r - base)%nat with (length pre + length r)%nat in IH by lia.
    rewrite IH by congruence.
    cbn [flat_map]. rewrite <- !app_assoc. reflexivity.
Qed.

Lemma existsb_offsets : forall rs base, existsb (fun o => (o <? base)%nat) (offsets base rs) = false.
Proof.
  intros rs base. destruct (existsb _ _) eqn:E; [|reflexivity].
  apply existsb_exists in E. destruct E as (o & Hin & Hlt).
  apply offsets_ge in Hin. apply Nat.ltb_lt in Hlt. lia.
Qed.

Lemma lit_parens : lit "()" = [ch_lpar; ch_rpar].
Proof. reflexivity. Qed.

Lemma pop_comma_snoc : forall x, pop_comma (x ++ [ch_comma]) = x.
Proof. intros x. unfold pop_comma. rewrite last_last, N.eqb_refl. apply removelast_last. Qed.

Lemma pop_comma_lpar : forall x, pop_comma (x ++ [ch_lpar]) = x ++ [ch_lpar].
Proof. intros x. unfold pop_comma. rewrite last_last. reflexivity. Qed.

Lemma func_apply_correct : forall strict iftab nm rs st buf,
  nthN Tables.FTAB iftab = Some nm -> (iftab =? 255) = false ->
  func_apply strict iftab (length rs) (rev (offsets (length buf) rs) ++ st, buf ++ concat rs)
  = Ok (length buf :: st, buf ++ nm ++ [ch_lpar] ++ join_comma rs ++ [ch_rpar]).
Proof.
  intros strict iftab nm rs st buf Hnm H255. unfold func_apply.
  assert (Hl : (length (rev (offsets (length buf) rs) ++ st) <? length rs)%nat = false).
  { apply Nat.ltb_ge. rewrite app_length, rev_length, offsets_length. lia. }
  rewrite Hl. destruct rs as [|r rs].
  - cbn [length concat offsets rev app join_comma]. rewrite app_nil_r, Hnm, lit_parens. reflexivity.
  - cbn [length].
    replace (S (length rs)) with (length (rev (offsets (length buf) (r :: rs))))
      by (rewrite rev_length, offsets_length; reflexivity).
    rewrite firstn_app_len, skipn_app_len, rev_involutive.
    pose proof (existsb_offsets (r :: rs) (length buf)) as Hex.
    pose proof (@windows_join_correct (r :: rs) [] (length buf) (buf ++ nm ++ [ch_lpar])) as HW.
    cbn [app length] in HW. rewrite Nat.add_0_r in HW.
    remember (offsets (length buf) (r :: rs)) as offs eqn:Eo.
    destruct offs as [|start offs']; [cbn [offsets] in Eo; discriminate|].
    assert (start = length buf) by (cbn [offsets] in Eo; congruence). subst start.
    rewrite Hex. rewrite split_off_app. cbn [obind fst snd]. rewrite H255, Hnm. cbn [obind].
    rewrite HW by congruence. cbn [obind].
    rewrite join_trailing by congruence.
    rewrite !app_assoc. rewrite pop_comma_snoc. rewrite <- !app_assoc. reflexivity.
Qed.

(* tab 0x00FF: the first parameter is the function name *)
Lemma func_apply_user : forall strict r0 rs st buf,
  func_apply strict 255 (S (length rs)) (rev (offsets (length buf) (r0 :: rs)) ++ st, buf ++ concat (r0 :: rs))
  = Ok (length buf :: st, buf ++ r0 ++ [ch_lpar] ++ join_comma rs ++ [ch_rpar]).
Proof.
  intros strict r0 rs st buf. unfold func_apply.
  assert (Hl : (length (rev (offsets (length buf) (r0 :: rs)) ++ st) <? S (length rs))%nat = false).
  { apply Nat.ltb_ge. rewrite app_length, rev_length, offsets_length. cbn [length]. lia. }
  rewrite Hl.
  replace (S (length rs)) with (length (rev (offsets (length buf) (r0 :: rs))))
    by (rewrite rev_length, offsets_length; reflexivity).
  rewrite firstn_app_len, skipn_app_len, rev_involutive.
  pose proof (existsb_offsets (r0 :: rs) (length buf)) as Hex.
  cbn [offsets] in *. rewrite Hex. rewrite split_off_app. cbn [obind fst snd].
  change (255 =? 255) with true. cbn iota.
  cbn [map app concat]. rewrite Nat.sub_diag.
  destruct rs as [|r1 rs'].
  - (* no argument besides the name *)
    cbn [offsets map app concat]. rewrite app_nil_r.
    unfold slice_w. cbn [Nat.leb andb]. rewrite Nat.leb_refl. cbn [obind skipn].
    rewrite Nat.sub_0_r, firstn_all. cbn [windows_join obind].
    rewrite !app_assoc. rewrite pop_comma_lpar. rewrite <- !app_assoc. reflexivity.
  - pose proof (@windows_join_correct (r1 :: rs') r0 (length buf) (buf ++ r0 ++ [ch_lpar])) as HW.
    remember (r1 :: rs') as rs eqn:Ers.
    destruct (map (fun o => (o - length buf)%nat) (offsets (length buf + length r0) rs)) as [|w1 tl] eqn:Em.
    { subst rs. cbn [offsets map] in Em. discriminate. }
    assert (Hw1 : w1 = length r0).
    { subst rs. cbn [offsets map] in Em. inversion Em. lia. }
    cbn [app]. unfold slice_w. subst w1. cbn [Nat.leb].
    assert (Hle : (length r0 <=? length (r0 ++ concat rs))%nat = true)
      by (apply Nat.leb_le; rewrite app_length; lia).
    rewrite Hle. cbn [andb obind skipn]. rewrite Nat.sub_0_r, firstn_app_len.
    change (length r0 :: tl ++ [length (r0 ++ concat rs)]) with ((length r0 :: tl) ++ [length (r0 ++ concat rs)]).
    rewrite HW by (subst rs; congruence). cbn [obind].
    rewrite join_trailing by (subst rs; congruence).
    rewrite !app_assoc. rewrite pop_comma_snoc. rewrite <- !app_assoc. reflexivity.
Qed.

(* ------------------------------------------------------------------ strings *)
Lemma scalar_bounds : forall c, scalar c = true -> c < 1114112 /\ (c < 55296 \/ 57343 < c).
Proof. intros c H. unfold scalar in H. lia. Qed.

Lemma decode_units_utf16 : forall s, forallb scalar s = true -> decode_units (utf16_units s) = s.
Proof.
  induction s as [|c s IH]; intros H; [reflexivity|].
  cbn [forallb] in H. apply andb_prop in H. destruct H as [Hc Hs].
  destruct (scalar_bounds _ Hc) as [Hlt Hns]. specialize (IH Hs).
  change (utf16_units (c :: s)) with
    ((if c <? 65536 then [c] else [55296 + (c - 65536) / 1024; 56320 + (c - 65536) mod 1024]) ++ utf16_units s).
  destruct (c <? 65536) eqn:E.
  - apply N.ltb_lt in E. cbn [app decode_units].
    assert (H1 : is_hi_surr c = false) by (unfold is_hi_surr; lia).
    assert (H2 : is_lo_surr c = false) by (unfold is_lo_surr; lia).
    rewrite H1, H2, IH. reflexivity.
  - apply N.ltb_ge in E. cbn [app decode_units].
    assert (H1 : is_hi_surr (55296 + (c - 65536) / 1024) = true) by (unfold is_hi_surr; lia).
    assert (H2 : is_lo_surr (56320 + (c - 65536) mod 1024) = true) by (unfold is_lo_surr; lia).
    rewrite H1, H2, IH. f_equal. lia.
Qed.

Lemma utf16_units_lt : forall s, forallb scalar s = true ->
  forallb (fun c => c <? 65536) (utf16_units s) = true.
Proof.
  induction s as [|c s IH]; intros H; [reflexivity|].
  cbn [forallb] in H. apply andb_prop in H. destruct H as [Hc Hs].
  destruct (scalar_bounds _ Hc) as [Hlt Hns]. specialize (IH Hs).
  change (utf16_units (c :: s)) with
    ((if c <? 65536 then [c] else [55296 + (c - 65536) / 1024; 56320 + (c - 65536) mod 1024]) ++ utf16_units s).
  rewrite forallb_app, IH. destruct (c <? 65536) eqn:E; cbn [forallb].
  - rewrite E. reflexivity.
  - apply N.ltb_ge in E.
    assert (H1 : (55296 + (c - 65536) / 1024 <? 65536) = true) by lia.
    assert (H2 : (56320 + (c - 65536) mod 1024 <? 65536) = true) by lia.
    rewrite H1, H2. reflexivity.
Qed.

Lemma decode_units_narrow : forall s, forallb (fun c => c <? 256) s = true -> decode_units s = s.
Proof.
  induction s as [|c s IH]; intros H; [reflexivity|].
  cbn [forallb] in H. apply andb_prop in H. destruct H as [Hc Hs]. apply N.ltb_lt in Hc.
  cbn [decode_units].
  assert (H1 : is_hi_surr c = false) by (unfold is_hi_surr; lia).
  assert (H2 : is_lo_surr c = false) by (unfold is_lo_surr; lia).
  rewrite H1, H2, IH by exact Hs. reflexivity.
Qed.

Lemma units_of_widen : forall s, units_of (widen s) = (s, false).
Proof.
  induction s as [|c s IH]; [reflexivity|].
  cbn [widen units_of]. rewrite IH. rewrite N.mul_0_r, N.add_0_r. reflexivity.
Qed.

Lemma units_of_le2 : forall s, forallb (fun c => c <? 65536) s = true ->
  units_of (flat_map (le 2) s) = (s, false).
Proof.
  induction s as [|c s IH]; intros H; [reflexivity|].
  cbn [forallb] in H. apply andb_prop in H. destruct H as [Hc Hs]. apply N.ltb_lt in Hc.
  change (flat_map (le 2) (c :: s)) with (le 2 c ++ flat_map (le 2) s).
  specialize (IH Hs). remember (flat_map (le 2) s) as tl eqn:Et.
  cbn [le app units_of]. rewrite IH. rewrite le2_eq by exact Hc. reflexivity.
Qed.

Lemma decode_widen : forall s, forallb (fun c => c <? 256) s = true -> decode_utf16le (widen s) = s.
Proof.
  intros s H. unfold decode_utf16le. rewrite units_of_widen.
  rewrite decode_units_narrow by exact H. apply app_nil_r.
Qed.

(* UTF-16LE bytes of the code units of a string of scalar values decode to that string *)
Lemma decode_le2_units : forall s, forallb scalar s = true ->
  decode_utf16le (flat_map (le 2) (utf16_units s)) = s.
Proof.
  intros s H. unfold decode_utf16le. rewrite units_of_le2 by (apply utf16_units_lt; exact H).
  rewrite decode_units_utf16 by exact H. apply app_nil_r.
Qed.

Lemma quote_str_replace : forall s, quote_str s = [ch_quote] ++ replace_quote s ++ [ch_quote].
Proof. reflexivity. Qed.

Lemma flat_le2_length : forall s, length (flat_map (le 2) s) = (2 * length s)%nat.
Proof.
  induction s as [|c s IH]; [reflexivity|].
  change (flat_map (le 2) (c :: s)) with (le 2 c ++ flat_map (le 2) s).
  rewrite app_length, IH, le_length. cbn [length]. lia.
Qed.

(* ------------------------------------------------------------------ sheet names *)
Lemma word_char_plain : forall c, word_char c = plain_char c.
Proof.
  intros c. unfold word_char, word_start, plain_char.
  destruct (is_ascii_alpha c), (is_ascii_digit c), (c =? 95), (c =? 46), (128 <=? c); reflexivity.
Qed.

Lemma forallb_ext' : forall (A : Type) (f g : A -> bool), (forall x, f x = g x) ->
  forall l, forallb f l = forallb g l.
Proof. intros A f g H l. induction l as [|x l IH]; [reflexivity|]. cbn [forallb]. rewrite H, IH. reflexivity. Qed.

(* the code's quoting rule is the grammar's *)
Lemma quote_sheet_name_spec : forall s, quote_sheet_name s = sheet_text s.
Proof.
  intros [|c t]; [reflexivity|].
  unfold quote_sheet_name, sheet_text, bare_sheet. cbn [orb forallb].
  rewrite (forallb_ext' word_char plain_char word_char_plain t).
  remember (forallb plain_char t) as P eqn:EP. clear EP.
  unfold plain_char, word_start, is_ascii_alpha, is_ascii_digit.
  destruct (c =? 46) eqn:E46; [apply N.eqb_eq in E46; subst c; destruct P; reflexivity|].
  destruct (c =? 95) eqn:E95; [apply N.eqb_eq in E95; subst c; destruct P; reflexivity|].
  apply N.eqb_neq in E46, E95.
  destruct P;
    destruct (48 <=? c) eqn:A, (c <=? 57) eqn:B, (65 <=? c) eqn:C, (c <=? 90) eqn:D,
             (97 <=? c) eqn:F, (c <=? 122) eqn:G, (128 <=? c) eqn:H; cbn; try reflexivity; exfalso; lia.
Qed.

(* ------------------------------------------------------------------ small case analyses *)
(* ---------- spans of sheets ---------- *)
Lemma str_eqb_refl : forall a, str_eqb a a = true.
Proof. induction a as [|x a IH]; [reflexivity|]. cbn [str_eqb]. rewrite N.eqb_refl, IH. reflexivity. Qed.

Lemma str_eqb_length : forall a b, str_eqb a b = true -> length a = length b.
Proof.
  induction a as [|x a IH]; intros [|y b] H; try discriminate; [reflexivity|].
  cbn [str_eqb] in H. apply andb_prop in H. destruct H as [_ H]. cbn [length]. f_equal. apply IH. exact H.
Qed.

Lemma double_apos_length : forall s, (length s <= length (double_apos s))%nat.
Proof.
  induction s as [|c s IH]; [reflexivity|]. unfold double_apos in *. cbn [flat_map].
  rewrite app_length. destruct (c =? ch_apos); cbn [length]; lia.
Qed.

Lemma quote_bare : forall s, str_eqb (quote_sheet_name s) s = bare_sheet s.
Proof.
  intros s. rewrite quote_sheet_name_spec. unfold sheet_text. destruct (bare_sheet s).
  - apply str_eqb_refl.
  - destruct (str_eqb ([ch_apos] ++ double_apos s ++ [ch_apos]) s) eqn:E; [|reflexivity].
    apply str_eqb_length in E. rewrite !app_length in E. cbn [length] in E.
    pose proof (double_apos_length s). lia.
Qed.

Lemma quote_sheet_span_spec : forall a b, quote_sheet_span a b = span_text a b.
Proof. intros a b. unfold quote_sheet_span, span_text. rewrite !quote_bare. reflexivity. Qed.

Lemma sheet_name_xls_spec : forall env ix, sheet_name_xls env ix = spec_sheet_xls env ix.
Proof.
  intros env ix. unfold sheet_name_xls, spec_sheet_xls.
  destruct (nthN (xe_xtis env) ix) as [[[sup first] last]|]; [|reflexivity].
  destruct (sheet_at (xe_sheets env) first) as [a|]; [|reflexivity].
  destruct (sheet_at (xe_sheets env) last) as [b|]; [|apply quote_sheet_name_spec].
  destruct (first =? last); cbn [negb]; [apply quote_sheet_name_spec|apply quote_sheet_span_spec].
Qed.

Lemma spec_err_berr : forall code t, spec_err code = Some t -> berr_text code = Ok t.
Proof.
  intros code t. unfold spec_err, berr_text.
  destruct code as [|p]; [intros H; inversion H; reflexivity|].
  do 6 (try destruct p as [p|p|]); try discriminate; intros H; inversion H; reflexivity.
Qed.

Lemma binop_cases : forall op, is_binop op = true ->
  op = 3 \/ op = 4 \/ op = 5 \/ op = 6 \/ op = 7 \/ op = 8 \/ op = 9 \/ op = 10 \/ op = 11 \/
  op = 12 \/ op = 13 \/ op = 14 \/ op = 15 \/ op = 16 \/ op = 17.
Proof.
  intros op H. unfold is_binop in H. apply andb_prop in H. destruct H as [H1 H2].
  apply N.leb_le in H1, H2.
  destruct op as [|p]; [lia|].
  do 5 (try destruct p as [p|p|]); try (exfalso; lia); tauto.
Qed.

Lemma binop_text_spec : forall op, is_binop op = true -> binop_text op = spec_binop op.
Proof.
  intros op H. apply binop_cases in H.
  repeat (destruct H as [H|H]; [subst; reflexivity|]). subst. reflexivity.
Qed.

Lemma binop_expected : forall op, is_binop op = true -> xls_expected op = 0%nat /\ xlsb_expected op = 0%nat.
Proof.
  intros op H. apply binop_cases in H.
  repeat (destruct H as [H|H]; [subst; split; reflexivity|]). subst. split; reflexivity.
Qed.

(* side condition of the decoders' operand pre-check on an encoded token *)
Ltac len_tac :=
  repeat match goal with k : cls |- _ => destruct k end;
  repeat match goal with o : unop |- _ => destruct o end;
  repeat match goal with b : bool |- _ => destruct b end;
  try match goal with H : is_binop ?op = true |- _ =>
        destruct (binop_expected op H) as [?E1 ?E2]; rewrite ?E1, ?E2 end;
  unfold enc_str_xls, enc_str_xlsb;
  cbn [cls_ptg unop_ptg xls_expected xlsb_expected le app length];
  rewrite ?app_length, ?le_length; cbn [length]; lia.

Lemma wf_cref_bounds : forall lim a, wf_cref lim a = true ->
  cr_row a < lim /\ cr_col a < 16384 /\ cfield a < 65536.
Proof.
  intros lim a H. unfold wf_cref in H. apply andb_prop in H. destruct H as [Hr Hc].
  apply N.ltb_lt in Hr, Hc. repeat split; try assumption.
  unfold cfield, col_field. destruct (cr_col_rel a), (cr_row_rel a); lia.
Qed.

(* ================================================================== xls ============ *)
Section XlsTokens.
Variable show_f64 : N -> list N.
Variable env : xls_env.

Lemma xls_run_S : forall f ptg rest s, (xls_expected ptg <= length rest)%nat ->
  xls_run show_f64 env (S f) (ptg :: rest) s =
  do rs <- xls_step show_f64 env ptg rest s; xls_run show_f64 env f (fst rs) (snd rs).
Proof.
  intros f ptg rest s H. cbn [xls_run].
  destruct (length rest <? xls_expected ptg)%nat eqn:E; [apply Nat.ltb_lt in E; lia|reflexivity].
Qed.

Lemma xls_step_binop : forall op rest s, is_binop op = true ->
  xls_step show_f64 env op rest s = arm_binop op rest s.
Proof.
  intros op rest s H. apply binop_cases in H.
  repeat (destruct H as [H|H]; [subst; reflexivity|]). subst. reflexivity.
Qed.

Ltac pcr := rewrite push_cell_ref_spec by (try assumption; change (2 ^ 32) with 4294967296; lia).

Lemma xls_step_ref : forall k a rest st buf,
  wf_cref 65536 a = true ->
  xls_step show_f64 env (cls_ptg 0x24 0x44 0x64 k) (le 2 (cr_row a) ++ le 2 (cfield a) ++ rest) (st, buf)
  = Ok (rest, (length buf :: st, buf ++ render_cref a)).
Proof.
  intros k a rest st buf H. destruct (wf_cref_bounds _ _ H) as (Hr & Hc & Hf).
  destruct k; cbn [cls_ptg]; unfold xls_step; cbn [fst snd le app u16_at skipn obind];
    rewrite !le2_eq by assumption; unfold cfield; pcr;
    cbn [obind drop]; reflexivity.
Qed.

Lemma xls_step_area : forall k a b rest st buf,
  wf_cref 65536 a = true -> wf_cref 65536 b = true ->
  xls_step show_f64 env (cls_ptg 0x25 0x45 0x65 k)
    (le 2 (cr_row a) ++ le 2 (cr_row b) ++ le 2 (cfield a) ++ le 2 (cfield b) ++ rest) (st, buf)
  = Ok (rest, (length buf :: st, buf ++ render_cref a ++ [ch_colon] ++ render_cref b)).
Proof.
  intros k a b rest st buf Ha Hb.
  destruct (wf_cref_bounds _ _ Ha) as (Hr & Hc & Hf). destruct (wf_cref_bounds _ _ Hb) as (Hr' & Hc' & Hf').
  destruct k; cbn [cls_ptg]; unfold xls_step; cbn [fst snd le app u16_at skipn obind];
    rewrite !le2_eq by assumption; unfold cfield; pcr; cbn [obind]; pcr;
    cbn [obind drop]; rewrite <- !app_assoc; reflexivity.
Qed.

Lemma xls_step_ref3d : forall k ix a rest st buf,
  ix < 65536 -> wf_cref 65536 a = true ->
  xls_step show_f64 env (cls_ptg 0x3A 0x5A 0x7A k)
    (le 2 ix ++ le 2 (cr_row a) ++ le 2 (cfield a) ++ rest) (st, buf)
  = Ok (rest, (length buf :: st, buf ++ spec_sheet_xls env ix ++ [ch_bang] ++ render_cref a)).
Proof.
  intros k ix a rest st buf Hix H. destruct (wf_cref_bounds _ _ H) as (Hr & Hc & Hf).
  destruct k; cbn [cls_ptg]; unfold xls_step; cbn [fst snd le app u16_at skipn obind];
    rewrite !le2_eq by assumption; unfold cfield; pcr;
    cbn [obind drop]; rewrite sheet_name_xls_spec, <- !app_assoc; reflexivity.
Qed.

Lemma xls_step_area3d : forall k ix a b rest st buf,
  ix < 65536 -> wf_cref 65536 a = true -> wf_cref 65536 b = true ->
  xls_step show_f64 env (cls_ptg 0x3B 0x5B 0x7B k)
    (le 2 ix ++ le 2 (cr_row a) ++ le 2 (cr_row b) ++ le 2 (cfield a) ++ le 2 (cfield b) ++ rest) (st, buf)
  = Ok (rest, (length buf :: st,
               buf ++ spec_sheet_xls env ix ++ [ch_bang] ++ render_cref a ++ [ch_colon] ++ render_cref b)).
Proof.
  intros k ix a b rest st buf Hix Ha Hb.
  destruct (wf_cref_bounds _ _ Ha) as (Hr & Hc & Hf). destruct (wf_cref_bounds _ _ Hb) as (Hr' & Hc' & Hf').
  destruct k; cbn [cls_ptg]; unfold xls_step; cbn [fst snd le app u16_at skipn obind];
    rewrite !le2_eq by assumption; unfold cfield; pcr; cbn [obind]; pcr;
    cbn [obind drop]; rewrite sheet_name_xls_spec, <- !app_assoc; reflexivity.
Qed.

Lemma xls_step_name : forall k idx rest st buf,
  1 <= idx -> idx <= N.of_nat (length (xe_names env)) -> idx < 4294967296 ->
  xls_step show_f64 env (cls_ptg 0x23 0x43 0x63 k) (le 4 idx ++ rest) (st, buf)
  = Ok (rest, (length buf :: st, buf ++ spec_name (xe_names env) idx)).
Proof.
  intros k idx rest st buf H1 H2 H3.
  destruct (@nthN_some _ (xe_names env) (idx - 1)) as [nm Hnm]; [lia|].
  assert (E0 : (idx =? 0) = false) by (apply N.eqb_neq; lia).
  destruct k; cbn [cls_ptg]; unfold xls_step; cbn [fst snd le app u32_at skipn obind];
    rewrite le4_eq by assumption; rewrite E0; cbn [obind drop];
    unfold spec_name; rewrite Hnm; reflexivity.
Qed.

Lemma xls_step_int : forall n rest st buf, n < 65536 ->
  xls_step show_f64 env 0x1E (le 2 n ++ rest) (st, buf) = Ok (rest, (length buf :: st, buf ++ dec n)).
Proof.
  intros n rest st buf H. unfold xls_step. cbn [fst snd le app u16_at skipn obind].
  rewrite le2_eq by assumption. cbn [obind drop]. reflexivity.
Qed.

Lemma xls_step_num : forall bits rest st buf, bits < 18446744073709551616 ->
  xls_step show_f64 env 0x1F (le 8 bits ++ rest) (st, buf)
  = Ok (rest, (length buf :: st, buf ++ show_f64 bits)).
Proof.
  intros n rest st buf H. unfold xls_step. cbn [fst snd le app u64_at skipn obind].
  rewrite le8_eq by assumption. cbn [obind drop]. reflexivity.
Qed.

Lemma xls_step_str : forall w s rest st buf,
  wf_str_xls w s = true ->
  xls_step show_f64 env 0x17 (enc_str_xls w s ++ rest) (st, buf)
  = Ok (rest, (length buf :: st, buf ++ quote_str s)).
Proof.
  intros w s rest st buf Hwf. unfold wf_str_xls in Hwf. rewrite quote_str_replace.
  destruct w; apply andb_prop in Hwf; destruct Hwf as [Hlen Hch]; apply N.ltb_lt in Hlen;
    unfold xls_step, xls_ptgstr, enc_str_xls; cbn [app fst snd byte_at skipn obind];
    rewrite Nat2N.id.
  - (* 16-bit code units *)
    change (N.testbit 1 0) with true. cbn iota.
    set (u := utf16_units s). set (fl := flat_map (le 2) u).
    assert (Hfl : length fl = (2 * length u)%nat) by apply flat_le2_length.
    rewrite <- Hfl. rewrite firstn_app_len.
    replace (length fl / 2)%nat with (length u)
      by (rewrite Hfl, Nat.mul_comm, Nat.div_mul by lia; reflexivity).
    rewrite Nat.min_id, <- Hfl, firstn_all.
    rewrite drop_err_cons2. cbn [obind].
    unfold fl, u. rewrite decode_le2_units by exact Hch. reflexivity.
  - (* 8-bit characters *)
    change (N.testbit 0 0) with false. cbn iota.
    rewrite firstn_app_len, Nat.min_id, firstn_all.
    rewrite drop_err_cons2. cbn [obind].
    rewrite decode_widen by exact Hch. reflexivity.
Qed.

Lemma xls_step_bool : forall (b : bool) rest st buf,
  xls_step show_f64 env 0x1D ((if b then 1 else 0) :: rest) (st, buf)
  = Ok (rest, (length buf :: st, buf ++ (if b then lit "TRUE" else lit "FALSE"))).
Proof. intros b rest st buf. destruct b; reflexivity. Qed.

Lemma xls_step_err : forall code t rest st buf, spec_err code = Some t ->
  xls_step show_f64 env 0x1C (code :: rest) (st, buf) = Ok (rest, (length buf :: st, buf ++ t)).
Proof.
  intros code t rest st buf H. unfold xls_step. cbn [fst snd byte_at skipn obind drop].
  rewrite (@spec_err_berr _ _ H). reflexivity.
Qed.

Lemma xls_step_attrskip : forall etpg w rest s, skip_etpg etpg = true ->
  xls_step show_f64 env 0x19 (etpg :: le 2 w ++ rest) s = Ok (rest, s).
Proof.
  intros etpg w rest s H. unfold skip_etpg in H.
  repeat (apply orb_prop in H; destruct H as [H|H]); apply N.eqb_eq in H; subst; reflexivity.
Qed.

Lemma xls_step_attrchoose : forall offs rest s,
  1 <= N.of_nat (length offs) -> N.of_nat (length offs) <= 65536 ->
  xls_step show_f64 env 0x19 (0x04 :: le 2 (N.of_nat (length offs) - 1) ++ flat_map (le 2) offs ++ rest) s = Ok (rest, s).
Proof.
  intros offs rest s H1 H2.
  assert (Hfl : length (flat_map (le 2) offs) = (2 * length offs)%nat) by apply flat_le2_length.
  remember (flat_map (le 2) offs) as fl eqn:Efl. clear Efl.
  unfold xls_step, xls_attr.
  cbn [byte_at skipn obind drop le app length Nat.ltb Nat.leb u16_at].
  rewrite le2_eq by lia. cbn [obind].
  replace (2 + 2 * (N.to_nat (N.of_nat (length offs) - 1) + 1))%nat with (2 + length fl)%nat by lia.
  rewrite drop_err_cons2. reflexivity.
Qed.

Lemma xls_step_funcvar : forall k iftab rs rest st buf nm,
  nthN Tables.FTAB iftab = Some nm -> (iftab =? 255) = false -> iftab < 65536 -> N.of_nat (length rs) < 256 ->
  xls_step show_f64 env (cls_ptg 0x22 0x42 0x62 k) (N.of_nat (length rs) :: le 2 iftab ++ rest)
    (rev (offsets (length buf) rs) ++ st, buf ++ concat rs)
  = Ok (rest, (length buf :: st, buf ++ nm ++ [ch_lpar] ++ join_comma rs ++ [ch_rpar])).
Proof.
  intros k iftab rs rest st buf nm Hnm H255 Hi Hl.
  destruct k; cbn [cls_ptg]; unfold xls_step, arm_func, func_header;
    cbn [le app u16_at byte_at skipn obind drop]; rewrite le2_eq by assumption;
    cbn [obind fst snd]; rewrite Nat2N.id; rewrite (@func_apply_correct false _ _ _ _ _ Hnm H255);
    reflexivity.
Qed.

(* PtgFuncVar with tab 0x00FF: name(arguments) *)
Lemma xls_step_funcvar_user : forall k r0 rs rest st buf,
  N.of_nat (S (length rs)) < 256 ->
  xls_step show_f64 env (cls_ptg 0x22 0x42 0x62 k) (N.of_nat (S (length rs)) :: le 2 255 ++ rest)
    (rev (offsets (length buf) (r0 :: rs)) ++ st, buf ++ concat (r0 :: rs))
  = Ok (rest, (length buf :: st, buf ++ r0 ++ [ch_lpar] ++ join_comma rs ++ [ch_rpar])).
Proof.
  intros k r0 rs rest st buf Hl.
  destruct k; cbn [cls_ptg]; unfold xls_step, arm_func, func_header;
    cbn [le app u16_at byte_at skipn obind drop];
    change (255 mod 256 + 256 * (255 / 256 mod 256)) with 255;
    cbn [obind fst snd]; rewrite Nat2N.id; rewrite (func_apply_user false r0 rs st buf);
    reflexivity.
Qed.

Lemma xls_step_func : forall k iftab rs rest st buf nm,
  nthN Tables.FTAB iftab = Some nm -> (iftab =? 255) = false -> iftab < Tables.FTAB_LEN ->
  nthN Tables.FTAB_ARGC iftab = Some (N.of_nat (length rs)) ->
  xls_step show_f64 env (cls_ptg 0x21 0x41 0x61 k) (le 2 iftab ++ rest)
    (rev (offsets (length buf) rs) ++ st, buf ++ concat rs)
  = Ok (rest, (length buf :: st, buf ++ nm ++ [ch_lpar] ++ join_comma rs ++ [ch_rpar])).
Proof.
  intros k iftab rs rest st buf nm Hnm H255 Hi Ha.
  assert (Hi' : iftab < 65536) by (change Tables.FTAB_LEN with 485 in Hi; lia).
  assert (E : (Tables.FTAB_LEN <=? iftab) = false) by (apply N.leb_gt; exact Hi).
  destruct k; cbn [cls_ptg]; unfold xls_step, arm_func, func_header;
    cbn [le app u16_at skipn obind]; rewrite le2_eq by assumption; rewrite E;
    cbn [drop obind]; rewrite Ha; cbn [of_option obind fst snd]; rewrite Nat2N.id;
    rewrite (@func_apply_correct false _ _ _ _ _ Hnm H255); reflexivity.
Qed.

(* ---------- PtgRefN / PtgAreaN: the reference seen from the base cell ---------- *)
Lemma col_field_mod256 : forall c rr cr, col_field c rr cr mod 256 = c mod 256.
Proof. intros c rr cr. unfold col_field. destruct rr, cr; lia. Qed.

Lemma rel_ref_translate : forall a br bc, wf_cref 65536 a = true ->
  rel_ref (cr_row a) (cfield a) (br, bc)
  = (cr_row (translate (Some (br, bc)) a),
     col_field (cr_col (translate (Some (br, bc)) a)) (cr_row_rel a) (cr_col_rel a)).
Proof.
  intros a br bc H. destruct (wf_cref_bounds _ _ H) as (Hr & Hc & _).
  unfold rel_ref, cfield, translate. cbn [fst snd cr_row cr_col].
  destruct (col_field_bits (cr_row_rel a) (cr_col_rel a) Hc) as (Hl & H14 & H15).
  rewrite H14, H15, Hl, col_field_mod256.
  f_equal.
  - destruct (cr_row_rel a); [f_equal; lia|reflexivity].
  - destruct (cr_col_rel a); [|reflexivity]. f_equal.
    rewrite (N.add_comm bc). rewrite N.add_mod_idemp_l by lia. reflexivity.
Qed.

Lemma translate_bounds : forall b a, wf_cref 65536 a = true ->
  cr_row (translate b a) < 65536 /\ cr_col (translate b a) < 16384.
Proof.
  intros b a H. destruct (wf_cref_bounds _ _ H) as (Hr & Hc & _).
  destruct b as [[br bc]|]; cbn [translate cr_row cr_col]; [|split; assumption].
  split.
  - destruct (cr_row_rel a); [|assumption]. apply N.mod_lt. lia.
  - destruct (cr_col_rel a); [|assumption].
    assert ((bc + cr_col a) mod 256 < 256) by (apply N.mod_lt; lia). lia.
Qed.

Lemma render_cref_translate : forall b a,
  render_cref (translate b a)
  = a1_ref (cr_row (translate b a)) (cr_col (translate b a)) (cr_row_rel a) (cr_col_rel a).
Proof. intros [[br bc]|] a; reflexivity. Qed.

Lemma xls_step_refn : forall k a base rest st buf,
  xe_base env = Some base -> wf_cref 65536 a = true ->
  xls_step show_f64 env (cls_ptg 0x2C 0x4C 0x6C k) (le 2 (cr_row a) ++ le 2 (cfield a) ++ rest) (st, buf)
  = Ok (rest, (length buf :: st, buf ++ render_cref (translate (xe_base env) a))).
Proof.
  intros k a [br bc] rest st buf Hb H. destruct (wf_cref_bounds _ _ H) as (Hr & Hc & Hf).
  destruct (translate_bounds (Some (br, bc)) a H) as (Tr & Tc).
  destruct k; cbn [cls_ptg]; unfold xls_step; rewrite Hb; cbn [fst snd le app u16_at skipn obind];
    rewrite !le2_eq by assumption; rewrite rel_ref_translate by exact H; cbn [fst snd]; pcr;
    cbn [obind drop]; rewrite render_cref_translate; reflexivity.
Qed.

Lemma xls_step_arean : forall k a b base rest st buf,
  xe_base env = Some base -> wf_cref 65536 a = true -> wf_cref 65536 b = true ->
  xls_step show_f64 env (cls_ptg 0x2D 0x4D 0x6D k)
    (le 2 (cr_row a) ++ le 2 (cr_row b) ++ le 2 (cfield a) ++ le 2 (cfield b) ++ rest) (st, buf)
  = Ok (rest, (length buf :: st, buf ++ render_cref (translate (xe_base env) a) ++ [ch_colon]
                                     ++ render_cref (translate (xe_base env) b))).
Proof.
  intros k a b [br bc] rest st buf Hb Ha Hbb.
  destruct (wf_cref_bounds _ _ Ha) as (Hr & Hc & Hf). destruct (wf_cref_bounds _ _ Hbb) as (Hr' & Hc' & Hf').
  destruct (translate_bounds (Some (br, bc)) a Ha) as (Tr & Tc).
  destruct (translate_bounds (Some (br, bc)) b Hbb) as (Tr' & Tc').
  destruct k; cbn [cls_ptg]; unfold xls_step; rewrite Hb; cbn [fst snd le app u16_at skipn obind];
    rewrite !le2_eq by assumption; rewrite !rel_ref_translate by assumption; cbn [fst snd]; pcr;
    cbn [obind]; pcr; cbn [obind drop]; rewrite !render_cref_translate, <- !app_assoc; reflexivity.
Qed.

(* ---------- references that no longer exist ---------- *)
Lemma drop_len : forall (j rest : list N) n, length j = n -> drop n (j ++ rest) = Ok rest.
Proof. intros j rest n <-. apply drop_app. Qed.

Lemma xls_step_referr : forall k j rest st buf, length j = 4%nat ->
  xls_step show_f64 env (cls_ptg 0x2A 0x4A 0x6A k) (j ++ rest) (st, buf)
  = Ok (rest, (length buf :: st, buf ++ lit "#REF!")).
Proof.
  intros k j rest st buf H. destruct k; cbn [cls_ptg]; unfold xls_step, arm_push_text;
    rewrite (drop_len j rest H); reflexivity.
Qed.
Lemma xls_step_areaerr : forall k j rest st buf, length j = 8%nat ->
  xls_step show_f64 env (cls_ptg 0x2B 0x4B 0x6B k) (j ++ rest) (st, buf)
  = Ok (rest, (length buf :: st, buf ++ lit "#REF!")).
Proof.
  intros k j rest st buf H. destruct k; cbn [cls_ptg]; unfold xls_step, arm_push_text;
    rewrite (drop_len j rest H); reflexivity.
Qed.
Lemma xls_step_referr3d : forall k ix j rest st buf, ix < 65536 -> length j = 4%nat ->
  xls_step show_f64 env (cls_ptg 0x3C 0x5C 0x7C k) (le 2 ix ++ j ++ rest) (st, buf)
  = Ok (rest, (length buf :: st, buf ++ spec_sheet_xls env ix ++ [ch_bang] ++ lit "#REF!")).
Proof.
  intros k ix j rest st buf Hix H.
  assert (D : drop 6 (le 2 ix ++ j ++ rest) = Ok rest).
  { rewrite app_assoc. apply drop_len. rewrite app_length, le_length. lia. }
  destruct k; cbn [cls_ptg]; unfold xls_step; cbn [fst snd];
    (replace (u16_at (le 2 ix ++ j ++ rest) 0) with (@Ok N ix)
       by (cbn [le app u16_at skipn]; rewrite le2_eq by exact Hix; reflexivity));
    cbn [obind]; rewrite D; cbn [obind]; rewrite sheet_name_xls_spec; reflexivity.
Qed.
Lemma xls_step_areaerr3d : forall k ix j rest st buf, ix < 65536 -> length j = 8%nat ->
  xls_step show_f64 env (cls_ptg 0x3D 0x5D 0x7D k) (le 2 ix ++ j ++ rest) (st, buf)
  = Ok (rest, (length buf :: st, buf ++ spec_sheet_xls env ix ++ [ch_bang] ++ lit "#REF!")).
Proof.
  intros k ix j rest st buf Hix H.
  assert (D : drop 10 (le 2 ix ++ j ++ rest) = Ok rest).
  { rewrite app_assoc. apply drop_len. rewrite app_length, le_length. lia. }
  destruct k; cbn [cls_ptg]; unfold xls_step; cbn [fst snd];
    (replace (u16_at (le 2 ix ++ j ++ rest) 0) with (@Ok N ix)
       by (cbn [le app u16_at skipn]; rewrite le2_eq by exact Hix; reflexivity));
    cbn [obind]; rewrite D; cbn [obind]; rewrite sheet_name_xls_spec; reflexivity.
Qed.

(* ---------- PtgMemArea / PtgMemErr / PtgMemNoMem / PtgMemFunc: skipped ---------- *)
Lemma xls_step_mem : forall k m w cce rest s,
  xls_step show_f64 env (mem_ptg m k) (mem_head m w ++ le 2 cce ++ rest) s = Ok (rest, s).
Proof.
  intros k m w cce rest s. destruct m, k; cbn [mem_ptg cls_ptg mem_head le app]; unfold xls_step;
    cbn [drop obind]; reflexivity.
Qed.

End XlsTokens.

(* ------------------------------------------------------------------ induction principle for the nested AST *)
Section ExprInd.
Variable P : expr -> Prop.
Hypothesis HRef : forall k a, P (ERef k a).
Hypothesis HArea : forall k a b, P (EArea k a b).
Hypothesis HRef3d : forall k ix a, P (ERef3d k ix a).
Hypothesis HArea3d : forall k ix a b, P (EArea3d k ix a b).
Hypothesis HName : forall k idx, P (EName k idx).
Hypothesis HInt : forall n, P (EInt n).
Hypothesis HNum : forall b, P (ENum b).
Hypothesis HStr : forall w s, P (EStr w s).
Hypothesis HBool : forall b, P (EBool b).
Hypothesis HErr : forall c, P (EErr c).
Hypothesis HMiss : P EMissArg.
Hypothesis HUn : forall op a, P a -> P (EUn op a).
Hypothesis HBin : forall op a b, P a -> P b -> P (EBin op a b).
Hypothesis HParen : forall a, P a -> P (EParen a).
Hypothesis HFunc : forall k i args, Forall P args -> P (EFunc k i args).
Hypothesis HFuncVar : forall k i args, Forall P args -> P (EFuncVar k i args).
Hypothesis HSum : forall a, P a -> P (ESum a).
Hypothesis HAttr : forall e w a, P a -> P (EAttrSkip e w a).
Hypothesis HPost : forall e w a, P a -> P (EAttrPost e w a).
Hypothesis HChoose : forall offs a, P a -> P (EAttrChoose offs a).
Hypothesis HRefN : forall k a, P (ERefN k a).
Hypothesis HAreaN : forall k a b, P (EAreaN k a b).
Hypothesis HMem : forall k m w a, P a -> P (EMem k m w a).
Hypothesis HRefErr : forall k j, P (ERefErr k j).
Hypothesis HAreaErr : forall k j, P (EAreaErr k j).
Hypothesis HRefErr3d : forall k ix j, P (ERefErr3d k ix j).
Hypothesis HAreaErr3d : forall k ix j, P (EAreaErr3d k ix j).

Fixpoint expr_ind' (e : expr) : P e :=
  let fix go (l : list expr) : Forall P l :=
    match l with
    | [] => Forall_nil _
    | x :: t => Forall_cons _ (expr_ind' x) (go t)
    end in
  match e with
  | ERef k a => HRef k a
  | EArea k a b => HArea k a b
  | ERef3d k ix a => HRef3d k ix a
  | EArea3d k ix a b => HArea3d k ix a b
  | EName k idx => HName k idx
  | EInt n => HInt n
  | ENum b => HNum b
  | EStr w s => HStr w s
  | EBool b => HBool b
  | EErr c => HErr c
  | EMissArg => HMiss
  | EUn op a => HUn op (expr_ind' a)
  | EBin op a b => HBin op (expr_ind' a) (expr_ind' b)
  | EParen a => HParen (expr_ind' a)
  | EFunc k i args => HFunc k i (go args)
  | EFuncVar k i args => HFuncVar k i (go args)
  | ESum a => HSum (expr_ind' a)
  | EAttrSkip e w a => HAttr e w (expr_ind' a)
  | EAttrPost e w a => HPost e w (expr_ind' a)
  | EAttrChoose offs a => HChoose offs (expr_ind' a)
  | ERefN k a => HRefN k a
  | EAreaN k a b => HAreaN k a b
  | EMem k m w a => HMem k m w (expr_ind' a)
  | ERefErr k j => HRefErr k j
  | EAreaErr k j => HAreaErr k j
  | ERefErr3d k ix j => HRefErr3d k ix j
  | EAreaErr3d k ix j => HAreaErr3d k ix j
  end.
End ExprInd.

(* ------------------------------------------------------------------ facts about wf on argument lists *)
Lemma forallb_Forall : forall (A : Type) (f : A -> bool) l, forallb f l = true -> Forall (fun x => f x = true) l.
Proof.
  induction l as [|x l IH]; intros H; [constructor|].
  cbn [forallb] in H. apply andb_prop in H. destruct H as [H1 H2]. constructor; auto.
Qed.

(* every token is at least one byte: the fuel S (length rgce) of the decoders is enough *)
Lemma ntok_le_length : forall rb es e, (ntok e <= length (encode rb es e))%nat.
Proof.
  intros rb es. induction e using expr_ind'; cbn [ntok encode];
    rewrite ?app_length; cbn [length]; try lia.
  - (* EFunc *)
    assert (H' : (fold_right (fun a acc => ntok a + acc) 0 args <= length (flat_map (encode rb es) args))%nat).
    { induction H as [|a args Ha _ IH]; [cbn; lia|].
      cbn [fold_right flat_map]. rewrite app_length. lia. }
    lia.
  - assert (H' : (fold_right (fun a acc => ntok a + acc) 0 args <= length (flat_map (encode rb es) args))%nat).
    { induction H as [|a args Ha _ IH]; [cbn; lia|].
      cbn [fold_right flat_map]. rewrite app_length. lia. }
    lia.
Qed.

(* ================================================================== xls: the stack-machine induction *)
Section XlsMain.
Variable show_f64 : N -> list N.
Variable env : xls_env.

Notation run := (xls_run show_f64 env).
Notation rend := (render_xls show_f64 env).

Definition good_xls (e : expr) : Prop :=
  forall f rest st buf,
    run (ntok e + f)%nat (encode_xls e ++ rest) (st, buf) = run f rest (length buf :: st, buf ++ rend e).

Lemma good_list_xls : forall args, Forall good_xls args -> forall f rest st buf,
  run (fold_right (fun a acc => ntok a + acc) 0 args + f)%nat (flat_map encode_xls args ++ rest) (st, buf)
  = run f rest (rev (offsets (length buf) (map rend args)) ++ st, buf ++ concat (map rend args)).
Proof.
  induction args as [|a args IH]; intros HF f rest st buf.
  - cbn [fold_right flat_map map offsets rev concat app Nat.add]. rewrite app_nil_r. reflexivity.
  - inversion HF as [|? ? Ha Hargs]; subst.
    cbn [fold_right flat_map map offsets rev concat].
    rewrite <- app_assoc, <- Nat.add_assoc. rewrite Ha. rewrite IH by exact Hargs.
    rewrite app_length, <- !app_assoc. reflexivity.
Qed.

Lemma tables_ftab : Tables.FTAB = FTAB_REF /\ Tables.FTAB_ARGC = FTAB_ARGC_REF /\ Tables.FTAB_LEN = FTAB_LEN_REF.
Proof. destruct tables_match_reference as (A & B & C). auto. Qed.

Lemma fname_some : forall iftab, iftab < FTAB_LEN_REF -> nthN Tables.FTAB iftab = Some (fname iftab).
Proof.
  intros iftab H. destruct tables_ftab as (E & _ & _). rewrite E. unfold fname.
  destruct (@nthN_some _ FTAB_REF iftab) as [nm Hnm].
  - destruct reference_lengths as [L _]. rewrite L, N2Nat.id. exact H.
  - rewrite Hnm. reflexivity.
Qed.

Theorem rpn_step_xls : forall e, wf_xls env e = true -> good_xls e.
Proof.
  unfold wf_xls.
  induction e using expr_ind'; intros Hwf; unfold good_xls; intros f rest st buf;
    cbn [wf] in Hwf.
  - (* ERef *)
    unfold encode_xls. cbn [ntok Nat.add encode app]. rewrite <- app_assoc.
    rewrite xls_run_S by len_tac; rewrite xls_step_ref by exact Hwf. reflexivity.
  - (* EArea *)
    apply andb_prop in Hwf. destruct Hwf as [Ha Hb].
    unfold encode_xls. cbn [ntok Nat.add encode app]. rewrite <- !app_assoc.
    rewrite xls_run_S by len_tac; rewrite xls_step_area by assumption. reflexivity.
  - (* ERef3d *)
    apply andb_prop in Hwf. destruct Hwf as [Hwf Ha]. apply andb_prop in Hwf. destruct Hwf as [Hix _].
    apply N.ltb_lt in Hix.
    unfold encode_xls. cbn [ntok Nat.add encode app]. rewrite <- !app_assoc.
    rewrite xls_run_S by len_tac; rewrite xls_step_ref3d by assumption. reflexivity.
  - (* EArea3d *)
    apply andb_prop in Hwf. destruct Hwf as [Hwf Hb]. apply andb_prop in Hwf. destruct Hwf as [Hwf Ha].
    apply andb_prop in Hwf. destruct Hwf as [Hix _]. apply N.ltb_lt in Hix.
    unfold encode_xls. cbn [ntok Nat.add encode app]. rewrite <- !app_assoc.
    rewrite xls_run_S by len_tac; rewrite xls_step_area3d by assumption. reflexivity.
  - (* EName *)
    apply andb_prop in Hwf. destruct Hwf as [Hwf H3]. apply andb_prop in Hwf. destruct Hwf as [H1 H2].
    apply N.leb_le in H1, H2. apply N.ltb_lt in H3.
    unfold encode_xls. cbn [ntok Nat.add encode app].
    rewrite xls_run_S by len_tac; rewrite xls_step_name by assumption. reflexivity.
  - (* EInt *)
    apply N.ltb_lt in Hwf. unfold encode_xls. cbn [ntok Nat.add encode app].
    rewrite xls_run_S by len_tac; rewrite xls_step_int by assumption. reflexivity.
  - (* ENum *)
    apply N.ltb_lt in Hwf. unfold encode_xls. cbn [ntok Nat.add encode app].
    rewrite xls_run_S by len_tac; rewrite xls_step_num by assumption. reflexivity.
  - (* EStr *)
    unfold encode_xls. cbn [ntok Nat.add encode app].
    rewrite xls_run_S by len_tac; rewrite xls_step_str by assumption. reflexivity.
  - (* EBool *)
    unfold encode_xls. cbn [ntok Nat.add encode app]. rewrite xls_run_S by len_tac; rewrite xls_step_bool.
    destruct b; reflexivity.
  - (* EErr *)
    destruct (spec_err c) as [t|] eqn:Ht; [|discriminate].
    unfold encode_xls. cbn [ntok Nat.add encode app]. rewrite xls_run_S by len_tac; rewrite (@xls_step_err show_f64 env c t rest st buf Ht).
    unfold render_xls. cbn [render]. rewrite Ht. reflexivity.
  - (* EMissArg *)
    unfold encode_xls. cbn [ntok Nat.add encode app]. rewrite xls_run_S by len_tac.
    unfold render_xls. cbn [render]. rewrite app_nil_r. reflexivity.
  - (* EUn *)
    specialize (IHe Hwf). unfold encode_xls. cbn [ntok encode]. fold encode_xls.
    rewrite <- app_assoc. replace (S (ntok e) + f)%nat with (ntok e + S f)%nat by lia.
    rewrite IHe. cbn [app]. rewrite xls_run_S by len_tac.
    destruct op; cbn [unop_ptg]; unfold xls_step; cbn [fst snd].
    + unfold arm_insert. cbn [fst snd]. rewrite insert_at_app. reflexivity.
    + unfold arm_insert. cbn [fst snd]. rewrite insert_at_app. reflexivity.
    + cbn [obind fst snd]. unfold render_xls. cbn [render]. rewrite <- app_assoc. reflexivity.
  - (* EBin *)
    apply andb_prop in Hwf. destruct Hwf as [Hwf Hb]. apply andb_prop in Hwf. destruct Hwf as [Hop Ha].
    specialize (IHe1 Ha). specialize (IHe2 Hb).
    unfold encode_xls. cbn [ntok encode]. fold encode_xls.
    rewrite <- !app_assoc. replace (S (ntok e1 + ntok e2) + f)%nat with (ntok e1 + (ntok e2 + S f))%nat by lia.
    rewrite IHe1, IHe2. cbn [app]. rewrite xls_run_S by len_tac; rewrite xls_step_binop by exact Hop.
    unfold arm_binop. cbn [fst snd]. rewrite split_off_app. cbn [obind fst snd].
    rewrite (@binop_text_spec op Hop). unfold render_xls. cbn [render]. rewrite <- !app_assoc. reflexivity.
  - (* EParen *)
    specialize (IHe Hwf). unfold encode_xls. cbn [ntok encode]. fold encode_xls.
    rewrite <- app_assoc. replace (S (ntok e) + f)%nat with (ntok e + S f)%nat by lia.
    rewrite IHe. cbn [app]. rewrite xls_run_S by len_tac. unfold xls_step, arm_paren. cbn [fst snd].
    rewrite insert_at_app. cbn [obind fst snd]. unfold render_xls. cbn [render].
    rewrite <- app_assoc. reflexivity.
  - (* EFunc *)
    destruct (nthN FTAB_ARGC_REF i) as [n|] eqn:Hn; [|discriminate].
    apply andb_prop in Hwf. destruct Hwf as [Hwf Hargs]. apply andb_prop in Hwf. destruct Hwf as [Hwf H255].
    apply andb_prop in Hwf. destruct Hwf as [Hcnt Hi]. apply negb_true_iff in H255.
    apply N.eqb_eq in Hcnt. apply N.ltb_lt in Hi. subst n.
    assert (HG : Forall good_xls args).
    { apply forallb_Forall in Hargs. rewrite Forall_forall in *. intros a Hin. apply H; auto. }
    unfold encode_xls. cbn [ntok encode]. fold encode_xls.
    rewrite <- !app_assoc.
    replace (S (fold_right (fun a acc => ntok a + acc) 0 args) + f)%nat
      with (fold_right (fun a acc => ntok a + acc) 0 args + S f)%nat by lia.
    rewrite good_list_xls by exact HG. cbn [app]. rewrite xls_run_S by len_tac.
    destruct tables_ftab as (_ & EA & EL).
    rewrite <- (map_length rend args) in Hn.
    rewrite (@xls_step_func show_f64 env k i (map rend args) rest st buf (fname i)).
    + unfold render_xls. cbn [render obind fst snd]. reflexivity.
    + apply fname_some. exact Hi.
    + exact H255.
    + rewrite EL. exact Hi.
    + rewrite EA. exact Hn.
  - (* EFuncVar *)
    apply andb_prop in Hwf. destruct Hwf as [Hwf Hargs]. apply andb_prop in Hwf. destruct Hwf as [Hwf Husr].
    apply andb_prop in Hwf. destruct Hwf as [Hi Hcnt].
    apply N.ltb_lt in Hcnt, Hi.
    assert (HG : Forall good_xls args).
    { apply forallb_Forall in Hargs. rewrite Forall_forall in *. intros a Hin. apply H; auto. }
    unfold encode_xls. cbn [ntok encode]. fold encode_xls.
    rewrite <- !app_assoc.
    replace (S (fold_right (fun a acc => ntok a + acc) 0 args) + f)%nat
      with (fold_right (fun a acc => ntok a + acc) 0 args + S f)%nat by lia.
    rewrite good_list_xls by exact HG. cbn [app]. rewrite xls_run_S by len_tac.
    unfold user_fn_ok in Husr. destruct (i =? 255) eqn:E255.
    + (* tab 0x00FF: the first parameter is the function name *)
      apply N.eqb_eq in E255. subst i.
      destruct args as [|a0 args']; [discriminate|]. clear Husr.
      cbn [map length]. cbn [length] in Hcnt.
      rewrite <- (map_length rend args') in *.
      rewrite (@xls_step_funcvar_user show_f64 env k (rend a0) (map rend args') rest st buf) by lia.
      unfold render_xls. cbn [render obind fst snd map]. unfold render_call. cbn [N.eqb Pos.eqb]. reflexivity.
    + rewrite <- (map_length rend args) in *.
      rewrite (@xls_step_funcvar show_f64 env k i (map rend args) rest st buf (fname i)).
      * unfold render_xls. cbn [render obind fst snd]. unfold render_call. rewrite E255. reflexivity.
      * apply fname_some. exact Hi.
      * exact E255.
      * change FTAB_LEN_REF with 485 in Hi. lia.
      * lia.
  - (* ESum *)
    specialize (IHe Hwf). unfold encode_xls. cbn [ntok encode]. fold encode_xls.
    rewrite <- app_assoc. replace (S (ntok e) + f)%nat with (ntok e + S f)%nat by lia.
    rewrite IHe. cbn [app]. rewrite xls_run_S by len_tac. unfold xls_step, xls_attr.
    cbn [byte_at skipn obind drop]. unfold arm_attrsum. cbn [fst snd].
    rewrite split_off_app. cbn [obind fst snd]. unfold render_xls. cbn [render].
    rewrite <- ?app_assoc. reflexivity.
  - (* EAttrSkip *)
    apply andb_prop in Hwf. destruct Hwf as [Hwf Ha]. apply andb_prop in Hwf. destruct Hwf as [He Hw].
    specialize (IHe Ha). unfold encode_xls. cbn [ntok encode]. fold encode_xls.
    cbn [app]. rewrite <- app_assoc. cbn [Nat.add]. rewrite xls_run_S by len_tac.
    rewrite xls_step_attrskip by exact He. cbn [obind fst snd]. rewrite IHe.
    unfold render_xls. cbn [render]. reflexivity.
  - (* EAttrPost *)
    apply andb_prop in Hwf. destruct Hwf as [Hwf Ha]. apply andb_prop in Hwf. destruct Hwf as [He Hw].
    specialize (IHe Ha). unfold encode_xls. cbn [ntok encode]. fold encode_xls.
    rewrite <- app_assoc. replace (S (ntok e0) + f)%nat with (ntok e0 + S f)%nat by lia.
    rewrite IHe. cbn [app]. rewrite xls_run_S by len_tac.
    rewrite xls_step_attrskip by exact He. cbn [obind fst snd].
    unfold render_xls. cbn [render]. reflexivity.
  - (* EAttrChoose *)
    apply andb_prop in Hwf. destruct Hwf as [Hwf Ha]. apply andb_prop in Hwf. destruct Hwf as [Hwf Ho].
    apply andb_prop in Hwf. destruct Hwf as [H1 H2]. apply N.leb_le in H1, H2.
    specialize (IHe Ha). unfold encode_xls. cbn [ntok encode]. fold encode_xls.
    cbn [app]. rewrite <- !app_assoc. cbn [Nat.add]. rewrite xls_run_S by len_tac.
    rewrite xls_step_attrchoose by assumption. cbn [obind fst snd]. rewrite IHe.
    unfold render_xls. cbn [render]. reflexivity.
  - (* ERefN: only with a base cell *)
    apply andb_prop in Hwf. destruct Hwf as [Hbase Ha].
    destruct (xe_base env) as [base|] eqn:Eb; [|discriminate].
    unfold encode_xls. cbn [ntok Nat.add encode app]. rewrite <- app_assoc.
    rewrite xls_run_S by len_tac; rewrite (@xls_step_refn show_f64 env k a base) by assumption.
    unfold render_xls. cbn [render obind fst snd]. rewrite Eb. reflexivity.
  - (* EAreaN *)
    apply andb_prop in Hwf. destruct Hwf as [Hwf Hb]. apply andb_prop in Hwf. destruct Hwf as [Hbase Ha].
    destruct (xe_base env) as [base|] eqn:Eb; [|discriminate].
    unfold encode_xls. cbn [ntok Nat.add encode app]. rewrite <- !app_assoc.
    rewrite xls_run_S by len_tac; rewrite (@xls_step_arean show_f64 env k a b base) by assumption.
    unfold render_xls. cbn [render obind fst snd]. rewrite Eb. reflexivity.
  - (* EMem: the token is skipped, the expression follows *)
    apply andb_prop in Hwf. destruct Hwf as [Hwf Ha]. apply andb_prop in Hwf. destruct Hwf as [Hw Hc].
    specialize (IHe Ha). unfold encode_xls. cbn [ntok encode]. fold encode_xls.
    cbn [app]. rewrite <- !app_assoc. cbn [Nat.add].
    rewrite xls_run_S by (destruct m, k; cbn [mem_ptg cls_ptg mem_head xls_expected le app length];
                          rewrite ?app_length; cbn [length]; lia).
    rewrite xls_step_mem. cbn [obind fst snd]. rewrite IHe.
    unfold render_xls. cbn [render]. reflexivity.
  - (* ERefErr *)
    apply Nat.eqb_eq in Hwf. unfold encode_xls. cbn [ntok Nat.add encode app].
    rewrite xls_run_S by (destruct k; cbn [cls_ptg xls_expected]; rewrite app_length; lia).
    rewrite xls_step_referr by exact Hwf. reflexivity.
  - (* EAreaErr *)
    apply Nat.eqb_eq in Hwf. unfold encode_xls. cbn [ntok Nat.add encode app].
    rewrite xls_run_S by (destruct k; cbn [cls_ptg xls_expected]; rewrite app_length; lia).
    rewrite xls_step_areaerr by exact Hwf. reflexivity.
  - (* ERefErr3d *)
    apply andb_prop in Hwf. destruct Hwf as [Hwf Hj]. apply andb_prop in Hwf. destruct Hwf as [Hix _].
    apply Nat.eqb_eq in Hj. apply N.ltb_lt in Hix.
    unfold encode_xls. cbn [ntok Nat.add encode app]. rewrite <- !app_assoc.
    rewrite xls_run_S by (destruct k; cbn [cls_ptg xls_expected]; rewrite !app_length, le_length; lia).
    rewrite xls_step_referr3d by assumption. reflexivity.
  - (* EAreaErr3d *)
    apply andb_prop in Hwf. destruct Hwf as [Hwf Hj]. apply andb_prop in Hwf. destruct Hwf as [Hix _].
    apply Nat.eqb_eq in Hj. apply N.ltb_lt in Hix.
    unfold encode_xls. cbn [ntok Nat.add encode app]. rewrite <- !app_assoc.
    rewrite xls_run_S by (destruct k; cbn [cls_ptg xls_expected]; rewrite !app_length, le_length; lia).
    rewrite xls_step_areaerr3d by assumption. reflexivity.
Qed.

End XlsMain.

Theorem rpn_correct_xls : forall show_f64 env e,
  wf_xls env e = true -> N.of_nat (length (encode_xls e)) < 65536 ->
  xls_parse_formula show_f64 env (frame_xls (encode_xls e)) = Ok (render_xls show_f64 env e).
Proof.
  intros show_f64 env e Hwf Hlen. unfold xls_parse_formula, frame_xls.
  cbn [le app length u16_at skipn obind drop].
  assert (E1 : (S (S (length (encode_xls e))) <? 2)%nat = false) by (apply Nat.ltb_ge; lia).
  rewrite E1. rewrite le2_eq by exact Hlen. cbn [obind].
  rewrite Nat2N.id, Nat.ltb_irrefl, take_all. cbn [obind].
  pose proof (ntok_le_length 2 enc_str_xls e) as Hn. fold encode_xls in Hn.
  pose proof (@rpn_step_xls show_f64 env e Hwf) as HG. unfold good_xls in HG.
  specialize (HG (S (length (encode_xls e)) - ntok e)%nat [] [] []).
  rewrite app_nil_r in HG.
  replace (ntok e + (S (length (encode_xls e)) - ntok e))%nat with (S (length (encode_xls e))) in HG by lia.
  rewrite HG.
  destruct (S (length (encode_xls e)) - ntok e)%nat as [|f'] eqn:Ef; [lia|].
  cbn [xls_run obind fst snd app]. reflexivity.
Qed.

(* ================================================================== xlsb =========== *)
Section XlsbTokens.
Variable show_f64 : N -> list N.
Variable env : xlsb_env.

Lemma xlsb_run_S : forall f d ptg rest s, (xlsb_expected ptg <= length rest)%nat ->
  xlsb_run show_f64 env (S f) d (ptg :: rest) s =
  do rs <- xlsb_step show_f64 env
             (fun inner => if (MAX_FORMULA_DEPTH <=? d)%nat then Err E_DEPTH else
                           match inner with
                           | [] => Ok []
                           | _ => do s' <- xlsb_run show_f64 env f (S d) inner ([], []); xlsb_finish s'
                           end) ptg rest s;
  xlsb_run show_f64 env f d (fst rs) (snd rs).
Proof.
  intros f d ptg rest s H. cbn [xlsb_run].
  destruct (length rest <? xlsb_expected ptg)%nat eqn:E; [apply Nat.ltb_lt in E; lia|reflexivity].
Qed.

Variable sub : list N -> outcome (list N).

Notation step := (xlsb_step show_f64 env sub).

Lemma xlsb_step_binop : forall op rest s, is_binop op = true -> step op rest s = arm_binop op rest s.
Proof.
  intros op rest s H. apply binop_cases in H.
  repeat (destruct H as [H|H]; [subst; reflexivity|]). subst. reflexivity.
Qed.

Ltac pcr := rewrite push_cell_ref_spec by (try assumption; change (2 ^ 32) with 4294967296; lia).

Lemma xlsb_step_ref : forall k a rest st buf,
  wf_cref 4294967296 a = true ->
  step (cls_ptg 0x24 0x44 0x64 k) (le 4 (cr_row a) ++ le 2 (cfield a) ++ rest) (st, buf)
  = Ok (rest, (length buf :: st, buf ++ render_cref a)).
Proof.
  intros k a rest st buf H. destruct (wf_cref_bounds _ _ H) as (Hr & Hc & Hf).
  destruct k; cbn [cls_ptg]; unfold xlsb_step; cbn [fst snd le app u16_at u32_at skipn obind];
    rewrite !le4_eq by assumption; rewrite !le2_eq by assumption; unfold cfield; pcr;
    cbn [obind drop]; reflexivity.
Qed.

Lemma xlsb_step_area : forall k a b rest st buf,
  wf_cref 4294967296 a = true -> wf_cref 4294967296 b = true ->
  step (cls_ptg 0x25 0x45 0x65 k)
    (le 4 (cr_row a) ++ le 4 (cr_row b) ++ le 2 (cfield a) ++ le 2 (cfield b) ++ rest) (st, buf)
  = Ok (rest, (length buf :: st, buf ++ render_cref a ++ [ch_colon] ++ render_cref b)).
Proof.
  intros k a b rest st buf Ha Hb.
  destruct (wf_cref_bounds _ _ Ha) as (Hr & Hc & Hf). destruct (wf_cref_bounds _ _ Hb) as (Hr' & Hc' & Hf').
  destruct k; cbn [cls_ptg]; unfold xlsb_step; cbn [fst snd le app u16_at u32_at skipn obind];
    rewrite !le4_eq by assumption; rewrite !le2_eq by assumption; unfold cfield; pcr; cbn [obind]; pcr;
    cbn [obind drop]; rewrite <- !app_assoc; reflexivity.
Qed.

(* ---------- PtgRefN / PtgAreaN: the reference seen from the base cell ---------- *)
Lemma col_field_mod16384 : forall c rr cr, c < 16384 -> col_field c rr cr mod 16384 = c.
Proof. intros c rr cr H. unfold col_field. destruct rr, cr; lia. Qed.

Lemma rel_ref_b_translate : forall a br bc, wf_cref 4294967296 a = true ->
  rel_ref_b (cr_row a) (cfield a) (br, bc)
  = (cr_row (translate_b (Some (br, bc)) a),
     col_field (cr_col (translate_b (Some (br, bc)) a)) (cr_row_rel a) (cr_col_rel a)).
Proof.
  intros a br bc H. destruct (wf_cref_bounds _ _ H) as (Hr & Hc & Hf).
  unfold rel_ref_b, cfield, translate_b. cbn [fst snd cr_row cr_col].
  destruct (col_field_bits (cr_row_rel a) (cr_col_rel a) Hc) as (Hl & H14 & H15).
  rewrite H14, H15, Hl.
  f_equal.
  - destruct (cr_row_rel a); [|reflexivity].
    rewrite (N.add_comm br). lia.
  - destruct (cr_col_rel a); [|reflexivity]. f_equal.
    pose proof (col_field_mod16384 (cr_row_rel a) true Hc) as Hm.
    remember (col_field (cr_col a) (cr_row_rel a) true) as cf. lia.
Qed.

Lemma translate_b_bounds : forall b a, wf_cref 4294967296 a = true ->
  cr_row (translate_b b a) < 4294967296 /\ cr_col (translate_b b a) < 16384.
Proof.
  intros b a H. destruct (wf_cref_bounds _ _ H) as (Hr & Hc & _).
  destruct b as [[br bc]|]; cbn [translate_b cr_row cr_col]; [|split; assumption].
  split.
  - destruct (cr_row_rel a); [|assumption].
    assert ((br + cr_row a) mod 1048576 < 1048576) by (apply N.mod_lt; lia). lia.
  - destruct (cr_col_rel a); [|assumption]. apply N.mod_lt. lia.
Qed.

Lemma render_cref_translate_b : forall b a,
  render_cref (translate_b b a)
  = a1_ref (cr_row (translate_b b a)) (cr_col (translate_b b a)) (cr_row_rel a) (cr_col_rel a).
Proof. intros [[br bc]|] a; reflexivity. Qed.

Lemma xlsb_step_refn : forall k a base rest st buf,
  be_base env = Some base -> wf_cref 4294967296 a = true ->
  step (cls_ptg 0x2C 0x4C 0x6C k) (le 4 (cr_row a) ++ le 2 (cfield a) ++ rest) (st, buf)
  = Ok (rest, (length buf :: st, buf ++ render_cref (translate_b (be_base env) a))).
Proof.
  intros k a [br bc] rest st buf Hb H. destruct (wf_cref_bounds _ _ H) as (Hr & Hc & Hf).
  destruct (translate_b_bounds (Some (br, bc)) a H) as (Tr & Tc).
  destruct k; cbn [cls_ptg]; unfold xlsb_step; rewrite Hb; cbn [fst snd le app u16_at u32_at skipn obind];
    rewrite !le4_eq by assumption; rewrite !le2_eq by assumption;
    rewrite rel_ref_b_translate by exact H; cbn [fst snd]; pcr;
    cbn [obind drop]; rewrite render_cref_translate_b; reflexivity.
Qed.

Lemma xlsb_step_arean : forall k a b base rest st buf,
  be_base env = Some base -> wf_cref 4294967296 a = true -> wf_cref 4294967296 b = true ->
  step (cls_ptg 0x2D 0x4D 0x6D k)
    (le 4 (cr_row a) ++ le 4 (cr_row b) ++ le 2 (cfield a) ++ le 2 (cfield b) ++ rest) (st, buf)
  = Ok (rest, (length buf :: st, buf ++ render_cref (translate_b (be_base env) a) ++ [ch_colon]
                                     ++ render_cref (translate_b (be_base env) b))).
Proof.
  intros k a b [br bc] rest st buf Hb Ha Hbb.
  destruct (wf_cref_bounds _ _ Ha) as (Hr & Hc & Hf). destruct (wf_cref_bounds _ _ Hbb) as (Hr' & Hc' & Hf').
  destruct (translate_b_bounds (Some (br, bc)) a Ha) as (Tr & Tc).
  destruct (translate_b_bounds (Some (br, bc)) b Hbb) as (Tr' & Tc').
  destruct k; cbn [cls_ptg]; unfold xlsb_step; rewrite Hb; cbn [fst snd le app u16_at u32_at skipn obind];
    rewrite !le4_eq by assumption; rewrite !le2_eq by assumption;
    rewrite !rel_ref_b_translate by assumption; cbn [fst snd]; pcr;
    cbn [obind]; pcr; cbn [obind drop]; rewrite !render_cref_translate_b, <- !app_assoc; reflexivity.
Qed.

Lemma sheet_name_xlsb_ok : forall ix, ix < N.of_nat (length (be_sheets env)) ->
  sheet_name_xlsb env ix = Ok (spec_sheet_xlsb env ix).
Proof.
  intros ix H. unfold sheet_name_xlsb, spec_sheet_xlsb.
  destruct (@nthN_some _ (be_sheets env) ix H) as [sh Hsh]. rewrite Hsh. reflexivity.
Qed.

(* ---------- references that no longer exist ---------- *)
Lemma xlsb_step_referr : forall k j rest st buf, length j = 6%nat ->
  step (cls_ptg 0x2A 0x4A 0x6A k) (j ++ rest) (st, buf)
  = Ok (rest, (length buf :: st, buf ++ lit "#REF!")).
Proof.
  intros k j rest st buf H. destruct k; cbn [cls_ptg]; unfold xlsb_step, arm_push_text;
    rewrite (drop_len j rest H); reflexivity.
Qed.
Lemma xlsb_step_areaerr : forall k j rest st buf, length j = 12%nat ->
  step (cls_ptg 0x2B 0x4B 0x6B k) (j ++ rest) (st, buf)
  = Ok (rest, (length buf :: st, buf ++ lit "#REF!")).
Proof.
  intros k j rest st buf H. destruct k; cbn [cls_ptg]; unfold xlsb_step, arm_push_text;
    rewrite (drop_len j rest H); reflexivity.
Qed.
Lemma xlsb_step_referr3d : forall k ix j rest st buf, ix < 65536 ->
  ix < N.of_nat (length (be_sheets env)) -> length j = 6%nat ->
  step (cls_ptg 0x3C 0x5C 0x7C k) (le 2 ix ++ j ++ rest) (st, buf)
  = Ok (rest, (length buf :: st, buf ++ spec_sheet_xlsb env ix ++ [ch_bang] ++ lit "#REF!")).
Proof.
  intros k ix j rest st buf Hix Hsh H.
  assert (D : drop 8 (le 2 ix ++ j ++ rest) = Ok rest).
  { rewrite app_assoc. apply drop_len. rewrite app_length, le_length. lia. }
  destruct k; cbn [cls_ptg]; unfold xlsb_step; cbn [fst snd];
    (replace (u16_at (le 2 ix ++ j ++ rest) 0) with (@Ok N ix)
       by (cbn [le app u16_at skipn]; rewrite le2_eq by exact Hix; reflexivity));
    cbn [obind]; rewrite sheet_name_xlsb_ok by exact Hsh; cbn [obind]; rewrite D; reflexivity.
Qed.
Lemma xlsb_step_areaerr3d : forall k ix j rest st buf, ix < 65536 ->
  ix < N.of_nat (length (be_sheets env)) -> length j = 12%nat ->
  step (cls_ptg 0x3D 0x5D 0x7D k) (le 2 ix ++ j ++ rest) (st, buf)
  = Ok (rest, (length buf :: st, buf ++ spec_sheet_xlsb env ix ++ [ch_bang] ++ lit "#REF!")).
Proof.
  intros k ix j rest st buf Hix Hsh H.
  assert (D : drop 14 (le 2 ix ++ j ++ rest) = Ok rest).
  { rewrite app_assoc. apply drop_len. rewrite app_length, le_length. lia. }
  destruct k; cbn [cls_ptg]; unfold xlsb_step; cbn [fst snd];
    (replace (u16_at (le 2 ix ++ j ++ rest) 0) with (@Ok N ix)
       by (cbn [le app u16_at skipn]; rewrite le2_eq by exact Hix; reflexivity));
    cbn [obind]; rewrite sheet_name_xlsb_ok by exact Hsh; cbn [obind]; rewrite D; reflexivity.
Qed.

(* ---------- PtgMemArea / PtgMemErr / PtgMemNoMem: skipped; PtgMemFunc: the nested call ---------- *)
Lemma xlsb_step_mem_skip : forall k m w cce rest s, m <> MFunc ->
  step (mem_ptg m k) (mem_head m w ++ le 2 cce ++ rest) s = Ok (rest, s).
Proof.
  intros k m w cce rest s Hm. destruct m; try congruence; destruct k; cbn [mem_ptg cls_ptg mem_head le app];
    unfold xlsb_step; cbn [drop obind]; reflexivity.
Qed.

Lemma xlsb_step_memfunc : forall k inner rest s text,
  N.of_nat (length inner) < 65536 -> sub inner = Ok text ->
  step (mem_ptg MFunc k) (le 2 (N.of_nat (length inner)) ++ inner ++ rest) s
  = Ok (rest, (length (snd s) :: fst s, snd s ++ text)).
Proof.
  intros k inner rest [st buf] text Hlen Hsub.
  destruct k; cbn [mem_ptg cls_ptg]; unfold xlsb_step; cbn [fst snd le app u16_at skipn obind drop];
    rewrite !le2_eq by exact Hlen; rewrite Nat2N.id;
    (destruct (length (inner ++ rest) <? length inner)%nat eqn:E;
       [apply Nat.ltb_lt in E; rewrite app_length in E; lia|]);
    rewrite take_app; cbn [obind]; rewrite Hsub; cbn [obind]; rewrite drop_app; reflexivity.
Qed.


Lemma xlsb_step_ref3d : forall k ix a rest st buf,
  ix < 65536 -> ix < N.of_nat (length (be_sheets env)) -> wf_cref 4294967296 a = true ->
  step (cls_ptg 0x3A 0x5A 0x7A k)
    (le 2 ix ++ le 4 (cr_row a) ++ le 2 (cfield a) ++ rest) (st, buf)
  = Ok (rest, (length buf :: st, buf ++ spec_sheet_xlsb env ix ++ [ch_bang] ++ render_cref a)).
Proof.
  intros k ix a rest st buf Hix Hsh H. destruct (wf_cref_bounds _ _ H) as (Hr & Hc & Hf).
  destruct k; cbn [cls_ptg]; unfold xlsb_step; cbn [fst snd le app u16_at u32_at skipn obind];
    rewrite !le4_eq by assumption; rewrite !le2_eq by assumption;
    rewrite sheet_name_xlsb_ok by assumption; cbn [obind]; unfold cfield; pcr;
    cbn [obind drop]; rewrite <- !app_assoc; reflexivity.
Qed.

Lemma xlsb_step_area3d : forall k ix a b rest st buf,
  ix < 65536 -> ix < N.of_nat (length (be_sheets env)) ->
  wf_cref 4294967296 a = true -> wf_cref 4294967296 b = true ->
  step (cls_ptg 0x3B 0x5B 0x7B k)
    (le 2 ix ++ le 4 (cr_row a) ++ le 4 (cr_row b) ++ le 2 (cfield a) ++ le 2 (cfield b) ++ rest) (st, buf)
  = Ok (rest, (length buf :: st,
               buf ++ spec_sheet_xlsb env ix ++ [ch_bang] ++ render_cref a ++ [ch_colon] ++ render_cref b)).
Proof.
  intros k ix a b rest st buf Hix Hsh Ha Hb.
  destruct (wf_cref_bounds _ _ Ha) as (Hr & Hc & Hf). destruct (wf_cref_bounds _ _ Hb) as (Hr' & Hc' & Hf').
  destruct k; cbn [cls_ptg]; unfold xlsb_step; cbn [fst snd le app u16_at u32_at skipn obind];
    rewrite !le4_eq by assumption; rewrite !le2_eq by assumption;
    rewrite sheet_name_xlsb_ok by assumption; cbn [obind]; unfold cfield; pcr; cbn [obind]; pcr;
    cbn [obind drop]; rewrite <- !app_assoc; reflexivity.
Qed.

Lemma xlsb_step_name : forall k idx rest st buf,
  1 <= idx -> idx <= N.of_nat (length (be_names env)) -> idx < 4294967296 ->
  step (cls_ptg 0x23 0x43 0x63 k) (le 4 idx ++ rest) (st, buf)
  = Ok (rest, (length buf :: st, buf ++ spec_name (be_names env) idx)).
Proof.
  intros k idx rest st buf H1 H2 H3.
  destruct (@nthN_some _ (be_names env) (idx - 1)) as [nm Hnm]; [lia|].
  assert (E0 : (idx =? 0) = false) by (apply N.eqb_neq; lia).
  destruct k; cbn [cls_ptg]; unfold xlsb_step; cbn [fst snd le app u32_at skipn obind];
    rewrite le4_eq by assumption; rewrite E0; cbn [obind drop];
    unfold spec_name; rewrite Hnm; reflexivity.
Qed.

Lemma xlsb_step_int : forall n rest st buf, n < 65536 ->
  step 0x1E (le 2 n ++ rest) (st, buf) = Ok (rest, (length buf :: st, buf ++ dec n)).
Proof.
  intros n rest st buf H. unfold xlsb_step. cbn [fst snd le app u16_at skipn obind].
  rewrite le2_eq by assumption. cbn [obind drop]. reflexivity.
Qed.

Lemma xlsb_step_num : forall bits rest st buf, bits < 18446744073709551616 ->
  step 0x1F (le 8 bits ++ rest) (st, buf) = Ok (rest, (length buf :: st, buf ++ show_f64 bits)).
Proof.
  intros n rest st buf H. unfold xlsb_step. cbn [fst snd le app u64_at skipn obind].
  rewrite le8_eq by assumption. cbn [obind drop]. reflexivity.
Qed.

Lemma xlsb_step_str : forall w s rest st buf,
  wf_str_xlsb w s = true ->
  step 0x17 (enc_str_xlsb w s ++ rest) (st, buf)
  = Ok (rest, (length buf :: st, buf ++ quote_str s)).
Proof.
  intros w s rest st buf Hwf. unfold wf_str_xlsb in Hwf. apply andb_prop in Hwf.
  destruct Hwf as [Hlen Hch]. apply N.ltb_lt in Hlen. rewrite quote_str_replace.
  unfold xlsb_step, xlsb_ptgstr, enc_str_xlsb. rewrite <- app_assoc.
  cbn [le app fst snd u16_at skipn obind drop]. rewrite le2_eq by exact Hlen. cbn [obind].
  rewrite Nat2N.id. rewrite <- flat_le2_length.
  match goal with |- context [(length (?x ++ rest) <? _)%nat] =>
    change x with (flat_map (le 2) (utf16_units s)) end.
  assert (EL : (length (flat_map (le 2) (utf16_units s) ++ rest) <? length (flat_map (le 2) (utf16_units s)))%nat = false)
    by (apply Nat.ltb_ge; rewrite app_length; lia).
  rewrite EL. rewrite take_app, drop_app. cbn [obind].
  rewrite decode_le2_units by exact Hch. reflexivity.
Qed.

Lemma xlsb_step_bool : forall (b : bool) rest st buf,
  step 0x1D ((if b then 1 else 0) :: rest) (st, buf)
  = Ok (rest, (length buf :: st, buf ++ (if b then lit "TRUE" else lit "FALSE"))).
Proof. intros b rest st buf. destruct b; reflexivity. Qed.

Lemma xlsb_step_err : forall code t rest st buf, spec_err code = Some t ->
  step 0x1C (code :: rest) (st, buf) = Ok (rest, (length buf :: st, buf ++ t)).
Proof.
  intros code t rest st buf H. unfold xlsb_step. cbn [fst snd byte_at skipn obind drop].
  rewrite (@spec_err_berr _ _ H). reflexivity.
Qed.

Lemma xlsb_step_attrskip : forall etpg w rest s, skip_etpg etpg = true ->
  step 0x19 (etpg :: le 2 w ++ rest) s = Ok (rest, s).
Proof.
  intros etpg w rest s H. unfold skip_etpg in H.
  repeat (apply orb_prop in H; destruct H as [H|H]); apply N.eqb_eq in H; subst; reflexivity.
Qed.

Lemma xlsb_step_attrchoose : forall offs rest s,
  1 <= N.of_nat (length offs) -> N.of_nat (length offs) <= 65536 ->
  step 0x19 (0x04 :: le 2 (N.of_nat (length offs) - 1) ++ flat_map (le 2) offs ++ rest) s = Ok (rest, s).
Proof.
  intros offs rest s H1 H2.
  assert (Hfl : length (flat_map (le 2) offs) = (2 * length offs)%nat) by apply flat_le2_length.
  remember (flat_map (le 2) offs) as fl eqn:Efl. clear Efl.
  unfold xlsb_step, xlsb_attr.
  cbn [byte_at skipn obind drop le app length Nat.ltb Nat.leb u16_at].
  rewrite le2_eq by lia. cbn [obind].
  replace (2 + 2 * (N.to_nat (N.of_nat (length offs) - 1) + 1))%nat with (2 + length fl)%nat by lia.
  rewrite drop_err_cons2. reflexivity.
Qed.

Lemma xlsb_step_funcvar : forall k iftab rs rest st buf nm,
  nthN Tables.FTAB iftab = Some nm -> (iftab =? 255) = false -> iftab < 65536 -> N.of_nat (length rs) < 256 ->
  step (cls_ptg 0x22 0x42 0x62 k) (N.of_nat (length rs) :: le 2 iftab ++ rest)
    (rev (offsets (length buf) rs) ++ st, buf ++ concat rs)
  = Ok (rest, (length buf :: st, buf ++ nm ++ [ch_lpar] ++ join_comma rs ++ [ch_rpar])).
Proof.
  intros k iftab rs rest st buf nm Hnm H255 Hi Hl.
  destruct k; cbn [cls_ptg]; unfold xlsb_step, arm_func, func_header;
    cbn [le app u16_at byte_at skipn obind drop]; rewrite le2_eq by assumption;
    cbn [obind fst snd]; rewrite Nat2N.id; rewrite (@func_apply_correct true _ _ _ _ _ Hnm H255);
    reflexivity.
Qed.

(* PtgFuncVar with tab 0x00FF: name(arguments) *)
Lemma xlsb_step_funcvar_user : forall k r0 rs rest st buf,
  N.of_nat (S (length rs)) < 256 ->
  step (cls_ptg 0x22 0x42 0x62 k) (N.of_nat (S (length rs)) :: le 2 255 ++ rest)
    (rev (offsets (length buf) (r0 :: rs)) ++ st, buf ++ concat (r0 :: rs))
  = Ok (rest, (length buf :: st, buf ++ r0 ++ [ch_lpar] ++ join_comma rs ++ [ch_rpar])).
Proof.
  intros k r0 rs rest st buf Hl.
  destruct k; cbn [cls_ptg]; unfold xlsb_step, arm_func, func_header;
    cbn [le app u16_at byte_at skipn obind drop];
    change (255 mod 256 + 256 * (255 / 256 mod 256)) with 255;
    cbn [obind fst snd]; rewrite Nat2N.id; rewrite (func_apply_user true r0 rs st buf);
    reflexivity.
Qed.

Lemma xlsb_step_func : forall k iftab rs rest st buf nm,
  nthN Tables.FTAB iftab = Some nm -> (iftab =? 255) = false -> iftab < Tables.FTAB_LEN ->
  nthN Tables.FTAB_ARGC iftab = Some (N.of_nat (length rs)) ->
  step (cls_ptg 0x21 0x41 0x61 k) (le 2 iftab ++ rest)
    (rev (offsets (length buf) rs) ++ st, buf ++ concat rs)
  = Ok (rest, (length buf :: st, buf ++ nm ++ [ch_lpar] ++ join_comma rs ++ [ch_rpar])).
Proof.
  intros k iftab rs rest st buf nm Hnm H255 Hi Ha.
  assert (Hi' : iftab < 65536) by (change Tables.FTAB_LEN with 485 in Hi; lia).
  assert (E : (Tables.FTAB_LEN <=? iftab) = false) by (apply N.leb_gt; exact Hi).
  destruct k; cbn [cls_ptg]; unfold xlsb_step, arm_func, func_header;
    cbn [le app u16_at skipn obind]; rewrite le2_eq by assumption; rewrite E;
    cbn [drop obind]; rewrite Ha; cbn [of_option obind fst snd]; rewrite Nat2N.id;
    rewrite (@func_apply_correct true _ _ _ _ _ Hnm H255); reflexivity.
Qed.

End XlsbTokens.

(* ================================================================== xlsb: the stack-machine induction *)
Section XlsbMain.
Variable show_f64 : N -> list N.
Variable env : xlsb_env.

Notation rend := (render_xlsb show_f64 env).

(* [d]: the PtgMemFunc nesting depth of the call; [need e <= f]: the nested calls made at the PtgMemFunc
   tokens of e run on the fuel that is left for the rest of the loop *)
Definition good_xlsb (e : expr) : Prop :=
  forall d f rest st buf, (need e <= f)%nat -> (d + mdepth e <= 64)%nat ->
    xlsb_run show_f64 env (ntokb e + f)%nat d (encode_xlsb e ++ rest) (st, buf)
    = xlsb_run show_f64 env f d rest (length buf :: st, buf ++ rend e).

Lemma good_list_xlsb : forall args, Forall good_xlsb args -> forall d f rest st buf,
  (fold_right (fun a acc => Nat.max (need a) acc) 0 args <= f)%nat ->
  (d + fold_right (fun a acc => Nat.max (mdepth a) acc) 0 args <= 64)%nat ->
  xlsb_run show_f64 env (fold_right (fun a acc => ntokb a + acc) 0 args + f)%nat d (flat_map encode_xlsb args ++ rest) (st, buf)
  = xlsb_run show_f64 env f d rest (rev (offsets (length buf) (map rend args)) ++ st, buf ++ concat (map rend args)).
Proof.
  induction args as [|a args IH]; intros HF d f rest st buf Hf Hd.
  - cbn [fold_right flat_map map offsets rev concat app Nat.add]. rewrite app_nil_r. reflexivity.
  - inversion HF as [|? ? Ha Hargs]; subst. cbn [fold_right] in Hf, Hd.
    cbn [fold_right flat_map map offsets rev concat].
    rewrite <- app_assoc, <- Nat.add_assoc. rewrite Ha by lia. rewrite IH by (first [exact Hargs | lia]).
    rewrite app_length, <- !app_assoc. reflexivity.
Qed.

(* an encoding is never empty *)
Lemma encode_xlsb_cons : forall e, exists b t, encode_xlsb e = b :: t.
Proof.
  intros e. pose proof (ntok_le_length 4 enc_str_xlsb e) as H. fold encode_xlsb in H.
  assert (1 <= ntok e)%nat by (destruct e; cbn [ntok]; lia).
  destruct (encode_xlsb e) as [|b t]; [cbn [length] in H; lia|eauto].
Qed.

Theorem rpn_step_xlsb : forall e, wf_xlsb_core env e = true -> good_xlsb e.
Proof.
  unfold wf_xlsb_core.
  induction e using expr_ind'; intros Hwf; unfold good_xlsb; intros d f rest st buf Hf Hd;
    cbn [wf] in Hwf; cbn [need mdepth] in Hf, Hd.
  - (* ERef *)
    unfold encode_xlsb. cbn [ntokb Nat.add encode app]. rewrite <- app_assoc.
    rewrite xlsb_run_S by len_tac; rewrite xlsb_step_ref by exact Hwf. reflexivity.
  - (* EArea *)
    apply andb_prop in Hwf. destruct Hwf as [Ha Hb].
    unfold encode_xlsb. cbn [ntokb Nat.add encode app]. rewrite <- !app_assoc.
    rewrite xlsb_run_S by len_tac; rewrite xlsb_step_area by assumption. reflexivity.
  - (* ERef3d *)
    apply andb_prop in Hwf. destruct Hwf as [Hwf Ha]. apply andb_prop in Hwf. destruct Hwf as [Hix Hsh].
    apply N.ltb_lt in Hix, Hsh.
    unfold encode_xlsb. cbn [ntokb Nat.add encode app]. rewrite <- !app_assoc.
    rewrite xlsb_run_S by len_tac; rewrite xlsb_step_ref3d by assumption. reflexivity.
  - (* EArea3d *)
    apply andb_prop in Hwf. destruct Hwf as [Hwf Hb]. apply andb_prop in Hwf. destruct Hwf as [Hwf Ha].
    apply andb_prop in Hwf. destruct Hwf as [Hix Hsh]. apply N.ltb_lt in Hix, Hsh.
    unfold encode_xlsb. cbn [ntokb Nat.add encode app]. rewrite <- !app_assoc.
    rewrite xlsb_run_S by len_tac; rewrite xlsb_step_area3d by assumption. reflexivity.
  - (* EName *)
    apply andb_prop in Hwf. destruct Hwf as [Hwf H3]. apply andb_prop in Hwf. destruct Hwf as [H1 H2].
    apply N.leb_le in H1, H2. apply N.ltb_lt in H3.
    unfold encode_xlsb. cbn [ntokb Nat.add encode app].
    rewrite xlsb_run_S by len_tac; rewrite xlsb_step_name by assumption. reflexivity.
  - (* EInt *)
    apply N.ltb_lt in Hwf. unfold encode_xlsb. cbn [ntokb Nat.add encode app].
    rewrite xlsb_run_S by len_tac; rewrite xlsb_step_int by assumption. reflexivity.
  - (* ENum *)
    apply N.ltb_lt in Hwf. unfold encode_xlsb. cbn [ntokb Nat.add encode app].
    rewrite xlsb_run_S by len_tac; rewrite xlsb_step_num by assumption. reflexivity.
  - (* EStr *)
    unfold encode_xlsb. cbn [ntokb Nat.add encode app].
    rewrite xlsb_run_S by len_tac; rewrite xlsb_step_str by assumption. reflexivity.
  - (* EBool *)
    unfold encode_xlsb. cbn [ntokb Nat.add encode app]. rewrite xlsb_run_S by len_tac; rewrite xlsb_step_bool.
    destruct b; reflexivity.
  - (* EErr *)
    destruct (spec_err c) as [t|] eqn:Ht; [|discriminate].
    unfold encode_xlsb. cbn [ntokb Nat.add encode app]. rewrite xlsb_run_S by len_tac; rewrite (@xlsb_step_err show_f64 env _ c t rest st buf Ht).
    unfold render_xlsb. cbn [render]. rewrite Ht. reflexivity.
  - (* EMissArg *)
    unfold encode_xlsb. cbn [ntokb Nat.add encode app]. rewrite xlsb_run_S by len_tac.
    unfold render_xlsb. cbn [render]. rewrite app_nil_r. reflexivity.
  - (* EUn *)
    specialize (IHe Hwf). unfold encode_xlsb. cbn [ntokb encode]. fold encode_xlsb.
    rewrite <- app_assoc. replace (S (ntokb e) + f)%nat with (ntokb e + S f)%nat by lia.
    rewrite IHe by lia. cbn [app]. rewrite xlsb_run_S by len_tac.
    destruct op; cbn [unop_ptg]; unfold xlsb_step; cbn [fst snd].
    + unfold arm_insert. cbn [fst snd]. rewrite insert_at_app. reflexivity.
    + unfold arm_insert. cbn [fst snd]. rewrite insert_at_app. reflexivity.
    + cbn [obind fst snd]. unfold render_xlsb. cbn [render]. rewrite <- app_assoc. reflexivity.
  - (* EBin *)
    apply andb_prop in Hwf. destruct Hwf as [Hwf Hb]. apply andb_prop in Hwf. destruct Hwf as [Hop Ha].
    specialize (IHe1 Ha). specialize (IHe2 Hb).
    unfold encode_xlsb. cbn [ntokb encode]. fold encode_xlsb.
    rewrite <- !app_assoc. replace (S (ntokb e1 + ntokb e2) + f)%nat with (ntokb e1 + (ntokb e2 + S f))%nat by lia.
    rewrite IHe1 by lia. rewrite IHe2 by lia. cbn [app]. rewrite xlsb_run_S by len_tac; rewrite xlsb_step_binop by exact Hop.
    unfold arm_binop. cbn [fst snd]. rewrite split_off_app. cbn [obind fst snd].
    rewrite (@binop_text_spec op Hop). unfold render_xlsb. cbn [render]. rewrite <- !app_assoc. reflexivity.
  - (* EParen *)
    specialize (IHe Hwf). unfold encode_xlsb. cbn [ntokb encode]. fold encode_xlsb.
    rewrite <- app_assoc. replace (S (ntokb e) + f)%nat with (ntokb e + S f)%nat by lia.
    rewrite IHe by lia. cbn [app]. rewrite xlsb_run_S by len_tac. unfold xlsb_step, arm_paren. cbn [fst snd].
    rewrite insert_at_app. cbn [obind fst snd]. unfold render_xlsb. cbn [render].
    rewrite <- app_assoc. reflexivity.
  - (* EFunc *)
    destruct (nthN FTAB_ARGC_REF i) as [n|] eqn:Hn; [|discriminate].
    apply andb_prop in Hwf. destruct Hwf as [Hwf Hargs]. apply andb_prop in Hwf. destruct Hwf as [Hwf H255].
    apply andb_prop in Hwf. destruct Hwf as [Hcnt Hi]. apply negb_true_iff in H255.
    apply N.eqb_eq in Hcnt. apply N.ltb_lt in Hi. subst n.
    assert (HG : Forall good_xlsb args).
    { apply forallb_Forall in Hargs. rewrite Forall_forall in *. intros a Hin. apply H; auto. }
    unfold encode_xlsb. cbn [ntokb encode]. fold encode_xlsb.
    rewrite <- !app_assoc.
    replace (S (fold_right (fun a acc => ntokb a + acc) 0 args) + f)%nat
      with (fold_right (fun a acc => ntokb a + acc) 0 args + S f)%nat by lia.
    rewrite good_list_xlsb by (first [exact HG | lia]). cbn [app]. rewrite xlsb_run_S by len_tac.
    destruct tables_ftab as (_ & EA & EL).
    rewrite <- (map_length rend args) in Hn.
    rewrite (@xlsb_step_func show_f64 env _ k i (map rend args) rest st buf (fname i)).
    + unfold render_xlsb. cbn [render obind fst snd]. reflexivity.
    + apply fname_some. exact Hi.
    + exact H255.
    + rewrite EL. exact Hi.
    + rewrite EA. exact Hn.
  - (* EFuncVar *)
    apply andb_prop in Hwf. destruct Hwf as [Hwf Hargs]. apply andb_prop in Hwf. destruct Hwf as [Hwf Husr].
    apply andb_prop in Hwf. destruct Hwf as [Hi Hcnt].
    apply N.ltb_lt in Hcnt, Hi.
    assert (HG : Forall good_xlsb args).
    { apply forallb_Forall in Hargs. rewrite Forall_forall in *. intros a Hin. apply H; auto. }
    unfold encode_xlsb. cbn [ntokb encode]. fold encode_xlsb.
    rewrite <- !app_assoc.
    replace (S (fold_right (fun a acc => ntokb a + acc) 0 args) + f)%nat
      with (fold_right (fun a acc => ntokb a + acc) 0 args + S f)%nat by lia.
    rewrite good_list_xlsb by (first [exact HG | lia]). cbn [app]. rewrite xlsb_run_S by len_tac.
    unfold user_fn_ok in Husr. destruct (i =? 255) eqn:E255.
    + (* tab 0x00FF: the first parameter is the function name *)
      apply N.eqb_eq in E255. subst i.
      destruct args as [|a0 args']; [discriminate|]. clear Husr.
      cbn [map length]. cbn [length] in Hcnt.
      rewrite <- (map_length rend args') in *.
      rewrite (@xlsb_step_funcvar_user show_f64 env _ k (rend a0) (map rend args') rest st buf) by lia.
      unfold render_xlsb. cbn [render obind fst snd map]. unfold render_call. cbn [N.eqb Pos.eqb]. reflexivity.
    + rewrite <- (map_length rend args) in *.
      rewrite (@xlsb_step_funcvar show_f64 env _ k i (map rend args) rest st buf (fname i)).
      * unfold render_xlsb. cbn [render obind fst snd]. unfold render_call. rewrite E255. reflexivity.
      * apply fname_some. exact Hi.
      * exact E255.
      * change FTAB_LEN_REF with 485 in Hi. lia.
      * lia.
  - (* ESum *)
    specialize (IHe Hwf). unfold encode_xlsb. cbn [ntokb encode]. fold encode_xlsb.
    rewrite <- app_assoc. replace (S (ntokb e) + f)%nat with (ntokb e + S f)%nat by lia.
    rewrite IHe by lia. cbn [app]. rewrite xlsb_run_S by len_tac. unfold xlsb_step, xlsb_attr.
    cbn [byte_at skipn obind drop]. unfold arm_attrsum. cbn [fst snd].
    rewrite split_off_app. cbn [obind fst snd]. unfold render_xlsb. cbn [render].
    rewrite <- ?app_assoc. reflexivity.
  - (* EAttrSkip *)
    apply andb_prop in Hwf. destruct Hwf as [Hwf Ha]. apply andb_prop in Hwf. destruct Hwf as [He Hw].
    specialize (IHe Ha). unfold encode_xlsb. cbn [ntokb encode]. fold encode_xlsb.
    cbn [app]. rewrite <- app_assoc. cbn [Nat.add]. rewrite xlsb_run_S by len_tac.
    rewrite xlsb_step_attrskip by exact He. cbn [obind fst snd]. rewrite IHe by lia.
    unfold render_xlsb. cbn [render]. reflexivity.
  - (* EAttrPost *)
    apply andb_prop in Hwf. destruct Hwf as [Hwf Ha]. apply andb_prop in Hwf. destruct Hwf as [He Hw].
    specialize (IHe Ha). unfold encode_xlsb. cbn [ntokb encode]. fold encode_xlsb.
    rewrite <- app_assoc. replace (S (ntokb e0) + f)%nat with (ntokb e0 + S f)%nat by lia.
    rewrite IHe by lia. cbn [app]. rewrite xlsb_run_S by len_tac.
    rewrite xlsb_step_attrskip by exact He. cbn [obind fst snd].
    unfold render_xlsb. cbn [render]. reflexivity.
  - (* EAttrChoose *)
    apply andb_prop in Hwf. destruct Hwf as [Hwf Ha]. apply andb_prop in Hwf. destruct Hwf as [Hwf Ho].
    apply andb_prop in Hwf. destruct Hwf as [H1 H2]. apply N.leb_le in H1, H2.
    specialize (IHe Ha). unfold encode_xlsb. cbn [ntokb encode]. fold encode_xlsb.
    cbn [app]. rewrite <- !app_assoc. cbn [Nat.add]. rewrite xlsb_run_S by len_tac.
    rewrite xlsb_step_attrchoose by assumption. cbn [obind fst snd]. rewrite IHe by lia.
    unfold render_xlsb. cbn [render]. reflexivity.
  - (* ERefN: only with a base cell *)
    apply andb_prop in Hwf. destruct Hwf as [Hbase Ha].
    destruct (be_base env) as [base|] eqn:Eb; [|discriminate].
    unfold encode_xlsb. cbn [ntokb Nat.add encode app]. rewrite <- app_assoc.
    rewrite xlsb_run_S by len_tac; rewrite (@xlsb_step_refn show_f64 env _ k a base) by assumption.
    unfold render_xlsb. cbn [render obind fst snd]. rewrite Eb. reflexivity.
  - (* EAreaN *)
    apply andb_prop in Hwf. destruct Hwf as [Hwf Hb]. apply andb_prop in Hwf. destruct Hwf as [Hbase Ha].
    destruct (be_base env) as [base|] eqn:Eb; [|discriminate].
    unfold encode_xlsb. cbn [ntokb Nat.add encode app]. rewrite <- !app_assoc.
    rewrite xlsb_run_S by len_tac; rewrite (@xlsb_step_arean show_f64 env _ k a b base) by assumption.
    unfold render_xlsb. cbn [render obind fst snd]. rewrite Eb. reflexivity.
  - (* EMem *)
    apply andb_prop in Hwf. destruct Hwf as [Hwf Ha]. apply andb_prop in Hwf. destruct Hwf as [Hw Hc].
    apply N.ltb_lt in Hc. specialize (IHe Ha). unfold encode_xlsb. cbn [encode]. fold encode_xlsb.
    cbn [app]. rewrite <- !app_assoc.
    destruct m.
    + (* PtgMemArea: skipped, the expression follows *)
      cbn [ntokb need mdepth Nat.add] in *. rewrite xlsb_run_S by (destruct k; cbn [mem_ptg cls_ptg mem_head xlsb_expected le app length];
                          rewrite ?app_length; cbn [length]; lia).
      rewrite xlsb_step_mem_skip by discriminate. cbn [obind fst snd]. rewrite IHe by lia.
      unfold render_xlsb. cbn [render]. reflexivity.
    + cbn [ntokb need mdepth Nat.add] in *. rewrite xlsb_run_S by (destruct k; cbn [mem_ptg cls_ptg mem_head xlsb_expected le app length];
                          rewrite ?app_length; cbn [length]; lia).
      rewrite xlsb_step_mem_skip by discriminate. cbn [obind fst snd]. rewrite IHe by lia.
      unfold render_xlsb. cbn [render]. reflexivity.
    + cbn [ntokb need mdepth Nat.add] in *. rewrite xlsb_run_S by (destruct k; cbn [mem_ptg cls_ptg mem_head xlsb_expected le app length];
                          rewrite ?app_length; cbn [length]; lia).
      rewrite xlsb_step_mem_skip by discriminate. cbn [obind fst snd]. rewrite IHe by lia.
      unfold render_xlsb. cbn [render]. reflexivity.
    + (* PtgMemFunc: the expression is parsed by a nested call, one level deeper *)
      cbn [ntokb need mdepth Nat.add] in *.
      rewrite xlsb_run_S by (destruct k; cbn [mem_ptg cls_ptg mem_head xlsb_expected le app length];
                             rewrite ?app_length; cbn [length]; lia).
      assert (Hdd : (MAX_FORMULA_DEPTH <=? d)%nat = false) by (apply Nat.leb_gt; unfold MAX_FORMULA_DEPTH; lia).
      destruct (encode_xlsb_cons e) as (b0 & t0 & Eenc).
      assert (Hsub : (if (MAX_FORMULA_DEPTH <=? d)%nat then Err E_DEPTH else
                      match encode_xlsb e with
                      | [] => Ok []
                      | _ => do s' <- xlsb_run show_f64 env f (S d) (encode_xlsb e) ([], []); xlsb_finish s'
                      end) = Ok (rend e)).
      { rewrite Hdd, Eenc. rewrite <- Eenc.
        specialize (IHe (S d) (f - ntokb e)%nat [] [] []).
        rewrite app_nil_r in IHe. replace (ntokb e + (f - ntokb e))%nat with f in IHe by lia.
        rewrite IHe by lia.
        destruct (f - ntokb e)%nat as [|f'] eqn:Ef; [lia|].
        cbn [xlsb_run obind xlsb_finish fst snd length app]. reflexivity. }
      rewrite (@xlsb_step_memfunc show_f64 env _ k (encode_xlsb e) rest (st, buf) (rend e) Hc Hsub). cbn [obind fst snd].
      unfold render_xlsb. cbn [render]. reflexivity.
  - (* ERefErr *)
    apply Nat.eqb_eq in Hwf. unfold encode_xlsb. cbn [ntokb Nat.add encode app].
    rewrite xlsb_run_S by (destruct k; cbn [cls_ptg xlsb_expected]; rewrite app_length; lia).
    rewrite xlsb_step_referr by exact Hwf. reflexivity.
  - (* EAreaErr *)
    apply Nat.eqb_eq in Hwf. unfold encode_xlsb. cbn [ntokb Nat.add encode app].
    rewrite xlsb_run_S by (destruct k; cbn [cls_ptg xlsb_expected]; rewrite app_length; lia).
    rewrite xlsb_step_areaerr by exact Hwf. reflexivity.
  - (* ERefErr3d *)
    apply andb_prop in Hwf. destruct Hwf as [Hwf Hj]. apply andb_prop in Hwf. destruct Hwf as [Hix Hsh].
    apply Nat.eqb_eq in Hj. apply N.ltb_lt in Hix, Hsh.
    unfold encode_xlsb. cbn [ntokb Nat.add encode app]. rewrite <- !app_assoc.
    rewrite xlsb_run_S by (destruct k; cbn [cls_ptg xlsb_expected]; rewrite !app_length, le_length; lia).
    rewrite xlsb_step_referr3d by assumption. reflexivity.
  - (* EAreaErr3d *)
    apply andb_prop in Hwf. destruct Hwf as [Hwf Hj]. apply andb_prop in Hwf. destruct Hwf as [Hix Hsh].
    apply Nat.eqb_eq in Hj. apply N.ltb_lt in Hix, Hsh.
    unfold encode_xlsb. cbn [ntokb Nat.add encode app]. rewrite <- !app_assoc.
    rewrite xlsb_run_S by (destruct k; cbn [cls_ptg xlsb_expected]; rewrite !app_length, le_length; lia).
    rewrite xlsb_step_areaerr3d by assumption. reflexivity.
Qed.

End XlsbMain.

(* the decoder's own fuel S (length rgce) covers the loop and the nested calls *)
Lemma ntokb_bounds : forall e,
  (1 <= ntokb e)%nat /\ (ntokb e <= length (encode_xlsb e))%nat /\
  (ntokb e + need e <= S (length (encode_xlsb e)))%nat.
Proof.
  unfold encode_xlsb.
  assert (L : forall args, Forall (fun e => (1 <= ntokb e)%nat /\ (ntokb e <= length (encode 4 enc_str_xlsb e))%nat /\
                                             (ntokb e + need e <= S (length (encode 4 enc_str_xlsb e)))%nat) args ->
              (fold_right (fun a acc => ntokb a + acc) 0 args <= length (flat_map (encode 4 enc_str_xlsb) args))%nat /\
              (fold_right (fun a acc => ntokb a + acc) 0 args + fold_right (fun a acc => Nat.max (need a) acc) 0 args
               <= S (length (flat_map (encode 4 enc_str_xlsb) args)))%nat).
  { induction 1 as [|a args (H1 & H2 & H3) _ (I1 & I2)]; [cbn; lia|].
    cbn [fold_right flat_map]. rewrite app_length. lia. }
  induction e using expr_ind'; cbn [ntokb need encode]; rewrite ?app_length; cbn [length];
    try lia;
    try (destruct IHe as (H1 & H2 & H3); lia);
    try (destruct IHe1 as (H1 & H2 & H3); destruct IHe2 as (G1 & G2 & G3); lia);
    try (destruct (L args H) as [I1 I2]; lia).
  - (* EMem *)
    destruct IHe as (H1 & H2 & H3).
    destruct m; cbn [ntokb need mem_head]; rewrite ?app_length, ?le_length; cbn [length]; lia.
Qed.

Theorem rpn_correct_xlsb : forall show_f64 env e,
  wf_xlsb env e = true ->
  xlsb_parse_formula show_f64 env (encode_xlsb e) = Ok (render_xlsb show_f64 env e).
Proof.
  intros show_f64 env e Hwf. unfold wf_xlsb in Hwf. apply andb_prop in Hwf. destruct Hwf as [Hwf Hd].
  apply Nat.leb_le in Hd. unfold xlsb_parse_formula.
  destruct (ntokb_bounds e) as (H1 & H2 & H3).
  destruct (encode_xlsb e) as [|b0 bs] eqn:Eenc; [cbn [length] in H2; lia|]. rewrite <- Eenc in *.
  pose proof (@rpn_step_xlsb show_f64 env e Hwf) as HG. unfold good_xlsb in HG.
  specialize (HG 0%nat (S (length (encode_xlsb e)) - ntokb e)%nat [] [] []).
  rewrite app_nil_r in HG.
  replace (ntokb e + (S (length (encode_xlsb e)) - ntokb e))%nat with (S (length (encode_xlsb e))) in HG by lia.
  rewrite HG by lia.
  destruct (S (length (encode_xlsb e)) - ntokb e)%nat as [|f'] eqn:Ef; [lia|].
  cbn [xlsb_run obind fst snd app xlsb_finish]. reflexivity.
Qed.

(* ================================================================== supporting links *)
(* the text of an expression depends on the sheet lookup only at the XTIs it goes through *)
Lemma render_sheet_ext : forall show_f64 s1 s2 nm tr e,
  (forall ix, In ix (ixtis e) -> s1 ix = s2 ix) ->
  render show_f64 s1 nm tr e = render show_f64 s2 nm tr e.
Proof.
  intros show_f64 s1 s2 nm tr.
  assert (L : forall args, Forall (fun e => (forall ix, In ix (ixtis e) -> s1 ix = s2 ix) ->
                                    render show_f64 s1 nm tr e = render show_f64 s2 nm tr e) args ->
              (forall ix, In ix (flat_map ixtis args) -> s1 ix = s2 ix) ->
              map (render show_f64 s1 nm tr) args = map (render show_f64 s2 nm tr) args).
  { induction 1 as [|a args Ha _ IH]; intros Hix; [reflexivity|].
    cbn [map]. f_equal.
    - apply Ha. intros ix Hin. apply Hix. cbn [flat_map]. apply in_or_app. left. exact Hin.
    - apply IH. intros ix Hin. apply Hix. cbn [flat_map]. apply in_or_app. right. exact Hin. }
  induction e using expr_ind'; cbn [render ixtis]; intros Hix; try reflexivity;
    try (rewrite (Hix ix) by (left; reflexivity); reflexivity);
    try (rewrite IHe by exact Hix; reflexivity).
  - (* EBin *)
    rewrite IHe1, IHe2; [reflexivity| |]; intros ix Hin; apply Hix; apply in_or_app; auto.
  - (* EFunc *) rewrite (L args H Hix). reflexivity.
  - (* EFuncVar *) rewrite (L args H Hix). reflexivity.
Qed.

Lemma known_extern_false : forall links xtis e ix x,
  known_extern links xtis e = false -> In ix (ixtis e) -> nthN xtis ix = Some x ->
  xti_local links x = true.
Proof.
  intros links xtis e ix x Hk Hin Hx. unfold known_extern in Hk.
  destruct (xti_local links x) eqn:E; [reflexivity|].
  assert (existsb (fun ix => match nthN xtis ix with Some x => negb (xti_local links x) | None => false end)
            (ixtis e) = true).
  { apply existsb_exists. exists ix. split; [exact Hin|]. rewrite Hx, E. reflexivity. }
  congruence.
Qed.

Lemma sheet_through_link_local : forall links tab_at local x,
  xti_local links x = true -> sheet_through_link links tab_at local x = local.
Proof.
  intros links tab_at local x H. unfold xti_local in H. unfold sheet_through_link.
  destruct (nthN links (fst (fst x))) as [[| | |tabs]|]; cbn in H; try discriminate; reflexivity.
Qed.

(* outside the known class the full spec (through the supporting links) is the text the decoder writes *)
Lemma render_xls_links_eq : forall show_f64 links env e,
  known_extern links (xe_xtis env) e = false ->
  render_xls_links show_f64 links env e = render_xls show_f64 env e.
Proof.
  intros show_f64 links env e Hk. unfold render_xls_links, render_xls.
  apply render_sheet_ext. intros ix Hin. unfold spec_sheet_xls_links.
  destruct (nthN (xe_xtis env) ix) as [x|] eqn:Ex.
  - apply sheet_through_link_local. eapply known_extern_false; eauto.
  - unfold spec_sheet_xls. rewrite Ex. reflexivity.
Qed.

Theorem rpn_correct_links_xls : forall show_f64 links env e,
  wf_xls env e = true -> N.of_nat (length (encode_xls e)) < 65536 ->
  known_C14 links (xe_xtis env) e = None ->
  xls_parse_formula show_f64 env (frame_xls (encode_xls e)) = Ok (render_xls_links show_f64 links env e).
Proof.
  intros show_f64 links env e Hwf Hlen Hk. unfold known_C14 in Hk.
  destruct (known_extern links (xe_xtis env) e) eqn:E; [discriminate|].
  rewrite render_xls_links_eq by exact E. apply rpn_correct_xls; assumption.
Qed.

(* ================================================================== CHOOSE, user-defined functions *)
Lemma render_e_choose : forall show_f64 sh nm tr k idx offs vals,
  render show_f64 sh nm tr (e_choose k idx offs vals)
  = lit "CHOOSE(" ++ join_comma (render show_f64 sh nm tr idx :: map (fun vg => render show_f64 sh nm tr (fst vg)) vals)
    ++ [ch_rpar].
Proof.
  intros show_f64 sh nm tr k idx offs vals. unfold e_choose. cbn [render]. unfold render_call.
  change (100 =? 255) with false. cbn iota.
  change (fname 100) with (lit "CHOOSE"). cbn [map].
  assert (E : map (render show_f64 sh nm tr)
                match vals with
                | [] => []
                | (v, g) :: t0 => EAttrPost 8 g (EAttrChoose offs v)
                                  :: map (fun vg => EAttrPost 8 (snd vg) (fst vg)) t0
                end = map (fun vg => render show_f64 sh nm tr (fst vg)) vals).
  { destruct vals as [|[v g] t0]; [reflexivity|]. cbn [map render fst]. f_equal.
    rewrite map_map. apply map_ext. intros [v' g']. reflexivity. }
  rewrite E. reflexivity.
Qed.

(* CHOOSE with any number of values, jump table and goto words as Excel writes them *)
Theorem choose_correct_xlsb : forall show_f64 env k idx offs vals,
  wf_xlsb env (e_choose k idx offs vals) = true ->
  xlsb_parse_formula show_f64 env (encode_xlsb (e_choose k idx offs vals))
  = Ok (lit "CHOOSE(" ++ join_comma (render_xlsb show_f64 env idx ::
                                      map (fun vg => render_xlsb show_f64 env (fst vg)) vals) ++ [ch_rpar]).
Proof.
  intros show_f64 env k idx offs vals Hwf. rewrite (rpn_correct_xlsb show_f64 env _ Hwf).
  unfold render_xlsb. rewrite render_e_choose. reflexivity.
Qed.

Theorem choose_correct_xls : forall show_f64 env k idx offs vals,
  wf_xls env (e_choose k idx offs vals) = true ->
  N.of_nat (length (encode_xls (e_choose k idx offs vals))) < 65536 ->
  xls_parse_formula show_f64 env (frame_xls (encode_xls (e_choose k idx offs vals)))
  = Ok (lit "CHOOSE(" ++ join_comma (render_xls show_f64 env idx ::
                                      map (fun vg => render_xls show_f64 env (fst vg)) vals) ++ [ch_rpar]).
Proof.
  intros show_f64 env k idx offs vals Hwf Hlen. rewrite (rpn_correct_xls show_f64 env _ Hwf Hlen).
  unfold render_xls. rewrite render_e_choose. reflexivity.
Qed.

(* a call of a user-defined / future function: PtgName, the arguments, PtgFuncVar(tab 0x00FF) *)
Theorem user_function_correct_xlsb : forall show_f64 env k kn idx args,
  wf_xlsb env (EFuncVar k 255 (EName kn idx :: args)) = true ->
  xlsb_parse_formula show_f64 env (encode_xlsb (EFuncVar k 255 (EName kn idx :: args)))
  = Ok (spec_name (be_names env) idx ++ [ch_lpar] ++ join_comma (map (render_xlsb show_f64 env) args) ++ [ch_rpar]).
Proof. intros show_f64 env k kn idx args Hwf. rewrite (rpn_correct_xlsb show_f64 env _ Hwf). reflexivity. Qed.

Theorem user_function_correct_xls : forall show_f64 env k kn idx args,
  wf_xls env (EFuncVar k 255 (EName kn idx :: args)) = true ->
  N.of_nat (length (encode_xls (EFuncVar k 255 (EName kn idx :: args)))) < 65536 ->
  xls_parse_formula show_f64 env (frame_xls (encode_xls (EFuncVar k 255 (EName kn idx :: args))))
  = Ok (spec_name (xe_names env) idx ++ [ch_lpar] ++ join_comma (map (render_xls show_f64 env) args) ++ [ch_rpar]).
Proof. intros show_f64 env k kn idx args Hwf Hlen. rewrite (rpn_correct_xls show_f64 env _ Hwf Hlen). reflexivity. Qed.

(* witnesses of the repaired defects (audit E1-E4, G1, white space), computed:
   - issue_182.xlsb!A2: rgce 23 01000000 | 17 "A" | 19 40 00 01 | 17 "b" | 42 03 ff00
   - CHOOSE with 1, 2, 3, 4 and 10 values, both formats (xlsb skipped a fixed 10 bytes: right for 3 only)
   - MMULT / LENB / CONVERT as PtgFunc with 2 / 1 / 3 parameters
   - a formula that starts with PtgAttrSpace, and one with white space in front of the second operand *)
Fixpoint leqb (a b : list N) : bool :=
  match a, b with
  | [], [] => true
  | x :: a', y :: b' => (x =? y) && leqb a' b'
  | _, _ => false
  end.
Definition ex_choose (n : nat) : expr :=
  e_choose CVal (EInt 2) (map (fun i => N.of_nat (4 * i)) (seq 0 (S n)))
    (map (fun i => (EInt (N.of_nat (10 + i)), N.of_nat (4 * (n - i)))) (seq 0 n)).
Definition ex_choose_text (n : nat) : list N :=
  lit "CHOOSE(2" ++ flat_map (fun i => ch_comma :: dec (N.of_nat (10 + i))) (seq 0 n) ++ [ch_rpar].

Example repaired_witnesses :
  let xenv := {| xe_sheets := []; xe_names := [lit "_xlfn.CONCAT"]; xe_xtis := []; xe_base := None |} in
  let benv := {| be_sheets := []; be_names := [lit "_xlfn.CONCAT"]; be_base := None |} in
  let sf := fun _ : N => @nil N in
  xlsb_parse_formula sf benv [0x23; 1; 0; 0; 0; 0x17; 1; 0; 65; 0; 0x19; 0x40; 0; 1; 0x17; 1; 0; 98; 0; 0x42; 3; 255; 0]
    = Ok (lit "_xlfn.CONCAT(""A"",""b"")") /\
  encode_xlsb (EFuncVar CVal 255 [EName CRef 1; EStr false [65]; EAttrSkip 0x40 256 (EStr false [98])])
    = [0x23; 1; 0; 0; 0; 0x17; 1; 0; 65; 0; 0x19; 0x40; 0; 1; 0x17; 1; 0; 98; 0; 0x42; 3; 255; 0] /\
  forallb (fun n => match xlsb_parse_formula sf benv (encode_xlsb (ex_choose n)) with
                    | Ok s => leqb s (ex_choose_text n) | _ => false end
                    && wf_xlsb benv (ex_choose n)
                    && match xls_parse_formula sf xenv (frame_xls (encode_xls (ex_choose n))) with
                       | Ok s => leqb s (ex_choose_text n) | _ => false end
                    && wf_xls xenv (ex_choose n)) [1; 2; 3; 4; 10]%nat = true /\
  encode_xlsb (ex_choose 2)
    = [0x1E; 2; 0; 0x19; 0x04; 2; 0; 0; 0; 4; 0; 8; 0; 0x1E; 10; 0; 0x19; 0x08; 8; 0;
       0x1E; 11; 0; 0x19; 0x08; 4; 0; 0x42; 3; 100; 0] /\
  xls_parse_formula sf xenv (frame_xls (encode_xls (EFunc CVal 165 [EInt 1; EInt 2]))) = Ok (lit "MMULT(1,2)") /\
  xlsb_parse_formula sf benv (encode_xlsb (EFunc CVal 211 [EStr false [97]])) = Ok (lit "LENB(""a"")") /\
  xlsb_parse_formula sf benv (encode_xlsb (EFunc CVal 468 [EInt 1; EStr false [109]; EStr false [102]]))
    = Ok (lit "CONVERT(1,""m"",""f"")") /\
  xls_parse_formula sf xenv (frame_xls (encode_xls (EAttrSkip 0x40 0x0100 (EBin 3 (EInt 1) (EAttrSkip 0x40 0x0200 (EInt 2))))))
    = Ok (lit "1+2").
Proof. vm_compute. repeat split. Qed.

(* ================================================================== former known classes *)
(* K_STR_WIDE (F21, fixed by a3d91ee) and K_STR_QUOTE (fixed by 6ef7f34): their witnesses are now
   instances of the theorems; kept as computed regression examples. *)
Example former_known_witnesses :
  let env := {| xe_sheets := []; xe_names := []; xe_xtis := []; xe_base := None |} in
  let benv := {| be_sheets := []; be_names := []; be_base := None |} in
  xls_parse_formula (fun _ => []) env (frame_xls (encode_xls (EStr true [97; 98]))) = Ok (lit """ab""") /\
  xls_parse_formula (fun _ => []) env (frame_xls (encode_xls (EStr false [97; 34; 98]))) = Ok (lit """a""""b""") /\
  xlsb_parse_formula (fun _ => []) benv (encode_xlsb (EStr false [97; 34; 98])) = Ok (lit """a""""b""") /\
  xls_parse_formula (fun _ => []) env (frame_xls (encode_xls (EStr true [20013; 128512]))) = Ok [34; 20013; 128512; 34] /\
  xlsb_parse_formula (fun _ => []) benv (encode_xlsb (EStr false [65279; 128512])) = Ok [34; 65279; 128512; 34].
Proof. vm_compute. repeat split. Qed.

(* ================================================================== non-vacuity *)
(* a formula with every kind of operand, a quoted quote and a wide non-BMP string *)
Definition ex_env_xls : xls_env :=
  {| xe_sheets := [lit "Sheet1"; lit "Sheet2"]; xe_names := [lit "rate"];
     xe_xtis := [(0, 1, 1); (0, 65535, 65535)]; xe_base := None |}.
Definition ex_env_xlsb : xlsb_env := {| be_sheets := [lit "Sheet1"; lit "Sheet2"]; be_names := [lit "rate"]; be_base := None |}.
Definition ex_expr : expr :=
  let a := {| cr_row := 0; cr_col := 0; cr_row_rel := true; cr_col_rel := true |} in
  let b := {| cr_row := 1; cr_col := 27; cr_row_rel := false; cr_col_rel := false |} in
  let c := {| cr_row := 65535; cr_col := 16383; cr_row_rel := true; cr_col_rel := true |} in
  let d := {| cr_row := 2; cr_col := 1; cr_row_rel := false; cr_col_rel := true |} in
  EBin 3
    (EFuncVar CVal 4 [ERef CRef a; EArea CRef b c; EMissArg; ERef3d CRef 0 d])
    (EBin 5 (EUn UMinus (EParen (EBin 8 (EStr false [104; 34; 105]) (EStr true [26085; 128512]))))
            (EUn UPercent (EFunc CVal 1 [EBool true; EName CVal 1; EAttrSkip 1 0 (ESum (EInt 7))]))).

Example rpn_nonvacuous :
  wf_xls ex_env_xls ex_expr = true /\
  N.of_nat (length (encode_xls ex_expr)) < 65536 /\
  wf_xlsb ex_env_xlsb ex_expr = true /\
  render_xls (fun _ => []) ex_env_xls ex_expr =
    lit "SUM(A1,$AB$2:XFD65536,,Sheet2!B$3)+-(""h""""i""&""" ++ [26085; 128512] ++
    lit """)*IF(TRUE,rate,SUM(7))%".
Proof. vm_compute. repeat split. Qed.
