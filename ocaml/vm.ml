(* vm — the model side of the correspondence check: reads id<TAB>cmd<TAB>args… lines, answers
   id<TAB>answer using the functions extracted from the Coq model. *)
let () =
  All_cmds.force ();
  (try
     while true do
       let line = input_line stdin in
       if line <> "" then begin
         match String.split_on_char '\t' line with
         | id :: cmd :: args ->
           let ans =
             match Registry.find cmd with
             | None -> "unknown-command " ^ cmd
             | Some f ->
               (try f args with
                | Stack_overflow -> "model-stack-overflow"
                | e -> "model-exception " ^ Printexc.to_string e) in
           print_string id; print_char '\t'; print_string ans; print_char '\n'; flush stdout
         | _ -> ()
       end
     done
   with End_of_file -> ())
