"""C18 — VBA modules are extracted byte-exact from the compressed project.

Correspondence (hook calamine::verif_hooks::cfb::decompress_stream vs the extracted Coq model
Ovba.decompress):
  * structured cases: a source of 0..4 chunks is tokenised here (literal-only, greedy, random,
    overlap-biased, far-offset, raw chunks; token counts steered to every residue mod 8 in final
    and non-final chunks), the token list is sent to the EXTRACTED encoder (vm ovba_enc) which
    returns the container bytes, the validity verdict of Ovba.valid_chunkb, the spec meaning
    Ovba.sem and the known class; the container then goes through the real code and the model.
      impl vs spec  -> violation      impl vs model -> disagreement
  * boundary cases: copy tokens at every bit-count boundary with extreme offset/length, chunks
    that reach exactly 4096 bytes out / 4096 bytes in, chunk ends on a flag-byte boundary.
  * malformed containers (truncation at every length, corrupted headers / flag bytes / tokens,
    out-of-range offsets, short raw chunks, garbage): outcome classes ok-bytes / err / panic of
    model and code must agree (since the C06 hardening the model proves — C18_no_panic_decompress,
    C18_no_panic_dir — that no input panics: a "panic" answer of the code is a disagreement).
  * whole projects (vba.rs): random project descriptions -> dir stream from the EXTRACTED writer
    OvbaDir.encode_dir, compressed by the extracted container writer, inside a generated compound
    file -> VbaProject::new and Reader::vba_project of Xlsx/Xlsb/Xls; expected = the extracted
    spec OvbaDir.expected_refs + the generator's sources decoded with the project's code page.
    References with and without their optional NameRecord (first, middle, last, runs, all; the
    three reference kinds).  Modules with and without their optional MODULENAMEUNICODE record
    (MS-OVBA 2.3.4.2.3.2; about 35 % of the generated modules lack it: none / some / all of a
    project's modules, plus fixed projects).  Code pages: single-byte ones through their full 256-entry table;
    the multi-byte ones 932, 936 and 65001 through Python's codecs on text that is valid in the
    code page (characters on which Python and encoding_rs agree: see MB_ALPHABETS).
"""
import os, struct
import vlib

ASSUMPTIONS = [
    "a compressed container is valid when every chunk is: raw chunks carry exactly 4096 bytes (MS-OVBA pads the last one), token chunks respect the per-position offset/length limits, produce at most 4096 bytes and occupy at most 4098 bytes",
    "the read cursor of decompress_stream is modelled as the remaining suffix of the input, the output Vec as a reversed list plus its length (representation only; tied by the correspondence run)",
    "the code-page decoder is a parameter of the model (all theorems are for every decoder); the correspondence instantiates it with the full 256-entry table for single-byte code pages and, for 932 / 936 / 65001, with Python's cp932 / gbk / utf-8 codecs on text built from a fixed alphabet valid in the code page (where Python and encoding_rs agree); mutated dir streams keep the original PROJECTCODEPAGE value because the decoder handed to the model is the one of that code page",
    "MS-OVBA 2.3.4.2.2.1: the NameRecord of a REFERENCE is optional; a reference written without it is expected in the list with the empty name",
    "MS-OVBA 2.3.4.2.3.2: the MODULENAMEUNICODE record (0x0047) of a MODULE record is optional; a module written without it is expected under its MODULENAME (0x0019) text decoded with the project's code page, like one written with it",
]

CHUNK = 4096

# ------------------------------------------------------------------ format helpers (generator side)
def bitcount(pos):
    i = 4
    while (1 << i) < pos:
        i += 1
    return i

def max_len(pos):
    return (0xFFFF >> bitcount(pos)) + 3

def tok_out(t):
    return 1 if t[0] == "l" else t[2]

def py_valid_tokens(toks):
    """mirror of Ovba.valid_tokensb + the compressed-size limit; used only to steer generation
    (the verdict that counts is the extracted valid_chunkb)"""
    pos = 0
    if not toks:
        return False
    for t in toks:
        if t[0] == "l":
            if pos >= CHUNK:
                return False
            pos += 1
        else:
            _, off, ln = t
            if not (1 <= off <= pos and 3 <= ln <= max_len(pos) and pos + ln <= CHUNK):
                return False
            pos += ln
    return body_size(toks) <= CHUNK

def body_size(toks):
    n = len(toks)
    return (n + 7) // 8 + sum(1 if t[0] == "l" else 2 for t in toks)

def expand(toks, prefix=b""):
    out = bytearray()
    for t in toks:
        if t[0] == "l":
            out.append(t[1])
        else:
            _, off, ln = t
            for _ in range(ln):
                out.append(out[len(out) - off])
    return bytes(out)

def chunk_text(ch):
    """wire form understood by ocaml/cmd_ovba.ml"""
    if ch[0] == "R":
        return "R" + ch[1].hex()
    parts, run = [], bytearray()
    for t in ch[1]:
        if t[0] == "l":
            run.append(t[1])
        else:
            if run:
                parts.append("l" + bytes(run).hex()); run = bytearray()
            parts.append("c%d:%d" % (t[1], t[2]))
    if run:
        parts.append("l" + bytes(run).hex())
    return "T" + ",".join(parts)

def chunks_text(chs):
    return ";".join(chunk_text(c) for c in chs) if chs else "-"

# ------------------------------------------------------------------ sources
KEYWORDS = [b"Sub ", b"End Sub\r\n", b"Dim ", b" As Integer\r\n", b"Attribute VB_Name = \"", b"Module1\"\r\n",
            b"    ", b"For i = 1 To ", b"Next i\r\n", b"MsgBox ", b"Range(\"A1\").Value = ", b"'", b"\r\n"]

def gen_source(rng, size, kind):
    if size == 0:
        return b""
    if kind == "random":          # low redundancy
        return bytes(rng.randrange(256) for _ in range(size))
    if kind == "alpha":           # small alphabet
        a = rng.choice([2, 3, 4, 16])
        return bytes(rng.randrange(a) for _ in range(size))
    if kind == "run":             # one byte repeated, a few exceptions
        d = bytearray([rng.randrange(256)]) * size
        for _ in range(rng.choice([0, 1, 5])):
            d[rng.randrange(size)] = rng.randrange(256)
        return bytes(d)
    if kind == "period":          # periodic with mutations
        base = bytes(rng.randrange(rng.choice([2, 16, 256])) for _ in range(rng.choice([1, 2, 3, 5, 17, 64, 300])))
        d = bytearray((base * (size // len(base) + 1))[:size])
        for _ in range(rng.choice([0, 3, 20, 100])):
            d[rng.randrange(size)] = rng.randrange(256)
        return bytes(d)
    if kind == "utf8":            # VBA text whose non-ASCII bytes happen to form valid UTF-8 (e.g. a
        out = bytearray()         # mojibake-repair macro holding "Ã©"): still to be decoded with the
        while len(out) < size:    # project's code page, byte by byte
            if rng.random() < 0.6:
                out += rng.choice(KEYWORDS)
            else:
                out += rng.choice(["é", "è", "ü", "ß", "Ω", "ж", "€", "—", "日本", "😀"]).encode("utf-8")
        out = out[:size]
        while out:                # do not end inside a multi-byte sequence
            try:
                out.decode("utf-8"); break
            except UnicodeDecodeError:
                out = out[:-1]
        return bytes(out) or b"x"
    if kind == "bom":             # text starting with bytes that look like a byte-order mark: they are
        head = rng.choice([b"\xef\xbb\xbf", b"\xff\xfe", b"\xfe\xff"])   # text of the code page, not a BOM
        return (head + gen_source(rng, size, "vba"))[:size]
    # "vba": text-like
    out = bytearray()
    while len(out) < size:
        if rng.random() < 0.7:
            out += rng.choice(KEYWORDS)
        else:
            out += bytes(rng.choice(b"abcdefghijklmnopqrstuvwxyz0123456789_ =()") for _ in range(rng.randrange(1, 9)))
    return bytes(out[:size])

SOURCE_KINDS = ["random", "alpha", "run", "period", "vba"]
HIGH_REDUNDANCY = {"alpha", "run", "period", "vba"}

# ------------------------------------------------------------------ tokenisers
def tokenise(data, mode, rng):
    """one chunk (len(data) <= 4096) -> list of tokens ('l', byte) / ('c', off, len)"""
    n = len(data)
    toks, pos, index = [], 0, {}
    def add_index(a, b):
        for p in range(a, b):
            if p + 3 <= n:
                index.setdefault(data[p:p + 3], []).append(p)
    while pos < n:
        best = None
        if mode != "lit" and pos > 0 and pos + 3 <= n:
            cands = index.get(data[pos:pos + 3], [])
            if cands:
                ml = min(max_len(pos), n - pos)
                if mode == "greedy":
                    pick = cands[-24:]
                elif mode == "far":
                    pick = cands[:8]
                elif mode == "overlap":
                    pick = cands[-3:]
                else:
                    pick = [rng.choice(cands) for _ in range(3)]
                scored = []
                for p in pick:
                    off = pos - p
                    l = 3
                    while l < ml and data[pos + l] == data[pos + l - off]:
                        l += 1
                    scored.append((l, -off))
                if mode == "greedy":
                    l, noff = max(scored)
                elif mode == "far":
                    l, noff = min(scored, key=lambda t: t[1])
                elif mode == "overlap":
                    l, noff = max(scored, key=lambda t: (t[0] > -t[1], t[0]))
                else:
                    l, noff = rng.choice(scored)
                    l = rng.randint(3, l)
                    if rng.random() < 0.25:
                        l = None
                if l is not None:
                    best = (l, -noff)
        if best:
            l, off = best
            toks.append(("c", off, l))
            add_index(pos, pos + l)
            pos += l
        else:
            toks.append(("l", data[pos]))
            add_index(pos, pos + 1)
            pos += 1
    return toks

def steer_mod8(toks, target, rng):
    """same meaning, token count = target (mod 8) when possible: split copies, or spell a copy
    out as literals"""
    toks = list(toks)
    for _ in range(40):
        if len(toks) % 8 == target:
            return toks
        pos, splits, spell = 0, [], []
        for k, t in enumerate(toks):
            if t[0] == "c":
                if t[2] >= 6:
                    splits.append((k, pos))
                spell.append((k, pos))
            pos += tok_out(t)
        done = False
        rng.shuffle(splits)
        for k, p in splits:
            _, off, ln = toks[k]
            a = rng.randint(3, ln - 3)
            if ln - a <= max_len(p + a):
                cand = toks[:k] + [("c", off, a), ("c", off, ln - a)] + toks[k + 1:]
                if body_size(cand) <= CHUNK:
                    toks = cand; done = True; break
        if done:
            continue
        if spell:
            k, p = rng.choice(spell)
            data = expand(toks)
            _, off, ln = toks[k]
            cand = toks[:k] + [("l", b) for b in data[p:p + ln]] + toks[k + 1:]
            if body_size(cand) <= CHUNK:
                toks = cand
                continue
        break
    return toks

# ------------------------------------------------------------------ structured cases
class Case:
    __slots__ = ("cid", "chunks", "source", "tags", "want_sem", "hexc", "sem", "valid", "known")
    def __init__(self, cid, chunks, source, tags, want_sem):
        self.cid, self.chunks, self.source, self.tags, self.want_sem = cid, chunks, source, tags, want_sem

def make_chunk(rng, data, mode, target_mod8):
    """returns (chunk, meaning, mode actually used)"""
    if mode == "raw":
        padded = data.ljust(CHUNK, b"\0")
        return ("R", padded), padded, "raw"
    toks = tokenise(data, mode, rng)
    if target_mod8 is not None:
        toks = steer_mod8(toks, target_mod8, rng)
    if not data or body_size(toks) > CHUNK:
        if not data:
            return None, b"", mode
        if mode != "greedy":
            toks = tokenise(data, "greedy", rng)
        if body_size(toks) > CHUNK:
            padded = data.ljust(CHUNK, b"\0")
            return ("R", padded), padded, "raw"
    return ("T", toks), data, mode

def gen_structured(rng, cid, small):
    nch = rng.choice([0, 1, 1, 1, 2, 2, 3, 3, 4]) if not small else rng.choice([1, 1, 2, 3])
    kind = rng.choice(SOURCE_KINDS)
    chunks, source, tags = [], bytearray(), ["src:" + kind, "chunks:%d" % nch]
    for ci in range(nch):
        last = ci == nch - 1
        if small:
            size = rng.choice([1, 2, 3, 7, 8, 9, 15, 16, 17, 24, 33, 64, 65, 100, 200])
        elif last:
            size = rng.choice([1, 5, 8, 16, 17, 64, 300, 1000, 2049, 3000, 4095, 4096])
        else:
            size = CHUNK if rng.random() < 0.8 else rng.choice([1, 8, 16, 100, 1500, 4095])
        data = gen_source(rng, size, kind)
        modes = ["lit", "greedy", "rand", "rand", "overlap", "far"]
        if size == CHUNK or rng.random() < 0.03:
            modes.append("raw")
        mode = rng.choice(modes)
        if mode == "lit" and size + (size + 7) // 8 > CHUNK:
            mode = "greedy"
        target = rng.randrange(8) if rng.random() < 0.7 else None
        ch, meaning, used = make_chunk(rng, data, mode, target)
        if ch is None:
            continue
        chunks.append(ch)
        source += meaning
        where = "final" if last else "nonfinal"
        tags.append("tok:" + used)
        if ch[0] == "T":
            tags.append("%s_mod8:%d" % (where, len(ch[1]) % 8))
            if len(meaning) == CHUNK:
                tags.append("out=4096")
            if body_size(ch[1]) == CHUNK:
                tags.append("in=4096")
    tags.append("redundancy:" + ("high" if kind in HIGH_REDUNDANCY else "low"))
    return Case(cid, chunks, bytes(source), tags, want_sem=len(source) <= 1500 or rng.random() < 0.05)

def boundary_cases(rng, tier):
    """hand-built token chunks around every limit"""
    out = []
    def add(chunks, tag):
        src = b"".join(c[1] if c[0] == "R" else expand(c[1]) for c in chunks)
        coarse = tag.split("_off")[0].split("_then")[0] if tag.startswith("pos") else tag
        coarse = "copy_at_pos_" + ("bitcount_edge" if tag.startswith("pos") else coarse) if tag.startswith("pos") else coarse
        out.append(Case("b%d" % len(out), chunks, src, ["boundary:" + coarse], want_sem=len(src) <= 9000))
    poss = set()
    for b in range(4, 13):
        for d in (-1, 0, 1):
            p = (1 << b) + d
            if 1 <= p < CHUNK:
                poss.add(p)
    poss |= {1, 2, 3, 4095}
    if tier == "thorough":
        poss |= set(range(1, CHUNK, 1))
    for p in sorted(poss):
        lits = [("l", (7 * k + p) & 0xFF) for k in range(p)]
        ml = min(max_len(p), CHUNK - p)
        if ml < 3:
            continue
        combos = [(1, 3), (1, ml), (p, 3), (p, ml)]
        if tier == "thorough" and p not in (1, 15, 16, 17, 4095) and p % 97:
            combos = [rng.choice(combos)]
        for off, ln in combos:
            toks = lits + [("c", off, ln)]
            if body_size(toks) > CHUNK:
                # too many literals to fit: build the prefix with a long run instead
                toks = [("l", 65), ("c", 1, min(max_len(1), p - 1))] if p > 4 else lits
                while sum(tok_out(t) for t in toks) < p:
                    q = sum(tok_out(t) for t in toks)
                    toks.append(("c", 1, min(max_len(q), p - q)) if p - q >= 3 else ("l", 66 + (p - q)))
                toks = toks + [("c", off, ln)]
            if py_valid_tokens(toks):
                add([("T", toks)], "pos%d_off%s_len%s" % (p, "1" if off == 1 else "max", "3" if ln == 3 else "max"))
                # followed by another chunk, to exercise the chunk end
                if p in (1, 16, 17, 4095) :
                    add([("T", toks), ("T", [("l", 1), ("l", 2)])], "pos%d_then_chunk" % p)
    # chunk ends exactly on a flag-byte boundary (the defect repaired by 01a1da3), 8..64 tokens
    for n in (8, 16, 24, 64):
        toks = [("l", k & 0xFF) for k in range(n)]
        add([("T", toks), ("T", toks[:3])], "mult8_nonfinal_%d" % n)
        add([("T", toks)], "mult8_final_%d" % n)
        add([("T", toks), ("R", bytes(range(256)) * 16), ("T", toks)], "mult8_then_raw_%d" % n)
    # exactly 4096 bytes out, ending with a copy / with a literal
    t1 = [("l", 1), ("c", 1, 4095)]
    add([("T", t1)], "out4096_copy_end")
    add([("T", t1), ("T", t1), ("T", [("l", 9)])], "out4096_twice")
    t2 = [("l", 1), ("c", 1, 4094), ("l", 2)]
    add([("T", t2), ("T", [("l", 3)])], "out4096_literal_end")
    # 8 tokens and exactly 4096 out
    t3 = [("l", 1), ("c", 1, 4089)] + [("l", k) for k in range(6)]
    add([("T", t3), ("T", t3)], "out4096_mult8")
    # compressed size exactly 4096 (+2 header = 4098): 3640 literals + 455 flag bytes = 4095; add one
    lits = [("l", (k * 31) & 0xFF) for k in range(3640)]
    add([("T", lits)], "in4095_literals")
    toks = lits[:3633] + [("c", 7, 3)] + lits[3633:3639]   # 3640 tokens: 455 flags + 3639 + 2 = 4096
    if body_size(toks) == CHUNK and py_valid_tokens(toks):
        add([("T", toks), ("T", [("l", 5)])], "in4096_exact")
    # raw chunks in every position
    rawd = bytes((k * k + 3) & 0xFF for k in range(CHUNK))
    add([("R", rawd)], "raw_only")
    add([("R", rawd), ("R", rawd[::-1])], "raw_raw")
    add([("T", [("l", 1)]), ("R", rawd), ("T", [("l", 2), ("l", 3), ("c", 2, 10)])], "short_raw_short")
    add([], "empty_container")
    # one-token chunks, many of them
    add([("T", [("l", k)]) for k in range(20)], "twenty_one_byte_chunks")
    return out

def run_structured(ctx, cases):
    """encode with the extracted encoder, run model and code, three-way compare"""
    enc_lines = ["%s\tovba_enc\t%s\t%d" % (c.cid, chunks_text(c.chunks), 1 if c.want_sem else 0) for c in cases]
    enc = ctx.run_model(enc_lines)
    lines = []
    for c in cases:
        a = enc.get(c.cid, "")
        f = a.split("|")
        if len(f) != 4:
            ctx.disagreements.append({"function": "ovba_enc", "case": c.cid + "\tovba_enc\t" + chunks_text(c.chunks)[:2000],
                                      "impl": "(n/a)", "model": a[:200]})
            c.hexc = None
            continue
        c.hexc, c.sem, c.valid, c.known = f[0], f[1], f[2] == "1", f[3]
        lines.append("%s\tovba\t%s" % (c.cid, c.hexc))
    impl, model = ctx.run_both(lines)
    for c in cases:
        if c.hexc is None:
            continue
        i, m = impl.get(c.cid), model.get(c.cid)
        case_line = "%s\tovba\t%s" % (c.cid, c.hexc)
        ctx.traces += 1
        for t in c.tags:
            ctx.count(t)
        if not c.valid:
            # the generator only builds valid chunk lists: anything else is a generator defect
            ctx.disagreements.append({"function": "generator_valid", "case": c.cid + "\tovba_enc\t" + chunks_text(c.chunks)[:2000],
                                      "impl": "python: valid", "model": "Ovba.valid_chunkb: invalid"})
            continue
        ctx.count("valid_structured")
        expected = "ok:" + c.source.hex()
        if c.want_sem and c.sem != c.source.hex():
            ctx.disagreements.append({"function": "sem_vs_generator", "case": c.cid + "\tovba_enc\t" + chunks_text(c.chunks)[:2000],
                                      "impl": "python source " + c.source.hex()[:200], "model": "Ovba.sem " + c.sem[:200]})
            continue
        if c.want_sem:
            ctx.count("spec_sem_checked")
        if len(c.source) > 0:
            ctx.nontrivial(c.hexc)
        if i != expected:
            if c.known != "-":
                ctx.known_hits["class%s" % c.known] = case_line[:4000]
            else:
                ctx.violations.append({"case": case_line, "expected": expected, "actual": i, "model": m,
                                       "what": "valid container (%s) is not decompressed to its source" % ",".join(c.tags)})
        elif c.known != "-":
            ctx.notes.append("known class %s did not reproduce on %s" % (c.known, c.cid))
        if i != m:
            ctx.disagreements.append({"function": "decompress_stream", "case": case_line, "impl": i, "model": m})
        if len(ctx.samples) < 4 and c.chunks and len(c.hexc) < 200:
            ctx.sample({"chunks": chunks_text(c.chunks), "container": c.hexc, "impl": i, "model": m})

# ------------------------------------------------------------------ malformed containers
def header(size_field, sig=3, flag=1):
    return struct.pack("<H", (size_field & 0xFFF) | ((sig & 7) << 12) | ((flag & 1) << 15))

def py_encode_tokens(toks):
    """generator-side writer used only to craft malformed containers (invalid tokens allowed)"""
    body, pos = bytearray(), 0
    for g in range(0, len(toks), 8):
        grp = toks[g:g + 8]
        fb = 0
        for k, t in enumerate(grp):
            if t[0] == "c":
                fb |= 1 << k
        body.append(fb)
        for t in grp:
            if t[0] == "l":
                body.append(t[1]); pos += 1
            else:
                bc = bitcount(pos)
                tok = (((t[1] - 1) << (16 - bc)) | ((t[2] - 3) & (0xFFFF >> bc))) & 0xFFFF
                body += struct.pack("<H", tok); pos += t[2]
    return bytes(body)

def malformed_cases(rng, valid_hex, n_random, tier):
    out = []
    def add(b, tag):
        out.append(("m%d" % len(out), bytes(b), tag))
    small = [bytes.fromhex(h) for h in valid_hex if len(h) <= 2 * 700]
    big = [bytes.fromhex(h) for h in valid_hex if len(h) > 2 * 700]
    # truncation at every length
    for b in small[: (60 if tier == "quick" else 400)]:
        for k in range(len(b)):
            add(b[:k], "truncate")
    for b in big[: (30 if tier == "quick" else 300)]:
        cuts = {0, 1, 2, 3, 4, len(b) - 1, len(b) - 2, len(b) - 3, 4098, 4099, 4100, 4101, 4097}
        cuts |= {rng.randrange(len(b)) for _ in range(12)}
        for k in sorted(cuts):
            if 0 <= k < len(b):
                add(b[:k], "truncate_big")
    # appended bytes
    for b in (small + big)[:40]:
        add(b + bytes([rng.randrange(256)]), "append1")
        add(b + bytes(rng.randrange(256) for _ in range(rng.randrange(2, 9))), "append_n")
    # header corruption
    pool = small + big[:40]
    for _ in range(n_random):
        b = bytearray(rng.choice(pool)) if pool else bytearray(b"\x01")
        if len(b) < 4:
            continue
        kind = rng.choice(["sig", "flag", "size", "byte", "byte", "flagbyte", "swap", "signature0"])
        if kind == "sig":
            b[2] ^= rng.choice([0x10, 0x20, 0x40, 0x70])
        elif kind == "flag":
            b[2] ^= 0x80
        elif kind == "size":
            v = struct.unpack_from("<H", b, 1)[0]
            sz = (v & 0xFFF) + rng.choice([-3, -2, -1, 1, 2, 3, 8, 9, -8, 100, -100])
            struct.pack_into("<H", b, 1, (v & 0xF000) | (sz & 0xFFF))
        elif kind == "byte":
            b[rng.randrange(len(b))] = rng.randrange(256)
        elif kind == "flagbyte":
            b[3] ^= 1 << rng.randrange(8)
        elif kind == "swap":
            i, j = rng.randrange(len(b)), rng.randrange(len(b))
            b[i], b[j] = b[j], b[i]
        else:
            b[0] = rng.choice([0, 2, 255])
        add(b, "corrupt_" + kind)
    # crafted invalid token streams
    for _ in range(n_random // 2):
        toks, pos = [], 0
        for _ in range(rng.randrange(1, 30)):
            if rng.random() < 0.5:
                toks.append(("l", rng.randrange(256))); pos += 1
            else:
                off = rng.choice([1, max(pos, 1), pos + 1, pos + 5, 1 << bitcount(pos), rng.randrange(1, 70)])
                off = min(off, 1 << bitcount(pos))
                ln = rng.choice([3, 4, 18, max_len(pos), rng.randrange(3, 40)])
                ln = min(ln, max_len(pos))
                toks.append(("c", off, ln)); pos += ln
        body = py_encode_tokens(toks)
        pre = b""
        if rng.random() < 0.4:   # a previous chunk: offsets may reach back into it
            pb = py_encode_tokens([("l", k) for k in range(rng.randrange(1, 20))])
            pre = header(len(pb) - 1) + pb
        szf = len(body) - 1 + rng.choice([0, 0, 0, 0, 1, -1, 5, -5])
        add(b"\x01" + pre + header(szf) + body, "crafted_tokens")
    # copy token at position 0, in the first chunk and in a later one
    add(b"\x01" + header(2) + bytes([1, 0x00, 0x00]), "copy_at_pos0_first")
    add(b"\x01" + header(2) + bytes([0, 7, 8]) + header(2) + bytes([1, 0x00, 0x00]), "copy_at_pos0_later")
    add(b"\x01" + header(2) + bytes([0, 7, 8]) + header(2) + bytes([1, 0x00, 0x10]), "copy_at_pos0_later")
    # output beyond 4096 in one chunk, and far beyond
    add(b"\x01" + header(3) + bytes([2, 65, 0xFF, 0x0F]), "len4098_at_pos1")
    add(b"\x01" + header(5) + bytes([6, 65, 0xFF, 0x0F, 0xFF, 0xFF]), "beyond_4096")
    add(b"\x01" + header(5) + bytes([6, 65, 0xFF, 0x0F, 0x07, 0x80]), "offset_4097_buf")
    add(b"\x01" + header(5) + bytes([6, 65, 0xFF, 0x0F, 0x07, 0xFF]), "offset_large")
    add(b"\x01" + header(5) + bytes([6, 65, 0xFF, 0x0F, 0x00, 0x80]), "offset_4097_short_len")
    many = bytes([0xFE, 65]) + b"\xff\x0f" * 7 + (b"\xff" + b"\xff\xff" * 8) * 200
    add(b"\x01" + header(len(many) - 1) + many, "huge_output")
    # raw chunks shorter than 4096 (what a writer that does not pad would produce)
    for n in (0, 1, 100, 4095):
        add(b"\x01" + header(n + 2 - 3 if n else 0xFFF, flag=0) + bytes(range(256)) * (n // 256) + bytes(range(n % 256)), "short_raw_%d" % n)
    add(b"\x01" + header(4095, flag=0) + bytes(4096) + b"\x00", "raw_then_1_byte")
    add(b"\x01" + header(10, flag=0) + bytes(4096), "raw_wrong_size_field")
    add(b"\x01" + header(4095, flag=0) + bytes(4097), "raw_4097")
    # flag byte with no token after it, size field says more
    add(b"\x01" + header(0) + bytes([0]), "flag_only_size0")
    add(b"\x01" + header(1) + bytes([0]), "flag_only_size1")
    add(b"\x01" + header(0) + bytes([0, 5]), "size0_with_literal")
    add(b"\x01" + header(8) + bytes([0]) + bytes(range(8)) + bytes([0]), "mult8_then_stray_flag")
    add(b"\x01" + header(9) + bytes([0]) + bytes(range(8)) + bytes([0]), "mult8_then_counted_flag")
    # garbage
    for _ in range(n_random // 4):
        n = rng.choice([1, 2, 3, 4, 5, 9, 20, 100])
        add(bytes([1]) + bytes(rng.randrange(256) for _ in range(n)), "garbage_sig1")
        b = bytearray(rng.randrange(256) for _ in range(n + 3))
        b[0] = 1; b[2] = (b[2] & 0x8F) | 0x30
        add(b, "garbage_good_header")
    return out

def run_malformed(ctx, cases):
    lines = ["%s\tovba\t%s" % (cid, b.hex()) for cid, b, _ in cases]
    impl, model = ctx.run_both(lines)
    for (cid, b, tag), line in zip(cases, lines):
        i, m = impl.get(cid), model.get(cid)
        ctx.traces += 1
        ctx.count("malformed:" + tag)
        cls = (i or "none").split(":")[0]
        ctx.count("malformed_outcome:" + cls)
        if len(b) > 3:
            ctx.nontrivial(line.split("\t", 2)[2])
        if i != m:
            ctx.disagreements.append({"function": "decompress_stream(malformed)", "case": line, "impl": i, "model": m})

# ------------------------------------------------------------------ copy-token codec through the model
def run_codec(ctx, n):
    """pack with the spec's packer, unpack with the model's field extraction, on random and
    boundary (pos, off, len); the general statement is the theorem copy_token_codec"""
    rng = ctx.rng
    trip = []
    for b in range(0, 13):
        for d in (-1, 0, 1):
            p = (1 << b) + d
            if 1 <= p < CHUNK:
                for off in {1, p, (p + 1) // 2}:
                    for ln in {3, max_len(p), (3 + max_len(p)) // 2}:
                        trip.append((p, off, ln))
    for _ in range(n):
        p = rng.randrange(1, CHUNK)
        trip.append((p, rng.randrange(1, p + 1), rng.randrange(3, max_len(p) + 1)))
    lines = ["t%d\tovba_tok\t%d\t%d\t%d" % (k, p, o, l) for k, (p, o, l) in enumerate(trip)]
    ans = ctx.run_model(lines)
    for k, (p, o, l) in enumerate(trip):
        a = ans.get("t%d" % k, "")
        f = a.split("|")
        exp_tok = ((o - 1) << (16 - bitcount(p))) | (l - 3)
        ok = len(f) == 3 and f[0] == str(exp_tok) and f[1] == str(max_len(p)) and f[2] == "%d:%d" % (l, o)
        ctx.count("codec_checked")
        if not ok:
            ctx.disagreements.append({"function": "copy_token_codec", "case": lines[k], "impl": "python %d|%d|%d:%d" % (exp_tok, max_len(p), l, o), "model": a})

# ------------------------------------------------------------------ whole projects (vba.rs)
FREE, EOC, FATS = 0xFFFFFFFF, 0xFFFFFFFE, 0xFFFFFFFD
KNOWN_DIR = {}   # OvbaDir.known_C18_dir class -> finding id (no class left: nameless_reference was fixed)

def cfb_write(streams, rng, version=3, shuffle=True, decoys=True, extra_entries=()):
    """minimal compound-file writer (flat directory: calamine looks streams up by name only);
    streams: [(name, bytes)].  Layout variety belongs to property C13; here: both sector sizes,
    mini stream vs regular sectors, shuffled sector order."""
    ss = 512 if version == 3 else 4096
    big = [(n, b) for n, b in streams if len(b) >= 4096]
    small = [(n, b) for n, b in streams if len(b) < 4096]
    total_mini = sum((len(b) + 63) // 64 for _, b in small)
    order = list(range(total_mini))
    if shuffle:
        rng.shuffle(order)
    mini, minifat, mini_start, k = bytearray(total_mini * 64), [FREE] * total_mini, {}, 0
    for n, b in small:
        cnt = (len(b) + 63) // 64
        ids = order[k:k + cnt]; k += cnt
        mini_start[n] = ids[0] if ids else EOC
        for idx, sid in enumerate(ids):
            piece = b[idx * 64:(idx + 1) * 64]
            mini[sid * 64:sid * 64 + len(piece)] = piece
            minifat[sid] = ids[idx + 1] if idx + 1 < len(ids) else EOC
    objs = [("s:" + n, bytes(b)) for n, b in big]
    if total_mini:
        objs.append(("mini", bytes(mini)))
        mf = b"".join(struct.pack("<I", x) for x in minifat)
        objs.append(("minifat", mf.ljust(((len(mf) + ss - 1) // ss) * ss, b"\xff")))
    extra = ([("VBA", 1), ("PROJECT", 2), ("_VBA_PROJECT", 2)] if decoys else []) + list(extra_entries)
    ndir = 1 + len(streams) + len(extra)
    dir_secs = (ndir * 128 + ss - 1) // ss
    objs.append(("dir", b"\0" * (dir_secs * ss)))
    nsec = sum((len(b) + ss - 1) // ss for _, b in objs)
    nfat = 1
    while nfat * (ss // 4) < nsec + nfat:
        nfat += 1
    assert nfat <= 109
    total = nsec + nfat
    ids = list(range(total))
    if shuffle:
        rng.shuffle(ids)
    fat = [FREE] * (nfat * (ss // 4))
    fat_ids, p = ids[:nfat], nfat
    for f in fat_ids:
        fat[f] = FATS
    chains = {}
    for kname, b in objs:
        cnt = (len(b) + ss - 1) // ss
        c = ids[p:p + cnt]; p += cnt
        chains[kname] = c
        for i2, sid in enumerate(c):
            fat[sid] = c[i2 + 1] if i2 + 1 < len(c) else EOC
    sectors = [b"\0" * ss for _ in range(total)]
    for kname, b in objs:
        if kname == "dir":
            continue
        for i2, sid in enumerate(chains[kname]):
            sectors[sid] = b[i2 * ss:(i2 + 1) * ss].ljust(ss, b"\0")
    def dirent(name, typ, start, size):
        n = name.encode("utf-16le") + b"\0\0"
        assert len(n) <= 64
        return (n.ljust(64, b"\0") + struct.pack("<H", len(n)) + bytes([typ, 1]) +
                struct.pack("<III", FREE, FREE, FREE) + b"\0" * 36 + struct.pack("<I", start) +
                struct.pack("<Q", size))
    root = dirent("Root Entry", 5, chains["mini"][0] if total_mini else EOC, total_mini * 64)
    ents = []
    for n, b in streams:
        if len(b) >= 4096:
            ents.append(dirent(n, 2, chains["s:" + n][0], len(b)))
        else:
            ents.append(dirent(n, 2, mini_start[n], len(b)))
    # decoys never shadow a real stream: they go last and keep size 0
    ents += [dirent(n, t, EOC, 0) for n, t in extra if n not in [s[0] for s in streams]]
    d = (root + b"".join(ents)).ljust(dir_secs * ss, b"\0")
    for i2, sid in enumerate(chains["dir"]):
        sectors[sid] = d[i2 * ss:(i2 + 1) * ss]
    fb = b"".join(struct.pack("<I", x) for x in fat)
    for i2, sid in enumerate(fat_ids):
        sectors[sid] = fb[i2 * ss:(i2 + 1) * ss]
    hdr = (bytes.fromhex("D0CF11E0A1B11AE1") + b"\0" * 16 +
           struct.pack("<HHHHH", 0x3E, version, 0xFFFE, 9 if version == 3 else 12, 6) + b"\0" * 6)
    hdr += struct.pack("<IIIII", 0 if version == 3 else dir_secs, nfat, chains["dir"][0], 0, 4096)
    hdr += struct.pack("<II", chains["minifat"][0] if total_mini else EOC, len(chains["minifat"]) if total_mini else 0)
    hdr += struct.pack("<II", EOC, 0)
    hdr += b"".join(struct.pack("<I", x) for x in fat_ids) + struct.pack("<I", FREE) * (109 - nfat)
    assert len(hdr) == 512
    return hdr.ljust(ss, b"\0") + b"".join(sectors)

def sb_table(codec):
    """single-byte code page as encoding_rs decodes it (WHATWG index): bytes 0x80..0x9F that
    Python leaves undefined are the C1 control of the same value, undefined bytes above are
    U+FFFD, everything else as Python's codec"""
    out = []
    for b in range(256):
        try:
            out.append(ord(bytes([b]).decode(codec)))
        except UnicodeDecodeError:
            out.append(b if b < 0xA0 else 0xFFFD)
    return out

CODEPAGES = {1252: sb_table("cp1252"), 1251: sb_table("cp1251"), 1250: sb_table("cp1250"),
             1253: sb_table("cp1253"), 28591: sb_table("cp1252"), 874: None, 932: None, 65001: None, 936: None}
UNKNOWN_CODEPAGES = [437, 0, 1, 850, 10001, 65000]

# multi-byte code pages: Python codec + characters whose encoding Python's codec and encoding_rs
# (WHATWG Shift_JIS / GBK / UTF-8) read alike.  Deliberately included: Shift_JIS characters whose
# trail byte is an ASCII value (ソ 83 5C, 表 95 5C, 能 94 5C, 予 97 5C, ポ 83 7C, ― 81 5C), half-width
# katakana (single bytes A1..DF), GBK trail bytes in 40..7E, UTF-8 sequences of 2, 3 and 4 bytes.
MB_ALPHABETS = {
    932: ("cp932", "あいうえおかきくけこさしすせそぁんアイウエオソポマクロ日本語表示能力予定変数値開始終了―、。「」ＡＢＣ１２３ｱｲｳｴｵｶﾞﾊﾟｿ"),
    936: ("gbk", "中文宏模块变量显示开始结束值数字符串工作簿单元格，。：；（）ＡＢＣ１２３乂亍丂丄"),
    65001: ("utf-8", "éèüßÃ©ΩжЯ€—“”日本語中文한글ｱ😀𝒳\u00a0\u200b"),
}
for _cp, (_codec, _chars) in MB_ALPHABETS.items():
    for _c in _chars:                      # every character survives a round trip in Python's codec
        assert _c.encode(_codec).decode(_codec) == _c, (_cp, _c)

def mb_of(high):
    return high if isinstance(high, tuple) else None

def hx(b):
    return b.hex() if b else "-"

IDENT = b"abcdefghijklmnopqrstuvwxyzABCDEFGHIJKLMNOPQRSTUVWXYZ0123456789_"
def bmp(chars):
    return [c for c in chars if ord(c) < 0x10000]

def gen_name(rng, high, lo=1, hi=14):
    """high: False (ASCII), True (single-byte code page: high bytes too) or (codec, chars) for a
    multi-byte code page (names stay inside the BMP: compound-file entry names are UTF-16)"""
    n = rng.randrange(lo, hi + 1)
    if mb_of(high):
        codec, chars = high
        return "".join(rng.choice(bmp(chars)) if rng.random() < 0.5 else chr(rng.choice(IDENT))
                       for _ in range(n)).encode(codec)
    alpha = IDENT + (bytes(range(0xC0, 0x100)) if high else b"")
    return bytes(rng.choice(alpha) for _ in range(n))

TEXT_ASCII = b" abcdefghijklmnopqrstuvwxyz.:\\{}-0123456789()"
def gen_text(rng, high, n):
    if mb_of(high):
        codec, chars = high
        return "".join(rng.choice(chars) if rng.random() < 0.4 else chr(rng.choice(TEXT_ASCII))
                       for _ in range(n)).encode(codec)
    alpha = TEXT_ASCII + (bytes(range(0xA1, 0x100)) if high else b"")
    return bytes(rng.choice(alpha) for _ in range(n))

def gen_mb_source(rng, total, high, kind):
    """module source of exactly [total] bytes that is valid text in the multi-byte code page"""
    codec, chars = high
    out = bytearray()
    if kind == "bom" and codec == "utf-8" and total >= 3:
        out += b"\xef\xbb\xbf"            # decode_all does no BOM handling: U+FEFF stays in the text
    while len(out) < total:
        r = rng.random()
        if r < 0.45:
            piece = rng.choice(KEYWORDS)
        elif r < 0.9:
            piece = "".join(rng.choice(chars) for _ in range(rng.randrange(1, 6))).encode(codec)
        else:
            piece = rng.choice(chars).encode(codec) * rng.randrange(3, 40)   # redundancy: copy tokens inside characters
        if len(out) + len(piece) <= total:
            out += piece
        else:
            out += b" " * (total - len(out))
    return bytes(out)

def make_decoder(table, high):
    """bytes -> str as the project's code page reads them (the oracle of this generator)"""
    if mb_of(high):
        codec = high[0]
        return lambda b: b.decode(codec)
    return lambda b: "".join(chr(table[x]) for x in b)

# where the references without NameRecord go (MS-OVBA 2.3.4.2.2.1: the NameRecord is optional)
NAMELESS_PATTERNS = ["none", "none", "none", "rare", "first", "last", "middle", "run", "half", "all"]
def nameless_flags(rng, n, pattern):
    if n == 0 or pattern == "none":
        return [False] * n
    if pattern == "rare":
        return [rng.random() < 0.08 for _ in range(n)]
    if pattern == "first":
        return [k == 0 for k in range(n)]
    if pattern == "last":
        return [k == n - 1 for k in range(n)]
    if pattern == "middle":
        m = rng.randrange(1, n - 1) if n >= 3 else n // 2
        return [k == m for k in range(n)]
    if pattern == "run":
        ln = rng.randrange(2, max(3, n + 1)) if n >= 2 else 1
        ln = min(ln, n)
        a = rng.randrange(0, n - ln + 1)
        return [a <= k < a + ln for k in range(n)]
    if pattern == "half":
        return [rng.random() < 0.5 for _ in range(n)]
    return [True] * n

# which modules of a project lack the optional MODULENAMEUNICODE record (MS-OVBA 2.3.4.2.3.2);
# over the ten equally likely patterns about 35-40 % of all generated modules lack it (the run
# reports the exact counts as module_nameu:absent:* / module_nameu:present:*)
NAMEU_PATTERNS = ["none", "none", "none", "all", "all", "half", "half", "some", "first", "last"]
def nameu_absent_flags(rng, n, pattern):
    if pattern == "none":
        return [False] * n
    if pattern == "all":
        return [True] * n
    if pattern == "half":
        return [rng.random() < 0.5 for _ in range(n)]
    if pattern == "some":
        return [rng.random() < 0.3 for _ in range(n)]
    if pattern == "first":
        return [k == 0 for k in range(n)]
    return [k == n - 1 for k in range(n)]

def gen_libid(rng, high, flavour=None):
    flavour = flavour or rng.choice(["std", "std", "std", "nopath", "empty", "hh", "onehash", "nohash", "manyhash"])
    guid = b"*\\G{%08X-0000-0000-C000-000000000046}" % rng.randrange(2 ** 32)
    path = b"C:\\Windows\\System32\\" + gen_name(rng, high) + b".tlb"
    desc = gen_text(rng, high, rng.randrange(0, 30)).replace(b"#", b"")
    if flavour == "std":
        return guid + b"#2.0#0#" + path + b"#" + desc
    if flavour == "nopath":
        return guid + b"#2.0#0##" + desc
    if flavour == "empty":
        return b""
    if flavour == "hh":
        return guid + b"#2.0#0#" + path + b"##"
    if flavour == "onehash":
        return path + b"#" + desc
    if flavour == "nohash":
        return path
    return guid + b"#1#2#3#4#5#" + path + b"#" + desc

def gen_project(rng, pid, tier, single_byte_only=False):
    """returns a dict: description text, dec spec, module bodies, flags"""
    if rng.random() < 0.06:
        cp, table = rng.choice(UNKNOWN_CODEPAGES), None
    else:
        cp = rng.choice([1252, 1252, 1252, 1251, 1250, 1253, 28591, 932, 65001, 936, 874])
        if single_byte_only:       # mutations put arbitrary bytes into strings: the decode oracle
            cp = rng.choice([1252, 1252, 1251, 1250, 1253, 28591])   # is exact only for these
        table = CODEPAGES[cp]
    high = table is not None and rng.random() < 0.5
    if table is None and cp in MB_ALPHABETS and not single_byte_only and rng.random() < 0.85:
        high = MB_ALPHABETS[cp]                # multi-byte text, decoded by Python's codec
    tbl = table or list(range(256))
    dec = "id" if table is None else "".join("%04x" % c for c in table)
    decode = make_decoder(tbl, high)
    decoded = set()                            # the byte strings the reader decodes (for "map:")
    def D(b):
        decoded.add(bytes(b)); return b
    u16le = lambda b, _t: decode(b).encode("utf-16le")
    B = lambda n=12: gen_text(rng, high, rng.randrange(0, n))
    info = ["I", str(rng.randrange(4)), "~" if rng.random() < 0.5 else str(rng.randrange(2 ** 32)),
            str(rng.choice([0x409, 0x40C, 0])), str(0x409), str(cp),
            hx(gen_name(rng, high)), hx(B(30)), hx(u16le(B(10), tbl)), hx(B(20)), hx(B(20)),
            str(rng.randrange(2 ** 32)), str(rng.randrange(2 ** 32)), str(rng.randrange(2 ** 32)),
            str(rng.randrange(2 ** 16)), hx(B(40)), hx(u16le(B(10), tbl)), str(rng.randrange(2 ** 16))]
    secs = [" ".join(info)]
    nrefs = rng.choice([0, 1, 2, 2, 3, 3, 5, 8])
    odd_libid = rng.random() < 0.25
    pattern = rng.choice(NAMELESS_PATTERNS)
    nameless = nameless_flags(rng, nrefs, pattern)
    ref_tags = ["refs_nameless_pattern:" + (pattern if nrefs else "no_refs")]
    for ri in range(nrefs):
        name = D(gen_name(rng, high)) if rng.random() > 0.03 else b""
        nameu = u16le(name, tbl)
        named = "0" if nameless[ri] else "1"            # REFERENCE without its optional NameRecord
        fl = None if odd_libid else "std"
        kind = rng.choice(["G", "G", "J", "C", "C"])
        if nameless[ri]:
            ref_tags.append("nameless_ref:%s:%s" % (kind, "first" if ri == 0 else "last" if ri == nrefs - 1 else "middle"))
            if ri and nameless[ri - 1]:
                ref_tags.append("nameless_ref:after_nameless")
        if kind == "G":
            secs.append(" ".join(["G", named, hx(name), hx(nameu), hx(D(gen_libid(rng, high, fl)))]))
        elif kind == "J":
            pre = rng.choice([b"*\\C", b"*\\C", b"*\\H", b"*\\A", b"", b"*\\c"])
            secs.append(" ".join(["J", named, hx(name), hx(nameu), hx(D(pre + b"C:\\proj\\" + gen_name(rng, high) + b".xlsm")),
                                  hx(pre + gen_name(rng, high)), str(rng.randrange(2 ** 32)), str(rng.randrange(2 ** 16))]))
        else:
            ext = rng.random() < 0.5
            en = gen_name(rng, high)
            secs.append(" ".join(["C", named, hx(name), hx(nameu),
                                  hx(D(gen_libid(rng, high, fl))) if rng.random() < 0.5 else "~",
                                  hx(D(gen_libid(rng, high, fl))),
                                  hx(en) if ext else "~", hx(u16le(en, tbl)) if ext else "~",
                                  hx(D(gen_libid(rng, high, fl))), bytes(rng.randrange(256) for _ in range(16)).hex(),
                                  str(rng.randrange(2 ** 32))]))
    nmods = rng.choice([0, 1, 1, 2, 3, 5])
    bodies, used_streams, names = [], set(), []
    # MS-OVBA 2.3.4.2.3.2: MODULENAME [MODULENAMEUNICODE] MODULESTREAMNAME … — which modules are
    # written WITHOUT the optional record 0x0047 (overall about 35 % of the modules)
    nameu_pattern = rng.choice(NAMEU_PATTERNS)
    no_nameu = nameu_absent_flags(rng, nmods, nameu_pattern)
    if nmods:
        ref_tags.append("mods_nameu_pattern:" + nameu_pattern)
        ref_tags.append("project_mods_nameu:" + ("all_absent" if all(no_nameu) else "all_present" if not any(no_nameu) else "mixed"))
    for mi in range(nmods):
        name = D(gen_name(rng, high))
        if names and rng.random() < 0.04:
            name = rng.choice(names)             # duplicate module name: the last one wins
        names.append(name)
        sname = gen_name(rng, high, 1, 20)
        while sname in used_streams or sname == b"dir" or sname.upper() in (b"VBA", b"PROJECT", b"_VBA_PROJECT"):
            sname = gen_name(rng, high, 2, 20)
        used_streams.add(D(sname))
        pcode = bytes(rng.randrange(256) for _ in range(rng.choice([0, 1, 7, 100, 900, 3000, 5000])))
        nch = rng.choice([0, 1, 1, 1, 2, 3]) if tier == "thorough" else rng.choice([0, 1, 1, 1, 2])
        chunks, source = [], bytearray()
        kind = rng.choice(["vba", "vba", "period", "alpha", "random", "utf8", "bom"])
        sizes = [(rng.choice([1, 8, 40, 300, 1200, 4096]) if ci == nch - 1 else CHUNK) for ci in range(nch)]
        whole = gen_mb_source(rng, sum(sizes), high, kind) if mb_of(high) else None
        for ci in range(nch):
            last = ci == nch - 1
            size = sizes[ci]
            if whole is not None:                # multi-byte text, cut into chunks wherever the
                data = whole[sum(sizes[:ci]):sum(sizes[:ci + 1])]   # 4096-byte boundary falls
            else:
                data = gen_source(rng, size, kind)
            if table is None and whole is None:  # multi-byte code page without codec oracle: ASCII
                data = bytes(x & 0x7F for x in data)
            mode = rng.choice(["lit", "greedy", "rand", "overlap", "far"] + (["raw"] if size == CHUNK else []))
            if mode == "lit" and size + (size + 7) // 8 > CHUNK:
                mode = "greedy"
            ch, meaning, _ = make_chunk(rng, data, mode, rng.randrange(8) if rng.random() < 0.5 else None)
            if ch is not None:
                chunks.append(ch); source += meaning
        ref_tags.append("module_nameu:%s:%s" % ("absent" if no_nameu[mi] else "present",
                                                 "only" if nmods == 1 else "first" if mi == 0 else "last" if mi == nmods - 1 else "middle"))
        secs.append(" ".join(["M", hx(name), "~" if no_nameu[mi] else hx(u16le(name, tbl)), hx(sname), hx(u16le(sname, tbl)),
                              hx(B(20)), hx(u16le(B(8), tbl)), str(len(pcode)), str(rng.randrange(2 ** 32)),
                              str(rng.randrange(2 ** 16)), str(rng.randrange(2)), str(rng.randrange(2)), str(rng.randrange(2))]))
        bodies.append({"name": name, "stream": sname, "pcode": pcode, "chunks": chunks, "source": D(bytes(source))})
    if mb_of(high):
        dec = "map:" + ",".join("%s=%s" % (b.hex(), decode(b).encode("utf-8").hex()) for b in sorted(decoded) if b)
        ref_tags.append("project_text:multibyte_%d" % cp)
    return {"pid": pid, "desc": "|".join(secs), "dec": dec, "table": tbl, "decode": decode, "cp": cp, "bodies": bodies,
            "cp_known": table is not None or cp in CODEPAGES, "tags": ref_tags}

def scalars_hex(b, p):
    return p["decode"](b).encode("utf-8").hex()

def build_project_cases(ctx, projs, mutate):
    """dir stream from the extracted writer, compression by the extracted container writer,
    compound file by cfb_write; returns case dicts with line / expected"""
    rng = ctx.rng
    enc = ctx.run_model(["%s\tvba_enc\t%s\t%s" % (p["pid"], p["desc"], p["dec"]) for p in projs])
    jobs, cases = [], []
    for p in projs:
        f = enc.get(p["pid"], "").split("|", 3)
        if len(f) != 4:
            ctx.disagreements.append({"function": "vba_enc", "case": p["pid"] + "\tvba_enc\t" + p["desc"][:1500], "impl": "(n/a)", "model": enc.get(p["pid"], "")[:200]})
            continue
        dirb, p["valid"], p["known"], p["expected"] = bytes.fromhex(f[0]), f[1] == "1", f[2], f[3]
        variants = [("", dirb)]
        if mutate:
            variants = []
            for k in range(mutate):
                kind = rng.choice(["truncate", "truncate", "byte", "id", "size", "grow"])
                b = bytearray(dirb)
                if kind == "truncate":
                    b = b[:rng.randrange(len(b))]
                elif kind == "byte":
                    b[rng.randrange(len(b))] = rng.randrange(256)
                elif kind == "id":
                    i = rng.randrange(len(b) - 1); b[i] ^= rng.choice([1, 2, 0x10, 0x20]);
                elif kind == "size":
                    i = rng.randrange(len(b) - 4); b[i:i + 4] = struct.pack("<I", rng.choice([0, 1, 5, 0xFFFF, 0x7FFFFFFF, 0xFFFFFFFF, len(b)]))
                else:
                    b += bytes(rng.randrange(256) for _ in range(rng.randrange(1, 9)))
                # the decoder handed to the model is the table of the ORIGINAL code page: a mutation
                # that turns the PROJECTCODEPAGE value into another supported code page would only
                # test this oracle, so these two bytes are put back
                cpo = 10 + (10 if dirb[10:12] == b"\x4a\x00" else 0) + 20 + 6
                if len(b) >= cpo + 2 and bytes(b[cpo:cpo + 2]) != dirb[cpo:cpo + 2]:
                    b[cpo:cpo + 2] = dirb[cpo:cpo + 2]
                variants.append(("%s%d" % (kind, k), bytes(b)))
        for vtag, db in variants:
            cid = p["pid"] + vtag
            # compress the dir stream: chunks of 4096, any tokenisation
            dchunks = []
            for o in range(0, len(db), CHUNK):
                piece = db[o:o + CHUNK]
                mode = rng.choice(["lit", "greedy", "rand"]) if len(piece) + (len(piece) + 7) // 8 <= CHUNK else "greedy"
                ch, meaning, _ = make_chunk(rng, piece, mode, None)
                if ch is not None and ch[0] == "R" and len(piece) < CHUNK:
                    ch, meaning, _ = make_chunk(rng, piece, "greedy", None)
                if ch is not None:
                    dchunks.append(ch)
            jobs.append("%s/d\tovba_enc\t%s\t0" % (cid, chunks_text(dchunks)))
            for mi, body in enumerate(p["bodies"]):
                jobs.append("%s/m%d\tovba_enc\t%s\t0" % (cid, mi, chunks_text(body["chunks"])))
            cases.append({"cid": cid, "p": p, "mut": vtag, "dir": db})
    comp = ctx.run_model(jobs)
    out = []
    for c in cases:
        p, cid = c["p"], c["cid"]
        f = comp.get(cid + "/d", "").split("|")
        if len(f) != 4 or (f[2] != "1" and c["dir"]):
            ctx.disagreements.append({"function": "generator_valid(dir chunks)", "case": cid, "impl": "python", "model": comp.get(cid + "/d", "")[:100]})
            continue
        streams = [("dir", bytes.fromhex(f[0]))]
        ok = True
        fault = None
        for mi, body in enumerate(p["bodies"]):
            g = comp.get("%s/m%d" % (cid, mi), "").split("|")
            if len(g) != 4 or g[2] != "1":
                ok = False; break
            content = body["pcode"] + bytes.fromhex(g[0])
            streams.append((p["decode"](body["stream"]), content))
        if not ok:
            ctx.disagreements.append({"function": "generator_valid(module chunks)", "case": cid, "impl": "python", "model": "invalid"})
            continue
        # container-level faults (only on otherwise untouched projects)
        if not c["mut"] and p["bodies"] and not p.get("no_fault") and rng.random() < 0.08:
            fault = rng.choice(["missing_stream", "bad_signature", "offset_past_end", "no_dir"])
            if fault == "missing_stream":
                streams.pop(rng.randrange(1, len(streams)))
            elif fault == "bad_signature":
                k = rng.randrange(1, len(streams)); n, b = streams[k]
                off = len(p["bodies"][k - 1]["pcode"])
                streams[k] = (n, b[:off] + bytes([rng.choice([0, 2, 255])]) + b[off + 1:])
            elif fault == "offset_past_end":
                k = rng.randrange(1, len(streams)); n, b = streams[k]
                off = len(p["bodies"][k - 1]["pcode"])
                streams[k] = (n, b[:max(off - 1, 0)] if off else b"")
                if not off:
                    fault = "empty_module_stream"
            else:
                streams = [(("dirx" if n == "dir" else n), b) for n, b in streams]
        # CFB-1: compound-file names compare up to the case of their ASCII letters (MS-CFB 2.6.4): the container
        # may spell dir and the module streams in another case than the dir stream records them
        def up(n):
            return "".join(ch.upper() if "a" <= ch <= "z" else ch for ch in n)
        keys_unique = len({up(n) for n, _ in streams}) == len(streams)
        respelled = False
        if keys_unique and rng.random() < 0.3:
            def resp(n):
                k = rng.random()
                if k < 0.4:
                    return up(n)
                if k < 0.6:
                    return "".join(ch.lower() if "A" <= ch <= "Z" else ch for ch in n)
                return "".join(ch.swapcase() if ("a" <= ch <= "z" or "A" <= ch <= "Z") and rng.random() < 0.5 else ch for ch in n)
            streams = [(resp(n), b) for n, b in streams]
            respelled = True
        cfb = cfb_write(streams, rng, version=rng.choice([3, 3, 4]), shuffle=rng.random() < 0.6, decoys=rng.random() < 0.7)
        stext = ";".join("%s:%s" % (hx(n.encode("utf-8")), hx(b)) for n, b in streams)
        line = "%s\tvba\t%s\t%s\t%s" % (cid, cfb.hex(), stext, p["dec"])
        expected = None
        if not keys_unique:
            pass                                 # two streams of one name up to case: no legal container (model tie only)
        elif not c["mut"] and fault is None and p["valid"]:
            if p["expected"] == "-":
                expected = "err"                 # a libid without '#': VbaError::LibId is the documented outcome
            else:
                refs, dmods = p["expected"].split("|D")
                final = {}
                for body in p["bodies"]:
                    final[scalars_hex(body["name"], p)] = body["source"]
                items = sorted(final.items(), key=lambda kv: bytes.fromhex(kv[0]).decode("utf-8"))
                expected = "ok|" + refs + "|M" + ",".join(
                    "%s=%s=%s" % (n, src.hex(), scalars_hex(src, p)) for n, src in items)
        elif not c["mut"] and fault is None and not p["cp_known"]:
            expected = "err"
        out.append({"cid": cid, "line": line, "expected": expected, "p": p, "mut": c["mut"], "fault": fault,
                    "streams": streams, "stext": stext, "cfb": cfb, "respelled": respelled, "keys_unique": keys_unique})
    return out

def biff_rec(t, data):
    return struct.pack("<HH", t, len(data)) + data

def minimal_workbook_stream():
    """BIFF8 globals + one empty sheet: enough for Xls::new"""
    bof_g = biff_rec(0x0809, struct.pack("<HHHHII", 0x0600, 0x0005, 0x0DBB, 0x07CC, 0, 0x0306))
    cp = biff_rec(0x0042, struct.pack("<H", 1200))
    name = "S".encode("utf-16le")
    def bs(pos):
        return biff_rec(0x0085, struct.pack("<IBB", pos, 0, 0) + bytes([1, 1]) + name)
    eof = biff_rec(0x000A, b"")
    pre = bof_g + cp
    pos = len(pre) + len(bs(0)) + len(eof)
    glob = pre + bs(pos) + eof
    bof_s = biff_rec(0x0809, struct.pack("<HHHHII", 0x0600, 0x0010, 0x0DBB, 0x07CC, 0, 0x0306))
    dim = biff_rec(0x0200, struct.pack("<IIHHH", 0, 0, 0, 0, 0))
    return glob + bof_s + dim + eof

def zip_with_project(template, cfb, dst):
    import zipfile
    with zipfile.ZipFile(template) as zin, zipfile.ZipFile(dst, "w", zipfile.ZIP_DEFLATED) as zout:
        for item in zin.infolist():
            if item.filename != "xl/vbaProject.bin":
                zout.writestr(item, zin.read(item.filename))
        zout.writestr("xl/vbaProject.bin", cfb)

def run_project_files(ctx, cases, model, limit):
    """the same projects through the public API: Reader::vba_project() of Xlsx (xlsm), Xlsb and
    Xls on generated workbook files"""
    import shutil
    rng = ctx.rng
    d = os.path.join(vlib.CACHE, "tmp", "C18-%d" % os.getpid())
    os.makedirs(d, exist_ok=True)
    try:
        fixed_mods = [c for c in cases if "project:fixed_no_modulenameunicode" in c["p"].get("tags", [])]
        pick = ([c for c in cases if not c["mut"] and c not in fixed_mods][:limit] + fixed_mods +
                [c for c in cases if c["mut"]][:limit // 3])
        lines, meta = [], {}
        wb = minimal_workbook_stream()
        for c in pick:
            for kind in ("xlsx", "xlsb", "xls"):
                path = os.path.join(d, "%s.%s" % (c["cid"], {"xlsx": "xlsm", "xlsb": "xlsb", "xls": "xls"}[kind]))
                if kind == "xlsx":
                    zip_with_project(os.path.join(vlib.REPO, "tests", "vba.xlsm"), c["cfb"], path)
                elif kind == "xlsb":
                    zip_with_project(os.path.join(vlib.REPO, "tests", "date.xlsb"), c["cfb"], path)
                else:
                    data = cfb_write([("Workbook", wb)] + c["streams"], rng, version=rng.choice([3, 4]),
                                     shuffle=rng.random() < 0.5, decoys=False,
                                     extra_entries=[("_VBA_PROJECT_CUR", 1), ("VBA", 1)])
                    open(path, "wb").write(data)
                lid = "%s/%s" % (c["cid"], kind)
                lines.append("%s\tvba_file\t%s\t%s\t%s\t%s" % (lid, kind, path, c["stext"], c["p"]["dec"]))
                meta[lid] = (c, kind)
        impl = ctx.run_impl(lines)
        for line in lines:
            lid = line.split("\t", 1)[0]
            c, kind = meta[lid]
            i, m = impl.get(lid), model.get(c["cid"])
            ctx.traces += 1
            ctx.count("project_file:" + kind)
            ctx.count("project_file_outcome:" + (i or "none").split("|")[0])
            for t in c["p"].get("tags", []):
                if t.startswith("project_text:multibyte") and c["expected"] is not None and c["expected"].startswith("ok"):
                    ctx.count("project_file_" + t[8:])       # multi-byte text through Reader::vba_project
                if t.startswith("project_mods_nameu:") and c["expected"] is not None and c["expected"].startswith("ok"):
                    ctx.count("project_file_" + t[8:])       # modules without MODULENAMEUNICODE through Reader::vba_project
            if c["expected"] is not None and c["p"].get("known", "-") != "-":
                if i != m:
                    ctx.disagreements.append({"function": "Reader::vba_project(%s)" % kind, "case": line, "impl": i, "model": m})
            elif c["expected"] is not None and i != c["expected"]:
                ctx.violations.append({"case": line, "expected": c["expected"], "actual": i, "model": m,
                                       "what": "VBA project inside a generated %s file is not read back as described (Reader::vba_project)" % kind})
            elif i != m:
                ctx.disagreements.append({"function": "Reader::vba_project(%s)" % kind, "case": line, "impl": i, "model": m})
    finally:
        if not os.environ.get("VERIF_KEEP_TMP"):
            shutil.rmtree(d, ignore_errors=True)

# fixed project descriptions, compared against the SPEC (extracted expected_refs): the witness
# of the former known class nameless_reference (OvbaDir_proofs.ex_proj_nameless: before the fix:
# commit the code listed ONE reference std/Foo/C:\\s.tlb), the same with the NameRecord present,
# nameless references first / last / several in a row, of the three reference kinds
_L1 = "2a5c477b307d23322e30233023433a5c732e746c62234f4c45"   # *\\G{0}#2.0#0#C:\\s.tlb#OLE
_L2 = "2a5c477b317d23312e30233023443a5c742e746c6223466f6f"   # *\\G{1}#1.0#0#D:\\t.tlb#Foo
_PJ = "2a5c43453a5c702e786c736d 2a5c4370 1 2"                  # *\\CE:\\p.xlsm  *\\Cp
_GUID = "00112233445566778899aabbccddeeff"
_INFO = "I 1 ~ 1033 1033 1252 564241 - - - - 0 0 1 2 - - 0"
_STD = "G 1 737464 730074006400 " + _L1
FIXED_PROJECTS = [
    _INFO + "|" + _STD + "|G 0 - - " + _L2,                                     # the old witness
    _INFO + "|" + _STD + "|G 1 666f6f 66006f006f00 " + _L2,
    _INFO + "|G 0 - - " + _L2 + "|" + _STD,                                     # nameless first
    _INFO + "|" + _STD + "|J 0 - - " + _PJ,                                     # nameless PROJECT last
    _INFO + "|J 0 - - " + _PJ + "|" + _STD + "|J 0 - - " + _PJ,
    _INFO + "|" + _STD + "|C 0 - - " + _L2 + " " + _L1 + " ~ ~ " + _L1 + " " + _GUID + " 5",    # nameless CONTROL with ORIGINAL
    _INFO + "|" + _STD + "|C 0 - - ~ " + _L2 + " 58 5800 " + _L1 + " " + _GUID + " 5",          # … without, extended name
    _INFO + "|C 0 - - ~ " + _L2 + " ~ ~ " + _L2 + " " + _GUID + " 0|" + _STD,
    _INFO + "|G 0 - - " + _L1 + "|G 0 - - " + _L2 + "|J 0 - - " + _PJ + "|C 0 - - " + _L1 + " " + _L2 + " ~ ~ " + _L2 + " " + _GUID + " 1",   # all nameless, a run of four
    _INFO + "|" + _STD + "|G 0 - - " + _L2 + "|G 0 - - " + _L1 + "|G 1 7a 7a00 " + _L2,          # two in a row in the middle
    _INFO + "|G 1 - - " + _L1 + "|G 0 - - " + _L2,                              # a NameRecord holding the empty name
]

# fixed projects whose MODULE records lack the optional MODULENAMEUNICODE record (0x0047; MS-OVBA
# 2.3.4.2.3.2) — before fix: 4d45fd5 read_modules answered InvalidRecordId on each of them.
# M name nameu|~ stream streamu doc docu offset helpctx cookie document ro private
def _fixed_module(name, stream, nameu, pcode, text, flags="0 0 0", doc="-", docu="-"):
    line = " ".join(["M", name.hex(), (name.decode("ascii").encode("utf-16le").hex() if nameu else "~"),
                     stream.hex(), stream.decode("ascii").encode("utf-16le").hex(), doc, docu,
                     str(len(pcode)), "7", "1", flags])
    body = {"name": name, "stream": stream, "pcode": pcode, "chunks": [("T", [("l", b) for b in text])] if text else [],
            "source": text}
    return line, body
def _fixed_module_project(mods, refs=()):
    lines, bodies = zip(*mods)
    return "|".join([_INFO] + list(refs) + list(lines)), list(bodies)
FIXED_MODULE_PROJECTS = [
    # the Coq example OvbaDir_proofs.ex_mod_plain: MODULENAME "M" directly followed by MODULESTREAMNAME "S"
    _fixed_module_project([_fixed_module(b"M", b"S", False, b"\x09" * 5, b"Sub a()\r\nEnd Sub\r\n")]),
    _fixed_module_project([_fixed_module(b"M", b"S", True, b"\x09" * 5, b"Sub a()\r\nEnd Sub\r\n")]),    # control: with it
    _fixed_module_project([_fixed_module(b"Module1", b"Module1", False, b"", b"x = 1\r\n"),
                           _fixed_module(b"Sheet1", b"Sheet1", True, b"\0" * 100, b"' sheet\r\n", "1 0 0")]),
    _fixed_module_project([_fixed_module(b"ThisWorkbook", b"ThisWorkbook", True, b"\1\2\3", b"Option Explicit\r\n", "1 1 1"),
                           _fixed_module(b"Module1", b"Module1", False, b"", b"y = 2\r\n", "0 1 1", doc="646f63", docu="64006f006300")]),
    _fixed_module_project([_fixed_module(b"A", b"sa", False, b"", b"a"), _fixed_module(b"B", b"sb", False, b"z", b"bb"),
                           _fixed_module(b"C", b"sc", False, b"zz", b"")],
                          refs=[_STD, "G 0 - - " + _L2]),                          # none of three has it; a nameless reference too
    # module and stream named "G" (byte 47, the low byte of the record id): record content, not an id
    _fixed_module_project([_fixed_module(b"G", b"G", False, b"", b"g"), _fixed_module(b"G2", b"G2", True, b"", b"h")]),
]

def run_projects(ctx, n_valid, n_mut_projects, n_mut_each):
    rng = ctx.rng
    projs = [gen_project(rng, "p%d" % k, ctx.tier) for k in range(n_valid)]
    projs += [{"pid": "fx%d" % k, "desc": d, "dec": "id", "table": list(range(256)), "decode": make_decoder(list(range(256)), False),
               "cp": 1252, "bodies": [], "cp_known": True, "tags": ["project:fixed_nameless_regression"]}
              for k, d in enumerate(FIXED_PROJECTS)]
    projs += [{"pid": "fm%d" % k, "desc": d, "dec": "id", "table": list(range(256)), "decode": make_decoder(list(range(256)), False),
               "cp": 1252, "bodies": bodies, "cp_known": True, "no_fault": True,
               "tags": ["project:fixed_no_modulenameunicode"]}
              for k, (d, bodies) in enumerate(FIXED_MODULE_PROJECTS)]
    cases = build_project_cases(ctx, projs, 0)
    mprojs = [gen_project(rng, "q%d" % k, ctx.tier, single_byte_only=True) for k in range(n_mut_projects)]
    cases += build_project_cases(ctx, mprojs, n_mut_each)
    lines = [c["line"] for c in cases]
    impl, model = ctx.run_both(lines)
    for c in cases:
        i, m = impl.get(c["cid"]), model.get(c["cid"])
        ctx.traces += 1
        p = c["p"]
        tag = "project:" + ("mutated_dir" if c["mut"] else ("fault_" + c["fault"] if c["fault"] else ("valid" if p["valid"] else "invalid_description")))
        ctx.count(tag)
        if c.get("respelled"):
            ctx.count("project:stream_names_in_another_case")
        if not c.get("keys_unique", True):
            ctx.count("project:stream_names_equal_up_to_case(tie only)")
        ctx.count("project_outcome:" + (i or "none").split("|")[0])
        if not c["mut"] and not c["fault"]:
            ctx.count("project_codepage:%d" % p["cp"])
            ctx.count("project_modules:%d" % len(p["bodies"]))
            for t in p.get("tags", []):
                ctx.count(t)
        ctx.nontrivial(c["line"].split("\t", 2)[2][:4000])
        if i == "bad-case":
            ctx.disagreements.append({"function": "cfb_write(generator)", "case": c["line"][:3000], "impl": i, "model": m})
            continue
        if c["expected"] is not None and p.get("known", "-") != "-":
            ctx.count("project:known_class_" + p["known"])
            if i != c["expected"]:
                ctx.known_hits.setdefault(KNOWN_DIR.get(p["known"], "class" + p["known"]), c["line"][:6000])
        elif c["expected"] is not None and i != c["expected"]:
            ctx.violations.append({"case": c["line"], "expected": c["expected"], "actual": i, "model": m,
                                   "what": "generated VBA project (code page %d, %d modules) is not read back as described" % (p["cp"], len(p["bodies"]))})
        if i != m:
            ctx.disagreements.append({"function": "VbaProject::new", "case": c["line"], "impl": i, "model": m})
        if c["expected"] is not None and c["expected"].startswith("ok") and len(ctx.samples) < 6 and len(c["line"]) < 6000:
            ctx.sample({"project": p["desc"][:400], "impl": (i or "")[:300]})
    run_project_files(ctx, cases, model, ctx.scale(120, 1200))

# ------------------------------------------------------------------ entry points
def run(ctx):
    rng = ctx.rng
    cases = boundary_cases(rng, ctx.tier)
    n_small, n_big = ctx.scale(4000, 30000), ctx.scale(1500, 12000)
    cases += [gen_structured(rng, "s%d" % k, True) for k in range(n_small)]
    cases += [gen_structured(rng, "g%d" % k, False) for k in range(n_big)]
    run_structured(ctx, cases)
    valid_hex = [c.hexc for c in cases if getattr(c, "hexc", None)]
    rng.shuffle(valid_hex)
    run_malformed(ctx, malformed_cases(rng, valid_hex, ctx.scale(4000, 40000), ctx.tier))
    run_codec(ctx, ctx.scale(5000, 100000))
    run_projects(ctx, ctx.scale(500, 5000), ctx.scale(60, 600), ctx.scale(12, 30))

def search(ctx):
    rng = ctx.rng
    cases = [gen_structured(rng, "x%d" % k, k % 3 != 0) for k in range(ctx.scale(6000, 40000))]
    run_structured(ctx, cases)
    valid_hex = [c.hexc for c in cases if getattr(c, "hexc", None)]
    run_malformed(ctx, malformed_cases(rng, valid_hex, ctx.scale(6000, 40000), ctx.tier))
    run_projects(ctx, ctx.scale(1000, 4000), ctx.scale(100, 400), 12)

def rebuild_project_file(case):
    """a vba_file case names a temporary workbook file: write it again from the streams listed in
    the case (any compound-file layout will do)"""
    import random
    f = case.split("\t")
    kind, path, stext = f[2], f[3], f[4]
    streams = []
    for e in stext.split(";"):
        if e:
            n, c = e.split(":")
            streams.append((bytes.fromhex("" if n == "-" else n).decode("utf-8"), bytes.fromhex("" if c == "-" else c)))
    rng = random.Random(1)
    os.makedirs(os.path.dirname(path), exist_ok=True)
    if kind == "xls":
        open(path, "wb").write(cfb_write([("Workbook", minimal_workbook_stream())] + streams, rng, decoys=False,
                                         extra_entries=[("_VBA_PROJECT_CUR", 1), ("VBA", 1)]))
    else:
        tpl = "vba.xlsm" if kind == "xlsx" else "date.xlsb"
        zip_with_project(os.path.join(vlib.REPO, "tests", tpl), cfb_write(streams, rng), path)
    return path

def replay(ctx, rep):
    case = rep.get("case")
    print("replaying:", case[:300])
    tmp = rebuild_project_file(case) if case.split("\t")[1] == "vba_file" else None
    impl, model = ctx.run_both([case])
    if tmp and os.path.exists(tmp):
        os.remove(tmp)
    lid = case.split("\t", 1)[0]
    print("impl :", (impl.get(lid) or "")[:300])
    print("model:", (model.get(lid) or "")[:300])
    print("expected:", (rep.get("expected") or rep.get("model") or "")[:300])
    exp = rep.get("expected")
    if exp is not None:
        return 0 if impl.get(lid) == exp else 1
    return 0 if impl.get(lid) == model.get(lid) else 1
