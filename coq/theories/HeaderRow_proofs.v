(* HeaderRow_proofs.v — proofs about the header-row option (HeaderRow.v) on top of the Range
   theorems of Range_proofs.v.  Properties/C08.v closes its theorems by [exact] on the lemmas
   header_row_lazy, default_starts_at_first_row, header_row_eager, eager_default_is_identity,
   lazy_nonvacuous, eager_nonvacuous. *)
From Calamine Require Import Prelude Range Range_spec Range_proofs HeaderRow.
Open Scope N_scope.
Set Implicit Arguments.

(* ---------------------------------------------------------------------------------------- *)
(* The tight bounding box contains every position of the list                               *)
(* ---------------------------------------------------------------------------------------- *)
Lemma bbox_mono : forall (b : pos * pos) (p q : pos),
  in_box (fst b) (snd b) q = true ->
  in_box (fst (bbox (Some b) p)) (snd (bbox (Some b) p)) q = true.
Proof.
  intros [[a1 a2] [b1 b2]] [p1 p2] [q1 q2]. unfold bbox, in_box. cbn [fst snd]. lia.
Qed.

Lemma bbox_self : forall (b : pos * pos) (p : pos),
  in_box (fst (bbox (Some b) p)) (snd (bbox (Some b) p)) p = true.
Proof.
  intros [[a1 a2] [b1 b2]] [p1 p2]. unfold bbox, in_box. cbn [fst snd]. lia.
Qed.

Lemma bbox_fold_contains : forall (ps : list pos) (b : pos * pos),
  (forall q, in_box (fst b) (snd b) q = true ->
     in_box (fst (fold_left (fun b p => bbox (Some b) p) ps b))
            (snd (fold_left (fun b p => bbox (Some b) p) ps b)) q = true) /\
  (forall p, In p ps ->
     in_box (fst (fold_left (fun b p => bbox (Some b) p) ps b))
            (snd (fold_left (fun b p => bbox (Some b) p) ps b)) p = true).
Proof.
  induction ps as [|p ps IH]; intros b; cbn [fold_left].
  - split; [auto|]. intros p [].
  - destruct (IH (bbox (Some b) p)) as [IH1 IH2]. split.
    + intros q Hq. apply IH1. apply bbox_mono. assumption.
    + intros p' [<-|Hp']; [apply IH1; apply bbox_self|apply IH2; assumption].
Qed.

Lemma tight_bbox_contains : forall (ps : list pos) (s e : pos),
  tight_bbox ps = Some (s, e) -> forall p, In p ps -> in_box s e p = true.
Proof.
  intros ps s e H p Hp. destruct ps as [|p0 rest]; [destruct Hp|].
  assert (Hfold : fold_left (fun b p => bbox (Some b) p) rest (p0, p0) = (s, e))
    by (injection H as H; exact H).
  destruct (bbox_fold_contains rest (p0, p0)) as [H1 H2].
  rewrite Hfold in H1, H2. cbn [fst snd] in H1, H2.
  destruct Hp as [<-|Hp]; [|apply H2; assumption].
  apply H1. destruct p0 as [p1 p2]. unfold in_box. cbn [fst snd]. lia.
Qed.

(* ---------------------------------------------------------------------------------------- *)
(* from_sparse read through cell_or; its first row                                          *)
(* ---------------------------------------------------------------------------------------- *)
Section SparseRead.
Variable T : Type.
Variable d : T.

Lemma fold_write_none : forall (cs : list (pos * T)) (q : pos) (a : T),
  (forall c, In c cs -> pos_eqb (fst c) q = false) ->
  fold_left (fun acc c => if pos_eqb (fst c) q then snd c else acc) cs a = a.
Proof.
  induction cs as [|c cs IH]; intros q a H; [reflexivity|]. cbn [fold_left].
  rewrite (H c (or_introl eq_refl)). apply IH. intros c' Hc'. apply H. right. assumption.
Qed.

(* every position reads as the last value written there, the default if there is none *)
Lemma cell_or_from_sparse : forall (cs : list (pos * T)) (r : range T) (q : pos),
  pre empty (OFromSparse cs) -> from_sparse d cs = Ok r ->
  cell_or d r q = last_write d cs q.
Proof.
  intros cs r q Hpre Hr.
  destruct (@from_sparse_spec T d cs Hpre) as (r' & Hr' & _ & Hrect & Hget).
  rewrite Hr in Hr'. injection Hr' as <-.
  unfold cell_or. rewrite Hget. destruct (in_rect r q) eqn:E; [reflexivity|].
  symmetry. unfold last_write. apply fold_write_none. intros c Hc.
  destruct (pos_eqb (fst c) q) eqn:Eq; [|reflexivity].
  apply pos_eqb_true in Eq. subst q. exfalso.
  unfold in_rect in E. rewrite Hrect in E.
  destruct (tight_bbox (map fst cs)) as [[s e]|] eqn:Etb.
  - rewrite (tight_bbox_contains _ Etb (fst c) (in_map fst cs c Hc)) in E. discriminate.
  - destruct cs; [destruct Hc|discriminate Etb].
Qed.

Lemma from_sparse_start_row : forall (c0 : pos * T) (rest : list (pos * T)) (r : range T),
  pre empty (OFromSparse (c0 :: rest)) ->
  from_sparse d (c0 :: rest) = Ok r -> fst (r_start r) = fst (fst c0).
Proof. intros c0 rest r Hp H. exact (@from_sparse_start_row_sorted T d c0 rest r Hp H). Qed.

Lemma rect_some_not_empty : forall (r : range T) b, rect r = Some b -> is_empty r = false.
Proof. intros r b H. unfold rect in H. destruct (is_empty r); [discriminate|reflexivity]. Qed.

(* ---------------------------------------------------------------------------------------- *)
(* Lazy path                                                                                *)
(* ---------------------------------------------------------------------------------------- *)
Lemma existsb_filter : forall (A : Type) (f : A -> bool) (l : list A),
  existsb f l = match filter f l with [] => false | _ :: _ => true end.
Proof.
  intros A f. induction l as [|x l IH]; [reflexivity|]. cbn [existsb filter].
  destruct (f x); [reflexivity|]. exact IH.
Qed.

Lemma lazy_cells_shape : forall (cells : list (pos * T)) (n : N),
  match filter (fun c : pos * T => n <=? fst (fst c)) cells with
  | [] => lazy_cells d (HRow n) cells = []
  | _ :: _ => exists x rest, lazy_cells d (HRow n) cells = x :: rest /\ fst (fst x) = n
  end.
Proof.
  intros cells n. unfold lazy_cells. cbv zeta. unfold pos in *.
  destruct (filter _ cells) as [|c0 k]; [reflexivity|].
  destruct (fst (fst c0) =? n) eqn:E.
  - exists c0, k. split; [reflexivity|lia].
  - exists ((n, snd (fst c0)), d), (c0 :: k). split; reflexivity.
Qed.

Lemma fold_write_filter : forall (cells : list (pos * T)) (n : N) (q : pos) (a : T),
  n <= fst q ->
  fold_left (fun acc c => if pos_eqb (fst c) q then snd c else acc)
            (filter (fun c : pos * T => n <=? fst (fst c)) cells) a =
  fold_left (fun acc c => if pos_eqb (fst c) q then snd c else acc) cells a.
Proof.
  induction cells as [|c cells IH]; intros n q a Hq; [reflexivity|]. cbn [filter fold_left].
  destruct (n <=? fst (fst c)) eqn:E.
  - cbn [fold_left]. apply IH. assumption.
  - assert (Hne : pos_eqb (fst c) q = false).
    { destruct (pos_eqb (fst c) q) eqn:Eq; [|reflexivity]. apply pos_eqb_true in Eq. subst q. lia. }
    rewrite Hne. apply IH. assumption.
Qed.

Lemma last_write_lazy : forall (cells : list (pos * T)) (n : N) (q : pos),
  n <= fst q -> last_write d (lazy_cells d (HRow n) cells) q = last_write d cells q.
Proof.
  intros cells n q Hq. unfold last_write. rewrite <- (@fold_write_filter cells n q d Hq).
  unfold lazy_cells. cbv zeta. unfold pos in *.
  destruct (filter _ cells) as [|c0 k]; [reflexivity|].
  destruct (fst (fst c0) =? n); [reflexivity|].
  cbn [fold_left fst snd]. destruct (pos_eqb (n, snd (fst c0)) q); reflexivity.
Qed.

Lemma header_row_lazy_sec : forall (cells : list (pos * T)) (n : N),
    sorted_by_row cells ->
    pre empty (OFromSparse (lazy_cells d (HRow n) cells)) ->
    pre empty (OFromSparse cells) ->
    exists r r0,
      lazy_range d (HRow n) cells = Ok r /\ lazy_range d FirstNonEmptyRow cells = Ok r0 /\
      Wf r /\
      (if existsb (fun c => n <=? fst (fst c)) cells
       then option_map fst (start r) = Some n
       else is_empty r = true) /\
      (forall q, n <= fst q -> cell_or d r q = cell_or d r0 q) /\
      (forall q, fst q < n -> get_value r q = None).
Proof.
  intros cells n _ HpL Hp.
  destruct (@from_sparse_spec T d _ HpL) as (r & Hr & HWf & Hrect & _).
  destruct (@from_sparse_spec T d _ Hp) as (r0 & Hr0 & _).
  exists r, r0. unfold lazy_range. change (lazy_cells d FirstNonEmptyRow cells) with cells.
  split; [exact Hr|]. split; [exact Hr0|]. split; [exact HWf|].
  assert (Hshape := lazy_cells_shape cells n).
  rewrite existsb_filter. unfold pos in *.
  destruct (filter (fun c : N * N * T => n <=? fst (fst c)) cells) as [|c0 k].
  - (* nothing at or below row n: the range is empty *)
    rewrite Hshape in Hr. cbn [from_sparse] in Hr. injection Hr as <-.
    split; [reflexivity|]. split.
    + intros q Hq. rewrite (cell_or_from_sparse q Hp Hr0), <- (@last_write_lazy cells n q Hq), Hshape.
      apply cell_or_empty. reflexivity.
    + intros q _. apply get_value_empty. reflexivity.
  - destruct Hshape as (x & rest & HL & Hx).
    assert (Hne : is_empty r = false).
    { rewrite HL in Hrect. cbn [map tight_bbox] in Hrect. exact (rect_some_not_empty _ Hrect). }
    assert (Hrow : fst (r_start r) = n).
    { rewrite HL in Hr, HpL. rewrite (@from_sparse_start_row x rest r HpL Hr). exact Hx. }
    split; [unfold start; rewrite Hne; cbn [option_map]; rewrite Hrow; reflexivity|]. split.
    + intros q Hq. rewrite (cell_or_from_sparse q HpL Hr), (cell_or_from_sparse q Hp Hr0).
      apply last_write_lazy. assumption.
    + intros q Hq. rewrite get_value_char.
      destruct (in_box (r_start r) (r_end r) q) eqn:Eb; [|reflexivity].
      unfold in_box in Eb. lia.
Qed.

Lemma default_starts_at_first_row_sec : forall (c0 : pos * T) (cells : list (pos * T)),
    sorted_by_row (c0 :: cells) ->
    pre empty (OFromSparse (c0 :: cells)) ->
    exists r0, lazy_range d FirstNonEmptyRow (c0 :: cells) = Ok r0 /\
      option_map fst (start r0) = Some (fst (fst c0)).
Proof.
  intros c0 cells _ Hp.
  destruct (@from_sparse_spec T d _ Hp) as (r0 & Hr0 & _ & Hrect & _).
  exists r0. split; [exact Hr0|].
  cbn [map tight_bbox] in Hrect. unfold start. rewrite (rect_some_not_empty _ Hrect).
  cbn [option_map]. rewrite (@from_sparse_start_row c0 cells r0 Hp Hr0). reflexivity.
Qed.

(* ---------------------------------------------------------------------------------------- *)
(* Eager path                                                                               *)
(* ---------------------------------------------------------------------------------------- *)
Lemma header_row_eager_sec : forall (sheet : range T) (n : N),
    Wf sheet ->
    (is_empty sheet = false -> n <= fst (r_end sheet) ->
       box_cells (n, snd (r_start sheet)) (r_end sheet) <= U32MAX) ->
    exists r,
      eager_range d (HRow n) sheet = Ok r /\ Wf r /\
      (if negb (is_empty sheet) && (n <=? fst (r_end sheet))
       then option_map fst (start r) = Some n
       else is_empty r = true) /\
      (forall q, n <= fst q -> cell_or d r q = cell_or d sheet q) /\
      (forall q, fst q < n -> get_value r q = None).
Proof.
  intros sheet n HWf Hbox. unfold eager_range, start, end_.
  destruct (is_empty sheet) eqn:Hemp; cbn [negb andb].
  - (* nothing stored: the range is returned as it is *)
    exists sheet. split; [reflexivity|]. split; [assumption|]. split; [assumption|].
    split; [reflexivity|]. intros q _. apply get_value_empty. assumption.
  - destruct (Wf_ne HWf Hemp) as (H1 & H2 & _).
    destruct (fst (r_end sheet) <? n) eqn:En.
    + (* header row below the data *)
      exists empty. destruct (n <=? fst (r_end sheet)) eqn:E2; [lia|].
      split; [reflexivity|]. split; [left; reflexivity|]. split; [reflexivity|]. split.
      * intros q Hq. rewrite cell_or_empty by reflexivity. unfold cell_or. rewrite get_value_char.
        destruct (in_box (r_start sheet) (r_end sheet) q) eqn:Eb; [|reflexivity].
        unfold in_box in Eb. lia.
      * intros q _. apply get_value_empty. reflexivity.
    + destruct (n <=? fst (r_end sheet)) eqn:E2; [|lia].
      assert (Hn : n <= fst (r_end sheet)) by lia.
      assert (Hle : le2 (n, snd (r_start sheet)) (r_end sheet)) by (split; cbn [fst snd]; assumption).
      destruct (@window_spec T d sheet _ _ HWf Hle (Hbox eq_refl Hn)) as (w & Hw & HWfw & Hrectw & Hgetw).
      exists w. split; [exact Hw|]. split; [assumption|]. split.
      * unfold rect in Hrectw. destruct (is_empty w); [discriminate|].
        injection Hrectw as Hs He. rewrite Hs. reflexivity.
      * split.
        -- intros q Hq. unfold cell_or at 1. rewrite Hgetw.
           destruct (in_box (n, snd (r_start sheet)) (r_end sheet) q) eqn:Eb; [reflexivity|].
           unfold cell_or. rewrite get_value_char.
           destruct (in_box (r_start sheet) (r_end sheet) q) eqn:Eb'; [|reflexivity].
           exfalso. unfold in_box in Eb, Eb'. cbn [fst snd] in Eb, Eb'. lia.
        -- intros q Hq. rewrite Hgetw.
           destruct (in_box (n, snd (r_start sheet)) (r_end sheet) q) eqn:Eb; [|reflexivity].
           unfold in_box in Eb. cbn [fst snd] in Eb. lia.
Qed.

End SparseRead.

(* ---------------------------------------------------------------------------------------- *)
(* Statements as used by Properties/C08.v                                                   *)
(* ---------------------------------------------------------------------------------------- *)
Lemma header_row_lazy :
  forall (T : Type) (d : T) (cells : list (pos * T)) (n : N),
    sorted_by_row cells ->
    pre empty (OFromSparse (lazy_cells d (HRow n) cells)) ->
    pre empty (OFromSparse cells) ->
    exists r r0,
      lazy_range d (HRow n) cells = Ok r /\ lazy_range d FirstNonEmptyRow cells = Ok r0 /\
      Wf r /\
      (if existsb (fun c => n <=? fst (fst c)) cells
       then option_map fst (start r) = Some n
       else is_empty r = true) /\
      (forall q, n <= fst q -> cell_or d r q = cell_or d r0 q) /\
      (forall q, fst q < n -> get_value r q = None).
Proof. intros T d. apply header_row_lazy_sec. Qed.

Lemma default_starts_at_first_row :
  forall (T : Type) (d : T) (c0 : pos * T) (cells : list (pos * T)),
    sorted_by_row (c0 :: cells) ->
    pre empty (OFromSparse (c0 :: cells)) ->
    exists r0, lazy_range d FirstNonEmptyRow (c0 :: cells) = Ok r0 /\
      option_map fst (start r0) = Some (fst (fst c0)).
Proof. intros T d. apply default_starts_at_first_row_sec. Qed.

Lemma header_row_eager :
  forall (T : Type) (d : T) (sheet : range T) (n : N),
    Wf sheet ->
    (is_empty sheet = false -> n <= fst (r_end sheet) ->
       box_cells (n, snd (r_start sheet)) (r_end sheet) <= U32MAX) ->
    exists r,
      eager_range d (HRow n) sheet = Ok r /\ Wf r /\
      (if negb (is_empty sheet) && (n <=? fst (r_end sheet))
       then option_map fst (start r) = Some n
       else is_empty r = true) /\
      (forall q, n <= fst q -> cell_or d r q = cell_or d sheet q) /\
      (forall q, fst q < n -> get_value r q = None).
Proof. intros T d. apply header_row_eager_sec. Qed.

Lemma eager_default_is_identity :
  forall (T : Type) (d : T) (sheet : range T),
    eager_range d FirstNonEmptyRow sheet = Ok sheet.
Proof. reflexivity. Qed.

(* ---------------------------------------------------------------------------------------- *)
(* Non-vacuity                                                                              *)
(* ---------------------------------------------------------------------------------------- *)
Lemma lazy_nonvacuous :
  let cells := [((1, 1), 5); ((4, 2), 6); ((5, 0), 7)] in
  sorted_by_row cells /\ pre empty (OFromSparse (lazy_cells 0 (HRow 3) cells)) /\
  pre empty (OFromSparse cells) /\
  exists r, lazy_range 0 (HRow 3) cells = Ok r /\ r_start r = (3, 0) /\ r_end r = (5, 2).
Proof.
  cbv zeta. split; [vm_compute; intuition discriminate|]. split.
  { assert (HL : lazy_cells 0 (HRow 3) [((1, 1), 5); ((4, 2), 6); ((5, 0), 7)]
                 = [((3, 2), 0); ((4, 2), 6); ((5, 0), 7)]) by (vm_compute; reflexivity).
    rewrite HL. cbn [pre]. split; [vm_compute; intuition discriminate|].
    split; [|vm_compute; intuition discriminate].
    intros c [<-|[<-|[<-|[]]]]; vm_compute; intuition discriminate. }
  split.
  { cbn [pre]. split; [vm_compute; intuition discriminate|].
    split; [|vm_compute; intuition discriminate].
    intros c [<-|[<-|[<-|[]]]]; vm_compute; intuition discriminate. }
  eexists. split; [vm_compute; reflexivity|]. split; reflexivity.
Qed.

Lemma eager_nonvacuous :
  let sheet := mkRange (1, 1) (2, 2) [1; 0; 0; 2] in
  Wf sheet /\ exists r, eager_range 0 (HRow 0) sheet = Ok r /\ r_start r = (0, 1) /\
                        r_inner r = [0; 0; 1; 0; 0; 2].
Proof.
  cbv zeta. split; [right; vm_compute; intuition discriminate|].
  eexists. split; [vm_compute; reflexivity|]. split; reflexivity.
Qed.

(* the box-size hypothesis of header_row_eager holds for the same sheet *)
Example eager_pre_ex :
  let sheet := mkRange (1, 1) (2, 2) [1; 0; 0; 2] in
  is_empty sheet = false /\ 0 <= fst (r_end sheet) /\
  box_cells (0, snd (r_start sheet)) (r_end sheet) <= U32MAX.
Proof. vm_compute. intuition discriminate. Qed.
