"""wholegen — the tie of the whole-file composition theorem (Properties/Whole.v, XlsFile.v) to the
real reader: logical workbooks and legal choices are drawn here, the FILE BYTES come from the
extracted Coq encoder (`xlsfile stream` / `xlsfile enc` = XlsFile.xls_stream_write /
xls_file_write after set_positions), are written to disk, opened by the real reader through the
generic harness command (`open xls <path> meta;names;range <name>…`) and by the extracted whole-file
model (`xlsfile open`), and compared three ways:

  real  vs model     -> ctx.disagreements   (the composed model is not what the code does)
  real  vs expected  -> ctx.violations      (the property fails on the code); `expected` is an
                        independent Python reading of the logical workbook (c02.logical_expected,
                        sheet names / visibility / kind in order)
  spec (Coq spec_result) vs expected, model vs spec, legality of the drawn choice
                     -> ctx.disagreements   (generator / theorem plumbing)

Use from tools/props/c02.py:   import wholegen;  wholegen.run_whole(ctx)          (≈150 files)
The logical sheets, their record layouts and the expectation are c02's (gen_env, gen_logical,
choose_layout, item_text, logical_expected); the container layouts are c13's (gen_layout,
gen_parents, gen_links); the SST layouts are drawn here."""
import os, sys
sys.path.insert(0, os.path.dirname(os.path.abspath(__file__)))
import vlib

SHEET_NAMES = ["S0", "Data", "Feuille été", "数据", "\U0001F600x", "Sheet 3", "a'b", "x y z", "€",
               "A" * 31, "tabÿ"]
VIS = ["v", "v", "v", "h", "vh"]
KINDS = ["ws", "ws", "ws", "ws", "mac", "chart", "vba"]
# record types the globals loop ignores (FONT, WINDOW1, PALETTE, STYLE, EXTSST, SUPBOOK, RRTabId, BOOKBOOL …)
JUNK_TYPES = [0x0031, 0x003D, 0x0092, 0x0293, 0x00FF, 0x01AE, 0x013D, 0x00DA, 0x0161, 0x7FFE]
CUSTOM_DT = "yyyy\\-mm\\-dd hh:mm"
CUSTOM_TD = "[h]:mm:ss"


def hx(b):
    return bytes(b).hex() if len(b) else "-"


CODEPAGES = [1200, 1200, 1252, 1252, 1251, 1250, 932, 936, 949, 950, 874, 65001, 10000, 1201, 437, 0, 54321, 65535]


def codepage_body(rng):
    import struct
    b = struct.pack("<H", rng.choice(CODEPAGES))
    if rng.random() < 0.05:
        b += bytes(rng.getrandbits(8) for _ in range(rng.choice([1, 2, 6])))
    return b


def units_of(s):
    b = s.encode("utf-16-le")
    return [b[i] | (b[i + 1] << 8) for i in range(0, len(b), 2)]


def units_hex(u):
    return "".join("%04x" % x for x in u)


def gen_str_layout(rng, us):
    """one BiffSst.str_layout, legal for the code units us: cut_before, hb0, cuts, runs, ext, tail cuts"""
    cut_before = rng.random() < 0.2
    ncut = rng.choice([0, 0, 0, 1, 2, 3]) if len(us) >= 2 else 0
    bounds = sorted(rng.sample(range(1, len(us)), min(ncut, len(us) - 1))) if ncut else []
    if bounds and rng.random() < 0.15:
        bounds[0] = 0                                   # an empty first segment
        bounds = sorted(set(bounds))
    segs = [us[a:b] for a, b in zip([0] + bounds, bounds + [len(us)])]
    wide = [True if any(u > 255 for u in s) else rng.random() < 0.4 for s in segs]
    cuts = "+".join("%d:%d" % (len(segs[i]), 1 if wide[i + 1] else 0) for i in range(len(segs) - 1))
    runs, ext, tail, tcuts = "-", "-", b"", ""
    if rng.random() < 0.15:
        r = [(rng.randrange(0, len(us) + 1), rng.randrange(0, 5)) for _ in range(rng.choice([1, 2]))]
        runs = "".join("%04x%04x" % p for p in r)
        tail += b"\0" * (4 * len(r))
    if rng.random() < 0.12:
        e = bytes(rng.getrandbits(8) for _ in range(rng.choice([1, 4, 12])))
        ext = e.hex()
        tail += e
    if len(tail) >= 2 and rng.random() < 0.5:
        tcuts = str(rng.randrange(0, len(tail)))
    return "%d,%d,%s,%s,%s,%s" % (1 if cut_before else 0, 1 if wide[0] else 0, cuts, runs, ext, tcuts)


def gen_tail(rng, c02, tag):
    """a logical workbook and the choices below the container.
    Returns (tail fields of the `xlsfile` command, description for the expectation)"""
    env = c02.gen_env(rng)
    # the style table: one XF per format code of env; built-in ids or custom FORMAT records
    xfs, customs = [], {}
    for k, f in enumerate(env["fmts"]):
        style = env["fmt_style"][k]
        if f == 0:
            xfs.append(0 if style == 0 else 2)
        elif f == 1:
            if style == 0:
                xfs.append(rng.choice([14, 22, 47]))
            else:
                customs[164] = CUSTOM_DT
                xfs.append(164)
        else:
            if style == 0:
                xfs.append(46)
            else:
                customs[165] = CUSTOM_TD
                xfs.append(165)
    gi = [[], [], [], []]
    slot = 0
    for x in xfs:                                       # XF records in order, anywhere in the globals
        slot = min(3, slot + rng.choice([0, 0, 0, 1]))
        gi[slot].append("X %d %d %s" % (rng.randrange(4), x, bytes(rng.getrandbits(8) for _ in range(16)).hex()))
    for i, s in customs.items():
        wide = rng.random() < 0.4
        gi[rng.randrange(4)].insert(0, "F %d %d %s" % (i, 1 if wide else 0, s.encode("utf-8").hex()))
    if customs and rng.random() < 0.3:                  # an earlier definition of the same ifmt: the last one counts
        gi[0].insert(0, "F 164 0 %s" % "0.00".encode().hex())
        if 164 not in customs:
            gi[0].pop(0)
    for _ in range(rng.choice([0, 1, 2, 4])):
        k = rng.randrange(4)
        gi[k].insert(rng.randrange(len(gi[k]) + 1),
                     "J %d %s" % (rng.choice(JUNK_TYPES), hx(bytes(rng.getrandbits(8) for _ in range(rng.choice([0, 2, 8, 30]))))))
    if rng.random() < 0.12:                             # a stream outside the mini stream; globals longer than
        for _ in range(rng.choice([1, 1, 9, 12])):      # 64 KiB: lbPlyPos needs its upper half
            gi[rng.randrange(3)].append("J %d %s" % (rng.choice(JUNK_TYPES), bytes(rng.getrandbits(8) for _ in range(8000)).hex()))
    # the CodePage record (0x0042): behind the BOF where every producer writes it, of any value
    # (Excel 1200, JExcelApi 1252, localised writers, values unknown to the decoder table); sometimes
    # absent, sometimes somewhere else among the globals, sometimes twice.  BIFF8 text never goes
    # through it (audit-2 finding XLS-1): sheet names and strings of every packing must read the same
    r = rng.random()
    if r < 0.75:
        gi[0].insert(rng.choice([0, 0, min(1, len(gi[0]))]), "J 66 %s" % codepage_body(rng).hex())
    if rng.random() < 0.1:
        k = rng.randrange(4)
        gi[k].insert(rng.randrange(len(gi[k]) + 1), "J 66 %s" % codepage_body(rng).hex())
    omit = (not env["d1904"]) and rng.random() < 0.5
    # shared strings
    strs = [units_of(s) for s in env["strings"]]
    lays = [gen_str_layout(rng, u) for u in strs]
    total = len(strs) + rng.choice([0, 0, 3, 1000])
    # sheets
    nsheets = rng.choice([1, 1, 2, 3, 4]) if rng.random() < 0.95 else 0
    names = rng.sample(SHEET_NAMES, nsheets)
    sheets, descr = [], []
    for si in range(nsheets):
        logical = c02.gen_logical(rng, env)
        cells = c02.choose_layout(rng, env, logical, all_number=(rng.random() < 0.1))
        dspec, ditem = c02.dims_choice(rng, cells)
        items = []
        if dspec == "exact":
            import xlsgen
            ps = [p for c in cells for p in xlsgen.cell_positions(c) if c["k"] != "blank"]
            if ps:
                items.append("D 1 %d %d %d %d" % (min(p[0] for p in ps), max(p[0] for p in ps) + 1,
                                                 min(p[1] for p in ps), max(p[1] for p in ps) + 1))
        elif ditem:
            items.append(ditem)
        items += [c02.item_text(c) for c in cells]
        name = names[si]
        wide = True if any(ord(ch) > 255 for ch in name) else rng.random() < 0.5
        v, k = rng.choice(VIS), rng.choice(KINDS)
        trailer = b""
        if rng.random() < 0.2:
            trailer = bytes([rng.choice([0, 1, 0xFF, 0x3D])]) + bytes(rng.getrandbits(8) for _ in range(rng.choice([0, 3, 7, 40])))
        sheets.append("%s %s %s %d %d %s#%s" % (name.encode("utf-8").hex(), v, k, 1 if wide else 0,
                                               rng.choice([0, 0, 0, 1, 63, rng.randrange(64)]), hx(trailer), ";".join(items) or "-"))
        descr.append((name, v, k, logical))
    nrec = 1 + sum(len(g) for g in gi) + (0 if omit else 1) + nsheets
    sst_at = rng.randrange(1, nrec + 1) if rng.random() < 0.9 else rng.choice([0, nrec + 3])
    tail = ["1" if env["d1904"] else "0", ";".join(units_hex(u) for u in strs) if strs else "-", str(total), ";".join(lays) or "-",
            str(sst_at)] + [";".join(g) or "-" for g in gi] + ["1" if omit else "0"] + sheets
    # (a table holding one empty string is the empty field: c12's syntax)
    return tail, {"env": env, "sheets": descr, "nstr": len(strs), "strs": strs}


def parse_open(txt):
    """answer of `open … meta;names;range…` -> (meta, names, [range text]) or the failure text"""
    if txt is None or ";;" not in txt:
        return txt
    f = txt.split(";;")
    return f[0], f[1], f[2:]


def check_open_range(c02, exp, txt):
    """None when a range in the harness's format satisfies the property for the expected cells"""
    pr = vlib.parse_range(txt)
    if isinstance(pr, str):
        return "no range: %s" % txt[:80]
    if not exp:
        return None if pr is None else "expected an empty range"
    if pr is None:
        return "empty range, expected %d cells" % len(exp)
    (sr, sc), (er, ec), rows = pr
    rs, cs = [p[0] for p in exp], [p[1] for p in exp]
    want = (min(rs), min(cs), max(rs), max(cs))
    if (sr, sc, er, ec) != want:
        return "bounds %s, expected %s" % ((sr, sc, er, ec), want)
    if len(rows) != er - sr + 1 or any(len(r) != ec - sc + 1 for r in rows):
        return "shape of the range does not match its bounds"
    got = vlib.range_cells(pr)
    for p, (kind, v) in exp.items():
        if not c02.value_matches(kind, v, got.get(p)):
            return "cell %s: expected %s, got %s" % (p, v, got.get(p))
    extra = [p for p in got if p not in exp]
    if extra:
        return "unexpected non-empty cell %s = %s" % (extra[0], got[extra[0]])
    return None


def same_open(c02, a, b):
    """two answers equal up to NaN payloads"""
    if a == b:
        return True
    pa, pb = parse_open(a), parse_open(b)
    if not isinstance(pa, tuple) or not isinstance(pb, tuple) or pa[:2] != pb[:2] or len(pa[2]) != len(pb[2]):
        return False
    for x, y in zip(pa[2], pb[2]):
        rx, ry = vlib.parse_range(x), vlib.parse_range(y)
        if rx == ry:
            continue
        if rx is None or ry is None or isinstance(rx, str) or isinstance(ry, str) or rx[:2] != ry[:2]:
            return False
        cx, cy = vlib.range_cells(rx), vlib.range_cells(ry)
        if set(cx) != set(cy) or not all(c02.same_value(cx[p], cy[p]) for p in cx):
            return False
    return True


def run_whole(ctx, n_files=None, tag="w"):
    """draws n_files logical workbooks + choices, writes the files the extracted encoder gives, opens
    them with the real reader and with the whole-file model, compares three ways"""
    from props import c02, c13
    rng = ctx.rng
    n = n_files if n_files is not None else ctx.scale(150, 1500)
    tmp = os.path.join(vlib.CACHE, "tmp", "whole-%d" % os.getpid())
    os.makedirs(tmp, exist_ok=True)
    cases = []
    for k in range(n):
        tail, d = gen_tail(rng, c02, tag)
        cases.append({"id": "%s%d" % (tag, k), "tail": tail, "d": d})
    # 1. the Workbook stream (its length decides the container layout)
    m1 = ctx.run_model(["%s\txlsfile\tstream\t%s" % (c["id"], "\t".join(c["tail"])) for c in cases])
    lines2 = []
    for c in cases:
        a = m1.get(c["id"]) or ""
        if "|" not in a:
            ctx.disagreements.append({"function": "whole:driver(stream)", "case": "\t".join(c["tail"])[:600], "impl": "-", "model": a[:200]})
            c["skip"] = True
            continue
        stream = bytes.fromhex(a.split("|")[0])
        c["stream_len"] = len(stream)
        # 2. the container: other streams and storages around it, any valid layout
        ss = rng.choice([512, 512, 4096])
        book = rng.random() < 0.15
        used = {c13.ukey(x) for x in ("Workbook", "Book", "_VBA_PROJECT_CUR")}
        pool = [s for s in c13.STORAGE_POOL if s != "_VBA_PROJECT_CUR"]
        storages = rng.sample(pool, rng.choice([0, 0, 1, 2]))
        used.update(c13.ukey(s) for s in storages)
        others = [(c13.gen_name(rng, used), c13.gen_bytes(rng, c13.gen_size(rng, ss))) for _ in range(rng.choice([0, 0, 1, 2, 3]))]
        if not book and rng.random() < 0.2:
            others.append(("Book", c13.gen_bytes(rng, rng.choice([0, 70, 5000]))))     # a dual-format file
        cut = rng.randrange(len(others) + 1)
        pre, post = others[:cut], others[cut:]
        streams = pre + [("Book" if book else "Workbook", stream)] + post
        parents = c13.gen_parents(rng, len(storages), len(streams))
        parents[len(storages) + len(pre)] = 0 if rng.random() < 0.9 else parents[len(storages) + len(pre)]
        lay = c13.gen_layout(rng, ss, storages, streams)
        # links: a legal MS-CFB tree, an unsorted sibling chain, or none at all (the reader then scans the flat
        # directory array).  With a tree the workbook stream must be held by the ROOT storage (Cfb::find follows the
        # hierarchy since the fix of audit finding G8): nested, the file is no workbook (both sides must say so)
        linkmode = rng.choice(["legal", "legal", "chain", "none"])
        links = c13.gen_links(rng, storages, streams, parents, lay["slots"], linkmode) or []
        c["meant_legal"] = linkmode == "none" or parents[len(storages) + len(pre)] == 0
        c["linkmode"] = linkmode
        st = ";".join(c13.hx(x) for x in storages) or "-"
        sm = lambda l: ";".join("%s:%s" % (c13.hx(x), b.hex() or "-") for x, b in l) or "-"
        c["book"], c["ss"] = book, ss
        lines2.append("%s\txlsfile\tenc\t%d\t%d\t%s\t%s\t%s\t%s\t%s\t%s\t%s" % (
            c["id"], 1 if book else 0, ss, st, sm(pre), sm(post), ",".join(str(p) for p in parents) or "-",
            c13.lay_text(lay), "/".join("%d,%d,%d" % tuple(t) for t in links) or "-", "\t".join(c["tail"])))
        c["line"] = lines2[-1]
    m2 = ctx.run_model(lines2)
    impl_lines, model_lines = [], []
    for c in cases:
        if c.get("skip"):
            continue
        a = (m2.get(c["id"]) or "").split("|", 3)
        if len(a) != 4 or not a[3].startswith("spec="):
            ctx.disagreements.append({"function": "whole:driver(enc)", "case": c["line"][:600], "impl": "-", "model": "|".join(a)[:200]})
            c["skip"] = True
            continue
        c["legal"], c["fuel"], c["spec"] = a[1], a[2], a[3][5:]
        path = os.path.join(tmp, c["id"] + ".xls")
        with open(path, "wb") as f:
            f.write(bytes.fromhex(a[0]))
        c["path"] = path
        calls = ["meta", "names"] + ["range " + nm.encode("utf-8").hex() for nm, _, _, _ in c["d"]["sheets"]]
        impl_lines.append("%s\topen\txls\t%s\t%s" % (c["id"], path, ";".join(calls)))
        model_lines.append("%s\txlsfile\topen\t%s\t%s" % (c["id"], a[0], c["fuel"]))
    impl = ctx.run_impl(impl_lines)
    model = ctx.run_model(model_lines)
    ok = 0
    for c in cases:
        if c.get("skip"):
            continue
        ctx.traces += 1
        i, m = impl.get(c["id"]), model.get(c["id"])
        d = c["d"]
        case = "%s\topen\txls\t%s\t#%s" % (c["id"], c["path"], c["line"][:1800])
        if (c["legal"] == "1") != c["meant_legal"]:
            ctx.disagreements.append({"function": "whole:legal(generator)", "case": case, "impl": (i or "")[:300], "model": (m or "")[:300]})
            continue
        ctx.count("whole:links:" + c["linkmode"])
        if not c["meant_legal"]:
            # the workbook stream sits inside a storage of a file with a hierarchy: not the root's Workbook / Book
            ctx.count("whole:workbook_stream_nested(model tie only)")
            # the model answers with the ranges of the sheets IT found; the implementation is asked for the sheets the
            # generator meant.  When the root holds another (junk) stream called Book / Workbook that happens to read as a
            # workbook without sheets (an empty stream), both open it and the implementation's answers for the meant
            # sheets are err:notfound: the same observation, not a broken tie
            if (m is not None and ";;" in m and len(m.split(";;")) == 2 and i is not None and i.startswith(m + ";;")
                    and all(x == "err:notfound" for x in i.split(";;")[2:])):
                ctx.count("whole:workbook_stream_nested:other root stream opens as an empty workbook")
                i = m
            if not same_open(c02, i, m):
                ctx.disagreements.append({"function": "whole:xls_open_model(nested workbook stream)", "case": case,
                                          "impl": (i or "")[:600], "model": (m or "")[:600]})
            try:
                os.remove(c["path"])
            except OSError:
                pass
            continue
        # expected, independently of Coq: names / visibility / kind in order, no defined names, the cells
        exp_meta = ",".join("%s:%s:%s" % (nm.encode("utf-8").hex(), v, k) for nm, v, k, _ in d["sheets"])
        exps = [c02.logical_expected(lg, d["env"]) for _, _, _, lg in d["sheets"]]
        def against(txt):
            p = parse_open(txt)
            if not isinstance(p, tuple):
                return "open failed: %s" % (txt or "")[:80]
            if p[0] != exp_meta:
                return "sheets %s, expected %s" % (p[0], exp_meta)
            if p[1] != "":
                return "defined names %s, expected none" % p[1]
            if len(p[2]) != len(exps):
                return "%d ranges for %d sheets" % (len(p[2]), len(exps))
            for si, (e, t) in enumerate(zip(exps, p[2])):
                why = check_open_range(c02, e, t)
                if why:
                    return "sheet %d: %s" % (si, why)
            return None
        why = against(c["spec"])
        if why:
            ctx.disagreements.append({"function": "whole:spec(Coq spec_result vs oracle): " + why, "case": case,
                                      "impl": (i or "")[:300], "model": c["spec"][:300]})
            continue
        why = against(i)
        if why:
            ctx.violations.append({"case": case, "expected": c["spec"][:600], "actual": (i or "")[:600],
                                   "model": (m or "")[:600], "what": "whole file: " + why})
            continue
        if not same_open(c02, i, m):
            ctx.disagreements.append({"function": "whole:xls_open_model", "case": case, "impl": (i or "")[:600], "model": (m or "")[:600]})
            continue
        if not same_open(c02, m, c["spec"]):
            ctx.disagreements.append({"function": "whole:theorem(model vs spec_result)", "case": case,
                                      "impl": c["spec"][:600], "model": (m or "")[:600]})
            continue
        ok += 1
        ctx.count("whole:files")
        ncp = sum(1 for g in c["tail"][5:9] for it in g.split(";") if it.startswith("J 66 "))
        ctx.count("whole:codepage-records=%d" % ncp)
        for g in c["tail"][5:9]:
            for it in g.split(";"):
                if it.startswith("J 66 "):
                    ctx.count("whole:codepage=%d" % int.from_bytes(bytes.fromhex(it.split(" ")[2])[:2], "little"))
        ctx.count("whole:sheets", len(d["sheets"]))
        ctx.count("whole:container:%s:%d" % ("book" if c["book"] else "workbook", c["ss"]))
        ctx.count("whole:stream:%s" % ("over-64KiB" if c["stream_len"] > 65536 else "mini" if c["stream_len"] < 4096 else "regular"))
        if any(exps):
            ctx.nontrivial(c["line"])
        if ok <= 2:
            ctx.sample({"whole_file": c["line"][:300], "impl": (i or "")[:200]})
        try:
            os.remove(c["path"])
        except OSError:
            pass
    try:
        os.rmdir(tmp)                                   # files of failing cases are kept for replay
    except OSError:
        pass
    if n_files is None:
        run_whole_fixtures(ctx)
    return ok


# tests/sheet_name_parsing.xls: BIFF8 written by JExcelApi with CodePage 1252 (audit-2 finding XLS-1)
FIXTURE_PINS = {
    "sheet_name_parsing.xls": ("%s:v:ws" % "Sheet1".encode().hex(), "",
                               ["R[0,0,0,6|" + ",".join("S" + t.encode("utf-8").hex() for t in
                                ["Titel", "Orginaltitel", "\u00c5r", "Regiss\u00f6r", "Ditt betyg", "Datum", "IMDB#"]) + "]"]),
}


def why_unmodelled(data):
    import pwgen, struct
    why = []
    try:
        r = pwgen.cfb_dir_chain(data)
        if r is not None and "_VBA_PROJECT_CUR".encode("utf-16-le") in r[1]:
            why.append("_VBA_PROJECT_CUR storage: the VBA project is read first, C18's domain")
        st = pwgen.cfb_stream(data, "Workbook") or pwgen.cfb_stream(data, "Book")
        if st is not None and len(st) >= 6 and struct.unpack("<H", st[:2])[0] == 0x0809 and struct.unpack("<H", st[4:6])[0] != 0x0600:
            why.append("BOF of BIFF version 0x%04x" % struct.unpack("<H", st[4:6])[0])
    except Exception:
        pass
    return "; ".join(why) or "?"


def run_whole_fixtures(ctx):
    """every .xls / .xla fixture of the repository through Xls::new + sheets_metadata + defined_names
    + worksheet_range of every sheet, and through the whole-file model XlsFile.xls_open_model on the
    bytes of the file.  Corpus rule (audit 2): a fixture on which a component model answers
    'unmodelled' (a BIFF5 BOF; a _VBA_PROJECT_CUR storage) is listed by name in the evidence."""
    from props import c02
    impl_lines, model_lines, info = [], [], {}
    for ext, path in vlib.fixtures({"xls", "xla"}):
        name = os.path.basename(path)
        cid = "fx_" + name.replace(".", "_").replace(" ", "_")
        data = open(path, "rb").read()
        # the sheet names, from the reader itself (the calls need them)
        a = ctx.run_impl(["%s\topen\txls\t%s\tsheets" % (cid, path)]).get(cid) or ""
        names = [] if a.startswith(("openerr", "panic")) or a == "" else [x for x in a.split(",") if x != ""]
        calls = ["meta", "names"] + ["range " + n for n in names]
        impl_lines.append("%s\topen\txls\t%s\t%s" % (cid, path, ";".join(calls)))
        model_lines.append("%s\txlsfile\topen\t%s\t%d" % (cid, data.hex(), 4096))
        info[cid] = name
    impl = ctx.run_impl(impl_lines)
    model = ctx.run_model(model_lines)
    for cid, name in info.items():
        i, m = impl.get(cid), model.get(cid)
        ctx.traces += 1
        if m == "unmodelled":
            vlib.fixture_report(ctx, name, "unmodelled", why_unmodelled(open(os.path.join(vlib.FIXTURE_DIR, name), "rb").read()))
        elif same_open(c02, i, m):
            vlib.fixture_report(ctx, name, "agree", (i or "")[:12])
            ctx.nontrivial(cid + (i or ""))
        else:
            vlib.fixture_report(ctx, name, "DISAGREE")
            ctx.disagreements.append({"function": "whole:xls_open_model(repository fixture)", "case": "tests/" + name,
                                      "impl": (i or "")[:600], "model": (m or "")[:600]})
        if name in FIXTURE_PINS:
            p = parse_open(i)
            want = FIXTURE_PINS[name]
            if not isinstance(p, tuple) or (p[0], p[1], list(p[2])) != (want[0], want[1], want[2]):
                ctx.violations.append({"case": "repository fixture tests/%s" % name, "expected": ";;".join([want[0], want[1]] + want[2]),
                                       "actual": (i or "")[:600], "model": (m or "")[:600],
                                       "what": "whole file: BIFF8 workbook with CodePage 1252 (audit-2 XLS-1): sheet names and cell strings must read as stored"})
