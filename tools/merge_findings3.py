#!/usr/bin/env python3
"""3-way merge of known_findings.json during a git merge (stages 1 = base, 2 = ours, 3 = theirs):
an entry removed by either side is removed, an entry added by either side is added (fixed entries
keyed by property + text, findings by property + id)."""
import json, subprocess
def stage(n):
    return json.loads(subprocess.check_output(["git", "show", ":%d:known_findings.json" % n]))
base, ours, theirs = stage(1), stage(2), stage(3)
def merge(key, kf):
    b = {kf(e): e for e in base[key]}
    o = {kf(e): e for e in ours[key]}
    t = {kf(e): e for e in theirs[key]}
    out = []
    for k, e in o.items():
        if k in b and k not in t:
            continue                      # removed by theirs
        out.append(t.get(k, e) if (k in b and json.dumps(b[k]) == json.dumps(e)) else e)
    for k, e in t.items():
        if k not in o and k not in b:
            out.append(e)                 # added by theirs
    return out
res = {"findings": merge("findings", lambda e: (e["property"], e["id"])),
       "fixed": merge("fixed", lambda e: (e["property"], e["what_failed"][:120]))}
with open("known_findings.json", "w") as f:
    json.dump(res, f, indent=1, ensure_ascii=False); f.write("\n")
print("known_findings.json merged: %d findings, %d fixed" % (len(res["findings"]), len(res["fixed"])))
