// C01: open an .xlsx file through the public API and print every sheet sparsely.
//   open <path> <calls>      calls separated by ';' (names are hex of UTF-8):
//        range <name> | ref <name> | hdr <n>|- | names | all
//     range / ref : worksheet_range / worksheet_range_ref in the canonical sparse form
//        R[-]  or  R[sr,sc,er,ec|n=<cells>|r:c:V,…]
//        (non-empty cells in row-major order at ABSOLUTE positions, read with rows(); every listed
//        cell is re-read with get_value and start()/end()/get_size() are cross-checked: a mismatch
//        prints "inconsistent")
//     all : for every sheet name in order  namehex=<range>  joined by '&', then "##" and the same
//        for worksheets()
//   Output fields joined by ";;".  Open failure: "openerr".  Errors: "err".
//   groc <hex>    get_row_and_optional_column through the existing hook -> ok:r,c | ok:r,- | err
//   (read_workbook's target normalisation is private and not hooked: exercised through files)
use crate::util::*;
use calamine::{Data, DataRef, HeaderRow, Range, Reader, ReaderRef, Xlsx};
use std::io::Cursor;
// every call runs under its own catch_unwind: a panic in one call answers "panic" for that call

fn ref_str(d: &DataRef) -> String {
    match d {
        DataRef::SharedString(s) => format!("H{}", hexstr(s)),
        other => dataref_str(other),
    }
}

fn sparse<T: Clone + Default + PartialEq + std::fmt::Debug + calamine::CellType>(
    r: &Range<T>,
    show: impl Fn(&T) -> String,
    is_empty: impl Fn(&T) -> bool,
) -> String {
    match (r.start(), r.end()) {
        (Some(s), Some(e)) => {
            let (h, w) = r.get_size();
            if h as u64 != (e.0 - s.0) as u64 + 1 || w as u64 != (e.1 - s.1) as u64 + 1 {
                return "inconsistent".to_string();
            }
            let mut cells: Vec<String> = Vec::new();
            let mut n: u64 = 0;
            for (i, row) in r.rows().enumerate() {
                for (j, v) in row.iter().enumerate() {
                    n += 1;
                    if !is_empty(v) {
                        let p = (s.0 + i as u32, s.1 + j as u32);
                        // compared through the canonical text: NaN != NaN
                        if r.get_value(p).map(|x| show(x)) != Some(show(v)) {
                            return "inconsistent".to_string();
                        }
                        cells.push(format!("{}:{}:{}", p.0, p.1, show(v)));
                    }
                }
            }
            // just outside the rectangle there is nothing
            if r.get_value((e.0 + 1, e.1)).is_some() || r.get_value((e.0, e.1 + 1)).is_some() {
                return "inconsistent".to_string();
            }
            format!("R[{},{},{},{}|n={}|{}]", s.0, s.1, e.0, e.1, n, cells.join(","))
        }
        (None, None) => "R[-]".to_string(),
        _ => "inconsistent".to_string(),
    }
}

fn data_range(r: &Range<Data>) -> String {
    sparse(r, data_str, |v| matches!(v, Data::Empty))
}

pub fn run(args: &[&str]) -> String {
    match args {
        ["open", path, calls] => {
            let bytes = match std::fs::read(path) {
                Ok(b) => b,
                Err(_) => return "nofile".to_string(),
            };
            let mut x: Xlsx<Cursor<Vec<u8>>> = match Xlsx::new(Cursor::new(bytes)) {
                Ok(x) => x,
                Err(_) => return "openerr".to_string(),
            };
            let mut out: Vec<String> = Vec::new();
            for c in calls.split(';') {
                let f: Vec<&str> = c.split(' ').collect();
                let name = |i: usize| -> String {
                    String::from_utf8_lossy(&unhex(f.get(i).copied().unwrap_or(""))).into_owned()
                };
                out.push(match std::panic::catch_unwind(std::panic::AssertUnwindSafe(|| match f[0] {
                    "hdr" => {
                        let h = if f[1] == "-" {
                            HeaderRow::FirstNonEmptyRow
                        } else {
                            HeaderRow::Row(f[1].parse::<u64>().unwrap() as u32)
                        };
                        x.with_header_row(h);
                        "ok".to_string()
                    }
                    "range" => match x.worksheet_range(&name(1)) {
                        Ok(r) => data_range(&r),
                        Err(_) => "err".to_string(),
                    },
                    "ref" => match x.worksheet_range_ref(&name(1)) {
                        Ok(r) => sparse(&r, ref_str, |v| matches!(v, DataRef::Empty)),
                        Err(_) => "err".to_string(),
                    },
                    "names" => x
                        .sheet_names()
                        .iter()
                        .map(|n| hexstr(n))
                        .collect::<Vec<_>>()
                        .join(","),
                    "all" => {
                        let names = x.sheet_names();
                        let a: Vec<String> = names
                            .iter()
                            .map(|n| {
                                format!(
                                    "{}={}",
                                    hexstr(n),
                                    match x.worksheet_range(n) {
                                        Ok(r) => data_range(&r),
                                        Err(_) => "err".to_string(),
                                    }
                                )
                            })
                            .collect();
                        let b: Vec<String> = x
                            .worksheets()
                            .iter()
                            .map(|(n, r)| format!("{}={}", hexstr(n), data_range(r)))
                            .collect();
                        format!("{}##{}", a.join("&"), b.join("&"))
                    }
                    _ => "bad-call".to_string(),
                })) {
                    Ok(s) => s,
                    Err(_) => "panic".to_string(),
                });
            }
            out.join(";;")
        }
        ["groc", h] => match calamine::verif_hooks::xlsx::get_row_and_optional_column(&unhex(h)) {
            Ok((r, Some(c))) => format!("ok:{},{}", r, c),
            Ok((r, None)) => format!("ok:{},-", r),
            Err(_) => "err".to_string(),
        },
        _ => "bad-args".to_string(),
    }
}
