(* C06: the extracted hardened copies of Totality.v.
   tot  decompress <hex container>                          -> ok:<hex> | err | panic | fuel
   tot  rc <hex cell reference>                             -> ok:<row>,<col or -> | err | panic | fuel
   tot  chain <hex body> <sector size> <fat,fat,… or -> <start> <len>
                                                            -> ok:<hex stream> | err | panic | fuel *)
open Conv
open Prelude
open Totality

let show_bytes (o : BinNums.coq_N list outcome) : string =
  match o with
  | Ok l -> "ok:" ^ hex_of_bytes l
  | Err _ -> "err"
  | Panic -> "panic"
  | OutOfFuel -> "fuel"

let run (args : string list) : string =
  match args with
  | ["decompress"; h] -> show_bytes (decompress_h (bytes_of_hex h))
  | ["decompress"] -> show_bytes (decompress_h [])
  | ["rc"; h] ->
    (match get_rc_h (bytes_of_hex h) with
     | Ok (r, Some c) -> "ok:" ^ string_of_n r ^ "," ^ string_of_n c
     | Ok (r, None) -> "ok:" ^ string_of_n r ^ ",-"
     | Err _ -> "err" | Panic -> "panic" | OutOfFuel -> "fuel")
  | ["rc"] ->
    (match get_rc_h [] with
     | Ok (r, Some c) -> "ok:" ^ string_of_n r ^ "," ^ string_of_n c
     | Ok (r, None) -> "ok:" ^ string_of_n r ^ ",-"
     | Err _ -> "err" | Panic -> "panic" | OutOfFuel -> "fuel")
  | ["chain"; body; size; fats; start; len] ->
    let fats = if fats = "-" then [] else List.map n_of_string (split_on ',' fats) in
    let body = if body = "-" then [] else bytes_of_hex body in
    show_bytes (get_chain_h body (n_of_string size) fats (n_of_string start) (n_of_string len))
  | _ -> "bad-args"

let () = Registry.register "tot" run
let init () = ()
