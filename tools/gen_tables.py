#!/usr/bin/env python3
"""gen_tables.py — translator for the pure data tables the formula decoders index.

Re-reads <repo>/src/utils.rs (repo = $VERIF_REPO or /repo) and rewrites coq/gen/Tables.v with
    FTAB_LEN  : N
    FTAB      : list (list N)     (function names as lists of ASCII codes)
    FTAB_ARGC : list N
The file is rewritten only when its content changes, so that `make` re-checks exactly the proofs
that depend on a changed table.  Extraction is fail-closed: anything unexpected (a block that is
not found exactly once, an entry that is not a plain ASCII string literal / decimal u8, a count
that differs from FTAB_LEN) aborts with a non-zero exit status and leaves Tables.v untouched.

    tools/gen_tables.py            regenerate coq/gen/Tables.v
    tools/gen_tables.py --ref      (used once) write the frozen reference coq/theories/FtabRef.v
"""
import os, re, sys

ROOT = os.path.dirname(os.path.dirname(os.path.abspath(__file__)))
REPO = os.environ.get("VERIF_REPO", "/repo")


def die(msg):
    sys.stderr.write("gen_tables: " + msg + "\n")
    sys.exit(1)


def strip_rust_comments(txt):
    """drops // line comments and /* */ block comments outside string literals"""
    out, i, n = [], 0, len(txt)
    while i < n:
        c = txt[i]
        if c == '"':
            j = i + 1
            while j < n and txt[j] != '"':
                if txt[j] == "\\":
                    j += 1
                j += 1
            out.append(txt[i:j + 1])
            i = j + 1
        elif txt.startswith("//", i):
            while i < n and txt[i] != "\n":
                i += 1
        elif txt.startswith("/*", i):
            j = txt.find("*/", i + 2)
            if j < 0:
                die("unterminated block comment")
            i = j + 2
        else:
            out.append(c)
            i += 1
    return "".join(out)


def one_block(src, pattern, what):
    ms = list(re.finditer(pattern, src, re.S))
    if len(ms) != 1:
        die("%s: expected exactly one definition, found %d" % (what, len(ms)))
    return ms[0]


def extract(path):
    try:
        raw = open(path, encoding="utf-8").read()
    except OSError as e:
        die("cannot read %s: %s" % (path, e))
    src = strip_rust_comments(raw)
    m = one_block(src, r"pub\s+const\s+FTAB_LEN\s*:\s*usize\s*=\s*([0-9_]+)\s*;", "FTAB_LEN")
    ftab_len = int(m.group(1).replace("_", ""))
    m = one_block(src, r"pub\s+const\s+FTAB\s*:\s*\[\s*&\s*str\s*;\s*FTAB_LEN\s*\]\s*=\s*\[(.*?)\]\s*;", "FTAB")
    body = m.group(1)
    names = []
    rest = body
    tok = re.compile(r'\s*"([^"\\]*)"\s*(,|$)', re.S)
    pos = 0
    while pos < len(rest):
        if rest[pos:].strip() == "":
            break
        t = tok.match(rest, pos)
        if not t:
            die("FTAB: unexpected text near %r" % rest[pos:pos + 40])
        s = t.group(1)
        if not all(32 <= ord(ch) < 127 for ch in s):
            die("FTAB: non-ASCII or control character in %r" % s)
        names.append(s)
        pos = t.end()
    m = one_block(src, r"pub\s+const\s+FTAB_ARGC\s*:\s*\[\s*u8\s*;\s*FTAB_LEN\s*\]\s*=\s*\[(.*?)\]\s*;", "FTAB_ARGC")
    argc = []
    for piece in m.group(1).split(","):
        p = piece.strip()
        if p == "":
            continue
        if not re.fullmatch(r"[0-9]+(u8)?", p):
            die("FTAB_ARGC: unexpected entry %r" % p)
        v = int(p.replace("u8", ""))
        if v > 255:
            die("FTAB_ARGC: entry %d does not fit u8" % v)
        argc.append(v)
    if len(names) != ftab_len:
        die("FTAB has %d entries, FTAB_LEN is %d" % (len(names), ftab_len))
    if len(argc) != ftab_len:
        die("FTAB_ARGC has %d entries, FTAB_LEN is %d" % (len(argc), ftab_len))
    return ftab_len, names, argc


def coq_text(ftab_len, names, argc, suffix, header):
    L = [header,
         "From Coq Require Import List NArith.",
         "Import ListNotations.",
         "Open Scope N_scope.",
         "",
         "Definition FTAB_LEN%s : N := %d." % (suffix, ftab_len),
         "",
         "Definition FTAB%s : list (list N) := [" % suffix]
    for i, s in enumerate(names):
        codes = "; ".join(str(ord(ch)) for ch in s)
        safe = s.replace("(*", "( *").replace("*)", "* )")
        L.append("  [%s]%s (* %d %s *)" % (codes, ";" if i + 1 < len(names) else "", i, safe))
    L.append("].")
    L.append("")
    L.append("Definition FTAB_ARGC%s : list N := [" % suffix)
    for i in range(0, len(argc), 20):
        chunk = "; ".join(str(v) for v in argc[i:i + 20])
        L.append("  %s%s" % (chunk, ";" if i + 20 < len(argc) else ""))
    L.append("].")
    return "\n".join(L) + "\n"


def write_if_changed(path, txt):
    os.makedirs(os.path.dirname(path), exist_ok=True)
    if os.path.exists(path) and open(path, encoding="utf-8").read() == txt:
        return False
    tmp = path + ".tmp"
    with open(tmp, "w", encoding="utf-8") as f:
        f.write(txt)
    os.replace(tmp, path)
    return True


def main():
    src = os.path.join(REPO, "src", "utils.rs")
    ftab_len, names, argc = extract(src)
    if "--ref" in sys.argv[1:]:
        dst = os.path.join(ROOT, "coq", "theories", "FtabRef.v")
        if os.path.exists(dst) and "--force" not in sys.argv[1:]:
            die("%s exists; the reference is frozen (use --force only when re-pinning on purpose)" % dst)
        # NOTE: the FtabRef.v in the tree is NOT a plain dump any more: it is the pinned source plus three
        # arities corrected by hand against the Ftab (MMULT 2, LENB 1, CONVERT 3 — audit E1-E3) and says so
        # in its header.  Re-pinning with --ref --force from a tree that has the corrected utils.rs gives
        # the same tables; restore the header comment afterwards.
        hdr = ("(* FtabRef — FROZEN reference copy of FTAB / FTAB_ARGC (src/utils.rs) taken from the pinned\n"
               "   tree.  Never regenerated by the check.  FtabMatch.tables_match_reference compares the table\n"
               "   the code has NOW (CalamineGen.Tables, regenerated on every run) with this copy, so it is a\n"
               "   regression pin, not a conformance claim against MS-XLS 2.5.198.17. *)")
        txt = coq_text(ftab_len, names, argc, "_REF", hdr)
        txt += ("\n"
                "Theorem reference_lengths :\n"
                "  length FTAB_REF = N.to_nat FTAB_LEN_REF /\\ length FTAB_ARGC_REF = N.to_nat FTAB_LEN_REF.\n"
                "Proof. vm_compute. split; reflexivity. Qed.\n")
        write_if_changed(dst, txt)
        print(dst)
        return 0
    dst = os.path.join(ROOT, "coq", "gen", "Tables.v")
    hdr = "(* generated by tools/gen_tables.py from src/utils.rs of the repository under check — do not edit *)"
    changed = write_if_changed(dst, coq_text(ftab_len, names, argc, "", hdr))
    print("%s %s (%d entries)" % (dst, "rewritten" if changed else "unchanged", ftab_len))
    return 0


if __name__ == "__main__":
    sys.exit(main())
