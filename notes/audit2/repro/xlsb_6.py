# xlsb_6: C16 / C03 — workbook.bin.rels with an ABSOLUTE Target ("/xl/worksheets/sheet1.bin"), legal in OPC
# (a relationship Target is a URI reference resolved against the source part; calamine's xlsx reader accepts it:
# xlsx/mod.rs:383).  The xlsb reader builds "xl/" + target.
import struct, sys
sys.path.insert(0, '/tmp/ag/audit2/repro')
from xlsb_common import *

body = rowhdr(0) + rec(0x0005, cell(0) + struct.pack('<d', 1.5))
calls = ['sheets', 'meta', 'range ' + hx('Sheet1')]
p = OUT + '/xlsb_6_rel.xlsb'
package(p, [('Sheet1', sheet(body))])
print('relative Target        :', run(p, calls))
p = OUT + '/xlsb_6_abs.xlsb'
package(p, [('Sheet1', sheet(body))], targets=['/xl/worksheets/sheet1.bin'])
print('absolute Target /xl/...:', run(p, calls))
