// C18: MS-OVBA decompression of a container given as hex (args[0]) through the hook around
// cfb::decompress_stream.  Answer: ok:<hex of the decompressed bytes> | err  (a panic is caught
// by main and answered "panic").
use crate::util::{hex, unhex};

pub fn run(args: &[&str]) -> String {
    let s = unhex(args.first().copied().unwrap_or(""));
    match calamine::verif_hooks::cfb::decompress_stream(&s) {
        Ok(v) => format!("ok:{}", hex(&v)),
        Err(_) => "err".to_string(),
    }
}
