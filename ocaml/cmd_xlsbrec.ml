(* C03: XLSB record framing, the worksheet model and the encoder / specification, printed in
   exactly the format of harness/src/cmds/xlsbrec.rs.
     xlsbrec recs  <hex part>
     xlsbrec sheet <sst: "none" | hex part> <hex sheet part> <fmts> <1904> <hdr>
         (model of what `xlsbrec file` reads: cells= / ref= / data=, or openerr / panic)
     xlsbrec enc   <fmts> <1904> <strings> <layout>
         encoder, legality, known class, specification and model:
         hex#wf#sorted#known#specref=..#specdata=..#speccells=..#cells=..#ref=..#data=..
     xlsbrec sst   <total> <items> <hex trailer>     encoder of sharedStrings.bin:
         hex#wf#strings   (items: ";"-separated  w,k,<hex utf8 text>,<hex tail>)
   fmts: one digit per XF (0 Other, 1 DateTime, 2 TimeDelta), "-" for none;
   strings: "-" or comma-separated tokens "s<hex utf8>";  hdr: "-" or a row index.
   layout: pre1|dim|pre2|begin|items|end|trailer  with
     raw record  w,k,id,hex            (w: two-byte id form, k: continuation bytes of the length)
     pre1        like pre2 (no BrtWsDim at its top level)
     dim         -  or  w,k,r0,c0,r1,c1,hextail
     pre2        elements separated by ";":  R:raw   or   B:raw/raw~raw~.../w,k,hex
     begin, end  w,k,hex
     items       ";"-separated:  w,k,R,row,hextail | w,k,C,col,style,fl,val,hextail |
                 w,k,S,style,fl,val,hextail (a short cell record) | w,k,O,id,hex
     val         blank | rk:i:v:x | rk:f:hi:x | err:n | bool:b | real:bits | st:hex | isst:i |
                 fst:hex | fnum:bits | fbool:b | ferr:n
   The Section variable of the Coq model is instantiated here (trusted glue):
     fdiv100 = hardware IEEE-754 division by 100.0 on the bit pattern. *)
open Conv
open BinNums
open Prelude
open RK
open XlsbRec

let int64_of_n (n : coq_N) : int64 =
  let rec pos p = match p with
    | Coq_xH -> 1L
    | Coq_xO q -> Int64.shift_left (pos q) 1
    | Coq_xI q -> Int64.logor (Int64.shift_left (pos q) 1) 1L in
  match n with N0 -> 0L | Npos p -> pos p
let n_of_int64 (x : int64) : coq_N =
  let rec go (x : int64) : positive =
    let rest = Int64.shift_right_logical x 1 in
    let bit = Int64.logand x 1L in
    if rest = 0L then Coq_xH
    else if bit = 0L then Coq_xO (go rest) else Coq_xI (go rest) in
  if x = 0L then N0 else Npos (go x)

let fdiv100 (bits : coq_N) : coq_N =
  n_of_int64 (Int64.bits_of_float (Int64.float_of_bits (int64_of_n bits) /. 100.0))

(* ---- canonical printing (harness/src/util.rs data_str, xlsbrec.rs dref_str) ---- *)
let err_num (e : cerr) : int =
  match e with
  | EDiv0 -> 0 | ENA -> 1 | EName -> 2 | ENull -> 3 | ENum -> 4 | ERef -> 5 | EValue -> 6
  | EGettingData -> 7
let b01 b = if b then "1" else "0"
let data_str (d : data) : string =
  match d with
  | DEmpty -> "E"
  | DInt z -> "I" ^ string_of_z z
  | DFloat b -> "F" ^ string_of_n b
  | DString s -> "S" ^ hex_of_scalars s
  | DBool b -> "B" ^ b01 b
  | DDateTime (b, dur, s) -> "D" ^ string_of_n b ^ ":" ^ b01 dur ^ ":" ^ b01 s
  | DError e -> "X" ^ string_of_int (err_num e)
let dref_str (v : dref) : string =
  match v with
  | RVal d -> data_str d
  | RShared s -> "H" ^ hex_of_scalars s

let parse_fmts (s : string) : cellfmt list =
  if s = "-" then [] else
    List.init (String.length s) (fun i ->
        match s.[i] with '1' -> FDateTime | '2' -> FTimeDelta | _ -> FOther)
let parse_strings (s : string) : coq_N list list =
  if s = "-" then [] else
    List.map (fun t -> scalars_of_hex (String.sub t 1 (String.length t - 1)))
      (String.split_on_char ',' s)
let hexarg (s : string) : coq_N list = if s = "-" then [] else bytes_of_hex s
let parse_h s = if s = "-" then HeaderRow.FirstNonEmptyRow else HeaderRow.HRow (n_of_string s)

let outcome_str (f : 'a -> string) (o : 'a outcome) : string =
  match o with
  | Ok v -> f v
  | Err _ -> "err"
  | Panic -> "panic"
  | OutOfFuel -> "fuel"

let cells_str (cells : cellr list) : string =
  "ok:" ^ String.concat ";" (List.map (fun ((r, c), d) ->
      string_of_n r ^ "," ^ string_of_n c ^ "=" ^ dref_str d) cells)

let range_str (show : 'a -> string) (d : 'a) (r : 'a Range.range) : string =
  match Range.start r, Range.end_ r with
  | Some (sr, sc), Some (er, ec) ->
    let used = Range.used_cells d (fun a b -> a = b) r in
    Printf.sprintf "R[%s,%s,%s,%s|%s,%s|%s]" (string_of_n sr) (string_of_n sc) (string_of_n er)
      (string_of_n ec) (string_of_n (Range.height r)) (string_of_n (Range.width r))
      (String.concat "," (List.map (fun ((i, j), v) ->
           string_of_n i ^ ":" ^ string_of_n j ^ ":" ^ show v) used))
  | _ -> "R[-]"
let rref_str = range_str dref_str (RVal DEmpty)
let rdata_str = range_str data_str DEmpty

let summary (b : coq_N list) : string =
  let n = List.length b in
  if n <= 48 then hex_of_bytes b
  else begin
    let a = Array.of_list (List.map int_of_n b) in
    let sum = Array.fold_left (+) 0 a in
    let sub i k = hex_of_bytes (List.map n_of_int (Array.to_list (Array.sub a i k))) in
    Printf.sprintf "L%d.%s.%s.%d" n (sub 0 8) (sub (n - 8) 8) sum
  end

(* the three readings of one sheet part *)
let readings (en : env) (h : HeaderRow.header_row) (sheet : coq_N list) : string =
  "cells=" ^ outcome_str cells_str (reader_cells fdiv100 en sheet) ^
  "#ref=" ^ outcome_str rref_str (worksheet_range_ref fdiv100 en h sheet) ^
  "#data=" ^ outcome_str rdata_str (worksheet_range fdiv100 en h sheet)

(* ---- the layout language ---- *)
let ints_nat i = nat_of_int (int_of_string i)
let frm_of w k : frm = { f_wide = (w = "1"); f_lenb = ints_nat k }
let cerr_of_int i =
  match i with
  | 0 -> ENull | 1 -> EDiv0 | 2 -> EValue | 3 -> ERef | 4 -> EName | 5 -> ENum | 6 -> ENA
  | _ -> EGettingData
let text_of (h : string) : coq_N list = if h = "-" then [] else scalars_of_hex h
let raw_of_str (s : string) : rawrec =
  match String.split_on_char ',' s with
  | [w; k; id; hx] -> ((frm_of w k, n_of_string id), hexarg hx)
  | _ -> failwith ("bad raw record " ^ s)
let list_of sep s f = if s = "-" || s = "" then [] else List.map f (String.split_on_char sep s)
let cval_of_str (s : string) : cval =
  match String.split_on_char ':' s with
  | ["blank"] -> VBlank
  | ["rk"; "i"; v; x] -> VRk (RkI (z_of_string v, x = "1"))
  | ["rk"; "f"; h; x] -> VRk (RkF (n_of_string h, x = "1"))
  | ["err"; e] -> VErr (cerr_of_int (int_of_string e))
  | ["bool"; b] -> VBool (b = "1")
  | ["real"; b] -> VReal (n_of_string b)
  | ["st"; h] -> VSt (text_of h)
  | ["isst"; i] -> VIsst (n_of_string i)
  | ["fst"; h] -> VFmlaStr (text_of h)
  | ["fnum"; b] -> VFmlaNum (n_of_string b)
  | ["fbool"; b] -> VFmlaBool (b = "1")
  | ["ferr"; e] -> VFmlaErr (cerr_of_int (int_of_string e))
  | _ -> failwith ("bad cell value " ^ s)
let item_of_str (s : string) : frm * item =
  match String.split_on_char ',' s with
  | [w; k; "R"; row; tl] -> (frm_of w k, IRow (n_of_string row, hexarg tl))
  | [w; k; "C"; col; st; fl; v; tl] ->
    (frm_of w k, ICell (n_of_string col, n_of_string st, n_of_string fl, cval_of_str v, hexarg tl))
  | [w; k; "S"; st; fl; v; tl] ->
    (frm_of w k, IShort (n_of_string st, n_of_string fl, cval_of_str v, hexarg tl))
  | [w; k; "O"; id; hx] -> (frm_of w k, IOther (n_of_string id, hexarg hx))
  | _ -> failwith ("bad item " ^ s)
let hrec_of_str (s : string) : hrec =
  let body = String.sub s 2 (String.length s - 2) in
  if s.[0] = 'R' then HRec (raw_of_str body)
  else
    match String.split_on_char '/' body with
    | [o; inner; c] ->
      (match String.split_on_char ',' c with
       | [w; k; hx] -> HBlock (raw_of_str o, list_of '~' inner raw_of_str, (frm_of w k, hexarg hx))
       | _ -> failwith "bad block end")
    | _ -> failwith ("bad block " ^ s)
let fb_of_str (s : string) : frm * coq_N list =
  match String.split_on_char ',' s with
  | [w; k; hx] -> (frm_of w k, hexarg hx)
  | _ -> failwith ("bad begin/end " ^ s)
let layout_of_str (s : string) : layout =
  match String.split_on_char '|' s with
  | [p1; dim; p2; bg; items; en; tr] ->
    { l_pre1 = list_of ';' p1 hrec_of_str;
      l_dim = (if dim = "-" then None else
                 match String.split_on_char ',' dim with
                 | [w; k; r0; c0; r1; c1; tl] ->
                   Some ((frm_of w k, ((n_of_string r0, n_of_string c0), (n_of_string r1, n_of_string c1))),
                         hexarg tl)
                 | _ -> failwith "bad dim");
      l_pre2 = list_of ';' p2 hrec_of_str;
      l_begin = fb_of_str bg;
      l_items = list_of ';' items item_of_str;
      l_end = fb_of_str en;
      l_trailer = hexarg tr }
  | _ -> failwith "bad layout"

let sst_item_of_str (s : string) =
  match String.split_on_char ',' s with
  | [w; k; t; tl] -> ((frm_of w k, text_of t), hexarg tl)
  | _ -> failwith ("bad sst item " ^ s)

let run (args : string list) : string =
  match args with
  | ["recs"; hx] ->
    let s = hexarg hx in
    "ok:" ^ String.concat ";" (List.map (fun (t, d) -> string_of_n t ^ ":" ^ summary d)
                                 (all_records (nat_of_int (List.length s + 1)) s))
  | ["sheet"; sst; sheet; fmts; s1904; hdr] ->
    let part = if sst = "none" then None else Some (hexarg sst) in
    (match read_shared_strings part with
     | Err _ -> "openerr"
     | Panic -> "panic"
     | OutOfFuel -> "fuel"
     | Ok strings ->
       let en = { e_formats = parse_fmts fmts; e_1904 = (s1904 = "1"); e_strings = strings } in
       readings en (parse_h hdr) (hexarg sheet))
  | ["enc"; fmts; s1904; strings; lay] ->
    let en = { e_formats = parse_fmts fmts; e_1904 = (s1904 = "1"); e_strings = parse_strings strings } in
    let c = layout_of_str lay in
    let bytes = encode_sheet c in
    let l = logical fdiv100 en c in
    String.concat "#" [
      hex_of_bytes bytes;
      b01 (wf_layout en c);
      b01 (sorted_by_rowb l);
      (match known_C03 c with None -> "-" | Some k -> string_of_n k);
      "specref=" ^ rref_str (range_of (RVal DEmpty) l);
      "specdata=" ^ rdata_str (range_of DEmpty (List.map (fun (p, v) -> (p, to_data v)) l));
      "speccells=" ^ cells_str l;
      readings en HeaderRow.FirstNonEmptyRow bytes ]
  | ["sst"; total; items; trailer] ->
    let its = list_of ';' items sst_item_of_str in
    let bytes = encode_sst (n_of_string total) its (hexarg trailer) in
    String.concat "#" [
      hex_of_bytes bytes;
      b01 (List.for_all wf_sst_item its);
      outcome_str (fun ss -> "ok:" ^ String.concat "," (List.map (fun s -> "s" ^ hex_of_scalars s) ss))
        (read_shared_strings (Some bytes)) ]
  | _ -> "bad-args"

let () = Registry.register "xlsbrec" run
let init () = ()
