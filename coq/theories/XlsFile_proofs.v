(* XlsFile_proofs.v — the whole-file theorem for xls: composition of C13 (container), C16 (globals),
   C12 (SST), C10 (formats), C02 (sheet substreams) and C05 (Range::from_sparse, through C02).
   Only glue is proved here: the record-list view of the globals, three facts about Meta's
   globals loop that hold for ANY record list (an SST record that parses can be dropped; what
   follows EOF is not read; the positions it stores are the lbPlyPos fields), the projections
   [g_formats] / [g_xfs] / [g_strings] on the written globals, byte offsets of the substreams,
   the BTreeMap lookup by name. *)
From Calamine Require Import Prelude Range Range_spec RK.
From Calamine Require Import BiffSst BiffSst_proofs Meta Meta_proofs MetaXls_proofs MetaXlsNames_proofs.
From Calamine Require BiffRec BiffRec_proofs NumFmt NumFmt_proofs Cfb Cfb_proofs Utf16.
From Calamine Require Import XlsFile.
Open Scope N_scope.

(* ------------------------------------------------------------------------------------- *)
(** * A. the record-list view *)

Definition good (r : grec) : Prop := fst r <> 60 /\ len (snd r) <= 65535.
Definition okrec (r : grec) : outcome rec_item := Ok (fst r, snd r, None).
Definition plain (r : grec) : rec_item := (fst r, snd r, None).

Lemma frames_app : forall a b, frames (a ++ b) = frames a ++ frames b.
Proof. intros. unfold frames. apply flat_map_app. Qed.

Lemma frames_cons : forall r l, frames (r :: l) = frame (fst r) (snd r) ++ frames l.
Proof. reflexivity. Qed.

Lemma nc_good_frames : forall L rest, Forall good L -> nc rest -> nc (frames L ++ rest).
Proof.
  intros [|r L] rest H Hn; [exact Hn|].
  inversion H as [|? ? [H1 H2] _]; subst. rewrite frames_cons, <- app_assoc.
  apply nc_frame; assumption.
Qed.

Lemma records_frames : forall L rest, Forall good L -> nc rest ->
  records (frames L ++ rest) = map okrec L ++ records rest.
Proof.
  induction L as [|r L IH]; intros rest H Hn; [reflexivity|].
  inversion H as [|? ? [H1 H2] HL]; subst. rewrite frames_cons, <- app_assoc.
  rewrite (records_plain (fst r) (snd r) _ H2 (nc_good_frames L rest HL Hn)).
  cbn [map app]. unfold okrec at 1. f_equal. apply IH; assumption.
Qed.

Lemma before_eof_app : forall L X, Forall (fun r : grec => fst r <> 10) L ->
  before_eof (map okrec L ++ X) = map plain L ++ before_eof X.
Proof.
  induction L as [|r L IH]; intros X H; [reflexivity|].
  inversion H as [|? ? H1 HL]; subst. cbn [map app before_eof okrec fst].
  replace (fst r =? 10) with false by lia. unfold plain at 1. f_equal. apply IH. exact HL.
Qed.

(* ------------------------------------------------------------------------------------- *)
(** * B. Meta's globals loop on ANY record list *)

Ltac globals_same IH :=
  repeat (lazymatch goal with
          | |- (if ?b then _ else _) = _ => destruct b
          | |- obind ?o _ = _ => destruct o; cbn [obind]
          | |- xls_globals _ _ = xls_globals _ _ => apply IH
          | |- _ => reflexivity
          end).

Ltac eval_eqbs n :=
  repeat match goal with
         | |- context [n =? ?k] => let b := eval vm_compute in (n =? k) in change (n =? k) with b
         end; cbn iota.

(* an SST record that parse_sst accepts changes nothing in what the loop returns *)
Lemma globals_skip_sst : forall l1 d c l2 s, parse_sst (d, conts_of c) = Ok s ->
  forall st, xls_globals (l1 ++ Ok (252, d, c) :: l2) st = xls_globals (l1 ++ l2) st.
Proof.
  intros l1 d c l2 s Hs. induction l1 as [|a l1 IH]; intros st.
  - cbn [app xls_globals]. eval_eqbs 252. rewrite Hs. reflexivity.
  - destruct a as [[[t d'] c']|e| |]; cbn [app xls_globals]; try reflexivity.
    globals_same IH.
Qed.

(* nothing after the EOF record is read *)
Lemma globals_after_eof : forall l d c X Y st,
  xls_globals (l ++ Ok (10, d, c) :: X) st = xls_globals (l ++ Ok (10, d, c) :: Y) st.
Proof.
  intros l d c X Y. induction l as [|a l IH]; intros st.
  - cbn [app xls_globals]. eval_eqbs 10. reflexivity.
  - destruct a as [[[t d'] c']|e| |]; cbn [app xls_globals]; try reflexivity.
    globals_same IH.
Qed.

(* the positions it stores: the lbPlyPos field of every BoundSheet8 record it visits *)
Definition pos_of_record (d : bytes) : N := match read_u32 d with Ok p => p | _ => 0 end.
Definition g_positions (rs : list rec_item) : list N :=
  flat_map (fun r => if fst (fst r) =? 133 then [pos_of_record (snd (fst r))] else []) rs.

Lemma sheet_metadata_pos : forall d pm, xls_sheet_metadata d = Ok pm -> fst pm = pos_of_record d.
Proof.
  intros d pm H. unfold xls_sheet_metadata in H. unfold pos_of_record.
  destruct (len d <? 6); [discriminate|].
  destruct (read_u32 d) as [p|e| |]; cbn [obind] in H; try discriminate.
  destruct (of_option (nth_error d 4)) as [v|e| |]; cbn [obind] in H; try discriminate.
  destruct (match N.land v 3 with 0 => Ok Visible | 1 => Ok Hidden | 2 => Ok VeryHidden | _ => Err E_UNREC end)
    as [vv|e| |]; cbn [obind] in H; try discriminate.
  destruct (of_option (nth_error d 5)) as [t|e| |]; cbn [obind] in H; try discriminate.
  destruct (match t with 0 => Ok WorkSheet | 1 => Ok MacroSheet | 2 => Ok ChartSheet | 6 => Ok Vba | _ => Err E_UNREC end)
    as [k|e| |]; cbn [obind] in H; try discriminate.
  destruct (parse_short_string (drop 6 d)) as [nm|e| |]; cbn [obind] in H; try discriminate.
  injection H as <-. reflexivity.
Qed.

Lemma globals_positions : forall recs st st', xls_globals recs st = Ok st' ->
  map fst (xg_sheets st') = map fst (xg_sheets st) ++ g_positions (before_eof recs).
Proof.
  induction recs as [|a recs IH]; intros st st' H.
  - cbn in H. injection H as <-. cbn. rewrite app_nil_r. reflexivity.
  - destruct a as [[[t d] c]|e| |]; cbn [xls_globals] in H; try discriminate.
    cbn [before_eof fst snd].
    destruct (t =? 47) eqn:E47; [discriminate|].
    destruct (t =? 66) eqn:E66.
    { apply N.eqb_eq in E66. subst t. change (66 =? 10) with false. cbn iota.
      unfold g_positions. cbn [flat_map fst snd]. change (66 =? 133) with false. cbn iota. cbn [app].
      destruct (len d <? 2); [discriminate|]. apply (IH _ _ H). }
    destruct (t =? 34) eqn:E34.
    { apply N.eqb_eq in E34. subst t. change (34 =? 10) with false. cbn iota.
      unfold g_positions. cbn [flat_map fst snd]. change (34 =? 133) with false. cbn iota. cbn [app].
      destruct (len d <? 2); [discriminate|].
      destruct (read_u16 d) as [v|e| |]; cbn [obind] in H; try discriminate.
      rewrite (IH _ _ H). destruct (v =? 1); reflexivity. }
    destruct (t =? 1054) eqn:E1054.
    { apply N.eqb_eq in E1054. subst t. change (1054 =? 10) with false. cbn iota.
      unfold g_positions. cbn [flat_map fst snd]. change (1054 =? 133) with false. cbn iota. cbn [app].
      destruct (len d <? 5); [discriminate|]. apply (IH _ _ H). }
    destruct (t =? 224) eqn:E224.
    { apply N.eqb_eq in E224. subst t. change (224 =? 10) with false. cbn iota.
      unfold g_positions. cbn [flat_map fst snd]. change (224 =? 133) with false. cbn iota. cbn [app].
      destruct (len d <? 4); [discriminate|]. apply (IH _ _ H). }
    destruct (t =? 133) eqn:E133.
    { apply N.eqb_eq in E133. subst t. change (133 =? 10) with false. cbn iota.
      unfold g_positions. cbn [flat_map fst snd]. change (133 =? 133) with true. cbn iota.
      destruct (xls_sheet_metadata d) as [pm|e| |] eqn:Em; cbn [obind] in H; try discriminate.
      rewrite (IH _ _ H). cbn [xg_sheets]. rewrite map_app, <- app_assoc. cbn [map app].
      rewrite (sheet_metadata_pos d pm Em). reflexivity. }
    destruct (t =? 2057) eqn:E2057.
    { apply N.eqb_eq in E2057. subst t. change (2057 =? 10) with false. cbn iota.
      unfold g_positions. cbn [flat_map fst snd]. change (2057 =? 133) with false. cbn iota. cbn [app].
      destruct (len d <? 2); [discriminate|].
      destruct (read_u16 d) as [v|e| |]; cbn [obind] in H; try discriminate.
      destruct (if 4 <=? len d then read_u16 (drop 2 d) else Ok 0) as [dt|e| |]; cbn [obind] in H;
        try discriminate.
      destruct (bof_is_biff8 v dt); [|discriminate]. apply (IH _ _ H). }
    destruct (t =? 24) eqn:E24.
    { apply N.eqb_eq in E24. subst t. change (24 =? 10) with false. cbn iota.
      unfold g_positions. cbn [flat_map fst snd]. change (24 =? 133) with false. cbn iota. cbn [app].
      destruct (xls_lbl d) as [nf|e| |]; cbn [obind] in H; try discriminate.
      apply (IH _ _ H). }
    destruct (t =? 23) eqn:E23.
    { apply N.eqb_eq in E23. subst t. change (23 =? 10) with false. cbn iota.
      unfold g_positions. cbn [flat_map fst snd]. change (23 =? 133) with false. cbn iota. cbn [app].
      destruct (len d <? 2); [discriminate|].
      destruct (read_u16 d) as [cx|e| |]; cbn [obind] in H; try discriminate.
      destruct (map_o xls_xti (firstN cx (chunks_exact 6 (drop 2 d ++ concat (conts_of c))))) as [xs|e| |]; cbn [obind] in H;
        try discriminate.
      apply (IH _ _ H). }
    destruct (t =? 252) eqn:E252.
    { apply N.eqb_eq in E252. subst t. change (252 =? 10) with false. cbn iota.
      unfold g_positions. cbn [flat_map fst snd]. change (252 =? 133) with false. cbn iota. cbn [app].
      destruct (parse_sst (d, conts_of c)) as [xs|e| |]; cbn [obind] in H; try discriminate.
      apply (IH _ _ H). }
    destruct (t =? 10) eqn:E10.
    { injection H as <-. cbn. rewrite app_nil_r. reflexivity. }
    unfold g_positions. cbn [flat_map fst snd]. rewrite E133. cbn [app]. apply (IH _ _ H).
Qed.

(* ------------------------------------------------------------------------------------- *)
(** * C. the globals of Meta's encoder as a record list *)

Lemma frames_map : forall (A : Type) (g : A -> grec) l,
  frames (map g l) = flat_map (fun x => frame (fst (g x)) (snd (g x))) l.
Proof. intros A g. induction l as [|x l IH]; [reflexivity|]. cbn [map]. rewrite frames_cons, IH. reflexivity. Qed.

(* (the XTI array in the ExternSheet record alone: no CONTINUE records) *)
Lemma xls_stream_frames : forall c wb, lc_xcuts c = [] ->
  xls_stream c wb = frames (grecs c wb) ++ frame 10 [] ++ lc_tail c.
Proof.
  intros c wb Hcuts. unfold xls_stream, grecs. rewrite Hcuts.
  rewrite frames_cons. cbn [fst snd]. rewrite !frames_app, !frames_map. cbn [fst snd].
  rewrite <- !app_assoc. f_equal. f_equal.
  destruct (lc_omit_1904 c && negb (wb_1904 wb)); destruct (lc_xtis c) as [|x xs];
    unfold extern_rec, frame_rec; cbn [xpieces frames flat_map fst snd app]; rewrite ?app_nil_r, <- ?app_assoc;
    cbn [app]; reflexivity.
Qed.

(* Meta's legality does not depend on the positions and the tail beyond their bounds *)
Lemma ls_legal_transfer : forall sheets scs,
  forallb2 ls_legal sheets (ls_choices true scs) = true ->
  Forall (fun sc => sc_pos sc <= 4294967295) scs ->
  forallb2 ls_legal sheets (ls_choices false scs) = true.
Proof.
  induction sheets as [|s sheets IH]; intros [|sc scs] H HP; cbn in H |- *; try discriminate; [reflexivity|].
  inversion HP as [|? ? P1 P2]; subst.
  apply andb_true_iff in H. destruct H as [H1 H2]. apply andb_true_iff. split; [|apply IH; assumption].
  unfold ls_legal in *. cbn [ls_pos ls_wide ls_hi] in *.
  repeat (apply andb_true_iff in H1; destruct H1 as [H1 ?]).
  repeat (apply andb_true_iff; split); try assumption. lia.
Qed.

Lemma xls_legal_transfer : forall ch wb tail,
  xls_legal (meta_choice true ch []) wb = true ->
  Forall (fun sc => sc_pos sc <= 4294967295 /\ sc_pos sc <= len tail) (xc_sheets ch) ->
  nc tail ->
  xls_legal (meta_choice false ch tail) wb = true.
Proof.
  intros ch wb tail H HP Hn. unfold xls_legal, spec_env_xls in *.
  cbn [meta_choice lc_junk0 lc_junk1 lc_junk2 lc_junk3 lc_sheets lc_names lc_xtis lc_xcuts lc_tail] in *.
  repeat (apply andb_true_iff in H; destruct H as [H ?]).
  repeat (apply andb_true_iff; split); try assumption.
  - apply ls_legal_transfer; [assumption|]. eapply Forall_impl; [|exact HP]. intros a [Ha _]. exact Ha.
  - apply negb_true_iff. exact Hn.
  - apply forallb_forall. intros lc Hin. unfold ls_choices in Hin. apply in_map_iff in Hin.
    destruct Hin as [sc [<- Hsc]]. cbn [ls_pos]. rewrite Forall_forall in HP.
    destruct (HP sc Hsc) as [_ Hle]. rewrite xls_stream_frames by reflexivity. cbn [lc_tail meta_choice].
    rewrite !len_app. lia.
Qed.

(* every record of the written globals: not CONTINUE, fits, not EOF, not SST *)
Definition gp (r : grec) : Prop :=
  fst r <> 60 /\ len (snd r) <= 65535 /\ fst r <> 10 /\ fst r <> 252 /\ fst r <> 133.
Definition gp133 (r : grec) : Prop :=
  fst r <> 60 /\ len (snd r) <= 65535 /\ fst r <> 10 /\ fst r <> 252.

Lemma gp_weaken : forall r, gp r -> gp133 r.
Proof. intros r (a & b & c & d & _). repeat split; assumption. Qed.

Lemma xjunk_gp : forall r, xjunk_ok r = true -> gp r.
Proof.
  intros [t b] H. unfold xjunk_ok in H. cbn [fst snd] in *.
  apply andb_true_iff in H. destruct H as [H H3]. apply andb_true_iff in H. destruct H as [H1 H2].
  assert (Ht : t <> 60 /\ t <> 10 /\ t <> 252 /\ t <> 133).
  { apply orb_true_iff in H1. destruct H1 as [H1|H1];
      [apply orb_true_iff in H1; destruct H1 as [H1|H1];
       [apply orb_true_iff in H1; destruct H1 as [H1|H1]|]|].
    - apply negb_true_iff in H1. unfold xls_interpreted in H1.
      repeat (apply orb_false_iff in H1; destruct H1 as [H1 ?]). repeat split; lia.
    - apply andb_true_iff in H1. destruct H1 as [H1 _]. apply N.eqb_eq in H1. subst t.
      repeat split; discriminate.
    - apply andb_true_iff in H1. destruct H1 as [H1 _]. apply N.eqb_eq in H1. subst t.
      repeat split; discriminate.
    - apply andb_true_iff in H1. destruct H1 as [H1 _]. apply N.eqb_eq in H1. subst t.
      repeat split; discriminate. }
  unfold gp. cbn [fst snd]. intuition lia.
Qed.

Lemma Forall_map_in : forall (A B : Type) (P : B -> Prop) (g : A -> B) l,
  (forall x, In x l -> P (g x)) -> Forall P (map g l).
Proof. intros. apply Forall_forall. intros y Hy. apply in_map_iff in Hy. destruct Hy as [x [<- Hx]]. auto. Qed.

Lemma forallb2_in_combine : forall (A B : Type) (f : A -> B -> bool) l m x y,
  forallb2 f l m = true -> In (x, y) (combine l m) -> f x y = true.
Proof.
  induction l as [|a l IH]; intros [|b m] x y H Hin; cbn in *; try contradiction; try discriminate.
  apply andb_true_iff in H. destruct H as [H1 H2]. destruct Hin as [E|Hin].
  - injection E as <- <-. exact H1.
  - eapply IH; eassumption.
Qed.

Lemma grecs_gp : forall c wb, lc_xcuts c = [] -> xls_legal c wb = true -> Forall gp133 (grecs c wb).
Proof.
  intros c wb Hcuts Hl. unfold xls_legal in Hl.
  apply andb_true_iff in Hl. destruct Hl as [Hl Hpos].
  apply andb_true_iff in Hl. destruct Hl as [Hl Htail].
  apply andb_true_iff in Hl. destruct Hl as [Hl Hps].
  apply andb_true_iff in Hl. destruct Hl as [Hl Hp0].
  apply andb_true_iff in Hl. destruct Hl as [Hl Hnx].
  apply andb_true_iff in Hl. destruct Hl as [Hl Hxt].
  apply andb_true_iff in Hl. destruct Hl as [Hl Hnames].
  apply andb_true_iff in Hl. destruct Hl as [Hl Hsheets].
  apply andb_true_iff in Hl. destruct Hl as [Hl J3].
  apply andb_true_iff in Hl. destruct Hl as [Hl J2].
  apply andb_true_iff in Hl. destruct Hl as [J0 J1].
  assert (HJ : forall j, forallb xjunk_ok j = true -> Forall gp133 j).
  { intros j Hj. apply Forall_forall. intros r Hr. rewrite forallb_forall in Hj.
    apply gp_weaken, xjunk_gp, Hj, Hr. }
  unfold grecs. apply Forall_cons.
  { unfold gp133. cbn [fst snd]. repeat split; try discriminate. }
  repeat (apply Forall_app; split); auto.
  - destruct (lc_omit_1904 c && negb (wb_1904 wb)); [constructor|].
    repeat constructor; cbn [fst snd]; try discriminate; try apply len_le16_ok.
  - apply Forall_map_in. intros [s lc] Hin. unfold gp133. cbn [fst snd].
    repeat split; try discriminate.
    apply len_boundsheet. exact (forallb2_in_combine _ _ _ _ _ _ _ Hsheets Hin).
  - destruct (lc_xtis c) as [|x xs] eqn:Ex; [constructor|].
    repeat constructor; cbn [fst snd]; try discriminate.
    rewrite Hcuts in Hp0. unfold extern_rec in Hp0. cbn [xpieces fst] in Hp0. apply N.leb_le in Hp0. exact Hp0.
  - apply Forall_map_in. intros [n lc] Hin. unfold gp133. cbn [fst snd].
    repeat split; try discriminate.
    eapply len_lbl_body. exact (forallb2_in_combine _ _ _ _ _ _ _ Hnames Hin).
Qed.

(* ------------------------------------------------------------------------------------- *)
(** * D. what the globals arms store, on the written globals *)

Definition pickg (X : Type) (T : N) (h : bytes -> X) (r : grec) : list X :=
  if fst r =? T then [h (snd r)] else [].
Arguments pickg {X} T h r.

Lemma flat_map_cons' : forall (A B : Type) (f : A -> list B) x l, flat_map f (x :: l) = f x ++ flat_map f l.
Proof. reflexivity. Qed.

Lemma pick_plain : forall (X : Type) (T : N) (h : bytes -> X) L,
  flat_map (fun r : rec_item => if fst (fst r) =? T then [h (snd (fst r))] else []) (map plain L)
  = flat_map (pickg T h) L.
Proof. intros X T h. induction L as [|r L IH]; [reflexivity|]. cbn [map flat_map]. rewrite IH. reflexivity. Qed.

Lemma pickg_none : forall (X : Type) (T : N) (h : bytes -> X) L,
  Forall (fun r : grec => fst r <> T) L -> flat_map (pickg T h) L = [].
Proof.
  intros X T h. induction L as [|r L IH]; intros H; [reflexivity|].
  inversion H as [|? ? H1 H2]; subst. cbn [flat_map]. rewrite (IH H2). unfold pickg.
  replace (fst r =? T) with false by lia. reflexivity.
Qed.

Lemma pickg_map_other : forall (X A : Type) (T t : N) (h : bytes -> X) (g : A -> bytes) l,
  t <> T -> flat_map (pickg T h) (map (fun x => (t, g x)) l) = [].
Proof.
  intros. apply pickg_none. apply Forall_map_in. intros x _. cbn [fst]. assumption.
Qed.

Lemma pickg_map_same : forall (X A : Type) (T : N) (h : bytes -> X) (g : A -> bytes) l,
  flat_map (pickg T h) (map (fun x => (T, g x)) l) = map (fun x => h (g x)) l.
Proof.
  intros X A T h g. induction l as [|x l IH]; [reflexivity|].
  cbn [map flat_map]. rewrite IH. unfold pickg. cbn [fst snd]. rewrite N.eqb_refl. reflexivity.
Qed.

(* the general shape: only the ignorable records and (for T = 133) the BoundSheet8 records matter *)
Lemma pickg_grecs : forall (X : Type) (T : N) (h : bytes -> X) c wb,
  T <> 2057 -> T <> 34 -> T <> 430 -> T <> 23 -> T <> 24 ->
  flat_map (pickg T h) (grecs c wb) =
  flat_map (pickg T h) (lc_junk0 c) ++ flat_map (pickg T h) (lc_junk1 c)
  ++ (if T =? 133
      then map (fun sc : meta * ls_choice =>
                  h (boundsheet_body (ls_pos (snd sc))
                       (xls_vis_code (m_vis (fst sc)) + 4 * ls_hi (snd sc))
                       (xls_kind_code (m_kind (fst sc))) (ls_wide (snd sc))
                       (units_of (m_name (fst sc)))))
               (combine (wb_sheets wb) (lc_sheets c))
      else [])
  ++ flat_map (pickg T h) (lc_junk2 c) ++ flat_map (pickg T h) (lc_junk3 c).
Proof.
  intros X T h c wb H1 H2 H3 H4 H5. unfold grecs. rewrite flat_map_cons'.
  rewrite !flat_map_app.
  assert (E0 : pickg T h (2057, bof_globals) = []).
  { unfold pickg. cbn [fst]. replace (2057 =? T) with false by lia. reflexivity. }
  rewrite E0. cbn [app]. f_equal.
  assert (E1 : flat_map (pickg T h)
                 (if lc_omit_1904 c && negb (wb_1904 wb) then []
                  else [(34, le16 (b2n (wb_1904 wb)))]) = []).
  { destruct (lc_omit_1904 c && negb (wb_1904 wb)); [reflexivity|].
    cbn [flat_map]. unfold pickg. cbn [fst]. replace (34 =? T) with false by lia. reflexivity. }
  rewrite E1. cbn [app]. f_equal.
  assert (E3 : flat_map (pickg T h)
                 (map (fun nc : (str * Ptg.expr) * ln_choice => (24, lbl_body (fst nc) (snd nc)))
                      (combine (wb_names wb) (lc_names c))) = []).
  { apply pickg_map_other. lia. }
  rewrite E3. cbn [app].
  destruct (T =? 133) eqn:ET.
  - apply N.eqb_eq in ET. subst T. rewrite pickg_map_same. f_equal. f_equal.
    destruct (lc_xtis c); [reflexivity|]. cbn [flat_map]. unfold pickg. cbn [fst]. reflexivity.
  - rewrite pickg_map_other by lia. cbn [app]. f_equal.
    destruct (lc_xtis c); [reflexivity|]. cbn [flat_map]. unfold pickg. cbn [fst].
    replace (430 =? T) with false by lia. replace (23 =? T) with false by lia. reflexivity.
Qed.

Lemma u16_at_le16_0 : forall a rest, u16_at (le16 a ++ rest) 0 = a.
Proof. intros. unfold u16_at, le16. cbn [app nth]. apply u16_le16. Qed.
Lemma u16_at_le16_2 : forall a b rest, u16_at (le16 a ++ le16 b ++ rest) 2 = b.
Proof. intros. unfold u16_at, le16. cbn [app nth]. apply u16_le16. Qed.

Lemma gitem_not_interp : forall t, negb (xls_interpreted t) || (t =? 66) = true ->
  t <> 224 /\ t <> 1054.
Proof.
  intros t H. apply orb_true_iff in H. destruct H as [H|H]; [|split; lia].
  apply negb_true_iff in H. unfold xls_interpreted in H.
  repeat (apply orb_false_iff in H; destruct H as [H ?]). split; lia.
Qed.

Lemma junk_xfs : forall js, forallb gitem_ok js = true ->
  flat_map (pickg 224 (fun d => u16_at d 2)) (map gi_rec js) = gi_xfs js.
Proof.
  induction js as [|g js IH]; intros H; [reflexivity|].
  cbn [forallb] in H. apply andb_true_iff in H. destruct H as [Hg Hjs].
  cbn [map]. rewrite flat_map_cons'. unfold gi_xfs. rewrite flat_map_cons'. fold (gi_xfs js).
  rewrite (IH Hjs). f_equal. destruct g as [t b|ifnt ifmt rest|ifmt wide s]; cbn [gi_rec gitem_ok] in *.
  - destruct (gitem_not_interp t Hg) as [H1 _]. unfold pickg. cbn [fst]. replace (t =? 224) with false by lia.
    reflexivity.
  - unfold pickg. cbn [fst snd]. change (224 =? 224) with true. cbn iota. rewrite u16_at_le16_2. reflexivity.
  - reflexivity.
Qed.

Lemma format_of_record_enc : forall ifmt wide s,
  forallb scalarb s = true -> wide_ok wide s = true ->
  format_of_record (le16 ifmt ++ xl_string wide (units_of s)) = (ifmt, s).
Proof.
  intros ifmt wide s Hs Hw. unfold format_of_record. rewrite u16_at_le16_0. f_equal.
  unfold xl_string. rewrite u16_at_le16_2.
  unfold le16. cbn [app nth]. change (drop 5 (?a :: ?b :: ?c :: ?d :: ?e :: ?x)) with x.
  rewrite odd_b2n.
  assert (Hseg : seg_ok wide (units_of s) = true).
  { unfold seg_ok, wide_ok in *. destruct wide; [reflexivity|]. cbn [orb] in *.
    unfold units_of. rewrite (encode_latin1 s Hw). exact Hw. }
  rewrite <- (app_nil_r (seg_bytes wide (units_of s))).
  rewrite (decode_to_exact wide (units_of s) [] Hseg (encode_units_lt s Hs)). cbn [snd].
  unfold units_of. apply biff_decode_encode. exact Hs.
Qed.

Lemma junk_formats : forall js, forallb gitem_ok js = true ->
  flat_map (pickg 1054 format_of_record) (map gi_rec js) = gi_formats js.
Proof.
  induction js as [|g js IH]; intros H; [reflexivity|].
  cbn [forallb] in H. apply andb_true_iff in H. destruct H as [Hg Hjs].
  cbn [map]. rewrite flat_map_cons'. unfold gi_formats. rewrite flat_map_cons'. fold (gi_formats js).
  rewrite (IH Hjs). f_equal. destruct g as [t b|ifnt ifmt rest|ifmt wide s]; cbn [gi_rec gitem_ok] in *.
  - destruct (gitem_not_interp t Hg) as [_ H1]. unfold pickg. cbn [fst]. replace (t =? 1054) with false by lia.
    reflexivity.
  - reflexivity.
  - unfold pickg. cbn [fst snd]. change (1054 =? 1054) with true. cbn iota.
    apply andb_true_iff in Hg. destruct Hg as [Hg Hw]. apply andb_true_iff in Hg. destruct Hg as [_ Hs].
    rewrite (format_of_record_enc ifmt wide s Hs Hw). reflexivity.
Qed.

Lemma junk_no133 : forall (X : Type) (h : bytes -> X) j, forallb xjunk_ok j = true ->
  flat_map (pickg 133 h) j = [].
Proof.
  intros X h j Hj. apply pickg_none. apply Forall_forall. intros r Hr. rewrite forallb_forall in Hj.
  destruct (xjunk_gp r (Hj r Hr)) as (_ & _ & _ & _ & H). exact H.
Qed.

(* ------------------------------------------------------------------------------------- *)
(** * E. the written globals, read *)

Definition sst_item (sst : rstate) : rec_item :=
  (252, fst sst, match snd sst with [] => None | _ => Some (snd sst) end).

Lemma nc_eof : forall S, nc (frame 10 [] ++ S).
Proof. intros. apply nc_frame; [discriminate|exact len_nil_ok]. Qed.

Lemma frame10_not_nil : forall S, frame 10 [] ++ S <> [].
Proof. intros S. unfold frame, le16. cbn [app]. discriminate. Qed.

Lemma gp_good : forall L, Forall gp133 L -> Forall good L.
Proof. intros L H. eapply Forall_impl; [|exact H]. intros r (a & b & _). split; assumption. Qed.

Lemma Forall_firstn' : forall (A : Type) (P : A -> Prop) k (l : list A), Forall P l -> Forall P (firstn k l).
Proof. intros A P k l H. rewrite <- (firstn_skipn k l) in H. apply Forall_app in H. apply H. Qed.
Lemma Forall_skipn' : forall (A : Type) (P : A -> Prop) k (l : list A), Forall P l -> Forall P (skipn k l).
Proof. intros A P k l H. rewrite <- (firstn_skipn k l) in H. apply Forall_app in H. apply H. Qed.

(* RecordIter over the written globals followed by S *)
Lemma records_written : forall L k sst S,
  Forall gp133 L -> fits_records sst = true -> nc S ->
  records (frames (firstn k L) ++ frame_sst sst ++ frames (skipn k L) ++ frame 10 [] ++ S) =
  map okrec (firstn k L) ++ Ok (sst_item sst) :: map okrec (skipn k L)
  ++ Ok (10, [], None) :: records S.
Proof.
  intros L k sst S HL Hfit HS.
  pose proof (gp_good _ (Forall_firstn' _ _ k _ HL)) as G1.
  pose proof (gp_good _ (Forall_skipn' _ _ k _ HL)) as G2.
  unfold fits_records in Hfit. apply andb_true_iff in Hfit. destruct Hfit as [F1 F2].
  assert (F2' : forallb (fun c => len c <=? 65535) (snd sst) = true).
  { apply forallb_forall. intros c Hc. rewrite forallb_forall in F2. specialize (F2 c Hc). lia. }
  set (T := frames (skipn k L) ++ frame 10 [] ++ S).
  assert (NT : nc T) by (apply nc_good_frames; [exact G2|apply nc_eof]).
  assert (TN : T <> []).
  { unfold T. intros E. apply app_eq_nil in E. destruct E as [_ E]. exact (frame10_not_nil S E). }
  assert (NS : nc (frame_sst sst ++ T)).
  { unfold frame_sst. rewrite <- app_assoc. apply nc_frame; [discriminate|lia]. }
  rewrite (records_frames _ _ G1 NS). f_equal.
  assert (F1' : len (fst sst) <= 65535) by lia.
  rewrite (records_step _ _ _ (next_record_sst sst T F1' F2' TN NT)).
  unfold sst_item. f_equal. unfold T.
  rewrite (records_frames _ _ G2 (nc_eof S)). f_equal.
  apply (records_plain 10 [] S len_nil_ok HS).
Qed.

Lemma before_eof_written : forall L1 L2 it X,
  Forall gp133 L1 -> Forall gp133 L2 -> fst (fst it) = 252 ->
  before_eof (map okrec L1 ++ Ok it :: map okrec L2 ++ Ok (10, [], None) :: X) =
  map plain L1 ++ it :: map plain L2.
Proof.
  intros L1 L2 it X H1 H2 Hit.
  assert (N10 : forall L, Forall gp133 L -> Forall (fun r : grec => fst r <> 10) L).
  { intros L H. eapply Forall_impl; [|exact H]. intros r (_ & _ & a & _). exact a. }
  rewrite (before_eof_app _ _ (N10 _ H1)). f_equal.
  cbn [before_eof]. rewrite Hit. change (252 =? 10) with false. cbn iota. f_equal.
  rewrite (before_eof_app _ _ (N10 _ H2)). cbn [before_eof fst]. change (10 =? 10) with true.
  cbn iota. apply app_nil_r.
Qed.

Lemma g_strings_app : forall a b acc, g_strings (a ++ b) acc = g_strings b (g_strings a acc).
Proof. induction a as [|r a IH]; intros b acc; [reflexivity|]. cbn [app g_strings]. apply IH. Qed.

Lemma g_strings_none : forall L acc, Forall gp133 L -> g_strings (map plain L) acc = acc.
Proof.
  induction L as [|r L IH]; intros acc H; [reflexivity|].
  inversion H as [|? ? (_ & _ & _ & H1) H2]; subst. cbn [map g_strings plain fst snd].
  replace (fst r =? 252) with false by lia. apply IH. exact H2.
Qed.

Lemma pos_of_boundsheet : forall p v t hb us, p <= 4294967295 ->
  pos_of_record (boundsheet_body p v t hb us) = p.
Proof.
  intros. unfold pos_of_record, boundsheet_body. rewrite read_u32_le32 by assumption. reflexivity.
Qed.

Lemma parse_workbook_inv : forall show stream sh nm f,
  xls_parse_workbook show stream = Ok (mkParsed sh [] nm f) ->
  exists st, xls_globals (records stream) xls_state0 = Ok st /\ xls_resolve show st = Ok nm /\
             map snd (xg_sheets st) = sh /\ xg_1904 st = f.
Proof.
  intros show stream sh nm f H. unfold xls_parse_workbook in H.
  destruct (xls_globals (records stream) xls_state0) as [st|e| |]; cbn [obind] in H; try discriminate.
  destruct (xls_resolve show st) as [names|e| |] eqn:En; cbn [obind] in H; try discriminate.
  destruct (existsb _ _); [discriminate|]. injection H as H1 H2 H3.
  exists st. subst. repeat split; try reflexivity. exact En.
Qed.

Lemma nc_zeros : forall n, nc (repeat 0 n).
Proof. intros [|[|n]]; reflexivity || (unfold nc, starts_continue, u16_at; cbn [repeat nth]; apply andb_false_r). Qed.

Lemma len_repeat : forall (A : Type) (x : A) n, len (repeat x n) = N.of_nat n.
Proof. intros. unfold len. rewrite repeat_length. reflexivity. Qed.

Lemma nc_encode_sheet : forall c rest, nc (BiffRec.encode_sheet c ++ rest).
Proof.
  intros c rest. unfold BiffRec.encode_sheet, BiffRec.frame. cbn [le_bytes app].
  change (2057 mod 256) with 9. change (2057 / 256 mod 256) with 8.
  unfold nc, starts_continue, u16_at. cbn [nth]. apply andb_false_r.
Qed.

Lemma nc_sheets_bytes : forall cs, nc (sheets_bytes cs).
Proof.
  intros [|c cs]; [reflexivity|]. unfold sheets_bytes. cbn [flat_map]. apply nc_encode_sheet.
Qed.

Lemma positions_le : forall cs p0 p, In p (positions p0 cs) -> p <= p0 + len (sheets_bytes cs).
Proof.
  induction cs as [|c cs IH]; intros p0 p H; [contradiction|].
  cbn [positions] in H. unfold sheets_bytes. cbn [flat_map]. rewrite len_app.
  destruct H as [<-|H]; [lia|]. apply IH in H. unfold sheets_bytes in H. lia.
Qed.

Lemma positions_length : forall cs p0, length (positions p0 cs) = length cs.
Proof. induction cs as [|c cs IH]; intros p0; [reflexivity|]. cbn [positions length]. rewrite IH. reflexivity. Qed.

Lemma combine_fst_snd : forall (A B : Type) (l : list (A * B)), combine (map fst l) (map snd l) = l.
Proof. induction l as [|[a b] l IH]; [reflexivity|]. cbn. rewrite IH. reflexivity. Qed.

Lemma map_pos_ls_choices : forall scs, map ls_pos (ls_choices false scs) = map sc_pos scs.
Proof. intros. unfold ls_choices. rewrite map_map. reflexivity. Qed.

Lemma boundsheet_positions : forall (sheets : list meta) lcs,
  forallb2 ls_legal sheets lcs = true ->
  map (fun sc : meta * ls_choice =>
         pos_of_record (boundsheet_body (ls_pos (snd sc))
                          (xls_vis_code (m_vis (fst sc)) + 4 * ls_hi (snd sc))
                          (xls_kind_code (m_kind (fst sc))) (ls_wide (snd sc))
                          (units_of (m_name (fst sc))))) (combine sheets lcs)
  = map ls_pos lcs.
Proof.
  induction sheets as [|s sheets IH]; intros [|lc lcs] H; cbn in H; try discriminate; [reflexivity|].
  apply andb_true_iff in H. destruct H as [H1 H2]. cbn [combine map fst snd]. rewrite (IH _ H2). f_equal.
  apply pos_of_boundsheet. unfold ls_legal in H1.
  repeat (apply andb_true_iff in H1; destruct H1 as [H1 ?]). lia.
Qed.

Lemma Forall2_len : forall (A B : Type) (R : A -> B -> Prop) l m, Forall2 R l m -> length l = length m.
Proof. intros A B R l m H. induction H; [reflexivity|]. cbn. rewrite IHForall2. reflexivity. Qed.


(* the globals half: Meta's loop on the written Workbook stream returns the sheets with the
   positions of the choice, the names and the date system; the environment of the sheet loop is
   the logical workbook's *)
Theorem globals_written : forall (show_f64 : N -> list N) wb ch,
  xfile_legalb wb ch = true ->
  map Some (gi_xfs (all_junk ch)) = NumFmt.xfs (lw_styles wb) ->
  gi_formats (all_junk ch) = NumFmt.customs (lw_styles wb) ->
  exists st,
    xls_globals (records (xls_stream_write wb ch)) xls_state0 = Ok st /\
    xls_resolve show_f64 st = Ok (spec_names_xls show_f64 (meta_choice true ch []) (meta_wb wb)) /\
    xg_sheets st = combine (map sc_pos (xc_sheets ch)) (map ls_meta (lw_sheets wb)) /\
    xg_1904 st = lw_1904 wb /\
    globals_env (records (xls_stream_write wb ch)) (lw_1904 wb) = env_of wb.
Proof.
  intros show_f64 wb ch Hb Hxfs Hfmts. unfold xfile_legalb in Hb.
  apply andb_true_iff in Hb. destruct Hb as [Hb Hbook].
  apply andb_true_iff in Hb. destruct Hb as [Hb Hvba].
  apply andb_true_iff in Hb. destruct Hb as [Hb Huniq].
  apply andb_true_iff in Hb. destruct Hb as [Hb Hvalid].
  apply andb_true_iff in Hb. destruct Hb as [Hb Hlinks].
  apply andb_true_iff in Hb. destruct Hb as [Hb Hlen].
  apply andb_true_iff in Hb. destruct Hb as [Hb Hpos].
  apply andb_true_iff in Hb. destruct Hb as [Hb Hwf].
  apply andb_true_iff in Hb. destruct Hb as [Hb Hfit].
  apply andb_true_iff in Hb. destruct Hb as [Hb Hsst].
  apply andb_true_iff in Hb. destruct Hb as [Hmeta Hgi].
  apply Cfb_proofs.list_eqb_eq in Hpos.
  set (cs := map sc_layout (xc_sheets ch)) in *.
  set (wbm := meta_wb wb) in *.
  set (S := sheets_bytes cs).
  set (stream := xls_stream_write wb ch).
  set (pad := repeat 0 (length stream)).
  (* positions are inside the stream *)
  assert (Hstream : stream = xls_globals_write wb ch ++ S) by reflexivity.
  assert (HP : Forall (fun sc => sc_pos sc <= 4294967295 /\ sc_pos sc <= len pad) (xc_sheets ch)).
  { apply Forall_forall. intros sc Hsc.
    assert (Hin : In (sc_pos sc) (positions (len (xls_globals_write wb ch)) cs))
      by (rewrite <- Hpos; apply in_map; exact Hsc).
    apply positions_le in Hin. unfold pad. rewrite len_repeat. fold S in Hin.
    assert (len stream = len (xls_globals_write wb ch) + len S) by (rewrite Hstream; apply len_app).
    fold stream in Hlen. unfold len in *. lia. }
  (* Meta's legality for the real positions and a tail long enough; C16 as a black box *)
  pose proof (xls_legal_transfer ch wbm pad Hmeta HP (nc_zeros _)) as Hleg.
  pose proof (xls_parse_encode show_f64 _ _ Hleg) as Hparse.
  apply parse_workbook_inv in Hparse. destruct Hparse as [st [Hg [Hres [Hsh H1904]]]].
  (* both streams as record lists *)
  set (L := grecs (meta_choice false ch pad) wbm) in *.
  assert (HL : Forall gp133 L) by (apply grecs_gp; [reflexivity|exact Hleg]).
  assert (Hrec0 : records (xls_stream (meta_choice false ch pad) wbm) =
                  map okrec L ++ Ok (10, [], None) :: records pad).
  { rewrite xls_stream_frames by reflexivity. fold L. rewrite (records_frames _ _ (gp_good _ HL) (nc_eof _)).
    f_equal. apply (records_plain 10 [] pad len_nil_ok (nc_zeros _)). }
  set (k := xc_sst_at ch). set (sst := sst_of wb ch).
  assert (Hrec : records stream =
                 map okrec (firstn k L) ++ Ok (sst_item sst) :: map okrec (skipn k L)
                 ++ Ok (10, [], None) :: records S).
  { unfold stream, xls_stream_write, xls_globals_write, globals_bytes.
    change (grecs (meta_choice false ch []) (meta_wb wb)) with L. fold k sst cs S.
    rewrite <- !app_assoc.
    apply (records_written L k sst S HL Hfit (nc_sheets_bytes cs)). }
  (* C12: the SST parses to the text of the strings *)
  assert (Hsstp : parse_sst (fst sst, conts_of (match snd sst with [] => None | _ => Some (snd sst) end))
                  = Ok (map utf16_decode (lw_strings wb))).
  { rewrite conts_of_opt, pair_eta. apply (sst_any_split _ _ Hsst). }
  exists st. split; [|split; [|split; [|split]]].
  - rewrite Hrec. unfold sst_item. rewrite (globals_skip_sst _ _ _ _ _ Hsstp).
    rewrite app_assoc, <- map_app, firstn_skipn.
    rewrite (globals_after_eof _ _ _ (records S) (records pad)). rewrite Hrec0 in Hg. exact Hg.
  - exact Hres.
  - rewrite <- (combine_fst_snd _ _ (xg_sheets st)). rewrite Hsh. f_equal.
    assert (Hg' : xls_globals (records stream) xls_state0 = Ok st).
    { rewrite Hrec. unfold sst_item. rewrite (globals_skip_sst _ _ _ _ _ Hsstp).
      rewrite app_assoc, <- map_app, firstn_skipn.
      rewrite (globals_after_eof _ _ _ (records S) (records pad)). rewrite Hrec0 in Hg. exact Hg. }
    rewrite (globals_positions _ _ _ Hg'). cbn [xg_sheets xls_state0 map app].
    rewrite Hrec.
    rewrite (before_eof_written _ _ (sst_item sst) _ (Forall_firstn' _ _ k _ HL) (Forall_skipn' _ _ k _ HL) eq_refl).
    unfold g_positions. rewrite flat_map_app, flat_map_cons'. cbn [sst_item fst].
    change (252 =? 133) with false. cbn iota. cbn [app].
    rewrite <- flat_map_app, <- map_app, firstn_skipn.
    etransitivity; [apply (pick_plain _ 133 pos_of_record L)|].
    unfold L. rewrite pickg_grecs by discriminate. change (133 =? 133) with true. cbn iota.
    unfold xls_legal in Hleg. repeat (apply andb_true_iff in Hleg; destruct Hleg as [Hleg ?]).
    rewrite !junk_no133 by assumption. cbn [app]. rewrite app_nil_r.
    cbn [lc_sheets meta_choice]. rewrite boundsheet_positions by assumption.
    apply map_pos_ls_choices.
  - exact H1904.
  - unfold globals_env, env_of. fold stream. rewrite Hrec.
    rewrite (before_eof_written _ _ (sst_item sst) _ (Forall_firstn' _ _ k _ HL) (Forall_skipn' _ _ k _ HL) eq_refl).
    assert (Hj : forall z t, forallb gitem_ok (all_junk ch) = true ->
              forall (X : Type) (T : N) (h : bytes -> X),
              flat_map (pickg T h) (lc_junk0 (meta_choice z ch t)) ++ flat_map (pickg T h) (lc_junk1 (meta_choice z ch t))
              ++ [] ++ flat_map (pickg T h) (lc_junk2 (meta_choice z ch t)) ++ flat_map (pickg T h) (lc_junk3 (meta_choice z ch t))
              = flat_map (pickg T h) (map gi_rec (all_junk ch))).
    { intros z t _ X T h. cbn [meta_choice lc_junk0 lc_junk1 lc_junk2 lc_junk3 app]. unfold all_junk.
      rewrite !map_app, !flat_map_app. reflexivity. }
    f_equal.
    + f_equal. rewrite <- (NumFmt_proofs.xls_styles_resolve (lw_styles wb)).
      * f_equal. unfold NumFmt.enc_biff. f_equal.
        -- unfold g_formats. rewrite flat_map_app, flat_map_cons'. cbn [sst_item fst].
           change (252 =? 1054) with false. cbn iota. cbn [app].
           rewrite <- flat_map_app, <- map_app, firstn_skipn.
           etransitivity; [apply (pick_plain _ 1054 format_of_record L)|]. unfold L.
           rewrite pickg_grecs by discriminate. change (1054 =? 133) with false. cbn iota.
           rewrite (Hj false pad Hgi). rewrite (junk_formats _ Hgi). exact Hfmts.
        -- unfold g_xfs. rewrite flat_map_app, flat_map_cons'. cbn [sst_item fst].
           change (252 =? 224) with false. cbn iota. cbn [app].
           rewrite <- flat_map_app, <- map_app, firstn_skipn.
           etransitivity; [apply (pick_plain _ 224 (fun d => u16_at d 2) L)|]. unfold L.
           rewrite pickg_grecs by discriminate. change (224 =? 133) with false. cbn iota.
           rewrite (Hj false pad Hgi). rewrite (junk_xfs _ Hgi). rewrite <- Hxfs, map_map.
           symmetry. apply map_id.
      * split.
        -- intros e He. rewrite <- Hfmts in He. unfold gi_formats in He. apply in_flat_map in He.
           destruct He as [g [Hg1 Hg2]]. rewrite forallb_forall in Hgi. specialize (Hgi g Hg1).
           destruct g as [t b|a b c|i w s]; cbn in Hg2; try contradiction.
           destruct Hg2 as [<-|[]]. cbn [gitem_ok fst] in *.
           repeat (apply andb_true_iff in Hgi; destruct Hgi as [Hgi ?]). lia.
        -- intros i Hi. rewrite <- Hxfs in Hi. apply in_map_iff in Hi. destruct Hi as [i' [E Hi]].
           injection E as ->. unfold gi_xfs in Hi. apply in_flat_map in Hi.
           destruct Hi as [g [Hg1 Hg2]]. rewrite forallb_forall in Hgi. specialize (Hgi g Hg1).
           destruct g as [t b|a b c|i' w s]; cbn in Hg2; try contradiction.
           destruct Hg2 as [<-|[]]. cbn [gitem_ok] in *.
           apply andb_true_iff in Hgi. destruct Hgi as [_ Hgi]. lia.
      * intros o Ho. rewrite <- Hxfs in Ho. apply in_map_iff in Ho. destruct Ho as [i [<- _]]. discriminate.
    + rewrite g_strings_app. rewrite (g_strings_none _ _ (Forall_firstn' _ _ k _ HL)).
      cbn [g_strings]. cbn [sst_item fst snd]. change (252 =? 252) with true. cbn iota.
      rewrite Hsstp. apply (g_strings_none _ _ (Forall_skipn' _ _ k _ HL)).
Qed.

(* ------------------------------------------------------------------------------------- *)
(** * F. the sheet loop: every substream at its lbPlyPos (C02) *)

Section Whole.
Variable fdiv100 : N -> N.
Variable decode16 : list N -> list N.
Variable show_f64 : N -> list N.

Lemma encode_sheet_eff : forall c rest,
  BiffRec.encode_sheet c ++ rest =
  BiffRec.encode_sheet (BiffRec.mkLayout (BiffRec.l_items c) (BiffRec.l_trailer c ++ rest)).
Proof. intros. unfold BiffRec.encode_sheet. cbn [BiffRec.l_items BiffRec.l_trailer]. rewrite <- !app_assoc. reflexivity. Qed.

Lemma eff_legal : forall en cs (sheets : list lsheet),
  forallb BiffRec.wf_layout (eff_layouts cs) = true ->
  Forall2 (fun c s => BiffRec.logical fdiv100 decode16 en c = ls_cells s) cs sheets ->
  Forall2 (fun c s => BiffRec.legal fdiv100 decode16 en c (ls_cells s)) (eff_layouts cs) sheets.
Proof.
  intros en cs sheets Hwf H. induction H as [|c s cs sheets Hc _ IH]; [constructor|].
  cbn [eff_layouts forallb] in *. apply andb_true_iff in Hwf. destruct Hwf as [W1 W2].
  constructor; [|apply IH; exact W2]. split; [exact W1|exact Hc].
Qed.

Lemma sheets_loop : forall en cs (pre : bytes) (sheets : list lsheet),
  Forall2 (fun c s => BiffRec.legal fdiv100 decode16 en c (ls_cells s)) (eff_layouts cs) sheets ->
  map_o (fun pm : N * meta =>
           do r <- BiffRec.sheet_at fdiv100 decode16 en (pre ++ sheets_bytes cs) (fst pm);
           Ok (m_name (snd pm), r))
        (combine (positions (len pre) cs) (map ls_meta sheets))
  = Ok (map (fun s => (m_name (ls_meta s), BiffRec.range_of (ls_cells s))) sheets).
Proof.
  intros en. induction cs as [|c cs IH]; intros pre sheets H.
  - inversion H; subst. reflexivity.
  - cbn [eff_layouts] in H. inversion H as [|c' s effs ss Hc Hrest]; subst.
    cbn [positions map combine map_o fst snd].
    unfold sheets_bytes. cbn [flat_map]. fold (sheets_bytes cs).
    assert (Hat : BiffRec.sheet_at fdiv100 decode16 en (pre ++ BiffRec.encode_sheet c ++ sheets_bytes cs) (len pre)
                  = Ok (BiffRec.range_of (ls_cells s))).
    { unfold BiffRec.sheet_at.
      replace (BiffRec.lenN (pre ++ BiffRec.encode_sheet c ++ sheets_bytes cs) <? len pre) with false
        by (unfold BiffRec.lenN, len; rewrite app_length; lia).
      change (skipn (N.to_nat (len pre)) (pre ++ BiffRec.encode_sheet c ++ sheets_bytes cs))
        with (drop (len pre) (pre ++ BiffRec.encode_sheet c ++ sheets_bytes cs)).
      rewrite drop_len_app, encode_sheet_eff.
      apply BiffRec_proofs.xls_sheet_main. exact Hc. }
    rewrite Hat. cbn [obind].
    rewrite app_assoc. rewrite <- len_app. rewrite (IH (pre ++ BiffRec.encode_sheet c) ss Hrest).
    reflexivity.
Qed.

(* the BTreeMap of sheets: distinct names, every sheet finds its own range *)
Lemma lookup_last_in : forall (A : Type) n (es : list (str * A)) v,
  lookup_last n es = Some v -> In n (map fst es).
Proof.
  induction es as [|[k x] es IH]; intros v H; [discriminate|]. cbn [lookup_last] in H.
  destruct (lookup_last n es) as [y|] eqn:E.
  - right. eapply IH. reflexivity.
  - destruct (str_eqb k n) eqn:Ek; [|discriminate]. left. cbn [fst]. apply str_eqb_eq. exact Ek.
Qed.

Lemma lookup_last_nodup : forall (A : Type) (es : list (str * A)) k v,
  NoDup (map fst es) -> In (k, v) es -> lookup_last k es = Some v.
Proof.
  induction es as [|[k' v'] es IH]; intros k v Hnd Hin; [contradiction|].
  cbn [map fst] in Hnd. inversion Hnd as [|? ? Hnot Hnd']; subst. cbn [lookup_last].
  destruct Hin as [E|Hin].
  - injection E as -> ->. destruct (lookup_last k es) as [y|] eqn:El.
    + exfalso. apply Hnot. eapply lookup_last_in. exact El.
    + rewrite str_eqb_refl. reflexivity.
  - rewrite (IH k v Hnd' Hin). reflexivity.
Qed.

Lemma lookups_ok : forall (entries : list (str * range data)) (poss : list N) (sheets : list lsheet),
  length poss = length sheets ->
  (forall s, In s sheets ->
     lookup_last (m_name (ls_meta s)) entries = Some (BiffRec.range_of (ls_cells s))) ->
  map_o (fun pm : N * meta =>
           match lookup_last (m_name (snd pm)) entries with
           | Some r => Ok (m_name (snd pm), r)
           | None => Err E_NOTFOUND
           end) (combine poss (map ls_meta sheets))
  = Ok (map (fun s => (m_name (ls_meta s), BiffRec.range_of (ls_cells s))) sheets).
Proof.
  intros entries. induction poss as [|p poss IH]; intros [|s sheets] Hl H; cbn in Hl; try discriminate;
    [reflexivity|].
  cbn [map combine map_o snd]. rewrite (H s (or_introl eq_refl)). cbn [obind].
  rewrite IH; [reflexivity|lia|]. intros s' Hs'. apply H. right. exact Hs'.
Qed.

(* parse_workbook on the written Workbook stream *)
Theorem xls_stream_main : forall wb ch,
  xfile_legal fdiv100 decode16 wb ch ->
  xls_stream_model fdiv100 decode16 show_f64 (xls_stream_write wb ch) = Ok (spec_result show_f64 wb ch).
Proof.
  intros wb ch (Hb & Hxfs & Hfmts & Hnd & Hcells).
  destruct (globals_written show_f64 wb ch Hb Hxfs Hfmts) as [st (Hg & Hres & Hsh & H1904 & Henv)].
  unfold xls_stream_model. rewrite Hg. cbn [obind]. rewrite Hres. cbn [obind].
  rewrite H1904, Henv, Hsh.
  unfold xfile_legalb in Hb.
  repeat (apply andb_true_iff in Hb; destruct Hb as [Hb ?]).
  match goal with H : Cfb.list_eqb _ _ = true |- _ => apply Cfb_proofs.list_eqb_eq in H; rename H into Hpos end.
  match goal with H : forallb BiffRec.wf_layout _ = true |- _ => rename H into Hwf end.
  rewrite Hpos. unfold xls_stream_write at 1.
  rewrite (sheets_loop (env_of wb) _ (xls_globals_write wb ch) (lw_sheets wb)
             (eff_legal _ _ _ Hwf Hcells)).
  cbn [obind].
  rewrite lookups_ok.
  - cbn [obind]. unfold spec_result. f_equal. f_equal.
    rewrite <- (combine_fst_snd _ _ (combine _ _)) at 1.
    assert (Hlen : length (positions (len (xls_globals_write wb ch)) (map sc_layout (xc_sheets ch)))
                   = length (map ls_meta (lw_sheets wb))).
    { rewrite positions_length, (map_length ls_meta). apply (Forall2_len _ _ _ _ _ Hcells). }
    clear -Hlen. revert Hlen. generalize (positions (len (xls_globals_write wb ch)) (map sc_layout (xc_sheets ch))).
    generalize (map ls_meta (lw_sheets wb)). induction l as [|m l IH]; intros [|p ps] H; cbn in H; try discriminate;
      [reflexivity|]. cbn. f_equal. apply IH. lia.
  - rewrite positions_length. apply (Forall2_len _ _ _ _ _ Hcells).
  - intros s Hs. apply lookup_last_nodup.
    + rewrite map_map. cbn [fst]. exact Hnd.
    + apply in_map_iff. exists s. split; [reflexivity|exact Hs].
Qed.

(* ------------------------------------------------------------------------------------- *)
(** * G. the container on top (C13) *)

Lemma find_none_existsb : forall (A : Type) (p : A -> bool) l, find p l = None -> existsb p l = false.
Proof.
  intros A p l H. destruct (existsb p l) eqn:E; [|reflexivity].
  apply existsb_exists in E. destruct E as [x [Hx Hp]]. rewrite (find_none p l H x Hx) in Hp. discriminate.
Qed.

Theorem xls_file_main : forall wb ch fuel,
  xfile_legal fdiv100 decode16 wb ch -> (Cfb.fuel_for (xc_layout ch) <= fuel)%nat ->
  xls_open_model fdiv100 decode16 show_f64 fuel (xls_file_write wb ch) = Ok (spec_result show_f64 wb ch).
Proof.
  intros wb ch fuel HL Hfuel. pose proof HL as (Hb & _).
  unfold xfile_legalb in Hb.
  apply andb_true_iff in Hb. destruct Hb as [Hb Hbook].
  apply andb_true_iff in Hb. destruct Hb as [Hb Hvba].
  apply andb_true_iff in Hb. destruct Hb as [Hb Huniq].
  apply andb_true_iff in Hb. destruct Hb as [Hb Hvalid].
  apply andb_true_iff in Hb. destruct Hb as [_ Hlinks].
  set (c := xls_container wb ch) in *. set (l := xc_layout ch) in *.
  assert (Hv : Cfb.valid_layout c l) by exact Hvalid.
  assert (Hu : Cfb_proofs.names_unique c) by exact Huniq.
  destruct (Cfb_proofs.cfb_new_written Hv Hfuel) as [cf [r [Hnew Hw]]].
  unfold xls_open_model, xls_file_write. fold c l. rewrite Hnew. cbn [obind].
  assert (Hnovn : Cfb.mem_name VBA_CUR (Cfb.all_names c) = false) by (apply negb_true_iff; exact Hvba).
  assert (Hin : In (wb_stream_name ch, xls_stream_write wb ch) (Cfb.c_streams c)).
  { unfold c, xls_container. cbn [Cfb.c_streams]. apply in_or_app. right. left. reflexivity. }
  assert (Hnowb : xc_book ch = true -> Cfb.mem_name Cfb.WORKBOOK (Cfb.all_names c) = false).
  { intros Eb. rewrite Eb in Hbook. cbn [negb orb] in Hbook. apply negb_true_iff in Hbook. exact Hbook. }
  assert (Hplain_vba : Cfb_proofs.plain VBA_CUR) by (split; discriminate).
  assert (Hboth : Cfb.has_directory cf VBA_CUR = false /\ Cfb.workbook_or_book cf r = Ok (xls_stream_write wb ch)).
  { apply orb_true_iff in Hlinks. destruct Hlinks as [Hflat|Htree].
    - (* no hierarchy written: the flat scan, names distinct over the whole file *)
      assert (Hfl : Cfb_proofs.flat_root c l) by exact Hflat.
      destruct (@Cfb_proofs.has_directory_flat c l fuel Hv Hfl Hfuel) as (cf' & r' & Hnew' & _ & Hhas).
      rewrite Hnew in Hnew'. inversion Hnew'; subst cf' r'. split.
      + rewrite (Hhas _ Hplain_vba). exact Hnovn.
      + destruct (@Cfb_proofs.flat_workbook_stream_preferred c l fuel Hv Hfl Hu Hfuel) as [P1 P2].
        unfold Cfb.xls_workbook_stream in P1, P2. rewrite Hnew in P1, P2. cbn [obind] in P1, P2.
        unfold wb_stream_name in Hin. destruct (xc_book ch) eqn:Eb.
        * apply (P2 Cfb.BOOK); [apply Hnowb; reflexivity|reflexivity|exact Hin].
        * apply (P1 Cfb.WORKBOOK); [reflexivity|exact Hin].
    - (* a tree of links: lookups by path from the root storage *)
      apply andb_true_iff in Htree. destruct Htree as [Htree Hroot]. apply N.eqb_eq in Hroot.
      assert (Ht : Cfb_proofs.linked_tree c l) by exact Htree.
      destruct (@Cfb_proofs.has_directory_root c l Hv Ht fuel Hfuel) as (cf' & r' & Hnew' & _ & Hhas).
      rewrite Hnew in Hnew'. inversion Hnew'; subst cf' r'. split.
      + rewrite (Hhas _ Hplain_vba). destruct (Cfb.resolve c 0 [VBA_CUR]) as [p|] eqn:Er; [|reflexivity].
        exfalso. rewrite (Cfb_proofs.resolve_one_in_names _ _ Er) in Hnovn. discriminate.
      + (* the workbook stream is the object wb_object of the container, held by the root *)
        destruct (Cfb_proofs.valid_dir Hv) as [_ [_ [_ [_ [_ Hh]]]]].
        assert (Hobj : nth_error (Cfb.all_names c) (wb_object ch) = Some (wb_stream_name ch)).
        { unfold Cfb.all_names, c, xls_container, wb_object. cbn [Cfb.c_storages Cfb.c_streams].
          rewrite nth_error_app2 by lia. replace (length (xc_storages ch) + length (xc_pre ch) - length (xc_storages ch))%nat
            with (length (xc_pre ch)) by lia.
          rewrite map_app. rewrite nth_error_app2 by (rewrite map_length; lia). rewrite map_length, Nat.sub_diag. reflexivity. }
        pose proof (@Cfb_proofs.resolve_one_root c (wb_object ch) (wb_stream_name ch) (wb_stream_name ch) Hh Hobj Hroot
                      eq_refl) as Hres.
        assert (Hsp : Cfb.spec_path c [wb_stream_name ch] = Some (xls_stream_write wb ch)).
        { unfold Cfb.spec_path. rewrite Hres.
          replace (N.of_nat (length (Cfb.c_storages c)) <? N.of_nat (S (wb_object ch))) with true
            by (symmetry; apply N.ltb_lt; unfold c, xls_container, wb_object; cbn [Cfb.c_storages]; lia).
          replace (N.to_nat (N.of_nat (S (wb_object ch)) - N.of_nat (length (Cfb.c_storages c))) - 1)%nat
            with (length (xc_pre ch)) by (unfold c, xls_container, wb_object; cbn [Cfb.c_storages]; lia).
          unfold c, xls_container. cbn [Cfb.c_streams]. rewrite nth_error_app2 by lia. rewrite Nat.sub_diag. reflexivity. }
        pose proof (@Cfb_proofs.workbook_stream_preferred c l Hv Ht fuel (xls_stream_write wb ch) Hfuel) as P.
        unfold Cfb.xls_workbook_stream in P. rewrite Hnew in P. cbn [obind] in P. apply P.
        * unfold Cfb.spec_workbook. unfold wb_stream_name in Hsp. destruct (xc_book ch) eqn:Eb.
          -- replace (Cfb.spec_path c [Cfb.WORKBOOK]) with (@None (list N)); [exact Hsp|]. symmetry.
             unfold Cfb.spec_path. destruct (Cfb.resolve c 0 [Cfb.WORKBOOK]) as [p|] eqn:Er; [|reflexivity].
             exfalso. rewrite (Cfb_proofs.resolve_one_in_names _ _ Er) in Hnowb. specialize (Hnowb eq_refl). discriminate.
          -- rewrite Hsp. reflexivity.
        * unfold Cfb.root_storage_named. unfold wb_stream_name in Hres. destruct (xc_book ch) eqn:Eb.
          -- destruct (Cfb.resolve c 0 [Cfb.WORKBOOK]) as [p|] eqn:Er; [|reflexivity].
             exfalso. rewrite (Cfb_proofs.resolve_one_in_names _ _ Er) in Hnowb. specialize (Hnowb eq_refl). discriminate.
          -- rewrite Hres. apply andb_false_iff. right. apply N.leb_gt.
             unfold c, xls_container, wb_object. cbn [Cfb.c_storages]. lia. }
  destruct Hboth as [Hnov Hwb]. rewrite Hnov.
  rewrite Hwb. cbn [obind]. apply xls_stream_main. exact HL.
Qed.
End Whole.

(* ------------------------------------------------------------------------------------- *)
(** * H. corollaries *)

(* the statement in the form "sheet names in order, each with the range of its cells" *)
Corollary xls_file_ranges : forall fdiv100 decode16 show_f64 wb ch fuel,
  xfile_legal fdiv100 decode16 wb ch -> (Cfb.fuel_for (xc_layout ch) <= fuel)%nat ->
  omap wr_ranges (xls_open_model fdiv100 decode16 show_f64 fuel (xls_file_write wb ch)) =
  Ok (map (fun s => (m_name (ls_meta s), BiffRec.range_of (ls_cells s))) (lw_sheets wb)).
Proof. intros. rewrite xls_file_main by assumption. reflexivity. Qed.

(* C10 inside the whole file: the format a cell's ixfe selects in the environment of the sheet
   loop is the one its XF resolves to (NumFmt.resolve: custom entry, else the built-in table) *)
Lemma nthN_nth_error : forall (A : Type) (l : list A) i, RK.nthN l i = nth_error l (N.to_nat i).
Proof.
  induction l as [|x l IH]; intros i; [destruct (N.to_nat i); reflexivity|].
  cbn [RK.nthN]. destruct (i =? 0) eqn:E.
  - apply N.eqb_eq in E. subst. reflexivity.
  - rewrite IH. replace (N.to_nat i) with (S (N.to_nat (i - 1))) by lia. reflexivity.
Qed.

Lemma env_format_resolves : forall wb ixfe fmt,
  nth_error (NumFmt.xfs (lw_styles wb)) (N.to_nat ixfe) = Some fmt ->
  RK.nthN (BiffRec.e_formats (env_of wb)) ixfe = Some (fmt_conv (NumFmt.resolve (lw_styles wb) fmt)).
Proof.
  intros wb ixfe fmt H. unfold env_of. cbn [BiffRec.e_formats]. rewrite nthN_nth_error.
  unfold NumFmt.spec_formats. rewrite map_map. rewrite (map_nth_error _ _ _ H). reflexivity.
Qed.

(* a NUMBER / float RK / formula-number cell is DateTime exactly when its style resolves to a
   date-time format, duration flavour iff elapsed, bits and date system unchanged *)
Corollary number_cell_date_iff_style : forall wb ixfe fmt bits,
  nth_error (NumFmt.xfs (lw_styles wb)) (N.to_nat ixfe) = Some fmt ->
  BiffRec.num_data (env_of wb) ixfe (RFloat bits) =
  match NumFmt.resolve (lw_styles wb) fmt with
  | NumFmt.DateTime => DDateTime bits false (lw_1904 wb)
  | NumFmt.TimeDelta => DDateTime bits true (lw_1904 wb)
  | NumFmt.Other => DFloat bits
  end.
Proof.
  intros wb ixfe fmt bits H. unfold BiffRec.num_data. rewrite (env_format_resolves wb ixfe fmt H).
  destruct (NumFmt.resolve (lw_styles wb) fmt); reflexivity.
Qed.

(* ------------------------------------------------------------------------------------- *)
(** * non-vacuity: a two-sheet workbook with shared strings (one cut inside a surrogate-free
      wide string that starts a CONTINUE record), a custom elapsed-time format, a date XF, a
      defined name, a formula string continued in a CONTINUE record, ignorable records, XF and
      FORMAT records spread over the globals, the SST after the fourth globals record, bytes
      after the first sheet's EOF, in a compound file with 512-byte sectors *)
Definition ex_lay1 : BiffRec.layout :=
  BiffRec.mkLayout
    [BiffRec.IDims true 0 3 0 4; BiffRec.INumber 1 2 1 4607182418800017408;
     BiffRec.IRk 1 3 0 (RkI (-5) false); BiffRec.ILabelSst 2 0 0 0; BiffRec.ILabelSst 2 1 0 2;
     BiffRec.IBool 0 0 0 true; BiffRec.INumber 2 2 2 4607182418800017408] [1; 2; 3; 4; 5; 6].
Definition ex_lay2 : BiffRec.layout :=
  BiffRec.mkLayout
    [BiffRec.IFormula 1 1 0 (BiffRec.CStr (BiffRec.mkStr [104] false) [BiffRec.mkStr [105; 8364] true])
                      0 0 [3; 0; 30; 1; 0] [];
     BiffRec.IMulRk 5 1 [(0, RkI 700 true); (1, RkI 7 false)]] [].
Definition ex_wb : lwb :=
  mkLwb [mkLSheet (mkMeta [97; 233] Hidden WorkSheet)
           [((1, 2), DDateTime 4607182418800017408 false true); ((1, 3), DInt (-5));
            ((2, 0), DString [104; 105]); ((2, 1), DString [128512; 97]); ((0, 0), DBool true);
            ((2, 2), DDateTime 4607182418800017408 true true)];
         mkLSheet (mkMeta [128512] Visible MacroSheet)
           [((1, 1), DString [104; 0; 105; 0; 172; 32]); ((5, 1), DInt 7);
            ((5, 2), DDateTime 4619567317775286272 false true)]]
        [([110], Ptg.ERef3d Ptg.CRef 0 (Ptg.Build_cref 0 1 false true))] true
        (NumFmt.mkStyleTable [(164, [91; 104; 93; 58; 109; 109])] [Some 0; Some 14; Some 164])
        [[104; 105]; []; [55357; 56832; 97]].
Definition ex_sl0 : str_layout := mkSL false false [] None None [].
Definition ex_ch0 : xchoice :=
  mkXch [mkSc false 3 0 ex_lay1; mkSc true 0 0 ex_lay2] [mkLn false 0 0 0 []] [(0, 1, 1)]
        [GJunk 225 [176; 4]; GXf 0 0 [1; 2; 3]] [GFormat 164 false [91; 104; 93; 58; 109; 109]; GXf 5 14 []]
        [GXf 0 164 [9]] [GJunk 255 []] false 4
        (mkLay 7 [ex_sl0; ex_sl0; mkSL true true [(1%nat, true)] None None []])
        false 512 [] [] [] []
        {| Cfb.l_nsect := 4; Cfb.l_fat_ids := [0]; Cfb.l_difat_ids := []; Cfb.l_dir_ids := [1];
           Cfb.l_minifat_ids := [2]; Cfb.l_root_ids := [3]; Cfb.l_nmini := 8;
           Cfb.l_chains := [[0; 1; 2; 3; 4; 5; 6; 7]]; Cfb.l_slots := [3]; Cfb.l_pad := 0;
           Cfb.l_size_hi := 0; Cfb.l_empty_start := Cfb.ENDOFCHAIN; Cfb.l_links := [(Cfb.FREESECT, Cfb.FREESECT, 3)] |}.
Definition ex_ch : xchoice := set_positions ex_wb ex_ch0.

Lemma example_whole : forall fdiv100,
  xfile_legal fdiv100 BiffRec_proofs.id_decode ex_wb ex_ch /\
  map sc_pos (xc_sheets ex_ch) = [198; 336] /\
  length (xls_file_write ex_wb ex_ch) = 2560%nat /\
  xls_open_model fdiv100 BiffRec_proofs.id_decode (fun _ => []) 1 (xls_file_write ex_wb ex_ch) =
    Ok (spec_result (fun _ => []) ex_wb ex_ch) /\
  wr_names (spec_result (fun _ => []) ex_wb ex_ch) = [([110], [128512; 33; 66; 36; 49])].
Proof.
  intros fdiv100. split; [|split; [|split; [|split]]].
  - split; [vm_compute; reflexivity|]. split; [reflexivity|]. split; [reflexivity|]. split.
    + repeat constructor; cbn; intuition discriminate.
    + repeat constructor.
  - vm_compute. reflexivity.
  - vm_compute. reflexivity.
  - apply xls_file_main; [|vm_compute; lia].
    split; [vm_compute; reflexivity|]. split; [reflexivity|]. split; [reflexivity|]. split.
    + repeat constructor; cbn; intuition discriminate.
    + repeat constructor.
  - vm_compute. reflexivity.
Qed.

(* ------------------------------------------------------------------------------------- *)
(** * I. the positions condition can always be met: set_positions *)

Definition same_len (r r' : N * bytes) : Prop := len (snd r) = len (snd r').

Lemma Forall2_same : forall (A : Type) (R : A -> A -> Prop) l, (forall x, R x x) -> Forall2 R l l.
Proof. intros A R l H. induction l; constructor; auto. Qed.

Lemma Forall2_firstn' : forall (A B : Type) (R : A -> B -> Prop) k l l', Forall2 R l l' ->
  Forall2 R (firstn k l) (firstn k l').
Proof. intros A B R k. induction k as [|k IH]; intros l l' H; [constructor|]. destruct H; cbn; constructor; auto. Qed.
Lemma Forall2_skipn' : forall (A B : Type) (R : A -> B -> Prop) k l l', Forall2 R l l' ->
  Forall2 R (skipn k l) (skipn k l').
Proof. intros A B R k. induction k as [|k IH]; intros l l' H; [exact H|]. destruct H; cbn; [constructor|auto]. Qed.

Lemma len_frame : forall t b, len (frame t b) = 4 + len b.
Proof. intros. unfold frame. rewrite !len_app. change (len (le16 t)) with 2. change (len (le16 (len b))) with 2. lia. Qed.

Lemma len_frames_same : forall L L', Forall2 same_len L L' -> len (frames L) = len (frames L').
Proof.
  intros L L' H. induction H as [|r r' L L' Hr _ IH]; [reflexivity|].
  rewrite !frames_cons, !len_app, !len_frame, IH. unfold same_len in Hr. lia.
Qed.

Definition same_but_pos (a b : sheet_choice) : Prop :=
  sc_wide a = sc_wide b /\ sc_hi a = sc_hi b /\ sc_layout a = sc_layout b.

Lemma boundsheets_same_len : forall (sheets : list meta) scs scs', Forall2 same_but_pos scs scs' ->
  Forall2 same_len
    (map (fun sc : meta * ls_choice =>
            (133, boundsheet_body (ls_pos (snd sc)) (xls_vis_code (m_vis (fst sc)) + 4 * ls_hi (snd sc))
                    (xls_kind_code (m_kind (fst sc))) (ls_wide (snd sc)) (units_of (m_name (fst sc)))))
         (combine sheets (ls_choices false scs)))
    (map (fun sc : meta * ls_choice =>
            (133, boundsheet_body (ls_pos (snd sc)) (xls_vis_code (m_vis (fst sc)) + 4 * ls_hi (snd sc))
                    (xls_kind_code (m_kind (fst sc))) (ls_wide (snd sc)) (units_of (m_name (fst sc)))))
         (combine sheets (ls_choices false scs'))).
Proof.
  induction sheets as [|s sheets IH]; intros scs scs' H; [constructor|].
  destruct H as [|a b scs scs' (Hw & Hh & _) H]; [constructor|].
  cbn [ls_choices map combine]. constructor; [|apply IH; exact H].
  unfold same_len. cbn [fst snd ls_pos ls_wide ls_hi]. rewrite Hw. unfold boundsheet_body.
  rewrite !len_app. reflexivity.
Qed.

Lemma grecs_same_len : forall ch ch' wb,
  Forall2 same_but_pos (xc_sheets ch) (xc_sheets ch') ->
  xc_names ch = xc_names ch' -> xc_xtis ch = xc_xtis ch' ->
  xc_j0 ch = xc_j0 ch' -> xc_j1 ch = xc_j1 ch' -> xc_j2 ch = xc_j2 ch' -> xc_j3 ch = xc_j3 ch' ->
  xc_omit_1904 ch = xc_omit_1904 ch' ->
  Forall2 same_len (grecs (meta_choice false ch []) wb) (grecs (meta_choice false ch' []) wb).
Proof.
  intros ch ch' wb Hs Hn Hx H0 H1 H2 H3 Ho. unfold grecs.
  cbn [meta_choice lc_junk0 lc_junk1 lc_junk2 lc_junk3 lc_sheets lc_names lc_xtis lc_omit_1904].
  rewrite <- Hn, <- Hx, <- H0, <- H1, <- H2, <- H3, <- Ho.
  assert (R : forall l, Forall2 same_len l l) by (intros l; apply Forall2_same; intros x; reflexivity).
  constructor; [reflexivity|].
  repeat (apply Forall2_app; [apply R|]).
  apply Forall2_app; [apply boundsheets_same_len; exact Hs|].
  repeat (apply Forall2_app; [apply R|]). apply R.
Qed.

Lemma map_fst_combine_le : forall (A B C : Type) (f : A -> C) (l : list A) (m : list B),
  length l = length m -> map (fun p : A * B => f (fst p)) (combine l m) = map f l.
Proof.
  induction l as [|x l IH]; intros [|y m] H; cbn in *; try discriminate; [reflexivity|].
  f_equal. apply IH. lia.
Qed.
Lemma map_snd_combine_le : forall (A B : Type) (l : list A) (m : list B),
  length l = length m -> map (fun p : A * B => snd p) (combine l m) = m.
Proof.
  induction l as [|x l IH]; intros [|y m] H; cbn in *; try discriminate; [reflexivity|].
  f_equal. apply IH. lia.
Qed.

(* whatever lbPlyPos values a choice carries, set_positions replaces them by the offsets of the
   substreams: the condition of xfile_legalb on the positions holds for its result *)
Theorem set_positions_ok : forall wb ch,
  map sc_pos (xc_sheets (set_positions wb ch)) =
  positions (len (xls_globals_write wb (set_positions wb ch)))
            (map sc_layout (xc_sheets (set_positions wb ch))).
Proof.
  intros wb ch. unfold set_positions at 1 3. cbn [xc_sheets].
  set (cs := map sc_layout (xc_sheets ch)).
  set (ps := positions (len (xls_globals_write wb ch)) cs).
  assert (Hl : length (xc_sheets ch) = length ps).
  { unfold ps. rewrite positions_length. unfold cs. rewrite map_length. reflexivity. }
  rewrite !map_map. cbn [sc_pos sc_layout].
  rewrite (map_snd_combine_le _ _ _ _ Hl).
  rewrite (map_fst_combine_le _ _ _ sc_layout _ _ Hl). fold cs.
  unfold ps. f_equal.
  unfold xls_globals_write, globals_bytes. rewrite !len_app. f_equal; [|f_equal; f_equal].
  - apply len_frames_same, Forall2_firstn'.
    apply grecs_same_len; try reflexivity.
    unfold set_positions. cbn [xc_sheets]. fold cs. fold ps.
    clear -Hl. revert Hl. generalize ps. generalize (xc_sheets ch).
    induction l as [|a l IH]; intros [|p qs] H; cbn in H; try discriminate; [constructor|].
    cbn [combine map]. constructor; [repeat split|apply IH; lia].
  - apply len_frames_same, Forall2_skipn'.
    apply grecs_same_len; try reflexivity.
    unfold set_positions. cbn [xc_sheets]. fold cs. fold ps.
    clear -Hl. revert Hl. generalize ps. generalize (xc_sheets ch).
    induction l as [|a l IH]; intros [|p qs] H; cbn in H; try discriminate; [constructor|].
    cbn [combine map]. constructor; [repeat split|apply IH; lia].
Qed.
