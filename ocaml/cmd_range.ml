(* C05: run an operation history on the extracted Range model and dump every accessor after
   each step, in exactly the format of harness/src/cmds/range.rs. *)
open Conv
open Prelude
open Range

let d0 : BinNums.coq_N = BinNums.N0
let teqb a b = BinNat.N.eqb a b
let show v = string_of_n v
let u32max = n_of_string "4294967295"

let parse_op (s : string) : BinNums.coq_N op =
  let f = Array.of_list (String.split_on_char ' ' s) in
  let n i = n_of_string f.(i) in
  match f.(0) with
  | "new" -> ONew ((n 1, n 2), (n 3, n 4))
  | "empty" | "default" -> OEmpty   (* Range::default() is the empty range *)
  | "sparse" ->
    let cells =
      if Array.length f < 2 || f.(1) = "" then []
      else List.map (fun c ->
          match String.split_on_char ':' c with
          | [r; c; v] -> ((n_of_string r, n_of_string c), n_of_string v)
          | _ -> failwith "bad cell") (String.split_on_char ',' f.(1)) in
    OFromSparse cells
  | "set" -> OSetValue ((n 1, n 2), n 3)
  | "win" -> OWindow ((n 1, n 2), (n 3, n 4))
  | _ -> failwith "bad op"

let range_n (a : int) (b : int) : int list =  (* a..=b *)
  let rec go i acc = if i < a then acc else go (i - 1) (i :: acc) in go b []

let dump (r : BinNums.coq_N range) : string =
  let b = Buffer.create 256 in
  (match start r, end_ r with
   | Some a, Some e ->
     Buffer.add_string b (Printf.sprintf "S%s,%sE%s,%s" (show (fst a)) (show (snd a)) (show (fst e)) (show (snd e)))
   | None, None -> Buffer.add_string b "S-E-"
   | _ -> Buffer.add_string b "S?E?");
  let h = height r and w = width r in
  Buffer.add_string b (Printf.sprintf "Z%s,%sh%sw%se%d" (show h) (show w) (show h) (show w)
                         (if is_empty r then 1 else 0));
  Buffer.add_string b "R[";
  Buffer.add_string b (String.concat ";" (List.map (fun row -> String.concat "," (List.map show row)) (rows r)));
  Buffer.add_string b "]C[";
  let cell ((i, j), v) = Printf.sprintf "%s:%s:%s" (show i) (show j) (show v) in
  Buffer.add_string b (String.concat "," (List.map cell (cells r)));
  Buffer.add_string b "]U[";
  Buffer.add_string b (String.concat "," (List.map cell (used_cells d0 teqb r)));
  Buffer.add_string b "]D[";
  (* double-ended consumption of an iterator over the list l: front, back, front, ... *)
  let alternate l =
    let a = Array.of_list l in
    let lo = ref 0 and hi = ref (Array.length a - 1) and front = ref true and out = ref [] in
    while !lo <= !hi do
      (if !front then (out := a.(!lo) :: !out; incr lo) else (out := a.(!hi) :: !out; decr hi));
      front := not !front
    done;
    List.rev !out in
  Buffer.add_string b (String.concat "," (List.map cell (alternate (cells r)) @ ["|"] @ List.map cell (alternate (used_cells d0 teqb r))));
  Buffer.add_string b "]G[";
  let hi = int_of_n h and wi = int_of_n w in
  let probes = List.concat_map (fun i -> List.map (fun j ->
      let p = (n_of_int i, n_of_int j) in
      let g = match get r p with Some v -> show v | None -> "-" in
      let ix = match index2 r p with Ok v -> show v | _ -> "!" in
      g ^ "/" ^ ix) (range_n 0 wi)) (range_n 0 hi) in
  Buffer.add_string b (String.concat "," probes);
  Buffer.add_string b "]A[";
  let (sr, sc, er, ec) = match start r, end_ r with
    | Some a, Some e -> (fst a, snd a, fst e, snd e)
    | _ -> (N0, N0, N0, N0) in
  let one = n_of_int 1 in
  let lo x = BinNat.N.sub x one in   (* truncated at 0 *)
  let hi x = let y = BinNat.N.add x one in if BinNat.N.leb y u32max then y else u32max in
  let rec span a e = if BinNat.N.ltb e a then [] else a :: (if BinNat.N.eqb a e then [] else span (BinNat.N.add a one) e) in
  let abs = List.concat_map (fun row -> List.map (fun col ->
      match get_value r (row, col) with Some v -> show v | None -> "-") (span (lo sc) (hi ec)))
      (span (lo sr) (hi er)) in
  Buffer.add_string b (String.concat "," abs);
  Buffer.add_char b ']';
  Buffer.contents b

let run_history (args : string list) : string =
  let ops = List.map parse_op (String.split_on_char '|' (List.hd args)) in
  let rec go r ops acc =
    match ops with
    | [] -> List.rev acc
    | o :: rest ->
      (match step d0 r o with
       | Ok r' -> go r' rest (dump r' :: acc)
       | Panic -> List.rev ("panic" :: acc)
       | Err _ -> List.rev ("err" :: acc)
       | OutOfFuel -> List.rev ("fuel" :: acc)) in
  String.concat ";;" (go empty ops [])

let () = Registry.register "range" run_history
let init () = ()
