# ods_6 (C18): VBA dir stream variants built from the real project of /repo/tests/vba.xlsm
import sys, os, struct, zipfile, random, io
sys.path.insert(0, '/tmp/ag/audit2'); sys.path.insert(0, '/verif/tools')
from vhrun import vh, hx
from props import c18
OUT = '/tmp/ag/audit2/repro/out'

# ---------------- minimal compound file reader ----------------
def cfb_streams(data):
    assert data[:8] == bytes.fromhex('D0CF11E0A1B11AE1')
    ss = 1 << struct.unpack_from('<H', data, 30)[0]
    nfat, dir_start, _, cutoff, minifat_start, nminifat, difat_start, ndifat = struct.unpack_from('<IIIIIIII', data, 44)
    difat = list(struct.unpack_from('<109I', data, 76))
    sec = lambda i: data[(i + 1) * ss:(i + 2) * ss]
    s = difat_start
    while s < 0xFFFFFFFA:
        d = struct.unpack('<%dI' % (ss // 4), sec(s)); difat += d[:-1]; s = d[-1]
    fat = []
    for f in difat[:nfat]:
        if f < 0xFFFFFFFA: fat += struct.unpack('<%dI' % (ss // 4), sec(f))
    def chain(start, size=None):
        out, s = b'', start
        while s < 0xFFFFFFFA:
            out += sec(s); s = fat[s]
        return out if size is None else out[:size]
    d = chain(dir_start)
    ents = []
    for i in range(len(d) // 128):
        e = d[i * 128:(i + 1) * 128]
        nl = struct.unpack_from('<H', e, 64)[0]
        if nl == 0: continue
        name = e[:nl - 2].decode('utf-16le'); typ = e[66]
        start, size = struct.unpack_from('<I', e, 116)[0], struct.unpack_from('<Q', e, 120)[0]
        ents.append((name, typ, start, size))
    root = [e for e in ents if e[1] == 5][0]
    mini = chain(root[2], root[3])
    mf, s = [], minifat_start
    while s < 0xFFFFFFFA:
        mf += struct.unpack('<%dI' % (ss // 4), sec(s)); s = fat[s]
    out = []
    for name, typ, start, size in ents:
        if typ != 2: continue
        if size < 4096:
            b, s = b'', start
            while s < 0xFFFFFFFA and len(b) < size:
                b += mini[s * 64:(s + 1) * 64]; s = mf[s]
            out.append((name, b[:size]))
        else:
            out.append((name, chain(start, size)))
    return out, [(n, t) for n, t, _, _ in ents]

# ---------------- MS-OVBA 2.4.1 ----------------
def decompress(s):
    assert s[0] == 1
    i, res = 1, bytearray()
    while i < len(s):
        h = struct.unpack_from('<H', s, i)[0]; i += 2
        size, flag = (h & 0xFFF) + 3, h >> 15
        end = i + size - 2
        start = len(res)
        if not flag:
            res += s[i:i + 4096]; i += 4096; continue
        while i < end and i < len(s):
            fb = s[i]; i += 1
            for k in range(8):
                if i >= end: break
                if fb >> k & 1:
                    t = struct.unpack_from('<H', s, i)[0]; i += 2
                    pos = len(res) - start
                    bc = max(4, (pos - 1).bit_length())
                    lm = 0xFFFF >> bc
                    ln, off = (t & lm) + 3, ((t & ~lm & 0xFFFF) >> (16 - bc)) + 1
                    for _ in range(ln): res.append(res[-off])
                else:
                    res.append(s[i]); i += 1
    return bytes(res)
def compress_literal(b):
    out = bytearray([1])
    for c in range(0, len(b), 4096):
        ch = b[c:c + 4096]; body = bytearray()
        for g in range(0, len(ch), 8):
            body.append(0); body += ch[g:g + 8]
        out += struct.pack('<H', (len(body) + 2 - 3) | 0x3000 | 0x8000) + body
    return bytes(out)

# ---------------- dir stream records ----------------
def records(d):
    """split the dir stream into (id, raw bytes) records following MS-OVBA 2.3.4.2 sizes"""
    i, out = 0, []
    while i < len(d):
        rid = struct.unpack_from('<H', d, i)[0]
        size = struct.unpack_from('<I', d, i + 2)[0]
        if rid == 0x0009:   n = 2 + 4 + 4 + 2          # PROJECTVERSION: size field is 4 but 6 bytes follow
        elif rid in (0x002B, 0x0010, 0x0021, 0x0022, 0x0025, 0x0028): n = 6
        else: n = 6 + size
        out.append((rid, d[i:i + n])); i += n
    return out

with zipfile.ZipFile('/repo/tests/vba.xlsm') as z:
    vbabin = z.read('xl/vbaProject.bin')
streams, ents = cfb_streams(vbabin)
print('directory entries of tests/vba.xlsm xl/vbaProject.bin:', ents)
sd = dict(streams)
dirs = decompress(sd['dir'])
recs = records(dirs)
print('dir record ids (Excel):', ' '.join('%04X' % r for r, _ in recs))
rng = random.Random(7)

def build(name, recs2, streams2=None, kind='xlsx'):
    st = dict(streams if streams2 is None else streams2)
    st['dir'] = compress_literal(b''.join(b for _, b in recs2))
    cfb = c18.cfb_write(list(st.items()), rng, version=3, shuffle=False, decoys=True)
    if kind == 'xlsx':
        dst = os.path.join(OUT, name + '.xlsm'); c18.zip_with_project('/repo/tests/vba.xlsm', cfb, dst)
    elif kind == 'xlsb':
        dst = os.path.join(OUT, name + '.xlsb'); c18.zip_with_project('/repo/tests/date.xlsb', cfb, dst)
    else:
        dst = os.path.join(OUT, name + '.xls')
        data = c18.cfb_write([('Workbook', c18.minimal_workbook_stream())] + list(st.items()), rng, version=3, shuffle=False,
                             decoys=False, extra_entries=[('_VBA_PROJECT_CUR', 1), ('VBA', 1)])
        open(dst, 'wb').write(data)
    return dst
def short(r):
    return r if len(r) < 300 else r[:140] + ' ... ' + r[-60:]

print('orig      ', short(vh('xlsx', '/repo/tests/vba.xlsm', ['vba'])))
base = vh('xlsx', build('ods_6_repack', recs), ['vba'])
print('repack    ', short(base), '(same as orig: %s)' % (base == vh('xlsx', '/repo/tests/vba.xlsm', ['vba'])))
for k in ('xlsb', 'xls'):
    r = vh(k, build('ods_6_repack', recs, kind=k), ['vba'])
    print('repack %-4s' % k, 'same as orig: %s' % (r == base), '' if r == base else short(r))

# (b) PROJECTCONSTANTS record absent (MS-OVBA 2.3.4.2.1: ConstantsRecord "This field is optional")
r2 = [x for x in recs if x[0] not in (0x000C, 0x003C)]
r = vh('xlsx', build('ods_6_noconstants', r2), ['vba'])
print('noconst   ', 'same as orig: %s' % (r == base), short(r))
# (c) PROJECTCOMPATVERSION present (Office 2019+/365)
if not any(x[0] == 0x004A for x in recs):
    r3 = [recs[0], (0x004A, struct.pack('<HII', 0x004A, 4, 3))] + recs[1:]
    r = vh('xlsx', build('ods_6_compat', r3), ['vba'])
    print('compat    ', 'same as orig: %s' % (r == base), '' if r == base else short(r))
# (d) module stream stored under a name that differs in case from MODULESTREAMNAME (compound-file names compare case-insensitively, MS-CFB 2.6.4)
mods = [n for n, _ in streams if n not in ('dir', '_VBA_PROJECT', 'PROJECT', 'PROJECTwm') and not n.startswith('__SRP')]
print('module streams:', mods)
tgt = mods[-1]
st2 = [((n.swapcase() if n == tgt else n), b) for n, b in streams]
r = vh('xlsx', build('ods_6_case', recs, st2), ['vba'])
print('case      ', 'same as orig: %s' % (r == base), short(r))
# (e) MODULEPRIVATE / MODULEREADONLY flags on the last module
idx = max(i for i, x in enumerate(recs) if x[0] == 0x002B)
r5 = recs[:idx] + [(0x0025, struct.pack('<HI', 0x0025, 0)), (0x0028, struct.pack('<HI', 0x0028, 0))] + recs[idx:]
r = vh('xlsx', build('ods_6_flags', r5), ['vba'])
print('ro+private', 'same as orig: %s' % (r == base), '' if r == base else short(r))
# (f) dir stream compressed as found (copy tokens by Excel) but project repacked: done by 'repack' (dir recompressed literal-only)
# (g) every fixture with macros
for f in sorted(os.listdir('/repo/tests')):
    ext = f.rsplit('.', 1)[-1].lower()
    kind = {'xlsm': 'xlsx', 'xlsx': 'xlsx', 'xlsb': 'xlsb', 'xls': 'xls', 'xla': 'xls', 'xlam': 'xlsx'}.get(ext)
    if not kind: continue
    r = vh(kind, '/repo/tests/' + f, ['vba'])
    if r != 'none' and not r.startswith('openerr'):
        print('fixture %-28s %s' % (f, short(r)))
