(* Property C02 — XLS (BIFF8): every cell record reads back at its position with its value.
   Only the property theorems (closed by [exact]), [Check] pins of the full statements, one
   non-vacuity example per hypothesis-carrying theorem, and [Print Assumptions].
   Models: RK.v (rk_num), BiffRec.v (RecordIter, sheet loop, cell parsers, encoder, spec);
   proofs: RK_proofs.v, BiffRec_proofs.v; Range::from_sparse: Range.v / Range_proofs.v (C05).
   [fdiv100] (IEEE division by 100.0 on bit patterns) and [decode16] (UTF-16LE decoding) are
   universally quantified: the theorems hold for every instantiation. *)
From Coq Require Import Reals.
From Flocq Require IEEE754.Binary IEEE754.Bits IEEE754.BinarySingleNaN.
From Calamine Require Import Prelude Range Range_spec Range_proofs RK RK_proofs BiffRec BiffRec_proofs RKFloat.
Open Scope N_scope.

(* ---- RK: every 32-bit pattern, both kinds ---- *)
Theorem C02_rk_int_all : forall (fdiv100 : N -> N) (w : N),
  w < 4294967296 -> N.testbit w 1 = true ->
  rk_decode fdiv100 w =
    let v := signed30 (w / 4) in
    if N.odd w
    then (if (Z.rem v 100 =? 0)%Z then RInt (Z.quot v 100) else RFloat (fdiv100 (z2f v)))
    else RInt v.
Proof. exact rk_int_all. Qed.

Theorem C02_rk_float_all : forall (fdiv100 : N -> N) (w : N),
  w < 4294967296 -> N.testbit w 1 = false ->
  rk_decode fdiv100 w =
    let x := (w - w mod 4) * 4294967296 in
    RFloat (if N.odd w then fdiv100 x else x).
Proof. exact rk_float_all. Qed.

(* every legal RK form decodes to the value it denotes; the forms reach every pattern *)
Theorem C02_rk_roundtrip : forall (fdiv100 : N -> N) (f : rk_form),
  legal_form f = true -> rk_decode fdiv100 (rk_encode f) = rk_form_value fdiv100 f.
Proof. exact rk_roundtrip. Qed.

Theorem C02_rk_roundtrip_num : forall (fdiv100 : N -> N) (bits : N) (f : rk_form),
  form_of fdiv100 bits f = true -> rk_num_eqb (rk_decode fdiv100 (rk_encode f)) bits = true.
Proof. exact rk_roundtrip_num. Qed.

Theorem C02_rk_forms_cover : forall w : N, w < 4294967296 ->
  exists f, legal_form f = true /\ rk_encode f = w.
Proof. exact rk_forms_cover. Qed.

(* the 6-byte RkRec through rk_num, with the cell format applied *)
Theorem C02_rk_num_bytes : forall (fdiv100 : N -> N) (ixfe w : N) (formats : list cellfmt) (is1904 : bool),
  ixfe < 65536 -> w < 4294967296 ->
  rk_num fdiv100 (le_bytes 2 ixfe ++ le_bytes 4 w) formats is1904 =
    Ok (rk_wrap (rk_decode fdiv100 w) (nthN formats ixfe) is1904).
Proof. exact rk_num_bytes. Qed.

(* ---- MULRK: the i-th RkRec lands at (row, col_first + i) ---- *)
Theorem C02_mulrk_columns :
  forall (fdiv100 : N -> N) (en : env) (row cf : N) (rks : list (N * rk_form)) (i : nat) (x : N * rk_form),
  row < 65536 -> 0 < lenN rks -> cf + lenN rks <= 65535 ->
  forallb (fun x0 => (fst x0 <? 65536) && legal_form (snd x0)) rks = true ->
  nth_error rks i = Some x ->
  exists cells, parse_mul_rk fdiv100 en (mulrk_body row cf rks) = Ok cells /\
    length cells = length rks /\
    nth_error cells i =
      Some ((row, cf + N.of_nat i), num_data en (fst x) (rk_form_value fdiv100 (snd x))).
Proof. exact mulrk_columns. Qed.

(* ---- BOOLERR: booleans and error codes one-to-one ---- *)
Theorem C02_bool_err_table : forall row col ixfe v f : N,
  row < 65536 -> col < 65536 -> ixfe < 65536 -> v < 256 -> f < 256 ->
  parse_bool_err (cell_head row col ixfe ++ [v; f]) =
    if f =? 0 then Ok [((row, col), DBool (negb (v =? 0)))]
    else if f =? 1 then
      match parse_err v with
      | Ok d => Ok [((row, col), d)]
      | _ => Err 1
      end
    else Err 1.
Proof. exact bool_err_table. Qed.

Theorem C02_err_codes_one_to_one :
  (forall e, parse_err (err_code e) = Ok (DError e)) /\
  (forall b e, parse_err b = Ok (DError e) -> b = err_code e) /\
  (forall e1 e2, err_code e1 = err_code e2 -> e1 = e2) /\
  (forall b, (exists e, parse_err b = Ok (DError e) /\ b = err_code e) \/ parse_err b = Err 1).
Proof. exact (conj parse_err_code (conj parse_err_inv (conj err_code_inj parse_err_total))). Qed.

(* ---- FORMULA: the cached value ---- *)
Theorem C02_formula_cached_value : forall (decode16 : list N -> list N) (c : cached),
  wf_cached c = true -> parse_formula_value (enc_cached c) = Ok (cached_result decode16 c).
Proof. exact formula_cached_value. Qed.

(* ---- NUMBER / RK / MULRK of the same number ---- *)
Theorem C02_encodings_equivalent :
  forall (fdiv100 : N -> N) (en : env) (row col ixfe bits : N) (f : rk_form)
         (before after : list (N * rk_form)),
  row < 65536 -> ixfe < 65536 -> bits < 18446744073709551616 ->
  lenN before <= col -> col + lenN after < 65535 ->
  form_of fdiv100 bits f = true ->
  forallb (fun x => (fst x <? 65536) && legal_form (snd x)) before = true ->
  forallb (fun x => (fst x <? 65536) && legal_form (snd x)) after = true ->
  exists d1 d2 cells,
    parse_number en (cell_head row col ixfe ++ le_bytes 8 bits) = Ok [((row, col), d1)] /\
    parse_rk fdiv100 en (le_bytes 2 row ++ le_bytes 2 col ++ enc_rkrec (ixfe, f)) = Ok [((row, col), d2)] /\
    parse_mul_rk fdiv100 en (mulrk_body row (col - lenN before) (before ++ (ixfe, f) :: after)) = Ok cells /\
    nth_error cells (length before) = Some ((row, col), d2) /\
    data_num_eq d1 d2.
Proof. exact encodings_equivalent. Qed.

(* ---- the sheet loop: the cells of every legal layout, in stream order ---- *)
(* layouts: any record kinds in ANY order (rows need not ascend), FORMULA followed by any run of
   ignored records (SHRFMLA / ARRAY / TABLE / …) before its STRING, STRING continued in any
   number of CONTINUE records (each with its own flag byte), ROW / DBCELL / INDEX / BLANK /
   MULBLANK / … anywhere, DIMENSIONS in both widths, MERGECELLS records (IMerge), and — audit 2,
   XLS-2 — substreams NESTED in the sheet (ISub: BOF, ANY records, EOF; the chart substream Excel
   writes for every embedded chart object, [MS-XLS] 2.1.7.20.5 OBJECTS -> CHART): several per
   sheet, anywhere between the cell records, holding cell records at positions of the sheet's own
   cells, FORMULA / STRING / MERGECELLS / DIMENSIONS, CONTINUE records and further BOF … EOF
   pairs; the only condition is that BOF and EOF balance *)
Theorem C02_sheet_cells :
  forall (fdiv100 : N -> N) (decode16 : list N -> list N) (en : env) (c : layout),
  wf_layout c = true ->
  sheet_cells fdiv100 decode16 en (encode_sheet c) =
    Ok (logical fdiv100 decode16 en c, layout_fmls c).
Proof. exact sheet_cells_encode. Qed.

(* a nested substream is inert: with or without it the sheet reads the same cells and formula
   positions, wherever it stands and whatever it holds *)
Theorem C02_nested_substream_inert :
  forall (fdiv100 : N -> N) (decode16 : list N -> list N) (en : env)
         (before : list item) (bof : list N) (recs : list srec) (after : list item) (trailer : list N),
  wf_layout (mkLayout (before ++ ISub bof recs :: after) trailer) = true ->
  wf_layout (mkLayout (before ++ after) trailer) = true /\
  sheet_cells fdiv100 decode16 en (encode_sheet (mkLayout (before ++ ISub bof recs :: after) trailer)) =
  sheet_cells fdiv100 decode16 en (encode_sheet (mkLayout (before ++ after) trailer)).
Proof. exact nested_substream_inert. Qed.

(* a record of any type but FORMULA between a FORMULA and its STRING leaves the pending
   position where it was *)
Theorem C02_between_keeps_position :
  forall (fdiv100 : N -> N) (decode16 : list N -> list N) (en : env) (r : frec)
         (cells : list cellv) (fpos : pos) (fmls : list pos) cells' fpos' fmls',
  f_typ r <> 6 -> step fdiv100 decode16 en r cells fpos fmls = Ok (Next cells' fpos' fmls') ->
  fpos' = fpos.
Proof. exact step_keeps_fpos. Qed.

(* read_dbcs over a string result's STRING and CONTINUE fragments: the UTF-16LE bytes of the
   whole string, wherever the cuts fall and whatever the flag bytes *)
Theorem C02_string_continue_bytes : forall (more : list xlstr) (s : xlstr) (acc : list N),
  wf_frag s = true -> forallb wf_frag more = true ->
  dbcs_bytes (map enc_cont_rec more) (frag_chars s)
             (lenN (s_units s) + lenN (flat_map s_units more)) (s_wide s) acc =
    Ok (acc ++ utf16le (s_units s ++ flat_map s_units more)).
Proof. exact dbcs_bytes_enc. Qed.

(* ---- the main theorem: every legal layout of a logical sheet reads back as its range.
   [legal c L] = the layout is well-formed and denotes L; the cell records may be in any order
   (Range::from_sparse searches all four bounds since repo commit 3140dd1), and there is no
   known class left (the StringContinue defect is repaired on branch c02-fixes) ---- *)
Theorem C02_xls_sheet_main :
  forall (fdiv100 : N -> N) (decode16 : list N -> list N) (en : env) (L : list cellv) (c : layout),
  legal fdiv100 decode16 en c L ->
  sheet_model fdiv100 decode16 en (encode_sheet c) = Ok (range_of L).
Proof. exact xls_sheet_main. Qed.

Theorem C02_xls_sheet_values :
  forall (fdiv100 : N -> N) (decode16 : list N -> list N) (en : env) (L : list cellv) (c : layout),
  legal fdiv100 decode16 en c L ->
  exists r, sheet_model fdiv100 decode16 en (encode_sheet c) = Ok r /\ Wf r /\
    rect r = tight_bbox (map fst L) /\
    forall q, get_value r q = if in_rect r q then Some (last_write DEmpty L q) else None.
Proof. exact xls_sheet_main_values. Qed.

(* ---- totality (for C06): no byte string panics the sheet reader or exhausts the stated fuel ---- *)
Theorem C02_no_panic_sheet :
  forall (fdiv100 : N -> N) (decode16 : list N -> list N) (en : env) (stream : list N),
  sheet_model fdiv100 decode16 en stream <> Panic /\
  sheet_model fdiv100 decode16 en stream <> OutOfFuel.
Proof. exact sheet_model_total. Qed.

Theorem C02_no_panic_sheet_cells :
  forall (fdiv100 : N -> N) (decode16 : list N -> list N) (en : env) (stream : list N),
  sheet_cells fdiv100 decode16 en stream <> Panic /\
  sheet_cells fdiv100 decode16 en stream <> OutOfFuel.
Proof. exact sheet_cells_total. Qed.

Theorem C02_no_panic_sheet_at :
  forall (fdiv100 : N -> N) (decode16 : list N -> list N) (en : env) (workbook : list N) (p : N),
  sheet_at fdiv100 decode16 en workbook p <> Panic /\
  sheet_at fdiv100 decode16 en workbook p <> OutOfFuel.
Proof. exact sheet_at_total. Qed.

Theorem C02_no_panic_records : forall s : list N,
  all_records (S (length s)) s <> Panic /\ all_records (S (length s)) s <> OutOfFuel.
Proof. exact all_records_total. Qed.

Theorem C02_no_panic_cell_record :
  forall (fdiv100 : N -> N) (decode16 : list N -> list N) (en : env) (typ : N) (d : list N),
  parse_cell_record fdiv100 decode16 en typ d <> Panic /\
  parse_cell_record fdiv100 decode16 en typ d <> OutOfFuel.
Proof. exact parse_cell_record_total. Qed.

Theorem C02_no_panic_formula_value : forall r : list N, length r = 8%nat ->
  parse_formula_value r <> Panic /\ parse_formula_value r <> OutOfFuel.
Proof. exact parse_formula_value_total. Qed.

Theorem C02_no_panic_dimensions : forall r : list N,
  parse_dimensions r <> Panic /\ parse_dimensions r <> OutOfFuel.
Proof. exact parse_dimensions_total. Qed.

(* the one remaining panic of the slice's functions: rk_num on a slice that is not 6 bytes
   (its callers always pass exactly 6; C02_no_panic_cell_record covers them) *)
Theorem C02_rk_num_panics_iff : forall (fdiv100 : N -> N) (rk : list N) (formats : list cellfmt) (is1904 : bool),
  rk_num fdiv100 rk formats is1904 <> Panic <-> length rk = 6%nat.
Proof. exact rk_num_total. Qed.

(* ---- the float side (Flocq binary64; only this theorem depends on the classical axioms of the
   standard library's reals): when 100 divides the RK integer, the double quotient the float
   branch would compute is exactly the integer the integer branch returns ---- *)
Theorem C02_rk_int_float_x100_agree : forall v : Z,
  (-536870912 <= v < 536870912)%Z -> Z.rem v 100 = 0%Z ->
  Binary.B2R 53 1024 (Bits.b64_div BinarySingleNaN.mode_NE (Z2B v) b100) = IZR (Z.quot v 100).
Proof. exact rk_int_float_x100_agree. Qed.

(* ---- non-vacuity ---- *)
Example C02_main_nonvacuous : forall fdiv100 decode16,
  legal fdiv100 decode16 example_env example_layout
        (logical fdiv100 decode16 example_env example_layout) /\
  length (logical fdiv100 decode16 example_env example_layout) = 14%nat.
Proof. exact example_legal. Qed.

(* the former defect XLS-2: a worksheet with an embedded chart (ISub) whose series cache is
   addressed like A1, A2 of the sheet, MERGECELLS and a later cell behind it: the sheet reads back
   as its own cells.  [ex_chart] (an item of example_layout above) is a chart substream holding
   NUMBER / LABEL / BOOLERR / RK records, FORMULA + STRING, MERGECELLS, a record with two CONTINUE
   records and a further BOF … EOF pair *)
Example C02_chart_nonvacuous : forall fdiv100,
  wf_item ex_chart = true /\
  legal fdiv100 id_decode example_env chart_layout
        (logical fdiv100 id_decode example_env chart_layout) /\
  sheet_model fdiv100 id_decode example_env (encode_sheet chart_layout)
    = Ok (mkRange (0, 0) (2, 1)
            [DString [78; 0]; DString [86; 0]; DString [97; 0]; DFloat 4621819117588971520;
             DBool true; DEmpty]).
Proof. exact example_chart_sheet. Qed.

(* FORMULA, SHRFMLA, STRING (first cell of a filled-down shared text formula), then FORMULA,
   STRING (second cell); FORMULA, ARRAY, STRING (array anchor returning text), the row blocks
   NOT in row order: legal, and read back with every string at its cell *)
Definition shared_layout : layout :=
  mkLayout [IDims true 2 5 1 3;
            IFormula 4 2 0 (CStr (mkStr [8364] true) []) 0 0 [5; 0; 1; 4; 0; 2; 0] [ex_array];
            IFormula 2 1 0 (CStr (mkStr [104; 105] false) []) 8 0 [5; 0; 1; 2; 0; 1; 0]
                     [(1212, [2; 0; 3; 0; 1; 1; 0; 2; 3; 0; 30; 1; 0])];
            IFormula 3 1 0 (CStr (mkStr [106] false) []) 8 0 [5; 0; 1; 2; 0; 1; 0] []] [].
Example C02_shrfmla_nonvacuous : forall fdiv100,
  legal fdiv100 id_decode example_env shared_layout
        (logical fdiv100 id_decode example_env shared_layout) /\
  sorted_by_rowb (logical fdiv100 id_decode example_env shared_layout) = false /\
  sheet_model fdiv100 id_decode example_env (encode_sheet shared_layout) =
    Ok (mkRange (2, 1) (4, 2)
          [DString [104; 0; 105; 0]; DEmpty; DString [106; 0]; DEmpty; DEmpty; DString [172; 32]]).
Proof. intros. repeat split; vm_compute; reflexivity. Qed.

(* a string result continued in a CONTINUE record (the former known class): read in full *)
Example C02_string_continue_nonvacuous : forall fdiv100,
  legal fdiv100 id_decode example_env cont_layout
        (logical fdiv100 id_decode example_env cont_layout) /\
  sheet_model fdiv100 id_decode example_env (encode_sheet cont_layout)
    = Ok (mkRange (1, 1) (1, 1) [DString [104; 0; 105; 0; 172; 32]]).
Proof. exact example_string_continue. Qed.

Example C02_between_nonvacuous : forall fdiv100,
  step fdiv100 id_decode example_env (mkRec 1212 [2; 0; 3; 0; 1; 1; 0; 2; 3; 0; 30; 1; 0] None)
       [] (2, 1) [(2, 1)] = Ok (Next [] (2, 1) [(2, 1)]).
Proof. intros. reflexivity. Qed.

Example C02_equiv_nonvacuous : forall fdiv100,
  form_of fdiv100 4619567317775286272 (RkI 700 true) = true /\
  form_of fdiv100 4619567317775286272 (RkI 7 false) = true /\
  form_of fdiv100 4619567317775286272 (RkF 268894208 false) = true.
Proof. exact example_equiv. Qed.

Example C02_x100_nonvacuous :
  (-536870912 <= -536870900 < 536870912)%Z /\ Z.rem (-536870900) 100 = 0%Z.
Proof. split; [lia|reflexivity]. Qed.

Example C02_rk_nonvacuous :
  N.testbit 4294967291 1 = true /\ N.testbit 1078525952 1 = false /\
  legal_form (RkI (-536870912) true) = true /\ wf_cached (CNum 18446181123756130304) = true.
Proof. repeat split; reflexivity. Qed.

Check C02_xls_sheet_main :
  forall (fdiv100 : N -> N) (decode16 : list N -> list N) (en : env) (L : list cellv) (c : layout),
  legal fdiv100 decode16 en c L ->
  sheet_model fdiv100 decode16 en (encode_sheet c) = Ok (range_of L).
Check C02_no_panic_sheet :
  forall (fdiv100 : N -> N) (decode16 : list N -> list N) (en : env) (stream : list N),
  sheet_model fdiv100 decode16 en stream <> Panic /\
  sheet_model fdiv100 decode16 en stream <> OutOfFuel.
Check C02_rk_int_all : forall (fdiv100 : N -> N) (w : N),
  w < 4294967296 -> N.testbit w 1 = true ->
  rk_decode fdiv100 w =
    let v := signed30 (w / 4) in
    if N.odd w
    then (if (Z.rem v 100 =? 0)%Z then RInt (Z.quot v 100) else RFloat (fdiv100 (z2f v)))
    else RInt v.
Check C02_rk_roundtrip : forall (fdiv100 : N -> N) (f : rk_form),
  legal_form f = true -> rk_decode fdiv100 (rk_encode f) = rk_form_value fdiv100 f.

Print Assumptions C02_rk_int_all.
Print Assumptions C02_rk_float_all.
Print Assumptions C02_rk_roundtrip.
Print Assumptions C02_rk_roundtrip_num.
Print Assumptions C02_rk_forms_cover.
Print Assumptions C02_rk_num_bytes.
Print Assumptions C02_mulrk_columns.
Print Assumptions C02_bool_err_table.
Print Assumptions C02_err_codes_one_to_one.
Print Assumptions C02_formula_cached_value.
Print Assumptions C02_encodings_equivalent.
Print Assumptions C02_sheet_cells.
Print Assumptions C02_nested_substream_inert.
Print Assumptions C02_between_keeps_position.
Print Assumptions C02_xls_sheet_main.
Print Assumptions C02_string_continue_bytes.
Print Assumptions C02_xls_sheet_values.
Print Assumptions C02_no_panic_sheet.
Print Assumptions C02_no_panic_sheet_cells.
Print Assumptions C02_no_panic_sheet_at.
Print Assumptions C02_no_panic_records.
Print Assumptions C02_no_panic_cell_record.
Print Assumptions C02_no_panic_formula_value.
Print Assumptions C02_no_panic_dimensions.
Print Assumptions C02_rk_num_panics_iff.
Print Assumptions C02_rk_int_float_x100_agree.

(* ---- the whole file: compound-file container (C13) + globals substream (C16) + SST (C12) + number
   formats (C10) + sheet substreams (this property) + Range (C05), composed in XlsFile.v.  For every
   logical workbook and every legal choice of container layout, SST layout and per-sheet record layout,
   the model of Xls::new + worksheet_range on the FILE BYTES returns the sheets in order, each with
   exactly the bounding rectangle of its cells and every value at its position. ---- *)
From Calamine Require Cfb XlsFile XlsFile_proofs.
Theorem C02_xls_whole_file_main : forall (fdiv100 : N -> N) (decode16 : list N -> list N) (show_f64 : N -> list N) (wb : XlsFile.lwb) (ch : XlsFile.xchoice) (fuel : nat), XlsFile.xfile_legal fdiv100 decode16 wb ch -> (Cfb.fuel_for (XlsFile.xc_layout ch) <= fuel)%nat -> XlsFile.xls_open_model fdiv100 decode16 show_f64 fuel (XlsFile.xls_file_write wb ch) = Ok (XlsFile.spec_result show_f64 wb ch).
Proof. exact XlsFile_proofs.xls_file_main. Qed.
Print Assumptions C02_xls_whole_file_main.

(* the whole file with a CodePage record (0x0042) among the globals: XlsFile.gitem_ok / Meta.xjunk_ok
   admit one of ANY value wherever an ignorable record may stand, so C02_xls_whole_file_main
   quantifies over it (audit-2 finding XLS-1, repaired: the reader decoded every string of a BIFF8
   workbook through the code page).  1252 = JExcelApi (tests/sheet_name_parsing.xls), 54321 = unknown
   to every decoder table; the last variant carries two CodePage records. *)
From Calamine Require XlsFileCodePage_proofs.
Example C02_xls_whole_file_codepage_nonvacuous : forall fdiv100 : N -> N,
  Forall (fun cp =>
            XlsFile.xfile_legal fdiv100 BiffRec_proofs.id_decode XlsFile_proofs.ex_wb (XlsFileCodePage_proofs.cp_choice cp) /\
            XlsFile.xls_open_model fdiv100 BiffRec_proofs.id_decode (fun _ => []) 1
              (XlsFile.xls_file_write XlsFile_proofs.ex_wb (XlsFileCodePage_proofs.cp_choice cp)) =
            Ok (XlsFile.spec_result (fun _ => []) XlsFile_proofs.ex_wb (XlsFileCodePage_proofs.cp_choice cp)) /\
            XlsFile.spec_result (fun _ => []) XlsFile_proofs.ex_wb (XlsFileCodePage_proofs.cp_choice cp) =
            XlsFile.spec_result (fun _ => []) XlsFile_proofs.ex_wb XlsFile_proofs.ex_ch)
         [1252; 932; 1200; 65001; 54321] /\
  XlsFile.xfile_legal fdiv100 BiffRec_proofs.id_decode XlsFile_proofs.ex_wb XlsFileCodePage_proofs.cp_choice_two /\
  XlsFile.xls_open_model fdiv100 BiffRec_proofs.id_decode (fun _ => []) 1
    (XlsFile.xls_file_write XlsFile_proofs.ex_wb XlsFileCodePage_proofs.cp_choice_two) =
  Ok (XlsFile.spec_result (fun _ => []) XlsFile_proofs.ex_wb XlsFileCodePage_proofs.cp_choice_two) /\
  XlsFile.spec_result (fun _ => []) XlsFile_proofs.ex_wb XlsFileCodePage_proofs.cp_choice_two =
  XlsFile.spec_result (fun _ => []) XlsFile_proofs.ex_wb XlsFile_proofs.ex_ch /\
  firstn 12 (skipn 20 (XlsFile.xls_stream_write XlsFile_proofs.ex_wb (XlsFileCodePage_proofs.cp_choice 1252))) =
    [225; 0; 2; 0; 176; 4; 66; 0; 2; 0; 228; 4].
Proof. exact XlsFileCodePage_proofs.example_whole_codepage. Qed.
Print Assumptions C02_xls_whole_file_codepage_nonvacuous.
