(* Meta_proofs: the readers' reports equal the logical workbook, for every workbook and every
   legal encoding choice (property C16).  Definitions: Meta.v. *)
From Calamine Require Import Prelude BiffSst BiffSst_proofs Meta.
From Calamine Require Col26 Col26_proofs Utf16 Utf16_proofs Ptg Ptg_proofs NumFmt.
Open Scope N_scope.

(* ------------------------------------------------------------------------------------- *)
(** * strings, attributes *)

Lemma str_eqb_refl : forall a, str_eqb a a = true.
Proof. induction a as [|x a IH]; cbn; [reflexivity|]. rewrite N.eqb_refl. exact IH. Qed.

Lemma str_eqb_eq : forall a b, str_eqb a b = true -> a = b.
Proof.
  induction a as [|x a IH]; intros [|y b] H; cbn in H; try discriminate; [reflexivity|].
  apply andb_true_iff in H. destruct H as [H1 H2]. apply N.eqb_eq in H1. subst y.
  f_equal. apply IH. exact H2.
Qed.

Lemma after_colon_app : forall p l, no_colon p = true -> after_colon (p ++ COLON :: l) = Some l.
Proof.
  induction p as [|x p IH]; intros l H; cbn.
  - reflexivity.
  - cbn in H. apply andb_true_iff in H. destruct H as [H1 H2].
    apply negb_true_iff in H1. rewrite H1. apply IH. exact H2.
Qed.

Lemma after_colon_none : forall l, no_colon l = true -> after_colon l = None.
Proof.
  induction l as [|x l IH]; intros H; cbn; [reflexivity|].
  cbn in H. apply andb_true_iff in H. destruct H as [H1 H2].
  apply negb_true_iff in H1. rewrite H1. apply IH. exact H2.
Qed.

Lemma local_name_qn : forall p l, no_colon p = true -> no_colon l = true ->
  local_name (qn p l) = l.
Proof.
  intros p l Hp Hl. unfold local_name, qn. destruct p as [|x p].
  - rewrite (after_colon_none l Hl). reflexivity.
  - rewrite (after_colon_app (x :: p) l Hp). reflexivity.
Qed.

Lemma get_attribute_free : forall k a r,
  attr_free [k] a = true -> get_attribute (a ++ r) k = get_attribute r k.
Proof.
  induction a as [|[k' v] a IH]; intros r H; cbn; [reflexivity|].
  cbn in H. apply andb_true_iff in H. destruct H as [H1 H2].
  rewrite orb_false_r in H1. apply negb_true_iff in H1. rewrite H1. apply IH. exact H2.
Qed.

Lemma attr_free_weaken : forall k keys a,
  attr_free keys a = true -> existsb (str_eqb k) keys = true -> attr_free [k] a = true.
Proof.
  unfold attr_free. induction a as [|[k' v] a IH]; intros H Hk; cbn [forallb] in *; [reflexivity|].
  apply andb_true_iff in H. destruct H as [H1 H2].
  apply andb_true_iff. split; [|apply IH; assumption].
  cbn [fst existsb] in *. rewrite orb_false_r.
  apply negb_true_iff in H1. apply negb_true_iff.
  destruct (str_eqb k' k) eqn:E; [|reflexivity].
  apply str_eqb_eq in E. subst k'. rewrite Hk in H1. discriminate.
Qed.

Lemma forallb2_length : forall (A B : Type) (f : A -> B -> bool) l m,
  forallb2 f l m = true -> length l = length m.
Proof.
  induction l as [|x l IH]; intros [|y m] H; cbn in H; try discriminate; [reflexivity|].
  apply andb_true_iff in H. cbn. f_equal. apply IH. apply H.
Qed.

(* ------------------------------------------------------------------------------------- *)
(** * xlsx *)

Fixpoint add_sheets (st : parsed) (l : list (meta * str)) : parsed :=
  match l with
  | [] => st
  | x :: r => add_sheets (add_sheet st (fst x) (snd x)) r
  end.
Fixpoint add_names (st : parsed) (l : list (str * str)) : parsed :=
  match l with
  | [] => st
  | x :: r => add_names (add_name st (fst x) (snd x)) r
  end.

Lemma add_sheets_eq : forall l st,
  add_sheets st l =
  mkParsed (p_sheets st ++ map fst l) (p_paths st ++ map (fun x => (m_name (fst x), snd x)) l)
           (p_names st) (p_1904 st).
Proof.
  induction l as [|x l IH]; intros st; cbn [add_sheets map].
  - rewrite !app_nil_r. destruct st; reflexivity.
  - rewrite IH. unfold add_sheet. cbn [p_sheets p_paths p_names p_1904].
    rewrite <- !app_assoc. reflexivity.
Qed.
Lemma add_names_eq : forall l st,
  add_names st l = mkParsed (p_sheets st) (p_paths st) (p_names st ++ l) (p_1904 st).
Proof.
  induction l as [|x l IH]; intros st; cbn [add_names].
  - rewrite app_nil_r. destruct st; reflexivity.
  - rewrite IH. unfold add_name. cbn [p_sheets p_paths p_names p_1904].
    rewrite <- app_assoc. destruct x; reflexivity.
Qed.

(* one ignorable event in the main loop *)
Lemma xlsx_skip1 : forall rels e rest st, junk_ok_xlsx e = true ->
  xlsx_wb_run rels (e :: rest) XMain st = xlsx_wb_run rels rest XMain st.
Proof.
  intros rels e rest st H. destruct e as [n a|n|s|s|]; cbn [xlsx_wb_run]; try reflexivity.
  - cbn in H. apply andb_true_iff in H. destruct H as [H H3].
    apply negb_true_iff in H. apply orb_false_iff in H. destruct H as [H1 H2].
    rewrite H1, H2. destruct (str_eqb (local_name n) k_workbookPr); [|reflexivity].
    cbn in H3. apply negb_true_iff in H3. rewrite H3. reflexivity.
  - cbn in H. apply negb_true_iff in H. rewrite H. reflexivity.
Qed.

Lemma xlsx_skip : forall rels j rest st, forallb junk_ok_xlsx j = true ->
  xlsx_wb_run rels (j ++ rest) XMain st = xlsx_wb_run rels rest XMain st.
Proof.
  induction j as [|e j IH]; intros rest st H; [reflexivity|].
  cbn in H. apply andb_true_iff in H. destruct H as [H1 H2].
  cbn [app]. rewrite (xlsx_skip1 rels e (j ++ rest) st H1). apply IH. exact H2.
Qed.

(* attributes the <sheet> loop does not look at *)
Lemma sheet_attrs_free : forall rels a r n p v rt,
  keys_ok a = true ->
  sheet_attrs rels (a ++ r) n p v rt = sheet_attrs rels r n p v rt.
Proof.
  induction a as [|[k x] a IH]; intros r n p v rt H; [reflexivity|].
  cbn in H. apply andb_true_iff in H. destruct H as [H1 H2].
  apply negb_true_iff in H1.
  apply orb_false_iff in H1. destruct H1 as [H1 E3].
  apply orb_false_iff in H1. destruct H1 as [E1 E2].
  cbn [app sheet_attrs]. rewrite E1, E2, E3. apply IH. exact H2.
Qed.

Lemma perm3_cases : forall (A : Type) p (a b c : list A),
  perm3 p a b c = a ++ b ++ c \/ perm3 p a b c = a ++ c ++ b \/ perm3 p a b c = b ++ a ++ c \/
  perm3 p a b c = b ++ c ++ a \/ perm3 p a b c = c ++ a ++ b \/ perm3 p a b c = c ++ b ++ a.
Proof.
  intros A p a b c. unfold perm3.
  destruct p as [|q]; [auto 10|].
  destruct q as [q|q|]; [| |auto 10].
  - destruct q as [q|q|]; auto 10.
  - destruct q as [q|q|]; [auto 10| |auto 10]. destruct q; auto 10.
Qed.

Lemma tprefix_cases : forall s, tprefix s = [] \/ tprefix s = s_slash_xl_slash \/ tprefix s = s_xl_slash.
Proof.
  intros s. unfold tprefix. destruct s as [|q]; [auto|]. destruct q; auto.
Qed.

Lemma starts_with_app : forall p s, starts_with p (p ++ s) = true.
Proof. induction p as [|x p IH]; intros s; cbn; [reflexivity|]. rewrite N.eqb_refl. apply IH. Qed.

(* the relationship target the encoder writes resolves to the part path, whatever the part is
   called *)
Lemma xlsx_target_path : forall style part, xs_part_ok style part = true ->
  xlsx_path (xlsx_target style part) = s_xl_slash ++ part.
Proof.
  intros style part Hp. unfold xlsx_target, tprefix, xlsx_path.
  destruct style as [|q].
  - cbn [app]. cbn [xs_part_ok] in Hp. apply negb_true_iff in Hp.
    apply orb_false_iff in Hp. destruct Hp as [H1 H2]. rewrite H1, H2. reflexivity.
  - destruct q.
    + change (starts_with s_slash_xl_slash (s_xl_slash ++ part)) with false.
      rewrite starts_with_app. reflexivity.
    + change (starts_with s_slash_xl_slash (s_xl_slash ++ part)) with false.
      rewrite starts_with_app. reflexivity.
    + rewrite starts_with_app. reflexivity.
Qed.

(* ... and the relationship Type the encoder writes names the kind *)
Lemma kind_of_rel_type_enc : forall alt k, xlsx_kind_ok k = true ->
  kind_of_rel_type (kind_rel_type alt k) = Some k.
Proof. intros [|] k Hk; destruct k; try discriminate; vm_compute; reflexivity. Qed.

(* the reader's map, seen through the relationships part as a lookup table *)
Lemma map_get_map_entry : forall id (l : amap (str * str)),
  map_get id (map rel_entry l) =
  match map_get id l with
  | Some tg => Some (fst tg, kind_of_rel_type (snd tg))
  | None => None
  end.
Proof.
  intros id. induction l as [|[k [t ty]] l IH]; [reflexivity|].
  cbn [map rel_entry map_get fst snd]. destruct (str_eqb k id); [reflexivity|exact IH].
Qed.
Lemma map_get_rels_map : forall id l,
  map_get id (rels_map l) =
  match map_get id (rels_raw l) with
  | Some tg => Some (fst tg, kind_of_rel_type (snd tg))
  | None => None
  end.
Proof. intros id l. unfold rels_map, rels_raw. rewrite <- map_rev. apply map_get_map_entry. Qed.

Definition rid_key (rpfx : str) : bool :=
  no_colon rpfx && negb (match rpfx with [] => true | _ => false end).

Lemma no_colon_app_colon : forall p l, no_colon (p ++ COLON :: l) = false.
Proof. induction p as [|x p IH]; intros l; cbn; [reflexivity|]. rewrite IH. apply andb_false_r. Qed.

Lemma colon_neq : forall x y, no_colon y = true -> no_colon x = false -> str_eqb x y = false.
Proof.
  intros x y Hy Hx. destruct (str_eqb x y) eqn:E; [|reflexivity].
  apply str_eqb_eq in E. subst y. rewrite Hy in Hx. discriminate.
Qed.

Lemma rid_key_other : forall p, rid_key p = true ->
  str_eqb (qn p a_id) a_name = false /\ str_eqb (qn p a_id) a_state = false /\
  is_rel_id (qn p a_id) = true.
Proof.
  intros p H. unfold rid_key in H. apply andb_true_iff in H. destruct H as [H1 H2].
  destruct p as [|x p]; [discriminate|]. unfold qn.
  repeat split; try (apply colon_neq; [reflexivity|apply no_colon_app_colon]).
  unfold is_rel_id. rewrite (after_colon_app (x :: p) a_id H1). reflexivity.
Qed.

(* the three interpreted attributes, in any of the six orders *)
Lemma sheet_attrs_core : forall rels rpfx nm rid target ty v omit p post n0 p0 t0,
  rid_key rpfx = true -> map_get rid rels = Some (target, ty) ->
  keys_ok post = true ->
  sheet_attrs rels
    (perm3 p [(a_name, nm)] (if omit && is_visible v then [] else [(a_state, vis_text v)])
           [(qn rpfx a_id, rid)] ++ post) n0 p0 Visible t0
  = Ok (nm, xlsx_path target, v, ty).
Proof.
  intros rels rpfx nm rid target ty v omit p post n0 p0 t0 Hk Hg Hpost.
  destruct (rid_key_other rpfx Hk) as [K1 [K2 K3]].
  assert (Hend : forall n q w u, sheet_attrs rels post n q w u = Ok (n, q, w, u)).
  { intros n q w u. rewrite <- (app_nil_r post), (sheet_attrs_free rels post [] n q w u Hpost).
    reflexivity. }
  assert (Hs : forall r n q w u, sheet_attrs rels ((a_state, vis_text v) :: r) n q w u
                               = sheet_attrs rels r n q v u).
  { intros r n q w u. destruct v; reflexivity. }
  assert (Hn : forall r n q w u, sheet_attrs rels ((a_name, nm) :: r) n q w u
                               = sheet_attrs rels r nm q w u) by reflexivity.
  assert (Hr : forall r n q w u, sheet_attrs rels ((qn rpfx a_id, rid) :: r) n q w u
                               = sheet_attrs rels r n (xlsx_path target) w ty).
  { intros r n q w u. cbn [sheet_attrs]. rewrite K1, K2, K3, Hg. reflexivity. }
  destruct (omit && is_visible v) eqn:Eo.
  - assert (v = Visible) by (destruct v; try reflexivity; rewrite andb_false_r in Eo; discriminate).
    subst v.
    destruct (perm3_cases _ p [(a_name, nm)] [] [(qn rpfx a_id, rid)]) as [E|[E|[E|[E|[E|E]]]]];
      rewrite E; cbn [app]; rewrite ?Hn, ?Hr, ?Hn, ?Hr, Hend; reflexivity.
  - destruct (perm3_cases _ p [(a_name, nm)] [(a_state, vis_text v)] [(qn rpfx a_id, rid)])
      as [E|[E|[E|[E|[E|E]]]]];
      rewrite E; cbn [app]; rewrite ?Hn, ?Hs, ?Hr, ?Hn, ?Hs, ?Hr, ?Hn, ?Hs, ?Hr, Hend; reflexivity.
Qed.

Lemma k_sheet_local : forall pfx, no_colon pfx = true -> local_name (qn pfx k_sheet) = k_sheet.
Proof. intros. apply local_name_qn; [assumption|reflexivity]. Qed.

(* one <sheet> element: the kind is the one the relationship Type names, the path the part the
   Target names — whatever folder and file name that part has *)
Lemma xlsx_sheet_step : forall l pfx rpfx s ch rest st,
  no_colon pfx = true -> rid_key rpfx = true -> xs_legal (rels_raw l) s ch = true ->
  xlsx_wb_run (rels_map l) (sheet_events pfx rpfx s ch ++ rest) XMain st =
  xlsx_wb_run (rels_map l) rest XMain (add_sheet st s (s_xl_slash ++ xs_part ch)).
Proof.
  intros l pfx rpfx s ch rest st Hp Hk Hl.
  unfold xs_legal in Hl. apply andb_true_iff in Hl. destruct Hl as [Hl Hpost].
  apply andb_true_iff in Hl. destruct Hl as [Hl Hpre].
  apply andb_true_iff in Hl. destruct Hl as [Hl Hg].
  apply andb_true_iff in Hl. destruct Hl as [Hkind Hpart].
  destruct (map_get (xs_rid ch) (rels_raw l)) as [[t ty]|] eqn:Eg; [|discriminate].
  apply andb_true_iff in Hg. destruct Hg as [Hg1 Hg2].
  apply str_eqb_eq in Hg1. apply str_eqb_eq in Hg2. subst t ty.
  assert (Eg' : map_get (xs_rid ch) (rels_map l) =
                Some (xlsx_target (xs_tstyle ch) (xs_part ch), Some (m_kind s))).
  { rewrite map_get_rels_map, Eg. cbn [fst snd].
    rewrite (kind_of_rel_type_enc (xs_talt ch) (m_kind s) Hkind). reflexivity. }
  set (rels := rels_map l) in *.
  unfold sheet_events. cbn [app xlsx_wb_run]. rewrite (k_sheet_local pfx Hp).
  change (str_eqb k_sheet k_sheet) with true. cbn iota.
  rewrite (sheet_attrs_free rels (xs_pre ch) _ [] [] Visible None Hpre).
  rewrite (sheet_attrs_core rels rpfx (m_name s) (xs_rid ch) _ _ (m_vis s) (xs_omit ch) (xs_perm ch)
             (xs_post ch) [] [] None Hk Eg' Hpost).
  cbn [obind]. rewrite (xlsx_target_path (xs_tstyle ch) (xs_part ch) Hpart).
  cbn [sheet_kind].
  destruct s as [nm vv kk]. cbn [m_name m_vis m_kind].
  change (str_eqb k_sheet k_workbook) with false. reflexivity.
Qed.

Lemma xlsx_sheets_run : forall l pfx rpfx j sheets chs rest st,
  no_colon pfx = true -> rid_key rpfx = true -> forallb junk_ok_xlsx j = true ->
  forallb2 (xs_legal (rels_raw l)) sheets chs = true ->
  xlsx_wb_run (rels_map l)
    (flat_map (fun sc => j ++ sheet_events pfx rpfx (fst sc) (snd sc)) (combine sheets chs) ++ rest)
    XMain st =
  xlsx_wb_run (rels_map l) rest XMain
    (add_sheets st (map (fun sc => (fst sc, s_xl_slash ++ xs_part (snd sc)))
                        (combine sheets chs))).
Proof.
  intros l pfx rpfx j. induction sheets as [|s sheets IH]; intros [|ch chs] rest st Hp Hk Hj Hl;
    cbn in Hl; try discriminate; [reflexivity|].
  apply andb_true_iff in Hl. destruct Hl as [Hl1 Hl2].
  cbn [combine flat_map map add_sheets fst snd]. rewrite <- !app_assoc.
  rewrite (xlsx_skip (rels_map l) j _ st Hj), (xlsx_sheet_step l pfx rpfx s ch _ st Hp Hk Hl1).
  apply IH; assumption.
Qed.

(* the text of a defined name: pieces of Text or CDATA, comments between them *)
Lemma name_pieces_run : forall rels q nm ch cuts t val rest st,
  xlsx_wb_run rels
    (flat_map (fun p => (if xn_cdata ch then CData p else Text p) ::
                        (if xn_comment ch then [Other] else [])) (split_cuts cuts t) ++ rest)
    (XName q nm val) st =
  xlsx_wb_run rels rest (XName q nm (val ++ t)) st.
Proof.
  intros rels q nm ch cuts. induction cuts as [|k cuts IH]; intros t val rest st.
  - cbn [split_cuts flat_map app]. destruct (xn_cdata ch), (xn_comment ch); reflexivity.
  - cbn [split_cuts flat_map]. rewrite <- app_assoc.
    assert (Hstep : forall rest',
      xlsx_wb_run rels (((if xn_cdata ch then CData (firstn k t) else Text (firstn k t))
                         :: (if xn_comment ch then [Other] else [])) ++ rest') (XName q nm val) st
      = xlsx_wb_run rels rest' (XName q nm (val ++ firstn k t)) st).
    { intros rest'. destruct (xn_cdata ch), (xn_comment ch); reflexivity. }
    rewrite Hstep, IH, <- app_assoc, firstn_skipn. reflexivity.
Qed.

Lemma k_definedName_local : forall pfx, no_colon pfx = true ->
  local_name (qn pfx k_definedName) = k_definedName.
Proof. intros. apply local_name_qn; [assumption|reflexivity]. Qed.

Lemma xlsx_name_step : forall rels pfx n ch rest st,
  no_colon pfx = true -> xn_legal ch = true ->
  xlsx_wb_run rels (name_events pfx n ch ++ rest) XMain st =
  xlsx_wb_run rels rest XMain (add_name st (fst n) (snd n)).
Proof.
  intros rels pfx n ch rest st Hp Hl.
  unfold xn_legal in Hl. apply andb_true_iff in Hl. destruct Hl as [Hpre _].
  unfold name_events. rewrite <- !app_assoc. cbn [app xlsx_wb_run].
  rewrite (k_definedName_local pfx Hp).
  change (str_eqb k_definedName k_sheet) with false.
  change (str_eqb k_definedName k_workbookPr) with false.
  change (str_eqb k_definedName k_definedName) with true. cbn iota.
  rewrite (get_attribute_free a_name (xn_pre ch) _ Hpre). cbn [app get_attribute].
  change (str_eqb a_name a_name) with true. cbn iota.
  unfold name_pieces.
  etransitivity.
  { apply (name_pieces_run rels (qn pfx k_definedName) (fst n) ch (xn_cuts ch) (snd n) []
             (End (qn pfx k_definedName) :: rest) st). }
  cbn [app xlsx_wb_run]. rewrite str_eqb_refl. reflexivity.
Qed.

Lemma xlsx_names_run : forall rels pfx j names chs rest st,
  no_colon pfx = true -> forallb junk_ok_xlsx j = true ->
  forallb2 (fun (_ : str * str) ch => xn_legal ch) names chs = true ->
  xlsx_wb_run rels
    (flat_map (fun nc => j ++ name_events pfx (fst nc) (snd nc)) (combine names chs) ++ rest)
    XMain st =
  xlsx_wb_run rels rest XMain (add_names st names).
Proof.
  intros rels pfx j. induction names as [|n names IH]; intros [|ch chs] rest st Hp Hj Hl;
    cbn in Hl; try discriminate; [reflexivity|].
  apply andb_true_iff in Hl. destruct Hl as [Hl1 Hl2].
  cbn [combine flat_map add_names fst snd]. rewrite <- !app_assoc.
  rewrite (xlsx_skip rels j _ st Hj).
  rewrite (xlsx_name_step rels pfx n ch _ st Hp Hl1).
  apply IH; assumption.
Qed.

Lemma date1904_value_enc : forall extra t b, attr_free [a_date1904] extra = true ->
  date1904_value (extra ++ [(a_date1904, bool_text t b)]) = b.
Proof.
  intros extra t b H. unfold date1904_value.
  rewrite (get_attribute_free a_date1904 extra _ H). destruct t, b; reflexivity.
Qed.

Lemma has_date1904_enc : forall extra t b, attr_free [a_date1904] extra = true ->
  has_date1904 (extra ++ [(a_date1904, bool_text t b)]) = true.
Proof.
  intros extra t b H. unfold has_date1904.
  rewrite (get_attribute_free a_date1904 extra _ H). destruct t, b; reflexivity.
Qed.

Lemma local_fixed : forall pfx l, no_colon pfx = true -> no_colon l = true ->
  local_name (qn pfx l) = l.
Proof. intros. apply local_name_qn; assumption. Qed.

Lemma combine_map_fst : forall (A B : Type) (l : list A) (m : list B),
  length l = length m -> map fst (combine l m) = l.
Proof.
  induction l as [|x l IH]; intros [|y m] H; cbn in *; try discriminate; [reflexivity|].
  f_equal. apply IH. lia.
Qed.

Theorem xlsx_parse_encode : forall c wb,
  xlsx_legal c wb = true ->
  xlsx_read_workbook (rels_map (xc_rels c)) (xlsx_wb_events c wb) =
  Ok (mkParsed (wb_sheets wb) (xlsx_paths c wb) (wb_names wb) (wb_1904 wb)).
Proof.
  intros c wb Hl.
  unfold xlsx_legal in Hl.
  apply andb_true_iff in Hl. destruct Hl as [Hl Hnames].
  apply andb_true_iff in Hl. destruct Hl as [Hl Hsheets].
  apply andb_true_iff in Hl. destruct Hl as [Hl Hextra].
  apply andb_true_iff in Hl. destruct Hl as [Hl Hj].
  apply andb_true_iff in Hl. destruct Hl as [Hl Hr2].
  apply andb_true_iff in Hl. destruct Hl as [Hp Hr1].
  assert (Hrk : rid_key (xc_rpfx c) = true) by (unfold rid_key; rewrite Hr1, Hr2; reflexivity).
  set (rels := rels_map (xc_rels c)) in *. set (pfx := xc_pfx c) in *. set (j := xc_junk c) in *.
  unfold xlsx_read_workbook, xlsx_wb_events. fold pfx. fold j.
  assert (Hloc : forall l, no_colon l = true -> local_name (qn pfx l) = l)
    by (intros; apply local_name_qn; assumption).
  (* Other; Start workbook *)
  cbn [app]. rewrite (xlsx_skip1 rels Other _ parsed0 eq_refl).
  rewrite xlsx_skip1 by (cbn; rewrite (Hloc k_workbook eq_refl); reflexivity).
  rewrite (xlsx_skip rels j _ parsed0 Hj).
  (* workbookPr *)
  assert (Hpr : forall rest,
    xlsx_wb_run rels
      ((if xc_omit_pr c && negb (wb_1904 wb) then []
        else [Start (qn pfx k_workbookPr)
                    (xc_pr_extra c ++ [(a_date1904, bool_text (xc_true c) (wb_1904 wb))]);
              End (qn pfx k_workbookPr)]) ++ rest) XMain parsed0 =
    xlsx_wb_run rels rest XMain (set_1904 parsed0 (wb_1904 wb))).
  { intros rest. destruct (xc_omit_pr c && negb (wb_1904 wb)) eqn:Eo.
    - apply andb_true_iff in Eo. destruct Eo as [_ Eo]. apply negb_true_iff in Eo. rewrite Eo.
      reflexivity.
    - cbn [app xlsx_wb_run]. rewrite (Hloc k_workbookPr eq_refl).
      change (str_eqb k_workbookPr k_sheet) with false.
      change (str_eqb k_workbookPr k_workbookPr) with true. cbn iota.
      rewrite (has_date1904_enc (xc_pr_extra c) (xc_true c) (wb_1904 wb) Hextra).
      rewrite (date1904_value_enc (xc_pr_extra c) (xc_true c) (wb_1904 wb) Hextra).
      change (str_eqb k_workbookPr k_workbook) with false. reflexivity. }
  rewrite Hpr. rewrite (xlsx_skip rels j _ _ Hj).
  (* Start sheets *)
  cbn [app]. rewrite xlsx_skip1 by (cbn; rewrite (Hloc k_sheets eq_refl); reflexivity).
  (* the sheets *)
  assert (Hsh : forall rest st,
    xlsx_wb_run rels
      (flat_map (fun sc => j ++ sheet_events pfx (xc_rpfx c) (fst sc) (snd sc))
                (combine (wb_sheets wb) (xc_sheets c)) ++ rest) XMain st =
    xlsx_wb_run rels rest XMain
      (add_sheets st (map (fun sc => (fst sc, s_xl_slash ++ xs_part (snd sc)))
                          (combine (wb_sheets wb) (xc_sheets c))))).
  { intros rest st. apply xlsx_sheets_run; assumption. }
  rewrite Hsh. rewrite (xlsx_skip rels j _ _ Hj).
  cbn [app]. rewrite xlsx_skip1 by (cbn; rewrite (Hloc k_sheets eq_refl); reflexivity).
  rewrite (xlsx_skip rels j _ _ Hj).
  cbn [app]. rewrite xlsx_skip1 by (cbn; rewrite (Hloc k_definedNames eq_refl); reflexivity).
  rewrite (xlsx_names_run rels pfx j (wb_names wb) (xc_names c) _ _ Hp Hj Hnames).
  rewrite (xlsx_skip rels j _ _ Hj).
  cbn [app]. rewrite xlsx_skip1 by (cbn; rewrite (Hloc k_definedNames eq_refl); reflexivity).
  rewrite (xlsx_skip rels j _ _ Hj).
  cbn [xlsx_wb_run]. rewrite (Hloc k_workbook eq_refl).
  change (str_eqb k_workbook k_workbook) with true. cbn iota.
  rewrite add_names_eq, add_sheets_eq. cbn [p_sheets p_paths p_names p_1904 set_1904 parsed0 app].
  f_equal. f_equal.
  - rewrite map_map. cbn [fst].
    rewrite <- (map_map fst (fun x => x)), map_id.
    apply combine_map_fst. apply (forallb2_length _ _ _ _ _ Hsheets).
  - unfold xlsx_paths. rewrite map_map. reflexivity.
Qed.

(* the relationships part *)
Lemma rels_skip1 : forall e rest m, junk_ok_rels e = true ->
  xlsx_read_relationships (e :: rest) m = xlsx_read_relationships rest m.
Proof.
  intros e rest m H. destruct e as [n a|n|s|s|]; cbn [xlsx_read_relationships]; try reflexivity.
  - cbn in H. apply negb_true_iff in H. rewrite H. reflexivity.
  - cbn in H. apply negb_true_iff in H. rewrite H. reflexivity.
Qed.
Lemma rels_skip : forall j rest m, forallb junk_ok_rels j = true ->
  xlsx_read_relationships (j ++ rest) m = xlsx_read_relationships rest m.
Proof.
  induction j as [|e j IH]; intros rest m H; [reflexivity|].
  cbn in H. apply andb_true_iff in H. destruct H as [H1 H2].
  cbn [app]. rewrite (rels_skip1 e (j ++ rest) m H1). apply IH. exact H2.
Qed.

Theorem xlsx_rels_roundtrip : forall pfx junk l,
  no_colon pfx = true -> forallb junk_ok_rels junk = true ->
  xlsx_read_relationships (rels_events pfx junk l) [] = Ok (rels_map l).
Proof.
  intros pfx junk l Hp Hj. unfold rels_events, rels_map.
  assert (Hloc : forall x, no_colon x = true -> local_name (qn pfx x) = x)
    by (intros; apply local_name_qn; assumption).
  cbn [app]. rewrite (rels_skip1 Other _ [] eq_refl).
  rewrite rels_skip1 by (cbn; rewrite (Hloc k_Relationships eq_refl); reflexivity).
  assert (Hgen : forall (l : list (str * (str * str))) m rest,
    xlsx_read_relationships
      (flat_map (fun it : str * (str * str) => junk ++ [Start (qn pfx k_Relationship)
                                         [(a_Id, fst it); (a_Type, snd (snd it));
                                          (a_Target, fst (snd it))];
                                   End (qn pfx k_Relationship)]) l ++ rest) m
    = xlsx_read_relationships rest (rev (map rel_entry l) ++ m)).
  { induction l0 as [|x l0 IH]; intros m rest; [reflexivity|].
    cbn [flat_map map rev]. rewrite <- !app_assoc. rewrite (rels_skip junk _ m Hj).
    cbn [app xlsx_read_relationships]. rewrite (Hloc k_Relationship eq_refl).
    change (str_eqb k_Relationship k_Relationship) with true.
    change (str_eqb k_Relationship k_Relationships) with false. cbn iota.
    change (rel_attrs [(a_Id, fst x); (a_Type, snd (snd x)); (a_Target, fst (snd x))] [] [] None)
      with (rel_entry x).
    unfold rel_entry at 1. cbn beta iota.
    rewrite IH. unfold map_insert, rel_entry. reflexivity. }
  rewrite Hgen, app_nil_r. rewrite (rels_skip junk _ _ Hj).
  cbn [xlsx_read_relationships]. rewrite (Hloc k_Relationships eq_refl). reflexivity.
Qed.

Theorem xlsx_open_encode : forall c wb rjunk,
  xlsx_legal c wb = true -> forallb junk_ok_rels rjunk = true ->
  xlsx_open (rels_events [] rjunk (xc_rels c)) (xlsx_wb_events c wb) =
  Ok (mkParsed (wb_sheets wb) (xlsx_paths c wb) (wb_names wb) (wb_1904 wb)).
Proof.
  intros c wb rjunk Hl Hj. unfold xlsx_open.
  rewrite (xlsx_rels_roundtrip [] rjunk (xc_rels c) eq_refl Hj). cbn [obind].
  apply xlsx_parse_encode; assumption.
Qed.

(* ------------------------------------------------------------------------------------- *)
(** * ods *)

Definition dvis (d : option bool) : vis := match d with Some false => Hidden | _ => Visible end.

(* the style name after ignorable events (a style:style element of another family sets it) *)
Fixpoint junk_sn (j : list event) (sn : option str) : option str :=
  match j with
  | [] => sn
  | Start n a :: r => if str_eqb n o_style then junk_sn r (get_attribute a o_style_name)
                      else junk_sn r sn
  | _ :: r => junk_sn r sn
  end.

Lemma ods_skip : forall j rest m nm s sn, forallb junk_ok_ods j = true ->
  ods_run (j ++ rest) OMain (mkOds m nm s sn) = ods_run rest OMain (mkOds m nm s (junk_sn j sn)).
Proof.
  induction j as [|e j IH]; intros rest m nm s sn H; [reflexivity|].
  cbn in H. apply andb_true_iff in H. destruct H as [H1 H2].
  destruct e as [n a|n|t|t|]; cbn [app ods_run junk_sn]; try (apply IH; exact H2).
  cbn in H1. apply negb_true_iff in H1.
  apply orb_false_iff in H1. destruct H1 as [H1 E3].
  apply orb_false_iff in H1. destruct H1 as [E1 E2].
  cbn [od_meta od_names od_styles od_style_name].
  destruct (str_eqb n o_style).
  - apply IH. exact H2.
  - rewrite E1, E2, E3, andb_false_r. apply IH. exact H2.
Qed.

Lemma ods_end1 : forall n rest st, ods_run (End n :: rest) OMain st = ods_run rest OMain st.
Proof. reflexivity. Qed.

Lemma ods_style_step : forall x rest m nm s sn,
  ods_run (style_events x ++ rest) OMain (mkOds m nm s sn) =
  ods_run rest OMain (mkOds m nm ((Some (fst x), dvis (snd x)) :: s) (Some (fst x))).
Proof.
  intros [n d] rest m nm s sn. unfold style_events. cbn [fst snd app ods_run].
  change (str_eqb o_style o_style) with true. cbn iota.
  cbn [od_meta od_names od_styles od_style_name get_attribute].
  change (str_eqb o_style_name o_style_name) with true. cbn iota.
  change (str_eqb o_tprops o_style) with false. cbn iota.
  change (str_eqb o_tprops o_tprops) with true. cbn [andb].
  destruct d as [[|]|]; reflexivity.
Qed.

Definition conv_style (x : str * option bool) : option str * vis := (Some (fst x), dvis (snd x)).

Lemma ods_styles_run : forall j styles rest m nm s sn, forallb junk_ok_ods j = true ->
  exists sn',
  ods_run (flat_map (fun x => j ++ style_events x) styles ++ rest) OMain (mkOds m nm s sn) =
  ods_run rest OMain (mkOds m nm (rev (map conv_style styles) ++ s) sn').
Proof.
  intros j. induction styles as [|x styles IH]; intros rest m nm s sn Hj.
  - exists sn. reflexivity.
  - cbn [flat_map map rev]. rewrite <- !app_assoc.
    rewrite (ods_skip j _ m nm s sn Hj), ods_style_step.
    destruct (IH rest m nm ((Some (fst x), dvis (snd x)) :: s) (Some (fst x)) Hj) as [sn' E].
    exists sn'. rewrite E. reflexivity.
Qed.

Lemma ostyle_get_app : forall k a b,
  ostyle_get k (a ++ b) = match ostyle_get k a with Some v => Some v | None => ostyle_get k b end.
Proof.
  induction a as [|[k' v] a IH]; intros b; cbn [app ostyle_get]; [reflexivity|].
  destruct (match k, k' with Some x, Some y => str_eqb x y | None, None => true | _, _ => false end);
    [reflexivity|apply IH].
Qed.

Lemma ostyle_get_none : forall l, ostyle_get None (rev (map conv_style l)) = None.
Proof.
  induction l as [|x l IH]; [reflexivity|]. cbn [map rev]. rewrite ostyle_get_app, IH. reflexivity.
Qed.

Lemma str_eqb_sym : forall a b, str_eqb a b = str_eqb b a.
Proof.
  induction a as [|x a IH]; intros [|y b]; cbn; try reflexivity.
  rewrite (N.eqb_sym x y), IH. reflexivity.
Qed.

Lemma ostyle_get_spec : forall n l acc,
  match ostyle_get (Some n) (rev (map conv_style l)) with Some v => v | None => acc end
  = style_vis l n acc.
Proof.
  intros n. induction l as [|[k d] l IH]; intros acc; [reflexivity|].
  cbn [map rev style_vis]. rewrite ostyle_get_app. unfold conv_style at 2.
  cbn [fst snd ostyle_get]. rewrite (str_eqb_sym n k).
  destruct (str_eqb k n) eqn:E.
  - rewrite <- IH. destruct (ostyle_get (Some n) (rev (map conv_style l))); reflexivity.
  - rewrite <- IH. destruct (ostyle_get (Some n) (rev (map conv_style l))); reflexivity.
Qed.

(* the other children of a table (columns, rows …) are passed over *)
Lemma ods_content_skip : forall content rest name v st, forallb content_ok content = true ->
  ods_run (content ++ rest) (OTable name v) st = ods_run rest (OTable name v) st.
Proof.
  induction content as [|e content IH]; intros rest name v st H; [reflexivity|].
  cbn in H. apply andb_true_iff in H. destruct H as [H1 H2].
  destruct e as [n a|n|t|t|]; cbn [app ods_run]; try (apply IH; exact H2);
    cbn in H1; apply negb_true_iff in H1; rewrite H1; apply IH; exact H2.
Qed.

Lemma ods_table_end : forall rest name v st,
  ods_run (End o_table :: rest) (OTable name v) st =
  ods_run rest OMain (mkOds (od_meta st ++ [mkMeta name v WorkSheet]) (od_names st)
                            (od_styles st) (od_style_name st)).
Proof. intros. cbn [ods_run]. change (str_eqb o_table o_table) with true. reflexivity. Qed.

(* named expressions *)
Lemma nexpr_attrs_free : forall a r n f, attr_free [o_tname; o_cra; o_expr] a = true ->
  nexpr_attrs (a ++ r) n f = nexpr_attrs r n f.
Proof.
  induction a as [|[k x] a IH]; intros r n f H; [reflexivity|].
  cbn in H. apply andb_true_iff in H. destruct H as [H1 H2].
  apply negb_true_iff in H1. rewrite orb_false_r in H1.
  apply orb_false_iff in H1. destruct H1 as [E1 H1].
  apply orb_false_iff in H1. destruct H1 as [E2 E3].
  cbn [app nexpr_attrs]. rewrite E1, E2, E3. cbn [orb]. apply IH. exact H2.
Qed.

Lemma nexpr_attrs_enc : forall n ch, on_legal ch = true ->
  nexpr_attrs (on_pre ch ++
               (if on_swap ch then [(if on_expr ch then o_expr else o_cra, snd n)] ++ [(o_tname, fst n)]
                else [(o_tname, fst n)] ++ [(if on_expr ch then o_expr else o_cra, snd n)])
               ++ on_post ch) [] [] = (fst n, snd n).
Proof.
  intros n ch Hl. unfold on_legal in Hl. apply andb_true_iff in Hl. destruct Hl as [Hpre Hpost].
  rewrite (nexpr_attrs_free (on_pre ch) _ [] [] Hpre).
  assert (Hend : forall x y, nexpr_attrs (on_post ch) x y = (x, y)).
  { intros x y. rewrite <- (app_nil_r (on_post ch)), (nexpr_attrs_free (on_post ch) [] x y Hpost).
    reflexivity. }
  destruct (on_swap ch), (on_expr ch); cbn [app nexpr_attrs];
    change (str_eqb o_tname o_tname) with true;
    change (str_eqb o_expr o_tname) with false; change (str_eqb o_cra o_tname) with false;
    change (str_eqb o_expr o_cra) with false; change (str_eqb o_expr o_expr) with true;
    change (str_eqb o_cra o_cra) with true; cbn [orb]; cbn iota; rewrite Hend; reflexivity.
Qed.

Lemma ods_nexpr_step : forall n ch rest acc ret st, on_legal ch = true ->
  ods_run (nexpr_events n ch ++ rest) (ONames acc ret) st = ods_run rest (ONames (acc ++ [n]) ret) st.
Proof.
  intros n ch rest acc ret st Hl. pose proof (nexpr_attrs_enc n ch Hl) as Ha.
  unfold nexpr_events. cbv zeta.
  set (el := if on_expr ch then o_nexpr else o_nrange).
  set (attrs := on_pre ch ++ _) in *.
  assert (Hel : str_eqb el o_nrange || str_eqb el o_nexpr = true)
    by (unfold el; destruct (on_expr ch); reflexivity).
  change ([Start el attrs; End el] ++ rest) with (Start el attrs :: End el :: rest).
  cbn [ods_run]. rewrite Hel, Ha. destruct n; reflexivity.
Qed.

Lemma ods_njunk_skip : forall nj rest acc ret st, forallb names_junk_ok nj = true ->
  ods_run (nj ++ rest) (ONames acc ret) st = ods_run rest (ONames acc ret) st.
Proof.
  induction nj as [|e nj IH]; intros rest acc ret st H; [reflexivity|].
  cbn in H. apply andb_true_iff in H. destruct H as [H1 H2].
  destruct e; try discriminate; cbn [app ods_run]; apply IH; exact H2.
Qed.

Lemma ods_names_run : forall nj names chs rest acc ret st,
  forallb names_junk_ok nj = true ->
  forallb2 (fun (_ : str * str) ch => on_legal ch) names chs = true ->
  ods_run (flat_map (fun nc => nexpr_events (fst nc) (snd nc) ++ nj) (combine names chs) ++ rest)
          (ONames acc ret) st =
  ods_run rest (ONames (acc ++ names) ret) st.
Proof.
  intros nj. induction names as [|n names IH]; intros [|ch chs] rest acc ret st Hj Hl; cbn in Hl;
    try discriminate.
  - rewrite app_nil_r. reflexivity.
  - apply andb_true_iff in Hl. destruct Hl as [Hl1 Hl2].
    cbn [combine flat_map fst snd]. rewrite <- !app_assoc.
    rewrite (ods_nexpr_step n ch _ acc ret st Hl1), (ods_njunk_skip nj _ _ ret st Hj).
    rewrite IH by assumption. rewrite <- app_assoc. reflexivity.
Qed.

(* the inside of a table:named-expressions element, from just after its start tag: the names are
   appended to defined_names and the reader is back where it was called from *)
Lemma ods_nexprs_body : forall nj names chs rest ret st,
  forallb names_junk_ok nj = true ->
  forallb2 (fun (_ : str * str) ch => on_legal ch) names chs = true ->
  ods_run (nj ++ flat_map (fun nc => nexpr_events (fst nc) (snd nc) ++ nj) (combine names chs)
              ++ End o_nexprs :: rest) (ONames [] ret) st =
  ods_run rest (match ret with Some (name, v) => OTable name v | None => OMain end)
          (mkOds (od_meta st) (od_names st ++ names) (od_styles st) (od_style_name st)).
Proof.
  intros nj names chs rest ret st Hj Hl.
  rewrite (ods_njunk_skip nj _ _ ret st Hj).
  rewrite (ods_names_run nj names chs _ [] ret st Hj Hl).
  cbn [app ods_run].
  change (str_eqb o_nexprs o_nrange) with false. change (str_eqb o_nexprs o_nexpr) with false.
  cbn [orb]. cbn iota. change (str_eqb o_nexprs o_nexprs) with true. cbn iota. reflexivity.
Qed.

(* the named-expressions element of a table *)
Lemma ods_local_nexprs_run : forall names chs nj omit rest name v st,
  forallb names_junk_ok nj = true ->
  forallb2 (fun (_ : str * str) ch => on_legal ch) names chs = true ->
  ods_run (nexprs_events names chs nj omit ++ rest) (OTable name v) st =
  ods_run rest (OTable name v)
          (mkOds (od_meta st) (od_names st ++ names) (od_styles st) (od_style_name st)).
Proof.
  intros names chs nj omit rest name v st Hj Hl. unfold nexprs_events.
  destruct (omit && match names with [] => true | _ => false end) eqn:Eo.
  - apply andb_true_iff in Eo. destruct Eo as [_ Eo]. destruct names; [|discriminate].
    cbn [app]. rewrite app_nil_r. destruct st; reflexivity.
  - rewrite <- !app_assoc. cbn [app ods_run].
    change (str_eqb o_nexprs o_nexprs) with true. cbn iota.
    rewrite (ods_nexprs_body nj names chs rest (Some (name, v)) st Hj Hl). reflexivity.
Qed.


Lemma get_attribute_absent : forall k a, attr_free [k] a = true -> get_attribute a k = None.
Proof.
  intros k a H. rewrite <- (app_nil_r a). rewrite (get_attribute_free k a [] H). reflexivity.
Qed.

(* one table:table element *)
Lemma ods_table_step : forall styles s ch rest m nm sn,
  os_legal styles s ch = true ->
  ods_run (table_events s ch ++ rest) OMain
          (mkOds m nm (rev (map conv_style styles)) sn) =
  ods_run rest OMain (mkOds (m ++ [fst s]) (nm ++ snd s) (rev (map conv_style styles)) sn).
Proof.
  intros styles [s lnames] ch rest m nm sn Hl. unfold os_legal in Hl. cbn [fst snd] in *.
  apply andb_true_iff in Hl. destruct Hl as [Hl Hafter].
  apply andb_true_iff in Hl. destruct Hl as [Hl Hlj].
  apply andb_true_iff in Hl. destruct Hl as [Hl Hln].
  apply andb_true_iff in Hl. destruct Hl as [Hl Hcont].
  apply andb_true_iff in Hl. destruct Hl as [Hl Hpost].
  apply andb_true_iff in Hl. destruct Hl as [Hl Hpre].
  apply andb_true_iff in Hl. destruct Hl as [Hl Hvis].
  apply andb_true_iff in Hl. destruct Hl as [Hkind Hv].
  assert (Pn : attr_free [o_tname] (os_pre ch) = true)
    by (apply (attr_free_weaken o_tname _ _ Hpre); reflexivity).
  assert (Ps : attr_free [o_tstyle] (os_pre ch) = true)
    by (apply (attr_free_weaken o_tstyle _ _ Hpre); reflexivity).
  assert (Qn : attr_free [o_tname] (os_post ch) = true)
    by (apply (attr_free_weaken o_tname _ _ Hpost); reflexivity).
  assert (Qs : attr_free [o_tstyle] (os_post ch) = true)
    by (apply (attr_free_weaken o_tstyle _ _ Hpost); reflexivity).
  assert (Hv' : match ostyle_get (os_style ch) (rev (map conv_style styles)) with
                | Some v => v | None => Visible end = m_vis s).
  { destruct (os_style ch) as [n|].
    - rewrite ostyle_get_spec. destruct (m_vis s), (style_vis styles n Visible);
        try discriminate; reflexivity.
    - rewrite ostyle_get_none. destruct (m_vis s); try discriminate; reflexivity. }
  assert (Hgo : forall a,
    get_attribute a o_tstyle = os_style ch -> get_attribute a o_tname = Some (m_name s) ->
    ods_run (Start o_table a :: os_content ch
               ++ nexprs_events lnames (os_lnames ch) (os_lnames_junk ch) (os_omit_lnames ch)
               ++ os_after ch ++ End o_table :: rest) OMain
            (mkOds m nm (rev (map conv_style styles)) sn) =
    ods_run rest OMain (mkOds (m ++ [s]) (nm ++ lnames) (rev (map conv_style styles)) sn)).
  { intros a Ha1 Ha2. cbn [ods_run].
    change (str_eqb o_table o_style) with false. cbn iota.
    change (str_eqb o_table o_tprops) with false. rewrite andb_false_r. cbn iota.
    change (str_eqb o_table o_table) with true. cbn iota.
    cbn [od_meta od_names od_styles od_style_name]. rewrite Ha1, Ha2, Hv'.
    rewrite (ods_content_skip (os_content ch) _ (m_name s) (m_vis s) _ Hcont).
    rewrite (ods_local_nexprs_run lnames (os_lnames ch) (os_lnames_junk ch) (os_omit_lnames ch) _
               (m_name s) (m_vis s) _ Hlj Hln).
    rewrite (ods_content_skip (os_after ch) _ (m_name s) (m_vis s) _ Hafter).
    rewrite ods_table_end.
    cbn [od_meta od_names od_styles od_style_name].
    destruct s as [a0 b k]. cbn [m_name m_vis m_kind] in *. destruct k; try discriminate.
    reflexivity. }
  unfold table_events. cbn [fst snd]. rewrite <- !app_assoc. cbn [app].
  apply Hgo.
  - rewrite (get_attribute_free o_tstyle (os_pre ch) _ Ps).
    destruct (os_swap ch), (os_style ch); cbn [app get_attribute];
      change (str_eqb o_tstyle o_tstyle) with true;
      change (str_eqb o_tname o_tstyle) with false; cbn iota;
      try reflexivity; apply (get_attribute_absent o_tstyle _ Qs).
  - rewrite (get_attribute_free o_tname (os_pre ch) _ Pn).
    destruct (os_swap ch), (os_style ch); reflexivity.
Qed.

Lemma ods_tables_run : forall styles j sheets chs rest m nm sn,
  forallb junk_ok_ods j = true -> forallb2 (os_legal styles) sheets chs = true ->
  exists sn',
  ods_run (flat_map (fun sc => j ++ table_events (fst sc) (snd sc)) (combine sheets chs) ++ rest)
          OMain (mkOds m nm (rev (map conv_style styles)) sn) =
  ods_run rest OMain (mkOds (m ++ map fst sheets) (nm ++ flat_map snd sheets)
                            (rev (map conv_style styles)) sn').
Proof.
  intros styles j. induction sheets as [|s sheets IH]; intros [|ch chs] rest m nm sn Hj Hl;
    cbn in Hl; try discriminate.
  - exists sn. cbn [map flat_map]. rewrite !app_nil_r. reflexivity.
  - apply andb_true_iff in Hl. destruct Hl as [Hl1 Hl2].
    cbn [combine flat_map fst snd map]. rewrite <- !app_assoc.
    rewrite (ods_skip j _ m nm _ sn Hj), (ods_table_step styles s ch _ m nm _ Hl1).
    destruct (IH chs rest (m ++ [fst s]) (nm ++ snd s) (junk_sn j sn) Hj Hl2) as [sn' E].
    exists sn'. rewrite E, <- !app_assoc. reflexivity.
Qed.

(* the global table:named-expressions element *)
Lemma ods_global_nexprs_run : forall names chs nj omit rest m nm s sn,
  forallb names_junk_ok nj = true ->
  forallb2 (fun (_ : str * str) ch => on_legal ch) names chs = true ->
  ods_run (nexprs_events names chs nj omit ++ rest) OMain (mkOds m nm s sn) =
  ods_run rest OMain (mkOds m (nm ++ names) s sn).
Proof.
  intros names chs nj omit rest m nm s sn Hj Hl. unfold nexprs_events.
  destruct (omit && match names with [] => true | _ => false end) eqn:Eo.
  - apply andb_true_iff in Eo. destruct Eo as [_ Eo]. destruct names; [|discriminate].
    cbn [app]. rewrite app_nil_r. reflexivity.
  - rewrite <- !app_assoc. cbn [app ods_run].
    change (str_eqb o_nexprs o_style) with false. cbn iota.
    change (str_eqb o_nexprs o_tprops) with false. rewrite andb_false_r. cbn iota.
    change (str_eqb o_nexprs o_table) with false. cbn iota.
    change (str_eqb o_nexprs o_nexprs) with true. cbn iota.
    rewrite (ods_nexprs_body nj names chs rest None _ Hj Hl). reflexivity.
Qed.

Theorem ods_parse_encode : forall c wb,
  ods_legal c wb = true ->
  ods_parse_content (ods_events c wb) = Ok (mkParsed (ow_metas wb) [] (ow_all_names wb) false).
Proof.
  intros c wb Hl. unfold ods_legal in Hl.
  apply andb_true_iff in Hl. destruct Hl as [Hl Hnj].
  apply andb_true_iff in Hl. destruct Hl as [Hl Hnames].
  apply andb_true_iff in Hl. destruct Hl as [Hj Hsheets].
  unfold ods_parse_content, ods_events. set (j := oc_junk c) in *.
  unfold ods_state0. cbn [app].
  change (ods_run (Other :: ?r) OMain ?st) with (ods_run r OMain st).
  assert (Hstart : forall n a r m nm s sn,
            str_eqb n o_style = false -> str_eqb n o_tprops = false ->
            str_eqb n o_table = false -> str_eqb n o_nexprs = false ->
            ods_run (Start n a :: r) OMain (mkOds m nm s sn) = ods_run r OMain (mkOds m nm s sn)).
  { intros n a r m nm s sn E0 E1 E2 E3. cbn [ods_run od_style_name]. rewrite E0, E1, E2, E3.
    rewrite andb_false_r. reflexivity. }
  rewrite Hstart by reflexivity.
  rewrite (ods_skip j _ [] [] [] None Hj). cbn [app].
  rewrite Hstart by reflexivity.
  match goal with
  | |- context [ods_run (flat_map (fun x => j ++ style_events x) (oc_styles c) ++ ?rest) OMain
                        (mkOds ?m ?nm ?s ?sn)] =>
    destruct (ods_styles_run j (oc_styles c) rest m nm s sn Hj) as [sn1 E1]; rewrite E1; clear E1
  end.
  rewrite app_nil_r.
  rewrite (ods_skip j _ _ _ _ sn1 Hj). cbn [app]. rewrite ods_end1.
  rewrite Hstart by reflexivity. rewrite Hstart by reflexivity.
  match goal with
  | |- context [ods_run (flat_map (fun sc => j ++ table_events (fst sc) (snd sc)) ?l ++ ?rest) OMain
                        (mkOds ?m ?nm ?s ?sn)] =>
    destruct (ods_tables_run (oc_styles c) j (ow_sheets wb) (oc_sheets c) rest m nm sn Hj Hsheets)
      as [sn2 E2]; rewrite E2; clear E2
  end.
  cbn [app].
  rewrite (ods_skip j _ _ _ _ sn2 Hj).
  rewrite (ods_global_nexprs_run (ow_names wb) (oc_names c) (oc_names_junk c) (oc_omit_names c)
             _ _ _ _ _ Hnj Hnames).
  rewrite (ods_skip j _ _ _ _ _ Hj). reflexivity.
Qed.

(* ------------------------------------------------------------------------------------- *)
(** * the date-system flag: every DateTime cell of every sheet carries the flag the workbook
      part was parsed to (the cell functions are C10's plumbing models) *)

Lemma f64_ref_flag : forall bits fmt f b dur g,
  NumFmt.format_excel_f64_ref bits fmt f = NumFmt.DDateTime b dur g -> g = f.
Proof.
  intros bits fmt f b dur g H. unfold NumFmt.format_excel_f64_ref in H.
  destruct fmt as [[| |]|]; inversion H; reflexivity.
Qed.
Lemma i64_flag : forall z fmt f b dur g,
  NumFmt.format_excel_i64 z fmt f = NumFmt.DDateTime b dur g -> g = f.
Proof.
  intros z fmt f b dur g H. unfold NumFmt.format_excel_i64 in H.
  destruct fmt as [[| |]|]; inversion H; reflexivity.
Qed.

Theorem date_flag_cells_xlsx : forall p formats cells b dur g,
  In (NumFmt.DDateTime b dur g) (xlsx_sheet_values p formats cells) -> g = p_1904 p.
Proof.
  intros p formats cells b dur g H. unfold xlsx_sheet_values in H.
  apply in_map_iff in H. destruct H as [c [H _]].
  unfold NumFmt.xlsx_cell_number in H. exact (f64_ref_flag _ _ _ _ _ _ H).
Qed.

Theorem date_flag_cells_xls : forall p formats cells b dur g,
  In (NumFmt.DDateTime b dur g) (xls_sheet_values p formats cells) -> g = p_1904 p.
Proof.
  intros p formats cells b dur g H. unfold xls_sheet_values in H.
  apply in_map_iff in H. destruct H as [c [H _]].
  unfold NumFmt.xls_cell_number in H. destruct (snd c).
  - exact (f64_ref_flag _ _ _ _ _ _ H).
  - exact (i64_flag _ _ _ _ _ _ H).
Qed.

Theorem date_flag_cells_xlsb : forall p formats cells b dur g,
  In (NumFmt.DDateTime b dur g) (xlsb_sheet_values p formats cells) -> g = p_1904 p.
Proof.
  intros p formats cells b dur g H. unfold xlsb_sheet_values in H.
  apply in_map_iff in H. destruct H as [c [H _]].
  unfold NumFmt.xlsb_cell_number in H. destruct (snd c).
  - exact (f64_ref_flag _ _ _ _ _ _ H).
  - destruct (nth_error formats (N.to_nat (fst c))) as [[| |]|]; inversion H; reflexivity.
Qed.

(* composed with the workbook part: xlsx *)
Theorem date_flag_reaches_cells_xlsx : forall c wb rjunk,
  xlsx_legal c wb = true -> forallb junk_ok_rels rjunk = true ->
  exists p, xlsx_open (rels_events [] rjunk (xc_rels c)) (xlsx_wb_events c wb) = Ok p /\
    forall formats cells b dur g,
      In (NumFmt.DDateTime b dur g) (xlsx_sheet_values p formats cells) -> g = wb_1904 wb.
Proof.
  intros c wb rjunk Hl Hj. eexists. split; [apply xlsx_open_encode; assumption|].
  intros formats cells b dur g H. apply date_flag_cells_xlsx in H. exact H.
Qed.

(* ------------------------------------------------------------------------------------- *)
(** * the visibility / kind tables are injective on the values each format defines *)
Lemma vis_text_injective : forall a b, vis_text a = vis_text b -> a = b.
Proof. intros [] [] H; try reflexivity; vm_compute in H; discriminate. Qed.
Lemma kind_dir_injective : forall a b, kind_dir a = kind_dir b -> a = b.
Proof. intros [] [] H; try reflexivity; vm_compute in H; discriminate. Qed.
Lemma xls_vis_code_injective : forall a b, xls_vis_code a = xls_vis_code b -> a = b.
Proof. intros [] [] H; try reflexivity; discriminate. Qed.
Lemma xlsb_vis_code_injective : forall a b, xlsb_vis_code a = xlsb_vis_code b -> a = b.
Proof. intros [] [] H; try reflexivity; discriminate. Qed.
Lemma xls_kind_code_injective : forall a b, xls_kind_ok a = true -> xls_kind_ok b = true ->
  xls_kind_code a = xls_kind_code b -> a = b.
Proof. intros [] [] Ha Hb H; try reflexivity; discriminate. Qed.

(* non-vacuity: concrete workbooks and choices satisfy the hypotheses *)
Definition ex_xlsx_wb : workbook str :=
  mkWb [mkMeta [97; 38; 60] Hidden WorkSheet; mkMeta [128512] VeryHidden ChartSheet;
        mkMeta [228] Visible MacroSheet]
       [([110], [65; 49; 60; 66]); ([109], [])] true.
Definition ex_xlsx_c : xlsx_choice :=
  mkXc [120] a_relationships
       (* parts: xl/chartsheets/1 is the WORKSHEET, xl/ws/a the chart sheet, xl/3 the macro sheet *)
       [([98], ([119; 115; 47; 97], t_cs_strict)); ([99], (s_slash_xl_slash ++ [51], t_xlim));
        ([120], ([116], ns_rel));
        ([97], (s_xl_slash ++ d_chartsheets ++ SLASH :: [49], t_ws))]
       [mkXs [97] 2 (d_chartsheets ++ SLASH :: [49]) 3 false [([115], [49])] [] false;
        mkXs [98] 0 [119; 115; 47; 97] 5 true [] [] true;
        mkXs [99] 1 [51] 1 true [] [([115], [50])] true]
       [mkXn [1%nat; 1%nat] false true [] []; mkXn [] true false [] []]
       false true []
       (* the ignorable content includes what Excel 2013+ writes into the extension list: an
          element x15:workbookPr without date1904 (before 4b4b5ee it reset the flag) *)
       [Other; Text [10];
        Start ([120; 49; 53; 58] ++ k_workbookPr) [([99], [49])];
        End ([120; 49; 53; 58] ++ k_workbookPr)].
Lemma xlsx_nonvacuous :
  xlsx_legal ex_xlsx_c ex_xlsx_wb = true /\
  xlsx_open (rels_events [] [] (xc_rels ex_xlsx_c)) (xlsx_wb_events ex_xlsx_c ex_xlsx_wb) =
  Ok (mkParsed (wb_sheets ex_xlsx_wb) (xlsx_paths ex_xlsx_c ex_xlsx_wb) (wb_names ex_xlsx_wb) true).
Proof. vm_compute. repeat split. Qed.

(* three sheets; the first (hidden) has two names of its own, written LibreOffice's way as the
   first child of the table, the third has one, written where the schema puts it (last child,
   after the rows); the second has none and no element; two global names *)
Definition ex_ods_wb : ods_workbook :=
  mkOwb [(mkMeta [97; 38] Hidden WorkSheet, [([108; 49], [36; 66; 50]); ([110], [91; 46; 67; 51; 93])]);
         (mkMeta [128512] Visible WorkSheet, []);
         (mkMeta [98] Visible WorkSheet, [([108; 51], [36; 65; 49])])]
        [([110], [36; 65]); ([109], [91; 46; 65; 49; 93])].
Definition ex_ods_c : ods_choice :=
  mkOc [([116; 49], Some true); ([116; 50], Some false); ([116; 51], None)]
       [mkOs (Some [116; 50]) [] [] true [] [mkOn false false [] []; mkOn true true [] []] [Text [10; 32]] false
             [Start [114] []; End [114]];
        mkOs (Some [116; 51]) [([120], [49])] [] false [] [] [] true [];
        mkOs None [] [] false [Text [10]; Start [114] []; End [114]; Text [10]] [mkOn false true [] []] [] true [Text [10]]]
       [mkOn false true [] []; mkOn true false [] []]
       [Other; Start o_style [(o_style_name, [99])]; End o_style] [] false.
Lemma ods_nonvacuous :
  ods_legal ex_ods_c ex_ods_wb = true /\
  ods_parse_content (ods_events ex_ods_c ex_ods_wb) =
  Ok (mkParsed (ow_metas ex_ods_wb) [] (ow_all_names ex_ods_wb) false) /\
  ow_all_names ex_ods_wb = [([108; 49], [36; 66; 50]); ([110], [91; 46; 67; 51; 93]); ([108; 51], [36; 65; 49]);
                            ([110], [36; 65]); ([109], [91; 46; 65; 49; 93])].
Proof. vm_compute. repeat split. Qed.

(* ------------------------------------------------------------------------------------- *)
(** * projections of the parse-encode theorems, in the shape of the property text *)
Theorem sheets_in_order_xlsx : forall c wb rjunk,
  xlsx_legal c wb = true -> forallb junk_ok_rels rjunk = true ->
  exists p, xlsx_open (rels_events [] rjunk (xc_rels c)) (xlsx_wb_events c wb) = Ok p /\
            p_sheets p = wb_sheets wb /\ p_paths p = xlsx_paths c wb.
Proof.
  intros c wb rjunk Hl Hj. eexists. split; [exact (xlsx_open_encode c wb rjunk Hl Hj)|].
  split; reflexivity.
Qed.
Theorem sheets_in_order_ods : forall c wb,
  ods_legal c wb = true ->
  exists p, ods_parse_content (ods_events c wb) = Ok p /\ p_sheets p = ow_metas wb.
Proof.
  intros c wb Hl. eexists. split; [exact (ods_parse_encode c wb Hl)|reflexivity].
Qed.
Theorem defined_names_in_order_xlsx : forall c wb rjunk,
  xlsx_legal c wb = true -> forallb junk_ok_rels rjunk = true ->
  exists p, xlsx_open (rels_events [] rjunk (xc_rels c)) (xlsx_wb_events c wb) = Ok p /\
            p_names p = wb_names wb.
Proof.
  intros c wb rjunk Hl Hj. eexists. split; [exact (xlsx_open_encode c wb rjunk Hl Hj)|].
  reflexivity.
Qed.
Theorem defined_names_in_order_ods : forall c wb,
  ods_legal c wb = true ->
  exists p, ods_parse_content (ods_events c wb) = Ok p /\ p_names p = ow_all_names wb.
Proof.
  intros c wb Hl. eexists. split; [exact (ods_parse_encode c wb Hl)|reflexivity].
Qed.
Theorem tables_injective :
  (forall a b, vis_text a = vis_text b -> a = b) /\
  (forall a b, kind_dir a = kind_dir b -> a = b) /\
  (forall a b, xls_vis_code a = xls_vis_code b -> a = b) /\
  (forall a b, xlsb_vis_code a = xlsb_vis_code b -> a = b) /\
  (forall a b, xls_kind_ok a = true -> xls_kind_ok b = true ->
               xls_kind_code a = xls_kind_code b -> a = b).
Proof.
  exact (conj vis_text_injective (conj kind_dir_injective (conj xls_vis_code_injective
        (conj xlsb_vis_code_injective xls_kind_code_injective)))).
Qed.
