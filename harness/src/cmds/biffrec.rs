// C02: RK decoding, BIFF8 cell records, record framing (hooks) and whole generated files
// (public API), printed in exactly the format of ocaml/cmd_biffrec.ml.
//   biffrec rk    <hex 6 bytes> <fmts> <1904>
//   biffrec cell  <typ> <hex body> <fmts> <1904> <strings>
//   biffrec fval  <hex>
//   biffrec dims  <hex>
//   biffrec recs  <hex stream>          (only for streams without a framing error: the real
//                                        iterator repeats its error item forever)
//   biffrec file  <path> <sheet name as hex utf8>     Xls::new + worksheet_range
// fmts: one digit per XF (0 Other, 1 DateTime, 2 TimeDelta), "-" for none;
// strings: "-" or comma-separated tokens "s<hex utf8>".
use crate::util::*;
use calamine::{Data, Range, Reader, Xls};
use std::io::Cursor;

fn fmts(s: &str) -> Vec<u8> {
    if s == "-" {
        Vec::new()
    } else {
        s.bytes().map(|b| b - b'0').collect()
    }
}
fn strings(s: &str) -> Vec<String> {
    if s == "-" {
        Vec::new()
    } else {
        s.split(',')
            .map(|t| String::from_utf8_lossy(&unhex(&t[1..])).into_owned())
            .collect()
    }
}
fn hexarg(s: &str) -> Vec<u8> {
    if s == "-" {
        Vec::new()
    } else {
        unhex(s)
    }
}

pub fn range_sparse(r: &Range<Data>) -> String {
    match (r.start(), r.end()) {
        (Some(s), Some(e)) => {
            let used: Vec<String> = r
                .used_cells()
                .map(|(i, j, v)| format!("{}:{}:{}", i, j, data_str(v)))
                .collect();
            format!(
                "R[{},{},{},{}|{},{}|{}]",
                s.0,
                s.1,
                e.0,
                e.1,
                r.height(),
                r.width(),
                used.join(",")
            )
        }
        _ => "R[-]".to_string(),
    }
}

#[cfg(calamine_verif)]
pub fn run(args: &[&str]) -> String {
    use calamine::verif_hooks::xls as h;
    match args[0] {
        "rk" => data_str(&h::rk_num(&hexarg(args[1]), &fmts(args[2]), args[3] == "1")),
        "cell" => {
            let typ: u16 = args[1].parse().unwrap();
            match h::parse_cell_record(
                typ,
                &hexarg(args[2]),
                &fmts(args[3]),
                args[4] == "1",
                &strings(args[5]),
            ) {
                Ok(cells) => format!(
                    "ok:{}",
                    cells
                        .iter()
                        .map(|((r, c), d)| format!("{},{}={}", r, c, data_str(d)))
                        .collect::<Vec<_>>()
                        .join(";")
                ),
                Err(_) => "err".to_string(),
            }
        }
        "fval" => match h::parse_formula_value(&hexarg(args[1])) {
            Ok(None) => "ok:-".to_string(),
            Ok(Some(d)) => format!("ok:{}", data_str(&d)),
            Err(_) => "err".to_string(),
        },
        "dims" => match h::parse_dimensions(&hexarg(args[1])) {
            Ok((s, e)) => format!("ok:{},{},{},{}", s.0, s.1, e.0, e.1),
            Err(_) => "err".to_string(),
        },
        "recs" => {
            let mut out = Vec::new();
            for r in h::records(&hexarg(args[1])) {
                match r {
                    Ok((t, d, c)) => out.push(format!(
                        "{}:{}:{}",
                        t,
                        hex(&d),
                        match c {
                            None => "-".to_string(),
                            Some(cs) => format!(
                                "c{}",
                                cs.iter().map(|x| hex(x)).collect::<Vec<_>>().join("|")
                            ),
                        }
                    )),
                    Err(_) => return "err".to_string(),
                }
            }
            format!("ok:{}", out.join(";"))
        }
        "file" => file(args),
        _ => "bad-args".to_string(),
    }
}

#[cfg(not(calamine_verif))]
pub fn run(args: &[&str]) -> String {
    match args[0] {
        "file" => file(args),
        _ => "hooks-unavailable".to_string(),
    }
}

fn file(args: &[&str]) -> String {
    let bytes = match std::fs::read(args[1]) {
        Ok(b) => b,
        Err(_) => return "nofile".to_string(),
    };
    let name = String::from_utf8_lossy(&unhex(args[2])).into_owned();
    let mut wb: Xls<_> = match Xls::new(Cursor::new(bytes)) {
        Ok(w) => w,
        Err(_) => return "err".to_string(),
    };
    match wb.worksheet_range(&name) {
        Ok(r) => range_sparse(&r),
        Err(_) => "rangeerr".to_string(),
    }
}
