"""xlsbgen — writer of real .xlsb packages (zip of binary record parts) for the C03 checks, and
an independent Python reading of property C03 (what every cell must read back as).

Reuses tools/biffgen_c10.py for the minimal record writer (`brec`) and XLWideString (`wide`).

Data model (plain dicts / tuples; mirrors the Coq encoder XlsbRec.encode_sheet, but written
independently — the check compares the two byte for byte):

  fr      (w, k)             w: record id in its two-byte form; k: continuation bytes of the length
  raw     {"fr", "id", "body"}
  item    {"fr", "k": "row",  "row", "tail"}
          {"fr", "k": "cell", "col", "style", "fl", "v": val, "tail"}
          {"fr", "k": "short", "style", "fl", "v": val, "tail"}     a short cell record (BrtShortBlank ..
                     BrtShortIsst, ids 12..18: no column field; the cell stands in the column right
                     after the previous cell record of its row); val one of blank .. isst
          {"fr", "k": "other", "id", "body"}
  val     ("blank",) ("rk","i",v,x100) ("rk","f",hi30,x100) ("err",code) ("bool",b) ("real",bits)
          ("st",text) ("isst",i) ("fst",text) ("fnum",bits) ("fbool",b) ("ferr",code)
  layout  {"pre1": [hrec], "dim": None | {"fr","d":(r0,c0,r1,c1),"tail"},   (BrtWsDim is optional)
           "pre2": [hrec],      hrec = ("R", raw) | ("B", raw, [raw], (fr, body))
           "begin": (fr, body), "items": [item], "end": (fr, body), "trailer": bytes}
  env     {"fmts": [0|1|2 per XF], "xf_ids": [numFmtId per XF], "customs": [(id, code)],
           "d1904": bool, "strings": [text]}

API: frame, min_fr, enc_layout, layout_text, sst_part, sst_text, styles_part, workbook_part,
write_package, expected_cells, rk_word.
"""
import io, struct, zipfile
from biffgen_c10 import brec, wide
import xlsbstyles

ERR_CODES = [0x00, 0x07, 0x0F, 0x17, 0x1D, 0x24, 0x2A, 0x2B]      # cerr order of RK.v
ERR_CANON = {0x00: 3, 0x07: 0, 0x0F: 6, 0x17: 5, 0x1D: 2, 0x24: 4, 0x2A: 1, 0x2B: 7}   # util.rs err_code
BLOCK_END = {0x85: 0x86, 0x25: 0x26, 0x186: 0x187}
# record ids the CELLTABLE grammar gives a meaning of its own: BrtRowHdr, the cell records 1..11, the
# short cell records 12..18, BrtCellRString 62, BrtEndSheetData; everything else may be written as
# an "other" record (Coq: XlsbRec.cell_table_id)
CELL_TABLE_IDS = set(range(0, 19)) | set([0x3E, 0x92])
INTERPRETED = CELL_TABLE_IDS
SHORTABLE = ("blank", "rk", "err", "bool", "real", "st", "isst")

def hx(b):
    return bytes(b).hex() if len(b) else "-"

# ------------------------------------------------------------------ framing
def enc_id(w, rid):
    return bytes([(rid & 0x7F) | 0x80, rid >> 7]) if w else bytes([rid])

def enc_len(k, n):
    out = []
    for _ in range(k):
        out.append((n & 0x7F) | 0x80)
        n >>= 7
    out.append(n)
    return bytes(out)

def frame(fr, rid, body):
    return enc_id(fr[0], rid) + enc_len(fr[1], len(body)) + bytes(body)

def min_fr(rid, body):
    n = len(body)
    return (rid >= 128, 0 if n < 128 else 1 if n < 16384 else 2 if n < 2097152 else 3)

def fr_ok(fr, rid, body):
    return rid < 16384 and (fr[0] or rid < 128) and fr[1] <= 3 and len(body) < 128 ** (fr[1] + 1)

def rand_fr(rng, rid, body, p_odd=0.25):
    """a legal framing form: mostly the minimal one, sometimes a wide id / padded length"""
    w, k = min_fr(rid, body)
    if rng.random() < p_odd:
        w = True
    if rng.random() < p_odd:
        k = rng.randrange(k, 4)
    return (w, k)

# ------------------------------------------------------------------ cells
def rk_word(form):
    if form[0] == "i":
        return ((form[1] & 0x3FFFFFFF) << 2) | 2 | (1 if form[2] else 0)
    return (form[1] << 2) | (1 if form[2] else 0)

def val_id(v):
    return {"blank": 1, "rk": 2, "err": 3, "bool": 4, "real": 5, "st": 6, "isst": 7, "fst": 8,
            "fnum": 9, "fbool": 10, "ferr": 11}[v[0]]

def val_bytes(v):
    k = v[0]
    if k == "blank":
        return b""
    if k == "rk":
        return struct.pack("<I", rk_word(v[1:]))
    if k in ("err", "ferr"):
        return bytes([v[1]])
    if k in ("bool", "fbool"):
        return bytes([1 if v[1] else 0])
    if k in ("real", "fnum"):
        return struct.pack("<Q", v[1])
    if k in ("st", "fst"):
        return wide(v[1])
    if k == "isst":
        return struct.pack("<I", v[1])
    raise ValueError(k)

def item_id(it):
    if it["k"] == "short":
        assert it["v"][0] in SHORTABLE
        return val_id(it["v"]) + 11
    return 0 if it["k"] == "row" else val_id(it["v"]) if it["k"] == "cell" else it["id"]

def item_body(it):
    if it["k"] == "row":
        return struct.pack("<I", it["row"]) + it["tail"]
    if it["k"] == "cell":
        return (struct.pack("<I", it["col"]) + struct.pack("<I", it["style"])[:3] + bytes([it["fl"]]) +
                val_bytes(it["v"]) + it["tail"])
    if it["k"] == "short":
        return struct.pack("<I", it["style"])[:3] + bytes([it["fl"]]) + val_bytes(it["v"]) + it["tail"]
    return it["body"]

def enc_raw(r):
    return frame(r["fr"], r["id"], r["body"])

def enc_hrec(h):
    if h[0] == "R":
        return enc_raw(h[1])
    return (enc_raw(h[1]) + b"".join(enc_raw(r) for r in h[2]) +
            frame(h[3][0], BLOCK_END[h[1]["id"]], h[3][1]))

def enc_layout(L):
    out = b"".join(enc_hrec(h) for h in L["pre1"])
    if L["dim"] is not None:
        r0, c0, r1, c1 = L["dim"]["d"]
        out += frame(L["dim"]["fr"], 0x94, struct.pack("<IIII", r0, r1, c0, c1) + L["dim"]["tail"])
    out += b"".join(enc_hrec(h) for h in L["pre2"])
    out += frame(L["begin"][0], 0x91, L["begin"][1])
    for it in L["items"]:
        out += frame(it["fr"], item_id(it), item_body(it))
    out += frame(L["end"][0], 0x92, L["end"][1])
    return out + L["trailer"]

# ---- the text form understood by `xlsbrec enc` (ocaml/cmd_xlsbrec.ml)
def _fr(fr):
    return "%d,%d" % (1 if fr[0] else 0, fr[1])

def _raw(r):
    return "%s,%d,%s" % (_fr(r["fr"]), r["id"], hx(r["body"]))

def _text(s):
    return s.encode("utf-8").hex() or "-"

def val_text(v):
    k = v[0]
    if k == "blank":
        return "blank"
    if k == "rk":
        return "rk:%s:%d:%d" % (v[1], v[2], 1 if v[3] else 0)
    if k in ("err", "ferr"):
        return "%s:%d" % (k, ERR_CODES.index(v[1]))
    if k in ("bool", "fbool"):
        return "%s:%d" % (k, 1 if v[1] else 0)
    if k in ("real", "fnum", "isst"):
        return "%s:%d" % (k, v[1])
    return "%s:%s" % (k, _text(v[1]))

def item_text(it):
    if it["k"] == "row":
        return "%s,R,%d,%s" % (_fr(it["fr"]), it["row"], hx(it["tail"]))
    if it["k"] == "cell":
        return "%s,C,%d,%d,%d,%s,%s" % (_fr(it["fr"]), it["col"], it["style"], it["fl"],
                                       val_text(it["v"]), hx(it["tail"]))
    if it["k"] == "short":
        return "%s,S,%d,%d,%s,%s" % (_fr(it["fr"]), it["style"], it["fl"], val_text(it["v"]), hx(it["tail"]))
    return "%s,O,%d,%s" % (_fr(it["fr"]), it["id"], hx(it["body"]))

def hrec_text(h):
    if h[0] == "R":
        return "R:" + _raw(h[1])
    return "B:%s/%s/%s,%s" % (_raw(h[1]), "~".join(_raw(r) for r in h[2]) or "-", _fr(h[3][0]), hx(h[3][1]))

def layout_text(L):
    p1 = ";".join(hrec_text(h) for h in L["pre1"]) or "-"
    if L["dim"] is None:
        dim = "-"
    else:
        dim = "%s,%d,%d,%d,%d,%s" % ((_fr(L["dim"]["fr"]),) + tuple(L["dim"]["d"]) + (hx(L["dim"]["tail"]),))
    p2 = [hrec_text(h) for h in L["pre2"]]
    items = ";".join(item_text(it) for it in L["items"]) or "-"
    return "|".join([p1, dim, ";".join(p2) or "-", "%s,%s" % (_fr(L["begin"][0]), hx(L["begin"][1])),
                     items, "%s,%s" % (_fr(L["end"][0]), hx(L["end"][1])), hx(L["trailer"])])

# ------------------------------------------------------------------ other parts
def sst_part(total, items, trailer=b""):
    """items: [(fr, text, tail)]; BrtBeginSst in the fixed form (two-byte id, one length byte)"""
    out = frame((True, 0), 0x9F, struct.pack("<II", total, len(items)))
    for fr, text, tail in items:
        out += frame(fr, 0x13, b"\x00" + wide(text) + tail)
    return out + trailer

def sst_text(items):
    return ";".join("%s,%s,%s" % (_fr(fr), _text(t), hx(tail)) for fr, t, tail in items) or "-"

def styles_part(xf_ids, customs):
    """xl/styles.bin in Excel's shape: FMTS, FONTS, FILLS, BORDERS, CELLSTYLEXFS, CELLXFS, STYLES ...;
    font / fill / border colours carry the byte pairs E9 04 / E7 04 (tools/xlsbstyles.py)"""
    return xlsbstyles.default_part(list(customs), list(xf_ids))

def workbook_part(names, is_1904):
    wb = brec(0x0083) + brec(0x0099, struct.pack("<II", 1 if is_1904 else 0, 0) + wide("")) + brec(0x008F)
    for i, n in enumerate(names):
        wb += brec(0x009C, struct.pack("<II", 0, i + 1) + wide("rId%d" % (i + 1)) + wide(n))
    return wb + brec(0x0090) + brec(0x009D, struct.pack("<IdB", 0, 0.001, 0)) + brec(0x0084)

CT = ('<?xml version="1.0" encoding="UTF-8" standalone="yes"?>'
      '<Types xmlns="http://schemas.openxmlformats.org/package/2006/content-types">'
      '<Default Extension="bin" ContentType="application/vnd.ms-excel.sheet.binary.macroEnabled.main"/>'
      '<Default Extension="rels" ContentType="application/vnd.openxmlformats-package.relationships+xml"/>'
      '</Types>')
ROOT_RELS = ('<?xml version="1.0" encoding="UTF-8" standalone="yes"?>'
             '<Relationships xmlns="http://schemas.openxmlformats.org/package/2006/relationships">'
             '<Relationship Id="rId1" Type="http://schemas.openxmlformats.org/officeDocument/2006/relationships/officeDocument" Target="xl/workbook.bin"/>'
             '</Relationships>')

def package_bytes(sheets, env, sst=None, compress=True):
    """sheets: [(name, part bytes)]; sst: bytes of xl/sharedStrings.bin or None (part absent)"""
    rels = ['<?xml version="1.0" encoding="UTF-8" standalone="yes"?>'
            '<Relationships xmlns="http://schemas.openxmlformats.org/package/2006/relationships">']
    for i in range(len(sheets)):
        rels.append('<Relationship Id="rId%d" Type="http://schemas.openxmlformats.org/officeDocument/2006/'
                    'relationships/worksheet" Target="worksheets/sheet%d.bin"/>' % (i + 1, i + 1))
    n = len(sheets)
    rels.append('<Relationship Id="rId%d" Type="http://schemas.openxmlformats.org/officeDocument/2006/'
                'relationships/styles" Target="styles.bin"/>' % (n + 1))
    if sst is not None:
        rels.append('<Relationship Id="rId%d" Type="http://schemas.openxmlformats.org/officeDocument/2006/'
                    'relationships/sharedStrings" Target="sharedStrings.bin"/>' % (n + 2))
    rels.append('</Relationships>')
    bio = io.BytesIO()
    with zipfile.ZipFile(bio, "w", zipfile.ZIP_DEFLATED if compress else zipfile.ZIP_STORED) as z:
        z.writestr("[Content_Types].xml", CT)
        z.writestr("_rels/.rels", ROOT_RELS)
        z.writestr("xl/workbook.bin", workbook_part([s[0] for s in sheets], env["d1904"]))
        z.writestr("xl/_rels/workbook.bin.rels", "".join(rels))
        z.writestr("xl/styles.bin", styles_part(env["xf_ids"], env["customs"]))
        if sst is not None:
            z.writestr("xl/sharedStrings.bin", sst)
        for i, (_, part) in enumerate(sheets):
            z.writestr("xl/worksheets/sheet%d.bin" % (i + 1), part)
    return bio.getvalue()

def write_package(path, sheets, env, sst=None, compress=True):
    with open(path, "wb") as f:
        f.write(package_bytes(sheets, env, sst, compress))

# ------------------------------------------------------------------ the property, read independently
def f64_bits(x):
    return struct.unpack("<Q", struct.pack("<d", x))[0]

def bits_f64(b):
    return struct.unpack("<d", struct.pack("<Q", b))[0]

def wrap_num(kind, payload, fmt, d1904):
    """canonical text of a number under a cell format (0 other, 1 date-time, 2 duration)"""
    if fmt in (1, 2):
        bits = payload if kind == "F" else f64_bits(float(payload))
        return "D%d:%d:%d" % (bits, 1 if fmt == 2 else 0, 1 if d1904 else 0)
    return "%s%d" % (kind, payload)

def rk_value(form, fmt, d1904):
    """MS-XLSB RkNumber: 30-bit integer or the high 30 bits of a double, optionally / 100"""
    if form[0] == "i":
        v = form[1]
        if form[2]:
            return wrap_num("F", f64_bits(float(v) / 100.0), fmt, d1904)
        return wrap_num("I", v, fmt, d1904)
    bits = form[1] << 34
    if form[2]:
        bits = f64_bits(bits_f64(bits) / 100.0)
    return wrap_num("F", bits, fmt, d1904)

def cell_value(v, style, env):
    """(ref-level text, data-level text) or None for a blank"""
    fmt = env["fmts"][style] if style < len(env["fmts"]) else 0
    k = v[0]
    if k == "blank":
        return None
    if k == "rk":
        t = rk_value(v[1:], fmt, env["d1904"])
    elif k in ("err", "ferr"):
        t = "X%d" % ERR_CANON[v[1]]
    elif k in ("bool", "fbool"):
        t = "B%d" % (1 if v[1] else 0)
    elif k in ("real", "fnum"):
        t = wrap_num("F", v[1], fmt, env["d1904"])
    elif k in ("st", "fst"):
        t = "S" + v[1].encode("utf-8").hex()
    else:
        s = env["strings"][v[1]].encode("utf-8").hex()
        return ("H" + s, "S" + s)
    return (t, t)

def expected_cells(L, env):
    """{(row, col): (ref text, data text)}: the value of every non-blank cell under the current
    row header; a short cell record stands in the column right after the previous cell record of
    its row (a blank one counts), whatever other records lie between; a later record at the same
    position replaces an earlier one"""
    out, row, prev = {}, 0, None
    for it in L["items"]:
        if it["k"] == "row":
            row, prev = it["row"], None
        elif it["k"] in ("cell", "short"):
            if it["k"] == "short":
                if prev is None:
                    continue                       # no position: not a legal layout
                col = prev + 1
            else:
                col = it["col"]
            prev = col
            cv = cell_value(it["v"], it["style"], env)
            if cv is not None:
                out[(row, col)] = cv
    return out
