(* Col26_proofs — lemmas and theorems about Col26.v (column letters, decimal text, A1 names). *)
From Calamine Require Import Prelude Col26.
Open Scope N_scope.
Set Implicit Arguments.

(* ------------------------------------------------------------------ generic arithmetic *)
Lemma size_bound : forall n, n + 1 < 2 ^ N.of_nat (S (N.to_nat (N.size n))).
Proof.
  intros n. rewrite Nat2N.inj_succ, N2Nat.id, N.pow_succ_r'.
  pose proof (N.size_gt n). lia.
Qed.

Lemma pow2_pos : forall k, 0 < 2 ^ k.
Proof. intros k. apply N.neq_0_lt_0. apply N.pow_nonzero. lia. Qed.

(* ------------------------------------------------------------------ letters: fuel irrelevance *)
Lemma letters_fuel_irrel : forall f1 f2 c,
  c + 1 < 2 ^ N.of_nat f1 -> c + 1 < 2 ^ N.of_nat f2 ->
  letters_fuel f1 c = letters_fuel f2 c.
Proof.
  induction f1 as [|f1 IH]; intros f2 c H1 H2.
  - cbn in H1. lia.
  - destruct f2 as [|f2]; [cbn in H2; lia|].
    cbn [letters_fuel]. destruct (c <? 26) eqn:E; [reflexivity|].
    apply N.ltb_ge in E.
    rewrite Nat2N.inj_succ, N.pow_succ_r' in H1, H2.
    f_equal. apply IH; lia.
Qed.

Lemma letters_eq : forall c,
  letters c = if c <? 26 then [ch_A + c] else letters (c / 26 - 1) ++ [ch_A + c mod 26].
Proof.
  intros c. unfold letters at 1. cbn [letters_fuel].
  destruct (c <? 26) eqn:E; [reflexivity|]. apply N.ltb_ge in E.
  f_equal. unfold letters. apply letters_fuel_irrel.
  - pose proof (size_bound c) as H. rewrite Nat2N.inj_succ, N.pow_succ_r' in H. lia.
  - apply size_bound.
Qed.

(* strong induction on N packaged for the div-26 recursion *)
Lemma letters_ind : forall (P : N -> Prop),
  (forall c, c < 26 -> P c) ->
  (forall c, 26 <= c -> P (c / 26 - 1) -> P c) ->
  forall c, P c.
Proof.
  intros P Hb Hs c. induction c as [c IH] using (well_founded_induction N.lt_wf_0).
  destruct (N.lt_ge_cases c 26) as [H|H]; [apply Hb; exact H|].
  apply Hs; [exact H|]. apply IH. lia.
Qed.

Lemma col1_app : forall a x, col1_of_letters (a ++ [x]) = col1_of_letters a * 26 + letter_val x.
Proof. intros a x. unfold col1_of_letters. rewrite fold_left_app. reflexivity. Qed.

Theorem col1_of_letters_letters : forall c, col1_of_letters (letters c) = c + 1.
Proof.
  apply letters_ind; intros c Hc.
  - rewrite letters_eq. apply N.ltb_lt in Hc. rewrite Hc.
    unfold col1_of_letters, letter_val, ch_A. cbn [fold_left]. lia.
  - intros IH. rewrite letters_eq. apply N.ltb_ge in Hc as Hc'. rewrite Hc'.
    rewrite col1_app, IH. unfold letter_val, ch_A. lia.
Qed.

Theorem col_of_letters_letters : forall c, col_of_letters (letters c) = c.
Proof. intros c. unfold col_of_letters. rewrite col1_of_letters_letters. lia. Qed.

Theorem letters_injective : forall c d, letters c = letters d -> c = d.
Proof.
  intros c d H. rewrite <- (col_of_letters_letters c), <- (col_of_letters_letters d), H.
  reflexivity.
Qed.

Lemma letters_upper : forall c, Forall (fun x => is_upper x = true) (letters c).
Proof.
  apply letters_ind; intros c Hc.
  - rewrite letters_eq. apply N.ltb_lt in Hc as Hc'. rewrite Hc'. constructor; [|constructor].
    unfold is_upper, ch_A, ch_Z. lia.
  - intros IH. rewrite letters_eq. apply N.ltb_ge in Hc as Hc'. rewrite Hc'.
    apply Forall_app. split; [exact IH|]. constructor; [|constructor].
    unfold is_upper, ch_A, ch_Z. lia.
Qed.

Lemma letters_nonempty : forall c, letters c <> [].
Proof.
  intros c. rewrite letters_eq. destruct (c <? 26); [discriminate|].
  intros H. apply app_eq_nil in H. destruct H as [_ H]. discriminate.
Qed.

(* c < 26^k gives at most k letters (k >= 1); not tight, enough for the overflow bounds *)
Lemma letters_length_le : forall k c, c < 26 ^ N.of_nat (S k) -> (length (letters c) <= S k)%nat.
Proof.
  induction k as [|k IH]; intros c Hc.
  - change (26 ^ N.of_nat 1) with 26 in Hc. rewrite letters_eq.
    apply N.ltb_lt in Hc. rewrite Hc. cbn. lia.
  - rewrite letters_eq. destruct (c <? 26) eqn:E; [cbn; lia|]. apply N.ltb_ge in E.
    rewrite app_length. cbn [length].
    rewrite Nat2N.inj_succ, N.pow_succ_r' in Hc.
    assert (c / 26 - 1 < 26 ^ N.of_nat (S k)) by lia.
    specialize (IH _ H). lia.
Qed.

(* examples pinning the spec to the spreadsheet convention *)
Example letters_examples :
  letters 0 = [65] /\ letters 25 = [90] /\ letters 26 = [65; 65] /\ letters 701 = [90; 90] /\
  letters 702 = [65; 65; 65] /\ letters 255 = [73; 86] /\ letters 16383 = [88; 70; 68].
Proof. vm_compute. repeat split. Qed.

(* ------------------------------------------------------------------ push_column *)
Lemma push_column_loop_letters : forall f col revd,
  col < 26 ^ N.of_nat f ->
  push_column_loop (S f) col revd = Ok (letters col ++ revd).
Proof.
  induction f as [|f IH]; intros col revd H.
  - change (26 ^ N.of_nat 0) with 1 in H. assert (col = 0) by lia. subst. reflexivity.
  - cbn [push_column_loop]. rewrite letters_eq. destruct (col <? 26) eqn:E.
    + apply N.ltb_lt in E. rewrite N.mod_small by exact E. reflexivity.
    + apply N.ltb_ge in E. rewrite Nat2N.inj_succ, N.pow_succ_r' in H.
      change (push_column_loop (S f) (col / 26 - 1) ((ch_A + col mod 26) :: revd) =
              Ok ((letters (col / 26 - 1) ++ [ch_A + col mod 26]) ++ revd)).
      rewrite IH by lia. rewrite <- app_assoc. reflexivity.
Qed.

Theorem push_column_is_letters : forall col buf, col < 2 ^ 32 ->
  push_column col buf = Ok (buf ++ letters col).
Proof.
  intros col buf H. unfold push_column, push_column_fuel.
  change 8%nat with (S 7). rewrite push_column_loop_letters.
  - cbn [obind]. rewrite app_nil_r. reflexivity.
  - change (26 ^ N.of_nat 7) with 8031810176. change (2 ^ 32) with 4294967296 in H. lia.
Qed.

(* ------------------------------------------------------------------ decimal text *)
Lemma dec_fuel_irrel : forall f1 f2 n,
  n + 1 < 2 ^ N.of_nat f1 -> n + 1 < 2 ^ N.of_nat f2 -> dec_fuel f1 n = dec_fuel f2 n.
Proof.
  induction f1 as [|f1 IH]; intros f2 n H1 H2.
  - cbn in H1. lia.
  - destruct f2 as [|f2]; [cbn in H2; lia|].
    cbn [dec_fuel]. destruct (n <? 10) eqn:E; [reflexivity|]. apply N.ltb_ge in E.
    rewrite Nat2N.inj_succ, N.pow_succ_r' in H1, H2.
    f_equal. apply IH; lia.
Qed.

Lemma dec_eq : forall n,
  dec n = if n <? 10 then [ch_0 + n] else dec (n / 10) ++ [ch_0 + n mod 10].
Proof.
  intros n. unfold dec at 1. cbn [dec_fuel].
  destruct (n <? 10) eqn:E; [reflexivity|]. apply N.ltb_ge in E.
  f_equal. unfold dec. apply dec_fuel_irrel.
  - pose proof (size_bound n) as H. rewrite Nat2N.inj_succ, N.pow_succ_r' in H. lia.
  - apply size_bound.
Qed.

Lemma dec_ind : forall (P : N -> Prop),
  (forall n, n < 10 -> P n) -> (forall n, 10 <= n -> P (n / 10) -> P n) -> forall n, P n.
Proof.
  intros P Hb Hs n. induction n as [n IH] using (well_founded_induction N.lt_wf_0).
  destruct (N.lt_ge_cases n 10) as [H|H]; [apply Hb; exact H|].
  apply Hs; [exact H|]. apply IH. lia.
Qed.

Lemma undec_app : forall a x, undec (a ++ [x]) = undec a * 10 + (x - ch_0).
Proof. intros a x. unfold undec. rewrite fold_left_app. reflexivity. Qed.

Theorem undec_dec : forall n, undec (dec n) = n.
Proof.
  apply dec_ind; intros n Hn.
  - rewrite dec_eq. apply N.ltb_lt in Hn as Hn'. rewrite Hn'. unfold undec, ch_0. cbn [fold_left]. lia.
  - intros IH. rewrite dec_eq. apply N.ltb_ge in Hn as Hn'. rewrite Hn'.
    rewrite undec_app, IH. unfold ch_0. lia.
Qed.

Theorem dec_injective : forall n m, dec n = dec m -> n = m.
Proof. intros n m H. rewrite <- (undec_dec n), <- (undec_dec m), H. reflexivity. Qed.

Lemma dec_digits : forall n, Forall (fun x => is_digit x = true) (dec n).
Proof.
  apply dec_ind; intros n Hn.
  - rewrite dec_eq. apply N.ltb_lt in Hn as Hn'. rewrite Hn'. constructor; [|constructor].
    unfold is_digit, ch_0, ch_9. lia.
  - intros IH. rewrite dec_eq. apply N.ltb_ge in Hn as Hn'. rewrite Hn'.
    apply Forall_app. split; [exact IH|]. constructor; [|constructor].
    unfold is_digit, ch_0, ch_9. lia.
Qed.

Lemma dec_nonempty : forall n, dec n <> [].
Proof.
  intros n. rewrite dec_eq. destruct (n <? 10); [discriminate|].
  intros H. apply app_eq_nil in H. destruct H as [_ H]. discriminate.
Qed.

(* number of digits: n < 10^(k+1) gives at most k+1 digits; n >= 10^k gives at least k+1 *)
Lemma dec_length_le : forall k n, n < 10 ^ N.of_nat (S k) -> (length (dec n) <= S k)%nat.
Proof.
  induction k as [|k IH]; intros n Hn.
  - change (10 ^ N.of_nat 1) with 10 in Hn. rewrite dec_eq.
    apply N.ltb_lt in Hn. rewrite Hn. cbn. lia.
  - rewrite dec_eq. destruct (n <? 10) eqn:E; [cbn; lia|]. apply N.ltb_ge in E.
    rewrite app_length. cbn [length].
    rewrite Nat2N.inj_succ, N.pow_succ_r' in Hn.
    assert (n / 10 < 10 ^ N.of_nat (S k)) by lia.
    specialize (IH _ H). lia.
Qed.

Lemma dec_length_ge : forall k n, 10 ^ N.of_nat k <= n -> (S k <= length (dec n))%nat.
Proof.
  induction k as [|k IH]; intros n Hn.
  - pose proof (dec_nonempty n). destruct (dec n); [congruence|cbn; lia].
  - rewrite Nat2N.inj_succ, N.pow_succ_r' in Hn.
    assert (0 < 10 ^ N.of_nat k) by (apply N.neq_0_lt_0, N.pow_nonzero; lia).
    rewrite dec_eq. destruct (n <? 10) eqn:E; [apply N.ltb_lt in E; lia|].
    rewrite app_length. cbn [length].
    assert (10 ^ N.of_nat k <= n / 10) by lia.
    specialize (IH _ H0). lia.
Qed.

Example dec_examples : dec 0 = [48] /\ dec 7 = [55] /\ dec 10 = [49; 48] /\
  dec 1048576 = [49; 48; 52; 56; 53; 55; 54] /\ undec [52; 50] = 42.
Proof. vm_compute. repeat split. Qed.

(* ------------------------------------------------------------------ push_cell_ref *)
Lemma col_field_bits : forall c rr cr, c < 16384 ->
  N.land (col_field c rr cr) 16383 = c /\
  bit14 (col_field c rr cr) = cr /\ bit15 (col_field c rr cr) = rr.
Proof.
  intros c rr cr Hc. unfold col_field, bit14, bit15.
  change 16383 with (N.ones 14). rewrite N.land_ones.
  change 16384 with (2 ^ 14). change 32768 with (2 ^ 15).
  rewrite !N.testbit_eqb. change (2 ^ 14) with 16384. change (2 ^ 15) with 32768.
  destruct rr, cr; repeat split; try (cbn [negb]; lia).
  all: try (apply N.eqb_eq || apply N.eqb_neq); try lia.
  all: match goal with |- (?x =? ?y) = ?b => destruct (x =? y) eqn:E; try reflexivity;
         (apply N.eqb_eq in E || apply N.eqb_neq in E); lia end.
Qed.

Theorem push_cell_ref_spec : forall r c rr cr buf,
  c < 16384 -> r < 2 ^ 32 ->
  push_cell_ref r (col_field c rr cr) buf = Ok (buf ++ a1_ref r c rr cr).
Proof.
  intros r c rr cr buf Hc Hr. unfold push_cell_ref, a1_ref.
  destruct (col_field_bits rr cr Hc) as (Hl & H14 & H15). rewrite Hl, H14, H15.
  rewrite push_column_is_letters by (change (2 ^ 32) with 4294967296; lia).
  cbn [obind]. destruct cr, rr; cbn [app]; rewrite <- ?app_assoc; reflexivity.
Qed.

(* ------------------------------------------------------------------ xlsx column_number_to_name *)
Lemma cn2n_loop_S : forall f num col,
  cn2n_loop (S f) num col =
  if 0 <? num then cn2n_loop f ((num - 1) / 26) (((num - 1) mod 26 + 65) :: col) else Ok col.
Proof. reflexivity. Qed.

Lemma cn2n_loop_letters : forall f num col,
  0 < num -> num < 26 ^ N.of_nat f ->
  cn2n_loop (S f) num col = Ok (letters (num - 1) ++ col).
Proof.
  induction f as [|f IH]; intros num col H0 H.
  - change (26 ^ N.of_nat 0) with 1 in H. lia.
  - rewrite cn2n_loop_S. apply N.ltb_lt in H0 as H0'. rewrite H0'.
    rewrite Nat2N.inj_succ, N.pow_succ_r' in H.
    rewrite (letters_eq (num - 1)). destruct (num - 1 <? 26) eqn:E.
    + apply N.ltb_lt in E. rewrite (N.div_small (num - 1) 26) by exact E.
      rewrite (N.mod_small (num - 1) 26) by exact E.
      rewrite cn2n_loop_S. change (0 <? 0) with false. cbn iota.
      cbn [app]. unfold ch_A. do 2 f_equal. lia.
    + apply N.ltb_ge in E.
      rewrite IH by lia. rewrite <- app_assoc. cbn [app]. unfold ch_A.
      do 3 f_equal. lia.
Qed.

Theorem column_number_to_name_is_letters : forall c, c < 16384 ->
  column_number_to_name c = Ok (letters c).
Proof.
  intros c Hc. unfold column_number_to_name, MAX_COLUMNS.
  destruct (16384 <=? c) eqn:E; [apply N.leb_le in E; lia|].
  change 8%nat with (S 7). rewrite cn2n_loop_letters.
  - rewrite app_nil_r. f_equal. f_equal. lia.
  - lia.
  - change (26 ^ N.of_nat 7) with 8031810176. lia.
Qed.

Theorem column_number_to_name_overflow : forall c, 16384 <= c ->
  column_number_to_name c = Err E_COLUMN_OVERFLOW.
Proof.
  intros c Hc. unfold column_number_to_name, MAX_COLUMNS.
  apply N.leb_le in Hc. rewrite Hc. reflexivity.
Qed.

(* the two renderers agree on every column Excel has *)
Theorem push_column_eq_column_number_to_name : forall c, c < 16384 ->
  push_column c [] = column_number_to_name c.
Proof.
  intros c Hc. rewrite push_column_is_letters by (change (2 ^ 32) with 4294967296; lia).
  rewrite column_number_to_name_is_letters by exact Hc. reflexivity.
Qed.

Theorem coordinate_to_name_spec : forall r c, c < 16384 -> r < 4294967295 ->
  coordinate_to_name (r, c) = Ok (a1_name r c).
Proof.
  intros r c Hc Hr. unfold coordinate_to_name, a1_name. cbn [fst snd].
  rewrite column_number_to_name_is_letters by exact Hc. cbn [obind].
  unfold add32, U32MAX. destruct (r + 1 <=? 4294967295) eqn:E; [reflexivity|].
  apply N.leb_gt in E. lia.
Qed.

(* ------------------------------------------------------------------ the right-to-left scanner *)
Lemma upper_not_digit : forall x, is_upper x = true -> is_digit x = false.
Proof. intros x. unfold is_upper, is_digit, ch_A, ch_Z, ch_0, ch_9. lia. Qed.
Lemma lower_not_digit : forall x, is_lower x = true -> is_digit x = false.
Proof. intros x. unfold is_lower, is_digit, ch_a, ch_z, ch_0, ch_9. lia. Qed.
Lemma lower_not_upper : forall x, is_lower x = true -> is_upper x = false.
Proof. intros x. unfold is_lower, is_upper, ch_a, ch_z, ch_A, ch_Z. lia. Qed.

Lemma pow10_pos : forall k, 0 < 10 ^ k.
Proof. intros k. apply N.neq_0_lt_0, N.pow_nonzero. lia. Qed.
Lemma pow26_pos : forall k, 0 < 26 ^ k.
Proof. intros k. apply N.neq_0_lt_0, N.pow_nonzero. lia. Qed.

Lemma sat64_small : forall x, x <= U32MAX -> sat64 x = x.
Proof. intros x H. unfold sat64, U64MAX. unfold U32MAX in H. apply N.min_l. lia. Qed.

Lemma mk_state_eq : forall a b c d a' b' c' d',
  a = a' -> b = b' -> c = c' -> d = d' ->
  {| s_row := a; s_col := b; s_pow := c; s_readrow := d |} =
  {| s_row := a'; s_col := b'; s_pow := c'; s_readrow := d' |}.
Proof. intros; subst; reflexivity. Qed.

(* digits, scanned right to left while [readrow] holds *)
Lemma scan_digits : forall ds row col pow rest,
  Forall (fun x => is_digit x = true) ds ->
  pow * 10 ^ N.of_nat (length ds) <= U32MAX ->
  row + undec ds * pow <= U32MAX ->
  scan_loop (rev ds ++ rest) {| s_row := row; s_col := col; s_pow := pow; s_readrow := true |} =
  scan_loop rest {| s_row := row + undec ds * pow; s_col := col;
                    s_pow := pow * 10 ^ N.of_nat (length ds); s_readrow := true |}.
Proof.
  induction ds as [|d ds IH] using rev_ind; intros row col pow rest HF Hp Hr.
  - cbn [rev app length]. f_equal. apply mk_state_eq; try reflexivity.
    + unfold undec. cbn. lia.
    + cbn. lia.
  - apply Forall_app in HF. destruct HF as [HF Hd]. inversion Hd as [|? ? Hd' _]; subst.
    rewrite rev_app_distr. cbn [rev app]. cbn [scan_loop].
    rewrite app_length in Hp. cbn [length] in Hp.
    replace (length ds + 1)%nat with (S (length ds)) in Hp by lia.
    rewrite Nat2N.inj_succ, N.pow_succ_r' in Hp.
    rewrite undec_app in Hr.
    pose proof (pow10_pos (N.of_nat (length ds))) as Hpp.
    assert (Hd9 : d - ch_0 <= 9) by (unfold is_digit, ch_0, ch_9 in *; lia).
    unfold scan_char. rewrite Hd'. cbn [s_readrow s_pow s_row s_col].
    rewrite (@sat64_small ((d - ch_0) * pow)) by nia.
    rewrite (@sat64_small (row + (d - ch_0) * pow)) by nia.
    rewrite (@sat64_small (pow * 10)) by nia.
    cbn [obind].
    rewrite IH; [| exact HF | nia | nia].
    f_equal. apply mk_state_eq; try reflexivity.
    + rewrite undec_app. lia.
    + rewrite app_length. cbn [length].
      replace (length ds + 1)%nat with (S (length ds)) by lia.
      rewrite Nat2N.inj_succ, N.pow_succ_r'. lia.
Qed.

(* letters, scanned right to left once [readrow] is false *)
Lemma scan_letters : forall ls row col pow rest,
  Forall (fun x => is_upper x = true) ls ->
  pow * 26 ^ N.of_nat (length ls) <= U32MAX ->
  col + col1_of_letters ls * pow <= U32MAX ->
  scan_loop (rev ls ++ rest) {| s_row := row; s_col := col; s_pow := pow; s_readrow := false |} =
  scan_loop rest {| s_row := row; s_col := col + col1_of_letters ls * pow;
                    s_pow := pow * 26 ^ N.of_nat (length ls); s_readrow := false |}.
Proof.
  induction ls as [|d ls IH] using rev_ind; intros row col pow rest HF Hp Hr.
  - cbn [rev app length]. f_equal. apply mk_state_eq; try reflexivity.
    + unfold col1_of_letters. cbn. lia.
    + cbn. lia.
  - apply Forall_app in HF. destruct HF as [HF Hd]. inversion Hd as [|? ? Hd' _]; subst.
    rewrite rev_app_distr. cbn [rev app]. cbn [scan_loop].
    rewrite app_length in Hp. cbn [length] in Hp.
    replace (length ls + 1)%nat with (S (length ls)) in Hp by lia.
    rewrite Nat2N.inj_succ, N.pow_succ_r' in Hp.
    rewrite col1_app in Hr.
    pose proof (pow26_pos (N.of_nat (length ls))) as Hpp.
    assert (Hd26 : letter_val d <= 26 /\ 1 <= letter_val d)
      by (unfold letter_val, is_upper, ch_A, ch_Z in *; lia).
    unfold scan_char. rewrite (upper_not_digit _ Hd'), Hd'.
    unfold scan_letter. cbn [s_readrow s_pow s_row s_col obind].
    change (d - ch_A + 1) with (letter_val d).
    rewrite (@sat64_small (letter_val d * pow)) by nia.
    rewrite (@sat64_small (col + letter_val d * pow)) by nia.
    rewrite (@sat64_small (pow * 26)) by nia.
    cbn [obind].
    rewrite IH; [| exact HF | nia | nia].
    f_equal. apply mk_state_eq; try reflexivity.
    + rewrite col1_app. lia.
    + rewrite app_length. cbn [length].
      replace (length ls + 1)%nat with (S (length ls)) by lia.
      rewrite Nat2N.inj_succ, N.pow_succ_r'. lia.
Qed.

(* the first letter met while [readrow] still holds resets pow to 1 (row must be non-zero) *)
Lemma scan_first_letter : forall d row col pow,
  is_upper d = true -> row <> 0 ->
  scan_char d {| s_row := row; s_col := col; s_pow := pow; s_readrow := true |} =
  scan_char d {| s_row := row; s_col := col; s_pow := 1; s_readrow := false |}.
Proof.
  intros d row col pow Hd Hrow. unfold scan_char. rewrite (upper_not_digit _ Hd), Hd.
  unfold scan_letter. cbn [s_readrow s_row s_col s_pow].
  apply N.eqb_neq in Hrow. rewrite Hrow. reflexivity.
Qed.

(* letters followed by digits: the general positive result *)
Theorem scan_a1 : forall ls ds,
  Forall (fun x => is_upper x = true) ls -> Forall (fun x => is_digit x = true) ds ->
  (length ds <= 9)%nat -> (length ls <= 6)%nat ->
  undec ds <> 0 -> col1_of_letters ls <= U32MAX ->
  get_row_and_optional_column (ls ++ ds) =
    Ok (undec ds - 1, if col1_of_letters ls =? 0 then None else Some (col1_of_letters ls - 1)).
Proof.
  intros ls ds HL HD Hnd Hnl Hrow Hcol.
  unfold get_row_and_optional_column. rewrite rev_app_distr.
  assert (Hp10 : 10 ^ N.of_nat (length ds) <= 1000000000).
  { change 1000000000 with (10 ^ N.of_nat 9). apply N.pow_le_mono_r; lia. }
  assert (Hund : undec ds < 10 ^ N.of_nat (length ds)).
  { clear - HD. induction ds as [|d ds IH] using rev_ind; [cbn; lia|].
    apply Forall_app in HD. destruct HD as [HD Hd]. inversion Hd as [|? ? Hd' _]; subst.
    rewrite undec_app, app_length. cbn [length].
    replace (length ds + 1)%nat with (S (length ds)) by lia.
    rewrite Nat2N.inj_succ, N.pow_succ_r'. specialize (IH HD).
    unfold is_digit, ch_0, ch_9 in Hd'. unfold ch_0. lia. }
  unfold scan_init. rewrite scan_digits; [| exact HD | unfold U32MAX; lia | unfold U32MAX; lia].
  replace (0 + undec ds * 1) with (undec ds) by lia.
  destruct ls as [|l0 ls0] using rev_ind.
  - cbn [rev scan_loop obind s_row s_col].
    apply N.eqb_neq in Hrow. rewrite Hrow.
    destruct (U32MAX <? undec ds - 1) eqn:ER; [apply N.ltb_lt in ER; unfold U32MAX in ER; lia|].
    reflexivity.
  - clear IHls0. rewrite rev_app_distr. cbn [rev app scan_loop].
    apply Forall_app in HL as HL'. destruct HL' as [HL0 Hl0].
    inversion Hl0 as [|? ? Hl0' _]; subst.
    rewrite scan_first_letter by assumption.
    change (do s' <- scan_char l0 {| s_row := undec ds; s_col := 0; s_pow := 1; s_readrow := false |};
            scan_loop (rev ls0) s')
      with (scan_loop (rev (ls0 ++ [l0])) {| s_row := undec ds; s_col := 0; s_pow := 1; s_readrow := false |})
      || (rewrite <- (app_nil_r (rev ls0))).
    assert (Hp26 : 26 ^ N.of_nat (length (ls0 ++ [l0])) <= 308915776).
    { change 308915776 with (26 ^ N.of_nat 6). apply N.pow_le_mono_r; lia. }
    pose proof (@scan_letters (ls0 ++ [l0]) (undec ds) 0 1 [] HL) as HS.
    rewrite app_nil_r in HS. rewrite rev_app_distr in HS. cbn [rev app scan_loop] in HS.
    rewrite app_nil_r in *.
    rewrite HS; [| unfold U32MAX; lia | lia].
    cbn [scan_loop obind s_row s_col].
    apply N.eqb_neq in Hrow. rewrite Hrow.
    replace (0 + col1_of_letters (ls0 ++ [l0]) * 1) with (col1_of_letters (ls0 ++ [l0])) by lia.
    destruct (U32MAX <? undec ds - 1) eqn:ER; [apply N.ltb_lt in ER; unfold U32MAX in ER; lia|].
    destruct (negb (col1_of_letters (ls0 ++ [l0]) =? 0) && (U32MAX <? col1_of_letters (ls0 ++ [l0]) - 1)) eqn:EC.
    { apply andb_prop in EC. destruct EC as [_ EC]. apply N.ltb_lt in EC. lia. }
    reflexivity.
Qed.

Lemma undec_lt : forall ds, Forall (fun x => is_digit x = true) ds ->
  undec ds < 10 ^ N.of_nat (length ds).
Proof.
  induction ds as [|d ds IH] using rev_ind; intros HD; [cbn; lia|].
  apply Forall_app in HD. destruct HD as [HD Hd]. inversion Hd as [|? ? Hd' _]; subst.
  rewrite undec_app, app_length. cbn [length].
  replace (length ds + 1)%nat with (S (length ds)) by lia.
  rewrite Nat2N.inj_succ, N.pow_succ_r'. specialize (IH HD).
  unfold is_digit, ch_0, ch_9 in Hd'. unfold ch_0. lia.
Qed.

(* ------------------------------------------------------------------ A1 round trips *)
(* exact no-overflow bound of the row scanner: the decimal text may have at most 9 digits
   (the 10th digit makes [pow *= 10] overflow u32), i.e. r + 1 < 10^9; the column scanner
   accepts up to 6 letters (the 7th makes [pow *= 26] overflow), in particular every c < 26^6. *)
Definition ROW_TEXT_LIMIT : N := 1000000000.     (* 10^9 *)
Definition COL_TEXT_LIMIT : N := 308915776.      (* 26^6 *)

Theorem get_row_and_optional_column_a1_name : forall r c,
  r + 1 < ROW_TEXT_LIMIT -> c < COL_TEXT_LIMIT ->
  get_row_and_optional_column (a1_name r c) = Ok (r, Some c).
Proof.
  intros r c Hr Hc. unfold a1_name, ROW_TEXT_LIMIT, COL_TEXT_LIMIT in *.
  rewrite scan_a1.
  - rewrite undec_dec, col1_of_letters_letters.
    destruct (c + 1 =? 0) eqn:E; [apply N.eqb_eq in E; lia|].
    do 2 f_equal; [lia | f_equal; lia].
  - apply letters_upper.
  - apply dec_digits.
  - apply (@dec_length_le 8%nat). change (10 ^ N.of_nat 9) with 1000000000. lia.
  - apply (@letters_length_le 5%nat). change (26 ^ N.of_nat 6) with 308915776. lia.
  - rewrite undec_dec. lia.
  - rewrite col1_of_letters_letters. unfold U32MAX. lia.
Qed.

Theorem get_row_column_a1_name : forall r c,
  r + 1 < ROW_TEXT_LIMIT -> c < COL_TEXT_LIMIT ->
  get_row_column (a1_name r c) = Ok (r, c).
Proof.
  intros r c Hr Hc. unfold get_row_column.
  rewrite get_row_and_optional_column_a1_name by assumption. reflexivity.
Qed.

Theorem get_row_a1_name : forall r c,
  r + 1 < ROW_TEXT_LIMIT -> c < COL_TEXT_LIMIT -> get_row (a1_name r c) = Ok r.
Proof.
  intros r c Hr Hc. unfold get_row.
  rewrite get_row_and_optional_column_a1_name by assumption. reflexivity.
Qed.

Theorem get_row_and_optional_column_dec : forall r, r + 1 < ROW_TEXT_LIMIT ->
  get_row_and_optional_column (dec (r + 1)) = Ok (r, None).
Proof.
  intros r Hr. unfold ROW_TEXT_LIMIT in Hr.
  pose proof (@scan_a1 [] (dec (r + 1))) as H. cbn [app] in H. rewrite H.
  - rewrite undec_dec. change (col1_of_letters []) with 0. change (0 =? 0) with true.
    cbn iota. do 2 f_equal. lia.
  - constructor.
  - apply dec_digits.
  - apply (@dec_length_le 8%nat). change (10 ^ N.of_nat 9) with 1000000000. lia.
  - cbn. lia.
  - rewrite undec_dec. lia.
  - change (col1_of_letters []) with 0. unfold U32MAX. lia.
Qed.

Theorem get_row_dec : forall r, r + 1 < ROW_TEXT_LIMIT -> get_row (dec (r + 1)) = Ok r.
Proof.
  intros r Hr. unfold get_row. rewrite get_row_and_optional_column_dec by exact Hr. reflexivity.
Qed.

Theorem get_row_column_dec : forall r, r + 1 < ROW_TEXT_LIMIT ->
  get_row_column (dec (r + 1)) = Err E_NO_COLUMN.
Proof.
  intros r Hr. unfold get_row_column. rewrite get_row_and_optional_column_dec by exact Hr.
  reflexivity.
Qed.

(* the round trip through the two xlsx functions, on every cell Excel can have and far beyond *)
Theorem a1_roundtrip : forall r c, r + 1 < ROW_TEXT_LIMIT -> c < 16384 ->
  exists s, coordinate_to_name (r, c) = Ok s /\ get_row_column s = Ok (r, c).
Proof.
  intros r c Hr Hc. exists (a1_name r c). split.
  - apply coordinate_to_name_spec; [exact Hc|]. unfold ROW_TEXT_LIMIT in Hr. lia.
  - apply get_row_column_a1_name; [exact Hr|]. unfold COL_TEXT_LIMIT. lia.
Qed.

(* since the C06 hardening the scanner accumulates in u64 with saturating arithmetic and converts
   to u32 at the end: no input makes it panic (the former 10-digit overflow is gone) *)
Lemma scan_char_total : forall c s, (exists r, scan_char c s = Ok r) \/ (exists e, scan_char c s = Err e).
Proof.
  intros c s. unfold scan_char, scan_letter.
  destruct (is_digit c); [destruct (s_readrow s); eauto|].
  destruct (is_upper c).
  { destruct (s_readrow s); [destruct (s_row s =? 0)|]; cbn [obind]; eauto. }
  destruct (is_lower c); [|eauto].
  destruct (s_readrow s); [destruct (s_row s =? 0)|]; cbn [obind]; eauto.
Qed.

Lemma scan_loop_total : forall rs s, scan_loop rs s <> Panic /\ scan_loop rs s <> OutOfFuel.
Proof.
  induction rs as [|c rs IH]; intros s; [split; discriminate|].
  cbn [scan_loop]. destruct (scan_char_total c s) as [[r E]|[e E]]; rewrite E; cbn [obind].
  - apply IH.
  - split; discriminate.
Qed.

Theorem get_row_and_optional_column_total : forall range,
  get_row_and_optional_column range <> Panic /\ get_row_and_optional_column range <> OutOfFuel.
Proof.
  intros range. unfold get_row_and_optional_column.
  destruct (scan_loop_total (rev range) scan_init) as [H1 H2].
  destruct (scan_loop (rev range) scan_init) as [s|e| |]; cbn [obind]; try contradiction; try (split; discriminate).
  destruct (s_row s =? 0); [split; discriminate|].
  destruct (U32MAX <? s_row s - 1); [split; discriminate|].
  destruct (negb (s_col s =? 0) && (U32MAX <? s_col s - 1)); split; discriminate.
Qed.

Theorem get_row_column_total : forall range,
  get_row_column range <> Panic /\ get_row_column range <> OutOfFuel.
Proof.
  intros range. unfold get_row_column.
  destruct (get_row_and_optional_column_total range) as [H1 H2].
  destruct (get_row_and_optional_column range) as [[r [c|]]|e| |]; cbn [obind snd fst];
    try contradiction; split; discriminate.
Qed.

Theorem get_row_total : forall range, get_row range <> Panic /\ get_row range <> OutOfFuel.
Proof.
  intros range. unfold get_row.
  destruct (get_row_and_optional_column_total range) as [H1 H2].
  destruct (get_row_and_optional_column range) as [rc|e| |]; cbn [obind];
    try contradiction; split; discriminate.
Qed.

Lemma collect_parts_total : forall ps, collect_parts ps <> Panic /\ collect_parts ps <> OutOfFuel.
Proof.
  induction ps as [|p ps IH]; [split; discriminate|].
  cbn [collect_parts]. destruct (get_row_column_total p) as [H1 H2].
  destruct (get_row_column p) as [x|e| |]; cbn [obind]; try contradiction; try (split; discriminate).
  destruct IH as [I1 I2]. destruct (collect_parts ps) as [xs|e| |]; cbn [obind]; try contradiction; split; discriminate.
Qed.

Theorem get_dimension_total : forall d, get_dimension d <> Panic /\ get_dimension d <> OutOfFuel.
Proof.
  intros d. unfold get_dimension.
  destruct (collect_parts_total (split_on ch_colon d [])) as [H1 H2].
  destruct (collect_parts (split_on ch_colon d [])) as [parts|e| |]; cbn [obind]; try contradiction; try (split; discriminate).
  destruct parts as [|p0 [|p1 [|p2 t]]]; split; discriminate.
Qed.

(* ------------------------------------------------------------------ lower case = upper case *)
Lemma scan_char_lower : forall c s, scan_char (to_lower c) s = scan_char c s.
Proof.
  intros c s. unfold to_lower. destruct (is_upper c) eqn:U; [|reflexivity].
  unfold scan_char. rewrite U, (upper_not_digit _ U).
  assert (L : is_lower (c + 32) = true) by (unfold is_upper, is_lower, ch_A, ch_Z, ch_a, ch_z in *; lia).
  rewrite L, (lower_not_digit _ L), (lower_not_upper _ L).
  unfold scan_letter.
  replace (c + 32 - ch_a + 1) with (c - ch_A + 1)
    by (unfold is_upper, ch_A, ch_Z, ch_a in *; lia).
  reflexivity.
Qed.

Lemma scan_loop_lower : forall l s, scan_loop (map to_lower l) s = scan_loop l s.
Proof.
  induction l as [|c l IH]; intros s; [reflexivity|].
  cbn [map scan_loop]. rewrite scan_char_lower. destruct (scan_char c s); cbn [obind]; auto.
Qed.

(* on every input whatsoever, lower-casing the letters changes nothing *)
Theorem get_row_and_optional_column_lower : forall range,
  get_row_and_optional_column (map to_lower range) = get_row_and_optional_column range.
Proof.
  intros range. unfold get_row_and_optional_column. rewrite <- map_rev, scan_loop_lower.
  reflexivity.
Qed.

Theorem get_row_column_lower : forall range,
  get_row_column (map to_lower range) = get_row_column range.
Proof. intros. unfold get_row_column. rewrite get_row_and_optional_column_lower. reflexivity. Qed.

(* ------------------------------------------------------------------ get_dimension *)
Lemma split_on_no_sep : forall sep a cur, ~ In sep a ->
  split_on sep a cur = [rev cur ++ a].
Proof.
  induction a as [|x a IH]; intros cur Hn.
  - cbn. rewrite app_nil_r. reflexivity.
  - cbn [split_on]. destruct (x =? sep) eqn:E.
    + apply N.eqb_eq in E. subst. exfalso. apply Hn. left. reflexivity.
    + rewrite IH by (intros H; apply Hn; right; exact H).
      cbn [rev]. rewrite <- app_assoc. reflexivity.
Qed.

Lemma split_on_sep : forall sep a b cur, ~ In sep a ->
  split_on sep (a ++ sep :: b) cur = (rev cur ++ a) :: split_on sep b [].
Proof.
  induction a as [|x a IH]; intros b cur Hn.
  - cbn [app split_on]. rewrite N.eqb_refl. rewrite app_nil_r. reflexivity.
  - cbn [app split_on]. destruct (x =? sep) eqn:E.
    + apply N.eqb_eq in E. subst. exfalso. apply Hn. left. reflexivity.
    + rewrite IH by (intros H; apply Hn; right; exact H).
      cbn [rev]. rewrite <- app_assoc. reflexivity.
Qed.

Lemma a1_name_no_colon : forall r c, ~ In ch_colon (a1_name r c).
Proof.
  intros r c H. unfold a1_name in H. apply in_app_or in H. destruct H as [H|H].
  - pose proof (letters_upper c) as F. rewrite Forall_forall in F. specialize (F _ H).
    unfold is_upper, ch_colon, ch_A, ch_Z in F. lia.
  - pose proof (dec_digits (r + 1)) as F. rewrite Forall_forall in F. specialize (F _ H).
    unfold is_digit, ch_colon, ch_0, ch_9 in F. lia.
Qed.

Theorem get_dimension_single : forall r c, r + 1 < ROW_TEXT_LIMIT -> c < COL_TEXT_LIMIT ->
  get_dimension (a1_name r c) = Ok ((r, c), (r, c)).
Proof.
  intros r c Hr Hc. unfold get_dimension.
  rewrite split_on_no_sep by apply a1_name_no_colon. cbn [rev app collect_parts].
  rewrite get_row_column_a1_name by assumption. reflexivity.
Qed.

Theorem get_dimension_pair : forall r0 c0 r1 c1,
  r0 <= r1 -> c0 <= c1 -> r1 + 1 < ROW_TEXT_LIMIT -> c1 < COL_TEXT_LIMIT ->
  get_dimension (a1_name r0 c0 ++ [ch_colon] ++ a1_name r1 c1) = Ok ((r0, c0), (r1, c1)).
Proof.
  intros r0 c0 r1 c1 Hr Hc Hr1 Hc1. unfold get_dimension. cbn [app].
  rewrite split_on_sep by apply a1_name_no_colon.
  rewrite split_on_no_sep by apply a1_name_no_colon. cbn [rev app collect_parts].
  rewrite !get_row_column_a1_name by lia. cbn [obind fst snd]. reflexivity.
Qed.

(* a reversed dimension ("B2:A1") is returned as written (the code uses saturating_sub and only
   logs; before the C06 hardening the u32 subtraction panicked) *)
Theorem get_dimension_reversed_ok : forall r0 c0 r1 c1,
  r0 + 1 < ROW_TEXT_LIMIT -> r1 + 1 < ROW_TEXT_LIMIT -> c0 < COL_TEXT_LIMIT -> c1 < COL_TEXT_LIMIT ->
  get_dimension (a1_name r0 c0 ++ [ch_colon] ++ a1_name r1 c1) = Ok ((r0, c0), (r1, c1)).
Proof.
  intros r0 c0 r1 c1 Hr0 Hr1 Hc0 Hc1. unfold get_dimension. cbn [app].
  rewrite split_on_sep by apply a1_name_no_colon.
  rewrite split_on_no_sep by apply a1_name_no_colon. cbn [rev app collect_parts].
  rewrite !get_row_column_a1_name by lia. reflexivity.
Qed.

Example a1_examples :
  a1_name 0 0 = [65; 49] /\ a1_name 1048575 16383 = [88; 70; 68; 49; 48; 52; 56; 53; 55; 54] /\
  get_row_column [88; 70; 68; 49; 48; 52; 56; 53; 55; 54] = Ok (1048575, 16383) /\
  get_row_column [120; 102; 100; 49] = Ok (0, 16383) /\
  get_row_column [65; 49; 48; 48; 48; 48; 48; 48; 48; 48; 48] = Ok (999999999, 0) /\       (* A1000000000 *)
  get_row_column [65; 52; 50; 57; 52; 57; 54; 55; 50; 57; 54] = Ok (4294967295, 0) /\      (* A4294967296 *)
  get_row_column [65; 52; 50; 57; 52; 57; 54; 55; 50; 57; 55] = Err E_RANGE /\             (* A4294967297 *)
  get_dimension [66; 50; 58; 65; 49] = Ok ((1, 1), (0, 0)) /\
  a1_ref 4 27 true false = [36; 65; 66; 53].
Proof. vm_compute. repeat split. Qed.
