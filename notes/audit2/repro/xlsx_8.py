# P8: format codes real producers write; expected class per Excel (D = date/time, T = elapsed, N = number)
from xlsx_base import *
import html, re
cases = [
 ('[$-x-sysdate]dddd, mmmm dd, yyyy', 'D'), ('[$-x-systime]h:mm:ss AM/PM', 'D'), ('[$-en-US]m/d/yy h:mm AM/PM;@', 'D'),
 ('[$-ja-JP-x-gannen]ggge"年"m"月"d"日";@', 'D'), ('[$-F800]dddd\\,\\ mmmm\\ dd\\,\\ yyyy', 'D'), ('[$-F400]h:mm:ss\\ AM/PM', 'D'),
 ('[DBNum1][$-804]yyyy"年"m"月"d"日";@', 'D'), ('[DBNum1][$-804]General', 'N'), ('[$-409]General', 'N'),
 ('[ENG][$-1004]d mmmm, yyyy;@', 'D'), ('[$-107041E]d mmm yy;@', 'D'), ('B2yyyy/mm/dd', 'D'),
 ('aaa', 'D'), ('aaaa', 'D'), ('[$-411]aaaa', 'D'), ('ggge', 'D'), ('e', 'D'), ('bbbb', 'D'), ('[$-D07041E]bbbb', 'D'),
 ('yyyy/m/d(aaa)', 'D'), ('[h]:mm', 'T'), ('[hh]:mm:ss', 'T'), ('[mm]:ss', 'T'), ('[s]', 'T'), ('[ss].00', 'T'),
 ('[Red][h]:mm', 'T'), ('[>1][h]:mm;h:mm', 'T'), ('[$-409][h]:mm', 'T'),
 ('General', 'N'), ('GENERAL', 'N'), ('0.00E+00', 'N'), ('##0.0E+0', 'N'), ('@', 'N'), ('0%', 'N'), ('# ?/?', 'N'), ('# ??/16', 'N'),
 ('_(* #,##0.00_);_(* \\(#,##0.00\\);_(* "-"??_);_(@_)', 'N'), ('_-* #,##0.00\\ [$€-407]_-;\\-* #,##0.00\\ [$€-407]_-', 'N'),
 ('#,##0.00\\ _D_M', 'N'), ('#,##0\\ "Dhs"', 'N'), ('[$SFr.-807] #,##0.00', 'N'), ('[$Din.-81A] #,##0', 'N'), ('[$SDG] #,##0', 'N'),
 ('[Magenta]0.00', 'N'), ('[Color10]0', 'N'), ('[>=100][Magenta]0;[Yellow]0', 'N'), ('0.0" days"', 'N'), ('"Sum: "0', 'N'),
 ('0\\ \\d\\a\\y\\s', 'N'), ('#,##0 "m²"', 'N'), ('0.0°', 'N'), ('00000', 'N'), ('000\\-00\\-0000', 'N'), ('[<=9999999]###\\-####;\\(###\\)\\ ###\\-####', 'N'),
 ('yyyy\\-mm\\-dd', 'D'), ('yyyy\\-mm\\-dd\\Thh:mm:ss', 'D'), ('mm:ss.0', 'D'), ('h:mm A/P', 'D'), ('hh:mm am/pm', 'D'), ('d', 'D'), ('M/D/YYYY', 'D'),
 ('"Q"q yyyy', 'D'), ('[Red]d/m/yy', 'D'), ('"Date: "m/d/yy', 'D'), ('\\h\\i 0', 'N'), ('*-0', 'N'), ('0*d', 'N'), ('_d0', 'N'),
 ('0;-0;;@', 'N'), (';;;', 'N'), ('"AM"0', 'N'), ('Standard', 'N'), ('#,##0.00 [$руб.-419]', 'N'), ('[$-409]d\\-mmm\\-yy;@', 'D'),
 ('t0', 'N'), ('tt0.00', 'N'), ('0 "a/p"', 'N'), ('0.00 a', 'N'),
]
nf = ''.join('<numFmt numFmtId="%d" formatCode="%s"/>' % (164 + i, html.escape(f, quote=True)) for i, (f, _) in enumerate(cases))
xfs = '<xf numFmtId="0"/>' + ''.join('<xf numFmtId="%d" applyNumberFormat="1"/>' % (164 + i) for i in range(len(cases)))
sty = styles(nf, xfs)
row = ''.join('<c s="%d"><v>1.5</v></c>' % (i + 1) for i in range(len(cases)))
p = build('xlsx_8_numfmts.xlsx', sheet('<row r="1">%s</row>' % row), sty=sty)
out = vh('xlsx', p, ['range ' + hx('Sheet1')])
vals = out.split('|')[1].rstrip(']').split(',')
bad = 0
for (f, exp), v in zip(cases, vals):
    got = 'N' if v.startswith('F') else ('T' if v.split(':')[1] == '1' else 'D')
    flag = '' if got == exp else '   <== MISMATCH'
    if flag: bad += 1
    print('%-55s expect %s got %s%s' % (f, exp, got, flag))
print('mismatches:', bad)
