# P1: t="e" cell with an error string outside the eight known ones (Excel 365 dynamic-array errors)
from xlsx_base import *
for i, e in enumerate(['#SPILL!', '#CALC!', '#FIELD!', '#BLOCKED!', '#CONNECT!', '#UNKNOWN!', '#BUSY!', '#PYTHON!', '#ERROR!', '#GETTING_DATA']):
    p = build('xlsx_1_err%d.xlsx' % i, sheet('<row r="1"><c r="A1"><v>1</v></c><c r="B1" t="e"><f>X</f><v>%s</v></c></row>' % e))
    print(e, end=' : '); run(p, ['range ' + hx('Sheet1'), 'wsall'])
