(* Property C04 — ODS: cells read back at their position; repeat counts expand faithfully.
   Only the property theorems (closed by [exact]), [Check] pins and [Print Assumptions].
   Model and spec: OdsGrid.v; proofs: OdsGrid_proofs.v.

   M = ods_read_table (read_row, read_table, get_range of src/ods.rs, for Data and String)
   S = ods_spec_table rows = (range_of (values of (expand rows)), range_of (formulas of …)):
       the plain expansion of every number-rows-repeated / number-columns-repeated count and
       every covered cell, then the tight bounding rectangle of the non-default cells.
   Guards: counts_pos (ODF: repeat counts are positive) and extent_ok (row count <= 2^32 —
   exactly what read_table accepts since the row limit —, column count <= 2^32, sheet cell count <= usize::MAX; a 1048576 x 16384 sheet is far inside). *)
From Calamine Require Import Prelude Range Range_spec OdsGrid OdsGrid_proofs.
Open Scope N_scope.

(* the quantifier of the property: every list of row elements *)
Theorem C04_ods_grid_main :
  forall rows : list (row_elem data str),
    counts_pos rows = true -> extent_ok rows = true ->
    ods_read_table rows = Ok (ods_spec_table rows).
Proof. exact ods_grid_main. Qed.

(* the same for any cell type (the code is generic in T: Default + Clone + PartialEq) *)
Theorem C04_grid_main_generic :
  forall (V F : Type) (dV : V) (dF : F) (isdV : V -> bool) (isdF : F -> bool),
    (forall x, isdV x = true <-> x = dV) -> (forall x, isdF x = true <-> x = dF) ->
    forall rows : list (row_elem V F),
      counts_pos rows = true -> extent_ok rows = true ->
      read_table dV dF isdV isdF rows = Ok (spec_table dV dF isdV isdF rows).
Proof. exact read_table_correct. Qed.

(* get_range alone, on any run-length list of physical rows *)
Theorem C04_get_range_correct :
  forall (T : Type) (d : T) (isd : T -> bool), (forall x, isd x = true <-> x = d) ->
  forall (L : list (list T * N)) (W : N),
    Forall (fun rk => 1 <= snd rk) L ->
    sumk L <= TWO32 ->
    Forall (fun rk => N.of_nat (length (fst rk)) <= W) L -> W <= TWO32 ->
    sumk L * W <= USIZE_MAX ->
    get_range d isd (concat (map fst L)) (0 :: offs 0 (map fst L)) (map snd L)
    = Ok (range_of d isd (expand_rows L)).
Proof. exact get_range_correct. Qed.

(* the element-tree level: repeat attributes parsed, cells typed by get_datatype *)
Theorem C04_xtable_main :
  forall (xrows : list xrow) (rows : list (row_elem data str)),
    map_outcome read_xrow xrows = Ok rows ->
    counts_pos rows = true -> extent_ok rows = true ->
    read_xtable xrows = Ok (ods_spec_table rows).
Proof. exact ods_xtable_main. Qed.

(* run-length independence: encodings denoting the same cell function read the same *)
Theorem C04_rle_independent :
  forall r1 r2 : list (row_elem data str),
    counts_pos r1 = true -> extent_ok r1 = true ->
    counts_pos r2 = true -> extent_ok r2 = true ->
    (forall r c, pair_at DEmpty (@nil N) (expand r1) r c = pair_at DEmpty (@nil N) (expand r2) r c) ->
    ods_read_table r1 = ods_read_table r2.
Proof. exact ods_rle_independent. Qed.

Theorem C04_rle_same_expansion :
  forall r1 r2 : list (row_elem data str),
    counts_pos r1 = true -> extent_ok r1 = true ->
    counts_pos r2 = true -> extent_ok r2 = true ->
    expand r1 = expand r2 -> ods_read_table r1 = ods_read_table r2.
Proof. exact ods_rle_same_expansion. Qed.

(* the spec only depends on the cell function: trailing defaults are invisible *)
Theorem C04_range_of_ext :
  forall (T : Type) (d : T) (isd : T -> bool), (forall x, isd x = true <-> x = d) ->
  forall g1 g2 : list (list T), grid_eq d g1 g2 -> range_of d isd g1 = range_of d isd g2.
Proof. exact range_of_ext. Qed.

(* the spec means what the property says: as soon as one cell is used, range_of is the rectangle
   that contains every used cell, touches a used cell on each of its four edges (tight), and
   holds the cell function row-major (every value at its absolute position) *)
Theorem C04_range_of_sound :
  forall (T : Type) (d : T) (isd : T -> bool), (forall x, isd x = true <-> x = d) ->
  forall (g : list (list T)) r c, nz isd (cell_at d g r c) = true ->
  exists r0 r1 c0 c1,
    r_start (range_of d isd g) = (N.of_nat r0, N.of_nat c0) /\
    r_end (range_of d isd g) = (N.of_nat r1, N.of_nat c1) /\
    length (r_inner (range_of d isd g)) = ((r1 + 1 - r0) * (c1 + 1 - c0))%nat /\
    (forall r' c', nz isd (cell_at d g r' c') = true -> (r0 <= r' <= r1)%nat /\ (c0 <= c' <= c1)%nat) /\
    (forall i j, (i < r1 + 1 - r0)%nat -> (j < c1 + 1 - c0)%nat ->
       nth_error (r_inner (range_of d isd g)) (i * (c1 + 1 - c0) + j)
       = Some (cell_at d g (r0 + i) (c0 + j))) /\
    (exists c', nz isd (cell_at d g r0 c') = true) /\ (exists c', nz isd (cell_at d g r1 c') = true) /\
    (exists r', nz isd (cell_at d g r' c0) = true) /\ (exists r', nz isd (cell_at d g r' c1) = true).
Proof. exact range_of_sound. Qed.

Theorem C04_range_of_nothing :
  forall (T : Type) (d : T) (isd : T -> bool) (g : list (list T)),
    (forall r c, nz isd (cell_at d g r c) = false) -> range_of d isd g = empty.
Proof. exact range_of_nothing. Qed.

(* empty runs are inert: trailing empty rows, trailing empty cells (any length, any number) *)
Theorem C04_empties_inert :
  forall (V F : Type) (dV : V) (dF : F) (isdV : V -> bool) (isdF : F -> bool),
    (forall x, isdV x = true <-> x = dV) -> (forall x, isdF x = true <-> x = dF) ->
    (forall (rows : list (row_elem V F)) k cs,
       forallb (blank isdV isdF) cs = true ->
       counts_pos rows = true -> extent_ok rows = true ->
       counts_pos (rows ++ [mkRow k cs]) = true -> extent_ok (rows ++ [mkRow k cs]) = true ->
       read_table dV dF isdV isdF (rows ++ [mkRow k cs]) = read_table dV dF isdV isdF rows) /\
    (forall (A B : list (row_elem V F)) k cs ts,
       forallb (blank isdV isdF) ts = true ->
       counts_pos (A ++ mkRow k cs :: B) = true -> extent_ok (A ++ mkRow k cs :: B) = true ->
       counts_pos (A ++ mkRow k (cs ++ ts) :: B) = true ->
       extent_ok (A ++ mkRow k (cs ++ ts) :: B) = true ->
       read_table dV dF isdV isdF (A ++ mkRow k (cs ++ ts) :: B)
       = read_table dV dF isdV isdF (A ++ mkRow k cs :: B)).
Proof.
  intros V F dV dF isdV isdF HV HF. split.
  - exact (@empties_inert_trailing_rows V F dV dF isdV isdF HV HF).
  - exact (@empties_inert_trailing_cells V F dV dF isdV isdF HV HF).
Qed.

(* leading / interior empty rows displace later rows by exactly their own count *)
Theorem C04_empties_shift_rows :
  forall (V F : Type) (dV : V) (dF : F) (isdV : V -> bool) (isdF : F -> bool),
    (forall x, isdV x = true <-> x = dV) -> (forall x, isdF x = true <-> x = dF) ->
    forall (A B : list (row_elem V F)) k cs,
      forallb (blank isdV isdF) cs = true ->
      forall r c,
        pair_at dV dF (expand (A ++ mkRow k cs :: B)) r c =
        let n := length (expand A) in
        if (r <? n)%nat then pair_at dV dF (expand (A ++ B)) r c
        else if (r <? n + N.to_nat k)%nat then (dV, dF)
        else pair_at dV dF (expand (A ++ B)) (r - N.to_nat k) c.
Proof. exact empties_shift_rows. Qed.

(* typing of a cell from office:value-type and the value attributes *)
Theorem C04_typing_canonical :
  forall (t : tvalue) (display : list str) (formula : str),
    get_datatype (tv_attrs t ++ [(a_formula, formula)]) (tv_paras t display)
    = (tv_data t, formula).
Proof. exact typing_canonical. Qed.

(* totality (for C06): for EVERY list of row elements — zero counts, huge counts, any cells —
   that a machine can hold (phys_ok: at most isize::MAX row elements, and row elements x widest
   row <= usize::MAX, the bound of get_range's `cells_len` product), read_table returns Ok or
   Err, never a panic.  No well-formedness hypothesis. *)
Theorem C04_no_panic_read_table :
  forall rows : list (row_elem data str),
    phys_ok rows = true -> ods_read_table rows <> Panic.
Proof. exact ods_read_table_no_panic. Qed.

(* the row limit of read_table: more than 2^32 announced rows is an error (not a panic, not a
   truncated position) *)
Theorem C04_row_limit :
  forall rows : list (row_elem data str),
    TWO32 < total_rows rows -> exists e, ods_read_table rows = Err e.
Proof. exact ods_read_table_row_limit. Qed.

Example C04_no_panic_nonvacuous :
  phys_ok ex_huge = true /\ (exists e, ods_read_table ex_huge = Err e) /\
  phys_ok ex_zero = true /\ (exists r, ods_read_table ex_zero = Ok r).
Proof. exact no_panic_nonvacuous. Qed.

(* the limits of a real sheet are inside the guard *)
Theorem C04_sheet_limits_inside_guard :
  forall (V F : Type) (rows : list (row_elem V F)),
    total_rows rows <= 1048576 -> max_width rows <= 16384 -> extent_ok rows = true.
Proof. exact sheet_limits_extent_ok. Qed.

(* non-vacuity of the guards of the main theorem (and of the rle / inert ones, which carry the
   same guards): a sheet with data starting in column B, a blank row run inside, repeated rows
   and cells, a covered cell and LibreOffice-style trailing repeats *)
Example C04_main_nonvacuous :
  counts_pos ex_rows = true /\ extent_ok ex_rows = true /\
  exists rv rf, ods_read_table ex_rows = Ok (rv, rf) /\
    r_start rv = (2, 1) /\ r_end rv = (7, 4) /\ length (r_inner rv) = 24%nat /\
    r_start rf = (2, 4) /\ r_end rf = (2, 4).
Proof. exact main_nonvacuous. Qed.

(* the loop of read_table over the content of table:table: the elements that hold the rows
   (table:table-header-rows, table:table-rows, table:table-row-group nested to any depth) and the
   ones beside them are transparent; the rows come out in document order *)
Theorem C04_row_containers_transparent : forall (its rest : list titem),
  forallb item_ok its = true ->
  read_table_items (its ++ TClose k_table_table :: rest) = read_xtable (rows_of its).
Proof. exact ods_containers_transparent. Qed.

Theorem C04_row_containers_independent : forall (its1 its2 rest1 rest2 : list titem),
  forallb item_ok its1 = true -> forallb item_ok its2 = true ->
  rows_of its1 = rows_of its2 ->
  read_table_items (its1 ++ TClose k_table_table :: rest1) =
  read_table_items (its2 ++ TClose k_table_table :: rest2).
Proof. exact ods_containers_independent. Qed.

Theorem C04_table_items_main : forall (its rest : list titem) (rows : list (row_elem data str)),
  forallb item_ok its = true ->
  map_outcome read_xrow (rows_of its) = Ok rows ->
  counts_pos rows = true -> extent_ok rows = true ->
  read_table_items (its ++ TClose k_table_table :: rest) = Ok (ods_spec_table rows).
Proof. exact ods_table_items_main. Qed.

(* the layout of a row (fixes ODS-3, ODS-1 of notes/AUDIT2.md).  Between the cells of a row:
   white-space text and comments (an indented content.xml); among the children of a cell:
   white-space text, comments, an annotation, drawing objects anchored to the cell holding
   paragraphs of their own.  All of it is transparent: a row reads as its flat form (cells
   alone, each with its own paragraphs alone). *)
Theorem C04_cell_layout_transparent : forall c : xcell, read_xcell c = read_xcell (flat_cell c).
Proof. exact cell_layout_transparent. Qed.

Theorem C04_row_layout_transparent : forall x : xrow,
  row_ok x = true -> read_xrow x = read_xrow (flat_row x).
Proof. exact row_layout_transparent. Qed.

Theorem C04_row_layout_independent : forall x1 x2 : xrow,
  row_ok x1 = true -> row_ok x2 = true ->
  xr_attrs x1 = xr_attrs x2 -> map flat_cell (xr_cells x1) = map flat_cell (xr_cells x2) ->
  read_xrow x1 = read_xrow x2.
Proof. exact row_layout_independent. Qed.

(* anything else between the cells (a CDATA section, a foreign element): the row is not read *)
Theorem C04_row_foreign_item_rejected : forall (its1 its2 : list ritem) r,
  read_ritems (its1 ++ ROther :: its2) <> Ok r.
Proof. exact row_foreign_item_rejected. Qed.

(* composed with the loop over the content of table:table and the grid theorem *)
Theorem C04_table_items_layout_main : forall (its rest : list titem) (rows : list (row_elem data str)),
  forallb item_ok its = true -> forallb row_ok (rows_of its) = true ->
  map_outcome read_xrow (map flat_row (rows_of its)) = Ok rows ->
  counts_pos rows = true -> extent_ok rows = true ->
  read_table_items (its ++ TClose k_table_table :: rest) = Ok (ods_spec_table rows).
Proof. exact ods_table_items_layout_main. Qed.

Theorem C04_table_layout_independent : forall (its1 its2 rest1 rest2 : list titem),
  forallb item_ok its1 = true -> forallb item_ok its2 = true ->
  forallb row_ok (rows_of its1) = true -> forallb row_ok (rows_of its2) = true ->
  map flat_row (rows_of its1) = map flat_row (rows_of its2) ->
  read_table_items (its1 ++ TClose k_table_table :: rest1) =
  read_table_items (its2 ++ TClose k_table_table :: rest2).
Proof. exact ods_table_layout_independent. Qed.

Theorem C04_no_panic_read_ritems : forall its : list ritem,
  read_ritems its <> Panic /\ read_ritems its <> OutOfFuel.
Proof. exact read_ritems_total. Qed.

Theorem C04_no_panic_table_loop : forall (its : list titem) (acc : list xrow),
  table_loop its acc <> Panic /\ table_loop its acc <> OutOfFuel.
Proof. exact table_loop_total. Qed.

(* a row group inside a row group between two plain rows, a column element in front *)
Example C04_containers_nonvacuous :
  let r := mkXRow [] [RCell (mkXCell false [(a_value_type, v_float); (a_value, [49])] [])] in
  let g := [104] in
  let its := [TOther; TOpen [99] []; TClose [99]; TRow r; TOpen g []; TOpen g []; TRow r; TClose g;
              TRow r; TClose g; TRow r] in
  forallb item_ok its = true /\ rows_of its = [r; r; r; r] /\
  exists rv rf, read_table_items (its ++ [TClose k_table_table]) = Ok (rv, rf) /\
                r_start rv = (0, 0) /\ r_end rv = (3, 0).
Proof. vm_compute. repeat split. eexists; eexists; repeat split. Qed.

(* an indented table: white space and a comment between the cells, an indented string cell with
   an annotation, a text box and an image anchored to it (their paragraphs are not the cell's), a
   float cell with an anchored shape; the flat table reads the same, cell B1 is "ab\ncd" *)
Example C04_layout_nonvacuous :
  let ind := [10; 32; 32] in
  let frame := [100; 114; 97; 119; 58; 102; 114; 97; 109; 101] in
  let sc := mkXCell false [(a_value_type, v_string)]
              [XWs ind; XAnnot [[110]]; XWs ind; XPara [97; 98]; XWs ind; XComment; XPara [99; 100]; XWs ind;
               XShape frame [[66; 49]; [66; 50]]; XWs ind; XShape frame [[]]; XWs [10]] in
  let fc := mkXCell false [(a_value_type, v_float); (a_value, [49])] [XPara [49]; XShape frame [[115]]] in
  let r := mkXRow [] [RText ind; RCell fc; RText ind; RComment; RCell sc; RText [10]] in
  let its := [TOther; TRow r; TOther; TRow r; TOther] in
  forallb item_ok its = true /\ forallb row_ok (rows_of its) = true /\
  forallb xrow_legal (rows_of its) = true /\ xr_cells r = [fc; sc] /\
  xc_paras sc = [[97; 98]; [99; 100]] /\ flat_row r <> r /\
  exists rv rf, read_table_items (its ++ [TClose k_table_table]) = Ok (rv, rf) /\
                read_table_items (map (fun x => TRow (flat_row x)) (rows_of its) ++ [TClose k_table_table]) = Ok (rv, rf) /\
                r_start rv = (0, 0) /\ r_end rv = (1, 1) /\
                nth_error (r_inner rv) 1 = Some (DString [97; 98; 10; 99; 100]).
Proof.
  cbn zeta.
  split; [vm_compute; reflexivity|]. split; [vm_compute; reflexivity|].
  split; [vm_compute; reflexivity|]. split; [vm_compute; reflexivity|].
  split; [vm_compute; reflexivity|].
  split; [intro H; apply (f_equal (fun x => length (xr_items x))) in H; vm_compute in H; discriminate|].
  eexists; eexists.
  split; [vm_compute; reflexivity|]. split; [vm_compute; reflexivity|].
  repeat split; vm_compute; reflexivity.
Qed.

Check C04_row_layout_transparent : forall x : xrow,
  row_ok x = true -> read_xrow x = read_xrow (flat_row x).
Check C04_table_items_layout_main : forall (its rest : list titem) (rows : list (row_elem data str)),
  forallb item_ok its = true -> forallb row_ok (rows_of its) = true ->
  map_outcome read_xrow (map flat_row (rows_of its)) = Ok rows ->
  counts_pos rows = true -> extent_ok rows = true ->
  read_table_items (its ++ TClose k_table_table :: rest) = Ok (ods_spec_table rows).

Check C04_row_containers_transparent : forall (its rest : list titem),
  forallb item_ok its = true ->
  read_table_items (its ++ TClose k_table_table :: rest) = read_xtable (rows_of its).

Check C04_ods_grid_main :
  forall rows : list (row_elem data str),
    counts_pos rows = true -> extent_ok rows = true ->
    ods_read_table rows = Ok (ods_spec_table rows).
Check C04_rle_independent :
  forall r1 r2 : list (row_elem data str),
    counts_pos r1 = true -> extent_ok r1 = true ->
    counts_pos r2 = true -> extent_ok r2 = true ->
    (forall r c, pair_at DEmpty (@nil N) (expand r1) r c = pair_at DEmpty (@nil N) (expand r2) r c) ->
    ods_read_table r1 = ods_read_table r2.

Print Assumptions C04_ods_grid_main.
Print Assumptions C04_grid_main_generic.
Print Assumptions C04_get_range_correct.
Print Assumptions C04_xtable_main.
Print Assumptions C04_rle_independent.
Print Assumptions C04_rle_same_expansion.
Print Assumptions C04_range_of_ext.
Print Assumptions C04_range_of_sound.
Print Assumptions C04_range_of_nothing.
Print Assumptions C04_empties_inert.
Print Assumptions C04_empties_shift_rows.
Print Assumptions C04_typing_canonical.
Print Assumptions C04_sheet_limits_inside_guard.
Print Assumptions C04_no_panic_read_table.
Print Assumptions C04_row_limit.
Print Assumptions C04_row_containers_transparent.
Print Assumptions C04_row_containers_independent.
Print Assumptions C04_table_items_main.
Print Assumptions C04_no_panic_table_loop.
Print Assumptions C04_cell_layout_transparent.
Print Assumptions C04_row_layout_transparent.
Print Assumptions C04_row_layout_independent.
Print Assumptions C04_row_foreign_item_rejected.
Print Assumptions C04_table_items_layout_main.
Print Assumptions C04_table_layout_independent.
Print Assumptions C04_no_panic_read_ritems.
