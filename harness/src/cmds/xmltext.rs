// C19: binary text storage through the hooks (the XML storage forms go through `open` on
// generated files).  Sub-commands (args[0]):
//   wide <hex bytes>               xlsb wide_str            -> ok:<hex utf8>:<str_len> | err
//   decto <0|1> <hex stream> <len> cfb XlsEncoding::decode_to under code page 1200
//                                                           -> <hex utf8>:<chars>:<bytes>
use crate::util::*;

pub fn run(args: &[&str]) -> String {
    match args[0] {
        "wide" => match calamine::verif_hooks::xlsb::wide_str(&unhex(args[1])) {
            Ok((s, n)) => format!("ok:{}:{}", hexstr(&s), n),
            Err(_) => "err".to_string(),
        },
        "decto" => {
            let high = args[1] == "1";
            let len: usize = args[3].parse().unwrap();
            match calamine::verif_hooks::cfb::decode_to(1200, &unhex(args[2]), len, Some(high)) {
                Ok((s, l, ub)) => format!("{}:{}:{}", hexstr(&s), l, ub),
                Err(_) => "err".to_string(),
            }
        }
        _ => "bad-args".to_string(),
    }
}
