"""pwgen — generators of password-protected workbooks for property C20 (owner: C20).
Written from [MS-CFB], [MS-OFFCRYPTO], [MS-XLS] 2.4.117 and the ODF 1.2 manifest schema, not from
calamine.

cfb_build(entries, rng, version, ...) -> (file bytes, directory chain bytes)
    a compound file with a real storage tree, random physical layout: both sector sizes, shuffled
    sector order, streams in the mini stream or in regular sectors by size, shuffled directory
    order (root stays entry 0), optional DIFAT sectors, free sectors, garbage behind the name
    terminator of an entry.
encrypted_ooxml(rng, ...)   -> (bytes, dir chain, description)   EncryptionInfo + EncryptedPackage (+ \\x06DataSpaces)
encrypted_xls(rng, ...)     -> (bytes, workbook stream, description)  FILEPASS at a legal position
ods_file(rng, manifest events, ...) / manifest_xml(events, rng) / gen_manifest(rng, ...)
cfb_dir_chain(data)         -> (sector size, directory chain) of an existing compound file (reader
                               used to feed fixture files to the model)
"""
import io, struct, zipfile

FREE, EOC, FATSECT, DIFSECT = 0xFFFFFFFF, 0xFFFFFFFE, 0xFFFFFFFD, 0xFFFFFFFC
OLE_SIG = bytes.fromhex("D0CF11E0A1B11AE1")

# ------------------------------------------------------------------ compound file writer
class Entry:
    """name: str; typ: 1 storage | 2 stream; data: bytes (streams); parent: index into the entry
    list (None = child of the root); pad: bytes put behind the name terminator"""
    def __init__(self, name, typ, data=b"", parent=None, pad=b""):
        self.name, self.typ, self.data, self.parent, self.pad = name, typ, data, parent, pad

def _name_field(name, pad=b""):
    n = name.encode("utf-16-le") + b"\0\0"
    assert len(n) <= 64
    return (n + pad).ljust(64, b"\0")[:64], len(n)

def cfb_build(entries, rng, version=3, shuffle=True, shuffle_dir=True, extra_free=0,
              header_difat=109, cutoff=4096, root_name="Root Entry"):
    """entries: [Entry]; returns (file, directory chain)."""
    ss = 512 if version == 3 else 4096
    n = len(entries)
    # directory positions: root at 0, the others in any order
    order = list(range(n))
    if shuffle_dir:
        rng.shuffle(order)
    pos = {e: i + 1 for i, e in enumerate(order)}          # entry index -> directory id
    small = [i for i, e in enumerate(entries) if e.typ == 2 and len(e.data) < cutoff]
    big = [i for i, e in enumerate(entries) if e.typ == 2 and len(e.data) >= cutoff]
    # mini stream
    nmini = sum((len(entries[i].data) + 63) // 64 for i in small)
    mids = list(range(nmini))
    if shuffle:
        rng.shuffle(mids)
    mini = bytearray(nmini * 64)
    minifat = [FREE] * nmini
    start, k = {}, 0
    for i in small:
        b = entries[i].data
        cnt = (len(b) + 63) // 64
        ids = mids[k:k + cnt]; k += cnt
        start[i] = ids[0] if ids else EOC
        for j, sid in enumerate(ids):
            piece = b[j * 64:(j + 1) * 64]
            mini[sid * 64:sid * 64 + len(piece)] = piece
            minifat[sid] = ids[j + 1] if j + 1 < len(ids) else EOC
    objs = [("s%d" % i, bytes(entries[i].data)) for i in big]
    if nmini:
        objs.append(("mini", bytes(mini)))
        mf = b"".join(struct.pack("<I", x) for x in minifat)
        objs.append(("minifat", mf.ljust(((len(mf) + ss - 1) // ss) * ss, b"\xff")))
    ndir = 1 + n
    dir_secs = (ndir * 128 + ss - 1) // ss
    objs.append(("dir", b"\0" * (dir_secs * ss)))
    ndata = sum((len(b) + ss - 1) // ss for _, b in objs) + extra_free
    per = ss // 4
    nfat, ndif = 1, 0
    while True:
        ndif = 0 if nfat <= header_difat else (nfat - header_difat + per - 2) // (per - 1)
        if nfat * per >= ndata + nfat + ndif:
            break
        nfat += 1
    total = ndata + nfat + ndif
    ids = list(range(total))
    if shuffle:
        rng.shuffle(ids)
    fat = [FREE] * (nfat * per)
    fat_ids = ids[:nfat]
    dif_ids = ids[nfat:nfat + ndif]
    p = nfat + ndif
    for f in fat_ids:
        fat[f] = FATSECT
    for f in dif_ids:
        fat[f] = DIFSECT
    chains = {}
    for kname, b in objs:
        cnt = (len(b) + ss - 1) // ss
        c = ids[p:p + cnt]; p += cnt
        chains[kname] = c
        for j, sid in enumerate(c):
            fat[sid] = c[j + 1] if j + 1 < len(c) else EOC
    sectors = [bytes(rng.getrandbits(8) for _ in range(16)).ljust(ss, b"\0") if extra_free else b"\0" * ss
               for _ in range(total)]
    for kname, b in objs:
        if kname == "dir":
            continue
        for j, sid in enumerate(chains[kname]):
            sectors[sid] = b[j * ss:(j + 1) * ss].ljust(ss, b"\0")
    # storage tree: the children of a storage form a right-leaning sibling chain
    children = {}
    for i, e in enumerate(entries):
        children.setdefault(e.parent, []).append(i)
    child_of, right_of, left_of = {}, {}, {}
    shape = rng.choice(["chain", "chain", "tree", "unsorted"])
    def link(ch):
        """any binary tree over ch (in the given order = in-order): returns the entry at its top"""
        if not ch:
            return None
        k = rng.randrange(len(ch))
        l, r = link(ch[:k]), link(ch[k + 1:])
        if l is not None:
            left_of[ch[k]] = pos[l]
        if r is not None:
            right_of[ch[k]] = pos[r]
        return ch[k]
    for par, ch in children.items():
        ch = sorted(ch, key=lambda i: (len(entries[i].name), entries[i].name.upper()))
        if shape == "chain":
            child_of[par] = pos[ch[0]]
            for a, b in zip(ch, ch[1:]):
                right_of[a] = pos[b]
        else:
            if shape == "unsorted":
                # a writer that links the entries in creation order: a binary tree, not a search tree
                ch = list(ch); rng.shuffle(ch)
            child_of[par] = pos[link(ch)]
    def dirent(name, typ, st, size, child=FREE, right=FREE, pad=b"", left=FREE):
        nf, nl = _name_field(name, pad)
        return (nf + struct.pack("<H", nl) + bytes([typ, 1]) + struct.pack("<III", left, right, child) +
                b"\0" * 36 + struct.pack("<I", st) + struct.pack("<Q", size))
    slots = [None] * ndir
    slots[0] = dirent(root_name, 5, chains["mini"][0] if nmini else EOC, nmini * 64,
                      child=child_of.get(None, FREE))
    for i, e in enumerate(entries):
        if e.typ == 2:
            st = chains["s%d" % i][0] if i in big else start[i]
            slots[pos[i]] = dirent(e.name, 2, st, len(e.data), right=right_of.get(i, FREE), pad=e.pad,
                                   left=left_of.get(i, FREE))
        else:
            slots[pos[i]] = dirent(e.name, 1, 0, 0, child=child_of.get(i, FREE),
                                   right=right_of.get(i, FREE), pad=e.pad, left=left_of.get(i, FREE))
    d = b"".join(slots)
    # unused directory slots: free entries (type 0), name empty
    free_ent = b"\0" * 64 + struct.pack("<H", 0) + bytes([0, 0]) + struct.pack("<III", FREE, FREE, FREE) + b"\0" * 48
    while len(d) < dir_secs * ss:
        d += free_ent
    for j, sid in enumerate(chains["dir"]):
        sectors[sid] = d[j * ss:(j + 1) * ss]
    fb = b"".join(struct.pack("<I", x) for x in fat)
    for j, sid in enumerate(fat_ids):
        sectors[sid] = fb[j * ss:(j + 1) * ss]
    # DIFAT sectors
    rest = fat_ids[header_difat:]
    for j, sid in enumerate(dif_ids):
        part = rest[j * (per - 1):(j + 1) * (per - 1)]
        body = b"".join(struct.pack("<I", x) for x in part) + struct.pack("<I", FREE) * (per - 1 - len(part))
        body += struct.pack("<I", dif_ids[j + 1] if j + 1 < len(dif_ids) else EOC)
        sectors[sid] = body
    hdr = OLE_SIG + b"\0" * 16
    hdr += struct.pack("<HHHHH", 0x3E, version, 0xFFFE, 9 if version == 3 else 12, 6) + b"\0" * 6
    hdr += struct.pack("<III", 0 if version == 3 else dir_secs, nfat, chains["dir"][0])
    hdr += struct.pack("<II", 0, 4096)
    hdr += struct.pack("<II", chains["minifat"][0] if nmini else EOC, len(chains["minifat"]) if nmini else 0)
    hdr += struct.pack("<II", dif_ids[0] if dif_ids else EOC, len(dif_ids))
    first = fat_ids[:header_difat]
    hdr += b"".join(struct.pack("<I", x) for x in first) + struct.pack("<I", FREE) * (109 - len(first))
    assert len(hdr) == 512
    return hdr.ljust(ss, b"\0") + b"".join(sectors), d

# ------------------------------------------------------------------ compound file reader (directory only)
def cfb_dir_chain(data):
    """(sector size, directory chain as Cfb::new sees it) or None when the header is not usable.
    Follows [MS-CFB]: DIFAT -> FAT -> directory chain; truncated to dir_len * ss when that is not 0."""
    if len(data) < 512 or data[:8] != OLE_SIG:
        return None
    shift = struct.unpack_from("<H", data, 30)[0]
    if shift not in (9, 12) or struct.unpack_from("<H", data, 32)[0] != 6:
        return None
    ss = 1 << shift
    dir_len, fat_len, dir_start = struct.unpack_from("<III", data, 40)
    difat_start = struct.unpack_from("<I", data, 68)[0]
    def sector(i):
        return data[(i + 1) * ss:(i + 2) * ss] if ss == 512 else data[(i + 1) * ss:(i + 2) * ss]
    difat = list(struct.unpack_from("<109I", data, 76))
    sid, seen = difat_start, 0
    while sid < 0xFFFFFFFA and seen < 10000:
        s = sector(sid)
        vals = list(struct.unpack("<%dI" % (len(s) // 4), s[:len(s) // 4 * 4]))
        if not vals:
            break
        difat += vals[:-1]
        sid = vals[-1]
        seen += 1
    fat = []
    for f in difat:
        if f < DIFSECT:
            s = sector(f)
            fat += list(struct.unpack("<%dI" % (len(s) // 4), s[:len(s) // 4 * 4]))
    chain, sid, seen = b"", dir_start, 0
    while sid != EOC and seen < 100000:
        chain += sector(sid)
        if sid >= len(fat):
            return None
        sid = fat[sid]
        seen += 1
    if dir_len * ss > 0:
        chain = chain[:dir_len * ss]
    return ss, chain

def cfb_stream(data, name):
    """content of a root-level stream of a well-formed compound file (used for fixtures)"""
    r = cfb_dir_chain(data)
    if r is None:
        return None
    ss, chain = r
    def sector(i):
        return data[(i + 1) * ss:(i + 2) * ss]
    difat = list(struct.unpack_from("<109I", data, 76))
    sid = struct.unpack_from("<I", data, 68)[0]
    while sid < 0xFFFFFFFA:
        vals = list(struct.unpack("<%dI" % (ss // 4), sector(sid)))
        difat += vals[:-1]; sid = vals[-1]
    fat = []
    for f in difat:
        if f < DIFSECT:
            fat += list(struct.unpack("<%dI" % (ss // 4), sector(f).ljust(ss, b"\xff")))
    def read_chain(st, table, get):
        out, sid, n = b"", st, 0
        while sid != EOC and n < 1000000:
            out += get(sid); sid = table[sid]; n += 1
        return out
    ents = [chain[i:i + 128] for i in range(0, len(chain) - 127, 128)]
    root = ents[0]
    mini_fat_start, mini_fat_len = struct.unpack_from("<II", data, 60)
    ministream = read_chain(struct.unpack_from("<I", root, 116)[0], fat, sector) if mini_fat_len else b""
    minifat = []
    if mini_fat_len:
        mf = read_chain(mini_fat_start, fat, sector)
        minifat = list(struct.unpack("<%dI" % (len(mf) // 4), mf))
    for e in ents:
        nl = struct.unpack_from("<H", e, 64)[0]
        nm = e[:max(0, nl - 2)].decode("utf-16-le", "replace")
        if nm == name and e[66] == 2:
            st = struct.unpack_from("<I", e, 116)[0]
            size = struct.unpack_from("<Q", e, 120)[0] if ss == 4096 else struct.unpack_from("<I", e, 120)[0]
            if size < 4096:
                return read_chain(st, minifat, lambda i: ministream[i * 64:(i + 1) * 64])[:size]
            return read_chain(st, fat, sector)[:size]
    return None

# ------------------------------------------------------------------ encrypted OOXML ([MS-OFFCRYPTO])
def rnd(rng, n):
    return bytes(rng.getrandbits(8) for _ in range(n))

def encryption_info(rng, variant, size_hint=None):
    if variant == "standard":       # 2.3.4.5: version 3.2 / 4.2, flags, header, verifier
        ver = rng.choice([(3, 2), (4, 2), (2, 2)])
        csp = "Microsoft Enhanced RSA and AES Cryptographic Provider".encode("utf-16-le") + b"\0\0"
        hdr = struct.pack("<IIIIIIII", 0x24, 0, 0x660E, 0x8004, 128, 0x18, 0, 0) + csp
        body = struct.pack("<HHI", ver[0], ver[1], 0x24) + struct.pack("<I", len(hdr)) + hdr
        body += struct.pack("<I", 16) + rnd(rng, 16) + rnd(rng, 16) + struct.pack("<I", 20) + rnd(rng, 32)
    elif variant == "agile":        # 2.3.4.10: version 4.4 + XML descriptor
        xml = ('<?xml version="1.0" encoding="UTF-8" standalone="yes"?><encryption xmlns="http://schemas.microsoft.com/office/2006/encryption">'
               '<keyData saltSize="16" blockSize="16" keyBits="256" hashSize="64" cipherAlgorithm="AES" cipherChaining="ChainingModeCBC" '
               'hashAlgorithm="SHA512" saltValue="%s"/><dataIntegrity encryptedHmacKey="%s" encryptedHmacValue="%s"/></encryption>'
               % (rnd(rng, 12).hex(), rnd(rng, 30).hex(), rnd(rng, 30).hex()))
        body = struct.pack("<HHI", 4, 4, 0x40) + xml.encode()
    elif variant == "extensible":   # 2.3.4.6: version 3.3 / 4.3
        body = struct.pack("<HHI", rng.choice([3, 4]), 3, 0x10) + rnd(rng, rng.randrange(40, 400))
    else:                           # anything at all
        body = rnd(rng, rng.randrange(0, 200))
    if size_hint is not None and len(body) < size_hint:
        body += rnd(rng, size_hint - len(body))
    return body

PKG_SIZES = [0, 1, 8, 63, 64, 65, 4095, 4096, 4097, 8192]

def encrypted_ooxml(rng, version=None, pkg_size=None, info_variant=None, info_big=None, dataspaces=None,
                    extra=None, shuffle=True, shuffle_dir=True, header_difat=109, pad=None, extra_free=None, recase=None):
    version = version or rng.choice([3, 4])
    # CFB-1: compound-file names compare up to case (MS-CFB 2.6.4): a writer that upper-cases its stream
    # names still wrote an encrypted package
    recase = (rng.random() < 0.3) if recase is None else recase
    def spell(n):
        if not recase:
            return n
        k = rng.random()
        return n.upper() if k < 0.5 else n.lower() if k < 0.7 else "".join(ch.swapcase() if rng.random() < 0.5 else ch for ch in n)
    if pkg_size is None:
        pkg_size = rng.choice(PKG_SIZES + [rng.randrange(0, 20000), rng.randrange(20000, 120000)])
    info_variant = info_variant or rng.choice(["standard", "agile", "extensible", "garbage"])
    info_big = rng.random() < 0.3 if info_big is None else info_big
    dataspaces = rng.random() < 0.7 if dataspaces is None else dataspaces
    pad = (rnd(rng, rng.randrange(1, 30)) if rng.random() < 0.3 else b"") if pad is None else pad
    info = encryption_info(rng, info_variant, 4096 + rng.randrange(0, 3000) if info_big else None)
    ents = [Entry(spell("EncryptionInfo"), 2, info), Entry(spell("EncryptedPackage"), 2, rnd(rng, pkg_size), pad=pad)]
    if dataspaces:
        ds = len(ents); ents.append(Entry("\x06DataSpaces", 1))
        ents.append(Entry("Version", 2, rnd(rng, 76), parent=ds))
        ents.append(Entry("DataSpaceMap", 2, rnd(rng, 112), parent=ds))
        dsi = len(ents); ents.append(Entry("DataSpaceInfo", 1, parent=ds))
        ents.append(Entry("StrongEncryptionDataSpace", 2, rnd(rng, 64), parent=dsi))
        ti = len(ents); ents.append(Entry("TransformInfo", 1, parent=ds))
        st = len(ents); ents.append(Entry("StrongEncryptionTransform", 1, parent=ti))
        ents.append(Entry("\x06Primary", 2, rnd(rng, 200), parent=st))
    for k in range(rng.randrange(0, 3) if extra is None else extra):
        nm = rng.choice(["\x05SummaryInformation", "\x05DocumentSummaryInformation", "Extra%d" % k,
                         "EncryptedPackag", "EncryptedPackageX", "EncryptédPackage"])
        if nm.upper() not in [e.name.upper() for e in ents]:
            ents.append(Entry(nm, 2, rnd(rng, rng.choice([0, 10, 300, 5000]))))
    extra_free = (rng.randrange(0, 4) if rng.random() < 0.3 else 0) if extra_free is None else extra_free
    data, chain = cfb_build(ents, rng, version=version, shuffle=shuffle, shuffle_dir=shuffle_dir,
                            header_difat=header_difat, extra_free=extra_free)
    desc = {"version": version, "pkg": pkg_size, "info": info_variant, "info_len": len(info),
            "dataspaces": dataspaces, "entries": [e.name for e in ents], "difat": header_difat, "pad": len(pad)}
    return data, chain, desc

# ------------------------------------------------------------------ encrypted xls ([MS-XLS] 2.4.117)
def rec(t, body=b""):
    assert len(body) <= 0xFFFF
    return struct.pack("<HH", t, len(body)) + body

def filepass_body(rng, kind):
    if kind == "xor":            # wEncryptionType 0: key, verifier
        return struct.pack("<HHH", 0, rng.getrandbits(16), rng.getrandbits(16))
    if kind == "rc4":            # type 1, RC4 header 1.1: salt, verifier, verifier hash
        return struct.pack("<HHH", 1, 1, 1) + rnd(rng, 48)
    if kind == "cryptoapi":      # type 1, RC4 CryptoAPI header (major 2..4, minor 2)
        csp = "Microsoft Enhanced Cryptographic Provider v1.0".encode("utf-16-le") + b"\0\0"
        hdr = struct.pack("<IIIIIIII", 4, 0, 0x6801, 0x8004, 128, 1, 0, 0) + csp
        return (struct.pack("<HHH", 1, rng.choice([2, 3, 4]), 2) + struct.pack("<II", 4, len(hdr)) + hdr +
                struct.pack("<I", 16) + rnd(rng, 16) + rnd(rng, 16) + struct.pack("<I", 20) + rnd(rng, 20))
    if kind == "biff5":          # Excel 5.0/95: key and verifier only, no wEncryptionType (4 bytes)
        return struct.pack("<HH", rng.getrandbits(16), rng.getrandbits(16))
    if kind == "empty":
        return b""
    if kind == "short":
        return rnd(rng, 1)
    return rnd(rng, rng.randrange(0, 120))      # any type / garbage

def bof(dt, ver=0x0600):
    return rec(0x0809, struct.pack("<HHHHII", ver, dt, 0x0DBB, 0x07CC, 0, 0x0306))

# records a writer may put between BOF and FILEPASS (WRITEPROT 0x0086 in BIFF8; older writers and
# other producers: INTERFACEHDR, MMS, INTERFACEEND, WRITEACCESS, CODEPAGE, DSF, EXCEL9FILE, TABID …)
def pre_filepass_records(rng, how):
    out = []
    if how == "direct":
        return out
    pool = [(0x0086, b""), (0x00E1, struct.pack("<H", 1200)), (0x00C1, b"\0\0"), (0x00E2, b""),
            (0x005C, b"\x03\0\0abc".ljust(112, b" ")), (0x0042, struct.pack("<H", rng.choice([1200, 1252, 65001, 932]))),
            (0x0161, b"\0\0"), (0x01C0, b""), (0x013D, struct.pack("<HH", 1, 2)), (0x0022, struct.pack("<H", rng.choice([0, 1]))),
            (0x00E0, rnd(rng, 20)), (0x0031, rnd(rng, 16)), (0x005B, b"")]
    k = 1 if how == "writeprot" else rng.randrange(1, 8)
    if how == "writeprot":
        return [(0x0086, b"", [])]
    for _ in range(k):
        t, b = rng.choice(pool)
        conts = []
        if t not in (0x0042, 0x0022, 0x00E0) and rng.random() < 0.25:
            conts = [rnd(rng, rng.choice([0, 1, 5, 40])) for _ in range(rng.randrange(1, 3))]
        out.append((t, b, conts))
    return out

def encrypted_xls(rng, kind=None, how=None, stream_name=None, version=None, big=None, bof_ver=None,
                  filepass_conts=None):
    kind = kind or rng.choice(["xor", "rc4", "cryptoapi", "biff5", "garbage", "empty", "short"])
    how = how or rng.choice(["direct", "writeprot", "many"])
    stream_name = stream_name or rng.choice(["Workbook", "Book"])
    version = version or rng.choice([3, 4])
    pre = pre_filepass_records(rng, how)
    body = filepass_body(rng, kind)
    if kind == "biff5":
        bof_ver = bof_ver or 0x0500
    s = bof(0x0005, bof_ver or rng.choice([0x0600, 0x0500, 0x0600, 0]))
    for t, b, conts in pre:
        s += rec(t, b) + b"".join(rec(0x003C, c) for c in conts)
    s += rec(0x002F, body)
    if filepass_conts is None:
        filepass_conts = rng.random() < 0.1
    if filepass_conts:
        s += rec(0x003C, rnd(rng, 7))
    # what follows is ciphertext inside clear record headers: plausible globals then a sheet
    post = []
    for t in [0x0042, 0x0161, 0x013D, 0x0022, 0x0031, 0x041E, 0x00E0, 0x0085, 0x00FC, 0x003C, 0x0018, 0x0017, 0x000A,
              0x0809, 0x0200, 0x0203, 0x00FD, 0x000A]:
        if rng.random() < 0.8:
            post.append((t, rnd(rng, rng.choice([0, 1, 2, 4, 8, 20, 60]))))
    for t, b in post:
        s += rec(t, b)
    big = rng.random() < 0.4 if big is None else big
    if big and len(s) < 4096:
        s += rec(0x00EF, rnd(rng, 4200 - len(s)))
    ents = [Entry(stream_name, 2, s)]
    if rng.random() < 0.5:
        ents.append(Entry("\x05SummaryInformation", 2, rnd(rng, rng.choice([100, 4096]))))
    if rng.random() < 0.3:
        ents.append(Entry("\x05DocumentSummaryInformation", 2, rnd(rng, 200)))
    data, chain = cfb_build(ents, rng, version=version, shuffle=rng.random() < 0.7)
    desc = {"kind": kind, "how": how, "stream": stream_name, "version": version, "stream_len": len(s),
            "pre": [hex(t) for t, _, _ in pre]}
    return data, s, desc

def globals_prefix(stream, extra=1):
    """the stream up to the end of the record that follows the first EOF (0x000A) record, walking
    record headers; the whole stream when the walk fails (for the model side: the loop never
    looks further)"""
    p, n = 0, len(stream)
    while p + 4 <= n:
        t, l = struct.unpack_from("<HH", stream, p)
        if p + 4 + l > n:
            return stream
        p += 4 + l
        if t in (0x000A, 0x002F):
            for _ in range(extra + 3):
                if p + 4 <= n:
                    t2, l2 = struct.unpack_from("<HH", stream, p)
                    if p + 4 + l2 > n:
                        return stream
                    p += 4 + l2
            return stream[:p]
    return stream

# ------------------------------------------------------------------ ods
MIMETYPE = b"application/vnd.oasis.opendocument.spreadsheet"
MANIFEST_NS = "urn:oasis:names:tc:opendocument:xmlns:manifest:1.0"

def qn(pfx, local):
    return (pfx + ":" + local) if pfx else local

def gen_manifest(rng, n_entries=None, encrypted=None, prefix=None, enc_prefix=None, junk=True):
    """returns (events, number of encrypted entries); events: ('S', qname, attrs) | ('E', qname) |
    ('O', kind, text) | ('X',); an element that may be written as an empty-element tag is S + E."""
    pfx = rng.choice(["manifest", "manifest", "m", "", "x1", "MANIFEST", "mf-2"]) if prefix is None else prefix
    n = rng.choice([1, 2, 3, 5, 12]) if n_entries is None else n_entries
    if encrypted is None:
        encrypted = [rng.random() < 0.4 for _ in range(n)]
    ev = []
    if rng.random() < 0.8:
        ev.append(("O", "decl", '<?xml version="1.0" encoding="UTF-8"?>'))
    if junk and rng.random() < 0.3:
        ev.append(("O", "comment", "<!-- a manifest -->"))
    if junk and rng.random() < 0.2:      # OpenOffice.org 1.x / 2.x wrote a document type declaration
        ev.append(("O", "doctype", '<!DOCTYPE manifest:manifest PUBLIC "-//OpenOffice.org//DTD Manifest 1.0//EN" "Manifest.dtd">'))
    attrs = [("xmlns:" + pfx if pfx else "xmlns", MANIFEST_NS), (qn(pfx, "version"), "1.2")]
    ev.append(("S", qn(pfx, "manifest"), attrs))
    paths = ["/", "content.xml", "styles.xml", "meta.xml", "settings.xml", "Thumbnails/thumbnail.png",
             "Configurations2/", "manifest.rdf"] + ["Pictures/p%d.png" % i for i in range(20)]
    for i in range(n):
        if junk and rng.random() < 0.5:
            ev.append(("O", "text", "\n "))
        ep = pfx if rng.random() < 0.85 else rng.choice(["", "m", "q", "manifest"])
        a = [(qn(ep, "full-path"), paths[i % len(paths)]), (qn(ep, "media-type"), "text/xml")]
        if encrypted[i]:
            a.append((qn(ep, "size"), str(rng.randrange(10, 100000))))
        ev.append(("S", qn(ep, "file-entry"), a))
        if junk and rng.random() < 0.2:
            x = rng.choice(["ext:note", "foo", qn(ep, "file-entryx"), qn(ep, "xencryption-data"), "a:b:c"])
            ev += [("S", x, []), ("E", x)]
        if encrypted[i]:
            xp = ep if enc_prefix is None else enc_prefix
            if enc_prefix is None and rng.random() < 0.15:
                xp = rng.choice(["", "m", "enc", "manifest"])
            ev.append(("S", qn(xp, "encryption-data"),
                       [(qn(xp, "checksum-type"), "urn:oasis:names:tc:opendocument:xmlns:manifest:1.0#sha256-1k"),
                        (qn(xp, "checksum"), "q83vASNFZ4k=")]))
            for child, at in (("algorithm", [("algorithm-name", "http://www.w3.org/2001/04/xmlenc#aes256-cbc"),
                                             ("initialisation-vector", "AAAA")]),
                              ("key-derivation", [("key-derivation-name", "PBKDF2"), ("iteration-count", "100000")]),
                              ("start-key-generation", [("start-key-generation-name", "http://www.w3.org/2000/09/xmldsig#sha256")])):
                if rng.random() < 0.9:
                    ev += [("S", qn(xp, child), [(qn(xp, k), v) for k, v in at]), ("E", qn(xp, child))]
            ev.append(("E", qn(xp, "encryption-data")))
        ev.append(("E", qn(ep, "file-entry")))
    if junk and rng.random() < 0.3:
        ev.append(("O", "text", "\n"))
    ev.append(("E", qn(pfx, "manifest")))
    return ev, sum(1 for x in encrypted if x)

def esc(v):
    return v.replace("&", "&amp;").replace('"', "&quot;").replace("<", "&lt;")

def manifest_xml(events, rng, allow_empty=True):
    out, i = [], 0
    while i < len(events):
        e = events[i]
        if e[0] == "S":
            at = "".join(' %s=%s' % (k, ('"%s"' % esc(v)) if rng.random() < 0.9 else ("'%s'" % esc(v).replace("'", "&apos;")))
                         for k, v in e[2])
            sp = rng.choice(["", "", " ", "\n"])
            if allow_empty and i + 1 < len(events) and events[i + 1] == ("E", e[1]) and rng.random() < 0.7:
                out.append("<%s%s%s/>" % (e[1], at, sp)); i += 2; continue
            out.append("<%s%s%s>" % (e[1], at, sp))
        elif e[0] == "E":
            out.append("</%s%s>" % (e[1], rng.choice(["", "", " "])))
        elif e[0] == "O":
            out.append(e[2])
        elif e[0] == "X":
            out.append("<![CDATA[ never closed ")
        i += 1
    return "".join(out).encode("utf-8")

def events_wire(events):
    w = []
    for e in events:
        if e[0] == "S":
            w.append("S" + e[1].encode().hex())
        elif e[0] == "E":
            w.append("E" + e[1].encode().hex())
        elif e[0] == "O":
            w.append("O")
        else:
            w.append("X")
    return "+".join(w) if w else "-"

def ods_file(rng, manifest=None, mimetype=MIMETYPE, content=None, with_mimetype=True, extra_parts=()):
    bio = io.BytesIO()
    with zipfile.ZipFile(bio, "w") as z:
        def put(name, data, stored=False):
            zi = zipfile.ZipInfo(name, date_time=(2020, 1, 1, 0, 0, 0))
            zi.compress_type = zipfile.ZIP_STORED if stored or rng.random() < 0.4 else zipfile.ZIP_DEFLATED
            z.writestr(zi, data)
        if with_mimetype:
            put("mimetype", mimetype, stored=True)
        if manifest is not None:
            put("META-INF/manifest.xml", manifest)
        put("content.xml", content if content is not None else rnd(rng, rng.randrange(100, 3000)))
        for n, d in extra_parts:
            put(n, d)
    return bio.getvalue()

PLAIN_CONTENT = (b'<?xml version="1.0" encoding="UTF-8"?><office:document-content '
                 b'xmlns:office="urn:oasis:names:tc:opendocument:xmlns:office:1.0" '
                 b'xmlns:table="urn:oasis:names:tc:opendocument:xmlns:table:1.0" '
                 b'xmlns:text="urn:oasis:names:tc:opendocument:xmlns:text:1.0" office:version="1.2"><office:body>'
                 b'<office:spreadsheet><table:table table:name="S"><table:table-row><table:table-cell '
                 b'office:value-type="string"><text:p>a</text:p></table:table-cell></table:table-row></table:table>'
                 b'</office:spreadsheet></office:body></office:document-content>')

def xml_events(xml):
    """tokenises well-formed XML (bytes) into the wire events of the model: S / E per tag (an
    empty-element tag gives S + E), O for everything else; quotes are honoured inside tags"""
    s = xml.decode("utf-8", "replace")
    ev, i, n = [], 0, len(s)
    while i < n:
        if s[i] != "<":
            j = s.find("<", i)
            j = n if j < 0 else j
            ev.append(("O", "text", s[i:j])); i = j; continue
        if s.startswith("<!--", i):
            j = s.find("-->", i + 4)
            if j < 0:
                ev.append(("X",)); break
            ev.append(("O", "comment", s[i:j + 3])); i = j + 3; continue
        if s.startswith("<![CDATA[", i):
            j = s.find("]]>", i)
            if j < 0:
                ev.append(("X",)); break
            ev.append(("O", "cdata", s[i:j + 3])); i = j + 3; continue
        if s.startswith("<?", i):
            j = s.find("?>", i)
            if j < 0:
                ev.append(("X",)); break
            ev.append(("O", "pi", s[i:j + 2])); i = j + 2; continue
        if s.startswith("<!", i):
            j = s.find(">", i)
            if j < 0:
                ev.append(("X",)); break
            ev.append(("O", "doctype", s[i:j + 1])); i = j + 1; continue
        j, q = i + 1, None
        while j < n and (q or s[j] != ">"):
            if q:
                if s[j] == q:
                    q = None
            elif s[j] in "\"'":
                q = s[j]
            j += 1
        if j >= n:
            ev.append(("X",)); break
        body = s[i + 1:j]
        if body.startswith("/"):
            ev.append(("E", body[1:].strip()))
        else:
            empty = body.endswith("/")
            if empty:
                body = body[:-1]
            name = body.split()[0] if body.split() else ""
            ev.append(("S", name, []))
            if empty:
                ev.append(("E", name))
        i = j + 1
    return ev
