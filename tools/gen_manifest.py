#!/usr/bin/env python3
"""Writes /verif/MANIFEST.json from the table below (one place to edit; keeps the file valid)."""
import json, os
ROOT = os.path.dirname(os.path.dirname(os.path.abspath(__file__)))
BASELINE_OFF = ("cd /repo && CARGO_NET_OFFLINE=true cargo test --workspace --no-fail-fast --offline")

TB = ("Trusted: Coq 8.16.1 kernel; axioms as printed by Print Assumptions under each property theorem "
      "(none unless stated); extraction (ExtrOcamlBasic only) and the OCaml driver; the Rust harness and "
      "Python driver of the correspondence check. The theorems are about the hand-written Gallina model; "
      "the model is tied to /repo only as far as the correspondence run samples it.")

# property -> dict(claimed, text, note, technique, design_ref) ; unclaimed ones carry a reason
P = {
 "C05": dict(claimed=True,
   text="Unbounded Coq theorems over the Range model (Range.v): every precondition-respecting history keeps the "
        "range well formed and panic-free (C05_history_wf, induction over the op list); set_value / from_sparse / "
        "range(window) / new characterised cell by cell against bounding-box specs; accessors agree under Wf. "
        "The model is tied to src/lib.rs by running random histories (every accessor dumped after every step) "
        "through the real Range<Data> and the extracted model; a naive dictionary spec is the search oracle.",
   note=TB + " Range<Data> with Int/Empty values stands for every CellType; ranges of >= 2^32 cells excluded by precondition.",
   technique="Coq proof (induction over operation histories, flat-index lemmas) + extracted-model correspondence",
   design_ref="5/C05"),
 "C07": dict(claimed=True,
   text="Partial by nature. Coq theorems over the reader state machine (Reader.v): the answer of a call after ANY history is the "
        "file's answer for that call under the header-row option in force (C07_history_pure, induction over the op list), options "
        "are reversible, read calls never change the option; the owned range is the borrowed one mapped cell by cell (rect, "
        "get_value at every position, rows, Wf), worksheet_range_at is the n-th name, an unknown name never resolves to another "
        "sheet. The runtime state that could break purity (zip cursor, caches) is not in the model: it is covered by a metamorphic "
        "correspondence run — random call histories on one opened workbook against freshly opened workbooks with the option the "
        "extracted model says is in force — plus direct checks of range/ref/at/worksheets()/unknown-name/auto-detection agreement.",
   note=TB + " The per-format file semantics is a parameter of the model (instantiated by the other properties' sheet models); "
        "workbooks exercised are the repository fixtures plus generated files.",
   technique="Coq proof (state-machine induction; map over Range) + metamorphic correspondence through the public API",
   design_ref="5/C07"),
}
REASON_TODO = "not claimed yet: model and theorems for this property are still being built (see DESIGN.md section 9)"

def main():
    props = [json.loads(l)["id"] for l in open(os.path.join(ROOT, "properties.jsonl"))]
    checks, na = [], []
    for pid in props:
        e = P.get(pid)
        if e and e.get("claimed"):
            checks.append({
                "property_id": pid,
                "quick_cmd": "./check %s --tier quick" % pid,
                "thorough_cmd": "./check %s --tier thorough" % pid,
                "evidence_file": "/verif/evidence/%s.json" % pid,
                "replay_cmd_template": "./check %s --replay {path}" % pid,
                "engine": "coq-model-correspondence",
                "level_claimed": {"category": "proof", "text": e["text"], "design_ref": "DESIGN.md section " + e["design_ref"]},
                "level_note": e["note"],
                "technique": e["technique"],
            })
        else:
            na.append({"property_id": pid, "reason": (e or {}).get("reason", REASON_TODO)})
    m = {
        "version": 1,
        "setup_cmd": "./setup.sh",
        "hooks": {
            "guard": "--cfg calamine_verif",
            "enable": "RUSTFLAGS=\"--cfg calamine_verif\" cargo build --offline (the harness /verif/harness depends on /repo by path; hooks live in src/verif_hooks.rs)",
            "baseline_off_cmd": BASELINE_OFF,
            "source_commits": HOOK_COMMITS,
            "add_only": True,
        },
        "engines": [{
            "name": "coq-model-correspondence", "path": "/verif/check",
            "serves_properties": [c["property_id"] for c in checks],
            "kind_free_text": "Coq 8.16 theorems about an executable Gallina model (coq/theories), extracted to OCaml (ocaml/vm) and "
                              "compared case by case with the Rust harness (harness/vh) linked against /repo's working tree",
        }],
        "checks": checks,
        "not_applicable": na,
        "notes": "Machine-checked proof in Coq 8.16.1; see DESIGN.md. known_findings.json lists recorded defects and fix: commits.",
    }
    with open(os.path.join(ROOT, "MANIFEST.json"), "w") as f:
        json.dump(m, f, indent=1)
        f.write("\n")

HOOK_COMMITS = ["6e4993e"]
if __name__ == "__main__":
    main()
