"""C11 — serial date-times convert to the right calendar date, time and duration.

Correspondence: bit patterns through calamine's public API (vh serial: ExcelDateTime::new(..)
.as_datetime()/.as_duration(), Data::{Float,Int,DateTime,..}.as_datetime()/as_date()/as_time()/
as_duration(), feature "dates") and through the extracted Coq model (vm serial: Serial.v on
Flocq binary64).  Answers are integers only (day number, seconds of day, nanoseconds, y-m-d as
chrono / Civil.civil_of_days report them, duration seconds/nanos/milliseconds).

Search oracle (implementation vs. specification), written from the property text and independent
of the Coq model: exact rational arithmetic (fractions.Fraction) for serial x 86 400 000, Python's
datetime as the reference calendar (shifted by whole 400-year cycles outside years 1..9999),
nearest millisecond with ties away from zero.  A result is accepted when it is the correctly
rounded millisecond count of some value within the accumulated floating-point error bound of the
exact product (half an ulp per float operation the conversion performs); everything else —
wrong day, wrong field, panic, Some where None is due or vice versa, as_date/as_time not the
components of as_datetime, a decrease between two ordered serials outside the known class — is a
violation.  Known class F16 (serial on the fictitious 1900-02-29) is classified by the extracted
known_C11.  The eight serde helpers deserialize_as_{datetime,date,time,duration}_or_{none,string}
are run on real Range<Data> rows through RangeDeserializer; their specification is "the cell's own
conversion" (checked twice: by the oracle, and against what the implementation itself answers for
cell.as_datetime()/as_date()/as_time()/as_duration()).  F34 (1904 flag lost) and F35 (duration
always None) are fixed: no known class is left at the helpers and their former witnesses are corpus
regressions (HELPER_REGRESSIONS)."""
import datetime, math, re, struct
from fractions import Fraction
import vlib

ASSUMPTIONS = [
    "ISO-string cells (Data::DateTimeIso / DurationIso) go through chrono's string parser and are outside the model; for them only 'helper = the implementation's own cell conversion' is checked (check_iso_helpers)",
    "DataRef shares the trait's default methods with Data; only Data is exercised",
    "a chrono NaiveDate is identified with its day number; the identification (year, month, day as chrono reports them = Civil.civil_of_days) is checked on every case, exhaustively for days 0..2958465 in the thorough tier",
    "NaN payloads are not observable through this API (all answers are integers or None)",
]

MS = 86400000
EPOCH = -25569                      # 1899-12-30 as days since 1970-01-01
CE_TO_UNIX = 719163
MIN_DAYS = -96465292                # -262143-01-01
MAX_DAYS = 95026236                 # 262142-12-31
I64 = 2 ** 63
MAXSERIAL = 2958465                 # 9999-12-31 in the 1900 system

def bits_of(x):
    return struct.unpack("<Q", struct.pack("<d", x))[0]
def float_of(b):
    return struct.unpack("<d", struct.pack("<Q", b & (2 ** 64 - 1)))[0]
def nudge(x, k):
    """x moved by k ulps (k may be negative)"""
    for _ in range(abs(k)):
        x = math.nextafter(x, math.inf if k > 0 else -math.inf)
    return x

# ------------------------------------------------------------------ reference calendar
def ref_ymd(days):
    """(y, m, d) of a day number (days since 1970-01-01) by Python's datetime; outside years 1..9999
    the day is first moved by whole 400-year cycles (146097 days) into that window."""
    o = days + CE_TO_UNIX            # proleptic Gregorian ordinal, 0001-01-01 = 1
    k = 0
    if o < 1 or o > 3652059:
        k = (o - 730120) // 146097   # bring it near year 2000
        o -= k * 146097
    d = datetime.date.fromordinal(o)
    return d.year + 400 * k, d.month, d.day

def round_half_away(q):
    """nearest integer of a Fraction, ties away from zero"""
    a = abs(q)
    n = (2 * a.numerator + a.denominator) // (2 * a.denominator)
    return -n if q < 0 else n

def ulp_half(x):
    try:
        return Fraction(math.ulp(x)) / 2
    except (OverflowError, ValueError):
        return Fraction(0)

DT_RE = re.compile(r"^D(-?\d+),(\d+),(\d+),(-?\d+)-(\d+)-(\d+)$")

def ms_window(v, sys1904, shim):
    """(lo, hi): the millisecond counts the conversion may legitimately produce for serial v:
    nearest-ties-away of every value within the float error bound of the exact product."""
    s = Fraction(v)
    tol_days = Fraction(0)
    if shim:
        if sys1904:
            tol_days += ulp_half(v + 1462.0)
            s += 1462
        if s < 60:
            tol_days += ulp_half(float(s) + 1.0)
            s += 1
    exact = s * MS
    try:
        tol = tol_days * MS + ulp_half(float(exact))
    except OverflowError:
        return None
    return round_half_away(exact - tol), round_half_away(exact + tol)

def check_datetime(ans, v, sys1904):
    """None if ans is an acceptable as_datetime answer for serial v, else a description"""
    if ans == "panic":
        return "panic"
    if math.isnan(v) or math.isinf(v):
        return None if ans == "N" else "non-finite serial must give None"
    w = ms_window(v, sys1904, True)
    if w is None:
        return None if ans == "N" else "huge serial must give None"
    lo, hi = w
    def in_calendar(n):
        return MIN_DAYS <= EPOCH + n // MS <= MAX_DAYS
    if ans == "N":
        # None is right when some admissible millisecond count falls outside chrono's calendar
        # (the i64 millisecond range is far wider than the calendar, so it needs no separate case)
        if not in_calendar(lo) or not in_calendar(hi):
            return None
        return "None for a serial inside the calendar (expected ms in [%d, %d])" % (lo, hi)
    m = DT_RE.match(ans)
    if not m:
        return "unparsable answer"
    days, secs, nanos, y, mo, d = (int(x) for x in m.groups())
    if nanos % 1000000 or not (0 <= secs < 86400) or not (0 <= nanos < 10 ** 9):
        return "time of day out of range or not whole milliseconds"
    n = (days - EPOCH) * MS + secs * 1000 + nanos // 1000000
    if not (lo <= n <= hi):
        return "millisecond count %d outside [%d, %d]" % (n, lo, hi)
    if not (MIN_DAYS <= days <= MAX_DAYS):
        return "date outside the calendar"
    if ref_ymd(days) != (y, mo, d):
        return "calendar date %d-%d-%d does not match day number %d (reference %r)" % (y, mo, d, days, ref_ymd(days))
    return None

def check_duration(ans, v):
    if ans == "panic":
        return "panic"
    if math.isnan(v) or math.isinf(v):
        return None if ans == "N" else "non-finite serial must give None"
    w = ms_window(v, False, False)
    if w is None:
        return None if ans == "N" else "huge serial must give None"
    lo, hi = w
    if ans == "N":
        # None is right when the rounded product reaches 2^63 ms (the guard of the conversion)
        return None if max(abs(lo), abs(hi)) >= I64 else "None for a representable duration"
    try:
        secs, sub, ms = (int(x) for x in ans.split(","))
    except ValueError:
        return "unparsable answer"
    if not (lo <= ms <= hi) or abs(ms) >= I64:
        return "duration %d ms outside [%d, %d]" % (ms, lo, hi)
    # num_seconds / subsec_nanos are consistent with the millisecond count (truncation toward zero)
    q = abs(ms) // 1000 * (1 if ms >= 0 else -1)
    r = (abs(ms) % 1000) * 1000000 * (1 if ms >= 0 else -1)
    if (secs, sub) != (q, r):
        return "num_seconds/subsec_nanos inconsistent with num_milliseconds"
    return None

def spec_check(kind, v, sys1904, impl, skip_dt=False, skip_dur=False):
    """implementation vs. specification for one case; returns None or (what, field).
    skip_dt / skip_dur: the date-time fields / the duration field are inside a known class."""
    f = impl.split("|")
    if kind in ("edt_dt", "edt_td"):
        if len(f) != 2:
            return "malformed answer", impl
        e = check_datetime(f[0], v, sys1904)
        if e:
            return e, "as_datetime"
        e = check_duration(f[1], v)
        if e:
            return e, "as_duration"
        return None
    if len(f) != 4:
        return "malformed answer", impl
    dt, date, time_, dur = f
    if kind in ("bool", "empty", "string", "error"):
        return None if f == ["N"] * 4 else ("a cell that is not a date converted", impl)
    sys_eff = sys1904 if kind in ("dt", "td") else False      # plain cells: 1900 system
    if "panic" in f:
        return "panic", impl
    e = None if skip_dt else check_datetime(dt, v, sys_eff)
    if e:
        return e, "as_datetime"
    # as_date / as_time are the components of as_datetime
    if not DT_RE.match(dt) and dt != "N":
        return "unparsable answer", impl
    if dt == "N":
        if date != "N" or time_ != "N":
            return "as_date/as_time not None although as_datetime is None", impl
    else:
        m = DT_RE.match(dt)
        days, secs, nanos, y, mo, d = m.groups()
        if date != "%s,%s-%s-%s" % (days, y, mo, d) or time_ != "%s,%s" % (secs, nanos):
            return "as_date/as_time are not the components of as_datetime", impl
    if skip_dur:
        return None
    if kind in ("float", "int"):
        if dur != "N":
            return "as_duration of a plain number must be None", "as_duration"
    else:
        e = check_duration(dur, v)
        if e:
            return e, "as_duration"
    return None

def whole_day_expected(d, sys1904):
    """exact expected answer of `edt_dt` for a whole serial d >= 0 (d != 60 in the 1900 system)"""
    k = d + 1462 if sys1904 else (d if d >= 60 else d + 1)
    days = EPOCH + k
    y, m, dd = ref_ymd(days)
    return "D%d,0,0,%d-%d-%d|%d,0,%d" % (days, y, m, dd, d * 86400, d * MS)

# ------------------------------------------------------------------ case generation
def case_line(cid, kind, value, sys1904, what="all"):
    return "%s\tserial\t%s\t%d\t%d\t%s" % (cid, kind, value, 1 if sys1904 else 0, what)

CORPUS_FLOATS = [
    0.0, -0.0, 1.0, 2.0, 58.0, 59.0, 59.5, 59.999999, 60.0, 60.5, 60.99999999, 61.0, 61.5, 366.0, 367.0,
    1461.0, 1462.0, 1463.0, -1402.0, -1401.5, -1401.0, -1462.0, -1461.0, -1.0, -0.5, 0.5,
    25569.0, 44484.7916666667, 0.18737500000000001, 0.25951736111111101, 25569.645833333333333,
    2958465.0, 2958465.99999999, 2958466.0, 2958467.0,
    1e20, -1e20, 1e300, -1e300, float("inf"), float("-inf"), float("nan"),
    5e-324, -5e-324, 2.2250738585072014e-308, 1e-10, -1e-10, 0.49999999999999994 / MS, 0.5 / MS,
    # chrono's last and first dates, and one day beyond each
    float(MAX_DAYS - EPOCH), float(MAX_DAYS - EPOCH) + 0.999, float(MAX_DAYS - EPOCH + 1),
    float(MIN_DAYS - EPOCH), float(MIN_DAYS - EPOCH) - 0.5, float(MIN_DAYS - EPOCH - 1), float(MIN_DAYS - EPOCH - 2),
    # i64 millisecond edges: 2^63 ms = 106751991167.3 days
    2.0 ** 63 / MS, -(2.0 ** 63) / MS, 106751991167.0, 106751991167.3, 106751991167.4, -106751991167.3,
    9.2e18 / MS, -9.2e18 / MS, 2.0 ** 53, -(2.0 ** 53), 104249991.0, 104249992.0,
]
CORPUS_INTS = [0, 1, 59, 60, 61, 25569, 44060, 2958465, 2958466, -1, -25569, 2 ** 53, 2 ** 53 + 1,
               2 ** 63 - 1, -2 ** 63, 10 ** 17, -10 ** 17, 95051805, 95051806, -96439723, -96439725]

def gen_quick(ctx, scale):
    rng = ctx.rng
    cases = []   # (kind, value(bits or int), sys)
    def add_float(x, kinds=None, both=True, tag="float"):
        b = bits_of(x)
        for k in (kinds or ("edt_dt",)):
            for s in ((False, True) if both else (False,)):
                cases.append((k, b, s))
        ctx.count("gen:" + tag)
    # corpus: all kinds
    for x in CORPUS_FLOATS:
        for u in (-2, -1, 0, 1, 2):
            y = nudge(x, u) if math.isfinite(x) else x
            add_float(y, ("edt_dt", "edt_td", "float", "dt", "td"), tag="corpus")
    for i in CORPUS_INTS:
        cases.append(("int", i, False)); ctx.count("gen:corpus_int")
    for k in ("bool", "empty", "string", "error"):
        cases.append((k, 0, False)); ctx.count("gen:not_a_date")
    # whole days: both ends densely, the rest sampled
    whole = list(range(0, 130)) + list(range(1400, 1530)) + list(range(MAXSERIAL - 60, MAXSERIAL + 3))
    whole += [rng.randrange(0, MAXSERIAL + 1) for _ in range(1500 * scale)]
    for d in whole:
        add_float(float(d), tag="whole_day")
        if rng.random() < 0.15:
            cases.append(("int", d, False)); ctx.count("gen:whole_day_int")
            cases.append(("float", bits_of(float(d)), False)); ctx.count("gen:whole_day_cell")
    # millisecond and day boundaries, +-2 ulp
    for _ in range(700 * scale):
        d = rng.choice([rng.randrange(0, 130), rng.randrange(0, MAXSERIAL + 1), rng.randrange(30000, 50000)])
        k = rng.choice([0, 1, 2, MS - 1, MS - 2, rng.randrange(MS)])
        x = rng.choice([d + (k + 0.5) / MS, float(d), d + k / MS, float(Fraction(d) + Fraction(2 * k + 1, 2 * MS))])
        for u in (-2, -1, 0, 1, 2):
            add_float(nudge(x, u), ("edt_dt", rng.choice(["dt", "td", "float"])), tag="boundary")
    # uniform in the supported span, negatives, 1904-shim region
    for _ in range(800 * scale):
        add_float(rng.uniform(0, MAXSERIAL + 1), tag="uniform_span")
    for _ in range(200 * scale):
        add_float(rng.uniform(-3000, 200), ("edt_dt", "dt"), tag="around_zero")
        add_float(-rng.uniform(0, 1e8), tag="negative")
        add_float(rng.uniform(0, 1.2e8), tag="far_future")
        add_float(rng.choice([-1, 1]) * 10 ** rng.uniform(-320, 308), ("edt_dt", "td"), tag="log_uniform")
    # calendar edges and i64 edges with random fractions
    for _ in range(100 * scale):
        add_float(MAX_DAYS - EPOCH + rng.uniform(-2, 2), tag="calendar_max")
        add_float(MIN_DAYS - EPOCH + rng.uniform(-2, 2), tag="calendar_min")
        add_float(rng.choice([-1, 1]) * (2.0 ** 63 / MS) * (1 + rng.uniform(-1e-12, 1e-12)), ("edt_dt", "td"), tag="i64_edge")
    # arbitrary 64-bit patterns (NaNs with payloads, infinities, subnormals included)
    for _ in range(1000 * scale):
        b = rng.getrandbits(64)
        for s in (False, True):
            cases.append((rng.choice(["edt_dt", "edt_td", "float", "dt", "td"]), b, s))
        ctx.count("gen:random_bits")
    for _ in range(100 * scale):
        e = rng.choice([0, 0x7FF])
        b = (rng.getrandbits(1) << 63) | (e << 52) | rng.getrandbits(52)
        cases.append(("edt_dt", b, rng.random() < 0.5)); ctx.count("gen:subnormal_or_nan")
    for _ in range(200 * scale):
        cases.append(("int", rng.choice([rng.randrange(-100, 3000000), rng.randrange(-2 ** 63, 2 ** 63),
                                         rng.randrange(-10 ** 8, 10 ** 8)]), False))
        ctx.count("gen:random_int")
    return cases

# ------------------------------------------------------------------ classification
STRIP = re.compile(r"\|K([^|]*)\|X(.*)$")

def split_model(ans):
    """model answer -> (answer comparable with the implementation's, known class or None, exact ms or None)"""
    if ans is None:
        return None, None, None
    m = STRIP.search(ans)
    if not m:
        return ans, None, None
    k = None if m.group(1) == "-" else m.group(1)
    x = None if m.group(2) == "-" else int(m.group(2))
    return ans[:m.start()], k, x

def value_of(kind, value):
    if kind == "int":
        return float(value)            # i64 as f64: round to nearest even, as in Rust
    return float_of(value)

def classify_batch(ctx, cases, tag, sample=True):
    lines = [case_line("%s%d" % (tag, k), c[0], c[1], c[2]) for k, c in enumerate(cases)]
    impl, model = ctx.run_both(lines)
    mono = {False: [], True: []}
    for k, (kind, value, sys1904) in enumerate(cases):
        cid = "%s%d" % (tag, k)
        i = impl.get(cid)
        m, known, exact = split_model(model.get(cid))
        ctx.traces += 1
        ctx.count("kind:" + kind)
        v = value_of(kind, value)
        if i != m:
            ctx.disagreements.append({"function": "ExcelDateTime::as_datetime/as_duration, DataType::as_*",
                                      "case": lines[k], "impl": i, "model": model.get(cid)})
        if i is None:
            continue
        if kind not in ("bool", "empty", "string", "error") and math.isfinite(v):
            # Coq's exact_ms (spec vocabulary) must agree with the Python oracle's exact rounding
            if exact is not None and exact != round_half_away(Fraction(v) * MS):
                ctx.disagreements.append({"function": "Serial.exact_ms vs Python oracle", "case": lines[k],
                                          "impl": str(round_half_away(Fraction(v) * MS)), "model": str(exact)})
        if known is not None:
            # inside the known class the property does not say which date is right; the witness
            # of the defect is checked separately (check_known_class)
            ctx.count("known_class:" + known)
            bad = None
            if "panic" in i:
                bad = ("panic", i)
        else:
            bad = spec_check(kind, v, sys1904, i)
        if bad:
            ctx.violations.append({"case": lines[k], "expected": "per specification: " + bad[0],
                                   "actual": i, "model": model.get(cid), "what": bad[1]})
        # material for the monotonicity check: (serial, ms, in known class)
        dt = i.split("|")[0]
        mm = DT_RE.match(dt)
        if mm and math.isfinite(v) and kind in ("edt_dt", "edt_td", "dt", "td", "float", "int"):
            days, secs, nanos = int(mm.group(1)), int(mm.group(2)), int(mm.group(3))
            s_eff = sys1904 if kind in ("edt_dt", "edt_td", "dt", "td") else False
            mono[s_eff].append((v, days * MS + secs * 1000 + nanos // 1000000, known is not None, lines[k]))
        if mm:
            ctx.nontrivial("%s:%d:%d" % (kind, value, sys1904))
        if sample and k % 997 == 0:
            ctx.sample({"case": lines[k].split("\t", 2)[2], "impl": i, "impl_equals_model": i == m})
    for s in (False, True):
        check_monotone(ctx, mono[s], s)

# former witnesses of F34 / F35 and their neighbours: a 1904-system date, a 36 h duration, both
# flags together, the 1904 shim region, the fictitious leap day seen from the 1904 system
HELPER_REGRESSIONS = [
    ("dt", 45000.5, True), ("td", 1.5, False), ("td", 45000.5, True), ("td", 1.5, True), ("dt", 1.5, True),
    ("dt", 0.0, True), ("td", 0.0, True), ("dt", -1401.5, True), ("dt", -1462.0, True), ("td", -0.25, False),
    ("dt", 2958465.0 - 1462.0, True), ("dt", 2958465.0, True), ("td", 1e9, True), ("td", 106751991167.3, False),
]

def gen_helper_cases(ctx, n):
    rng = ctx.rng
    cases = [(k, bits_of(x), s) for k, x, s in HELPER_REGRESSIONS]
    for x in CORPUS_FLOATS:
        for k in ("float", "dt", "td"):
            for s in (False, True):
                cases.append((k, bits_of(x), s))
    for i in CORPUS_INTS:
        cases.append(("int", i, False))
    for k in ("bool", "empty", "string", "error"):
        cases.append((k, 0, False))
    for _ in range(n):
        x = rng.choice([float(rng.randrange(0, MAXSERIAL + 1)), rng.uniform(0, MAXSERIAL + 1), rng.uniform(-2000, 3),
                        rng.uniform(0, 3), float_of(rng.getrandbits(64))])
        cases.append((rng.choice(["float", "dt", "td"]), bits_of(x), rng.random() < 0.5))
    return cases

def classify_helpers(ctx, cases, tag):
    """the eight serde helpers on a cell: implementation vs. model, and vs. the specification
    (a helper returns the cell's own conversion: by the oracle, and by the implementation's own
    cell.as_*() answers) — for every cell, no known class"""
    lines = [case_line("%s%d" % (tag, k), c[0], c[1], c[2], "de") for k, c in enumerate(cases)]
    own_lines = [case_line("%so%d" % (tag, k), c[0], c[1], c[2], "all") for k, c in enumerate(cases)]
    impl, model = ctx.run_both(lines + own_lines)
    for k, (kind, value, sys1904) in enumerate(cases):
        cid = "%s%d" % (tag, k)
        i, m = impl.get(cid), model.get(cid)
        own, own_m = impl.get("%so%d" % (tag, k)), split_model(model.get("%so%d" % (tag, k)))[0]
        ctx.traces += 1
        ctx.count("helper_kind:" + kind)
        if i != m:
            ctx.disagreements.append({"function": "deserialize_as_*_or_none/_or_string", "case": lines[k],
                                      "impl": i, "model": m})
        if own != own_m:
            ctx.disagreements.append({"function": "DataType::as_* (helper reference)", "case": own_lines[k],
                                      "impl": own, "model": own_m})
        if i is None or kind == "error":
            continue            # an error cell: the property says nothing; model/implementation only
        f = i.split("|")
        bad = None
        if len(f) != 8:
            bad = ("malformed or failed deserialization", i)
        elif [("N" if x == "E" else x) for x in f[4:]] != f[:4]:
            bad = ("_or_string variant differs from _or_none variant", i)
        elif own is not None and "|".join(f[:4]) != own:
            bad = ("helper differs from the cell's own conversion %s" % own, i)
        else:
            bad = spec_check(kind, value_of(kind, value), sys1904, "|".join(f[:4]))
        if bad:
            ctx.violations.append({"case": lines[k], "expected": "per specification (helper = the cell's own conversion): " + bad[0],
                                   "actual": i, "model": m, "what": bad[1]})
        if len(f) == 8 and f[0] != "N":
            ctx.nontrivial("de:%s:%d:%d" % (kind, value, sys1904))

def check_helper_regressions(ctx):
    """the witnesses of the fixed findings F34 / F35, spelled out: a 1904-system cell through the
    datetime helper gives the 1904 date; a 36 h duration cell through the duration helper gives 36 h"""
    w1904 = ("dt", bits_of(45000.5), True)
    w36h = ("td", bits_of(1.5), False)
    lines = [case_line("hw0", *w1904, "de"), case_line("hw2", *w36h, "de")]
    impl, model = ctx.run_both(lines)
    ctx.traces += 2
    exp = {"hw0": (0, "D20893,43200,0,2027-3-16", "F34: helper converts a 1904-system cell in the 1900 system"),
           "hw2": (3, "129600,0,129600000", "F35: duration helper does not return the duration of a duration cell")}
    for cid, ln in zip(("hw0", "hw2"), lines):
        if impl.get(cid) != model.get(cid):
            ctx.disagreements.append({"function": "deserialize_as_* regressions", "case": ln,
                                      "impl": impl.get(cid), "model": model.get(cid)})
        j, want, what = exp[cid]
        f = (impl.get(cid) or "").split("|")
        got = f[j] if j < len(f) else None
        if got != want:
            ctx.violations.append({"case": ln, "expected": want, "actual": impl.get(cid), "model": model.get(cid),
                                   "what": "regression of a fixed finding — " + what})

ISO_TEXTS = [
    "2021-01-01", "2021-01-01T10:10:10", "2021-01-01T10:10:10.123", "1899-12-30", "9999-12-31T23:59:59.999", "0001-01-01",
    "10:10:10", "23:59:59.5", "00:00:00", "PT10H10M10S", "PT10H10M10.123456S", "PT0H0M0S", "PT23H59M59.999S",
    "", "x", "2021-13-01", "2021-02-30", "24:00:00", "PT25H0M0S", "PT10H", "P1D", "2021", "45000.5", " 2021-01-01", "2021-01-01 ",
    "2021-01-01 10:10:10", "2021-01-01T10:10", "+2021-01-01", "-0001-01-01", "20210101",
]

def check_iso_helpers(ctx):
    """ISO cells of an ods file (Data::DateTimeIso / DurationIso), implementation only (the model
    has no ISO cells): the eight helpers return what the implementation itself answers for
    cell.as_datetime()/as_date()/as_time()/as_duration() — they used to answer None for all of them
    (the helper saw Data::String), which the same repair as F34/F35 put right"""
    rng = ctx.rng
    texts = list(ISO_TEXTS)
    for _ in range(ctx.scale(150, 1500)):
        y, mo, d = rng.randrange(1, 10000), rng.randrange(1, 14), rng.randrange(1, 33)
        h, mi, se = rng.randrange(0, 25), rng.randrange(0, 61), rng.randrange(0, 61)
        fr = rng.choice(["", ".5", ".%03d" % rng.randrange(1000), ".%09d" % rng.randrange(10 ** 9)])
        texts.append(rng.choice(["%04d-%02d-%02d" % (y, mo, d), "%04d-%02d-%02dT%02d:%02d:%02d%s" % (y, mo, d, h, mi, se, fr),
                                 "%02d:%02d:%02d%s" % (h, mi, se, fr), "PT%dH%dM%d%sS" % (h, mi, se, fr)]))
    cases = [(k, t) for t in texts for k in ("iso", "isodur")]
    lines = []
    for n, (k, t) in enumerate(cases):
        hx = t.encode().hex() or "-"
        lines.append("i%d\tserial\t%s\t%s\t0\tde" % (n, k, hx))
        lines.append("j%d\tserial\t%s\t%s\t0\tall" % (n, k, hx))
    impl = ctx.run_impl(lines)
    some = 0
    for n, (k, t) in enumerate(cases):
        de, own = impl.get("i%d" % n), impl.get("j%d" % n)
        ctx.traces += 1
        ctx.count("helper_kind:" + k)
        f = (de or "").split("|")
        bad = None
        if own is None or len(own.split("|")) != 4 or "panic" in own:
            bad = "cell conversion failed: %r" % own
        elif len(f) != 8:
            bad = "malformed or failed deserialization"
        elif [("N" if x == "E" else x) for x in f[4:]] != f[:4]:
            bad = "_or_string variant differs from _or_none variant"
        elif "|".join(f[:4]) != own:
            bad = "helper differs from the cell's own conversion %s" % own
        if bad:
            ctx.violations.append({"case": lines[2 * n], "expected": "helper = the cell's own conversion: %s" % own, "actual": de,
                                   "model": None, "what": "%s cell %r: %s" % (k, t, bad)})
        elif own != "N|N|N|N":
            some += 1
            ctx.nontrivial("iso:%s:%s" % (k, t))
    if some < 20:
        ctx.violations.append({"case": lines[0], "expected": "ISO cells that convert", "actual": str(some), "model": None,
                               "what": "ISO generator degenerated: fewer than 20 ISO cells converted to anything"})

def check_monotone(ctx, pts, sys1904):
    pts.sort(key=lambda p: (p[0], p[1]))
    best, best_line = None, None
    for v, ms, known, line in pts:
        if not known and best is not None and ms < best:
            ctx.violations.append({"case": line, "expected": "monotone: at least %d ms (reached by %s)" % (best, best_line),
                                   "actual": str(ms), "model": None,
                                   "what": "conversion decreases between two ordered serials outside the known class (is_1904=%s)" % sys1904})
            return
        if best is None or ms > best:
            best, best_line = ms, line
    ctx.count("monotone_pairs_checked", max(0, len(pts) - 1))

def check_known_class(ctx):
    """F16: serials on the fictitious 1900-02-29 are mapped onto 1900-02-28: 59.5 converts later than
    60.0.  Honoured only while the witness still fails on the implementation and the extracted
    known_C11 classifies it."""
    a, b = bits_of(59.5), bits_of(60.0)
    lines = [case_line("kf0", "edt_dt", a, False), case_line("kf1", "edt_dt", b, False)]
    impl, model = ctx.run_both(lines)
    ia, ib = impl.get("kf0", ""), impl.get("kf1", "")
    ma, ka, _ = split_model(model.get("kf0"))
    mb, kb, _ = split_model(model.get("kf1"))
    for cid, i, m in (("kf0", ia, ma), ("kf1", ib, mb)):
        if i != m:
            ctx.disagreements.append({"function": "ExcelDateTime::as_datetime", "case": lines[int(cid[2])],
                                      "impl": i, "model": m})
    pa, pb = DT_RE.match(ia.split("|")[0]), DT_RE.match(ib.split("|")[0])
    if pa and pb and kb is not None:
        na = int(pa.group(1)) * MS + int(pa.group(2)) * 1000
        nb = int(pb.group(1)) * MS + int(pb.group(2)) * 1000
        if na > nb:
            if ctx.known_finding("F16"):
                ctx.known_hits["F16"] = {"a": "59.5 -> " + ia, "b": "60.0 -> " + ib}
            else:
                ctx.violations.append({"case": lines[1], "expected": "monotone: 60.0 not earlier than 59.5 (%s)" % ia,
                                       "actual": ib, "model": model.get("kf1"),
                                       "what": "non-monotone at the fictitious 1900-02-29 and finding F16 is not registered in known_findings.json"})
        else:
            ctx.notes.append("known class F16 no longer reproduces on the implementation (59.5 vs 60.0 are ordered): remove the class from Serial.known_C11")
    ctx.traces += 2

def sweep_whole_days(ctx, lo, hi, chunk=400000):
    """every whole serial lo..=hi in both date systems: implementation = specification exactly
    (reference calendar) and implementation = model"""
    d0 = lo
    while d0 <= hi:
        d1 = min(hi, d0 + chunk - 1)
        lines, exp = [], {}
        for d in range(d0, d1 + 1):
            b = bits_of(float(d))
            for s in (0, 1):
                cid = "w%d_%d" % (d, s)
                lines.append("%s\tserial\tedt_dt\t%d\t%d\tall" % (cid, b, s))
                exp[cid] = None if (d == 60 and s == 0) else whole_day_expected(d, bool(s))
        impl, model = ctx.run_both(lines, timeout=3000)
        for ln in lines:
            cid = ln.split("\t", 1)[0]
            i = impl.get(cid)
            m, known, _ = split_model(model.get(cid))
            if i != m:
                ctx.disagreements.append({"function": "ExcelDateTime::as_datetime/as_duration (whole-day sweep)",
                                          "case": ln, "impl": i, "model": model.get(cid)})
            e = exp[cid]
            if e is None:
                ctx.count("known_class:16")
            elif i != e:
                ctx.violations.append({"case": ln, "expected": e, "actual": i, "model": model.get(cid),
                                       "what": "whole serial does not convert to the date of the spreadsheet convention"})
            if (e is None) != (known is not None):
                ctx.disagreements.append({"function": "Serial.known_C11 (whole-day sweep)", "case": ln,
                                          "impl": "class expected: %s" % (e is None), "model": model.get(cid)})
        ctx.traces += len(lines)
        ctx.count("sweep:whole_days_x_2_systems", len(lines))
        for d in range(d0, d1 + 1, 9973):
            ctx.nontrivial("whole:%d" % d)
        d0 = d1 + 1
    ctx.extra["whole_day_sweep"] = "every whole serial %d..=%d in both date systems" % (lo, hi)

def boundary_sweep(ctx, n):
    """n sampled millisecond/day boundaries, each at -2..+2 ulp, both systems"""
    rng = ctx.rng
    done = 0
    while done < n:
        cases = []
        for _ in range(min(20000, n - done)):
            d = rng.randrange(0, MAXSERIAL + 1) if rng.random() < 0.8 else rng.randrange(0, 130)
            k = rng.choice([0, MS - 1, rng.randrange(MS), rng.randrange(MS)])
            x = float(Fraction(d) + Fraction(2 * k + 1, 2 * MS)) if rng.random() < 0.8 else float(d)
            for u in (-2, -1, 0, 1, 2):
                cases.append(("edt_dt", bits_of(nudge(x, u)), rng.random() < 0.5))
            ctx.count("gen:boundary_sweep")
            done += 1
        classify_batch(ctx, cases, "b%d_" % done, sample=False)

# ------------------------------------------------------------------ entry points
def run(ctx):
    check_known_class(ctx)
    check_helper_regressions(ctx)
    check_iso_helpers(ctx)
    scale = ctx.scale(1, 4)
    classify_batch(ctx, gen_quick(ctx, scale), "q")
    classify_helpers(ctx, gen_helper_cases(ctx, 1500 * scale), "h")
    if ctx.tier == "thorough":
        sweep_whole_days(ctx, 0, MAXSERIAL)
        boundary_sweep(ctx, 100000)
    else:
        # a slice of the exhaustive sweep runs in the quick tier too: both ends of the span
        sweep_whole_days(ctx, 0, 1600)
        sweep_whole_days(ctx, MAXSERIAL - 400, MAXSERIAL)

def search(ctx):
    """bigger budget, used when a proof obligation or the correspondence broke"""
    classify_batch(ctx, gen_quick(ctx, 6), "s")
    classify_helpers(ctx, gen_helper_cases(ctx, 10000), "sh")
    sweep_whole_days(ctx, 0, MAXSERIAL if ctx.tier == "thorough" else 120000)
    boundary_sweep(ctx, ctx.scale(8000, 100000))

def replay(ctx, rep):
    case = rep.get("case")
    print("replaying:", case)
    impl, model = ctx.run_both([case])
    cid = case.split("\t", 1)[0]
    f = case.split("\t")
    if f[2] in ("iso", "isodur"):
        # implementation only: helper = the implementation's own cell conversion
        own = ctx.run_impl(["\t".join(["own"] + f[1:5] + ["all"])]).get("own")
        i = impl.get(cid) or ""
        g = i.split("|")
        print("impl (helpers)       :", i)
        print("impl (cell's own as_*):", own)
        ok = len(g) == 8 and [("N" if x == "E" else x) for x in g[4:]] == g[:4] and "|".join(g[:4]) == own
        print("helper = the cell's own conversion:", ok)
        return 0 if ok else 1
    print("impl :", impl.get(cid))
    print("model:", model.get(cid))
    print("expected:", rep.get("expected"))
    kind, value, s = f[2], int(f[3]), f[4] == "1"
    if len(f) > 5 and f[5] == "de":
        mm = model.get(cid) or ""
        i = impl.get(cid) or ""
        own_line = "\t".join(["own"] + f[1:5] + ["all"])
        oi, _ = ctx.run_both([own_line])
        own = oi.get("own")
        print("cell's own conversion (implementation):", own)
        g = i.split("|")
        bad = None
        if kind != "error":
            if len(g) != 8 or [("N" if x == "E" else x) for x in g[4:]] != g[:4]:
                bad = ("malformed, failed, or _or_string differs from _or_none", i)
            elif "|".join(g[:4]) != own:
                bad = ("helper differs from the cell's own conversion", own)
            else:
                bad = spec_check(kind, value_of(kind, value), s, "|".join(g[:4]))
        print("helper case; implementation equals model:", i == mm, "; specification check:", "ok" if not bad else bad)
        return 0 if (i == mm and not bad) else 1
    m, known, _ = split_model(model.get(cid))
    if known is not None:
        print("inside known class", known)
        return 0
    bad = spec_check(kind, value_of(kind, value), s, impl.get(cid, "")) if kind not in ("bool", "empty", "string", "error") \
        else (None if impl.get(cid) == "N|N|N|N" else ("not a date", ""))
    print("specification check:", "ok" if not bad else bad)
    return 0 if (not bad and impl.get(cid) == m) else 1
