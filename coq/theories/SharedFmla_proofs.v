(* SharedFmla_proofs — proofs for property C15 (xlsx shared formulas).
   Model / spec / known classes: SharedFmla.v.  A1 text lemmas: Col26_proofs.v (agent c14).
   Everything is proved for an arbitrary oracle [is_alnum] (char::is_alphanumeric) that agrees
   with the ASCII definition on ASCII. *)
From Calamine Require Import Prelude Col26 Col26_proofs SharedFmla.
Open Scope N_scope.

(* ------------------------------------------------------------------ lists *)
Lemma span_eq : forall p l, fst (span p l) ++ snd (span p l) = l.
Proof.
  induction l as [|c t IH]; [reflexivity|]. cbn [span]. destruct (p c); cbn [fst snd app].
  - f_equal. exact IH.
  - reflexivity.
Qed.

Lemma span_fst_all : forall p l, forallb p (fst (span p l)) = true.
Proof.
  induction l as [|c t IH]; [reflexivity|]. cbn [span]. destruct (p c) eqn:E; cbn [fst forallb].
  - rewrite E, IH. reflexivity.
  - reflexivity.
Qed.

Definition head_fails (p : N -> bool) (r : list N) : Prop :=
  match r with c :: _ => p c = false | [] => True end.

Lemma span_snd_head : forall p l, head_fails p (snd (span p l)).
Proof.
  induction l as [|c t IH]; [exact I|]. cbn [span]. destruct (p c) eqn:E; cbn [snd].
  - exact IH.
  - exact E.
Qed.

Lemma span_app : forall p a r, forallb p a = true -> head_fails p r -> span p (a ++ r) = (a, r).
Proof.
  induction a as [|c a IH]; intros r Ha Hr.
  - destruct r as [|x r]; [reflexivity|]. cbn in Hr. cbn [app span]. rewrite Hr. reflexivity.
  - cbn [forallb] in Ha. apply andb_prop in Ha as [Hc Ha]. cbn [app span]. rewrite Hc.
    rewrite (IH r Ha Hr). reflexivity.
Qed.

Lemma span_all : forall p l, forallb p l = true -> span p l = (l, []).
Proof. intros p l H. rewrite <- (app_nil_r l) at 1. apply span_app; [exact H|exact I]. Qed.

Lemma span_snd_nil_all : forall p l, snd (span p l) = [] -> forallb p l = true.
Proof.
  intros p l H. pose proof (span_eq p l) as E. rewrite H, app_nil_r in E.
  rewrite <- E. apply span_fst_all.
Qed.

Lemma span_snd_len : forall p l, (length (snd (span p l)) <= length l)%nat.
Proof.
  intros p l. rewrite <- (span_eq p l) at 2. rewrite app_length. lia.
Qed.

Lemma forallb_app_l : forall (p : N -> bool) a b, forallb p (a ++ b) = forallb p a && forallb p b.
Proof. intros. apply forallb_app. Qed.

Lemma Forall_forallb : forall (p : N -> bool) l, Forall (fun x => p x = true) l -> forallb p l = true.
Proof. intros p l H. apply forallb_forall. rewrite Forall_forall in H. exact H. Qed.

Lemma forallb_impl : forall (p q : N -> bool) l,
  (forall c, p c = true -> q c = true) -> forallb p l = true -> forallb q l = true.
Proof.
  intros p q l H Hl. rewrite forallb_forall in *. intros x Hx. apply H, Hl, Hx.
Qed.

Lemma obind_ok : forall A B (a : A) (f : A -> outcome B), (do x <- Ok a; f x) = f a.
Proof. reflexivity. Qed.

(* ------------------------------------------------------------------ ASCII character facts *)
Definition ascii_wordch (c : N) : bool :=
  ascii_alnum c || (c =? ch_uscore) || (c =? ch_dot) || (c =? ch_dollar) || (c =? ch_bslash) ||
  (c =? ch_qmark).

Lemma upper_lt128 : forall c, is_upper c = true -> c < 128.
Proof. intros c H. unfold is_upper, ch_A, ch_Z in H. lia. Qed.
Lemma digit_lt128 : forall c, is_digit c = true -> c < 128.
Proof. intros c H. unfold is_digit, ch_0, ch_9 in H. lia. Qed.
Lemma upper_is_alpha : forall c, is_upper c = true -> is_alpha c = true.
Proof. intros c H. unfold is_alpha. rewrite H. reflexivity. Qed.
Lemma digit_not_alpha : forall c, is_digit c = true -> is_alpha c = false.
Proof. intros c H. unfold is_alpha, is_digit, is_upper, is_lower, ch_0, ch_9, ch_A, ch_Z, ch_a, ch_z in *. lia. Qed.
Lemma to_upper_upper : forall c, is_upper c = true -> to_upper c = c.
Proof.
  intros c H. unfold to_upper. destruct (is_lower c) eqn:L; [|reflexivity].
  unfold is_upper, is_lower, ch_A, ch_Z, ch_a, ch_z in *. lia.
Qed.
Lemma to_upper_is_upper : forall c, is_alpha c = true -> is_upper (to_upper c) = true.
Proof.
  intros c H. unfold to_upper, is_alpha in *. destruct (is_lower c) eqn:L.
  - unfold is_lower, is_upper, ch_a, ch_z, ch_A, ch_Z in *. lia.
  - rewrite orb_false_r in H. exact H.
Qed.

(* ------------------------------------------------------------------ offset_cell_name: the scanners *)
Definition zf26 (acc : Z) (ch : N) : Z := (acc * 26 + (Z.of_N (to_upper ch) - 65 + 1))%Z.
Definition zf10 (acc : Z) (ch : N) : Z := (acc * 10 + (Z.of_N ch - 48))%Z.

Lemma ocn_letters_span : forall l k col, (k <= 3)%nat ->
  ocn_letters l k col =
  if (k + length (fst (span is_alpha l)) <=? 3)%nat
  then Some ((k + length (fst (span is_alpha l)))%nat,
             fold_left zf26 (fst (span is_alpha l)) col, snd (span is_alpha l))
  else None.
Proof.
  induction l as [|c t IH]; intros k col Hk.
  - cbn [ocn_letters span fst snd length fold_left]. rewrite Nat.add_0_r.
    apply Nat.leb_le in Hk. rewrite Hk. reflexivity.
  - cbn [ocn_letters span]. destruct (is_alpha c) eqn:A; cbn [fst snd length fold_left].
    + destruct (3 <=? k)%nat eqn:E.
      * apply Nat.leb_le in E.
        destruct (k + S (length (fst (span is_alpha t))) <=? 3)%nat eqn:E2;
          [apply Nat.leb_le in E2; lia|reflexivity].
      * apply Nat.leb_gt in E. rewrite IH by lia.
        replace (k + S (length (fst (span is_alpha t))))%nat
          with (S k + length (fst (span is_alpha t)))%nat by lia.
        reflexivity.
    + rewrite Nat.add_0_r. apply Nat.leb_le in Hk. rewrite Hk. reflexivity.
Qed.

Lemma ocn_digits_span : forall l k row, (k <= 7)%nat ->
  ocn_digits l k row =
  if (k + length (fst (span is_digit l)) <=? 7)%nat
  then Some ((k + length (fst (span is_digit l)))%nat,
             fold_left zf10 (fst (span is_digit l)) row, snd (span is_digit l))
  else None.
Proof.
  induction l as [|c t IH]; intros k row Hk.
  - cbn [ocn_digits span fst snd length fold_left]. rewrite Nat.add_0_r.
    apply Nat.leb_le in Hk. rewrite Hk. reflexivity.
  - cbn [ocn_digits span]. destruct (is_digit c) eqn:A; cbn [fst snd length fold_left].
    + destruct (7 <=? k)%nat eqn:E.
      * apply Nat.leb_le in E.
        destruct (k + S (length (fst (span is_digit t))) <=? 7)%nat eqn:E2;
          [apply Nat.leb_le in E2; lia|reflexivity].
      * apply Nat.leb_gt in E. rewrite IH by lia.
        replace (k + S (length (fst (span is_digit t))))%nat
          with (S k + length (fst (span is_digit t)))%nat by lia.
        reflexivity.
    + rewrite Nat.add_0_r. apply Nat.leb_le in Hk. rewrite Hk. reflexivity.
Qed.

(* the i64 accumulators are the N readings of Col26 *)
Lemma zfold26 : forall a x, forallb is_alpha a = true ->
  fold_left zf26 a (Z.of_N x)
  = Z.of_N (fold_left (fun acc ch => acc * 26 + letter_val ch) (map to_upper a) x).
Proof.
  induction a as [|c a IH]; intros x H; [reflexivity|].
  cbn [forallb] in H. apply andb_prop in H as [Hc Ha]. cbn [map fold_left].
  rewrite <- IH by exact Ha. f_equal. unfold zf26, letter_val.
  pose proof (to_upper_is_upper c Hc) as U. unfold is_upper, ch_A, ch_Z in U. unfold ch_A. lia.
Qed.

Lemma zfold10 : forall a x, forallb is_digit a = true ->
  fold_left zf10 a (Z.of_N x) = Z.of_N (fold_left (fun acc ch => acc * 10 + (ch - ch_0)) a x).
Proof.
  induction a as [|c a IH]; intros x H; [reflexivity|].
  cbn [forallb] in H. apply andb_prop in H as [Hc Ha]. cbn [fold_left].
  rewrite <- IH by exact Ha. f_equal. unfold zf10.
  unfold is_digit, ch_0, ch_9 in Hc. unfold ch_0. lia.
Qed.

Lemma zcol_of : forall a, forallb is_alpha a = true ->
  fold_left zf26 a 0%Z = Z.of_N (col1_of_letters (map to_upper a)).
Proof. intros a H. exact (zfold26 a 0 H). Qed.
Lemma zrow_of : forall a, forallb is_digit a = true -> fold_left zf10 a 0%Z = Z.of_N (undec a).
Proof. intros a H. exact (zfold10 a 0 H). Qed.

Lemma starts_dollar_notin : forall l, ~ In ch_dollar l -> starts_dollar l = false.
Proof.
  intros [|c l] H; [reflexivity|]. cbn. apply N.eqb_neq. intros E. apply H. left. exact E.
Qed.

(* a name without '$' that is not a cell name is never translated *)
Lemma ocn_parse_not_cell : forall n,
  ~ In ch_dollar n -> is_cell_name n = false -> ocn_parse n = None.
Proof.
  intros n Hd Hc. unfold ocn_parse. rewrite (starts_dollar_notin n Hd). cbn iota.
  rewrite ocn_letters_span by lia. cbn [Nat.add].
  unfold is_cell_name in Hc. cbv zeta in Hc.
  pose proof (span_eq is_alpha n) as En. pose proof (span_fst_all is_alpha n) as Ha.
  revert Hc En Ha. destruct (span is_alpha n) as [a r]. cbn [fst snd]. intros Hc En Ha.
  destruct (length a <=? 3)%nat eqn:L3; [|reflexivity].
  destruct (length a =? 0)%nat eqn:L0; [reflexivity|].
  assert (Hr : ~ In ch_dollar r).
  { intros C. apply Hd. rewrite <- En. apply in_or_app. right. exact C. }
  rewrite (starts_dollar_notin r Hr). cbn iota.
  rewrite ocn_digits_span by lia. cbn [Nat.add].
  pose proof (span_eq is_digit r) as Er. pose proof (span_fst_all is_digit r) as Hds.
  revert Er Hds. destruct (span is_digit r) as [ds r3]. cbn [fst snd]. intros Er Hds.
  destruct (length ds <=? 7)%nat eqn:L7; [|reflexivity].
  destruct (length ds =? 0)%nat eqn:D0; [reflexivity|]. cbn [orb].
  destruct r3 as [|x r3']; [|reflexivity]. cbn [is_nil negb orb].
  rewrite app_nil_r in Er. subst ds.
  destruct (hd 0 r =? ch_0) eqn:H0; [reflexivity|].
  rewrite zcol_of by exact Ha. rewrite zrow_of by exact Hds.
  assert (Na : nonempty a = true).
  { destruct a; [discriminate L0|reflexivity]. }
  assert (Nr : nonempty r = true).
  { destruct r; [discriminate D0|reflexivity]. }
  rewrite ?Na, ?L3, ?Nr, ?Hds, ?L7, ?H0 in Hc. cbn [andb negb] in Hc.
  unfold ZROWS, ZCOLS. unfold MAX_COLUMNS, MAX_ROWS in Hc.
  destruct ((1048576 <=? Z.of_N (undec r) - 1)%Z || (16384 <=? Z.of_N (col1_of_letters (map to_upper a)) - 1)%Z) eqn:E;
    [reflexivity|].
  exfalso. lia.
Qed.

(* words that start with a digit, or consist of [$]letters only, or of [$]digits only *)
Lemma ocn_parse_digit_start : forall d l, is_digit d = true -> ocn_parse (d :: l) = None.
Proof.
  intros d l H. unfold ocn_parse.
  assert (E : starts_dollar (d :: l) = false).
  { cbn. apply N.eqb_neq. unfold is_digit, ch_0, ch_9 in H. unfold ch_dollar. lia. }
  rewrite E. cbn iota. cbn [ocn_letters]. rewrite (digit_not_alpha d H). reflexivity.
Qed.

Lemma ocn_parse_dollar_digit : forall d l, is_digit d = true -> ocn_parse (ch_dollar :: d :: l) = None.
Proof.
  intros d l H. unfold ocn_parse. cbn [starts_dollar]. rewrite N.eqb_refl. cbn [tl ocn_letters].
  rewrite (digit_not_alpha d H). reflexivity.
Qed.

Lemma letters_all_alpha : forall c, forallb is_alpha (letters c) = true.
Proof.
  intros c. apply Forall_forallb. eapply Forall_impl; [|apply letters_upper].
  intros x Hx. apply upper_is_alpha. exact Hx.
Qed.
Lemma letters_map_upper : forall c, map to_upper (letters c) = letters c.
Proof.
  intros c. pose proof (letters_upper c) as F. induction F as [|x l Hx F IH]; [reflexivity|].
  cbn [map]. rewrite to_upper_upper by exact Hx. rewrite IH. reflexivity.
Qed.
Lemma letters_head_not_dollar : forall c, starts_dollar (letters c) = false.
Proof.
  intros c. pose proof (letters_upper c) as F. destruct (letters c) as [|x l]; [reflexivity|].
  inversion F; subst. cbn. apply N.eqb_neq. unfold is_upper, ch_A, ch_Z in *. unfold ch_dollar. lia.
Qed.
Lemma dec_all_digit : forall n, forallb is_digit (dec n) = true.
Proof. intros n. apply Forall_forallb. apply dec_digits. Qed.
Lemma dec_head : forall n, exists d l, dec n = d :: l /\ is_digit d = true.
Proof.
  intros n. pose proof (dec_digits n) as F. pose proof (dec_nonempty n) as Ne.
  destruct (dec n) as [|d l]; [contradiction|]. inversion F; subst. eauto.
Qed.
Lemma letters_len3 : forall c, c < 16384 -> (length (letters c) <= 3)%nat.
Proof.
  intros c H. apply letters_length_le with (k := 2%nat). change (26 ^ N.of_nat 3) with 17576. lia.
Qed.
Lemma dec_len7 : forall n, n <= 1048576 -> (length (dec n) <= 7)%nat.
Proof.
  intros n H. apply dec_length_le with (k := 6%nat). change (10 ^ N.of_nat 7) with 10000000. lia.
Qed.

(* the decimal text of a positive number has no leading zero *)
Lemma dec_head_nonzero : forall n, 0 < n -> hd 0 (dec n) <> ch_0.
Proof.
  intros n. pattern n. apply dec_ind; clear n.
  - intros n Hn H0. rewrite dec_eq. apply N.ltb_lt in Hn. rewrite Hn. cbn [hd]. unfold ch_0. lia.
  - intros n Hn IH H0. rewrite dec_eq. apply N.ltb_ge in Hn as Hn'. rewrite Hn'.
    destruct (dec_head (n / 10)) as (d & l & E & _). rewrite E in *. cbn [app hd] in *.
    apply IH. lia.
Qed.

Lemma ocn_parse_letters_only : forall a c, ocn_parse (dollar a ++ letters c) = None.
Proof.
  intros a c. unfold ocn_parse.
  assert (E : (if starts_dollar (dollar a ++ letters c) then tl (dollar a ++ letters c)
               else dollar a ++ letters c) = letters c).
  { destruct a; cbn [dollar app].
    - cbn [starts_dollar]. rewrite N.eqb_refl. reflexivity.
    - rewrite letters_head_not_dollar. reflexivity. }
  rewrite E. rewrite ocn_letters_span by lia. cbn [Nat.add].
  rewrite (span_all is_alpha (letters c) (letters_all_alpha c)). cbn [fst snd].
  destruct (length (letters c) <=? 3)%nat; [|reflexivity].
  destruct (length (letters c) =? 0)%nat; [reflexivity|].
  cbn [starts_dollar ocn_digits]. reflexivity.
Qed.

Lemma ocn_parse_digits_only : forall a n, ocn_parse (dollar a ++ dec n) = None.
Proof.
  intros a n. destruct (dec_head n) as (d & l & E & Hd). rewrite E.
  destruct a; cbn [dollar app].
  - apply ocn_parse_dollar_digit. exact Hd.
  - apply ocn_parse_digit_start. exact Hd.
Qed.

(* a rendered reference parses to its position *)
Lemma ocn_parse_ref : forall ca c ra r, c < 16384 -> r < 1048576 ->
  ocn_parse (render_ref ca c ra r) = Some (ca, Z.of_N c, ra, Z.of_N r).
Proof.
  intros ca c ra r Hc Hr. unfold ocn_parse, render_ref, a1_ref.
  set (rest := (if negb ra then [] else [ch_dollar]) ++ dec (r + 1)).
  assert (E0 : starts_dollar ((if negb ca then [] else [ch_dollar]) ++ letters c ++ rest) = ca).
  { destruct ca; cbn [negb app].
    - cbn [starts_dollar]. apply N.eqb_refl.
    - destruct (letters c) as [|x l] eqn:El; [exfalso; exact (letters_nonempty c El)|].
      pose proof (letters_head_not_dollar c) as H. rewrite El in H. exact H. }
  rewrite E0.
  assert (E1 : (if ca then tl ((if negb ca then [] else [ch_dollar]) ++ letters c ++ rest)
                else (if negb ca then [] else [ch_dollar]) ++ letters c ++ rest) = letters c ++ rest).
  { destruct ca; reflexivity. }
  rewrite E1. clear E0 E1.
  destruct (dec_head (r + 1)) as (d & dl & Ed & Hd).
  assert (Hrest : head_fails is_alpha rest).
  { unfold rest. destruct ra; cbn [negb app]; [reflexivity|]. rewrite Ed. cbn.
    apply digit_not_alpha. exact Hd. }
  rewrite ocn_letters_span by lia. cbn [Nat.add].
  rewrite (span_app is_alpha (letters c) rest (letters_all_alpha c) Hrest). cbn [fst snd].
  pose proof (letters_len3 c Hc) as L3. apply Nat.leb_le in L3. rewrite L3.
  destruct (length (letters c) =? 0)%nat eqn:L0.
  { apply Nat.eqb_eq in L0. destruct (letters c) eqn:El; [exfalso; exact (letters_nonempty c El)|discriminate L0]. }
  assert (E2 : starts_dollar rest = ra).
  { unfold rest. destruct ra; cbn [negb app].
    - cbn. apply N.eqb_refl.
    - rewrite Ed. cbn. apply N.eqb_neq. unfold is_digit, ch_0, ch_9 in Hd. unfold ch_dollar. lia. }
  rewrite E2.
  assert (E3 : (if ra then tl rest else rest) = dec (r + 1)).
  { unfold rest. destruct ra; reflexivity. }
  rewrite E3. rewrite ocn_digits_span by lia. cbn [Nat.add].
  rewrite (span_all is_digit (dec (r + 1)) (dec_all_digit (r + 1))). cbn [fst snd].
  pose proof (@dec_len7 (r + 1) ltac:(lia)) as L7. apply Nat.leb_le in L7. rewrite L7.
  destruct (length (dec (r + 1)) =? 0)%nat eqn:D0.
  { apply Nat.eqb_eq in D0. rewrite Ed in D0. discriminate D0. }
  cbn [is_nil negb orb].
  destruct (hd 0 (dec (r + 1)) =? ch_0) eqn:H0.
  { apply N.eqb_eq in H0. exfalso. apply (@dec_head_nonzero (r + 1)); [lia|exact H0]. }
  rewrite zcol_of by apply letters_all_alpha. rewrite zrow_of by apply dec_all_digit.
  rewrite letters_map_upper, col1_of_letters_letters, undec_dec.
  unfold ZROWS, ZCOLS.
  destruct ((1048576 <=? Z.of_N (r + 1) - 1)%Z || (16384 <=? Z.of_N (c + 1) - 1)%Z) eqn:E; [exfalso; lia|].
  replace (Z.of_N (c + 1) - 1)%Z with (Z.of_N c) by lia.
  replace (Z.of_N (r + 1) - 1)%Z with (Z.of_N r) by lia. reflexivity.
Qed.

(* ------------------------------------------------------------------ the A1 scanner of HEAD (Col26) *)
Definition no_panic {A} (o : outcome A) : Prop :=
  match o with Ok _ => True | Err _ => True | Panic => False | OutOfFuel => False end.

Lemma ne_no_panic : forall A (o : outcome A), o <> Panic /\ o <> OutOfFuel -> no_panic o.
Proof. intros A [a|e| |] [H1 H2]; cbn; auto. Qed.

(* from Col26_proofs (the totality theorems behind C14_no_panic_a1) *)
Theorem get_row_column_np : forall range, no_panic (get_row_column range).
Proof. intros range. apply ne_no_panic, get_row_column_total. Qed.
(* get_dimension never panics, whatever the attribute holds (reversed, huge, empty, garbage) *)
Theorem get_dimension_np : forall d, no_panic (get_dimension d).
Proof. intros d. apply ne_no_panic, get_dimension_total. Qed.

(* results are u32 *)
Theorem get_row_column_u32 : forall range r c,
  get_row_column range = Ok (r, c) -> r <= U32MAX /\ c <= U32MAX.
Proof.
  intros range r c H. unfold get_row_column, get_row_and_optional_column in H.
  destruct (scan_loop (rev range) scan_init) as [s| | |]; cbn [obind] in H; try discriminate H.
  destruct (s_row s =? 0); [discriminate H|].
  destruct (U32MAX <? s_row s - 1) eqn:E1; [discriminate H|].
  destruct (s_col s =? 0); cbn [negb andb obind snd fst] in H; [discriminate H|].
  destruct (U32MAX <? s_col s - 1) eqn:E2; cbn [obind snd fst] in H; [discriminate H|].
  inversion H; subst. apply N.ltb_ge in E1, E2. split; assumption.
Qed.

(* an inverted ref is now accepted and kept as it stands (it used to panic) *)
Example get_dimension_examples :
  get_dimension [66;50;58;65;49] = Ok ((1, 1), (0, 0)) /\                (* B2:A1 *)
  get_row_column [70;65;66;68;97;68;122;57] = Ok (8, 1866361093) /\      (* FABDaDz9 *)
  get_row_column [65;52;50;57;52;57;54;55;50;57;55] = Err E_RANGE /\     (* A4294967297 *)
  get_row_column [65;52;50;57;52;57;54;55;50;57;54] = Ok (4294967295, 0).  (* A4294967296 *)
Proof. vm_compute. repeat split. Qed.

Section Run.
(* no assumption on the oracle here: totality holds for ANY is_alnum *)
Variable is_alnum : N -> bool.
Local Notation wordch := (is_formula_word_char is_alnum).
Local Notation rcn := (replace_cell_names is_alnum).

(* ------------------------------------------------------------------ fuel *)
Lemma scan_quote_len : forall q l, (length (snd (scan_quote q l)) <= length l)%nat.
Proof.
  induction l as [|x t IH]; [cbn; lia|]. cbn [scan_quote]. destruct (x =? q); cbn [snd length]; lia.
Qed.

Lemma scan_bracket_len : forall l d e r,
  scan_bracket l d = Ok (e, r) -> (length r <= length l)%nat /\ (l <> [] -> length r < length l)%nat.
Proof.
  induction l as [|x t IH]; intros d e r H.
  - cbn in H. inversion H. subst. split; [cbn; lia|]. intros C. contradiction.
  - cbn [scan_bracket] in H.
    destruct (if x =? ch_lbrack then Ok (d + 1)
              else if x =? ch_rbrack then (if d =? 0 then Panic else Ok (d - 1)) else Ok d)
      as [d'| | |] eqn:Ed; cbn [obind] in H; try discriminate H.
    destruct (d' =? 0).
    + inversion H. subst. cbn [length]. split; [lia|intros _; lia].
    + destruct (scan_bracket t d') as [[e' r']| | |] eqn:Er; cbn [obind] in H; try discriminate H.
      cbn [fst snd] in H. inversion H. subst. destruct (IH _ _ _ Er) as [L _].
      cbn [length]. split; [lia|intros _; lia].
Qed.

Lemma word_step_len : forall off w r e r',
  word_step is_alnum off w r = Ok (e, r') -> (length r' <= length r)%nat.
Proof.
  intros off w r e r' H. unfold word_step in H.
  set (sr := match r with
             | x :: r0 => if x =? ch_colon then span wordch r0 else ([], r)
             | [] => ([], r)
             end) in *.
  assert (L : (length (snd sr) <= length r)%nat).
  { unfold sr. destruct r as [|x r0]; [cbn; lia|]. destruct (x =? ch_colon); [|cbn; lia].
    pose proof (span_snd_len wordch r0). cbn [length]. lia. }
  match type of H with (do _ <- ?X; _) = _ => destruct X as [[rg|]| | |] end;
    cbn [obind] in H; try discriminate H.
  - inversion H; subst. exact L.
  - match type of H with (do _ <- ?X; _) = _ => destruct X as [tr| | |] end;
      cbn [obind] in H; try discriminate H.
    inversion H; subst. lia.
Qed.

Lemma rcn_step_len : forall off c t e r,
  rcn_step is_alnum off c t = Ok (e, r) -> (length r <= length t)%nat.
Proof.
  intros off c t e r H. unfold rcn_step in H.
  destruct ((c =? ch_dquote) || (c =? ch_apos)).
  { inversion H. subst. apply scan_quote_len. }
  destruct (c =? ch_lbrack).
  { apply scan_bracket_len in H as [_ H]. specialize (H ltac:(discriminate)). cbn [length] in H. lia. }
  destruct (wordch c) eqn:W.
  - cbn zeta in H. apply word_step_len in H.
    assert (L : (length (snd (span wordch (c :: t))) <= length t)%nat).
    { cbn [span]. rewrite W. cbn [snd]. apply span_snd_len. }
    lia.
  - inversion H. subst. lia.
Qed.

Lemma rcn_loop_fuel : forall off n f1 f2 l res,
  (length l <= n)%nat -> (length l < f1)%nat -> (length l < f2)%nat ->
  rcn_loop is_alnum f1 off l res = rcn_loop is_alnum f2 off l res.
Proof.
  induction n as [|n IH]; intros f1 f2 l res Hn H1 H2.
  - destruct l; [|cbn in Hn; lia]. destruct f1, f2; try lia. reflexivity.
  - destruct f1 as [|f1]; [lia|]. destruct f2 as [|f2]; [lia|].
    destruct l as [|c t]; [reflexivity|]. cbn [rcn_loop].
    destruct (rcn_step is_alnum off c t) as [[e r]| | |] eqn:E; cbn [obind]; try reflexivity.
    apply rcn_step_len in E. cbn [length] in *. cbn [fst snd]. apply IH; lia.
Qed.

(* the loop with the fuel of the model: fuel-free unfolding equations *)
Definition run_with (off : Z * Z) (l res : list N) : outcome (list N) :=
  rcn_loop is_alnum (S (length l)) off l res.

Lemma rcn_run : forall s off, rcn s off = run_with off s [].
Proof. reflexivity. Qed.
Lemma run_nil : forall off res, run_with off [] res = Ok res.
Proof. reflexivity. Qed.
Lemma run_cons : forall off c t res,
  run_with off (c :: t) res = do er <- rcn_step is_alnum off c t; run_with off (snd er) (res ++ fst er).
Proof.
  intros off c t res. unfold run_with. cbn [length].
  change (rcn_loop is_alnum (S (S (length t))) off (c :: t) res)
    with (do er <- rcn_step is_alnum off c t;
          rcn_loop is_alnum (S (length t)) off (snd er) (res ++ fst er)).
  destruct (rcn_step is_alnum off c t) as [[e r]| | |] eqn:E; cbn [obind]; try reflexivity.
  cbn [fst snd]. apply rcn_step_len in E.
  apply rcn_loop_fuel with (n := length r); lia.
Qed.

(* ------------------------------------------------------------------ no panic, no error, enough fuel *)
(* offsets far beyond any sheet: |d| <= 2^62 *)
Definition off_small (off : Z * Z) : Prop :=
  (- 4611686018427387904 <= fst off <= 4611686018427387904 /\
   - 4611686018427387904 <= snd off <= 4611686018427387904)%Z.

Lemma scan_bracket_ok : forall l d, 0 < d -> exists er, scan_bracket l d = Ok er.
Proof.
  induction l as [|x t IH]; intros d Hd; [eexists; reflexivity|]. cbn [scan_bracket].
  destruct (x =? ch_lbrack).
  - cbn [obind]. destruct (d + 1 =? 0) eqn:E; [eexists; reflexivity|].
    destruct (IH (d + 1) ltac:(lia)) as (er & Her). rewrite Her. eexists; reflexivity.
  - destruct (x =? ch_rbrack).
    + destruct (d =? 0) eqn:E0; [apply N.eqb_eq in E0; lia|]. cbn [obind].
      destruct (d - 1 =? 0) eqn:E; [eexists; reflexivity|].
      apply N.eqb_neq in E. destruct (IH (d - 1) ltac:(lia)) as (er & Her). rewrite Her.
      eexists; reflexivity.
    + cbn [obind]. destruct (d =? 0) eqn:E; [eexists; reflexivity|].
      destruct (IH d Hd) as (er & Her). rewrite Her. eexists; reflexivity.
Qed.

Lemma fold26_nonneg_alpha : forall a x, forallb is_alpha a = true -> (0 <= x)%Z ->
  (0 <= fold_left zf26 a x)%Z.
Proof.
  induction a as [|c a IH]; intros x Ha Hx; [exact Hx|]. cbn [fold_left forallb] in *.
  apply andb_prop in Ha as [Hc Ha]. apply IH; [exact Ha|].
  unfold zf26. pose proof (to_upper_is_upper c Hc) as U. unfold is_upper, ch_A, ch_Z in U. lia.
Qed.
Lemma fold10_nonneg : forall a x, forallb is_digit a = true -> (0 <= x)%Z ->
  (0 <= fold_left zf10 a x)%Z.
Proof.
  induction a as [|c a IH]; intros x Ha Hx; [exact Hx|]. cbn [fold_left forallb] in *.
  apply andb_prop in Ha as [Hc Ha]. apply IH; [exact Ha|].
  unfold zf10. unfold is_digit, ch_0, ch_9 in Hc. lia.
Qed.

Lemma ocn_parse_bounds : forall name ca col ra row,
  ocn_parse name = Some (ca, col, ra, row) -> (-1 <= row < 1048576 /\ -1 <= col < 16384)%Z.
Proof.
  intros name ca col ra row H. unfold ocn_parse in H.
  rewrite ocn_letters_span in H by lia. cbn [Nat.add] in H.
  set (l0 := if starts_dollar name then tl name else name) in *.
  pose proof (span_fst_all is_alpha l0) as Ha.
  destruct (span is_alpha l0) as [a l1]. cbn [fst snd] in *.
  destruct (length a <=? 3)%nat; [|discriminate H].
  destruct (length a =? 0)%nat; [discriminate H|].
  rewrite ocn_digits_span in H by lia. cbn [Nat.add] in H.
  set (l2 := if starts_dollar l1 then tl l1 else l1) in *.
  pose proof (span_fst_all is_digit l2) as Hd.
  destruct (span is_digit l2) as [ds l3]. cbn [fst snd] in *.
  destruct (length ds <=? 7)%nat; [|discriminate H].
  destruct ((length ds =? 0)%nat || negb (is_nil l3) || (hd 0 l2 =? ch_0)); [discriminate H|].
  pose proof (fold26_nonneg_alpha a 0%Z Ha ltac:(lia)) as P1.
  pose proof (fold10_nonneg ds 0%Z Hd ltac:(lia)) as P2.
  unfold ZROWS, ZCOLS in H.
  destruct ((1048576 <=? fold_left zf10 ds 0 - 1)%Z || (16384 <=? fold_left zf26 a 0 - 1)%Z) eqn:E;
    [discriminate H|].
  inversion H; subst. lia.
Qed.

Lemma ocn_total : forall w off, off_small off -> exists o, offset_cell_name w off = Ok o.
Proof.
  intros w [dr dc] [Hr Hc]. cbn [fst snd] in *. unfold offset_cell_name.
  destruct (ocn_parse w) as [[[[ca col] ra] row]|] eqn:P; [|eexists; reflexivity].
  apply ocn_parse_bounds in P. unfold ocn_apply. cbn [fst snd].
  assert (E1 : exists row', (if ra then Ok row else add_i64 row dr) = Ok row').
  { destruct ra; [eexists; reflexivity|]. unfold add_i64, I64MIN, I64MAX.
    destruct ((-9223372036854775808 <=? row + dr)%Z && (row + dr <=? 9223372036854775807)%Z) eqn:E;
      [eexists; reflexivity|lia]. }
  assert (E2 : exists col', (if ca then Ok col else add_i64 col dc) = Ok col').
  { destruct ca; [eexists; reflexivity|]. unfold add_i64, I64MIN, I64MAX.
    destruct ((-9223372036854775808 <=? col + dc)%Z && (col + dc <=? 9223372036854775807)%Z) eqn:E;
      [eexists; reflexivity|lia]. }
  destruct E1 as (row' & E1). destruct E2 as (col' & E2). rewrite E1, E2. cbn [obind].
  destruct (in_sheet row' col') eqn:S; cbn [negb]; [|eexists; reflexivity].
  unfold in_sheet, ZROWS, ZCOLS in S.
  assert (E4 : as_u32 col' = Z.to_N col').
  { unfold as_u32. rewrite Z.mod_small by lia. reflexivity. }
  rewrite E4. rewrite column_number_to_name_is_letters by lia. eexists; reflexivity.
Qed.

Lemma owr_end_bounds : forall w k a i, owr_end w = Some (k, a, i) ->
  (-1 <= i /\ i < (if k then 16384 else 1048576))%Z.
Proof.
  intros w k a i H. unfold owr_end in H.
  set (body := if starts_dollar w then tl w else w) in *.
  destruct (is_nil body); [discriminate H|].
  destruct ((length body <=? 3)%nat && forallb is_alpha body) eqn:E1.
  - apply andb_prop in E1 as [_ A].
    pose proof (fold26_nonneg_alpha body 0%Z A ltac:(lia)) as P. unfold zf26 in P.
    unfold ZCOLS in H.
    match type of H with (if ?c then _ else _) = _ => destruct c eqn:E end; [|discriminate H].
    inversion H; subst. lia.
  - destruct ((length body <=? 7)%nat && negb (hd 0 body =? ch_0) && forallb is_digit body) eqn:E2;
      [|discriminate H].
    apply andb_prop in E2 as [_ D].
    pose proof (fold10_nonneg body 0%Z D ltac:(lia)) as P. unfold zf10 in P.
    unfold ZROWS in H.
    match type of H with (if ?c then _ else _) = _ => destruct c eqn:E end; [|discriminate H].
    inversion H; subst. lia.
Qed.

Lemma owr_one_total : forall k a i d, exists o,
  owr_one k a i d (if k then ZCOLS else ZROWS) = Ok o.
Proof.
  intros k a i d. unfold owr_one.
  destruct (if a then Some i else checked_add_i64 i d) as [j|]; [|eexists; reflexivity].
  destruct (negb ((0 <=? j)%Z && (j <? (if k then ZCOLS else ZROWS))%Z)) eqn:E; [eexists; reflexivity|].
  destruct k.
  - unfold ZCOLS in E.
    assert (E4 : as_u32 j = Z.to_N j) by (unfold as_u32; rewrite Z.mod_small by lia; reflexivity).
    rewrite E4. rewrite column_number_to_name_is_letters by lia. eexists; reflexivity.
  - eexists; reflexivity.
Qed.

Lemma owr_total : forall a b off, exists o, offset_whole_range a b off = Ok o.
Proof.
  intros a b off. unfold offset_whole_range.
  destruct (owr_end a) as [[[k1 a1] i1]|]; [|eexists; reflexivity].
  destruct (owr_end b) as [[[k2 a2] i2]|]; [|eexists; reflexivity].
  destruct (negb (Bool.eqb k1 k2)); [eexists; reflexivity|].
  destruct (owr_one_total k1 a1 i1 (if k1 then snd off else fst off)) as (o1 & E1). rewrite E1.
  cbn [obind]. destruct o1 as [t1|]; [|eexists; reflexivity].
  destruct (owr_one_total k1 a2 i2 (if k1 then snd off else fst off)) as (o2 & E2). rewrite E2.
  eexists; reflexivity.
Qed.

Lemma word_step_total : forall off w r, off_small off -> exists er, word_step is_alnum off w r = Ok er.
Proof.
  intros off w r Hoff. unfold word_step.
  set (sr := match r with
             | x :: r0 => if x =? ch_colon then span wordch r0 else ([], r)
             | [] => ([], r)
             end).
  destruct (owr_total w (fst sr) off) as (ow & Ew).
  destruct (ocn_total w off Hoff) as (o & Ho).
  assert (W : exists wh, (if is_nil (fst sr) then Ok None
               else match snd sr with
                    | x :: _ => if (x =? ch_lparen) || (x =? ch_bang) then Ok None
                                else offset_whole_range w (fst sr) off
                    | [] => offset_whole_range w (fst sr) off
                    end) = Ok wh).
  { destruct (is_nil (fst sr)); [eexists; reflexivity|].
    destruct (snd sr) as [|x r3]; [rewrite Ew; eexists; reflexivity|].
    destruct ((x =? ch_lparen) || (x =? ch_bang)); [eexists; reflexivity|rewrite Ew; eexists; reflexivity]. }
  destruct W as (wh & EW). rewrite EW. cbn [obind].
  destruct wh as [rg|]; [eexists; reflexivity|].
  destruct r as [|x r0]; [rewrite Ho; eexists; reflexivity|].
  destruct ((x =? ch_lparen) || (x =? ch_bang)); [eexists; reflexivity|].
  match goal with |- context[if ?c then _ else _] => destruct c end; [eexists; reflexivity|].
  rewrite Ho. eexists; reflexivity.
Qed.

Lemma rcn_step_total : forall off c t, off_small off ->
  exists er, rcn_step is_alnum off c t = Ok er.
Proof.
  intros off c t Hoff. unfold rcn_step.
  destruct ((c =? ch_dquote) || (c =? ch_apos)); [eexists; reflexivity|].
  destruct (c =? ch_lbrack) eqn:B.
  { cbn [scan_bracket]. rewrite B. cbn [obind]. change (0 + 1 =? 0) with false. cbn iota.
    destruct (scan_bracket_ok t (0 + 1) ltac:(lia)) as (er & Her). rewrite Her.
    eexists; reflexivity. }
  destruct (wordch c); [|eexists; reflexivity].
  cbn zeta. apply word_step_total. exact Hoff.
Qed.

Lemma run_total : forall off, off_small off ->
  forall n l res, (length l <= n)%nat -> exists r, run_with off l res = Ok r.
Proof.
  intros off Hoff. induction n as [|n IH]; intros l res Hl.
  - destruct l; [eexists; apply run_nil|cbn in Hl; lia].
  - destruct l as [|c t]; [eexists; apply run_nil|]. rewrite run_cons.
    destruct (rcn_step_total off c t Hoff) as ([e r] & Hs). rewrite Hs. cbn [obind fst snd].
    apply IH. apply rcn_step_len in Hs. cbn [length] in Hl. lia.
Qed.

(* replace_cell_names is total on every text: never a panic (bracket depth, i64), never an
   error, the fuel of the model suffices *)
Theorem rcn_total : forall s off, off_small off -> exists r, rcn s off = Ok r.
Proof. intros s off Hoff. rewrite rcn_run. apply (run_total off Hoff (length s)). lia. Qed.

Lemma off_ok_small : forall off, off_ok off = true -> off_small off.
Proof.
  intros [dr dc] H. unfold off_ok, MAX_ROWS, MAX_COLUMNS in H. unfold off_small. cbn [fst snd] in *. lia.
Qed.

(* ------------------------------------------------------------------ next_formula never panics *)
(* positions are u32 in the Rust code (a typing constraint, not a well-formedness condition) *)
Definition u32_pos (p : N * N) : Prop := fst p <= U32MAX /\ snd p <= U32MAX.
Definition fs_u32 (fs : fmap) : Prop :=
  forall si f d m, fm_get fs si = Some (f, (d, m)) -> u32_pos m.

Lemma diff_small : forall p m, u32_pos p -> u32_pos m ->
  off_small ((Z.of_N (fst p) - Z.of_N (fst m))%Z, (Z.of_N (snd p) - Z.of_N (snd m))%Z).
Proof.
  intros p m [P1 P2] [M1 M2]. unfold off_small, U32MAX in *. cbn [fst snd]. lia.
Qed.

Lemma cell_step_np : forall fs pos k, fs_u32 fs -> u32_pos pos ->
  match cell_step is_alnum fs pos k with
  | Ok r => fs_u32 (fst r) | Err _ => True | Panic => False | OutOfFuel => False
  end.
Proof.
  intros fs pos k Hfs Hp. destruct k as [|f|si ref f|si own|]; cbn [cell_step fst]; try exact Hfs; try exact I.
  - pose proof (get_dimension_np ref) as D.
    destruct (get_dimension ref) as [d| | |]; cbn [obind]; try exact D.
    cbn [fst]. intros si' f' d' m' G. unfold fm_insert in G. cbn [fm_get] in G.
    destruct (si =? si').
    + inversion G; subst. exact Hp.
    + exact (Hfs _ _ _ _ G).
  - destruct (fm_get fs si) as [[f [dims master]]|] eqn:G; [|exact Hfs].
    destruct (contains dims pos); [|exact Hfs].
    destruct (rcn_total f _ (diff_small pos master Hp (Hfs _ _ _ _ G))) as (r & Hr).
    rewrite Hr. cbn [obind fst]. exact Hfs.
Qed.

Lemma run_cells_np : forall cells fs, fs_u32 fs -> Forall (fun c : fcell => u32_pos (fst c)) cells ->
  no_panic (run_cells is_alnum fs cells).
Proof.
  induction cells as [|[pos k] cells IH]; intros fs Hfs Hc; [exact I|].
  inversion Hc as [|x l Hp Hc']; subst. cbn [fst] in Hp. cbn [run_cells].
  pose proof (cell_step_np fs pos k Hfs Hp) as S.
  destruct (cell_step is_alnum fs pos k) as [r| | |]; cbn [obind]; try exact S.
  pose proof (IH (fst r) S Hc') as R.
  destruct (run_cells is_alnum (fst r) cells) as [rest| | |]; cbn [obind]; first [exact R | exact I].
Qed.

(* the shared-formula part of next_formula / worksheet_formula on ANY sequence of cells (any ref
   attribute, any text, any order): an error at worst, never a panic, never out of fuel *)
Theorem next_formula_np : forall cells, Forall (fun c : fcell => u32_pos (fst c)) cells ->
  no_panic (run_cells is_alnum [] cells) /\ no_panic (sheet_formulas is_alnum cells).
Proof.
  intros cells Hc.
  assert (H0 : fs_u32 []) by (intros si f d m G; discriminate G).
  pose proof (run_cells_np cells [] H0 Hc) as R. split; [exact R|].
  unfold sheet_formulas. destruct (run_cells is_alnum [] cells); cbn [obind]; first [exact R | exact I].
Qed.

End Run.

Section Proofs.
Variable is_alnum : N -> bool.
Hypothesis is_alnum_ascii : forall c, c < 128 -> is_alnum c = ascii_alnum c.

Local Notation wordch := (is_formula_word_char is_alnum).
Local Notation rcn := (replace_cell_names is_alnum).
Local Notation run := (run_with is_alnum).

Lemma wordch_ascii : forall c, c < 128 -> wordch c = ascii_wordch c.
Proof.
  intros c H. unfold is_formula_word_char, ascii_wordch. rewrite is_alnum_ascii by exact H.
  reflexivity.
Qed.

Lemma word_char_eq : forall c, word_char is_alnum c = wordch c.
Proof.
  intros c. unfold word_char, dname_char, uname_char, is_formula_word_char.
  destruct (is_alnum c), (c =? ch_uscore), (c =? ch_dot), (c =? ch_dollar), (c =? ch_bslash),
    (c =? ch_qmark); reflexivity.
Qed.

Lemma wordch_upper : forall c, is_upper c = true -> wordch c = true.
Proof.
  intros c H. rewrite wordch_ascii by (apply upper_lt128; exact H).
  unfold ascii_wordch, ascii_alnum, is_alpha. rewrite H. reflexivity.
Qed.
Lemma wordch_digit : forall c, is_digit c = true -> wordch c = true.
Proof.
  intros c H. rewrite wordch_ascii by (apply digit_lt128; exact H).
  unfold ascii_wordch, ascii_alnum. rewrite H, orb_true_r. reflexivity.
Qed.
Lemma wordch_dollar : wordch ch_dollar = true.
Proof. rewrite wordch_ascii by reflexivity. reflexivity. Qed.
Lemma wordch_uname : forall c, uname_char is_alnum c = true -> wordch c = true.
Proof.
  intros c H. rewrite <- word_char_eq. unfold word_char, dname_char. rewrite H. reflexivity.
Qed.
Lemma wordch_dname : forall c, dname_char is_alnum c = true -> wordch c = true.
Proof.
  intros c H. rewrite <- word_char_eq. unfold word_char. rewrite H. reflexivity.
Qed.
(* a word character is none of the characters the scanner treats specially *)
Lemma wordch_not_special : forall c, wordch c = true ->
  (c =? ch_dquote) = false /\ (c =? ch_apos) = false /\ (c =? ch_lbrack) = false.
Proof.
  intros c H. repeat split.
  - destruct (c =? ch_dquote) eqn:E; [|reflexivity]. apply N.eqb_eq in E. subst c.
    rewrite wordch_ascii in H by reflexivity. discriminate H.
  - destruct (c =? ch_apos) eqn:E; [|reflexivity]. apply N.eqb_eq in E. subst c.
    rewrite wordch_ascii in H by reflexivity. discriminate H.
  - destruct (c =? ch_lbrack) eqn:E; [|reflexivity]. apply N.eqb_eq in E. subst c.
    rewrite wordch_ascii in H by reflexivity. discriminate H.
Qed.
Lemma dname_not_dollar : forall c, dname_char is_alnum c = true -> c <> ch_dollar.
Proof.
  intros c H E. subst c. unfold dname_char, uname_char in H.
  rewrite is_alnum_ascii in H by reflexivity. discriminate H.
Qed.

(* ------------------------------------------------------------------ one step, by kind of first char *)
Definition plain_char (c : N) : Prop :=
  wordch c = false /\ c <> ch_dquote /\ c <> ch_apos /\ c <> ch_lbrack.

Lemma run_other : forall off c s res, plain_char c -> run off (c :: s) res = run off s (res ++ [c]).
Proof.
  intros off c s res (W & H1 & H2 & H3). rewrite run_cons. unfold rcn_step.
  apply N.eqb_neq in H1, H2, H3. rewrite H1, H2, H3, W. reflexivity.
Qed.

(* the separator condition for the text after a word *)
Definition sep_start (s : list N) : Prop :=
  match s with [] => True | c :: _ => wordch c = false /\ c <> ch_lparen /\ c <> ch_bang end.
Definition next_call (s : list N) : bool :=
  match s with x :: _ => (x =? ch_lparen) || (x =? ch_bang) | [] => false end.

Lemma sep_start_head_fails : forall s, sep_start s -> head_fails wordch s.
Proof. intros [|c s] H; [exact I|]. exact (proj1 H). Qed.

(* the ':' look-ahead of the word branch has no effect: no word follows the ':', or that word
   is not followed by '!' and the two words are not the ends of a whole range *)
Definition bang_head (r : list N) : bool := match r with y :: _ => y =? ch_bang | [] => false end.
Definition colon_inert (w r : list N) : Prop :=
  match r with
  | x :: r' =>
      (x =? ch_colon) = true ->
      fst (span wordch r') = [] \/
      (bang_head (snd (span wordch r')) = false /\
       (owr_end w = None \/ owr_end (fst (span wordch r')) = None))
  | [] => True
  end.

Lemma owr_none_l : forall w v off, owr_end w = None -> offset_whole_range w v off = Ok None.
Proof. intros w v off H. unfold offset_whole_range. rewrite H. reflexivity. Qed.
Lemma owr_none_r : forall w v off, owr_end v = None -> offset_whole_range w v off = Ok None.
Proof.
  intros w v off H. unfold offset_whole_range. rewrite H.
  destruct (owr_end w) as [[[k a] i]|]; reflexivity.
Qed.

Lemma word_step_old : forall off w r, colon_inert w r ->
  word_step is_alnum off w r =
  do tr <- (if next_call r then Ok None else offset_cell_name w off);
  Ok (match tr with Some nm => nm | None => w end, r).
Proof.
  intros off w r H. unfold word_step, next_call. destruct r as [|x r']; [reflexivity|].
  cbn [colon_inert] in H. destruct (x =? ch_colon) eqn:EC.
  - apply N.eqb_eq in EC as EC'. subst x. specialize (H eq_refl).
    change ((ch_colon =? ch_lparen) || (ch_colon =? ch_bang)) with false. cbn iota.
    destruct H as [H|[Hb H]].
    + rewrite H. cbn [is_nil obind nonempty negb andb]. reflexivity.
    + fold (bang_head (snd (span wordch r'))). rewrite Hb.
      assert (W : (if is_nil (fst (span wordch r')) then Ok None
                   else match snd (span wordch r') with
                        | x :: _ => if (x =? ch_lparen) || (x =? ch_bang) then Ok None
                                    else offset_whole_range w (fst (span wordch r')) off
                        | [] => offset_whole_range w (fst (span wordch r')) off
                        end) = Ok None).
      { destruct (is_nil (fst (span wordch r'))); [reflexivity|].
        assert (O : offset_whole_range w (fst (span wordch r')) off = Ok None)
          by (destruct H as [H|H]; [apply owr_none_l|apply owr_none_r]; exact H).
        rewrite O. destruct (snd (span wordch r')) as [|y r3]; [reflexivity|].
        destruct ((y =? ch_lparen) || (y =? ch_bang)); reflexivity. }
      rewrite W. cbn [obind]. rewrite !andb_false_r. reflexivity.
  - cbn [fst snd is_nil obind andb]. reflexivity.
Qed.

Lemma run_word : forall off w s res,
  w <> [] -> forallb wordch w = true -> head_fails wordch s -> colon_inert w s ->
  run off (w ++ s) res =
  do tr <- (if next_call s then Ok None else offset_cell_name w off);
  run off s (res ++ match tr with Some nm => nm | None => w end).
Proof.
  intros off w s res Hne Hw Hs Hc0. destruct w as [|c w']; [contradiction|].
  cbn [app]. rewrite run_cons. unfold rcn_step.
  cbn [forallb] in Hw. apply andb_prop in Hw as [Hc Hw'].
  destruct (wordch_not_special c Hc) as (E1 & E2 & E3). rewrite E1, E2, E3, Hc. cbn [orb].
  change (c :: w' ++ s) with ((c :: w') ++ s). cbn zeta.
  rewrite span_app; [|cbn [forallb]; rewrite Hc, Hw'; reflexivity|exact Hs]. cbn [fst snd].
  rewrite (word_step_old off (c :: w') s Hc0).
  destruct (if next_call s then Ok None else offset_cell_name (c :: w') off) as [tr| | |]; reflexivity.
Qed.

(* heads that are not ':' *)
Definition no_colon (s : list N) : Prop :=
  match s with x :: _ => (x =? ch_colon) = false | [] => True end.
Lemma no_colon_inert : forall w s, no_colon s -> colon_inert w s.
Proof. intros w [|x s] H; [exact I|]. cbn in *. intros C. rewrite H in C. discriminate C. Qed.

(* a word that is reproduced unchanged *)
Lemma run_word_inert : forall off w s res,
  w <> [] -> forallb wordch w = true -> head_fails wordch s ->
  (next_call s = true \/ ocn_parse w = None) -> colon_inert w s ->
  run off (w ++ s) res = run off s (res ++ w).
Proof.
  intros off w s res Hne Hw Hs H Hc. rewrite run_word by assumption.
  destruct (next_call s); [reflexivity|]. destruct H as [H|H]; [discriminate H|].
  unfold offset_cell_name. rewrite H. reflexivity.
Qed.

(* the first name of a 3-D sheet prefix  first:last!  is copied, whatever it looks like *)
Lemma run_word_sheet3d : forall off w v s res,
  w <> [] -> forallb wordch w = true -> v <> [] -> forallb wordch v = true ->
  run off (w ++ ch_colon :: v ++ ch_bang :: s) res = run off (ch_colon :: v ++ ch_bang :: s) (res ++ w).
Proof.
  intros off w v s res Hne Hw Hv Wv. destruct w as [|c w']; [contradiction|].
  cbn [app]. rewrite run_cons. unfold rcn_step.
  cbn [forallb] in Hw. apply andb_prop in Hw as [Hc Hw'].
  destruct (wordch_not_special c Hc) as (E1 & E2 & E3). rewrite E1, E2, E3, Hc. cbn [orb].
  change (c :: w' ++ ch_colon :: v ++ ch_bang :: s) with ((c :: w') ++ ch_colon :: v ++ ch_bang :: s).
  cbn zeta. rewrite span_app; [|cbn [forallb]; rewrite Hc, Hw'; reflexivity|].
  2:{ cbn. rewrite wordch_ascii by reflexivity. reflexivity. }
  cbn [fst snd]. unfold word_step. rewrite N.eqb_refl.
  rewrite (span_app wordch v (ch_bang :: s) Wv); [|cbn; rewrite wordch_ascii by reflexivity; reflexivity].
  cbn [fst snd]. destruct v as [|y v']; [contradiction|]. cbn [is_nil nonempty negb].
  change ((ch_bang =? ch_lparen) || (ch_bang =? ch_bang)) with true. cbn iota. cbn [obind].
  change ((ch_colon =? ch_lparen) || (ch_colon =? ch_bang)) with false. cbn iota.
  rewrite N.eqb_refl. cbn [andb obind fst snd]. reflexivity.
Qed.

(* a word, ':' and a second word that is not followed by '(' or '!': the whole-range helper
   decides; when it declines, the first word is handled as usual *)
Lemma run_word_range : forall off w v s res,
  w <> [] -> forallb wordch w = true -> v <> [] -> forallb wordch v = true -> sep_start s ->
  run off (w ++ ch_colon :: v ++ s) res =
  do whole <- offset_whole_range w v off;
  match whole with
  | Some t => run off s (res ++ t)
  | None => do tr <- offset_cell_name w off;
            run off (ch_colon :: v ++ s) (res ++ match tr with Some nm => nm | None => w end)
  end.
Proof.
  intros off w v s res Hne Hw Hv Wv Hs. destruct w as [|c w']; [contradiction|].
  cbn [app]. rewrite run_cons. unfold rcn_step.
  cbn [forallb] in Hw. apply andb_prop in Hw as [Hc Hw'].
  destruct (wordch_not_special c Hc) as (E1 & E2 & E3). rewrite E1, E2, E3, Hc. cbn [orb].
  change (c :: w' ++ ch_colon :: v ++ s) with ((c :: w') ++ ch_colon :: v ++ s).
  cbn zeta. rewrite span_app; [|cbn [forallb]; rewrite Hc, Hw'; reflexivity|].
  2:{ cbn. rewrite wordch_ascii by reflexivity. reflexivity. }
  cbn [fst snd]. unfold word_step. rewrite N.eqb_refl.
  rewrite (span_app wordch v s Wv) by (apply sep_start_head_fails; exact Hs).
  cbn [fst snd]. destruct v as [|y v'] eqn:Ev; [contradiction|]. cbn [is_nil nonempty negb].
  rewrite <- Ev in *.
  assert (W : match s with
              | x :: _ => if (x =? ch_lparen) || (x =? ch_bang) then Ok None
                          else offset_whole_range (c :: w') v off
              | [] => offset_whole_range (c :: w') v off
              end = offset_whole_range (c :: w') v off).
  { destruct s as [|x s']; [reflexivity|]. destruct Hs as (_ & H1 & H2).
    apply N.eqb_neq in H1, H2. rewrite H1, H2. reflexivity. }
  rewrite W. destruct (offset_whole_range (c :: w') v off) as [[t|]| | |]; cbn [obind]; try reflexivity.
  change ((ch_colon =? ch_lparen) || (ch_colon =? ch_bang)) with false. cbn iota.
  assert (B : bang_head s = false).
  { destruct s as [|x s']; [reflexivity|]. destruct Hs as (_ & _ & H2). cbn. apply N.eqb_neq. exact H2. }
  fold (bang_head s). rewrite B, !andb_false_r.
  destruct (offset_cell_name (c :: w') off) as [tr| | |]; reflexivity.
Qed.

Lemma sep_start_next_call : forall s, sep_start s -> next_call s = false.
Proof.
  intros [|c s] H; [reflexivity|]. destruct H as (_ & H1 & H2). cbn.
  apply N.eqb_neq in H1, H2. rewrite H1, H2. reflexivity.
Qed.

(* quoted items: copied verbatim up to the closing quote *)
Lemma scan_quote_app : forall q a s, ~ In q a -> scan_quote q (a ++ q :: s) = (a ++ [q], s).
Proof.
  induction a as [|x a IH]; intros s H.
  - cbn. rewrite N.eqb_refl. reflexivity.
  - cbn [app scan_quote]. destruct (x =? q) eqn:E.
    + apply N.eqb_eq in E. subst. exfalso. apply H. left. reflexivity.
    + rewrite IH by (intros C; apply H; right; exact C). reflexivity.
Qed.

Lemma run_quote : forall off q a s res,
  q = ch_dquote \/ q = ch_apos -> ~ In q a ->
  run off (q :: a ++ q :: s) res = run off s (res ++ q :: a ++ [q]).
Proof.
  intros off q a s res Hq Ha. rewrite run_cons. unfold rcn_step.
  replace ((q =? ch_dquote) || (q =? ch_apos)) with true
    by (destruct Hq; subst q; reflexivity).
  rewrite scan_quote_app by exact Ha. reflexivity.
Qed.

(* with doubled quotes inside: a sequence of quoted blocks *)
Lemma run_quoted_gen : forall off q, q = ch_dquote \/ q = ch_apos ->
  forall body a s res, ~ In q a ->
  run off (q :: a ++ double_ch q body ++ q :: s) res
  = run off s (res ++ q :: a ++ double_ch q body ++ [q]).
Proof.
  intros off q Hq. induction body as [|c body IH]; intros a s res Ha.
  - cbn [double_ch app]. apply run_quote; assumption.
  - cbn [double_ch]. destruct (c =? q) eqn:E.
    + apply N.eqb_eq in E. subst c.
      change (q :: a ++ (q :: q :: double_ch q body) ++ q :: s)
        with (q :: a ++ q :: (q :: [] ++ double_ch q body ++ q :: s)).
      rewrite run_quote by assumption. rewrite IH by (intros C; exact C).
      f_equal. cbn [app]. rewrite <- !app_assoc. cbn [app]. rewrite <- !app_assoc. reflexivity.
    + change (q :: a ++ (c :: double_ch q body) ++ q :: s)
        with (q :: a ++ [c] ++ double_ch q body ++ q :: s).
      rewrite (app_assoc a [c]). rewrite IH.
      * f_equal. rewrite <- !app_assoc. reflexivity.
      * intros C. apply in_app_or in C as [C|[C|[]]]; [exact (Ha C)|].
        subst c. rewrite N.eqb_refl in E. discriminate E.
Qed.

Lemma run_quoted : forall off q body s res, q = ch_dquote \/ q = ch_apos ->
  run off ([q] ++ double_ch q body ++ q :: s) res = run off s (res ++ [q] ++ double_ch q body ++ [q]).
Proof.
  intros off q body s res Hq.
  exact (run_quoted_gen off q Hq body [] s res (fun C => C)).
Qed.

(* bracketed items *)
Lemma scan_bracket_span : forall s d rest,
  brack_span s d = true -> scan_bracket (s ++ rest) d = Ok (s, rest).
Proof.
  induction s as [|x t IH]; intros d rest H; [discriminate H|].
  cbn [brack_span] in H. cbn [app scan_bracket].
  destruct (x =? ch_lbrack) eqn:E1.
  - replace ((x =? ch_rbrack) && (d =? 0)) with false in H
      by (apply N.eqb_eq in E1; subst x; reflexivity).
    cbn [obind]. destruct (d + 1 =? 0) eqn:E0; [apply N.eqb_eq in E0; lia|].
    rewrite (IH _ rest H). reflexivity.
  - destruct (x =? ch_rbrack) eqn:E2.
    + destruct (d =? 0) eqn:E3; [discriminate H|]. cbn [andb] in H. cbn [obind].
      destruct (d - 1 =? 0) eqn:E0.
      * destruct t; [reflexivity|discriminate H].
      * rewrite (IH _ rest H). reflexivity.
    + cbn [andb] in H. cbn [obind]. destruct (d =? 0) eqn:E0.
      * destruct t; [reflexivity|discriminate H].
      * rewrite (IH _ rest H). reflexivity.
Qed.

Lemma run_brack : forall off s rest res,
  brack_ok s = true -> run off (s ++ rest) res = run off rest (res ++ s).
Proof.
  intros off s rest res H. unfold brack_ok in H. destruct s as [|c t]; [discriminate H|].
  apply andb_prop in H as [Hc Hs]. cbn [app]. rewrite run_cons. unfold rcn_step.
  apply N.eqb_eq in Hc. subst c. change ((ch_lbrack =? ch_dquote) || (ch_lbrack =? ch_apos)) with false.
  cbn iota. rewrite N.eqb_refl.
  change (ch_lbrack :: t ++ rest) with ((ch_lbrack :: t) ++ rest).
  rewrite (scan_bracket_span _ _ rest Hs). reflexivity.
Qed.

(* ------------------------------------------------------------------ concrete ASCII characters *)
Lemma plain_ascii : forall c, c < 128 -> ascii_wordch c = false ->
  c <> ch_dquote -> c <> ch_apos -> c <> ch_lbrack -> plain_char c.
Proof.
  intros c H W H1 H2 H3. repeat split; try assumption. rewrite wordch_ascii by exact H. exact W.
Qed.
Ltac plain_tac := apply plain_ascii; [reflexivity|reflexivity|discriminate|discriminate|discriminate].

Lemma wordch_ascii_all : forall w,
  forallb (fun c => c <? 128) w = true -> forallb ascii_wordch w = true -> forallb wordch w = true.
Proof.
  induction w as [|c w IH]; intros H1 H2; [reflexivity|]. cbn [forallb] in *.
  apply andb_prop in H1 as [A1 B1]. apply andb_prop in H2 as [A2 B2].
  rewrite wordch_ascii by (apply N.ltb_lt; exact A1). rewrite A2. exact (IH B1 B2).
Qed.
Ltac word_tac := apply wordch_ascii_all; reflexivity.

Lemma wordch_false_ascii : forall c, c < 128 -> ascii_wordch c = false -> wordch c = false.
Proof. intros c H W. rewrite wordch_ascii by exact H. exact W. Qed.

Lemma sym_plain : forall c, existsb (N.eqb c) sym_chars = true -> plain_char c.
Proof.
  intros c H. unfold sym_chars in H. cbn [existsb] in H.
  repeat (apply orb_prop in H as [H|H]; [apply N.eqb_eq in H; subst c; plain_tac|]).
  discriminate H.
Qed.

(* ------------------------------------------------------------------ offset_cell_name: applying the offset *)
Lemma ocn_apply_ref : forall ca c ra r off, c < 16384 -> r < 1048576 -> off_ok off = true ->
  ocn_apply (ca, Z.of_N c, ra, Z.of_N r) off
  = Ok (if tok_in_range off (TRef ca c ra r)
        then Some (render (translate off (TRef ca c ra r))) else None).
Proof.
  intros ca c ra r [dr dc] Hc Hr Hoff. unfold ocn_apply.
  unfold off_ok, MAX_ROWS, MAX_COLUMNS in Hoff. cbn [fst snd] in *.
  set (row' := if ra then Z.of_N r else (Z.of_N r + dr)%Z).
  set (col' := if ca then Z.of_N c else (Z.of_N c + dc)%Z).
  assert (E1 : (if ra then Ok (Z.of_N r) else add_i64 (Z.of_N r) dr) = Ok row').
  { unfold row'. destruct ra; [reflexivity|]. unfold add_i64, I64MIN, I64MAX.
    destruct ((-9223372036854775808 <=? Z.of_N r + dr)%Z && (Z.of_N r + dr <=? 9223372036854775807)%Z) eqn:E;
      [reflexivity|lia]. }
  assert (E2 : (if ca then Ok (Z.of_N c) else add_i64 (Z.of_N c) dc) = Ok col').
  { unfold col'. destruct ca; [reflexivity|]. unfold add_i64, I64MIN, I64MAX.
    destruct ((-9223372036854775808 <=? Z.of_N c + dc)%Z && (Z.of_N c + dc <=? 9223372036854775807)%Z) eqn:E;
      [reflexivity|lia]. }
  rewrite E1, E2. cbn [obind].
  assert (E3 : in_sheet row' col' = tok_in_range (dr, dc) (TRef ca c ra r)).
  { unfold in_sheet, tok_in_range, comp_in_range, ZROWS, ZCOLS, MAX_ROWS, MAX_COLUMNS, row', col'.
    cbn [fst snd]. destruct ca, ra; cbn [orb]; lia. }
  rewrite E3. destruct (tok_in_range (dr, dc) (TRef ca c ra r)) eqn:T; [|reflexivity].
  cbn [negb].
  assert (Hb : (0 <= row' < 1048576 /\ 0 <= col' < 16384)%Z).
  { assert (T' : in_sheet row' col' = true) by (rewrite E3; try exact T; reflexivity).
    unfold in_sheet, ZROWS, ZCOLS in T'. lia. }
  assert (E4 : as_u32 col' = Z.to_N col').
  { unfold as_u32. rewrite Z.mod_small by lia. reflexivity. }
  rewrite E4. rewrite column_number_to_name_is_letters by lia.
  unfold i64_to_string. destruct (row' + 1 <? 0)%Z eqn:E5; [lia|].
  do 2 f_equal. cbn [translate render fst snd]. unfold render_ref, a1_ref.
  assert (M1 : move ca c dc = Z.to_N col').
  { unfold move, col'. destruct ca; lia. }
  assert (M2 : move ra r dr + 1 = Z.to_N (row' + 1)).
  { unfold move, row'. destruct ra; lia. }
  rewrite M1, M2. destruct ca, ra; reflexivity.
Qed.

(* ------------------------------------------------------------------ words of the grammar *)
Lemma letters_word : forall c, forallb wordch (letters c) = true.
Proof.
  intros c. apply Forall_forallb. eapply Forall_impl; [|apply letters_upper].
  intros x Hx. apply wordch_upper. exact Hx.
Qed.
Lemma dec_word : forall n, forallb wordch (dec n) = true.
Proof.
  intros n. apply Forall_forallb. eapply Forall_impl; [|apply dec_digits].
  intros x Hx. apply wordch_digit. exact Hx.
Qed.
Lemma dollar_word : forall a, forallb wordch (dollar a) = true.
Proof. intros [|]; cbn [dollar forallb]; [rewrite wordch_dollar|]; reflexivity. Qed.
Lemma digits_word : forall l, forallb is_digit l = true -> forallb wordch l = true.
Proof. intros l. apply forallb_impl. exact wordch_digit. Qed.

Lemma render_ref_eq : forall ca c ra r,
  render_ref ca c ra r = dollar ca ++ letters c ++ dollar ra ++ dec (r + 1).
Proof. intros [|] c [|] r; reflexivity. Qed.

Lemma ends_word_app : forall v u,
  u <> [] -> forallb wordch u = true -> ends_word is_alnum (v ++ u) = true.
Proof.
  intros v u Hne Hu. destruct (exists_last Hne) as (u' & c & E). subst u.
  unfold ends_word. rewrite app_assoc, rev_app_distr. cbn [rev app].
  rewrite word_char_eq. rewrite forallb_app in Hu. apply andb_prop in Hu as [_ Hc].
  cbn [forallb] in Hc. rewrite andb_true_r in Hc. exact Hc.
Qed.

Lemma app_nonempty_r : forall (a b : list N), b <> [] -> a ++ b <> [].
Proof. intros a b H E. apply app_eq_nil in E as [_ E]. exact (H E). Qed.
Lemma app_nonempty_l : forall (a b : list N), a <> [] -> a ++ b <> [].
Proof. intros a b H E. apply app_eq_nil in E as [E _]. exact (H E). Qed.
Lemma nonempty_ne : forall l, nonempty l = true -> l <> [].
Proof. intros [|x l] H; [discriminate H|discriminate]. Qed.

Ltac lnorm := repeat (progress (rewrite <- ?app_assoc; cbn [app])); reflexivity.

(* ------------------------------------------------------------------ one token *)
(* ------------------------------------------------------------------ the ':' conditions of the grammar *)
Lemma span_ext : forall (p q : N -> bool) l, (forall c, p c = q c) -> span p l = span q l.
Proof.
  intros p q l H. induction l as [|c t IH]; [reflexivity|]. cbn [span]. rewrite <- H, IH. reflexivity.
Qed.
Lemma span_word_char : forall l, span (word_char is_alnum) l = span wordch l.
Proof. intros l. apply span_ext. exact word_char_eq. Qed.

Lemma last_word_app : forall v u, forallb wordch u = true -> head_fails wordch (rev v) ->
  last_word is_alnum (v ++ u) = u.
Proof.
  intros v u Hu Hv. unfold last_word. rewrite span_word_char, rev_app_distr.
  rewrite span_app; [cbn [fst]; apply rev_involutive| |exact Hv].
  rewrite forallb_forall in *. intros x Hx. apply Hu. apply in_rev. exact Hx.
Qed.

Lemma owr_end_range_end : forall w x, owr_end w = Some x -> is_range_end w = true.
Proof.
  intros w x H. unfold owr_end in H. unfold is_range_end.
  set (body := if starts_dollar w then tl w else w) in *.
  unfold nonempty. destruct (is_nil body); [discriminate H|]. cbn [negb andb].
  destruct ((length body <=? 3)%nat && forallb is_alpha body); [reflexivity|]. cbn [orb].
  destruct ((length body <=? 7)%nat && negb (hd 0 body =? ch_0) && forallb is_digit body) eqn:E;
    [|discriminate H].
  apply andb_prop in E as [E D]. apply andb_prop in E as [L _]. rewrite L, D. reflexivity.
Qed.

Lemma colon_free_inert : forall w s, w <> [] -> colon_free is_alnum w s = true -> colon_inert w s.
Proof.
  intros w s Hw H. destruct s as [|x s']; [exact I|]. cbn [colon_free colon_inert] in *.
  intros C. rewrite C in H. rewrite span_word_char in H.
  destruct w as [|c w']; [contradiction|]. cbn [is_nil orb] in H.
  destruct (fst (span wordch s')) as [|y v'] eqn:Ev; [left; reflexivity|right].
  cbn [is_nil orb] in H. apply andb_prop in H as [Hb Hr]. fold (bang_head (snd (span wordch s'))) in Hb.
  apply negb_true_iff in Hb, Hr. split; [exact Hb|].
  destruct (owr_end (c :: w')) as [x1|] eqn:E1; [|left; reflexivity]. right.
  destruct (owr_end (y :: v')) as [x2|] eqn:E2; [|reflexivity].
  rewrite (owr_end_range_end _ _ E1), (owr_end_range_end _ _ E2) in Hr. discriminate Hr.
Qed.

(* whole-range ends of the grammar *)
Lemma dollar_strip : forall a l, starts_dollar l = false ->
  (if starts_dollar (dollar a ++ l) then tl (dollar a ++ l) else dollar a ++ l) = l /\
  starts_dollar (dollar a ++ l) = a.
Proof.
  intros a l H. destruct a; cbn [dollar app].
  - cbn [starts_dollar]. rewrite N.eqb_refl. split; reflexivity.
  - rewrite H. split; reflexivity.
Qed.
Lemma dec_head_not_dollar : forall n, starts_dollar (dec n) = false.
Proof.
  intros n. destruct (dec_head n) as (d & l & E & Hd). rewrite E. cbn.
  apply N.eqb_neq. unfold is_digit, ch_0, ch_9 in Hd. unfold ch_dollar. lia.
Qed.

Lemma owr_end_letters : forall a c, c < 16384 ->
  owr_end (dollar a ++ letters c) = Some (true, a, Z.of_N c).
Proof.
  intros a c Hc. unfold owr_end.
  destruct (dollar_strip a (letters c) (letters_head_not_dollar c)) as [E1 E2]. rewrite E1, E2.
  destruct (letters c) as [|x l] eqn:El; [exfalso; exact (letters_nonempty c El)|]. rewrite <- El.
  replace (is_nil (letters c)) with false by (rewrite El; reflexivity).
  pose proof (letters_len3 c Hc) as L3. apply Nat.leb_le in L3. rewrite L3, letters_all_alpha. cbn [andb].
  change (fold_left (fun (a0 : Z) (c0 : N) => (a0 * 26 + (Z.of_N (to_upper c0) - 65 + 1))%Z) (letters c) 0%Z)
    with (fold_left zf26 (letters c) 0%Z).
  rewrite zcol_of by apply letters_all_alpha. rewrite letters_map_upper, col1_of_letters_letters.
  unfold ZCOLS. destruct (Z.of_N (c + 1) - 1 <? 16384)%Z eqn:E; [|lia].
  replace (Z.of_N (c + 1) - 1)%Z with (Z.of_N c) by lia. reflexivity.
Qed.

Lemma owr_end_dec : forall a r, r < 1048576 ->
  owr_end (dollar a ++ dec (r + 1)) = Some (false, a, Z.of_N r).
Proof.
  intros a r Hr. unfold owr_end.
  destruct (dollar_strip a (dec (r + 1)) (dec_head_not_dollar (r + 1))) as [E1 E2]. rewrite E1, E2.
  destruct (dec_head (r + 1)) as (d & l & Ed & Hd).
  replace (is_nil (dec (r + 1))) with false by (rewrite Ed; reflexivity).
  replace (forallb is_alpha (dec (r + 1))) with false
    by (rewrite Ed; cbn [forallb]; rewrite (digit_not_alpha d Hd); reflexivity).
  rewrite andb_false_r.
  pose proof (dec_len7 (r + 1) ltac:(lia)) as L7. apply Nat.leb_le in L7. rewrite L7, dec_all_digit.
  destruct (hd 0 (dec (r + 1)) =? ch_0) eqn:H0.
  { apply N.eqb_eq in H0. exfalso. apply (dec_head_nonzero (r + 1)); [lia|exact H0]. }
  cbn [negb andb].
  change (fold_left (fun (a0 : Z) (c0 : N) => (a0 * 10 + (Z.of_N c0 - 48))%Z) (dec (r + 1)) 0%Z)
    with (fold_left zf10 (dec (r + 1)) 0%Z).
  rewrite zrow_of by apply dec_all_digit. rewrite undec_dec.
  unfold ZROWS. destruct (Z.of_N (r + 1) - 1 <? 1048576)%Z eqn:E; [|lia].
  replace (Z.of_N (r + 1) - 1)%Z with (Z.of_N r) by lia. reflexivity.
Qed.

(* one end after the move: the text of the moved end, or None when it leaves the sheet *)
Lemma owr_one_col : forall a c d, c < 16384 -> (-16384 < d < 16384)%Z ->
  owr_one true a (Z.of_N c) d ZCOLS
  = Ok (if comp_in_range a c d MAX_COLUMNS then Some (dollar a ++ letters (move a c d)) else None).
Proof.
  intros a c d Hc Hd. unfold owr_one, comp_in_range, move, MAX_COLUMNS, ZCOLS, checked_add_i64, I64MIN, I64MAX.
  change (Z.of_N 16384) with 16384%Z.
  destruct a; cbn [orb].
  - replace (c <? 16384) with true by lia. replace (negb ((0 <=? Z.of_N c)%Z && (Z.of_N c <? 16384)%Z)) with false by lia.
    assert (E4 : as_u32 (Z.of_N c) = c) by (unfold as_u32; rewrite Z.mod_small by lia; lia).
    rewrite E4, column_number_to_name_is_letters by lia. reflexivity.
  - replace ((-9223372036854775808 <=? Z.of_N c + d)%Z && (Z.of_N c + d <=? 9223372036854775807)%Z) with true by lia.
    replace (c <? 16384) with true by lia. cbn [andb].
    destruct ((0 <=? Z.of_N c + d)%Z && (Z.of_N c + d <? 16384)%Z) eqn:E; cbn [negb]; [|reflexivity].
    assert (E4 : as_u32 (Z.of_N c + d) = Z.to_N (Z.of_N c + d)) by (unfold as_u32; rewrite Z.mod_small by lia; reflexivity).
    rewrite E4, column_number_to_name_is_letters by lia. reflexivity.
Qed.

Lemma owr_one_row : forall a r d, r < 1048576 -> (-1048576 < d < 1048576)%Z ->
  owr_one false a (Z.of_N r) d ZROWS
  = Ok (if comp_in_range a r d MAX_ROWS then Some (dollar a ++ dec (move a r d + 1)) else None).
Proof.
  intros a r d Hr Hd. unfold owr_one, comp_in_range, move, MAX_ROWS, ZROWS, checked_add_i64, I64MIN, I64MAX, i64_to_string.
  change (Z.of_N 1048576) with 1048576%Z.
  destruct a; cbn [orb].
  - replace (r <? 1048576) with true by lia. replace (negb ((0 <=? Z.of_N r)%Z && (Z.of_N r <? 1048576)%Z)) with false by lia.
    cbn [obind]. destruct (Z.of_N r + 1 <? 0)%Z eqn:E; [lia|].
    replace (Z.to_N (Z.of_N r + 1)) with (r + 1) by lia. reflexivity.
  - replace ((-9223372036854775808 <=? Z.of_N r + d)%Z && (Z.of_N r + d <=? 9223372036854775807)%Z) with true by lia.
    replace (r <? 1048576) with true by lia. cbn [andb].
    destruct ((0 <=? Z.of_N r + d)%Z && (Z.of_N r + d <? 1048576)%Z) eqn:E; cbn [negb]; [|reflexivity].
    cbn [obind]. destruct (Z.of_N r + d + 1 <? 0)%Z eqn:E5; [lia|].
    replace (Z.to_N (Z.of_N r + d + 1)) with (Z.to_N (Z.of_N r + d) + 1) by lia. reflexivity.
Qed.

Section Token.
Variable off : Z * Z.
Hypothesis Hoff : off_ok off = true.

(* what must follow a token that ends with a word *)
Definition follow_ok (u s : list N) : Prop :=
  sep_start s /\ colon_free is_alnum (last_word is_alnum u) s = true.

Lemma follow_inert : forall v u s,
  u <> [] -> forallb wordch u = true -> head_fails wordch (rev v) ->
  (ends_word is_alnum (v ++ u) = true -> follow_ok (v ++ u) s) ->
  sep_start s /\ colon_inert u s.
Proof.
  intros v u s Hne Hu Hv H. destruct (H (ends_word_app v u Hne Hu)) as [Hsep Hc].
  split; [exact Hsep|]. rewrite (last_word_app v u Hu Hv) in Hc.
  apply colon_free_inert; assumption.
Qed.

Lemma owr_colrange : forall a1 c1 a2 c2, c1 < 16384 -> c2 < 16384 ->
  offset_whole_range (dollar a1 ++ letters c1) (dollar a2 ++ letters c2) off
  = Ok (if tok_in_range off (TColRange a1 c1 a2 c2)
        then Some (render (translate off (TColRange a1 c1 a2 c2))) else None).
Proof.
  intros a1 c1 a2 c2 H1 H2. unfold offset_whole_range.
  rewrite !owr_end_letters by assumption. cbn [Bool.eqb negb].
  destruct off as [dr dc]. unfold off_ok, MAX_ROWS, MAX_COLUMNS in Hoff. cbn [fst snd] in *.
  rewrite !owr_one_col by (try assumption; lia). cbn [obind tok_in_range snd].
  destruct (comp_in_range a1 c1 dc MAX_COLUMNS); [|reflexivity].
  cbn [obind]. destruct (comp_in_range a2 c2 dc MAX_COLUMNS); [|reflexivity].
  cbn [andb translate render snd]. do 2 f_equal. rewrite <- !app_assoc. reflexivity.
Qed.

Lemma owr_rowrange : forall a1 r1 a2 r2, r1 < 1048576 -> r2 < 1048576 ->
  offset_whole_range (dollar a1 ++ dec (r1 + 1)) (dollar a2 ++ dec (r2 + 1)) off
  = Ok (if tok_in_range off (TRowRange a1 r1 a2 r2)
        then Some (render (translate off (TRowRange a1 r1 a2 r2))) else None).
Proof.
  intros a1 r1 a2 r2 H1 H2. unfold offset_whole_range.
  rewrite !owr_end_dec by assumption. cbn [Bool.eqb negb].
  destruct off as [dr dc]. unfold off_ok, MAX_ROWS, MAX_COLUMNS in Hoff. cbn [fst snd] in *.
  rewrite !owr_one_row by (try assumption; lia). cbn [obind tok_in_range fst].
  destruct (comp_in_range a1 r1 dr MAX_ROWS); [|reflexivity].
  cbn [obind]. destruct (comp_in_range a2 r2 dr MAX_ROWS); [|reflexivity].
  cbn [andb translate render fst]. do 2 f_equal. rewrite <- !app_assoc. reflexivity.
Qed.

(* word ':' word, both inert for offset_cell_name: translated as a whole range or copied *)
Lemma tok_range : forall w1 w2 s res (inr : bool) (moved : list N),
  w1 <> [] -> forallb wordch w1 = true -> ocn_parse w1 = None ->
  w2 <> [] -> forallb wordch w2 = true -> ocn_parse w2 = None ->
  offset_whole_range w1 w2 off = Ok (if inr then Some moved else None) ->
  sep_start s -> colon_inert w2 s ->
  run off (w1 ++ ch_colon :: w2 ++ s) res
  = run off s (res ++ (if inr then moved else w1 ++ ch_colon :: w2)).
Proof.
  intros w1 w2 s res inr moved N1 W1 P1 N2 W2 P2 Ho Hs Hc.
  rewrite run_word_range by assumption. rewrite Ho. cbn [obind]. destruct inr; [reflexivity|].
  unfold offset_cell_name. rewrite P1. cbn [obind].
  rewrite run_other by plain_tac.
  rewrite run_word_inert; [|exact N2|exact W2|apply sep_start_head_fails; exact Hs|right; exact P2|exact Hc].
  f_equal. lnorm.
Qed.

Lemma tok_ref : forall ca c ra r s res,
  tok_valid is_alnum (TRef ca c ra r) = true ->
  (ends_word is_alnum (render (TRef ca c ra r)) = true -> follow_ok (render (TRef ca c ra r)) s) ->
  run off (render (TRef ca c ra r) ++ s) res
  = run off s (res ++ render (translate_clip off (TRef ca c ra r))).
Proof.
  intros ca c ra r s res Hv Hs. cbn [tok_valid] in Hv. apply andb_prop in Hv as [Hc Hr].
  unfold MAX_COLUMNS in Hc. unfold MAX_ROWS in Hr. apply N.ltb_lt in Hc, Hr.
  cbn [render] in *.
  assert (Hw : forallb wordch (render_ref ca c ra r) = true).
  { rewrite render_ref_eq, !forallb_app, dollar_word, letters_word, dollar_word, dec_word. reflexivity. }
  assert (Hne : render_ref ca c ra r <> []).
  { rewrite render_ref_eq. do 3 apply app_nonempty_r. apply dec_nonempty. }
  destruct (follow_inert [] (render_ref ca c ra r) s Hne Hw I Hs) as [Hsep Hci].
  rewrite run_word by (try assumption; apply sep_start_head_fails; exact Hsep).
  rewrite (sep_start_next_call s Hsep). unfold offset_cell_name.
  rewrite ocn_parse_ref by assumption. rewrite ocn_apply_ref by assumption. cbn [obind].
  unfold translate_clip. destruct (tok_in_range off (TRef ca c ra r)); reflexivity.
Qed.

Lemma tok_colrange : forall a1 c1 a2 c2 s res,
  tok_valid is_alnum (TColRange a1 c1 a2 c2) = true ->
  (ends_word is_alnum (render (TColRange a1 c1 a2 c2)) = true -> follow_ok (render (TColRange a1 c1 a2 c2)) s) ->
  run off (render (TColRange a1 c1 a2 c2) ++ s) res
  = run off s (res ++ render (translate_clip off (TColRange a1 c1 a2 c2))).
Proof.
  intros a1 c1 a2 c2 s res Hv Hs. cbn [tok_valid] in Hv. apply andb_prop in Hv as [H1 H2].
  unfold MAX_COLUMNS in H1, H2. apply N.ltb_lt in H1, H2.
  assert (Er : render (TColRange a1 c1 a2 c2)
               = (dollar a1 ++ letters c1 ++ [ch_colon]) ++ (dollar a2 ++ letters c2)) by (cbn [render]; lnorm).
  rewrite Er in Hs.
  assert (W2 : forallb wordch (dollar a2 ++ letters c2) = true)
    by (rewrite forallb_app, dollar_word, letters_word; reflexivity).
  assert (N2 : dollar a2 ++ letters c2 <> []) by (apply app_nonempty_r, letters_nonempty).
  destruct (follow_inert (dollar a1 ++ letters c1 ++ [ch_colon]) _ s N2 W2) as [Hsep Hci]; [|exact Hs|].
  { rewrite !rev_app_distr. cbn. apply wordch_false_ascii; reflexivity. }
  replace (render (TColRange a1 c1 a2 c2) ++ s)
    with ((dollar a1 ++ letters c1) ++ ch_colon :: (dollar a2 ++ letters c2) ++ s) by (cbn [render]; lnorm).
  rewrite (tok_range _ _ s res (tok_in_range off (TColRange a1 c1 a2 c2))
             (render (translate off (TColRange a1 c1 a2 c2)))); try assumption.
  - f_equal. f_equal. unfold translate_clip. destruct (tok_in_range off (TColRange a1 c1 a2 c2)); [reflexivity|].
    cbn [render]. lnorm.
  - apply app_nonempty_r, letters_nonempty.
  - rewrite forallb_app, dollar_word, letters_word. reflexivity.
  - apply ocn_parse_letters_only.
  - apply ocn_parse_letters_only.
  - apply owr_colrange; assumption.
Qed.

Lemma tok_rowrange : forall a1 r1 a2 r2 s res,
  tok_valid is_alnum (TRowRange a1 r1 a2 r2) = true ->
  (ends_word is_alnum (render (TRowRange a1 r1 a2 r2)) = true -> follow_ok (render (TRowRange a1 r1 a2 r2)) s) ->
  run off (render (TRowRange a1 r1 a2 r2) ++ s) res
  = run off s (res ++ render (translate_clip off (TRowRange a1 r1 a2 r2))).
Proof.
  intros a1 r1 a2 r2 s res Hv Hs. cbn [tok_valid] in Hv. apply andb_prop in Hv as [H1 H2].
  unfold MAX_ROWS in H1, H2. apply N.ltb_lt in H1, H2.
  assert (Er : render (TRowRange a1 r1 a2 r2)
               = (dollar a1 ++ dec (r1 + 1) ++ [ch_colon]) ++ (dollar a2 ++ dec (r2 + 1))) by (cbn [render]; lnorm).
  rewrite Er in Hs.
  assert (W2 : forallb wordch (dollar a2 ++ dec (r2 + 1)) = true)
    by (rewrite forallb_app, dollar_word, dec_word; reflexivity).
  assert (N2 : dollar a2 ++ dec (r2 + 1) <> []) by (apply app_nonempty_r, dec_nonempty).
  destruct (follow_inert (dollar a1 ++ dec (r1 + 1) ++ [ch_colon]) _ s N2 W2) as [Hsep Hci]; [|exact Hs|].
  { rewrite !rev_app_distr. cbn. apply wordch_false_ascii; reflexivity. }
  replace (render (TRowRange a1 r1 a2 r2) ++ s)
    with ((dollar a1 ++ dec (r1 + 1)) ++ ch_colon :: (dollar a2 ++ dec (r2 + 1)) ++ s) by (cbn [render]; lnorm).
  rewrite (tok_range _ _ s res (tok_in_range off (TRowRange a1 r1 a2 r2))
             (render (translate off (TRowRange a1 r1 a2 r2)))); try assumption.
  - f_equal. f_equal. unfold translate_clip. destruct (tok_in_range off (TRowRange a1 r1 a2 r2)); [reflexivity|].
    cbn [render]. lnorm.
  - apply app_nonempty_r, dec_nonempty.
  - rewrite forallb_app, dollar_word, dec_word. reflexivity.
  - apply ocn_parse_digits_only.
  - apply ocn_parse_digits_only.
  - apply owr_rowrange; assumption.
Qed.

(* word followed by '!' or '(' : never translated, whatever it looks like *)
Lemma tok_word_call : forall w x s res,
  w <> [] -> forallb wordch w = true -> (x = ch_lparen \/ x = ch_bang) ->
  run off (w ++ x :: s) res = run off s (res ++ w ++ [x]).
Proof.
  intros w x s res Hne Hw Hx.
  assert (Px : plain_char x) by (destruct Hx; subst x; plain_tac).
  rewrite run_word_inert; try assumption.
  - rewrite run_other by exact Px. f_equal. rewrite <- app_assoc. reflexivity.
  - cbn. exact (proj1 Px).
  - left. cbn. destruct Hx; subst x; reflexivity.
  - apply no_colon_inert. destruct Hx; subst x; reflexivity.
Qed.

Lemma uname_word : forall n, forallb (uname_char is_alnum) n = true -> forallb wordch n = true.
Proof. intros n. apply forallb_impl. exact wordch_uname. Qed.
Lemma dname_word : forall n, forallb (dname_char is_alnum) n = true -> forallb wordch n = true.
Proof. intros n. apply forallb_impl. exact wordch_dname. Qed.
Lemma dname_no_dollar : forall n, forallb (dname_char is_alnum) n = true -> ~ In ch_dollar n.
Proof.
  intros n H C. rewrite forallb_forall in H. exact (dname_not_dollar _ (H _ C) eq_refl).
Qed.
Lemma uname_no_dollar : forall n, forallb (uname_char is_alnum) n = true -> ~ In ch_dollar n.
Proof.
  intros n H. apply dname_no_dollar. revert H. apply forallb_impl.
  intros c Hc. unfold dname_char. rewrite Hc. reflexivity.
Qed.

Lemma tok_sheetrange : forall n1 n2 s res,
  tok_valid is_alnum (TSheetRange n1 n2) = true ->
  run off (render (TSheetRange n1 n2) ++ s) res = run off s (res ++ render (TSheetRange n1 n2)).
Proof.
  intros n1 n2 s res Hv. cbn [tok_valid] in Hv.
  apply andb_prop in Hv as [Hv U2]. apply andb_prop in Hv as [Hv N2].
  apply andb_prop in Hv as [N1 U1]. cbn [render].
  replace ((n1 ++ [ch_colon] ++ n2 ++ [ch_bang]) ++ s) with (n1 ++ ch_colon :: n2 ++ ch_bang :: s) by lnorm.
  rewrite run_word_sheet3d;
    [|apply nonempty_ne; exact N1|apply uname_word; exact U1|apply nonempty_ne; exact N2|apply uname_word; exact U2].
  rewrite run_other by plain_tac.
  rewrite tok_word_call; [|apply nonempty_ne; exact N2|apply uname_word; exact U2|right; reflexivity].
  f_equal. lnorm.
Qed.

Lemma tok_name : forall n s res,
  tok_valid is_alnum (TName n) = true ->
  (ends_word is_alnum (render (TName n)) = true -> follow_ok (render (TName n)) s) ->
  run off (render (TName n) ++ s) res = run off s (res ++ render (TName n)).
Proof.
  intros n s res Hv Hs. cbn [tok_valid] in Hv. apply andb_prop in Hv as [Hv C].
  apply andb_prop in Hv as [Ne D]. apply negb_true_iff in C. cbn [render] in *.
  destruct (follow_inert [] n s (nonempty_ne _ Ne) (dname_word _ D) I Hs) as [Hsep Hci].
  apply run_word_inert.
  - apply nonempty_ne. exact Ne.
  - apply dname_word. exact D.
  - apply sep_start_head_fails. exact Hsep.
  - right. apply ocn_parse_not_cell; [apply dname_no_dollar; exact D|exact C].
  - exact Hci.
Qed.

Lemma digits_ok_inv : forall l, digits_ok l = true ->
  exists d t, l = d :: t /\ is_digit d = true /\ forallb is_digit l = true.
Proof.
  intros l H. unfold digits_ok in H. apply andb_prop in H as [Ne D].
  destruct l as [|d t]; [discriminate Ne|]. exists d, t. repeat split; [|exact D].
  cbn [forallb] in D. apply andb_prop in D as [D _]. exact D.
Qed.

Lemma tok_num : forall ip fp ex s res,
  tok_valid is_alnum (TNum ip fp ex) = true ->
  (ends_word is_alnum (render (TNum ip fp ex)) = true -> follow_ok (render (TNum ip fp ex)) s) ->
  run off (render (TNum ip fp ex) ++ s) res = run off s (res ++ render (TNum ip fp ex)).
Proof.
  intros ip fp ex s res Hv Hs. cbn [tok_valid] in Hv.
  apply andb_prop in Hv as [Hv Hex]. apply andb_prop in Hv as [Hip Hfp].
  destruct (digits_ok_inv _ Hip) as (d & ipt & Eip & Hd & Dip).
  set (fpp := match fp with Some f => ch_dot :: f | None => [] end).
  assert (Wfp : forallb wordch fpp = true).
  { unfold fpp. destruct fp as [f|]; [|reflexivity].
    destruct (digits_ok_inv _ Hfp) as (_ & _ & _ & _ & Df). cbn [forallb].
    rewrite (digits_word _ Df). rewrite wordch_ascii by reflexivity. reflexivity. }
  (* the first word: ip ++ fpp ++ (E, or E followed by the unsigned exponent) *)
  assert (Hw1 : forall tail, forallb wordch tail = true ->
            (ip ++ fpp ++ tail) <> [] /\ forallb wordch (ip ++ fpp ++ tail) = true /\
            ocn_parse (ip ++ fpp ++ tail) = None).
  { intros tail Wt. repeat split.
    - rewrite Eip. discriminate.
    - rewrite !forallb_app, (digits_word _ Dip), Wfp, Wt. reflexivity.
    - rewrite Eip. cbn [app]. apply ocn_parse_digit_start. exact Hd. }
  cbn [render] in *. fold fpp in Hs. fold fpp.
  destruct ex as [[[neg|] e]|].
  - (* signed exponent: ip.fpE  sign  digits *)
    destruct (digits_ok_inv _ Hex) as (de & et & Ee & Hde & De).
    assert (Er : ip ++ fpp ++ ch_E :: (if neg then ch_minus else ch_plus) :: e
                 = (ip ++ fpp ++ [ch_E; if neg then ch_minus else ch_plus]) ++ e) by lnorm.
    rewrite Er in Hs.
    destruct (follow_inert (ip ++ fpp ++ [ch_E; if neg then ch_minus else ch_plus]) e s) as [Hsep Hci];
      [rewrite Ee; discriminate|apply digits_word; exact De| |exact Hs|].
    { rewrite !rev_app_distr. cbn. destruct neg; apply wordch_false_ascii; reflexivity. }
    destruct (Hw1 [ch_E]) as (A1 & A2 & A3); [word_tac|].
    set (sg := if neg then ch_minus else ch_plus).
    assert (Psg : plain_char sg) by (unfold sg; destruct neg; plain_tac).
    replace ((ip ++ fpp ++ ch_E :: sg :: e) ++ s) with ((ip ++ fpp ++ [ch_E]) ++ sg :: (e ++ s))
      by (rewrite <- !app_assoc; reflexivity).
    rewrite run_word_inert; [|exact A1|exact A2|cbn; exact (proj1 Psg)|right; exact A3|
      apply no_colon_inert; unfold sg; destruct neg; reflexivity].
    rewrite run_other by exact Psg.
    rewrite run_word_inert.
    + f_equal. rewrite <- !app_assoc. reflexivity.
    + rewrite Ee. discriminate.
    + apply digits_word. exact De.
    + apply sep_start_head_fails. exact Hsep.
    + right. rewrite Ee. apply ocn_parse_digit_start. exact Hde.
    + exact Hci.
  - (* unsigned exponent: one word *)
    destruct (digits_ok_inv _ Hex) as (de & et & Ee & Hde & De).
    assert (We : forallb wordch (ch_E :: e) = true).
    { cbn [forallb]. rewrite (digits_word _ De). rewrite wordch_ascii by reflexivity. reflexivity. }
    destruct (Hw1 (ch_E :: e) We) as (A1 & A2 & A3).
    destruct (follow_inert [] _ s A1 A2 I Hs) as [Hsep Hci].
    apply run_word_inert; [exact A1|exact A2|apply sep_start_head_fails; exact Hsep|right; exact A3|exact Hci].
  - destruct (Hw1 [] eq_refl) as (A1 & A2 & A3).
    destruct (follow_inert [] _ s A1 A2 I Hs) as [Hsep Hci].
    apply run_word_inert; [exact A1|exact A2|apply sep_start_head_fails; exact Hsep|right; exact A3|exact Hci].
Qed.

(* error literals *)
Lemma tok_err_bang : forall w s res,
  w <> [] -> forallb (fun c => c <? 128) w = true -> forallb ascii_wordch w = true ->
  run off (35 :: w ++ ch_bang :: s) res = run off s (res ++ 35 :: w ++ [ch_bang]).
Proof.
  intros w s res Hne H1 H2. rewrite run_other by plain_tac.
  rewrite tok_word_call; [|exact Hne|apply wordch_ascii_all; assumption|right; reflexivity].
  f_equal. rewrite <- !app_assoc. reflexivity.
Qed.

Lemma tok_err : forall k s res,
  tok_valid is_alnum (TErr k) = true ->
  (ends_word is_alnum (render (TErr k)) = true -> follow_ok (render (TErr k)) s) ->
  run off (render (TErr k) ++ s) res = run off s (res ++ render (TErr k)).
Proof.
  intros k s res Hv Hs. cbn [tok_valid] in Hv. apply N.ltb_lt in Hv.
  assert (K : k = 0 \/ k = 1 \/ k = 2 \/ k = 3 \/ k = 4 \/ k = 5 \/ k = 6) by lia.
  destruct K as [K|[K|[K|[K|[K|[K|K]]]]]]; subst k.
  - change (render (TErr 0)) with (35 :: [78;85;76;76] ++ [ch_bang]).
    change ((35 :: [78;85;76;76] ++ [ch_bang]) ++ s) with (35 :: [78;85;76;76] ++ ch_bang :: s).
    apply tok_err_bang; [discriminate|reflexivity|reflexivity].
  - (* #DIV/0! *)
    change (render (TErr 1)) with [35;68;73;86;47;48;33].
    change ([35;68;73;86;47;48;33] ++ s) with (35 :: [68;73;86] ++ 47 :: ([48] ++ ch_bang :: s)).
    rewrite run_other by plain_tac.
    rewrite run_word_inert; [|discriminate|word_tac|cbn; apply wordch_false_ascii; reflexivity|right; reflexivity|
      apply no_colon_inert; reflexivity].
    rewrite run_other by plain_tac.
    rewrite tok_word_call; [|discriminate|word_tac|right; reflexivity].
    f_equal. rewrite <- !app_assoc. reflexivity.
  - change (render (TErr 2)) with (35 :: [86;65;76;85;69] ++ [ch_bang]).
    change ((35 :: [86;65;76;85;69] ++ [ch_bang]) ++ s) with (35 :: [86;65;76;85;69] ++ ch_bang :: s).
    apply tok_err_bang; [discriminate|reflexivity|reflexivity].
  - change (render (TErr 3)) with (35 :: [82;69;70] ++ [ch_bang]).
    change ((35 :: [82;69;70] ++ [ch_bang]) ++ s) with (35 :: [82;69;70] ++ ch_bang :: s).
    apply tok_err_bang; [discriminate|reflexivity|reflexivity].
  - (* #NAME? *)
    change (render (TErr 4)) with ([35] ++ [78;65;77;69;63]) in *.
    destruct (follow_inert [35] [78;65;77;69;63] s) as [Hsep Hci];
      [discriminate|word_tac|cbn; apply wordch_false_ascii; reflexivity|exact Hs|].
    change (([35] ++ [78;65;77;69;63]) ++ s) with (35 :: [78;65;77;69;63] ++ s).
    rewrite run_other by plain_tac.
    rewrite run_word_inert; [|discriminate|word_tac|apply sep_start_head_fails; exact Hsep|right; reflexivity|exact Hci].
    f_equal. rewrite <- !app_assoc. reflexivity.
  - change (render (TErr 5)) with (35 :: [78;85;77] ++ [ch_bang]).
    change ((35 :: [78;85;77] ++ [ch_bang]) ++ s) with (35 :: [78;85;77] ++ ch_bang :: s).
    apply tok_err_bang; [discriminate|reflexivity|reflexivity].
  - (* #N/A *)
    change (render (TErr 6)) with ([35;78;47] ++ [65]) in *.
    destruct (follow_inert [35;78;47] [65] s) as [Hsep Hci];
      [discriminate|word_tac|cbn; apply wordch_false_ascii; reflexivity|exact Hs|].
    change (([35;78;47] ++ [65]) ++ s) with (35 :: [78] ++ 47 :: ([65] ++ s)).
    rewrite run_other by plain_tac.
    rewrite run_word_inert; [|discriminate|word_tac|cbn; apply wordch_false_ascii; reflexivity|right; reflexivity|
      apply no_colon_inert; reflexivity].
    rewrite run_other by plain_tac.
    rewrite run_word_inert; [|discriminate|word_tac|apply sep_start_head_fails; exact Hsep|right; reflexivity|exact Hci].
    f_equal. rewrite <- !app_assoc. reflexivity.
Qed.

(* every token of the grammar: the scanner consumes exactly its text and emits the text of
   the token translated (references that stay on the sheet) or unchanged (everything else) *)
Lemma token_run : forall t s res,
  tok_valid is_alnum t = true ->
  (ends_word is_alnum (render t) = true -> follow_ok (render t) s) ->
  run off (render t ++ s) res = run off s (res ++ render (translate_clip off t)).
Proof.
  intros t s res Hv Hs. destruct t as [ca c ra r|a1 c1 a2 c2|a1 r1 a2 r2|q n|n1 n2|n|n|ip fp ex|str|b|c|k].
  - apply tok_ref; assumption.
  - apply tok_colrange; assumption.
  - apply tok_rowrange; assumption.
  - cbn [translate_clip]. destruct q; cbn [tok_valid] in Hv; apply andb_prop in Hv as [Ne Hn]; cbn [render].
    + (* quoted *)
      change (([ch_apos] ++ double_ch ch_apos n ++ [ch_apos; ch_bang]) ++ s)
        with ([ch_apos] ++ (double_ch ch_apos n ++ [ch_apos; ch_bang]) ++ s).
      rewrite <- (app_assoc (double_ch ch_apos n)). cbn [app].
      change (ch_apos :: double_ch ch_apos n ++ ch_apos :: ch_bang :: s)
        with ([ch_apos] ++ double_ch ch_apos n ++ ch_apos :: (ch_bang :: s)).
      rewrite run_quoted by (right; reflexivity).
      rewrite run_other by plain_tac. f_equal. lnorm.
    + rewrite <- app_assoc. cbn [app]. rewrite tok_word_call; [reflexivity|apply nonempty_ne; exact Ne|
        apply uname_word; exact Hn|right; reflexivity].
  - cbn [translate_clip]. apply tok_sheetrange. exact Hv.
  - cbn [translate_clip]. cbn [tok_valid] in Hv. apply andb_prop in Hv as [Ne Hn]. cbn [render].
    rewrite <- app_assoc. cbn [app]. rewrite tok_word_call; [reflexivity|apply nonempty_ne; exact Ne|
      apply uname_word; exact Hn|left; reflexivity].
  - apply tok_name; assumption.
  - apply tok_num; assumption.
  - cbn [translate_clip render].
    change (([ch_dquote] ++ double_ch ch_dquote str ++ [ch_dquote]) ++ s)
      with ([ch_dquote] ++ (double_ch ch_dquote str ++ [ch_dquote]) ++ s).
    rewrite <- (app_assoc (double_ch ch_dquote str)). cbn [app].
    change (ch_dquote :: double_ch ch_dquote str ++ ch_dquote :: s)
      with ([ch_dquote] ++ double_ch ch_dquote str ++ ch_dquote :: s).
    rewrite run_quoted by (left; reflexivity). reflexivity.
  - cbn [translate_clip render]. cbn [tok_valid] in Hv. apply run_brack. exact Hv.
  - cbn [translate_clip render]. cbn [tok_valid] in Hv. cbn [app]. apply run_other.
    apply sym_plain. exact Hv.
  - apply tok_err; assumption.
Qed.

(* ------------------------------------------------------------------ a whole formula *)
Lemma render_nonempty : forall t, tok_valid is_alnum t = true -> render t <> [].
Proof.
  intros t Hv. destruct t as [ca c ra r|a1 c1 a2 c2|a1 r1 a2 r2|q n|n1 n2|n|n|ip fp ex|str|b|c|k];
    cbn [render].
  - rewrite render_ref_eq. do 3 apply app_nonempty_r. apply dec_nonempty.
  - do 4 apply app_nonempty_r. apply letters_nonempty.
  - do 4 apply app_nonempty_r. apply dec_nonempty.
  - destruct q; [discriminate|apply app_nonempty_r; discriminate].
  - do 3 apply app_nonempty_r. discriminate.
  - apply app_nonempty_r. discriminate.
  - cbn [tok_valid] in Hv. apply andb_prop in Hv as [Hv _]. apply andb_prop in Hv as [Ne _].
    apply nonempty_ne. exact Ne.
  - cbn [tok_valid] in Hv. apply andb_prop in Hv as [Hv _]. apply andb_prop in Hv as [Hip _].
    destruct (digits_ok_inv _ Hip) as (d & t & E & _). rewrite E. discriminate.
  - discriminate.
  - cbn [tok_valid] in Hv. unfold brack_ok in Hv. destruct b; [discriminate Hv|discriminate].
  - discriminate.
  - cbn [tok_valid] in Hv. apply N.ltb_lt in Hv.
    assert (K : k = 0 \/ k = 1 \/ k = 2 \/ k = 3 \/ k = 4 \/ k = 5 \/ k = 6) by lia.
    destruct K as [K|[K|[K|[K|[K|[K|K]]]]]]; subst k; discriminate.
Qed.

Lemma starts_sep_start : forall u s, starts_sep is_alnum u = true -> sep_start (u ++ s).
Proof.
  intros [|c u] s H; [discriminate H|]. cbn [starts_sep] in H. cbn [app sep_start].
  apply andb_prop in H as [H H2]. apply andb_prop in H as [H0 H1].
  rewrite word_char_eq in H0. apply negb_true_iff in H0, H1, H2.
  apply N.eqb_neq in H1, H2. auto.
Qed.

Lemma formula_run : forall ts res,
  forallb (tok_valid is_alnum) ts = true -> adjacent_ok is_alnum ts = true ->
  colon_ok is_alnum ts = true ->
  run off (render_all ts) res = Ok (res ++ render_all (map (translate_clip off) ts)).
Proof.
  induction ts as [|t ts IH]; intros res Hv Ha Hc.
  - cbn. rewrite app_nil_r. reflexivity.
  - cbn [forallb] in Hv. apply andb_prop in Hv as [Hv Hvs].
    cbn [colon_ok] in Hc. apply andb_prop in Hc as [Hc Hcs].
    unfold render_all. cbn [map concat]. fold (render_all ts).
    fold (render_all (map (translate_clip off) ts)).
    rewrite token_run; [| exact Hv |].
    + rewrite IH; [rewrite app_assoc; reflexivity|exact Hvs| |exact Hcs].
      destruct ts as [|b ts']; [reflexivity|]. cbn [adjacent_ok] in Ha.
      apply andb_prop in Ha as [_ Ha]. exact Ha.
    + intros He. split; [|exact Hc]. destruct ts as [|b ts']; [exact I|].
      cbn [adjacent_ok] in Ha. apply andb_prop in Ha as [Ha _]. rewrite He in Ha.
      unfold render_all. cbn [map concat]. apply starts_sep_start. exact Ha.
Qed.
End Token.

(* inside in_range, what the code does is the translation *)
Lemma clip_is_translate : forall off ts,
  forallb (tok_in_range off) ts = true -> map (translate_clip off) ts = map (translate off) ts.
Proof.
  induction ts as [|t ts IH]; intros Hr; [reflexivity|].
  cbn [forallb] in Hr. apply andb_prop in Hr as [Hr Hrs]. cbn [map]. rewrite (IH Hrs).
  f_equal. destruct t; try reflexivity; cbn [translate_clip]; rewrite Hr; reflexivity.
Qed.

(* MAIN (total form): every formula of the grammar, every offset between two cells of the sheet *)
Theorem translate_total : forall ts off,
  wf_formula is_alnum ts = true -> off_ok off = true ->
  rcn (render_all ts) off = Ok (render_all (map (translate_clip off) ts)).
Proof.
  intros ts off Hwf Hoff. unfold wf_formula in Hwf. apply andb_prop in Hwf as [Hwf Hc].
  apply andb_prop in Hwf as [Hv Ha].
  rewrite rcn_run. rewrite (formula_run off Hoff ts [] Hv Ha Hc). reflexivity.
Qed.

(* MAIN: the quantifier of the property over formulas x offsets — no known class left *)
Theorem translate_correct : forall ts off,
  wf_formula is_alnum ts = true -> in_range ts off ->
  rcn (render_all ts) off = Ok (render_all (map (translate off) ts)).
Proof.
  intros ts off Hwf Hr. unfold in_range, in_rangeb in Hr. apply andb_prop in Hr as [Hoff Hr].
  rewrite translate_total; [|exact Hwf|exact Hoff].
  rewrite (clip_is_translate off ts Hr). reflexivity.
Qed.

(* ------------------------------------------------------------------ groups *)
Definition enc_group (g : group) : N * group_entry :=
  (g_si g, (render_all (g_tokens g), ((g_start g, g_end g), g_master g))).

Lemma fm_get_enc : forall seen si,
  fm_get (map enc_group seen) si
  = match find_group seen si with Some g => Some (snd (enc_group g)) | None => None end.
Proof.
  induction seen as [|g seen IH]; intros si; [reflexivity|].
  cbn [map fm_get enc_group find_group find fst snd]. destruct (g_si g =? si); [reflexivity|].
  apply IH.
Qed.

Lemma ref_text_dimension : forall g, group_okb g = true ->
  get_dimension (ref_text (g_start g) (g_end g)) = Ok (g_start g, g_end g).
Proof.
  intros g H. unfold group_okb, MAX_ROWS, MAX_COLUMNS in H.
  destruct (g_start g) as [r0 c0], (g_end g) as [r1 c1]. cbn [fst snd] in *. unfold ref_text. cbn [fst snd].
  apply get_dimension_pair; unfold ROW_TEXT_LIMIT, COL_TEXT_LIMIT; lia.
Qed.

Definition cell_okb (seen : list group) (c : scell) : bool :=
  match c with
  | SMaster g => group_okb g
  | SMember p si _ =>
      match find_group seen si with
      | Some g => if in_box (g_start g) (g_end g) p then member_okb is_alnum g p else true
      | None => true
      end
  | _ => true
  end.

Lemma cell_step_spec : forall seen c, cell_okb seen c = true ->
  cell_step is_alnum (map enc_group seen) (fst (encode_cell c)) (snd (encode_cell c))
  = Ok (map enc_group (seen_after seen c), spec_value seen c).
Proof.
  intros seen c H. destruct c as [p|p f|g|p si own]; cbn [encode_cell fst snd cell_step seen_after spec_value].
  - reflexivity.
  - reflexivity.
  - cbn [cell_okb] in H. rewrite (ref_text_dimension g H). reflexivity.
  - cbn [cell_okb] in H. rewrite fm_get_enc. destruct (find_group seen si) as [g|]; [|reflexivity].
    cbn [enc_group snd]. change (contains (g_start g, g_end g) p) with (in_box (g_start g) (g_end g) p).
    destruct (in_box (g_start g) (g_end g) p); [|reflexivity].
    unfold member_okb in H. apply andb_prop in H as [Hwf Hr].
    change (Z.of_N (fst p) - Z.of_N (fst (g_master g)), Z.of_N (snd p) - Z.of_N (snd (g_master g)))%Z
      with (member_offset g p).
    rewrite (translate_correct (g_tokens g) (member_offset g p) Hwf Hr). reflexivity.
Qed.

Lemma run_cells_spec : forall cs seen, sheet_okb is_alnum seen cs = true ->
  run_cells is_alnum (map enc_group seen) (map encode_cell cs) = Ok (spec_cells seen cs).
Proof.
  induction cs as [|c cs IH]; intros seen H; [reflexivity|].
  cbn [sheet_okb] in H. apply andb_prop in H as [Hc Hs].
  cbn [map run_cells spec_cells]. destruct (encode_cell c) as [pos k] eqn:E.
  pose proof (cell_step_spec seen c Hc) as S. rewrite E in S. cbn [fst snd] in S. rewrite S.
  cbn [obind fst snd]. rewrite (IH _ Hs). reflexivity.
Qed.

(* MAIN: every cell of every declared ref, in one or two dimensions, whatever the master
   position and the order of the shared indices *)
Theorem group_covers_range : forall cs,
  sheet_okb is_alnum [] cs = true ->
  run_cells is_alnum [] (map encode_cell cs) = Ok (spec_cells [] cs) /\
  sheet_formulas is_alnum (map encode_cell cs)
    = Ok (filter (fun pv => nonempty (snd pv)) (spec_cells [] cs)).
Proof.
  intros cs H. pose proof (run_cells_spec cs [] H) as R. cbn [map] in R. split; [exact R|].
  unfold sheet_formulas. rewrite R. reflexivity.
Qed.

End Proofs.



Lemma no_panic_ne : forall A (o : outcome A), no_panic o -> o <> Panic /\ o <> OutOfFuel.
Proof. intros A o H. destruct o; try contradiction; split; discriminate. Qed.

(* the C06-style statements: no hypothesis on the input *)
Theorem no_panic_get_row_column : forall range,
  get_row_column range <> Panic /\ get_row_column range <> OutOfFuel.
Proof. intros range. apply no_panic_ne, get_row_column_np. Qed.
Theorem no_panic_get_dimension : forall d,
  get_dimension d <> Panic /\ get_dimension d <> OutOfFuel.
Proof. intros d. apply no_panic_ne, get_dimension_np. Qed.
Theorem no_panic_next_formula : forall is_alnum cells,
  Forall (fun c : fcell => u32_pos (fst c)) cells ->
  (run_cells is_alnum [] cells <> Panic /\ run_cells is_alnum [] cells <> OutOfFuel) /\
  (sheet_formulas is_alnum cells <> Panic /\ sheet_formulas is_alnum cells <> OutOfFuel).
Proof.
  intros is_alnum cells H. destruct (next_formula_np is_alnum cells H) as [A B].
  split; apply no_panic_ne; assumption.
Qed.
(* a group declared with an inverted ref (it used to panic in get_dimension) serves no cell *)
Example inverted_ref_serves_nobody :
  run_cells ascii_alnum [] [((1, 1), FMaster 0 [66;51;58;66;50] [65;49]); ((2, 1), FMember 0 [75])]
  = Ok [((1, 1), [65;49]); ((2, 1), [75])].
Proof. vm_compute. reflexivity. Qed.

Theorem no_panic_replace_cell_names : forall is_alnum s off, off_small off ->
  replace_cell_names is_alnum s off <> Panic /\ replace_cell_names is_alnum s off <> OutOfFuel.
Proof.
  intros is_alnum s off H. destruct (rcn_total is_alnum s off H) as (r & E). rewrite E.
  split; discriminate.
Qed.
Example no_panic_next_formula_nonvacuous :
  Forall (fun c : fcell => u32_pos (fst c))
    [((1, 1), FMaster 0 [66;51;58;66;50] [65;49]); ((2, 1), FMember 0 [75])] /\
  run_cells ascii_alnum [] [((1, 1), FMaster 0 [66;51;58;66;50] [65;49]); ((2, 1), FMember 0 [75])]
  = Ok [((1, 1), [65;49]); ((2, 1), [75])].
Proof.
  split; [|exact inverted_ref_serves_nobody].
  repeat constructor; vm_compute; discriminate.
Qed.

(* ------------------------------------------------------------------ examples, witnesses *)
Lemma ascii_oracle : forall c, c < 128 -> ascii_alnum c = ascii_alnum c.
Proof. reflexivity. Qed.

(* 'Données Q1'!$A1+B$2*LOG10(C3)&<string: é dq x dq A1>+Table1[[#This Row],[Col A1]]+1.5E-3+1E5
   +Q1!D4:E5+rate+#N/A+[1]Sheet1!A1+SUM($A:$B)+Jan:Dec!F6 *)
Definition ex_tokens : list token :=
  [ TSheet true [68;111;110;110;233;101;115;32;81;49]; TRef true 0 false 0; TSym 43;
    TRef false 1 true 1; TSym 42; TFunc [76;79;71;49;48]; TRef false 2 false 2; TSym 41; TSym 38;
    TStr [233;32;34;120;34;32;65;49]; TSym 43;
    TName [84;97;98;108;101;49];
    TBrack [91;91;35;84;104;105;115;32;82;111;119;93;44;91;67;111;108;32;65;49;93;93]; TSym 43;
    TNum [49] (Some [53]) (Some (Some true, [51])); TSym 43; TNum [49] None (Some (None, [53])); TSym 43;
    TSheet false [81;49]; TRef false 3 false 3; TSym 58; TRef false 4 false 4; TSym 43;
    TName [114;97;116;101]; TSym 43; TErr 6; TSym 43;
    TBrack [91;49;93]; TSheet false [83;104;101;101;116;49]; TRef false 0 false 0; TSym 43;
    TFunc [83;85;77]; TColRange true 0 true 1; TSym 41; TSym 43;
    TSheetRange [74;97;110] [68;101;99]; TRef false 5 false 5 ].

Example translate_correct_nonvacuous :
  wf_formula ascii_alnum ex_tokens = true /\ in_range ex_tokens (5, 2)%Z /\
  render_all (map (translate (5, 2)%Z) ex_tokens) <> render_all ex_tokens /\
  replace_cell_names ascii_alnum (render_all ex_tokens) (5, 2)%Z
    = Ok (render_all (map (translate (5, 2)%Z) ex_tokens)).
Proof. vm_compute. repeat split; discriminate. Qed.

(* the former classes, now translated as specified (model level; the harness confirms the
   real code): $A1+A$1 along a row, LOG10(A1) down, a string literal with e-acute, a quoted
   sheet name containing a double quote, Revenue2024!A1*1000000000 *)
Example former_classes_fixed :
  replace_cell_names ascii_alnum [36;65;49;43;65;36;49] (0, 1)%Z = Ok [36;65;49;43;66;36;49] /\
  replace_cell_names ascii_alnum [76;79;71;49;48;40;65;49;41] (1, 0)%Z = Ok [76;79;71;49;48;40;65;50;41] /\
  replace_cell_names ascii_alnum [34;233;34;38;65;49] (1, 0)%Z = Ok [34;233;34;38;65;50] /\
  replace_cell_names ascii_alnum [39;97;34;98;39;33;65;49] (1, 0)%Z = Ok [39;97;34;98;39;33;65;50] /\
  replace_cell_names ascii_alnum
    [82;101;118;101;110;117;101;50;48;50;52;33;65;49;42;49;48;48;48;48;48;48;48;48;48] (1, 0)%Z
  = Ok [82;101;118;101;110;117;101;50;48;50;52;33;65;50;42;49;48;48;48;48;48;48;48;48;48].
Proof. vm_compute. repeat split. Qed.

(* outside in_range: a reference that would leave the sheet stays (A1 up / left, A1048576 down,
   XFD1 right); the mixed reference $A1 one row up and one column left stays as a whole *)
Example edge_behaviour :
  replace_cell_names ascii_alnum [65;49] (-1, 0)%Z = Ok [65;49] /\
  replace_cell_names ascii_alnum [65;49] (0, -1)%Z = Ok [65;49] /\
  replace_cell_names ascii_alnum [65;49;48;52;56;53;55;54] (1, 0)%Z = Ok [65;49;48;52;56;53;55;54] /\
  replace_cell_names ascii_alnum [88;70;68;49] (0, 1)%Z = Ok [88;70;68;49] /\
  replace_cell_names ascii_alnum [36;65;49] (-1, -1)%Z = Ok [36;65;49] /\
  replace_cell_names ascii_alnum [65;50] (9223372036854775807, 0)%Z = Panic.
Proof. vm_compute. repeat split. Qed.

(* the two classes repaired last (whole ranges, 3-D prefix): translated as specified now *)
Definition wt_whole_cols : list token := [TFunc [83;85;77]; TColRange false 0 true 1; TSym 41].   (* SUM(A:$B) *)
Definition wt_whole_rows : list token := [TFunc [83;85;77]; TRowRange false 0 false 2; TSym 41].  (* SUM(1:3) *)
Definition wt_sheet3d : list token := [TSheetRange [81;49] [81;51]; TRef false 0 false 0].        (* Q1:Q3!A1 *)

Example whole_range_fixed :
  wf_formula ascii_alnum wt_whole_cols = true /\ in_range wt_whole_cols (0, 1)%Z /\
  replace_cell_names ascii_alnum (render_all wt_whole_cols) (0, 1)%Z
    = Ok [83;85;77;40;66;58;36;66;41] /\                                      (* SUM(B:$B) *)
  wf_formula ascii_alnum wt_whole_rows = true /\ in_range wt_whole_rows (2, 0)%Z /\
  replace_cell_names ascii_alnum (render_all wt_whole_rows) (2, 0)%Z
    = Ok [83;85;77;40;51;58;53;41] /\                                         (* SUM(3:5) *)
  (* leaving the sheet: unchanged as a whole *)
  replace_cell_names ascii_alnum [65;58;66] (0, -1)%Z = Ok [65;58;66] /\
  replace_cell_names ascii_alnum [88;70;67;58;88;70;68] (0, 1)%Z = Ok [88;70;67;58;88;70;68] /\
  (* not ranges: a function or a sheet name after the ':' *)
  replace_cell_names ascii_alnum [65;58;73;70;40] (0, 1)%Z = Ok [65;58;73;70;40] /\
  replace_cell_names ascii_alnum [65;58;66;33;67;49] (0, 1)%Z = Ok [65;58;66;33;68;49].
Proof. vm_compute. repeat split. Qed.

Example sheet3d_fixed :
  wf_formula ascii_alnum wt_sheet3d = true /\ in_range wt_sheet3d (1, 0)%Z /\
  replace_cell_names ascii_alnum (render_all wt_sheet3d) (1, 0)%Z = Ok [81;49;58;81;51;33;65;50].  (* Q1:Q3!A2 *)
Proof. vm_compute. repeat split. Qed.

(* what the ':' condition of wf_formula excludes: the same text read as two names / two numbers *)
Example colon_ambiguity :
  wf_formula ascii_alnum [TName [65]; TSym 58; TName [66]] = false /\
  wf_formula ascii_alnum [TNum [49] None None; TSym 58; TNum [51] None None] = false /\
  wf_formula ascii_alnum [TRef false 0 false 0; TSym 58; TRef false 1 false 1] = true /\
  wf_formula ascii_alnum [TName [114;97;116;101]; TSym 58; TRef false 1 false 1] = true.
Proof. vm_compute. repeat split. Qed.

(* a sheet: block B2:D4 declared by C3 (the master in the middle, si 1), then a row B6:E6 (si 0,
   i.e. indices in decreasing document order); a member before its master, one outside its ref,
   one of an undeclared index *)
Definition ex_f1 : list token :=      (* $A21+F$1*LOG10(H22) *)
  [TRef true 0 false 20; TSym 43; TRef false 5 true 0; TSym 42; TFunc [76;79;71;49;48];
   TRef false 7 false 21; TSym 41].
Definition ex_g1 : group := mkGroup 1 (2, 2) (1, 1) (3, 3) ex_f1.
Definition ex_g0 : group := mkGroup 0 (5, 1) (5, 1) (5, 4) [TRef false 0 false 0; TSym 43; TNum [49] None None].
Definition ex_sheet : list scell :=
  [ SPlain (0, 0) [66;50]; SMember (1, 1) 1 [];
    SMaster ex_g1; SMember (2, 3) 1 []; SMember (3, 1) 1 []; SMember (3, 3) 1 [];
    SMaster ex_g0; SMember (5, 2) 0 []; SMember (5, 4) 0 [];
    SMember (6, 0) 0 [75]; SMember (7, 7) 9 [76]; SNone (8, 8) ].

Example group_covers_range_nonvacuous :
  sheet_okb ascii_alnum [] ex_sheet = true /\
  nth_error (spec_cells [] ex_sheet) 1 = Some ((1, 1), []) /\
  nth_error (spec_cells [] ex_sheet) 3
    = Some ((2, 3), render_all [TRef true 0 false 20; TSym 43; TRef false 6 true 0; TSym 42;
                                TFunc [76;79;71;49;48]; TRef false 8 false 21; TSym 41]) /\
  nth_error (spec_cells [] ex_sheet) 4
    = Some ((3, 1), render_all [TRef true 0 false 21; TSym 43; TRef false 4 true 0; TSym 42;
                                TFunc [76;79;71;49;48]; TRef false 6 false 22; TSym 41]) /\
  nth_error (spec_cells [] ex_sheet) 8
    = Some ((5, 4), render_all [TRef false 3 false 0; TSym 43; TNum [49] None None]) /\
  nth_error (spec_cells [] ex_sheet) 9 = Some ((6, 0), [75]).
Proof. vm_compute. repeat split. Qed.

(* SUM(A:A) shared along a row: every member gets its own column *)
Example group_whole_range_fixed :
  sheet_okb ascii_alnum [] [SMaster (mkGroup 0 (1, 1) (1, 1) (1, 3) [TFunc [83;85;77]; TColRange false 0 false 0; TSym 41]);
                            SMember (1, 2) 0 []; SMember (1, 3) 0 []] = true /\
  run_cells ascii_alnum [] (map encode_cell
    [SMaster (mkGroup 0 (1, 1) (1, 1) (1, 3) [TFunc [83;85;77]; TColRange false 0 false 0; TSym 41]);
     SMember (1, 2) 0 []; SMember (1, 3) 0 []])
  = Ok [((1, 1), [83;85;77;40;65;58;65;41]); ((1, 2), [83;85;77;40;66;58;66;41]);
        ((1, 3), [83;85;77;40;67;58;67;41])].
Proof. vm_compute. split; reflexivity. Qed.
