(* Meta: workbook metadata of the four readers (property C16) — sheet names, visibility, kind,
   defined names, date-system flag.

   M (models; one Rust loop = one recursive function, one match arm = one branch):
     xlsx  read_relationships, read_workbook              src/xlsx/mod.rs   (event level)
     xlsb  read_relationships (event level), read_workbook, RecordIter::read_type / fill_buffer,
           wide_str (Utf16.v), parse_formula (Ptg.v)       src/xlsb/mod.rs   (byte level)
     xls   parse_workbook globals loop, parse_sheet_metadata, parse_bof (version only),
           Lbl arm + read_unicode_string_no_cch, parse_defined_names, ExternSheet arm, Date1904
           arm, name -> sheet resolution through xtis      src/xls.rs        (byte level; record
           framing = BiffSst.records)
     ods   parse_content, read_named_expressions           src/ods.rs        (event level)
   The XML models start at the EVENT LIST quick-xml delivers (expand_empty_elements = true,
   trim_text(false), check_end_names = false); attribute values and text are already unescaped
   (for `r:id`, `Id`, `Target` calamine uses the raw bytes: the generators never put a character
   that needs escaping there).  zip / cfb containers are outside the model.
   S (spec): the logical workbook [workbook V] = ordered sheets (name, visibility, kind), ordered
     defined names, date-system flag; per-format expected report [spec_*].
   E (encoders): xlsx_wb_events / rels_events, xlsb_workbook_bin, xls_stream, ods_events, each with
     a choice record for the legal variation, [*_legal] and [known_*].
   Definitions only (executable); proofs are in Meta_proofs.v. *)
From Calamine Require Import Prelude BiffSst.
From Calamine Require Col26 Utf16 Ptg NumFmt FormulaEnv.
From Coq Require Strings.String Strings.Ascii.
Open Scope N_scope.
Set Implicit Arguments.

Definition str := list N.

Fixpoint str_eqb (a b : str) : bool :=
  match a, b with
  | [], [] => true
  | x :: a', y :: b' => (x =? y) && str_eqb a' b'
  | _, _ => false
  end.

Fixpoint starts_with (p s : str) : bool :=
  match p, s with
  | [], _ => true
  | x :: p', y :: s' => (x =? y) && starts_with p' s'
  | _ :: _, [] => false
  end.

(* ---------- literals ---------- *)
Module MLit.
Import Coq.Strings.String Coq.Strings.Ascii.
Fixpoint s2l (s : string) : list N :=
  match s with
  | EmptyString => []
  | String a r => N_of_ascii a :: s2l r
  end.
(* xlsx *)
Definition k_sheet : list N := Eval vm_compute in s2l "sheet"%string.
Definition k_sheets : list N := Eval vm_compute in s2l "sheets"%string.
Definition k_workbook : list N := Eval vm_compute in s2l "workbook"%string.
Definition k_workbookPr : list N := Eval vm_compute in s2l "workbookPr"%string.
Definition k_definedName : list N := Eval vm_compute in s2l "definedName"%string.
Definition k_definedNames : list N := Eval vm_compute in s2l "definedNames"%string.
Definition k_Relationship : list N := Eval vm_compute in s2l "Relationship"%string.
Definition k_Relationships : list N := Eval vm_compute in s2l "Relationships"%string.
Definition a_name : list N := Eval vm_compute in s2l "name"%string.
Definition a_state : list N := Eval vm_compute in s2l "state"%string.
Definition a_rid : list N := Eval vm_compute in s2l "r:id"%string.
Definition a_relid : list N := Eval vm_compute in s2l "relationships:id"%string.
Definition a_id : list N := Eval vm_compute in s2l "id"%string.
Definition a_r : list N := Eval vm_compute in s2l "r"%string.
Definition a_relationships : list N := Eval vm_compute in s2l "relationships"%string.
Definition a_date1904 : list N := Eval vm_compute in s2l "date1904"%string.
Definition a_Id : list N := Eval vm_compute in s2l "Id"%string.
Definition a_Target : list N := Eval vm_compute in s2l "Target"%string.
Definition a_Type : list N := Eval vm_compute in s2l "Type"%string.
Definition a_xmlns : list N := Eval vm_compute in s2l "xmlns"%string.
Definition v_visible : list N := Eval vm_compute in s2l "visible"%string.
Definition v_hidden : list N := Eval vm_compute in s2l "hidden"%string.
Definition v_veryHidden : list N := Eval vm_compute in s2l "veryHidden"%string.
Definition v_1 : list N := Eval vm_compute in s2l "1"%string.
Definition v_0 : list N := Eval vm_compute in s2l "0"%string.
Definition v_true : list N := Eval vm_compute in s2l "true"%string.
Definition v_false : list N := Eval vm_compute in s2l "false"%string.
Definition d_worksheets : list N := Eval vm_compute in s2l "worksheets"%string.
Definition d_chartsheets : list N := Eval vm_compute in s2l "chartsheets"%string.
Definition d_dialogsheets : list N := Eval vm_compute in s2l "dialogsheets"%string.
Definition d_macrosheets : list N := Eval vm_compute in s2l "macrosheets"%string.
Definition d_vba : list N := Eval vm_compute in s2l "vba"%string.
Definition s_xl_slash : list N := Eval vm_compute in s2l "xl/"%string.
Definition s_slash_xl_slash : list N := Eval vm_compute in s2l "/xl/"%string.
Definition ns_main : list N :=
  Eval vm_compute in s2l "http://schemas.openxmlformats.org/spreadsheetml/2006/main"%string.
Definition ns_rel : list N :=
  Eval vm_compute in s2l "http://schemas.openxmlformats.org/officeDocument/2006/relationships"%string.
Definition ns_pkg : list N :=
  Eval vm_compute in s2l "http://schemas.openxmlformats.org/package/2006/relationships"%string.
Definition t_rel : list N :=
  Eval vm_compute in s2l "http://schemas.openxmlformats.org/officeDocument/2006/relationships/worksheet"%string.
(* relationship types that name a sheet part: ECMA-376 transitional, ISO strict, Microsoft *)
Definition t_ws : list N := t_rel.
Definition t_ws_strict : list N :=
  Eval vm_compute in s2l "http://purl.oclc.org/ooxml/officeDocument/relationships/worksheet"%string.
Definition t_cs : list N :=
  Eval vm_compute in s2l "http://schemas.openxmlformats.org/officeDocument/2006/relationships/chartsheet"%string.
Definition t_cs_strict : list N :=
  Eval vm_compute in s2l "http://purl.oclc.org/ooxml/officeDocument/relationships/chartsheet"%string.
Definition t_ds : list N :=
  Eval vm_compute in s2l "http://schemas.openxmlformats.org/officeDocument/2006/relationships/dialogsheet"%string.
Definition t_ds_strict : list N :=
  Eval vm_compute in s2l "http://purl.oclc.org/ooxml/officeDocument/relationships/dialogsheet"%string.
Definition t_xlm : list N :=
  Eval vm_compute in s2l "http://schemas.microsoft.com/office/2006/relationships/xlMacrosheet"%string.
Definition t_xlim : list N :=
  Eval vm_compute in s2l "http://schemas.microsoft.com/office/2006/relationships/xlIntlMacrosheet"%string.
(* xlsb *)
Definition s_thiswb : list N := Eval vm_compute in s2l "#ThisWorkbook"%string.
Definition s_invalid : list N := Eval vm_compute in s2l "#InvalidWorkSheet"%string.
Definition s_unknown : list N := Eval vm_compute in s2l "#Unknown"%string.
(* xls *)
Definition s_ref : list N := Eval vm_compute in s2l "#REF"%string.
Definition s_ref_bang : list N := Eval vm_compute in s2l "#REF!"%string.
Definition s_empty_rgce : list N := Eval vm_compute in s2l "empty rgce"%string.
Definition s_unsupported : list N := Eval vm_compute in s2l "Unsupported ptg: "%string.
Definition s_xlnm : list N := Eval vm_compute in s2l "_xlnm."%string.
(* ods *)
Definition o_style : list N := Eval vm_compute in s2l "style:style"%string.
Definition o_style_name : list N := Eval vm_compute in s2l "style:name"%string.
Definition o_style_family : list N := Eval vm_compute in s2l "style:family"%string.
Definition o_tprops : list N := Eval vm_compute in s2l "style:table-properties"%string.
Definition o_display : list N := Eval vm_compute in s2l "table:display"%string.
Definition o_table : list N := Eval vm_compute in s2l "table:table"%string.
Definition o_tstyle : list N := Eval vm_compute in s2l "table:style-name"%string.
Definition o_tname : list N := Eval vm_compute in s2l "table:name"%string.
Definition o_nexprs : list N := Eval vm_compute in s2l "table:named-expressions"%string.
Definition o_nrange : list N := Eval vm_compute in s2l "table:named-range"%string.
Definition o_nexpr : list N := Eval vm_compute in s2l "table:named-expression"%string.
Definition o_cra : list N := Eval vm_compute in s2l "table:cell-range-address"%string.
Definition o_expr : list N := Eval vm_compute in s2l "table:expression"%string.
Definition o_doc : list N := Eval vm_compute in s2l "office:document-content"%string.
Definition o_autostyles : list N := Eval vm_compute in s2l "office:automatic-styles"%string.
Definition o_body : list N := Eval vm_compute in s2l "office:body"%string.
Definition o_spreadsheet : list N := Eval vm_compute in s2l "office:spreadsheet"%string.
Definition v_table : list N := Eval vm_compute in s2l "table"%string.
End MLit.
Export MLit.

Definition COLON : N := 58.
Definition SLASH : N := 47.
Definition BANG : N := 33.
Definition DOLLAR : N := 36.

(* ---------- what the readers report ---------- *)
Inductive vis : Type := Visible | Hidden | VeryHidden.
Inductive kind : Type := WorkSheet | DialogSheet | MacroSheet | ChartSheet | Vba.
Record meta : Type := mkMeta { m_name : str; m_vis : vis; m_kind : kind }.

(* Metadata { sheets, names } + the (name, path) table of xlsx / xlsb + self.is_1904 *)
Record parsed : Type := mkParsed {
  p_sheets : list meta;
  p_paths : list (str * str);
  p_names : list (str * str);
  p_1904 : bool
}.
Definition parsed0 : parsed := mkParsed [] [] [] false.
Definition add_sheet (st : parsed) (m : meta) (path : str) : parsed :=
  mkParsed (p_sheets st ++ [m]) (p_paths st ++ [(m_name m, path)]) (p_names st) (p_1904 st).
Definition add_name (st : parsed) (n v : str) : parsed :=
  mkParsed (p_sheets st) (p_paths st) (p_names st ++ [(n, v)]) (p_1904 st).
Definition set_names (st : parsed) (l : list (str * str)) : parsed :=
  mkParsed (p_sheets st) (p_paths st) l (p_1904 st).
Definition set_1904 (st : parsed) (b : bool) : parsed :=
  mkParsed (p_sheets st) (p_paths st) (p_names st) b.

(* error classes (only the class travels; both sides print "err") *)
Definition E_XML_EOF : N := 1.
Definition E_UNREC : N := 2.
Definition E_RELNF : N := 3.
Definition E_MISMATCH : N := 4.
Definition E_IO : N := 5.
Definition E_PARSEBOOL : N := 7.
Definition E_UNMODELLED : N := 99.

(* ---------- events ---------- *)
Definition attrs := list (str * str).
Inductive event : Type :=
| Start (name : str) (a : attrs)
| End (name : str)
| Text (s : str)
| CData (s : str)
| Other.                       (* comment, processing instruction, declaration, doctype *)

(* quick-xml QName::local_name: everything after the first ':' *)
Fixpoint after_colon (n : str) : option str :=
  match n with
  | [] => None
  | c :: r => if c =? COLON then Some r else after_colon r
  end.
Definition local_name (n : str) : str :=
  match after_colon n with Some r => r | None => n end.
Definition no_colon (n : str) : bool := forallb (fun c => negb (c =? COLON)) n.
Definition qn (pfx l : str) : str :=
  match pfx with [] => l | _ => pfx ++ COLON :: l end.

(* try_get_attribute / attributes().find(key == ..): the first attribute with that key *)
Fixpoint get_attribute (a : attrs) (k : str) : option str :=
  match a with
  | [] => None
  | (k', v) :: r => if str_eqb k' k then Some v else get_attribute r k
  end.

(* BTreeMap / HashMap used through insert + get only: an association list, newest first *)
Definition amap (V : Type) := list (str * V).
Fixpoint map_get (V : Type) (k : str) (m : amap V) : option V :=
  match m with
  | [] => None
  | (k', v) :: r => if str_eqb k' k then Some v else map_get k r
  end.
Definition map_insert (V : Type) (k : str) (v : V) (m : amap V) : amap V := (k, v) :: m.

(* path.split('/').nth(1) *)
Fixpoint after_slash (s : str) : option str :=
  match s with
  | [] => None
  | c :: r => if c =? SLASH then Some r else after_slash r
  end.
Fixpoint until_slash (s : str) : str :=
  match s with
  | [] => []
  | c :: r => if c =? SLASH then [] else c :: until_slash r
  end.
Definition seg1 (p : str) : option str := option_map until_slash (after_slash p).

Definition kind_of_path (p : str) : option kind :=
  match seg1 p with
  | Some d =>
    if str_eqb d d_worksheets then Some WorkSheet
    else if str_eqb d d_chartsheets then Some ChartSheet
    else if str_eqb d d_dialogsheets then Some DialogSheet
    else if str_eqb d d_macrosheets then Some MacroSheet
    else None
  | None => None
  end.

(* SheetType::from_relationship_type (lib.rs): the kind of sheet a workbook relationship Type
   names; None for every other type *)
Definition kind_of_rel_type (t : str) : option kind :=
  if str_eqb t t_ws || str_eqb t t_ws_strict then Some WorkSheet
  else if str_eqb t t_cs || str_eqb t t_cs_strict then Some ChartSheet
  else if str_eqb t t_ds || str_eqb t t_ds_strict then Some DialogSheet
  else if str_eqb t t_xlm || str_eqb t t_xlim then Some MacroSheet
  else None.

(* BTreeMap<Vec<u8>, (String, Option<SheetType>)>: relationship id -> (Target, sheet kind named by
   the Type) *)
Definition rmap := amap (str * option kind).

(* `match rel_typ { Some(t) => t, None => match path.split('/').nth(1) { .. } }`: the
   relationship type decides; the folder of the part only when the type names no sheet kind *)
Definition sheet_kind (rt : option kind) (path : str) : option kind :=
  match rt with Some k => Some k | None => kind_of_path path end.

(* ===================================================================================== *)
(** * xlsx *)

(* read_relationships: Start local_name "Relationship": Id (raw bytes, appended), Target, Type
   (through from_relationship_type); End local_name "Relationships" ends; Eof is an error *)
Fixpoint rel_attrs (a : attrs) (id target : str) (typ : option kind) : str * (str * option kind) :=
  match a with
  | [] => (id, (target, typ))
  | (k, v) :: r =>
    if str_eqb k a_Id then rel_attrs r (id ++ v) target typ
    else if str_eqb k a_Target then rel_attrs r id v typ
    else if str_eqb k a_Type then rel_attrs r id target (kind_of_rel_type v)
    else rel_attrs r id target typ
  end.

Fixpoint xlsx_read_relationships (evs : list event) (m : rmap) : outcome rmap :=
  match evs with
  | [] => Err E_XML_EOF
  | Start n a :: r =>
    if str_eqb (local_name n) k_Relationship then
      let '(id, tg) := rel_attrs a [] [] None in xlsx_read_relationships r (map_insert id tg m)
    else xlsx_read_relationships r m
  | End n :: r =>
    if str_eqb (local_name n) k_Relationships then Ok m else xlsx_read_relationships r m
  | _ :: r => xlsx_read_relationships r m
  end.

(* target -> zip path *)
Definition xlsx_path (r : str) : str :=
  if starts_with s_slash_xl_slash r then tl r
  else if starts_with s_xl_slash r then r
  else s_xl_slash ++ r.

(* key.prefix().is_some() && key.local_name() == b"id" (since the fix for F30: the relationship
   id under whatever prefix the document binds to the relationships namespace) *)
Definition is_rel_id (k : str) : bool :=
  match after_colon k with Some l => str_eqb l a_id | None => false end.

(* the attribute loop of a <sheet> element; rt = rel_typ, the kind the relationship type names *)
Fixpoint sheet_attrs (rels : rmap) (a : attrs) (name path : str) (v : vis) (rt : option kind)
  : outcome (str * str * vis * option kind) :=
  match a with
  | [] => Ok (name, path, v, rt)
  | (k, val) :: r =>
    if str_eqb k a_name then sheet_attrs rels r val path v rt
    else if str_eqb k a_state then
      if str_eqb val v_visible then sheet_attrs rels r name path Visible rt
      else if str_eqb val v_hidden then sheet_attrs rels r name path Hidden rt
      else if str_eqb val v_veryHidden then sheet_attrs rels r name path VeryHidden rt
      else Err E_UNREC
    else if is_rel_id k then
      match map_get val rels with
      | None => Err E_RELNF
      | Some (t, ty) => sheet_attrs rels r name (xlsx_path t) v ty
      end
    else sheet_attrs rels r name path v rt
  end.

Inductive xmode : Type :=
| XMain
| XName (q : str) (name : str) (value : str).   (* inside <definedName>: the inner loop *)

Definition date1904_value (a : attrs) : bool :=
  match get_attribute a a_date1904 with
  | Some c => str_eqb c v_1 || str_eqb c v_true
  | None => false
  end.
(* since 4b4b5ee an element named workbookPr without the attribute (x15:workbookPr in an
   extension list) leaves the flag alone *)
Definition has_date1904 (a : attrs) : bool :=
  match get_attribute a a_date1904 with Some _ => true | None => false end.

Fixpoint xlsx_wb_run (rels : rmap) (evs : list event) (mode : xmode) (st : parsed)
  : outcome parsed :=
  match evs with
  | [] => Err E_XML_EOF
  | ev :: r =>
    match mode with
    | XName q nm val =>
      match ev with
      | Text t => xlsx_wb_run rels r (XName q nm (val ++ t)) st
      | CData t => xlsx_wb_run rels r (XName q nm (val ++ t)) st
      | End n => if str_eqb n q then xlsx_wb_run rels r XMain (add_name st nm val)
                 else xlsx_wb_run rels r mode st
      | _ => xlsx_wb_run rels r mode st
      end
    | XMain =>
      match ev with
      | Start n a =>
        let l := local_name n in
        if str_eqb l k_sheet then
          do x <- sheet_attrs rels a [] [] Visible None;
          let '(name, path, v, rt) := x in
          match sheet_kind rt path with
          | None => Err E_UNREC
          | Some k => xlsx_wb_run rels r XMain (add_sheet st (mkMeta name v k) path)
          end
        else if str_eqb l k_workbookPr then
          xlsx_wb_run rels r XMain (if has_date1904 a then set_1904 st (date1904_value a) else st)
        else if str_eqb l k_definedName then
          match get_attribute a a_name with
          | Some nm => xlsx_wb_run rels r (XName n nm []) st
          | None => xlsx_wb_run rels r XMain st
          end
        else xlsx_wb_run rels r XMain st
      | End n => if str_eqb (local_name n) k_workbook then Ok st
                 else xlsx_wb_run rels r XMain st
      | _ => xlsx_wb_run rels r XMain st
      end
    end
  end.

Definition xlsx_read_workbook (rels : rmap) (evs : list event) : outcome parsed :=
  xlsx_wb_run rels evs XMain parsed0.

(* Xlsx::new as far as metadata goes: relationships first, then the workbook part *)
Definition xlsx_open (rel_evs wb_evs : list event) : outcome parsed :=
  do rels <- xlsx_read_relationships rel_evs [];
  xlsx_read_workbook rels wb_evs.

(* ===================================================================================== *)
(** * xlsb *)

(* read_relationships: exact name "Relationship"; inserted only with both Id and Target (with the
   sheet kind its Type names, if any); runs to Eof *)
Fixpoint brel_attrs (a : attrs) (id target : option str) (typ : option kind)
  : option str * option str * option kind :=
  match a with
  | [] => (id, target, typ)
  | (k, v) :: r =>
    if str_eqb k a_Id then brel_attrs r (Some v) target typ
    else if str_eqb k a_Target then brel_attrs r id (Some v) typ
    else if str_eqb k a_Type then brel_attrs r id target (kind_of_rel_type v)
    else brel_attrs r id target typ
  end.
Fixpoint xlsb_read_relationships (evs : list event) (m : rmap) : rmap :=
  match evs with
  | [] => m
  | Start n a :: r =>
    if str_eqb n k_Relationship then
      match brel_attrs a None None None with
      | (Some id, Some t, ty) => xlsb_read_relationships r (map_insert id (t, ty) m)
      | _ => xlsb_read_relationships r m
      end
    else xlsb_read_relationships r m
  | _ :: r => xlsb_read_relationships r m
  end.

(* RecordIter::read_u8 / read_type / fill_buffer over the remaining bytes of the part *)
Definition rd_u8 (s : bytes) : outcome (N * bytes) :=
  match s with [] => Err E_IO | b :: r => Ok (b, r) end.

Definition read_type (s : bytes) : outcome (N * bytes) :=
  do x <- rd_u8 s;
  let '(b, s1) := x in
  if 128 <=? b then
    do y <- rd_u8 s1;
    let '(b2, s2) := y in Ok (b mod 128 + (b2 mod 128) * 128, s2)
  else Ok (b, s1).

Definition read_len (s : bytes) : outcome (N * bytes) :=
  do x0 <- rd_u8 s;
  let '(b0, s0) := x0 in
  let l0 := b0 mod 128 in
  if b0 <? 128 then Ok (l0, s0) else
  do x1 <- rd_u8 s0;
  let '(b1, s1) := x1 in
  let l1 := l0 + (b1 mod 128) * 128 in
  if b1 <? 128 then Ok (l1, s1) else
  do x2 <- rd_u8 s1;
  let '(b2, s2) := x2 in
  let l2 := l1 + (b2 mod 128) * 16384 in
  if b2 <? 128 then Ok (l2, s2) else
  do x3 <- rd_u8 s2;
  let '(b3, s3) := x3 in
  Ok (l2 + (b3 mod 128) * 2097152, s3).

(* fill_buffer: the record body.  The reader keeps one buffer and only grows it, so bytes of
   earlier records survive behind the new body; since the hardening commits every access is
   bounded by the length fill_buffer returns, so only the body itself is modelled *)
Definition read_body (s : bytes) : outcome (bytes * bytes) :=
  do x <- read_len s;
  let '(n, s1) := x in
  if len s1 <? n then Err E_IO else Ok (take n s1, drop n s1).

(* &b[from..to] with the bounds established by the callers' length checks *)
Definition slice (b : bytes) (from to : N) : outcome bytes :=
  if (from <=? to) && (to <=? len b) then Ok (take (to - from) (drop from b)) else Panic.

Definition xlsb_vis (v : N) : option vis :=
  match v with 0 => Some Visible | 1 => Some Hidden | 2 => Some VeryHidden | _ => None end.

(* Encoding::decode sniffs a byte-order mark (UTF_16LE.decode on the relationship id): outside
   the model *)
Definition bom_prefix (b : bytes) : bool :=
  match b with
  | 255 :: 254 :: _ => true
  | 254 :: 255 :: _ => true
  | 239 :: 187 :: 191 :: _ => true
  | _ => false
  end.

Definition E_WIDESTR : N := 6.
(* wide_str: (text, bytes used); both length checks are errors *)
Definition wide_str_m (buf : bytes) : outcome (str * N) :=
  if len buf <? 4 then Err E_WIDESTR else Utf16.wide_str buf.

(* the BrtBundleSh arm on the record body; None = the record is skipped (relationship id NULL) *)
Definition bundle_sh (rels : rmap) (d : bytes) : outcome (option (meta * str)) :=
  let n := len d in
  if n <? 12 then Err E_UNREC else                       (* check_len *)
  do rel_len <- read_u32 (drop 8 d);
  if rel_len =? 4294967295 then Ok None else
  let rl := rel_len * 2 in
  if n <? 12 + rl then Err E_WIDESTR else
  let relid_b := take rl (drop 12 d) in
  if bom_prefix relid_b then Err E_UNMODELLED else
  match map_get (enc_decode relid_b) rels with
  | None => Err E_UNREC                                  (* relationships.get(..).ok_or(..) *)
  | Some (target, rt) =>
    let path := s_xl_slash ++ target in
    do hs <- read_u32 d;
    match xlsb_vis hs with
    | None => Err E_UNREC
    | Some v =>
      match sheet_kind rt path with
      | None => Err E_UNREC
      | Some k =>
        do w <- wide_str_m (drop (12 + rl) d);
        Ok (Some (mkMeta (fst w) v k, path))
      end
    end
  end.

(* first loop of read_workbook: up to BrtEndBundleShs *)
Fixpoint xlsb_loop1 (fuel : nat) (rels : rmap) (s : bytes) (st : parsed)
  : outcome (parsed * bytes) :=
  match fuel with
  | O => OutOfFuel
  | S f =>
    do x <- read_type s;
    let '(typ, s1) := x in
    do y <- read_body s1;
    let '(d, s2) := y in
    if typ =? 153 then                                   (* 0x0099 BrtWbProp *)
      match d with
      | [] => Err E_UNREC                                (* check_len("BrtWbProp", len, 1) *)
      | b0 :: _ => xlsb_loop1 f rels s2 (set_1904 st (N.odd b0))
      end
    else if typ =? 156 then                              (* 0x009C BrtBundleSh *)
      do r <- bundle_sh rels d;
      match r with
      | None => xlsb_loop1 f rels s2 st
      | Some (m, path) => xlsb_loop1 f rels s2 (add_sheet st m path)
      end
    else if typ =? 144 then Ok (st, s2)                  (* 0x0090 BrtEndBundleShs *)
    else xlsb_loop1 f rels s2 st
  end.

Fixpoint map_o (A B : Type) (f : A -> outcome B) (l : list A) : outcome (list B) :=
  match l with
  | [] => Ok []
  | x :: r => do y <- f x; do ys <- map_o f r; Ok (y :: ys)
  end.

Fixpoint nthN (A : Type) (l : list A) (i : N) : option A :=
  match l with
  | [] => None
  | x :: r => if i =? 0 then Some x else nthN r (i - 1)
  end.

(* one XTI of BrtExternSheet -> the name calamine puts in extern_sheets *)
Definition xti_name (sheets : list str) (xti : bytes) : outcome str :=
  do p <- read_i32 (drop 4 xti);
  do q <- read_i32 (drop 8 xti);
  Ok (if (p =? -2)%Z then s_thiswb
      else if (p =? -1)%Z then s_invalid
      else if (0 <=? p)%Z then
        (* quote_sheet_name(&sheets[p].0): the name as formula text writes it (Ptg.v); when lastSheet q
           names another sheet of the workbook: quote_sheet_span, First:Last (commit "fix: a 3-D reference
           through several sheets …") *)
        match nthN sheets (Z.to_N p) with
        | Some nm =>
            if negb (q =? p)%Z && (0 <=? q)%Z then
              match nthN sheets (Z.to_N q) with
              | Some nl => Ptg.quote_sheet_span nm nl
              | None => Ptg.quote_sheet_name nm
              end
            else Ptg.quote_sheet_name nm
        | None => s_unknown
        end
      else s_unknown).

(* firstn for a count that comes from the file (never converted to a huge unary number) *)
Definition firstN (A : Type) (n : N) (l : list A) : list A :=
  firstn (N.to_nat (N.min n (len l))) l.

(* slice::chunks_exact(k): only the complete pieces *)
Definition chunks_exact (k : nat) (l : bytes) : list bytes :=
  filter (fun c => Nat.eqb (length c) k) (chunks k l).

Definition is_end_type (t : N) : bool :=
  (t =? 157) || (t =? 549) || (t =? 397) || (t =? 384) || (t =? 154) || (t =? 594)
  || (t =? 553) || (t =? 155) || (t =? 132).

Section Xlsb.
Variable show_f64 : N -> list N.

(* parse_formula is C14's decoder model (Ptg.v, resynced to the hardened code: check_len / get /
   checked_sub, no panic site left: Ptg_total.no_panic_parse_formula_xlsb) *)
(* the BrtName arm on the record body: the name and its rgce (the formulas are decoded once every
   name is known: commit "fix: an xlsb defined name that uses a name stored after it lost that name") *)
Definition brt_name (d : bytes) : outcome (str * bytes) :=
  let n := len d in
  if n <? 9 then Err E_UNREC else
  do w <- wide_str_m (drop 9 d);
  let '(name, sl) := w in
  if n <? 13 + sl then Err E_UNREC else
  do rl <- read_u32 (drop (9 + sl) d);
  if n <? 13 + sl + rl then Err E_UNREC else
  Ok (name, take rl (drop (13 + sl) d)).

(* at the record that follows the names: every formula against the names of ALL BrtName records
   (collect::<Result<_, _>>: the first error in record order) *)
Definition decode_names (ext : list str) (names : list (str * bytes)) : outcome (list (str * str)) :=
  map_o (fun nr => do f <- Ptg.xlsb_parse_formula show_f64 (Ptg.Build_xlsb_env ext (map fst names) None) (snd nr);
                   Ok (fst nr, f)) names.

(* second loop: BrtExternSheet, BrtName, up to one of the records that follow the names *)
Fixpoint xlsb_loop2 (fuel : nat) (s : bytes) (sheets ext : list str)
         (names : list (str * bytes)) : outcome (list (str * str)) :=
  match fuel with
  | O => OutOfFuel
  | S f =>
    do x <- read_type s;
    let '(typ, s1) := x in
    if typ =? 362 then                                   (* 0x016A BrtExternSheet *)
      do y <- read_body s1;
      let '(d, s2) := y in
      if len d <? 4 then Err E_UNREC else
      do cxti <- read_u32 d;
      do ext' <- map_o (xti_name sheets) (firstN cxti (chunks_exact 12 (drop 4 d)));
      xlsb_loop2 f s2 sheets ext' names
    else if typ =? 39 then                               (* 0x0027 BrtName *)
      do y <- read_body s1;
      let '(d, s2) := y in
      do nf <- brt_name d;
      xlsb_loop2 f s2 sheets ext (names ++ [nf])
    else if is_end_type typ then decode_names ext names
    else
      do y <- read_body s1;
      let '(_, s2) := y in
      xlsb_loop2 f s2 sheets ext names
  end.

Definition xlsb_read_workbook (rels : rmap) (s : bytes) : outcome parsed :=
  do r <- xlsb_loop1 (S (length s)) rels s parsed0;
  let '(st, s1) := r in
  do names <- xlsb_loop2 (S (length s1)) s1 (map fst (p_paths st)) [] [];
  Ok (set_names st names).

Definition xlsb_open (rel_evs : list event) (s : bytes) : outcome parsed :=
  xlsb_read_workbook (xlsb_read_relationships rel_evs []) s.
End Xlsb.

(* ===================================================================================== *)
(** * xls *)

Definition E_LEN_ : N := 1.
Definition E_PASSWORD_ : N := 5.
Definition E_EOS_ : N := 2.

(* parse_sheet_metadata (BoundSheet8), Biff8 *)
Definition xls_sheet_metadata (data : bytes) : outcome (N * meta) :=
  if len data <? 6 then Err E_LEN_ else
  do pos <- read_u32 data;
  do v <- of_option (nth_error data 4);
  do vv <- match N.land v 3 with
           | 0 => Ok Visible | 1 => Ok Hidden | 2 => Ok VeryHidden | _ => Err E_UNREC
           end;
  do t <- of_option (nth_error data 5);
  do k <- match t with
          | 0 => Ok WorkSheet | 1 => Ok MacroSheet | 2 => Ok ChartSheet | 6 => Ok Vba
          | _ => Err E_UNREC
          end;
  do name <- parse_short_string (drop 6 data);
  Ok (pos, mkMeta (filter (fun c => negb (c =? 0)) name) vv k).

(* read_unicode_string_no_cch(encoding, buf, &cch, &mut s) — the text only *)
Definition read_ustr_nocch (buf : bytes) (cch : N) : list N :=
  let hb := match buf with b :: _ => N.odd b | [] => false end in
  let nbytes := if hb then 2 * cch else cch in
  let e := N.min (len buf) (1 + nbytes) in
  if 1 <? e then
    let '(_, _, s) := decode_to (take (e - 1) (drop 1 buf)) cch (Some hb) in s
  else [].

Definition hex_digit (d : N) : N := if d <? 10 then 48 + d else 87 + d.
Definition hex_lower (b : N) : list N :=        (* format!("{:x}", u8) *)
  if b <? 16 then [hex_digit b] else [hex_digit (b / 16); hex_digit (b mod 16)].

Definition is_ptg (p a b c : N) : bool := (p =? a) || (p =? b) || (p =? c).

Definition u16_in (b : bytes) (from : N) : outcome N :=
  do s <- slice b from (from + 2); read_u16 s.

(* parse_defined_names: one token, rendered through utils::push_cell_ref; a token shorter than
   its fixed operands is an error *)
Definition xls_defined_name (rgce : bytes) : outcome (option N * str) :=
  match rgce with
  | [] => Ok (None, s_empty_rgce)
  | ptg :: _ =>
    let expected := if is_ptg ptg 58 90 122 then 7
                    else if is_ptg ptg 59 91 123 then 11
                    else if is_ptg ptg 60 92 124 || is_ptg ptg 61 93 125 then 3 else 1 in
    if len rgce <? expected then Err E_LEN_ else
    if is_ptg ptg 58 90 122 then                          (* PtgRef3d *)
      do ixti <- u16_in rgce 1;
      do row <- u16_in rgce 3;
      do col <- u16_in rgce 5;
      do f <- Col26.push_cell_ref row col [];
      Ok (Some ixti, f)
    else if is_ptg ptg 59 91 123 then                     (* PtgArea3d *)
      do ixti <- u16_in rgce 1;
      do r1 <- u16_in rgce 3;
      do c1 <- u16_in rgce 7;
      do f1 <- Col26.push_cell_ref r1 c1 [];
      do r2 <- u16_in rgce 5;
      do c2 <- u16_in rgce 9;
      do f2 <- Col26.push_cell_ref r2 c2 (f1 ++ [COLON]);
      Ok (Some ixti, f2)
    else if is_ptg ptg 60 92 124 || is_ptg ptg 61 93 125 then   (* PtgRefErr3d / PtgAreaErr3d *)
      do ixti <- u16_in rgce 1;
      Ok (Some ixti, s_ref_bang)
    else Ok (None, s_unsupported ++ hex_lower ptg)
  end.

(* the Lbl arm *)
Definition xls_lbl (d : bytes) : outcome (str * (option N * str) * bytes) :=
  if len d <? 14 then Err E_LEN_ else
  let cch := nth 3 d 0 in
  do cce <- read_u16 (drop 4 d);
  if len d <? 14 + cce then Err E_LEN_ else
  (* fBuiltin (r.data[0] & 0x20): a one-character id of a built-in name becomes _xlnm.<Name>
     (FormulaEnv.builtin_fix mirrors the code; commit "fix: xls built-in defined names …") *)
  let name := FormulaEnv.builtin_fix (nth 0 d 0) (read_ustr_nocch (drop 14 d) cch) in
  (* the rgce follows the name (name_len = 1 + nbytes, what read_unicode_string_no_cch returns); what
     follows the rgce is its extra data rgcb (commit "fix: the formula of an xls defined name was taken
     from the end of its record …"; before: &r.data[r.data.len() - cce..]) *)
  let hb := match drop 14 d with b :: _ => N.odd b | [] => false end in
  let name_len := 1 + (if hb then 2 * cch else cch) in
  if len d <? 14 + name_len + cce then Err E_LEN_ else
  let rgce := take cce (drop (14 + name_len) d) in
  do f <- xls_defined_name rgce;
  Ok (name, f, rgce).              (* defined_names.push((name, formula, rgce.to_vec())) *)

Definition xls_xti (c : bytes) : outcome (N * N * N) :=
  do a <- read_u16 c;
  do b <- read_u16 (drop 2 c);
  do e <- read_u16 (drop 4 c);
  Ok (a, b, e).

(* parse_bof: is the stream read as Biff8? *)
Definition bof_is_biff8 (v dt : N) : bool :=
  if (v =? 512) || (v =? 2) || (v =? 7) || (v =? 768) || (v =? 1024) || (v =? 1280) then false
  else if v =? 0 then negb (dt =? 4096)
  else true.

Record xls_state : Type := mkXlsState {
  xg_sheets : list (N * meta);
  xg_names : list (str * (option N * str) * bytes);   (* name, first-token rendering, rgce *)
  xg_xtis : list (N * N * N);
  xg_1904 : bool
}.
Definition xls_state0 : xls_state := mkXlsState [] [] [] false.

(* the globals loop of parse_workbook over the records of the Workbook stream *)
Fixpoint xls_globals (recs : list (outcome rec_item)) (st : xls_state) : outcome xls_state :=
  match recs with
  | [] => Ok st
  | Err e :: _ => Err e
  | Panic :: _ => Panic
  | OutOfFuel :: _ => OutOfFuel
  | Ok (t, d, c) :: rest =>
    if t =? 47 then Err E_PASSWORD_                                  (* FilePass *)
    else if t =? 66 then                                             (* CodePage *)
      (* `if force_codepage.is_none() && !matches!(biff, Biff::Biff8) { encoding = .. }` (fix of
         audit-2 finding XLS-1): biff is Biff8 whenever this arm is reached — its initial value,
         and the BOF arm below answers E_UNMODELLED for every other version — so the record is
         length-checked and otherwise without effect, WHATEVER code page it names (BIFF8 strings
         are Unicode: [MS-XLS] 2.5.240 / 2.5.293 / 2.5.294).  Before the fix the code replaced the
         string decoder here and this model answered E_UNMODELLED for every value but 1200:
         exactly where the code was wrong. *)
      if len d <? 2 then Err E_LEN_ else xls_globals rest st
    else if t =? 34 then                                             (* Date1904 *)
      if len d <? 2 then Err E_LEN_ else
      do v <- read_u16 d;
      xls_globals rest (if v =? 1
                        then mkXlsState (xg_sheets st) (xg_names st) (xg_xtis st) true else st)
    else if t =? 1054 then                                           (* Format *)
      if len d <? 5 then Err E_LEN_ else xls_globals rest st
    else if t =? 224 then                                            (* XF *)
      if len d <? 4 then Err E_LEN_ else xls_globals rest st
    else if t =? 133 then                                            (* BoundSheet8 *)
      do pm <- xls_sheet_metadata d;
      xls_globals rest (mkXlsState (xg_sheets st ++ [pm]) (xg_names st) (xg_xtis st) (xg_1904 st))
    else if t =? 2057 then                                           (* BOF *)
      if len d <? 2 then Err E_LEN_ else
      do v <- read_u16 d;
      do dt <- (if 4 <=? len d then read_u16 (drop 2 d) else Ok 0);
      if bof_is_biff8 v dt then xls_globals rest st else Err E_UNMODELLED
    else if t =? 24 then                                             (* Lbl *)
      do nf <- xls_lbl d;
      xls_globals rest (mkXlsState (xg_sheets st) (xg_names st ++ [nf]) (xg_xtis st) (xg_1904 st))
    else if t =? 23 then                                             (* ExternSheet *)
      if len d <? 2 then Err E_LEN_ else
      do cxti <- read_u16 d;
      (* the XTI array goes on in the CONTINUE records of the record (commit "fix: the part of an xls
         ExternSheet record continued in CONTINUE records was ignored …") *)
      do xs <- map_o xls_xti (firstN cxti (chunks_exact 6 (drop 2 d ++ concat (conts_of c))));
      xls_globals rest (mkXlsState (xg_sheets st) (xg_names st) (xg_xtis st ++ xs) (xg_1904 st))
    else if t =? 252 then                                            (* SST *)
      do _ <- parse_sst (d, conts_of c);
      xls_globals rest st
    else if t =? 10 then Ok st                                       (* EOF *)
    else xls_globals rest st
  end.

(* xti_sheets(xtis.get(i), &fmla_sheet_names) — Ptg.sheet_name_xls: the sheet itab_first, quoted; the
   span First:Last when itab_last names another sheet; fmla_sheet_names = the BoundSheet8 names *)
Definition xls_sheet_of (st : xls_state) (i : N) : str :=
  Ptg.sheet_name_xls
    (Ptg.Build_xls_env (map (fun pm => m_name (snd pm)) (xg_sheets st)) [] (xg_xtis st) None) i.

(* after the loop (commit "xls defined names other than a single 3-D reference …"): the whole
   formula goes through the cell-formula decoder, with the names of every Lbl record at hand;
   what parse_formula rejects keeps the rendering of its first token:
     let mut cpf = (rgce.len() as u16).to_le_bytes().to_vec(); cpf.extend_from_slice(&rgce);
     if let Ok(full) = parse_formula(&cpf, &fmla_sheet_names, &lbl_names, &xtis, &encoding, None) { return (name, full) } *)
Definition xls_formula_env (st : xls_state) : Ptg.xls_env :=
  Ptg.Build_xls_env (map (fun pm => m_name (snd pm)) (xg_sheets st))
                    (map (fun nf => fst (fst nf)) (xg_names st)) (xg_xtis st) None.

Definition xls_first_token_text (st : xls_state) (f : option N * str) : str :=
  match fst f with
  | Some i => xls_sheet_of st i ++ [BANG] ++ snd f
  | None => snd f
  end.

Definition xls_resolve_one (show_f64 : N -> list N) (st : xls_state) (nf : str * (option N * str) * bytes)
  : outcome (str * str) :=
  let rgce := snd nf in
  match Ptg.xls_parse_formula show_f64 (xls_formula_env st) (le16 (len rgce) ++ rgce) with
  | Ok full => Ok (fst (fst nf), full)
  | Err _ => Ok (fst (fst nf), xls_first_token_text st (snd (fst nf)))
  | Panic => Panic
  | OutOfFuel => OutOfFuel
  end.

Definition xls_resolve (show_f64 : N -> list N) (st : xls_state) : outcome (list (str * str)) :=
  map_o (xls_resolve_one show_f64 st) (xg_names st).

(* parse_workbook as far as metadata goes; of the sheet loop only `&stream[pos..]` is kept (the
   substreams themselves are C02's domain and assumed well formed) *)
Definition xls_parse_workbook (show_f64 : N -> list N) (stream : bytes) : outcome parsed :=
  do st <- xls_globals (records stream) xls_state0;
  do names <- xls_resolve show_f64 st;
  if existsb (fun pm => len stream <? fst pm) (xg_sheets st) then Err E_EOS_ else
  Ok (mkParsed (map snd (xg_sheets st)) [] names (xg_1904 st)).

(* ===================================================================================== *)
(** * ods *)

Definition ostyles := list (option str * vis).
Fixpoint ostyle_get (k : option str) (m : ostyles) : option vis :=
  match m with
  | [] => None
  | (k', v) :: r =>
    let same := match k, k' with
                | Some a, Some b => str_eqb a b
                | None, None => true
                | _, _ => false
                end in
    if same then Some v else ostyle_get k r
  end.

(* read_named_expressions is called from parse_content (the document-global names) and, since
   the fix ODS-2, from read_table (the names whose scope is that sheet): [ret] is where it
   returns to.  Both callers `extend` defined_names with what it returns. *)
Inductive omode : Type :=
| OMain
| OTable (name : str) (v : vis)        (* inside read_table *)
| ONames (acc : list (str * str)) (ret : option (str * vis)).
                                       (* inside read_named_expressions; ret = the table being read *)

Record ods_state : Type := mkOds {
  od_meta : list meta;
  od_names : list (str * str);
  od_styles : ostyles;
  od_style_name : option str
}.
Definition ods_state0 : ods_state := mkOds [] [] [] None.

Fixpoint nexpr_attrs (a : attrs) (name formula : str) : str * str :=
  match a with
  | [] => (name, formula)
  | (k, v) :: r =>
    if str_eqb k o_tname then nexpr_attrs r v formula
    else if str_eqb k o_cra || str_eqb k o_expr then nexpr_attrs r name v
    else nexpr_attrs r name formula
  end.

Fixpoint ods_run (evs : list event) (mode : omode) (st : ods_state) : outcome ods_state :=
  match evs with
  | [] =>
    match mode with
    | OMain => Ok st
    | OTable _ _ => Err E_XML_EOF      (* OdsError::Eof("table:table") *)
    | ONames _ _ => Err E_MISMATCH
    end
  | ev :: r =>
    match mode with
    | OTable name v =>
      match ev with
      | End n =>
        if str_eqb n o_table then
          ods_run r OMain (mkOds (od_meta st ++ [mkMeta name v WorkSheet]) (od_names st)
                                 (od_styles st) (od_style_name st))
        else ods_run r mode st
      | Start n _ =>
        (* the names whose scope is this sheet (fix ODS-2).  The rows themselves are read by
           read_row (property C04): what stands inside them is not looked at here *)
        if str_eqb n o_nexprs then ods_run r (ONames [] (Some (name, v))) st
        else ods_run r mode st
      | _ => ods_run r mode st
      end
    | ONames acc ret =>
      match ev with
      | Start n a =>
        if str_eqb n o_nrange || str_eqb n o_nexpr then
          ods_run r (ONames (acc ++ [nexpr_attrs a [] []]) ret) st
        else Err E_MISMATCH
      | End n =>
        if str_eqb n o_nrange || str_eqb n o_nexpr then ods_run r mode st
        else if str_eqb n o_nexprs then
          ods_run r (match ret with Some (name, v) => OTable name v | None => OMain end)
                  (mkOds (od_meta st) (od_names st ++ acc) (od_styles st) (od_style_name st))
        else Err E_MISMATCH
      | Text _ | Other => ods_run r mode st      (* white space, comments (since the fix) *)
      | CData _ => Err E_MISMATCH
      end
    | OMain =>
      match ev with
      | Start n a =>
        if str_eqb n o_style then
          ods_run r OMain (mkOds (od_meta st) (od_names st) (od_styles st)
                                 (get_attribute a o_style_name))
        else if (match od_style_name st with Some _ => true | None => false end)
                && str_eqb n o_tprops then
          match get_attribute a o_display with
          | Some d =>
            if str_eqb d v_true then
              ods_run r OMain (mkOds (od_meta st) (od_names st)
                                     ((od_style_name st, Visible) :: od_styles st)
                                     (od_style_name st))
            else if str_eqb d v_false then
              ods_run r OMain (mkOds (od_meta st) (od_names st)
                                     ((od_style_name st, Hidden) :: od_styles st)
                                     (od_style_name st))
            else Err E_PARSEBOOL
          | None =>
            ods_run r OMain (mkOds (od_meta st) (od_names st)
                                   ((od_style_name st, Visible) :: od_styles st)
                                   (od_style_name st))
          end
        else if str_eqb n o_table then
          let v := match ostyle_get (get_attribute a o_tstyle) (od_styles st) with
                   | Some v => v | None => Visible end in
          match get_attribute a o_tname with
          | Some name => ods_run r (OTable name v) st
          | None => ods_run r OMain st
          end
        else if str_eqb n o_nexprs then ods_run r (ONames [] None) st
        else ods_run r OMain st
      | _ => ods_run r OMain st
      end
    end
  end.

Definition ods_parse_content (evs : list event) : outcome parsed :=
  do st <- ods_run evs OMain ods_state0;
  Ok (mkParsed (od_meta st) [] (od_names st) false).

(* ===================================================================================== *)
(** * where self.is_1904 goes: every numeric cell of every sheet (C10's plumbing functions) *)
Definition xlsx_sheet_values (p : parsed) (formats : list NumFmt.cell_format)
           (cells : list (option N * N)) : list NumFmt.data :=
  map (fun c => NumFmt.xlsx_cell_number formats (p_1904 p) (fst c) (snd c)) cells.
Definition xls_sheet_values (p : parsed) (formats : list NumFmt.cell_format)
           (cells : list (N * NumFmt.num)) : list NumFmt.data :=
  map (fun c => NumFmt.xls_cell_number formats (p_1904 p) (fst c) (snd c)) cells.
Definition xlsb_sheet_values (p : parsed) (formats : list NumFmt.cell_format)
           (cells : list (N * NumFmt.num)) : list NumFmt.data :=
  map (fun c => NumFmt.xlsb_cell_number formats (p_1904 p) (fst c) (snd c)) cells.

(* ===================================================================================== *)
(** * S — the logical workbook *)

Record workbook (V : Type) : Type := mkWb {
  wb_sheets : list meta;                 (* name, visibility, kind — in workbook order *)
  wb_names : list (str * V);             (* defined names in workbook order *)
  wb_1904 : bool
}.

Definition scalarb (c : N) : bool := Utf16.scalarb c.
Definition name_ok (s : str) : bool :=             (* Unicode scalar values, no NUL *)
  forallb (fun c => scalarb c && negb (c =? 0)) s.

(* ===================================================================================== *)
(** * E — xlsx *)

Definition vis_text (v : vis) : str :=
  match v with Visible => v_visible | Hidden => v_hidden | VeryHidden => v_veryHidden end.
Definition kind_dir (k : kind) : str :=
  match k with
  | WorkSheet => d_worksheets | ChartSheet => d_chartsheets | DialogSheet => d_dialogsheets
  | MacroSheet => d_macrosheets | Vba => d_vba
  end.
Definition tprefix (style : N) : str :=
  match style with 0 => [] | 1 => s_slash_xl_slash | _ => s_xl_slash end.
(* the Target attribute of a sheet relationship: the part name (relative to xl/; ANY name: the
   folders worksheets/, chartsheets/ … are a convention of the producers, not of the format) in
   one of the three spellings *)
Definition xlsx_target (style : N) (part : str) : str := tprefix style ++ part.

(* the Type attribute of the relationship of a sheet of kind k (ECMA-376 Part 1 12.3.24 / 12.3.2 /
   12.3.7, in the transitional or the strict namespace; MS-OFFMACRO2 2.2.1.4 / 2.2.1.5 for the two
   macro sheet flavours) — THIS is what tells the kind *)
Definition kind_rel_type (alt : bool) (k : kind) : str :=
  match k with
  | WorkSheet => if alt then t_ws_strict else t_ws
  | ChartSheet => if alt then t_cs_strict else t_cs
  | DialogSheet => if alt then t_ds_strict else t_ds
  | MacroSheet => if alt then t_xlim else t_xlm
  | Vba => []
  end.

Definition perm3 (A : Type) (p : N) (a b c : list A) : list A :=
  match p with
  | 0 => a ++ b ++ c | 1 => a ++ c ++ b | 2 => b ++ a ++ c
  | 3 => b ++ c ++ a | 4 => c ++ a ++ b | _ => c ++ b ++ a
  end.

Fixpoint split_cuts (cuts : list nat) (t : str) : list str :=
  match cuts with
  | [] => [t]
  | k :: r => firstn k t :: split_cuts r (skipn k t)
  end.

Record xs_choice : Type := mkXs {
  xs_rid : str; xs_tstyle : N;
  xs_part : str;                   (* part name relative to xl/: any folder(s), any file name *)
  xs_perm : N; xs_omit : bool;
  xs_pre : attrs; xs_post : attrs;
  xs_talt : bool                   (* strict namespace / xlIntlMacrosheet spelling of the Type *)
}.
Record xn_choice : Type := mkXn {
  xn_cuts : list nat; xn_cdata : bool; xn_comment : bool; xn_pre : attrs; xn_post : attrs
}.
Record xlsx_choice : Type := mkXc {
  xc_pfx : str;                    (* prefix of the main namespace ([] = default namespace) *)
  xc_rpfx : str;                   (* prefix bound to the relationships namespace *)
  xc_rels : list (str * (str * str));   (* the relationships part, in file order: (Id, (Target, Type)) *)
  xc_sheets : list xs_choice;
  xc_names : list xn_choice;
  xc_omit_pr : bool;               (* no workbookPr element when the flag is false *)
  xc_true : bool;                  (* "true"/"false" instead of "1"/"0" *)
  xc_pr_extra : attrs;
  xc_junk : list event             (* ignorable events, inserted between the elements *)
}.

Definition is_visible (v : vis) : bool := match v with Visible => true | _ => false end.

Definition sheet_events (pfx rpfx : str) (s : meta) (ch : xs_choice) : list event :=
  [Start (qn pfx k_sheet)
         (xs_pre ch ++
          perm3 (xs_perm ch) [(a_name, m_name s)]
                (if xs_omit ch && is_visible (m_vis s) then [] else [(a_state, vis_text (m_vis s))])
                [(qn rpfx a_id, xs_rid ch)] ++
          xs_post ch);
   End (qn pfx k_sheet)].

Definition name_pieces (ch : xn_choice) (t : str) : list event :=
  flat_map (fun p => (if xn_cdata ch then CData p else Text p) ::
                     (if xn_comment ch then [Other] else []))
           (split_cuts (xn_cuts ch) t).

Definition name_events (pfx : str) (n : str * str) (ch : xn_choice) : list event :=
  [Start (qn pfx k_definedName) (xn_pre ch ++ [(a_name, fst n)] ++ xn_post ch)]
  ++ name_pieces ch (snd n) ++ [End (qn pfx k_definedName)].

Definition bool_text (t b : bool) : str :=
  if b then (if t then v_true else v_1) else (if t then v_false else v_0).

Definition xmlns_attr (pfx : str) : str := match pfx with [] => a_xmlns | _ => a_xmlns ++ COLON :: pfx end.

Definition xlsx_wb_events (c : xlsx_choice) (wb : workbook str) : list event :=
  let pfx := xc_pfx c in
  let j := xc_junk c in
  [Other; Start (qn pfx k_workbook) [(xmlns_attr pfx, ns_main); (xmlns_attr (xc_rpfx c), ns_rel)]]
  ++ j
  ++ (if xc_omit_pr c && negb (wb_1904 wb) then []
      else [Start (qn pfx k_workbookPr)
                  (xc_pr_extra c ++ [(a_date1904, bool_text (xc_true c) (wb_1904 wb))]);
            End (qn pfx k_workbookPr)])
  ++ j
  ++ [Start (qn pfx k_sheets) []]
  ++ flat_map (fun sc => j ++ sheet_events pfx (xc_rpfx c) (fst sc) (snd sc))
              (combine (wb_sheets wb) (xc_sheets c))
  ++ j ++ [End (qn pfx k_sheets)] ++ j
  ++ [Start (qn pfx k_definedNames) []]
  ++ flat_map (fun nc => j ++ name_events pfx (fst nc) (snd nc))
              (combine (wb_names wb) (xc_names c))
  ++ j ++ [End (qn pfx k_definedNames)] ++ j
  ++ [End (qn pfx k_workbook)].

Definition rels_events (pfx : str) (junk : list event) (l : list (str * (str * str))) : list event :=
  [Other; Start (qn pfx k_Relationships) [(xmlns_attr pfx, ns_pkg)]]
  ++ flat_map (fun it => junk ++ [Start (qn pfx k_Relationship)
                                        [(a_Id, fst it); (a_Type, snd (snd it));
                                         (a_Target, fst (snd it))];
                                  End (qn pfx k_Relationship)]) l
  ++ junk ++ [End (qn pfx k_Relationships)].

(* the relationships part as a lookup table: a later entry with the same Id replaces an earlier
   one *)
Definition rels_raw (l : list (str * (str * str))) : amap (str * str) := rev l.
(* the map the reader builds from a relationships part listing l *)
Definition rel_entry (it : str * (str * str)) : str * (str * option kind) :=
  (fst it, (fst (snd it), kind_of_rel_type (snd (snd it)))).
Definition rels_map (l : list (str * (str * str))) : rmap := rev (map rel_entry l).

Definition junk_ok_xlsx (e : event) : bool :=
  match e with
  | Start n a => let l := local_name n in
                 negb (str_eqb l k_sheet || str_eqb l k_definedName)
                 && (negb (str_eqb l k_workbookPr) || negb (has_date1904 a))
  | End n => negb (str_eqb (local_name n) k_workbook)
  | _ => true
  end.
Definition junk_ok_rels (e : event) : bool :=
  match e with
  | Start n _ => negb (str_eqb (local_name n) k_Relationship)
  | End n => negb (str_eqb (local_name n) k_Relationships)
  | _ => true
  end.

Definition attr_free (keys : list str) (a : attrs) : bool :=
  forallb (fun kv => negb (existsb (str_eqb (fst kv)) keys)) a.
Definition no_slash (s : str) : bool := forallb (fun c => negb (c =? SLASH)) s.

Definition xlsx_kind_ok (k : kind) : bool := match k with Vba => false | _ => true end.

Definition keys_ok (a : attrs) : bool :=
  forallb (fun kv => negb (str_eqb (fst kv) a_name || str_eqb (fst kv) a_state || is_rel_id (fst kv))) a.

(* a part name written as a relative Target must not itself begin with xl/ or /xl/ (the reader
   takes such a Target for one of the other two spellings) *)
Definition xs_part_ok (style : N) (part : str) : bool :=
  match style with
  | 0 => negb (starts_with s_slash_xl_slash part || starts_with s_xl_slash part)
  | _ => true
  end.

(* the relationship the sheet element points at has the part as its Target and the Type of the
   sheet's kind *)
Definition xs_legal (rels : amap (str * str)) (s : meta) (ch : xs_choice) : bool :=
  xlsx_kind_ok (m_kind s)
  && xs_part_ok (xs_tstyle ch) (xs_part ch)
  && match map_get (xs_rid ch) rels with
     | Some (t, ty) => str_eqb t (xlsx_target (xs_tstyle ch) (xs_part ch))
                       && str_eqb ty (kind_rel_type (xs_talt ch) (m_kind s))
     | None => false
     end
  && keys_ok (xs_pre ch) && keys_ok (xs_post ch).
Definition xn_legal (ch : xn_choice) : bool :=
  attr_free [a_name] (xn_pre ch) && attr_free [a_name] (xn_post ch).

Fixpoint forallb2 (A B : Type) (f : A -> B -> bool) (l : list A) (m : list B) : bool :=
  match l, m with
  | [], [] => true
  | x :: l', y :: m' => f x y && forallb2 f l' m'
  | _, _ => false
  end.

Definition xlsx_legal (c : xlsx_choice) (wb : workbook str) : bool :=
  no_colon (xc_pfx c)
  && no_colon (xc_rpfx c) && negb (match xc_rpfx c with [] => true | _ => false end)
  && forallb junk_ok_xlsx (xc_junk c)
  && attr_free [a_date1904] (xc_pr_extra c)
  && forallb2 (xs_legal (rels_raw (xc_rels c))) (wb_sheets wb) (xc_sheets c)
  && forallb2 (fun _ ch => xn_legal ch) (wb_names wb) (xc_names c).

(* no known class is left for xlsx: F30 (relationship-id prefix) and the CDATA defined name were
   repaired (fix: commits on branch c16-fixes) *)

Definition spec_names_text (wb : workbook str) : list (str * str) := wb_names wb.

(* ===================================================================================== *)
(** * E — xlsb *)

Definition enc_type (t : N) : bytes := if t <? 128 then [t] else [t mod 128 + 128; t / 128].
Definition enc_len (n : N) : bytes :=
  if n <? 128 then [n]
  else if n <? 16384 then [n mod 128 + 128; n / 128]
  else if n <? 2097152 then [n mod 128 + 128; (n / 128) mod 128 + 128; n / 16384]
  else [n mod 128 + 128; (n / 128) mod 128 + 128; (n / 16384) mod 128 + 128; n / 2097152].
Definition brec (t : N) (body : bytes) : bytes := enc_type t ++ enc_len (len body) ++ body.
Definition brecs (l : list (N * bytes)) : bytes := flat_map (fun r => brec (fst r) (snd r)) l.

Definition xlsb_vis_code (v : vis) : N :=
  match v with Visible => 0 | Hidden => 1 | VeryHidden => 2 end.

Record bs_choice : Type := mkBs {
  bs_rid : str;
  bs_part : str;                       (* part name relative to xl/: any folder(s), any file name *)
  bs_tabid : N;
  bs_talt : bool                       (* strict namespace / xlIntlMacrosheet spelling of the Type *)
}.
Record xlsb_choice : Type := mkBc {
  bc_rels : list (str * (str * str));  (* relationships part in file order: (Id, (Target, Type)) *)
  bc_sheets : list bs_choice;
  bc_junk1 : list (N * bytes);         (* ignorable records of the first part *)
  bc_junk2 : list (N * bytes);         (* ignorable records after BrtEndBundleShs *)
  bc_omit_prop : bool;                 (* no BrtWbProp when the flag is false *)
  bc_flags_hi : N;                     (* the other bits of the first flag byte, / 2 *)
  bc_prop_rest : bytes;                (* rest of the BrtWbProp body *)
  bc_links : list (Ptg.suplink * bytes);
                                       (* the supporting links of the EXTERNALS block in record order, any number of
                                          any kind — BrtSupBookSrc, BrtSupSelf, BrtSupSame, BrtSupAddin — each with the
                                          body of its record; XTI.iSupBook counts them from 0 *)
  bc_xtis : list (N * N * N);          (* BrtExternSheet: (iSupBook, iSheetFirst, iSheetLast) *)
  bc_name_hdr : list (N * N * N);      (* per name: flags, chKey, itab *)
  bc_end : N;                          (* the record that follows the names *)
  bc_tail : bytes
}.

Definition bundle_body (s : meta) (ch : bs_choice) : bytes :=
  le32 (xlsb_vis_code (m_vis s)) ++ le32 (bs_tabid ch) ++ Utf16.enc_wide (bs_rid ch)
  ++ Utf16.enc_wide (m_name s).
Definition xti_bytes (x : N * N * N) : bytes :=
  le32 (fst (fst x)) ++ le32 (snd (fst x)) ++ le32 (snd x).

Definition name_body (n : str * Ptg.expr) (h : N * N * N) : bytes :=
  let rgce := Ptg.encode_xlsb (snd n) in
  le32 (fst (fst h)) ++ [snd (fst h)] ++ le32 (snd h) ++ Utf16.enc_wide (fst n)
  ++ le32 (len rgce) ++ rgce ++ le32 0 ++ le32 4294967295.

(* the records of the supporting links (MS-XLSB 2.1.7.53 EXTERNALS): BrtSupBookSrc 355, BrtSupSelf 357,
   BrtSupSame 358, BrtSupAddin 667 *)
Definition link_recs (l : list (Ptg.suplink * bytes)) : list (N * bytes) :=
  map (fun lp => (FormulaEnv.sup_type_xlsb (fst lp), snd lp)) l.

Definition xlsb_workbook_bin (c : xlsb_choice) (wb : workbook Ptg.expr) : bytes :=
  let j1 := brecs (bc_junk1 c) in
  let j2 := brecs (bc_junk2 c) in
  brec 131 [] ++ j1
  ++ (if bc_omit_prop c && negb (wb_1904 wb) then []
      else brec 153 ((2 * bc_flags_hi c + b2n (wb_1904 wb)) :: bc_prop_rest c))
  ++ j1 ++ brec 143 []
  ++ flat_map (fun sc => j1 ++ brec 156 (bundle_body (fst sc) (snd sc)))
              (combine (wb_sheets wb) (bc_sheets c))
  ++ j1 ++ brec 144 [] ++ j2
  ++ (match bc_xtis c with
      | [] => []
      | xs => brec 353 [] ++ brecs (link_recs (bc_links c))
              ++ brec 362 (le32 (len xs) ++ flat_map xti_bytes xs) ++ brec 354 []
      end)
  ++ flat_map (fun nh => j2 ++ brec 39 (name_body (fst nh) (snd nh)))
              (combine (wb_names wb) (bc_name_hdr c))
  ++ j2 ++ enc_type (bc_end c) ++ bc_tail c.

Definition xlsb_rels_events (junk : list event) (l : list (str * (str * str))) : list event :=
  rels_events [] junk l.

Definition xlsb_kind_ok (k : kind) : bool := match k with Vba => false | _ => true end.

Definition junk1_ok (r : N * bytes) : bool :=
  negb ((fst r =? 153) || (fst r =? 156) || (fst r =? 144)) && (fst r <? 16384)
  && (len (snd r) <? 268435456).
Definition junk2_ok (r : N * bytes) : bool :=
  negb ((fst r =? 362) || (fst r =? 39) || is_end_type (fst r)) && (fst r <? 16384)
  && (len (snd r) <? 268435456).

Definition bs_legal (rels : amap (str * str)) (s : meta) (ch : bs_choice) : bool :=
  xlsb_kind_ok (m_kind s) && name_ok (m_name s) && name_ok (bs_rid ch)
  && (bs_tabid ch <=? 4294967295)
  && (Utf16.utf16_len (m_name s) <? 65536) && (Utf16.utf16_len (bs_rid ch) <? 65536)
  && negb (bom_prefix (Utf16.bytes_le_of_units (Utf16.utf16_encode (bs_rid ch))))
  && match map_get (bs_rid ch) rels with
     | Some (t, ty) => str_eqb t (bs_part ch)
                       && str_eqb ty (kind_rel_type (bs_talt ch) (m_kind s))
     | None => false
     end.

(* the sheet names the XTIs resolve to (legal XTIs point at sheets of this workbook), as formula
   text writes them in front of '!' (Ptg.sheet_text: quoted when the grammar demands it) *)
Definition spec_ext (wb_sheet_names : list str) (xtis : list (N * N * N)) : list str :=
  map (fun x => match nthN wb_sheet_names (snd (fst x)), nthN wb_sheet_names (snd x) with
                | Some n, Some l => if snd (fst x) =? snd x then Ptg.sheet_text n else Ptg.span_text n l
                | Some n, None => Ptg.sheet_text n
                | None, _ => []
                end) xtis.

Section XlsbSpec.
Variable show_f64 : N -> list N.

(* expected defined names: every formula rendered with the XTI table and the names of the WHOLE
   table [all] (PtgName is an index into it; Excel stores the names sorted, so a name may well use one
   stored after it) *)
Definition spec_names_in (ext all : list str) (l : list (str * Ptg.expr)) : list (str * str) :=
  map (fun ne => (fst ne, Ptg.render_xlsb show_f64 (Ptg.Build_xlsb_env ext all None) (snd ne))) l.
Definition spec_names_xlsb (ext : list str) (l : list (str * Ptg.expr)) : list (str * str) :=
  spec_names_in ext (map fst l) l.

Definition name_wf_in (ext all : list str) (ne : str * Ptg.expr) : bool :=
  Ptg.wf_xlsb (Ptg.Build_xlsb_env ext all None) (snd ne) && name_ok (fst ne)
  && (Utf16.utf16_len (fst ne) <? 65536)
  && (len (Ptg.encode_xlsb (snd ne)) <? 268000000).
Definition names_wf_xlsb (ext : list str) (l : list (str * Ptg.expr)) : bool :=
  forallb (name_wf_in ext (map fst l)) l.
End XlsbSpec.

(* an XTI of this workbook: its supporting link — the iSupBook-th record of the EXTERNALS block — is BrtSupSelf
   or BrtSupSame (Ptg.xti_local), and then firstSheet and lastSheet name sheets of this workbook (a single
   sheet or a span of sheets).  XTIs through a link to another workbook are not in this domain: what they mean is
   said by Ptg.sheet_through_link, and the reader gets them wrong (property C14, known finding K_EXTERN_BOOK) *)
Definition xti_legal (links : list Ptg.suplink) (nsheets : N) (x : N * N * N) : bool :=
  (fst (fst x) <=? 2147483647) && (snd (fst x) <? nsheets) && (snd (fst x) <=? 2147483647)
  && (snd x <? nsheets) && (snd x <=? 2147483647) && Ptg.xti_local links x.

Definition hdr_legal (h : N * N * N) : bool :=
  (fst (fst h) <=? 4294967295) && (snd (fst h) <? 256) && (snd h <=? 4294967295).

Definition xlsb_legal (c : xlsb_choice) (wb : workbook Ptg.expr) : bool :=
  forallb junk1_ok (bc_junk1 c) && forallb junk2_ok (bc_junk2 c)
  && forallb2 (bs_legal (rels_raw (bc_rels c))) (wb_sheets wb) (bc_sheets c)
  && (bc_flags_hi c <? 128)
  && (len (bc_prop_rest c) <? 268435455)
  && forallb (xti_legal (map fst (bc_links c)) (len (wb_sheets wb))) (bc_xtis c)
  && forallb (fun lp => len (snd lp) <? 268435456) (bc_links c)
  && (len (bc_xtis c) <? 1000000)
  && forallb2 (fun _ h => hdr_legal h) (wb_names wb) (bc_name_hdr c)
  && names_wf_xlsb (spec_ext (map m_name (wb_sheets wb)) (bc_xtis c)) (wb_names wb)
  && is_end_type (bc_end c).

(* ===================================================================================== *)
(** * E — xls *)

Definition xls_vis_code (v : vis) : N :=
  match v with Visible => 0 | Hidden => 1 | VeryHidden => 2 end.
Definition xls_kind_code (k : kind) : N :=
  match k with WorkSheet => 0 | MacroSheet => 1 | ChartSheet => 2 | Vba => 6 | DialogSheet => 0 end.
Definition xls_kind_ok (k : kind) : bool := match k with DialogSheet => false | _ => true end.

(* value of a defined name in an xls file: any expression of C14's grammar (Ptg.expr) — a 3-D reference
   or area, a union of areas behind a PtgMemFunc (Print_Titles with rows and columns, a multi-area
   Print_Area), constants, other names, #REF! forms.  (Until audit 2 the value was [xref]: one 3-D token.) *)
Record ls_choice : Type := mkLs {
  ls_pos : N;                (* lbPlyPos *)
  ls_wide : bool;            (* 16-bit storage of the name *)
  ls_hi : N                  (* the six unused upper bits of the hsState byte (MS-XLS 2.4.28) *)
}.
Record ln_choice : Type := mkLn {
  ln_wide : bool; ln_flags : N; ln_key : N; ln_itab : N;
  ln_rgcb : bytes             (* NameParsedFormula = rgce ++ rgcb: the extra data behind the tokens (array
                                 constants, the areas of a PtgMemArea); any bytes *)
}.
Record xls_choice : Type := mkLc {
  lc_sheets : list ls_choice;
  lc_names : list ln_choice;
  lc_xtis : list (N * N * N);          (* ExternSheet: (iSupBook, itabFirst, itabLast) — any number *)
  lc_xcuts : list nat;                 (* sizes of the pieces of the XTI array in the ExternSheet record and in
                                          all but the last of its CONTINUE records (MS-XLS 2.4.105) *)
  lc_junk0 : list (N * bytes);         (* ignorable globals records, by position *)
  lc_junk1 : list (N * bytes);
  lc_junk2 : list (N * bytes);
  lc_junk3 : list (N * bytes);
  lc_omit_1904 : bool;                 (* no Date1904 record when the flag is false *)
  lc_tail : bytes                      (* the sheet substreams *)
}.

Definition frames (l : list (N * bytes)) : bytes := flat_map (fun r => frame (fst r) (snd r)) l.

Definition units_of (s : str) : list N := Utf16.utf16_encode s.

Definition bof_globals : bytes := [0; 6; 5; 0; 187; 13; 204; 7; 0; 0; 0; 0; 6; 3; 0; 0].

Definition boundsheet (s : meta) (ch : ls_choice) : bytes :=
  frame 133 (boundsheet_body (ls_pos ch) (xls_vis_code (m_vis s) + 4 * ls_hi ch)
                             (xls_kind_code (m_kind s)) (ls_wide ch) (units_of (m_name s))).

(* built-in names (MS-XLS 2.5.114): the logical name is "_xlnm." ++ Name (what xlsx and xlsb store);
   a Lbl record with fBuiltin (bit 5 of the flags) stores the one-character id instead *)
Definition builtin_full (id : N) : option str :=
  match FormulaEnv.builtin_name id with Some b => Some (s_xlnm ++ b) | None => None end.
Definition builtin_id (n : str) : option N :=
  find (fun id => match builtin_full id with Some f => str_eqb f n | None => false end)
       [0; 1; 2; 3; 4; 5; 6; 7; 8; 9; 10; 11; 12; 13].
Definition is_some (A : Type) (o : option A) : bool := match o with Some _ => true | None => false end.
(* the code units of the stored name *)
Definition lbl_units (n : str) (ch : ln_choice) : list N :=
  if N.testbit (ln_flags ch) 5
  then match builtin_id n with Some id => [id] | None => units_of n end
  else units_of n.

Definition xti6 (x : N * N * N) : bytes := le16 (fst (fst x)) ++ le16 (snd (fst x)) ++ le16 (snd x).

Definition lbl_body (n : str * Ptg.expr) (ch : ln_choice) : bytes :=
  let us := lbl_units (fst n) ch in
  let rgce := Ptg.encode_xls (snd n) in
  le16 (ln_flags ch) ++ [ln_key ch; len us] ++ le16 (len rgce) ++ [0; 0] ++ le16 (ln_itab ch)
  ++ [0; 0; 0; 0] ++ b2n (ln_wide ch) :: seg_bytes (ln_wide ch) us ++ rgce ++ ln_rgcb ch.

(* the XTI array cut into the piece that stays in the ExternSheet record and those of its CONTINUE records *)
Fixpoint xpieces (cuts : list nat) (b : bytes) : bytes * list bytes :=
  match cuts with
  | [] => (b, [])
  | c :: t => let '(p, ps) := xpieces t (skipn c b) in (firstn c b, p :: ps)
  end.
Definition extern_rec (xs : list (N * N * N)) (cuts : list nat) : bytes * list bytes :=
  let '(p0, ps) := xpieces cuts (flat_map xti6 xs) in (le16 (len xs) ++ p0, ps).

Definition xls_stream (c : xls_choice) (wb : workbook Ptg.expr) : bytes :=
  frame 2057 bof_globals
  ++ frames (lc_junk0 c)
  ++ (if lc_omit_1904 c && negb (wb_1904 wb) then [] else frame 34 (le16 (b2n (wb_1904 wb))))
  ++ frames (lc_junk1 c)
  ++ flat_map (fun sc => boundsheet (fst sc) (snd sc)) (combine (wb_sheets wb) (lc_sheets c))
  ++ frames (lc_junk2 c)
  ++ (match lc_xtis c with
      | [] => []
      | xs => frame 430 [1; 0; 1; 4] ++ frame_rec 23 (extern_rec xs (lc_xcuts c))
      end)
  ++ flat_map (fun nc => frame 24 (lbl_body (fst nc) (snd nc))) (combine (wb_names wb) (lc_names c))
  ++ frames (lc_junk3 c)
  ++ frame 10 [] ++ lc_tail c.

Definition xls_interpreted (t : N) : bool :=
  (t =? 47) || (t =? 66) || (t =? 34) || (t =? 1054) || (t =? 224) || (t =? 133) || (t =? 2057)
  || (t =? 24) || (t =? 23) || (t =? 252) || (t =? 10) || (t =? 60).
(* ignorable for the metadata: every record the globals loop does not interpret, well-formed
   XF / FORMAT records (interpreted for the cell styles only), and a CodePage record
   ([MS-XLS] 2.4.52: two bytes; the loop accepts any body of at least two) of ANY value at any
   place among the globals: Excel writes 1200 into every BIFF8 file, JExcelApi 1252
   (tests/sheet_name_parsing.xls), localised writers 932 / 936 / 949 / 950 / 125x / 65001, and a
   value no decoder table knows is as legal — BIFF8 text never goes through the code page.
   (Until audit 2 the record could not be written at all: 66 is an interpreted id, and the
   interpreted ids were excluded from the ignorable records wholesale.) *)
Definition xjunk_ok (r : N * bytes) : bool :=
  (negb (xls_interpreted (fst r)) || ((fst r =? 224) && (4 <=? len (snd r)))
   || ((fst r =? 1054) && (5 <=? len (snd r)))
   || ((fst r =? 66) && (2 <=? len (snd r))))
  && (fst r <? 65536) && (len (snd r) <=? 8224).

Definition wide_ok (wide : bool) (s : str) : bool := wide || forallb (fun c => c <? 256) s.

Definition ls_legal (s : meta) (ch : ls_choice) : bool :=
  xls_kind_ok (m_kind s) && name_ok (m_name s) && (len (units_of (m_name s)) <=? 255)
  && wide_ok (ls_wide ch) (m_name s) && (ls_pos ch <=? 4294967295) && (ls_hi ch <? 64).

(* the environment the names of the workbook are written against: the sheets, every name, the XTI table *)
Definition spec_env_xls (c : xls_choice) (wb : workbook Ptg.expr) : Ptg.xls_env :=
  Ptg.Build_xls_env (map m_name (wb_sheets wb)) (map fst (wb_names wb)) (lc_xtis c) None.

Definition ln_legal (env : Ptg.xls_env) (n : str * Ptg.expr) (ch : ln_choice) : bool :=
  name_ok (fst n) && (len (units_of (fst n)) <=? 255) && wide_ok (ln_wide ch) (fst n)
  && Ptg.wf_xls env (snd n) && (len (Ptg.encode_xls (snd n)) <? 65536)
  && (ln_flags ch <? 65536) && (ln_key ch <? 256) && (ln_itab ch <? 65536)
  (* fBuiltin is set exactly on records that store a built-in id *)
  && (negb (N.testbit (ln_flags ch) 5) || is_some (builtin_id (fst n)))
  (* the record is not continued *)
  && (len (lbl_body n ch) <=? 65535).

(* itabFirst is a sheet of this workbook; itabLast any value (another sheet: a span; itself; or nothing
   the workbook has: the reference then reads as its first sheet) *)
Definition xls_xti_legal (nsheets : N) (x : N * N * N) : bool :=
  (* iSupBook = 0: the one SupBook record this encoder writes (cch = 0x0401, this workbook) — the XTI's supporting
     link is this workbook (Ptg.xti_local [SupSelf]); files with several SupBook records in any order, and XTIs
     through a link to another workbook: property C14 (FormulaEnv.GSup, known finding K_EXTERN_BOOK) *)
  (fst (fst x) =? 0) && (snd (fst x) <? nsheets) && (snd (fst x) <? 32768) && (snd x <? 65536).

Definition xls_legal (c : xls_choice) (wb : workbook Ptg.expr) : bool :=
  forallb xjunk_ok (lc_junk0 c) && forallb xjunk_ok (lc_junk1 c)
  && forallb xjunk_ok (lc_junk2 c) && forallb xjunk_ok (lc_junk3 c)
  && forallb2 ls_legal (wb_sheets wb) (lc_sheets c)
  && forallb2 (ln_legal (spec_env_xls c wb)) (wb_names wb) (lc_names c)
  && forallb (xls_xti_legal (len (wb_sheets wb))) (lc_xtis c)
  (* cXTI is a 16-bit count; every piece of the array fits a record *)
  && (len (lc_xtis c) <=? 65535)
  && (len (fst (extern_rec (lc_xtis c) (lc_xcuts c))) <=? 65535)
  && forallb (fun p => len p <=? 65535) (snd (extern_rec (lc_xtis c) (lc_xcuts c)))
  && negb ((4 <? len (lc_tail c)) && (u16_at (lc_tail c) 0 =? 60))
  && forallb (fun ch => ls_pos ch <=? len (xls_stream c wb)) (lc_sheets c).

(* no known class is left for xls *)

(* the defined names of the workbook: every Lbl record in order, its value the A1 rendering of its
   expression — 3-D references through the XTI table to the sheet (or span of sheets) it names *)
Definition spec_names_xls (show_f64 : N -> list N) (c : xls_choice) (wb : workbook Ptg.expr) : list (str * str) :=
  map (fun n => (fst n, Ptg.render_xls show_f64 (spec_env_xls c wb) (snd n))) (wb_names wb).

(* ===================================================================================== *)
(** * E — ods *)

Definition ods_vis_ok (v : vis) : bool := match v with VeryHidden => false | _ => true end.
Definition ods_kind_ok (k : kind) : bool := match k with WorkSheet => true | _ => false end.

Record on_choice : Type := mkOn {
  on_expr : bool;              (* table:named-expression / table:expression instead of named-range *)
  on_swap : bool; on_pre : attrs; on_post : attrs
}.
(* a table:table element: its attributes, and its children — the columns, rows, shapes, forms …
   (opaque here: property C04 reads the rows) before and after the table:named-expressions
   element that holds the names whose scope is this sheet.  The schema puts that element last
   (ODF 1.2 part 1, 9.1.2); LibreOffice writes it first, before the columns: both positions, and
   any in between, are [os_content] / [os_after]. *)
Record os_choice : Type := mkOs {
  os_style : option str;       (* table:style-name of the table, if any *)
  os_pre : attrs; os_post : attrs;
  os_swap : bool;              (* style-name before name *)
  os_content : list event;     (* the children before the sheet's named-expressions element *)
  os_lnames : list on_choice;  (* how each sheet-scoped name is written *)
  os_lnames_junk : list event; (* white space / comments inside that element *)
  os_omit_lnames : bool;       (* no element when the sheet has no name of its own *)
  os_after : list event        (* the children after it *)
}.
Record ods_choice : Type := mkOc {
  oc_styles : list (str * option bool);    (* automatic table styles: name, table:display *)
  oc_sheets : list os_choice;
  oc_names : list on_choice;
  oc_junk : list event;                    (* ignorable events at the top level *)
  oc_names_junk : list event;              (* events inside table:named-expressions *)
  oc_omit_names : bool                     (* no named-expressions element when there is no name *)
}.

Definition style_events (s : str * option bool) : list event :=
  [Start o_style [(o_style_name, fst s); (o_style_family, v_table)];
   Start o_tprops (match snd s with
                   | Some b => [(o_display, if b then v_true else v_false)]
                   | None => []
                   end);
   End o_tprops; End o_style].

Definition nexpr_events (n : str * str) (ch : on_choice) : list event :=
  let el := if on_expr ch then o_nexpr else o_nrange in
  let a_n := [(o_tname, fst n)] in
  let a_v := [(if on_expr ch then o_expr else o_cra, snd n)] in
  [Start el (on_pre ch ++ (if on_swap ch then a_v ++ a_n else a_n ++ a_v) ++ on_post ch); End el].

(* a table:named-expressions element (global, or inside a table) *)
Definition nexprs_events (names : list (str * str)) (chs : list on_choice) (nj : list event)
           (omit : bool) : list event :=
  if omit && (match names with [] => true | _ => false end) then []
  else [Start o_nexprs []] ++ nj
       ++ flat_map (fun nc => nexpr_events (fst nc) (snd nc) ++ nj) (combine names chs)
       ++ [End o_nexprs].

(* S — the logical ods workbook: the sheets in order, each with the names whose scope it is, and
   the names whose scope is the document *)
Record ods_workbook : Type := mkOwb {
  ow_sheets : list (meta * list (str * str));
  ow_names : list (str * str)
}.
Definition ow_metas (wb : ods_workbook) : list meta := map fst (ow_sheets wb).
(* what defined_names reports: EVERY name of the document, in document order — the names of each
   sheet where its table stands, then the global ones (office:spreadsheet holds its
   table:named-expressions after the tables: ODF 1.2 part 1, 3.7) *)
Definition ow_all_names (wb : ods_workbook) : list (str * str) :=
  flat_map snd (ow_sheets wb) ++ ow_names wb.

Definition table_events (s : meta * list (str * str)) (ch : os_choice) : list event :=
  let a_st := match os_style ch with Some n => [(o_tstyle, n)] | None => [] end in
  let a_nm := [(o_tname, m_name (fst s))] in
  [Start o_table (os_pre ch ++ (if os_swap ch then a_st ++ a_nm else a_nm ++ a_st) ++ os_post ch)]
  ++ os_content ch
  ++ nexprs_events (snd s) (os_lnames ch) (os_lnames_junk ch) (os_omit_lnames ch)
  ++ os_after ch ++ [End o_table].

Definition ods_events (c : ods_choice) (wb : ods_workbook) : list event :=
  let j := oc_junk c in
  [Other; Start o_doc []] ++ j ++ [Start o_autostyles []]
  ++ flat_map (fun s => j ++ style_events s) (oc_styles c)
  ++ j ++ [End o_autostyles; Start o_body []; Start o_spreadsheet []]
  ++ flat_map (fun sc => j ++ table_events (fst sc) (snd sc)) (combine (ow_sheets wb) (oc_sheets c))
  ++ j
  ++ nexprs_events (ow_names wb) (oc_names c) (oc_names_junk c) (oc_omit_names c)
  ++ j ++ [End o_spreadsheet; End o_body; End o_doc].

(* visibility a style name resolves to, per ODF: the last definition of the name; no display
   attribute or no style = visible *)
Fixpoint style_vis (styles : list (str * option bool)) (n : str) (acc : vis) : vis :=
  match styles with
  | [] => acc
  | (k, d) :: r =>
    if str_eqb k n
    then style_vis r n (match d with Some false => Hidden | _ => Visible end)
    else style_vis r n acc
  end.

Definition junk_ok_ods (e : event) : bool :=
  match e with
  | Start n _ => negb (str_eqb n o_tprops || str_eqb n o_table || str_eqb n o_nexprs)
  | _ => true
  end.
(* the other children of a table (columns, rows, shapes …): the table's own end tag and a second
   named-expressions element cannot stand among them (a sub-table inside a cell could bring both:
   no spreadsheet producer writes sub-tables) *)
Definition content_ok (e : event) : bool :=
  match e with
  | End n => negb (str_eqb n o_table)
  | Start n _ => negb (str_eqb n o_nexprs)
  | _ => true
  end.
Definition on_legal (ch : on_choice) : bool :=
  attr_free [o_tname; o_cra; o_expr] (on_pre ch) && attr_free [o_tname; o_cra; o_expr] (on_post ch).

Definition names_junk_ok (e : event) : bool :=
  match e with Text _ | Other => true | _ => false end.

Definition os_legal (styles : list (str * option bool)) (sn : meta * list (str * str))
           (ch : os_choice) : bool :=
  let s := fst sn in
  ods_kind_ok (m_kind s) && ods_vis_ok (m_vis s)
  && (match os_style ch with
      | Some n => match m_vis s, style_vis styles n Visible with
                  | Visible, Visible => true | Hidden, Hidden => true | _, _ => false end
      | None => is_visible (m_vis s)
      end)
  && attr_free [o_tname; o_tstyle] (os_pre ch) && attr_free [o_tname; o_tstyle] (os_post ch)
  && forallb content_ok (os_content ch)
  && forallb2 (fun _ c => on_legal c) (snd sn) (os_lnames ch)
  && forallb names_junk_ok (os_lnames_junk ch)
  && forallb content_ok (os_after ch).

Definition ods_legal (c : ods_choice) (wb : ods_workbook) : bool :=
  forallb junk_ok_ods (oc_junk c)
  && forallb2 (os_legal (oc_styles c)) (ow_sheets wb) (oc_sheets c)
  && forallb2 (fun _ ch => on_legal ch) (ow_names wb) (oc_names c)
  && forallb names_junk_ok (oc_names_junk c).

(* no known class is left for ods (events inside table:named-expressions: repaired) *)

(* ===================================================================================== *)
(** * expected reports *)
Definition spec_parsed (sheets : list meta) (paths : list (str * str)) (names : list (str * str))
           (f : bool) : parsed := mkParsed sheets paths names f.

Definition xlsx_paths (c : xlsx_choice) (wb : workbook str) : list (str * str) :=
  map (fun sc => (m_name (fst sc), s_xl_slash ++ xs_part (snd sc)))
      (combine (wb_sheets wb) (xc_sheets c)).
Definition xlsb_paths (c : xlsb_choice) (wb : workbook Ptg.expr) : list (str * str) :=
  map (fun sc => (m_name (fst sc), s_xl_slash ++ bs_part (snd sc)))
      (combine (wb_sheets wb) (bc_sheets c)).
