#!/usr/bin/env python3
"""phase3.py [quick|thorough] [hash…] — detection power: reverts each hardening commit alone in the scratch
worktree /tmp/ag/c06/repo-mut and runs the C06 fault machinery WITHOUT the corpus of witnesses
(corpus is reported separately); records which reverts are caught."""
import subprocess, sys, json, os, re, time
MUT = "/tmp/ag/c06/repo-mut"
VERIF = "/tmp/ag/c06/verif"
OUT = "/tmp/ag/c06/verif/notes/C06_phase3.json"
def sh(cmd, cwd=MUT, timeout=3000, env=None):
    e = dict(os.environ); e.update(env or {})
    p = subprocess.run(cmd, shell=True, cwd=cwd, stdout=subprocess.PIPE, stderr=subprocess.STDOUT, text=True, timeout=timeout, env=e)
    return p.returncode, p.stdout
tier = sys.argv[1] if len(sys.argv) > 1 and sys.argv[1] in ("quick", "thorough") else "quick"
hashes = [a for a in sys.argv[1:] if a not in ("quick", "thorough")]
sh("git checkout -q --detach c06-hardening && git reset -q --hard")
if not hashes:
    rc, out = sh("git log --reverse --format=%h 63d231e~1..967e6ed")
    hashes = out.split()
res = json.load(open(OUT)) if os.path.exists(OUT) else {}
for h in hashes:
    key = h + ":" + tier
    if key in res:
        continue
    rc, subj = sh("git log -1 --format=%s " + h)
    rc, out = sh("git revert --no-commit " + h)
    if rc != 0:
        sh("git revert --abort; git reset -q --hard")
        res[key] = {"subject": subj.strip(), "result": "conflict"}
        print(h, "CONFLICT", subj.strip()[:80], flush=True)
        json.dump(res, open(OUT, "w"), indent=1)
        continue
    t0 = time.time()
    r = {}
    for what in ("corpus", "valid,systematic,random"):
        rc, out = sh("timeout 2400 python3 tools/c06_probe.py --tier %s --only %s" % (tier, what), cwd=VERIF, env={"VERIF_REPO": MUT})
        viol = re.findall(r"^VIOLATION (\w+) at (\S+)", out, re.M)
        r[what] = {"rc": rc, "keys": sorted({k for _, k in viol})}
        if rc not in (0, 1):
            r[what]["tail"] = out[-600:]
    sh("git reset -q --hard")
    r.update(subject=subj.strip(), result="caught" if r["valid,systematic,random"]["rc"] == 1 else "missed",
             corpus="caught" if r["corpus"]["rc"] == 1 else "missed", wall=round(time.time() - t0))
    res[key] = r
    print(h, r["result"].upper(), "corpus:" + r["corpus"], subj.strip()[:70], r["valid,systematic,random"]["keys"][:3], flush=True)
    json.dump(res, open(OUT, "w"), indent=1)
