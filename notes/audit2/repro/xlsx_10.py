# P10: tables, styles layouts, strings, cell forms
from xlsx_base import *
sst = DECL + ('<sst xmlns="%s" count="5" uniqueCount="5">' % NS
  + '<si><t>h1</t></si><si><t>h2</t></si>'
  + '<si><r><rPr><b/><sz val="11"/><color rgb="FFFF0000"/><rFont val="Calibri"/><family val="2"/><scheme val="minor"/></rPr><t xml:space="preserve">ri </t></r><r><t>ch</t></r><rPh sb="0" eb="2"><t>PHON</t></rPh><phoneticPr fontId="1" type="noConversion"/></si>'
  + '<si><t xml:space="preserve"> a&amp;b&#10;c_x000D__x005F_x0041_<![CDATA[<z>]]> </t><rPh sb="0" eb="1"><t>X</t></rPh></si><si/>'
  + '<extLst><ext uri="{x}"><x:t xmlns:x="urn:x">junk</x:t></ext></extLst></sst>')
data = ('<row r="1"><c r="A1" t="s"><v>0</v></c><c r="B1" t="s"><v>1</v></c></row>'
  '<row r="2"><c r="A2" t="s"><v>2</v></c><c r="B2" t="s"><v>3</v></c></row>'
  '<row r="3"><c r="A3" t="s"><v>4</v></c><c r="B3" t="inlineStr"><is><r><rPr><i/></rPr><t>in</t></r><r><t xml:space="preserve"> line</t></r></is></c></row>'
  '<row r="4"><c r="A4" t="str"><f>"x"&amp;CHAR(13)</f><v>x_x000D_</v></c><c r="B4" t="b"><v>1</v></c></row>'
  '<row r="5"><c r="A5" t="n"><v>5</v></c><c r="B5" t="e"><v>#N/A</v></c></row>')
tbl = DECL + ('<table xmlns="%s" xmlns:mc="http://schemas.openxmlformats.org/markup-compatibility/2006" mc:Ignorable="xr xr3" id="1" name="Tn" displayName="Tdisp" ref="A1:B5" totalsRowCount="1">' % NS
  + '<autoFilter ref="A1:B4"><filterColumn colId="0"><filters><filter val="x"/></filters></filterColumn></autoFilter><sortState ref="A2:B4"><sortCondition ref="A2:A4"/></sortState>'
  + '<tableColumns count="2"><tableColumn id="1" name="h1" totalsRowLabel="Total"/><tableColumn id="2" name="h2" totalsRowFunction="custom"><calculatedColumnFormula>Tdisp[[#This Row],[h1]]</calculatedColumnFormula><totalsRowFormula>SUM(Tdisp[h2])</totalsRowFormula></tableColumn></tableColumns>'
  + '<tableStyleInfo name="TableStyleMedium2"/><extLst><ext uri="{504A1905-F514-4f6f-8877-14C23A59335A}" xmlns:x14="http://schemas.microsoft.com/office/spreadsheetml/2009/9/main"><x14:table altText="alt" altTextSummary="s"/></ext></extLst></table>')
srel = lambda t: DECL + '<Relationships xmlns="%s"><Relationship Id="rId9" Type="%s/drawing" Target="../drawings/drawing1.xml"/><Relationship Id="rId1" Type="%s/table" Target="%s"/></Relationships>' % (PR, RNS, RNS, t)
post = '<mergeCells count="2"><mergeCell ref="A7:B8"/><mergeCell ref="D1"/></mergeCells><tableParts count="1"><tablePart r:id="rId1"/></tableParts>'
calls = ['tables', 'table ' + hx('Tdisp'), 'range ' + hx('Sheet1'), 'allmerges', 'merges ' + hx('Sheet1')]
print('-- realistic table + rich strings'); run(build('xlsx_10a.xlsx', sheet(data, post=post), sst=sst, more=[('xl/worksheets/_rels/sheet1.xml.rels', srel('../tables/table1.xml')), ('xl/tables/table1.xml', tbl)]), calls)
# table part beside the sheet: Target relative to the sheet's folder without ../
print('-- table target "tables/table1.xml" relative to xl/worksheets/'); run(build('xlsx_10b.xlsx', sheet(data, post=post), sst=sst, more=[('xl/worksheets/_rels/sheet1.xml.rels', srel('tables/table1.xml')), ('xl/worksheets/tables/table1.xml', tbl)]), calls[:2])
print('-- table target "table1.xml" (same folder)'); run(build('xlsx_10c.xlsx', sheet(data, post=post), sst=sst, more=[('xl/worksheets/_rels/sheet1.xml.rels', srel('table1.xml')), ('xl/worksheets/table1.xml', tbl)]), calls[:2])
print('-- table target "./../tables/table1.xml"'); run(build('xlsx_10d.xlsx', sheet(data, post=post), sst=sst, more=[('xl/worksheets/_rels/sheet1.xml.rels', srel('./../tables/table1.xml')), ('xl/tables/table1.xml', tbl)]), calls[:2])
# sheet part directly under xl/ (Target="sheet1.xml"), table in xl/tables (Target="tables/table1.xml")
parts = [('[Content_Types].xml', CT), ('_rels/.rels', ROOTRELS), ('xl/workbook.xml', workbook()), ('xl/_rels/workbook.xml.rels', wbrels((('rId1','worksheet','sheet1.xml'),))),
         ('xl/sheet1.xml', sheet(data, post=post)), ('xl/sharedStrings.xml', sst), ('xl/_rels/sheet1.xml.rels', srel('tables/table1.xml')), ('xl/tables/table1.xml', tbl)]
mkzip(OUT + 'xlsx_10e.xlsx', parts); print('-- sheet in xl/, table target tables/table1.xml'); run(OUT + 'xlsx_10e.xlsx', calls[:3])
# styles: numFmt inside dxf, cellStyleXfs with a date id, xf without numFmtId but with xfId, extLst
sty = DECL + ('<styleSheet xmlns="%s" xmlns:mc="http://schemas.openxmlformats.org/markup-compatibility/2006" mc:Ignorable="x14ac x16r2" xmlns:x14ac="http://schemas.microsoft.com/office/spreadsheetml/2009/9/ac">' % NS
  + '<numFmts count="2"><numFmt numFmtId="164" formatCode="0.0"/><numFmt numFmtId="165" formatCode="&quot;d&quot;0"/></numFmts><fonts count="1" x14ac:knownFonts="1"><font/></fonts><fills count="1"><fill/></fills><borders count="1"><border/></borders>'
  + '<cellStyleXfs count="2"><xf numFmtId="0"/><xf numFmtId="14"/></cellStyleXfs>'
  + '<cellXfs count="5"><xf numFmtId="0" xfId="0"/><xf numFmtId="14" xfId="0" applyNumberFormat="0"><alignment horizontal="center"/></xf><xf xfId="1"/><xf numFmtId="164"/><xf numFmtId="165"><protection locked="0"/></xf></cellXfs>'
  + '<cellStyles count="1"><cellStyle name="Normal" xfId="0" builtinId="0"/></cellStyles><dxfs count="1"><dxf><numFmt numFmtId="164" formatCode="yyyy"/></dxf></dxfs>'
  + '<extLst><ext uri="{x}" xmlns:x14="http://schemas.microsoft.com/office/spreadsheetml/2009/9/main"><x14:dxfs count="1"><x14:dxf><numFmt numFmtId="166" formatCode="hh:mm"/></x14:dxf></x14:dxfs></ext></extLst></styleSheet>')
row = ''.join('<c s="%d"><v>2</v></c>' % i for i in range(6))
print('-- styles layout (expect F, D(applyNumberFormat=0 still date in Excel), F(xfId only), F, F, F)'); run(build('xlsx_10f.xlsx', sheet('<row r="1">%s</row>' % row), sty=sty), ['range ' + hx('Sheet1')])
# cells the way various writers emit them
cells = ('<row r="1" spans="1:6" x14ac:dyDescent="0.25" xmlns:x14ac="urn:x"><c r="A1" cm="1" vm="2" ph="1"><f t="array" ref="A1" aca="1" ca="1">SUM(1)</f><v>1</v></c>'
  '<c r="B1" t="str"><f aca="false">"a"</f><v>a</v></c><c r="C1" t="n"><v></v></c><c r="D1" s="0"/><c r="E1" t="b"><v>true</v></c><c r="F1"><f>1/0</f></c></row>'
  '<row><c><v>7</v></c><c t="inlineStr"><is><t>x</t></is></c></row><row r="10"><c r="C10"><v>1e3</v></c><c><v>-0.5</v></c></row>')
print('-- cell forms'); run(build('xlsx_10g.xlsx', sheet(cells)), ['range ' + hx('Sheet1'), 'formula ' + hx('Sheet1')])
