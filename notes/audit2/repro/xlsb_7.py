# xlsb_7: tokens the Coq expression type (Ptg.expr) cannot express but Excel writes — does the xlsb decoder cope?
import subprocess, struct
VH = '/verif/.cache/target/debug/vh'
def ptg(b, sheets='-', names='-'):
    line = "x\tptg\txlsb\t%s\t%s\t%s\n" % (sheets, names, b.hex())
    out = subprocess.run([VH], input=line.encode(), stdout=subprocess.PIPE, stderr=subprocess.PIPE).stdout.decode().strip()
    r = out.split("\t", 1)[1]
    return ('ok:"' + bytes.fromhex(r[3:]).decode() + '"') if r.startswith('ok:') else r
def hx(s): return s.encode().hex()
ref = lambda r, c: b'\x44' + struct.pack('<IH', r, c | 0xC000)
i = lambda n: b'\x1e' + struct.pack('<H', n)
S = hx('Sheet1') + ',' + hx("'My Sheet'")
cases = [
 ('IFERROR(A1,0): PtgAttrIfError 0x19 0x80', ref(0, 0) + b'\x19\x80\x07\x00' + i(0) + b'\x19\x08\x03\x00' + b'\x42\x02\xe0\x01'),
 ('A1+#REF!  (PtgRefErr 0x2A)', ref(0, 0) + b'\x2a' + bytes(6) + b'\x03'),
 ('SUM(#REF!) (PtgAreaErr 0x2B)', b'\x2b' + bytes(12) + b'\x42\x01\x04\x00'),
 ('Sheet1!#REF! (PtgRefErr3d 0x3C)', b'\x3c\x00\x00' + bytes(6), S),
 ("'My Sheet'!#REF! (PtgAreaErr3d 0x3D)", b'\x3d\x01\x00' + bytes(12), S),
 ('SUM({1,2}) (PtgArray 0x60 + rgcb)', b'\x60' + bytes(14) + b'\x42\x01\x04\x00'),
 ('SUM(Table1[c]) (PtgList 0x18 0x19)', b'\x18\x19' + bytes(12) + b'\x42\x01\x04\x00'),
 ('[1]!ext (PtgNameX 0x39)', b'\x39\x01\x00\x01\x00\x00\x00', S),
]
for c in cases:
    nm, b = c[0], c[1]
    print('%-58s' % nm, ptg(b, *(c[2:] or ())))
