#!/usr/bin/env python3
"""xls whose workbook stream is called WORKBOOK / workbook / BOOK ([MS-CFB] 2.6.4: names are compared
after upper-casing; Apache POI accepts "Workbook", "WORKBOOK", "BOOK" because third-party writers produce them)."""
import sys; sys.path.insert(0, '/tmp/ag/audit2'); sys.path.insert(0, '/verif/tools')
from vhrun import vh, hx
import xlsgen as g
wb = {'sheets': [{'name': 'S1', 'cells': [{'k': 'number', 'r': 0, 'c': 0, 'v': 1.0}]}]}
for nm in ['Workbook', 'WORKBOOK', 'workbook', 'Book', 'BOOK']:
    p = '/tmp/ag/audit2/repro/out/cfb_name_%s.xls' % nm
    open(p, 'wb').write(g.write_xls(wb, {'stream_name': nm}))
    print('%-9s' % nm, vh('xls', p, ['sheets', 'range ' + hx('S1')]))
